(* EGraph/MatchFacts.v — THE E-MATCHER RETURNS COVERING SUBSTITUTIONS (model: EGraph/Rewrite.v).

   Premises of the main theorems (all executable or theorems about reachable states):
   - `inv3 s` (AddCoversFacts.v; `reachable_inv3`);
   - `kids_ok s` (MatchDefs.v; `kids_okb`): every stored shape has only slot names 0 mod 4 and every child invocation of
     a stored shape covers its class with a sorted map.  Kept by unions / rebuild / insertions / the applier phase:
     EGraph/KidsFacts.v;  true after every operation of the histories xT1..xT7 (vm_compute);
   - `m4 s` (Mod4Facts.v; `m4b`, `reachable_m4`): the counter, the class slots and the stored bijections are 1 mod 4;
   - `pat_pre (ectr s) p` (`pat_preb`): every slot name x of the pattern satisfies  x < ctr s  \/  x mod 4 <> 1, i.e. it is
     not a fresh slot still to be drawn ($n is 0 mod 4, a named slot 2 mod 4, $f<n> bumps the counter of the parser's
     table).  `pat_below` (MatchDefs.v) is the strict form x < ctr s.  NEEDED:
     `ematch_all_covers_needs_pat_below` (vm_compute): on the state {lam x. f(x,y)} (counter 17) the pattern
     (lam $f5 ?x) [slot 21] returns ?x := c0[1:=21, 5:=21]: `final_subst` draws the fresh slot 21 for the uncovered slot.
   No arity premise (`wf_pat`) is needed.

   Proved (closed under the global context):
   - GOAL 1.  `ematch_all_covers_pre` : inv3 s -> kids_ok s -> m4 s -> pat_pre (ectr s) p -> ematch_all p s = Ok (l, s') ->
        Forall (fun sb => sub_cov s' sb /\ sub_pre s' sb) l
     (`sub_cov`: every bound invocation covers its class, ProgressFacts.v; `sub_pre`: every value of every bound map is
     < ctr s' or not 1 mod 4).  `ematch_all_covers` (sub_cov only), `ematch_all_covers_m4` (w.r.t. s and s'),
     `ematch_all_covers_below` (strict: pat_below gives `sub_below`: all values < ctr s').
     Structure: `kid_mapv`/`kid_ren` (renaming the values of the child maps of a node by a capture-free renaming keeps
     `covers`), `stored_applied_kids` (children of sh[bij] cover), `trav_ext_ren` + `rn_trav` (the renaming pass of
     enodes_applied is `ren` by an injective final map into fresh slots), `ea_entry_kids`, `enodes_applied_kids`,
     `variants_cb` (group variants), `ematch_impl_ok` (induction on the pattern; invariant `st_ok`: bound invocations
     cover + their values are below the counter; values of the partial slot map are pattern slots), `extend_fresh_gen`,
     `final_go_cov` (final_subst composes with an injective extension of the partial slot map), `ematch_all_cov0`.
   - `searchers_ok_proved` : sched_sub sched -> inv3 s -> kids_ok s -> m4 s -> rules_pre (ectr s) rs ->
        searchers_ok sched rs s      (the premise of ProgressFacts.v; `sched_sub`: the schedule only reorders / drops;
        `rules_pre`: pat_pre of every left-hand side)
   - `apply_rewrites_false_unchanged_all` : ... -> apply_rewrites_sched sched rs s = Ok (false, s') ->
        same_graph s s' /\ total_number_of_nodes s' = total_number_of_nodes s /\ obs_same s s'
     (C15 on the model without the searchers premise); `apply_rewrites_false_unchanged_id` for `apply_rewrites`.
   - `h_ematch_all`, `h_pattern_subst`, `h_union_instantiations`, `h_apply_rewrites_sched`: m4 is kept by the matcher
     and by apply_rewrites.
   - Section GoodAll: `good2 rs s` = inv3 /\ pending = [] /\ kids_ok /\ m4 /\ rules_below (strict, both sides);
     `good2_good`, `apply_rewrites_false_unchanged_good`; under the hypothesis
        kids_step : good2 s -> apply_rewrites_sched sched rs s = Ok (b, s') -> kids_ok s'
     `good2_apply_total`, `good2_steps`, `run_saturated_same_graph_all`.
   - Section KidsStep: `kids_step` follows from the applier phase alone (`appliers_keep_kids_for RP`: the appliers keep
     kids_ok when started with `sub_ok` substitutions, for rules satisfying RP): `kids_step_proved`,
     `good2_steps_final`, `run_saturated_same_graph_final`.  KidsFacts.v proves `appliers_keep_kids_for` for rules
     without PSubst; EGraph/MatchAll.v assembles the closed statement `run_saturated_same_graph_nosubst`. *)
From SE Require Import Slots.SlotMapFacts Group.GroupSound Lang.LangFacts Lang.ShapeFacts Lang.RenameFacts
  Base.TextFacts Parse.Parser EGraph.Model EGraph.ModelFacts EGraph.ModelMachine EGraph.UnionFindFacts EGraph.InvariantFacts
  EGraph.UnionInvariantFacts EGraph.AddCoversFacts EGraph.MonotoneFacts EGraph.Mod4Facts EGraph.HashconsFacts
  EGraph.Rewrite EGraph.RewriteFacts EGraph.ProgressFacts EGraph.MatchDefs.
Require Import ZArith Lia ZifyBool ZifyN ZifyNat.

Local Notation "a ** b" := (compose_partial a b) (at level 40, left associativity).
Local Notation inv := inverse_nocheck.
Local Notation ectr := Model.ctr.

Local Ltac neq := repeat match goal with
  | H : (_ =? _) = true |- _ => apply N.eqb_eq in H
  | H : (_ =? _) = false |- _ => apply N.eqb_neq in H
  end.

(* ------------------------------------------------------------------ *)
(* 1. renaming the values of a slot map *)

Definition mapv (h : slot -> slot) (m : slotmap) : slotmap := map (fun kv => (fst kv, h (snd kv))) m.

Lemma ren_vals_mapv : forall g bd m, ren_vals g bd m = mapv (fun v => g (unbound bd v) v) m.
Proof. reflexivity. Qed.

Lemma get_mapv : forall h m k, get (mapv h m) k = option_map h (get m k).
Proof.
  intros h. induction m as [|[k' v'] t IH]; intros k; cbn [mapv map get fst snd]; [reflexivity|].
  destruct (k =? k'); [reflexivity|]. apply IH.
Qed.

Lemma wf_mapv : forall h m, wf m -> wf (mapv h m).
Proof.
  intros h. induction m as [|[k v] t IH]; intros W; cbn [mapv map wf fst snd] in *; [exact I|].
  destruct W as [L W]. split; [|apply IH; exact W].
  destruct t as [|[k' v'] t']; cbn [map lb fst snd] in *; [exact I|exact L].
Qed.

Lemma values_vec_mapv : forall h m, values_vec (mapv h m) = map h (values_vec m).
Proof. intros h m. unfold values_vec, mapv. rewrite !map_map. reflexivity. Qed.

Lemma get_values_vec : forall m k v, get m k = Some v -> In v (values_vec m).
Proof. intros m k v G. apply get_in in G. unfold values_vec. change v with (snd (k, v)). apply in_map. exact G. Qed.

Lemma kid_mapv : forall s a h, kid_ok s a -> inj_on h (values_vec (am a)) ->
  kid_ok s {| aid := aid a; am := mapv h (am a) |}.
Proof.
  intros s a h [(c & Hc & Inj & Sub) W] Hh. split; [|cbn [am]; apply wf_mapv; exact W].
  exists c. cbn [aid am]. split; [exact Hc|]. split.
  - intros k1 k2 v G1 G2. rewrite get_mapv in G1, G2.
    destruct (get (am a) k1) as [u1|] eqn:E1; [|discriminate]. destruct (get (am a) k2) as [u2|] eqn:E2; [|discriminate].
    cbn [option_map] in G1, G2. inversion G1 as [G1']. inversion G2 as [G2'].
    assert (u1 = u2) by (apply Hh; [eapply get_values_vec; eauto|eapply get_values_vec; eauto|congruence]).
    subst u2. eapply Inj; eauto.
  - intros k Hk. rewrite get_mapv. specialize (Sub k Hk). destruct (get (am a) k); [discriminate|congruence].
Qed.

(* ------------------------------------------------------------------ *)
(* 2. the children of a renamed node *)

Lemma ren_f_kids : forall g a bd a', In a' (app_occ_f (ren_f g bd a)) ->
  exists a0 bd', In a0 (app_occ_f a) /\ a' = {| aid := aid a0; am := ren_vals g bd' (am a0) |} /\
     (forall b, In b bd' -> In b bd \/ In b (binders_f a)) /\
     (forall v, In v (values_vec (am a0)) -> In (v, unbound bd' v) (occ_flags_f bd a)).
Proof.
  intros g. induction a as [s|x|s b IH|p]; intros bd a' Hin; cbn [ren_f app_occ_f] in Hin; try contradiction.
  - destruct Hin as [<-|[]]. exists x, bd. split; [left; reflexivity|]. split; [reflexivity|]. split; [auto|].
    intros v Hv. cbn [occ_flags_f]. apply in_map_iff. exists v. split; [reflexivity|exact Hv].
  - destruct (IH (s :: bd) a' Hin) as (a0 & bd' & H1 & H2 & H3 & H4). exists a0, bd'.
    split; [exact H1|]. split; [exact H2|]. split.
    + intros b0 Hb0. cbn [binders_f]. destruct (H3 b0 Hb0) as [[<-|Q]|Q]; [right; left; reflexivity|left; exact Q|right; right; exact Q].
    + intros v Hv. cbn [occ_flags_f]. right. apply H4. exact Hv.
Qed.

Lemma ren_kids : forall g n a', In a' (app_occ (ren g n)) ->
  exists a0 bd, In a0 (app_occ n) /\ a' = {| aid := aid a0; am := ren_vals g bd (am a0) |} /\
    (forall b, In b bd -> In b (binders n)) /\
    (forall v, In v (values_vec (am a0)) -> In (v, unbound bd v) (occ_flags n)).
Proof.
  intros g n a' Hin. unfold app_occ, ren in Hin. cbn [nargs] in Hin.
  apply in_flat_map in Hin. destruct Hin as (fa' & Hfa & Hin). apply in_map_iff in Hfa. destruct Hfa as (fa & <- & Hfa).
  destruct (ren_f_kids g fa [] a' Hin) as (a0 & bd & H1 & H2 & H3 & H4). exists a0, bd.
  split; [unfold app_occ; apply in_flat_map; exists fa; split; assumption|]. split; [exact H2|]. split.
  - intros b Hb. destruct (H3 b Hb) as [[]|Q]. unfold binders. apply in_flat_map. exists fa. split; assumption.
  - intros v Hv. unfold occ_flags. apply in_flat_map. exists fa. split; [assumption|apply H4; exact Hv].
Qed.

Lemma occ_flags_false_binder : forall bd v, unbound bd v = false -> In v bd.
Proof. exact unbound_false_in. Qed.

(* a capture-free renaming (the three conditions of RenameFacts.ren_spec) keeps the children covering *)
Lemma kid_ren : forall s g n,
  Forall (kid_ok s) (app_occ n) ->
  inj_on (g false) (binders n) ->
  (forall x b, In x (pub_occ n) -> In b (binders n) -> x <> b -> g true x <> g false b) ->
  inj_on (g true) (pub_occ n) ->
  Forall (kid_ok s) (app_occ (ren g n)).
Proof.
  intros s g n K C1 C2 C3. apply Forall_forall. intros a' Hin.
  destruct (ren_kids g n a' Hin) as (a0 & bd & H1 & -> & H3 & H4).
  rewrite ren_vals_mapv. apply kid_mapv; [exact (proj1 (Forall_forall _ _) K a0 H1)|].
  intros v1 v2 Hv1 Hv2 E. pose proof (H4 v1 Hv1) as F1. pose proof (H4 v2 Hv2) as F2.
  destruct (unbound bd v1) eqn:U1, (unbound bd v2) eqn:U2.
  - apply C3; [apply occ_flags_true_pub; exact F1|apply occ_flags_true_pub; exact F2|exact E].
  - exfalso. apply (C2 v1 v2); [apply occ_flags_true_pub; exact F1|apply H3, unbound_false_in; exact U2| |exact E].
    intros ->. apply (unbound_true_notin _ _ U1). apply unbound_false_in. exact U2.
  - exfalso. apply (C2 v2 v1); [apply occ_flags_true_pub; exact F2|apply H3, unbound_false_in; exact U1| |symmetry; exact E].
    intros ->. apply (unbound_true_notin _ _ U2). apply unbound_false_in. exact U1.
  - apply C1; [apply H3, unbound_false_in; exact U1|apply H3, unbound_false_in; exact U2|exact E].
Qed.

(* where the values of the children of a renamed node come from *)
Lemma ren_kid_vals : forall g n a' v, In a' (app_occ (ren g n)) -> In v (values_vec (am a')) ->
  exists v0 b, v = g b v0 /\ In (v0, b) (occ_flags n) /\ (b = false -> In v0 (binders n)).
Proof.
  intros g n a' v Hin Hv. destruct (ren_kids g n a' Hin) as (a0 & bd & H1 & -> & H3 & H4).
  cbn [am] in Hv. rewrite ren_vals_mapv, values_vec_mapv in Hv. apply in_map_iff in Hv. destruct Hv as (v0 & <- & Hv0).
  exists v0, (unbound bd v0). split; [reflexivity|]. split; [apply H4; exact Hv0|].
  intros U. apply H3. apply unbound_false_in. exact U.
Qed.

(* ------------------------------------------------------------------ *)
(* 3. the e-node sh[bij] of a stored entry has covering children *)

Lemma stored_applied_kids : forall s i c sh bij src x0,
  nodes_ok s -> kids_ok s -> bij4 s -> get_class s i = Ok c -> In (sh, (bij, src)) (c_nodes c) ->
  apply_slotmap false bij sh = Ok x0 -> Forall (kid_ok s) (app_occ x0).
Proof.
  intros s i c sh bij src x0 N K B4 Hc Hin Ha.
  destruct (K i c _ Hc Hin) as [M4 Kd]. cbn [fst] in M4, Kd.
  destruct (N i c _ Hc Hin) as (Wb & Ib & _ & _). cbn [fst snd] in Wb, Ib.
  pose proof (apply_slotmap_total _ _ _ Ha) as Tot.
  rewrite (apply_slotmap_ren _ _ _ Ha). apply kid_ren; [exact Kd| | |].
  - intros x y _ _ E. exact E.
  - intros x b Hx Hb _ E. unfold asm_g in E. destruct (get bij x) as [y|] eqn:G; [|apply (Tot x Hx); exact G].
    pose proof (B4 i c sh bij src x y Hc Hin G) as Y1. pose proof (M4 b (binders_all_occ _ _ Hb)) as Y0. subst y. lia.
  - intros x y Hx Hy E. unfold asm_g in E.
    destruct (get bij x) as [u|] eqn:Gx; [|exfalso; apply (Tot x Hx); exact Gx].
    destruct (get bij y) as [v|] eqn:Gy; [|exfalso; apply (Tot y Hy); exact Gy]. subst v. eapply Ib; eauto.
Qed.

(* ------------------------------------------------------------------ *)
(* 4. a state-passing traversal whose answers are determined by the final state is a renaming *)

Section TravExt.
  Context {S : Type} (f : bool -> slot -> S -> slot * S) (g : S -> bool -> slot -> slot)
          (Inv : S -> Prop) (ext : S -> S -> Prop) (D : S -> slot -> Prop).
  Hypothesis ext_refl : forall st, ext st st.
  Hypothesis ext_trans : forall a b c, ext a b -> ext b c -> ext a c.
  Hypothesis Hstep : forall b s st, Inv st ->
    Inv (snd (f b s st)) /\ ext st (snd (f b s st)) /\ fst (f b s st) = g (snd (f b s st)) b s /\ D (snd (f b s st)) s.
  Hypothesis Hstable : forall st st' b s, ext st st' -> D st s -> D st' s /\ g st' b s = g st b s.

  Lemma te_vals : forall bound m st, Inv st ->
    Inv (snd (trav_vals f bound m st)) /\ ext st (snd (trav_vals f bound m st)) /\
    fst (trav_vals f bound m st) = ren_vals (g (snd (trav_vals f bound m st))) bound m /\
    (forall v, In v (values_vec m) -> D (snd (trav_vals f bound m st)) v).
  Proof.
    intros bound. induction m as [|[k v] t IH]; intros st I0; cbn [trav_vals].
    - cbn [fst snd]. split; [exact I0|]. split; [apply ext_refl|]. split; [reflexivity|]. intros v [].
    - pose proof (Hstep (negb (existsb (N.eqb v) bound)) v st I0) as (I1 & E1 & G1 & D1).
      destruct (f (negb (existsb (N.eqb v) bound)) v st) as [v' st1]. cbn [fst snd] in *.
      pose proof (IH st1 I1) as (I2 & E2 & G2 & D2).
      destruct (trav_vals f bound t st1) as [t' st2]. cbn [fst snd] in *.
      split; [exact I2|]. split; [eapply ext_trans; eauto|]. split.
      + unfold ren_vals. cbn [map fst snd]. unfold ren_vals in G2. rewrite <- G2.
        rewrite (proj2 (Hstable st1 st2 _ v E2 D1)), <- G1. reflexivity.
      + intros w [<-|Hw]; [exact (proj1 (Hstable st1 st2 true v E2 D1))|apply D2; exact Hw].
  Qed.

  Lemma te_f : forall a bound st, Inv st ->
    Inv (snd (trav_f f bound a st)) /\ ext st (snd (trav_f f bound a st)) /\
    fst (trav_f f bound a st) = ren_f (g (snd (trav_f f bound a st))) bound a /\
    (forall v, In v (all_occ_f a) -> D (snd (trav_f f bound a st)) v).
  Proof.
    induction a as [s|x|s b IH|p]; intros bound st I0; cbn [trav_f].
    - pose proof (Hstep (negb (existsb (N.eqb s) bound)) s st I0) as (I1 & E1 & G1 & D1).
      destruct (f (negb (existsb (N.eqb s) bound)) s st) as [s' st1]. cbn [fst snd] in *.
      split; [exact I1|]. split; [exact E1|]. split; [cbn [ren_f]; rewrite G1; reflexivity|].
      intros v [<-|[]]. exact D1.
    - pose proof (te_vals bound (am x) st I0) as (I1 & E1 & G1 & D1).
      destruct (trav_vals f bound (am x) st) as [m' st1]. cbn [fst snd] in *.
      split; [exact I1|]. split; [exact E1|]. split; [cbn [ren_f]; rewrite G1; reflexivity|exact D1].
    - pose proof (Hstep false s st I0) as (I1 & E1 & G1 & D1).
      destruct (f false s st) as [s' st1]. cbn [fst snd] in *.
      pose proof (IH (s :: bound) st1 I1) as (I2 & E2 & G2 & D2).
      destruct (trav_f f (s :: bound) b st1) as [b' st2]. cbn [fst snd] in *.
      split; [exact I2|]. split; [eapply ext_trans; eauto|]. split.
      + cbn [ren_f]. rewrite G2, (proj2 (Hstable st1 st2 false s E2 D1)), <- G1. reflexivity.
      + intros v [<-|Hv]; [exact (proj1 (Hstable st1 st2 true s E2 D1))|apply D2; exact Hv].
    - cbn [fst snd]. split; [exact I0|]. split; [apply ext_refl|]. split; [reflexivity|]. intros v [].
  Qed.

  Lemma te_args : forall l st, Inv st ->
    Inv (snd (trav_args f l st)) /\ ext st (snd (trav_args f l st)) /\
    fst (trav_args f l st) = map (ren_f (g (snd (trav_args f l st))) []) l /\
    (forall v, In v (flat_map all_occ_f l) -> D (snd (trav_args f l st)) v).
  Proof.
    induction l as [|a t IH]; intros st I0; cbn [trav_args].
    - cbn [fst snd]. split; [exact I0|]. split; [apply ext_refl|]. split; [reflexivity|]. intros v [].
    - pose proof (te_f a [] st I0) as (I1 & E1 & G1 & D1).
      destruct (trav_f f [] a st) as [a' st1]. cbn [fst snd] in *.
      pose proof (IH st1 I1) as (I2 & E2 & G2 & D2).
      destruct (trav_args f t st1) as [t' st2]. cbn [fst snd] in *.
      split; [exact I2|]. split; [eapply ext_trans; eauto|]. split.
      + cbn [map]. rewrite G2, G1. f_equal. apply ren_f_ext. intros s b Hin.
        assert (Hs : In s (all_occ_f a)).
        { rewrite <- (flags_all_f a []). change s with (fst (s, b)). apply in_map. exact Hin. }
        symmetry. exact (proj2 (Hstable st1 st2 b s E2 (D1 s Hs))).
      + intros v Hv. cbn [flat_map] in Hv. apply in_app_or in Hv. destruct Hv as [Hv|Hv].
        * exact (proj1 (Hstable st1 st2 true v E2 (D1 v Hv))).
        * apply D2. exact Hv.
  Qed.

  Theorem trav_ext_ren : forall n st, Inv st ->
    Inv (snd (trav f n st)) /\ ext st (snd (trav f n st)) /\
    fst (trav f n st) = ren (g (snd (trav f n st))) n /\
    (forall v, In v (all_occ n) -> D (snd (trav f n st)) v).
  Proof.
    intros n st I0. unfold trav. pose proof (te_args (nargs n) st I0) as (I1 & E1 & G1 & D1).
    destruct (trav_args f (nargs n) st) as [l st1]. cbn [fst snd] in *.
    split; [exact I1|]. split; [exact E1|]. split; [unfold ren; rewrite G1; reflexivity|exact D1].
  Qed.
End TravExt.

(* ------------------------------------------------------------------ *)
(* 5. the renaming pass of enodes_applied: every name that is not a slot of the class gets a fresh name *)

Definition rnF (cs : sset) (_ : bool) (s : slot) (st : slotmap * N) : slot * (slotmap * N) :=
  if sset_mem s cs then (s, st)
  else match get (fst st) s with
       | Some v => (v, st)
       | None => (snd st, (insert s (snd st) (fst st), snd st + 4))
       end.
Definition rnG (cs : sset) (st : slotmap * N) (_ : bool) (s : slot) : slot :=
  if sset_mem s cs then s else match get (fst st) s with Some v => v | None => s end.
Definition rnInv (c0 : N) (st : slotmap * N) : Prop :=
  c0 <= snd st /\ (forall k v, get (fst st) k = Some v -> c0 <= v < snd st) /\ injective (fst st).
Definition rnExt (st st' : slotmap * N) : Prop :=
  snd st <= snd st' /\ forall k v, get (fst st) k = Some v -> get (fst st') k = Some v.
Definition rnD (cs : sset) (st : slotmap * N) (s : slot) : Prop := sset_mem s cs = true \/ get (fst st) s <> None.

Lemma rn_step : forall cs c0 b s st, rnInv c0 st ->
  rnInv c0 (snd (rnF cs b s st)) /\ rnExt st (snd (rnF cs b s st)) /\
  fst (rnF cs b s st) = rnG cs (snd (rnF cs b s st)) b s /\ rnD cs (snd (rnF cs b s st)) s.
Proof.
  intros cs c0 b s [rho c] (L & V & Inj). unfold rnF, rnG, rnD, rnInv, rnExt. cbn [fst snd] in *.
  destruct (sset_mem s cs) eqn:Em; cbn [fst snd].
  - rewrite ?Em. split; [split; [exact L|split; [exact V|exact Inj]]|]. split; [split; [lia|auto]|]. split; [reflexivity|left; reflexivity].
  - destruct (get rho s) as [v|] eqn:G; cbn [fst snd].
    + rewrite ?Em, ?G. split; [split; [exact L|split; [exact V|exact Inj]]|]. split; [split; [lia|auto]|].
      split; [reflexivity|right; congruence].
    + rewrite ?Em. rewrite ?get_insert_any, ?N.eqb_refl. split; [|split; [|split; [reflexivity|right; discriminate]]].
      * split; [lia|]. split.
        -- intros k v Gk. rewrite get_insert_any in Gk. destruct (k =? s); [inversion Gk; subst; lia|].
           pose proof (V k v Gk). lia.
        -- intros k1 k2 v G1 G2. rewrite get_insert_any in G1, G2.
           destruct (k1 =? s) eqn:E1, (k2 =? s) eqn:E2; neq.
           ++ congruence.
           ++ inversion G1; subst v. pose proof (V k2 c G2). lia.
           ++ inversion G2; subst v. pose proof (V k1 c G1). lia.
           ++ eapply Inj; eauto.
      * split; [lia|]. intros k v Gk. rewrite get_insert_any. destruct (k =? s) eqn:E; neq; [congruence|exact Gk].
Qed.

Lemma rn_stable : forall cs st st' (b : bool) s, rnExt st st' -> rnD cs st s ->
  rnD cs st' s /\ rnG cs st' b s = rnG cs st b s.
Proof.
  intros cs st st' b s [_ E] [Dm|Dg]; unfold rnD, rnG.
  - rewrite Dm. split; [left; reflexivity|reflexivity].
  - destruct (get (fst st) s) as [v|] eqn:G; [|congruence]. rewrite (E s v G).
    split; [right; discriminate|reflexivity].
Qed.

Lemma rn_trav : forall cs x c0,
  rnInv c0 (snd (trav (rnF cs) x ([], c0))) /\
  fst (trav (rnF cs) x ([], c0)) = ren (rnG cs (snd (trav (rnF cs) x ([], c0)))) x /\
  (forall v, In v (all_occ x) -> rnD cs (snd (trav (rnF cs) x ([], c0))) v).
Proof.
  intros cs x c0.
  pose proof (trav_ext_ren (rnF cs) (rnG cs) (rnInv c0) rnExt (rnD cs)) as T.
  assert (I0 : rnInv c0 ([], c0)).
  { split; [cbn [snd]; lia|]. split; [intros k v G; discriminate G|intros k1 k2 v G; discriminate G]. }
  destruct (T (fun st => conj (N.le_refl _) (fun k v G => G))
              (fun a b c (H1 : rnExt a b) (H2 : rnExt b c) =>
                 conj (N.le_trans _ _ _ (proj1 H1) (proj1 H2)) (fun k v G => proj2 H2 k v (proj2 H1 k v G)))
              (rn_step cs c0) (rn_stable cs) x ([], c0) I0) as (A & _ & C & D).
  split; [exact A|]. split; [exact C|exact D].
Qed.

(* the renaming is injective on the names it has seen, when the class slots are older than the counter *)
Lemma rnG_inj : forall cs c0 st b b' x y, rnInv c0 st -> (forall z, In z cs -> z < c0) ->
  rnD cs st x -> rnD cs st y -> rnG cs st b x = rnG cs st b' y -> x = y.
Proof.
  intros cs c0 [rho c] b b' x y (L & V & Inj) Hcs Dx Dy E. unfold rnG, rnD in *. cbn [fst snd] in *.
  destruct (sset_mem x cs) eqn:Ex, (sset_mem y cs) eqn:Ey.
  - exact E.
  - destruct Dy as [Dy|Dy]; [discriminate|]. destruct (get rho y) as [v|] eqn:Gy; [|congruence].
    apply sset_mem_in in Ex. pose proof (Hcs x Ex). pose proof (V y v Gy). lia.
  - destruct Dx as [Dx|Dx]; [discriminate|]. destruct (get rho x) as [v|] eqn:Gx; [|congruence].
    apply sset_mem_in in Ey. pose proof (Hcs y Ey). pose proof (V x v Gx). lia.
  - destruct Dx as [Dx|Dx]; [discriminate|]. destruct Dy as [Dy|Dy]; [discriminate|].
    destruct (get rho x) as [u|] eqn:Gx; [|congruence]. destruct (get rho y) as [v|] eqn:Gy; [|congruence].
    subst v. eapply Inj; eauto.
Qed.

(* ------------------------------------------------------------------ *)
(* 6. enodes_applied, entry by entry *)

Definition fresh_outside (ai : slotmap) : list slot -> slotmap -> M slotmap :=
  fix go (l : list slot) (m : slotmap) : M slotmap :=
    match l with
    | [] => ret m
    | sl :: t => if contains_key ai sl then go t m
                 else dom f <- Model.fresh; go t (insert sl f m)
    end.

Lemma fo_cons : forall ai sl t m, fresh_outside ai (sl :: t) m =
  if contains_key ai sl then fresh_outside ai t m else dom f <- Model.fresh; fresh_outside ai t (insert sl f m).
Proof. reflexivity. Qed.

Definition ea_entry (i : appid) (c : eclass) (e : node * (slotmap * N)) : M node :=
  let '(sh, (bij, _)) := e in
  dom x <- lift (apply_slotmap false bij sh);
  dom x <- with_ctr (fun ctr => let '(x', (_, ctr')) := trav (rnF (c_slots c)) x ([], ctr) in (x', ctr'));
  dom m <- fresh_outside (am i) (slots x) [];
  let m := from_iter_onto m (am i) in
  lift (apply_slotmap false m x).

Lemma enodes_applied_eq : forall i,
  enodes_applied i = (dom c <- reads (fun s => get_class s (aid i)); mapM (ea_entry i c) (c_nodes c)).
Proof. reflexivity. Qed.

Definition Pm (c1 : N) (s : egraph) (m : slotmap) : Prop :=
  wf m /\ injective m /\ forall k v, get m k = Some v -> c1 <= v < ectr s.

Lemma fo_spec : forall ai c1 l m s m' s', fresh_outside ai l m s = Ok (m', s') -> c1 <= ectr s -> Pm c1 s m ->
  same_graph s s' /\ ectr s <= ectr s' /\ Pm c1 s' m'.
Proof.
  intros ai c1. induction l as [|sl t IH]; intros m s m' s' H L P; [|rewrite fo_cons in H].
  - inversion H; subst. split; [apply same_graph_refl|]. split; [lia|exact P].
  - destruct (contains_key ai sl); [exact (IH _ _ _ _ H L P)|].
    apply mbind_inv in H. destruct H as (f & s1 & Hf & H). unfold Model.fresh in Hf. inversion Hf; subst f s1; clear Hf.
    destruct P as (W & Inj & V).
    assert (P1 : Pm c1 (set_ctr s (ectr s + 4)) (insert sl (ectr s) m)).
    { split; [apply insert_wf; exact W|]. split.
      - intros k1 k2 v G1 G2. rewrite get_insert_any in G1, G2.
        destruct (k1 =? sl) eqn:E1, (k2 =? sl) eqn:E2; neq.
        + congruence.
        + inversion G1; subst v. pose proof (V k2 _ G2). lia.
        + inversion G2; subst v. pose proof (V k1 _ G1). lia.
        + eapply Inj; eauto.
      - intros k v G. rewrite get_insert_any in G. cbn [Model.ctr set_ctr]. destruct (k =? sl).
        + inversion G; subst v. lia.
        + pose proof (V k v G). lia. }
    destruct (IH _ _ _ _ H) as (SG & Lc & P2); [cbn [Model.ctr set_ctr]; lia|exact P1|].
    split; [eapply same_graph_trans; [apply same_graph_ctr|exact SG]|]. split; [cbn [Model.ctr set_ctr] in Lc; lia|exact P2].
Qed.

Lemma binders_asm : forall m n, binders (ren (asm_g m) n) = binders n.
Proof. intros m n. rewrite ren_binders. unfold asm_g. apply map_id. Qed.

(* the part of Mod4Facts.m4 that does not mention the counter or the union-find *)
Definition cls4 (s : egraph) : Prop := forall c, In c (classes s) -> c4 c.

Lemma m4_cls4 : forall s, m4 s -> cls4 s.
Proof. intros s (_ & _ & C). exact C. Qed.

Lemma cls4_same_classes : forall s s', classes s' = classes s -> cls4 s -> cls4 s'.
Proof. intros s s' E C c Hc. apply C. rewrite <- E. exact Hc. Qed.

Lemma cls4_class : forall s i c, cls4 s -> get_class s i = Ok c -> c4 c.
Proof. intros s i c C H. apply C. eapply get_class_in; eauto. Qed.

Lemma cls4_bij4 : forall s, cls4 s -> bij4 s.
Proof.
  intros s C i c sh bij src k v Hc Hi G. destruct (cls4_class _ _ _ C Hc) as (Hn & _).
  apply get_in in G. exact (Hn _ _ _ Hi _ _ G).
Qed.

(* ------------------------------------------------------------------ *)
(* 10. Mod4Facts.m4 is kept by the matcher and by apply_rewrites (the counter moves in steps of 4) *)

Section TravInv.
  Context {S : Type} (f : bool -> slot -> S -> slot * S) (P : S -> Prop).
  Hypothesis Hf : forall b x st, P st -> P (snd (f b x st)).

  Lemma ti_vals : forall bound m st, P st -> P (snd (trav_vals f bound m st)).
  Proof.
    intros bound. induction m as [|[k v] t IH]; intros st H; cbn [trav_vals]; [exact H|].
    pose proof (Hf (negb (existsb (N.eqb v) bound)) v st H) as H1.
    destruct (f (negb (existsb (N.eqb v) bound)) v st) as [v' st1]. cbn [snd] in H1.
    pose proof (IH st1 H1) as H2. destruct (trav_vals f bound t st1) as [t' st2]. exact H2.
  Qed.

  Lemma ti_f : forall a bound st, P st -> P (snd (trav_f f bound a st)).
  Proof.
    induction a as [s|x|s b IH|p]; intros bound st H; cbn [trav_f].
    - pose proof (Hf (negb (existsb (N.eqb s) bound)) s st H) as H1.
      destruct (f (negb (existsb (N.eqb s) bound)) s st) as [s' st1]. exact H1.
    - pose proof (ti_vals bound (am x) st H) as H1. destruct (trav_vals f bound (am x) st) as [m' st1]. exact H1.
    - pose proof (Hf false s st H) as H1. destruct (f false s st) as [s' st1]. cbn [snd] in H1.
      pose proof (IH (s :: bound) st1 H1) as H2. destruct (trav_f f (s :: bound) b st1) as [b' st2]. exact H2.
    - exact H.
  Qed.

  Lemma ti_args : forall l st, P st -> P (snd (trav_args f l st)).
  Proof.
    induction l as [|a t IH]; intros st H; cbn [trav_args]; [exact H|].
    pose proof (ti_f a [] st H) as H1. destruct (trav_f f [] a st) as [a' st1]. cbn [snd] in H1.
    pose proof (IH st1 H1) as H2. destruct (trav_args f t st1) as [t' st2]. exact H2.
  Qed.

  Lemma trav_inv : forall n st, P st -> P (snd (trav f n st)).
  Proof.
    intros n st H. unfold trav. pose proof (ti_args (nargs n) st H) as H1.
    destruct (trav_args f (nargs n) st) as [l st1]. exact H1.
  Qed.
End TravInv.

Lemma h_tt_bind : forall A C (m : M A) (k : A -> M C), pres4 m -> (forall a, pres4 (k a)) -> pres4 (mbind m k).
Proof. intros A C m k Hm Hk. eapply h_bind; [exact Hm|]. intros a _. apply Hk. Qed.

Lemma h_tt_ret : forall A (a : A), pres4 (ret a).
Proof. intros. apply h_ret. exact I. Qed.

Lemma h_fresh_tt : pres4 Model.fresh.
Proof. eapply h_tt. exact h_fresh. Qed.

Lemma h_flat_mapM : forall A C (f : A -> M (list C)) l, (forall x, pres4 (f x)) -> pres4 (flat_mapM f l).
Proof.
  intros A C f l Hf. induction l as [|x t IH]; cbn [flat_mapM]; [apply h_tt_ret|].
  apply h_tt_bind; [apply Hf|]. intros y. apply h_tt_bind; [apply IH|]. intros r. apply h_tt_ret.
Qed.

Lemma h_extend_fresh : forall l m, pres4 (extend_fresh l m).
Proof.
  induction l as [|x t IH]; intros m; cbn [extend_fresh]; [apply h_tt_ret|].
  destruct (contains_key m x); [apply IH|]. apply h_tt_bind; [apply h_fresh_tt|]. intros f. apply IH.
Qed.

Lemma h_fresh_outside : forall ai l m, pres4 (fresh_outside ai l m).
Proof.
  intros ai. induction l as [|x t IH]; intros m; [apply h_tt_ret|]. rewrite fo_cons.
  destruct (contains_key ai x); [apply IH|]. apply h_tt_bind; [apply h_fresh_tt|]. intros f. apply IH.
Qed.

Lemma h_enodes_applied : forall i, pres4 (enodes_applied i).
Proof.
  intros i. rewrite enodes_applied_eq. apply h_tt_bind; [apply h_reads_tt|]. intros c.
  apply h_mapM. intros [sh [bij src]]. unfold ea_entry.
  apply h_tt_bind; [apply h_lift_tt|]. intros x. apply h_tt_bind.
  - apply h_with_ctr. intros c0 O. split; [|exact I].
    match goal with |- context [trav ?F x ?st0] =>
      pose proof (trav_inv F (fun st => ok1 (snd st))) as T;
      match type of T with ?A -> _ => assert (HA : A) end;
      [|specialize (T HA x st0 O); destruct (trav F x st0) as [x' [m1 c1]]; exact T] end.
    intros b z [m0 c1] H1. unfold rnF. cbn [fst snd] in *. destruct (sset_mem z (c_slots c)); [exact H1|].
    destruct (get m0 z); cbn [snd]; [exact H1|apply ok1_next; exact H1].
  - intros x2. apply h_tt_bind; [apply h_fresh_outside|]. intros m. apply h_lift_tt.
Qed.

Lemma h_ematch_kids : forall ch, Forall (fun p => forall st i, pres4 (ematch_impl p st i)) ch ->
  forall subs acc, pres4 (ematch_kids ch subs acc).
Proof.
  induction ch as [|sp ch' IH]; intros Hch subs acc; [cbn [ematch_kids]; apply h_tt_ret|].
  destruct subs as [|sid subs']; cbn [ematch_kids]; [apply h_tt_ret|].
  pose proof (Forall_inv Hch) as Hsp. pose proof (Forall_inv_tail Hch) as Hch'.
  apply h_tt_bind; [apply h_flat_mapM; intros a; apply Hsp|]. intros next. apply IH. assumption.
Qed.

Lemma h_ematch_impl : forall p st i, pres4 (ematch_impl p st i).
Proof.
  induction p as [v|n ch IH|b x t _ _ _] using pattern_ind2; intros st i.
  - cbn [ematch_impl]. destruct (sub_get (partial_subst st) v) as [j|]; [|apply h_tt_ret].
    apply h_tt_bind; [apply h_reads_tt|]. intros e. apply h_tt_ret.
  - rewrite ematch_impl_node. apply h_tt_bind; [apply h_enodes_applied|]. intros nns.
    apply h_flat_mapM. intros nn. destruct (negb (Nat.eqb (nvar n) (nvar nn))); [apply h_tt_ret|].
    apply h_tt_bind; [apply h_reads_tt|]. intros vs.
    apply h_flat_mapM. intros n2.
    apply h_tt_bind; [apply h_lift_tt|]. intros n_sh.
    apply h_tt_bind; [apply h_lift_tt|]. intros c_sh.
    destruct (negb (node_eqb (fst n_sh) (fst c_sh))); [apply h_tt_ret|].
    destruct (insert_all_bij _ _) as [m'|]; [|apply h_tt_ret].
    apply h_ematch_kids. exact IH.
  - cbn [ematch_impl]. apply h_fail.
Qed.

Lemma h_final_subst : forall st, pres4 (final_subst st).
Proof.
  intros st. rewrite final_subst_go. generalize (partial_slotmap st).
  induction (partial_subst st) as [|[v a] t IH]; intros m; cbn [final_go]; [apply h_tt_ret|].
  apply h_tt_bind; [apply h_extend_fresh|]. intros m'.
  apply h_tt_bind; [apply IH|]. intros r. apply h_tt_ret.
Qed.

Theorem h_ematch_all : forall p, pres4 (ematch_all p).
Proof.
  intros p. unfold ematch_all. apply h_tt_bind; [apply h_gets|]. intros live.
  apply h_flat_mapM. intros i.
  apply h_tt_bind; [apply h_reads_tt|]. intros sl.
  apply h_tt_bind; [apply h_ematch_impl|]. intros sts.
  apply h_mapM. intros st. apply h_final_subst.
Qed.

(* ------------------------------------------------------------------ *)
(* 6b. inversion of flat_mapM / mapM along a preorder on states that every step respects *)

Section InvR.
  Variable R : egraph -> egraph -> Prop.
  Hypothesis R_refl : forall s, R s s.
  Hypothesis R_trans : forall a b c, R a b -> R b c -> R a c.

  Lemma flat_mapM_invR : forall A C (f : A -> M (list C)) l s r s',
    (forall x, pres R (f x)) -> flat_mapM f l s = Ok (r, s') ->
    forall y, In y r -> exists x s1 r1 s2, In x l /\ R s s1 /\ f x s1 = Ok (r1, s2) /\ In y r1 /\ R s2 s'.
  Proof.
    intros A C f. induction l as [|x t IH]; intros s r s' Hf H y Hy; cbn [flat_mapM] in H.
    - apply ret_inv in H. destruct H as [Hr _]. subst r. contradiction.
    - apply mbind_inv in H. destruct H as (r1 & s1 & H1 & H).
      apply mbind_inv in H. destruct H as (r2 & s2 & H2 & H).
      apply ret_inv in H. destruct H as [Hr Es]. subst r s2.
      assert (P2 : R s1 s').
      { revert H2. clear -Hf R_refl R_trans. revert s1 r2 s'. induction t as [|z t IHt]; intros s1 r2 s' H2; cbn [flat_mapM] in H2.
        - apply ret_inv in H2. destruct H2 as [_ ->]. apply R_refl.
        - apply mbind_inv in H2. destruct H2 as (ra & sa & Ha & H2). apply mbind_inv in H2. destruct H2 as (rb & sb & Hb & H2).
          apply ret_inv in H2. destruct H2 as [_ ->]. eapply R_trans; [exact (Hf z _ _ _ Ha)|exact (IHt _ _ _ Hb)]. }
      apply in_app_or in Hy. destruct Hy as [Hy|Hy].
      + exists x, s, r1, s1. split; [left; reflexivity|]. split; [apply R_refl|]. split; [exact H1|]. split; [exact Hy|exact P2].
      + destruct (IH _ _ _ Hf H2 y Hy) as (x' & sa & ra & sb & Hin & Ra & Hfx & Hyr & Rb).
        exists x', sa, ra, sb. split; [right; exact Hin|]. split; [eapply R_trans; [exact (Hf x _ _ _ H1)|exact Ra]|].
        split; [exact Hfx|]. split; [exact Hyr|exact Rb].
  Qed.

  Lemma mapM_invR : forall A C (f : A -> M C) l s r s', (forall x, pres R (f x)) -> mapM f l s = Ok (r, s') ->
    forall y, In y r -> exists x s1 s2, In x l /\ R s s1 /\ f x s1 = Ok (y, s2) /\ R s2 s'.
  Proof.
    intros A C f. induction l as [|x t IH]; intros s r s' Hf H y Hy; cbn [mapM] in H.
    - apply ret_inv in H. destruct H as [-> _]. contradiction.
    - apply mbind_inv in H. destruct H as (y1 & s1 & H1 & H). apply mbind_inv in H. destruct H as (r2 & s2 & H2 & H).
      apply ret_inv in H. destruct H as [-> Es]. subst s2. destruct Hy as [<-|Hy].
      + exists x, s, s1. split; [left; reflexivity|]. split; [apply R_refl|]. split; [exact H1|].
        exact (pres_mapM R R_refl R_trans _ _ f t Hf _ _ _ H2).
      + destruct (IH _ _ _ Hf H2 y Hy) as (x' & sa & sb & Hin & Ra & Hfx & Rb).
        exists x', sa, sb. split; [right; exact Hin|]. split; [eapply R_trans; [exact (Hf x _ _ _ H1)|exact Ra]|].
        split; [exact Hfx|exact Rb].
  Qed.
End InvR.

(* the slot names of a pattern satisfy LP *)
Definition pat_P (LP : slot -> Prop) (p : pattern) : Prop := forall x, In x (pslots p) -> LP x.

Lemma pat_P_node : forall LP n ch, pat_P LP (PNode n ch) ->
  (forall x, In x (all_occ n) -> LP x) /\ Forall (pat_P LP) ch.
Proof.
  intros LP n ch H. unfold pat_P in H. rewrite pslots_node in H. split.
  - intros x Hx. apply H. apply in_or_app. left. exact Hx.
  - apply Forall_forall. intros c Hc x Hx. apply H. apply in_or_app. right. apply in_flat_map. exists c. split; assumption.
Qed.

(* no fresh slot still to be drawn (counter values >= ctr s in the residue class of ctr s) satisfies Q *)
Definition NF (s : egraph) (Q : slot -> Prop) : Prop :=
  forall c, ectr s <= c -> c mod 4 = ectr s mod 4 -> forall v, Q v -> v <> c.

(* ------------------------------------------------------------------ *)
(* 7. the matcher, relative to the state s0 it starts from (only the counter moves) *)

Section Matcher.
  Variable s0 : egraph.
  Hypothesis I3 : inv3 s0.
  Hypothesis K0 : kids_ok s0.
  Hypothesis M4 : cls4 s0.

  Definition Rel (s : egraph) : Prop := same_graph s0 s /\ ectr s0 <= ectr s.
  (* an invocation the matcher works with: covers its class (a fact about the class table, the same in
     all states of the match), sorted map, all its values are older than the counter *)
  Definition cb (s : egraph) (a : appid) : Prop :=
    kid_ok s0 a /\ forall v, In v (values_vec (am a)) -> v < ectr s.

  Lemma Rel_refl : Rel s0.
  Proof. split; [apply same_graph_refl|lia]. Qed.

  Lemma Rel_step : forall s s', Rel s -> same_graph s s' -> ectr s <= ectr s' -> Rel s'.
  Proof. intros s s' [G L] G' L'. split; [eapply same_graph_trans; eauto|lia]. Qed.

  Lemma cb_mono : forall s s' a, ectr s <= ectr s' -> cb s a -> cb s' a.
  Proof. intros s s' a L [K V]. split; [exact K|]. intros v Hv. pose proof (V v Hv). lia. Qed.

  Lemma Rel_class : forall s i, Rel s -> get_class s i = get_class s0 i.
  Proof. intros s i [(_ & E & _) _]. unfold get_class. rewrite E. reflexivity. Qed.

  Lemma class_facts : forall i c, get_class s0 i = Ok c ->
    S1 (c_slots c) /\ forall z, In z (c_slots c) -> z < ectr s0.
  Proof.
    intros i c Hc. split.
    - destruct (cls4_class s0 i c M4 Hc) as (_ & S & _). exact S.
    - destruct I3 as [[EI SB] _]. destruct (ei_cls _ EI i c Hc) as (_ & _ & Incl).
      intros z Hz. apply (SB i c z Hc). apply pub_occ_all_occ. apply slots_spec. apply Incl. exact Hz.
  Qed.

  Lemma ea_entry_kids : forall i c e s x2 s', Rel s -> get_class s0 (aid i) = Ok c -> In e (c_nodes c) -> cb s i ->
    ea_entry i c e s = Ok (x2, s') ->
    same_graph s s' /\ ectr s <= ectr s' /\ Forall (cb s') (app_occ x2).
  Proof.
    intros i c [sh [bij src]] s x2 s' R Hc Hin [[Ci Wi] Vi] H. unfold ea_entry in H.
    destruct (class_facts _ _ Hc) as [S1c Below].
    apply mbind_inv in H. destruct H as (x0 & s1 & H1 & H). apply lift_inv in H1. destruct H1 as [H1 ->].
    apply mbind_inv in H. destruct H as (x1 & s2 & H2 & H).
    apply mbind_inv in H. destruct H as (m & s3 & H3 & H). cbv zeta in H. apply lift_inv in H. destruct H as [H4 <-].
    (* the renaming pass *)
    pose proof (rn_trav (c_slots c) x0 (ectr s)) as (RI & RG & RD).
    unfold with_ctr in H2. destruct (trav (rnF (c_slots c)) x0 ([], ectr s)) as [x1' [rho c1]] eqn:T.
    inversion H2; subst x1' s2; clear H2. cbn [fst snd] in RI, RG, RD.
    destruct RI as (L1 & RV & RInj). cbn [fst snd] in L1, RV, RInj.
    assert (RI : rnInv (ectr s) (rho, c1)) by (split; [exact L1|split; [exact RV|exact RInj]]).
    assert (Below' : forall z, In z (c_slots c) -> z < ectr s) by (intros z Hz; pose proof (Below z Hz); destruct R as [_ R]; lia).
    (* the fresh names for the public slots the invocation does not cover *)
    destruct (fo_spec (am i) c1 _ _ _ _ _ H3) as (SG3 & L3 & (Wm & Im & Vm)).
    { cbn [Model.ctr set_ctr]. lia. }
    { split; [exact I|]. split; [intros k1 k2 v G; discriminate G|intros k v G; discriminate G]. }
    cbn [Model.ctr set_ctr] in L3.
    set (MM := from_iter_onto m (am i)) in *.
    assert (GM : forall k, get MM k = match get (am i) k with Some v => Some v | None => get m k end).
    { intros k. exact (get_union m (am i) k Wm Wi). }
    assert (VM : forall k v, get MM k = Some v -> v < ectr s \/ (c1 <= v /\ v < ectr s')).
    { intros k v G. rewrite GM in G. destruct (get (am i) k) as [u|] eqn:Gi.
      - inversion G; subst u. left. apply Vi. eapply get_values_vec; eauto.
      - right. exact (Vm k v G). }
    assert (IM : injective MM).
    { intros k1 k2 v G1 G2. rewrite GM in G1, G2. destruct Ci as (ci & _ & Ii & _).
      destruct (get (am i) k1) as [u1|] eqn:E1, (get (am i) k2) as [u2|] eqn:E2.
      - inversion G1; inversion G2; subst. eapply Ii; eauto.
      - inversion G1; subst u1. pose proof (Vi v (get_values_vec _ _ _ E1)). pose proof (Vm k2 v G2). lia.
      - inversion G2; subst u2. pose proof (Vi v (get_values_vec _ _ _ E2)). pose proof (Vm k1 v G1). lia.
      - eapply Im; eauto. }
    pose proof (apply_slotmap_total _ _ _ H4) as TotM.
    (* stage 0: sh[bij] *)
    destruct I3 as [_ NO].
    pose proof (stored_applied_kids s0 (aid i) c sh bij src x0 NO K0 (cls4_bij4 _ M4) Hc Hin H1) as Kx0.
    assert (Bx0 : binders x0 = binders sh) by (rewrite (apply_slotmap_ren _ _ _ H1); apply binders_asm).
    destruct (K0 (aid i) c _ Hc Hin) as [Sh4 _]. cbn [fst] in Sh4.
    (* stage 1 *)
    assert (Kx1 : Forall (kid_ok s0) (app_occ x1)).
    { rewrite RG. apply kid_ren; [exact Kx0| | |].
      - intros x y Hx Hy E. eapply (rnG_inj (c_slots c) (ectr s)); [exact RI|exact Below'| | |exact E];
          apply RD; apply binders_all_occ; assumption.
      - intros x b Hx Hb Nxb E. apply Nxb. eapply (rnG_inj (c_slots c) (ectr s)); [exact RI|exact Below'| | |exact E];
          apply RD; [apply pub_occ_all_occ|apply binders_all_occ]; assumption.
      - intros x y Hx Hy E. eapply (rnG_inj (c_slots c) (ectr s)); [exact RI|exact Below'| | |exact E];
          apply RD; apply pub_occ_all_occ; assumption. }
    (* the bound names of x1 are fresh names of the renaming pass *)
    assert (Bx1 : forall b, In b (binders x1) -> ectr s <= b /\ b < c1).
    { intros b Hb. rewrite RG, ren_binders in Hb. apply in_map_iff in Hb. destruct Hb as (b0 & <- & Hb0).
      rewrite Bx0 in Hb0. pose proof (Sh4 b0 (binders_all_occ _ _ Hb0)) as Z0.
      assert (Hb0' : In b0 (all_occ x0)) by (apply binders_all_occ; rewrite Bx0; exact Hb0).
      unfold rnG. cbn [fst].
      destruct (sset_mem b0 (c_slots c)) eqn:Em.
      { apply sset_mem_in in Em. pose proof (S1c b0 Em) as Z1. unfold ok1 in Z1. lia. }
      destruct (RD b0 Hb0') as [D|D]; [congruence|]. cbn [fst] in D.
      destruct (get rho b0) as [v|] eqn:G; [|congruence]. exact (RV b0 v G). }
    (* stage 2 *)
    rewrite (apply_slotmap_ren _ _ _ H4).
    assert (Kx2 : Forall (kid_ok s0) (app_occ (ren (asm_g MM) x1))).
    { apply kid_ren; [exact Kx1| | |].
      - intros x y _ _ E. exact E.
      - intros x b Hx Hb _ E. unfold asm_g in E. destruct (get MM x) as [u|] eqn:G; [|apply (TotM x Hx); exact G].
        subst u. pose proof (Bx1 b Hb). destruct (VM x b G); lia.
      - intros x y Hx Hy E. unfold asm_g in E.
        destruct (get MM x) as [u|] eqn:Gx; [|exfalso; apply (TotM x Hx); exact Gx].
        destruct (get MM y) as [v|] eqn:Gy; [|exfalso; apply (TotM y Hy); exact Gy]. subst v. eapply IM; eauto. }
    split; [eapply same_graph_trans; [apply same_graph_ctr|exact SG3]|]. split; [lia|].
    apply Forall_forall. intros a' Ha'. split; [exact (proj1 (Forall_forall _ _) Kx2 a' Ha')|].
    intros v Hv. destruct (ren_kid_vals _ _ _ _ Ha' Hv) as (v0 & fl & -> & Hfl & Hb).
    destruct fl; unfold asm_g.
    - apply occ_flags_true_pub in Hfl. destruct (get MM v0) as [u|] eqn:G; [|exfalso; apply (TotM v0 Hfl); exact G].
      destruct (VM v0 u G); lia.
    - pose proof (Bx1 v0 (Hb eq_refl)). lia.
  Qed.

  Lemma mapM_entries : forall i c l s nns s', Rel s -> get_class s0 (aid i) = Ok c -> incl l (c_nodes c) -> cb s i ->
    mapM (ea_entry i c) l s = Ok (nns, s') ->
    same_graph s s' /\ ectr s <= ectr s' /\ forall nn, In nn nns -> Forall (cb s') (app_occ nn).
  Proof.
    intros i c. induction l as [|e t IH]; intros s nns s' R Hc Hl Ci H; cbn [mapM] in H.
    - inversion H; subst. split; [apply same_graph_refl|]. split; [lia|intros nn []].
    - apply mbind_inv in H. destruct H as (y & s1 & H1 & H). apply mbind_inv in H. destruct H as (r & s2 & H2 & H).
      inversion H; subst nns s2; clear H.
      destruct (ea_entry_kids i c e s y s1 R Hc (Hl e (or_introl eq_refl)) Ci H1) as (G1 & L1 & F1).
      destruct (IH s1 r s' (Rel_step _ _ R G1 L1) Hc (fun x Hx => Hl x (or_intror Hx)) (cb_mono _ _ _ L1 Ci) H2) as (G2 & L2 & F2).
      split; [eapply same_graph_trans; eauto|]. split; [lia|].
      intros nn [<-|Hnn]; [|exact (F2 nn Hnn)]. revert F1. apply Forall_impl. intros a. apply cb_mono. exact L2.
  Qed.

  Lemma enodes_applied_kids : forall i s nns s', Rel s -> cb s i -> enodes_applied i s = Ok (nns, s') ->
    same_graph s s' /\ ectr s <= ectr s' /\ forall nn, In nn nns -> Forall (cb s') (app_occ nn).
  Proof.
    intros i s nns s' R Ci H. rewrite enodes_applied_eq in H.
    apply mbind_inv in H. destruct H as (c & s1 & H1 & H). apply reads_inv in H1. destruct H1 as [Hc ->].
    rewrite (Rel_class _ _ R) in Hc. exact (mapM_entries i c (c_nodes c) s nns s' R Hc (incl_refl _) Ci H).
  Qed.

  (* group variants *)
  Lemma zip_cart' : forall (Q : appid -> Prop) apps (groups : list (list perm)),
    Forall2 (fun a g => forall pp, In pp g -> Q {| aid := aid a; am := pp ** am a |}) apps groups ->
    forall l, In l (cartesian groups) ->
    Forall Q (zip_with (fun a pp => {| aid := aid a; am := pp ** am a |}) apps l) /\
    List.length (zip_with (fun a pp => {| aid := aid a; am := pp ** am a |}) apps l) = List.length apps.
  Proof.
    intros Q apps groups H. induction H as [|a g t gs Hag _ IH]; intros l Hl; cbn [cartesian] in Hl.
    - destruct Hl as [<-|[]]. split; [constructor|reflexivity].
    - apply in_flat_map in Hl. destruct Hl as (rest & Hr & Hl). apply in_map_iff in Hl. destruct Hl as (x & <- & Hx).
      cbn [zip_with]. destruct (IH rest Hr) as [F Len]. split; [constructor; [apply Hag; assumption|exact F]|].
      cbn [List.length]. rewrite Len. reflexivity.
  Qed.

  Lemma variants_cb : forall s n vs, Rel s -> Forall (cb s) (app_occ n) -> variants s n = Ok vs ->
    forall v, In v vs -> Forall (cb s) (app_occ v).
  Proof.
    intros s n vs R Hf H v Hv. unfold variants in H.
    destruct (mapr (fun a => get_class s (aid a)) (app_occ n)) as [cls|] eqn:Ec; cbn [bind] in H; [|discriminate].
    destruct (forallb _ cls).
    - inversion H; subst vs. destruct Hv as [<-|[]]. exact Hf.
    - destruct (mapr _ cls) as [groups|] eqn:Eg; cbn [bind] in H; [|discriminate]. inversion H; subst vs; clear H.
      apply in_map_iff in Hv. destruct Hv as (l & <- & Hl).
      pose proof (mapr_mapr_F2 (cb s) _ _ _ _ _ (proj1 (Forall_forall _ _) Hf) Ec Eg) as F2.
      destruct (zip_cart' (cb s) (app_occ n) groups) with (l := l) as [Z Len]; [|exact Hl|].
      + revert F2. apply Forall2_imp. intros a g ([[(c' & Hc' & Ia & Ka) Wa] Va] & c & Hc & Hg) pp Hpp.
        rewrite (Rel_class _ _ R) in Hc. rewrite Hc in Hc'. inversion Hc'; subst c'; clear Hc'.
        destruct I3 as [[EI _] _]. destruct (ei_cls _ EI _ _ Hc) as (_ & (gens & HG & Hgn) & _).
        assert (P : perm_on (c_slots c) pp).
        { unfold group_new in Hgn.
          apply (generated_po (c_slots c) (identity (c_slots c)) (identity_is_id _) (pdedup gens) (pdedup_po _ _ HG)).
          eapply (gnew_gall_sound (c_slots c) (identity (c_slots c)) (identity_is_id _)); [apply pdedup_po; exact HG|exact Hgn|exact Hg|exact Hpp]. }
        pose proof P as (Wp & _ & _ & Ip & _). split; [split|].
        * exists c. cbn [aid am]. split; [exact Hc|]. split.
          -- apply compose_injective; [exact Wp|exact Ip|exact Ia].
          -- intros k Hk. destruct (po_get _ pp k P Hk) as (w & Gw & Hw). rewrite get_compose_partial by exact Wp. rewrite Gw.
             apply Ka. exact Hw.
        * cbn [am]. apply compose_partial_wf.
        * cbn [am]. intros x Hx. apply Va. unfold values_vec in *. apply in_map_iff in Hx. destruct Hx as ([k z] & <- & Hkz).
          destruct (in_compose _ _ _ _ Hkz) as (y & _ & Hy). cbn [snd]. change z with (snd (y, z)). apply in_map. exact Hy.
      + rewrite app_occ_set_apps; [exact Z|exact Len].
  Qed.

  Fixpoint wv_go (l : list node) (shapes : list node) : res (list node) :=
    match l with
    | [] => Ok []
    | x :: t =>
        do sh <- wshape x;
        if existsb (node_eqb (fst sh)) shapes then wv_go t shapes
        else do r <- wv_go t (fst sh :: shapes); Ok (x :: r)
    end.

  Lemma weak_variants_eq : forall s n, weak_variants s n = (do vs <- variants s n; wv_go vs []).
  Proof. reflexivity. Qed.

  Lemma weak_variants_sub : forall s n vs, weak_variants s n = Ok vs ->
    exists all, variants s n = Ok all /\ incl vs all.
  Proof.
    intros s n vs H. rewrite weak_variants_eq in H. destruct (variants s n) as [all|]; cbn [bind] in H; [|discriminate].
    exists all. split; [reflexivity|]. revert vs H. generalize (@nil node).
    induction all as [|x t IH]; intros shapes vs H; cbn [wv_go] in H.
    - inversion H; subst. intros y [].
    - destruct (wshape x) as [sh|]; cbn [bind] in H; [|discriminate].
      destruct (existsb (node_eqb (fst sh)) shapes).
      + intros y Hy. right. exact (IH _ _ H y Hy).
      + destruct (wv_go t (fst sh :: shapes)) as [r|] eqn:E; cbn [bind] in H; [|discriminate].
        inversion H; subst vs. intros y [<-|Hy]; [left; reflexivity|right; exact (IH _ _ E y Hy)].
  Qed.

  (* ---- the two relations the matcher keeps, together ---- *)
  Definition R2 (s s' : egraph) : Prop := same_graph s s' /\ cle s s'.
  Lemma R2_refl : forall s, R2 s s.
  Proof. intros s. split; [apply same_graph_refl|apply cle_refl]. Qed.
  Lemma R2_trans : forall a b c, R2 a b -> R2 b c -> R2 a c.
  Proof. intros a b c [A1 A2] [B1 B2]. split; [eapply same_graph_trans; eauto|eapply cle_trans; eauto]. Qed.
  Lemma pres_R2 : forall A (m : M A), pres same_graph m -> pres cle m -> pres R2 m.
  Proof. intros A m H1 H2 s x s' E. split; [exact (H1 s x s' E)|exact (H2 s x s' E)]. Qed.
  Lemma Rel_R2 : forall s s', Rel s -> R2 s s' -> Rel s'.
  Proof. intros s s' R [G L]. exact (Rel_step _ _ R G L). Qed.

  Lemma flat_mapM_inv2 : forall A C (f : A -> M (list C)) l s r s',
    (forall x, pres R2 (f x)) -> flat_mapM f l s = Ok (r, s') ->
    forall y, In y r -> exists x s1 r1 s2, In x l /\ R2 s s1 /\ f x s1 = Ok (r1, s2) /\ In y r1 /\ R2 s2 s'.
  Proof.
    intros A C f. induction l as [|x t IH]; intros s r s' Hf H y Hy; cbn [flat_mapM] in H.
    - apply ret_inv in H. destruct H as [Hr _]. subst r. contradiction.
    - apply mbind_inv in H. destruct H as (r1 & s1 & H1 & H).
      apply mbind_inv in H. destruct H as (r2 & s2 & H2 & H).
      apply ret_inv in H. destruct H as [Hr Es]. subst r s2.
      assert (P2 : R2 s1 s').
      { revert H2. clear -Hf. revert s1 r2 s'. induction t as [|z t IHt]; intros s1 r2 s' H2; cbn [flat_mapM] in H2.
        - apply ret_inv in H2. destruct H2 as [_ ->]. apply R2_refl.
        - apply mbind_inv in H2. destruct H2 as (ra & sa & Ha & H2). apply mbind_inv in H2. destruct H2 as (rb & sb & Hb & H2).
          apply ret_inv in H2. destruct H2 as [_ ->]. eapply R2_trans; [exact (Hf z _ _ _ Ha)|exact (IHt _ _ _ Hb)]. }
      apply in_app_or in Hy. destruct Hy as [Hy|Hy].
      + exists x, s, r1, s1. split; [left; reflexivity|]. split; [apply R2_refl|]. split; [exact H1|]. split; [exact Hy|exact P2].
      + destruct (IH _ _ _ Hf H2 y Hy) as (x' & sa & ra & sb & Hin & Ra & Hfx & Hyr & Rb).
        exists x', sa, ra, sb. split; [right; exact Hin|]. split; [eapply R2_trans; [exact (Hf x _ _ _ H1)|exact Ra]|].
        split; [exact Hfx|]. split; [exact Hyr|exact Rb].
  Qed.

  (* ---- the state of the matcher ---- *)
  (* LP: what is known about the slot names of the pattern (instantiated after the section) *)
  Variable LP : slot -> Prop.

  Definition st_ok (s : egraph) (st : estate) : Prop :=
    (forall v a, In (v, a) (partial_subst st) -> cb s a) /\
    (forall k v, get (partial_slotmap st) k = Some v -> LP v).

  Lemma st_ok_mono : forall s s' st, cle s s' -> st_ok s st -> st_ok s' st.
  Proof. intros s s' st L [A B]. split; [|exact B]. intros v a Hin. eapply cb_mono; [exact L|eauto]. Qed.

  Lemma try_insert_bij_from : forall k v m m' k0 v0, try_insert_bij k v m = Some m' ->
    get m' k0 = Some v0 -> get m k0 = Some v0 \/ (k0 = k /\ v0 = v).
  Proof.
    intros k v m m' k0 v0 H G. apply try_insert_bij_eq in H. destruct H as (-> & _ & _).
    rewrite get_insert_any in G. destruct (k0 =? k) eqn:E; neq; [right; split; congruence|left; exact G].
  Qed.

  Lemma insert_all_bij_from : forall ps m m' k0 v0, insert_all_bij ps m = Some m' ->
    get m' k0 = Some v0 -> get m k0 = Some v0 \/ In (k0, v0) ps.
  Proof.
    induction ps as [|[x y] t IH]; intros m m' k0 v0 H G; cbn [insert_all_bij] in H.
    - inversion H; subst. left. exact G.
    - destruct (try_insert_bij x y m) as [m1|] eqn:E; [|discriminate].
      destruct (IH _ _ _ _ H G) as [G1|Hin]; [|right; right; exact Hin].
      destruct (try_insert_bij_from _ _ _ _ _ _ E G1) as [G0|[-> ->]]; [left; exact G0|right; left; reflexivity].
  Qed.

  (* ---- the loops of ematch_impl, named ---- *)
  Definition var_body (n : node) (ch : list pattern) (st : estate) (n2 : node) : M (list estate) :=
    dom n_sh <- lift (wshape n);
    dom c_sh <- lift (wshape (nullify n2));
    if negb (node_eqb (fst n_sh) (fst c_sh)) then ret [] else
    match insert_all_bij (combine (all_occ (nullify n2)) (all_occ n)) (partial_slotmap st) with
    | None => ret []
    | Some m' => ematch_kids ch (app_occ n2) [ {| partial_subst := partial_subst st; partial_slotmap := m' |} ]
    end.
  Definition node_body (n : node) (ch : list pattern) (st : estate) (nn : node) : M (list estate) :=
    if negb (Nat.eqb (nvar n) (nvar nn)) then ret [] else
    dom vs <- reads (fun s => weak_variants s nn);
    flat_mapM (var_body n ch st) vs.

  Lemma ematch_impl_node' : forall n ch st i,
    ematch_impl (PNode n ch) st i = (dom nns <- enodes_applied i; flat_mapM (node_body n ch st) nns).
  Proof. reflexivity. Qed.

  Lemma r2_ematch_impl : forall p st i, pres R2 (ematch_impl p st i).
  Proof. intros. apply pres_R2; [apply sg_ematch_impl|apply c_ematch_impl]. Qed.

  Lemma r2_flat_mapM : forall A C (f : A -> M (list C)) l, (forall x, pres R2 (f x)) -> pres R2 (flat_mapM f l).
  Proof.
    intros A C f l Hf. induction l as [|x t IH]; cbn [flat_mapM]; [apply (pres_ret R2 R2_refl)|].
    apply (pres_bind R2 R2_trans); [apply Hf|]. intros y. apply (pres_bind R2 R2_trans); [apply IH|]. intros r. apply (pres_ret R2 R2_refl).
  Qed.

  Lemma r2_ematch_kids : forall ch subs acc, pres R2 (ematch_kids ch subs acc).
  Proof.
    intros. apply pres_R2.
    - apply sg_ematch_kids. apply Forall_forall. intros p _. apply sg_ematch_impl.
    - apply c_ematch_kids. apply Forall_forall. intros p _. apply c_ematch_impl.
  Qed.

  Lemma r2_var_body : forall n ch st n2, pres R2 (var_body n ch st n2).
  Proof.
    intros. unfold var_body. apply (pres_bind R2 R2_trans); [apply pres_lift; exact R2_refl|]. intros n_sh.
    apply (pres_bind R2 R2_trans); [apply pres_lift; exact R2_refl|]. intros c_sh.
    destruct (negb _); [apply (pres_ret R2 R2_refl)|]. destruct (insert_all_bij _ _); [|apply (pres_ret R2 R2_refl)].
    apply r2_ematch_kids.
  Qed.

  Lemma r2_node_body : forall n ch st nn, pres R2 (node_body n ch st nn).
  Proof.
    intros. unfold node_body. destruct (negb _); [apply (pres_ret R2 R2_refl)|].
    apply (pres_bind R2 R2_trans); [apply pres_reads; exact R2_refl|]. intros vs. apply r2_flat_mapM. intros. apply r2_var_body.
  Qed.

  (* ---- the induction ---- *)
  Definition impl_ok (p : pattern) : Prop :=
    pat_P LP p -> forall st i s l s', Rel s -> cb s i -> st_ok s st ->
    ematch_impl p st i s = Ok (l, s') -> forall st', In st' l -> st_ok s' st'.

  Lemma kids_loop_ok : forall ch, Forall impl_ok ch -> Forall (pat_P LP) ch ->
    forall subs acc s l s', Rel s -> Forall (cb s) subs -> (forall a, In a acc -> st_ok s a) ->
    ematch_kids ch subs acc s = Ok (l, s') -> forall st', In st' l -> st_ok s' st'.
  Proof.
    induction ch as [|sp ch' IH]; intros Hok Hpb subs acc s l s' R Hs Hacc H st' Hin.
    - cbn [ematch_kids] in H. apply ret_inv in H. destruct H as [-> ->]. exact (Hacc _ Hin).
    - destruct subs as [|sid subs'].
      + cbn [ematch_kids] in H. apply ret_inv in H. destruct H as [-> ->]. exact (Hacc _ Hin).
      + cbn [ematch_kids] in H. apply mbind_inv in H. destruct H as (next & s1 & Hn & H).
        pose proof (Forall_inv Hok) as Hsp. pose proof (Forall_inv_tail Hok) as Hok'.
        pose proof (Forall_inv Hpb) as Psp. pose proof (Forall_inv_tail Hpb) as Hpb'.
        pose proof (Forall_inv Hs) as Csid. pose proof (Forall_inv_tail Hs) as Hs'.
        pose proof (r2_flat_mapM _ _ (fun a => ematch_impl sp a sid) acc (fun a => r2_ematch_impl sp a sid) _ _ _ Hn) as R01.
        apply (IH Hok' Hpb' subs' next s1 l s' (Rel_R2 _ _ R R01)); [| |exact H|exact Hin].
        * revert Hs'. apply Forall_impl. intros a. apply cb_mono. exact (proj2 R01).
        * intros a' Ha'.
          destruct (flat_mapM_inv2 _ _ _ _ _ _ _ (fun a => r2_ematch_impl sp a sid) Hn a' Ha')
            as (a & sa & ra & sb & Ha & Ra & Hm & Hra & Rb).
          apply (st_ok_mono sb s1); [exact (proj2 Rb)|].
          apply (Hsp Psp a sid sa ra sb (Rel_R2 _ _ R Ra)); [eapply cb_mono; [exact (proj2 Ra)|exact Csid]| |exact Hm|exact Hra].
          eapply st_ok_mono; [exact (proj2 Ra)|exact (Hacc _ Ha)].
  Qed.

  Theorem ematch_impl_ok : forall p, impl_ok p.
  Proof.
    induction p as [v|n ch IH|b x t _ _ _] using pattern_ind2; intros PB st i s l s' R Ci Sst H st' Hin.
    - cbn [ematch_impl] in H. destruct (sub_get (partial_subst st) v) as [j|] eqn:G.
      + apply mbind_inv in H. destruct H as (e & s1 & He & H). apply reads_inv in He. destruct He as [_ ->].
        apply ret_inv in H. destruct H as [-> ->]. destruct e; [|contradiction]. destruct Hin as [<-|[]]. exact Sst.
      + apply ret_inv in H. destruct H as [-> ->]. destruct Hin as [<-|[]]. destruct Sst as [A Bm].
        split; [|exact Bm]. cbn [partial_subst]. intros w a Hw. apply in_app_or in Hw. destruct Hw as [Hw|[Hw|[]]]; [eauto|].
        inversion Hw; subst. exact Ci.
    - destruct (pat_P_node _ _ _ PB) as [Pn Pch].
      rewrite ematch_impl_node' in H. apply mbind_inv in H. destruct H as (nns & s1 & He & H).
      destruct (enodes_applied_kids i s nns s1 R Ci He) as (G1 & L1 & Knn).
      assert (R1 : Rel s1) by exact (Rel_step _ _ R G1 L1).
      destruct (flat_mapM_inv2 _ _ _ _ _ _ _ (r2_node_body n ch st) H st' Hin) as (nn & sa & ra & sb & Hnn & Ra & Hb & Hra & Rb).
      apply (st_ok_mono sb s'); [exact (proj2 Rb)|]. clear H Rb.
      unfold node_body in Hb. destruct (negb (Nat.eqb (nvar n) (nvar nn))).
      { apply ret_inv in Hb. destruct Hb as [-> _]. contradiction. }
      apply mbind_inv in Hb. destruct Hb as (vs & sa' & Hv & Hb). apply reads_inv in Hv. destruct Hv as [Hv ->].
      assert (RA : Rel sa) by exact (Rel_R2 _ _ R1 Ra).
      destruct (weak_variants_sub _ _ _ Hv) as (all & Hall & Hsub).
      destruct (flat_mapM_inv2 _ _ _ _ _ _ _ (r2_var_body n ch st) Hb st' Hra) as (n2 & sc & rc & sd & Hn2 & Rc & Hc & Hrc & Rd).
      apply (st_ok_mono sd sb); [exact (proj2 Rd)|]. clear Hb Rd.
      assert (RC : Rel sc) by exact (Rel_R2 _ _ RA Rc).
      assert (Kn2 : Forall (cb sc) (app_occ n2)).
      { assert (T : Forall (cb sa) (app_occ n2)).
        { apply (variants_cb sa nn all RA); [|exact Hall|exact (Hsub _ Hn2)].
          generalize (Knn nn Hnn). apply Forall_impl. intros a. apply cb_mono. exact (proj2 Ra). }
        revert T. apply Forall_impl. intros a. apply cb_mono. exact (proj2 Rc). }
      unfold var_body in Hc.
      apply mbind_inv in Hc. destruct Hc as (n_sh & s2 & Hw1 & Hc). apply lift_inv in Hw1. destruct Hw1 as [_ ->].
      apply mbind_inv in Hc. destruct Hc as (c_sh & s3 & Hw2 & Hc). apply lift_inv in Hw2. destruct Hw2 as [_ ->].
      destruct (negb (node_eqb (fst n_sh) (fst c_sh))).
      { apply ret_inv in Hc. destruct Hc as [-> _]. contradiction. }
      destruct (insert_all_bij (combine (all_occ (nullify n2)) (all_occ n)) (partial_slotmap st)) as [m'|] eqn:Ei.
      2:{ apply ret_inv in Hc. destruct Hc as [-> _]. contradiction. }
      apply (kids_loop_ok ch IH Pch (app_occ n2) [ {| partial_subst := partial_subst st; partial_slotmap := m' |} ] sc rc sd RC Kn2); [|exact Hc|exact Hrc].
      intros a [<-|[]]. destruct Sst as [A Bm]. split; cbn [partial_subst partial_slotmap].
      + intros w a Hw. eapply cb_mono; [|exact (A w a Hw)]. unfold cle in *. destruct Ra as [_ Ra], Rc as [_ Rc]. unfold cle in *. lia.
      + intros k v G. destruct (insert_all_bij_from _ _ _ _ _ Ei G) as [G0|Hin0]; [exact (Bm k v G0)|].
        apply in_combine_r in Hin0. exact (Pn v Hin0).
    - cbn [ematch_impl] in H. discriminate.
  Qed.

  (* ---- final_subst ---- *)
  Lemma extend_fresh_spec : forall l m s m' s', extend_fresh l m s = Ok (m', s') ->
    injective m -> (forall k v, get m k = Some v -> v < ectr s) ->
    same_graph s s' /\ ectr s <= ectr s' /\ injective m' /\ (forall k v, get m' k = Some v -> v < ectr s') /\
    (forall k v, get m k = Some v -> get m' k = Some v) /\ (forall x, In x l -> get m' x <> None).
  Proof.
    induction l as [|x t IH]; intros m s m' s' H Inj V; cbn [extend_fresh] in H.
    - inversion H; subst. split; [apply same_graph_refl|]. split; [lia|]. split; [exact Inj|]. split; [exact V|].
      split; [auto|intros x []].
    - unfold contains_key in H. destruct (get m x) as [vx|] eqn:Gx.
      + destruct (IH _ _ _ _ H Inj V) as (A & B & C & D & E & F).
        split; [exact A|]. split; [exact B|]. split; [exact C|]. split; [exact D|]. split; [exact E|].
        intros y [<-|Hy]; [rewrite (E _ _ Gx); discriminate|exact (F y Hy)].
      + apply mbind_inv in H. destruct H as (f & s1 & Hf & H). unfold Model.fresh in Hf. inversion Hf; subst f s1; clear Hf.
        destruct (IH _ _ _ _ H) as (A & B & C & D & E & F).
        { intros k1 k2 v G1 G2. rewrite get_insert_any in G1, G2.
          destruct (k1 =? x) eqn:E1, (k2 =? x) eqn:E2; neq.
          - congruence.
          - inversion G1; subst v. pose proof (V k2 _ G2). lia.
          - inversion G2; subst v. pose proof (V k1 _ G1). lia.
          - eapply Inj; eauto. }
        { intros k v G. rewrite get_insert_any in G. cbn [Model.ctr set_ctr]. destruct (k =? x).
          - inversion G; subst v. lia.
          - pose proof (V k v G). lia. }
        cbn [Model.ctr set_ctr] in B.
        split; [eapply same_graph_trans; [apply same_graph_ctr|exact A]|]. split; [lia|]. split; [exact C|]. split; [exact D|]. split.
        * intros k v G. apply E. rewrite get_insert_any. destruct (k =? x) eqn:Ek; neq; [congruence|exact G].
        * intros y [<-|Hy]; [|exact (F y Hy)]. rewrite (E x (ectr s)); [discriminate|]. rewrite get_insert_any, N.eqb_refl. reflexivity.
  Qed.

  Lemma NF_step : forall s s' Q, ectr s <= ectr s' -> ectr s' mod 4 = ectr s mod 4 -> NF s Q -> NF s' Q.
  Proof. intros s s' Q L E H c Hc Em v Qv. apply (H c); [lia|congruence|exact Qv]. Qed.

  Lemma extend_fresh_gen : forall (Q : slot -> Prop) l m s m' s', extend_fresh l m s = Ok (m', s') ->
    injective m -> (forall k v, get m k = Some v -> Q v \/ v < ectr s) -> NF s Q ->
    same_graph s s' /\ ectr s <= ectr s' /\ ectr s' mod 4 = ectr s mod 4 /\ injective m' /\
    (forall k v, get m' k = Some v -> Q v \/ v < ectr s') /\
    (forall k v, get m k = Some v -> get m' k = Some v) /\ (forall x, In x l -> get m' x <> None).
  Proof.
    intros Q. induction l as [|x t IH]; intros m s m' s' H Inj V Nf; cbn [extend_fresh] in H.
    - inversion H; subst. split; [apply same_graph_refl|]. split; [lia|]. split; [reflexivity|]. split; [exact Inj|]. split; [exact V|].
      split; [auto|intros x []].
    - unfold contains_key in H. destruct (get m x) as [vx|] eqn:Gx.
      + destruct (IH _ _ _ _ H Inj V Nf) as (A & B & B' & C & D & E & F).
        split; [exact A|]. split; [exact B|]. split; [exact B'|]. split; [exact C|]. split; [exact D|]. split; [exact E|].
        intros y [<-|Hy]; [rewrite (E _ _ Gx); discriminate|exact (F y Hy)].
      + apply mbind_inv in H. destruct H as (f & s1 & Hf & H). unfold Model.fresh in Hf. inversion Hf; subst f s1; clear Hf.
        assert (Nv : forall k v, get m k = Some v -> v <> ectr s).
        { intros k v G. destruct (V k v G) as [Qv|Lt]; [exact (Nf (ectr s) (N.le_refl _) eq_refl v Qv)|lia]. }
        destruct (IH _ _ _ _ H) as (A & B & B' & C & D & E & F).
        { intros k1 k2 v G1 G2. rewrite get_insert_any in G1, G2.
          destruct (k1 =? x) eqn:E1, (k2 =? x) eqn:E2; neq.
          - congruence.
          - inversion G1; subst v. exfalso. exact (Nv k2 _ G2 eq_refl).
          - inversion G2; subst v. exfalso. exact (Nv k1 _ G1 eq_refl).
          - eapply Inj; eauto. }
        { intros k v G. rewrite get_insert_any in G. cbn [Model.ctr set_ctr]. destruct (k =? x).
          - inversion G; subst v. right. lia.
          - destruct (V k v G) as [Qv|Lt]; [left; exact Qv|right; lia]. }
        { apply (NF_step s); [cbn [Model.ctr set_ctr]; lia| |exact Nf]. cbn [Model.ctr set_ctr].
          rewrite N.add_mod by lia. change (4 mod 4) with 0. rewrite N.add_0_r. apply N.mod_mod. lia. }
        cbn [Model.ctr set_ctr] in B, B'.
        split; [eapply same_graph_trans; [apply same_graph_ctr|exact A]|]. split; [lia|]. split.
        { rewrite B'. rewrite N.add_mod by lia. change (4 mod 4) with 0. rewrite N.add_0_r. apply N.mod_mod. lia. }
        split; [exact C|]. split; [exact D|]. split.
        * intros k v G. apply E. rewrite get_insert_any. destruct (k =? x) eqn:Ek; neq; [congruence|exact G].
        * intros y [<-|Hy]; [|exact (F y Hy)]. rewrite (E x (ectr s)); [discriminate|]. rewrite get_insert_any, N.eqb_refl. reflexivity.
  Qed.

  Lemma final_go_cov : forall l m s r s', final_go l m s = Ok (r, s') -> Rel s ->
    (forall v a, In (v, a) l -> cb s a) -> injective m -> (forall k v, get m k = Some v -> LP v \/ v < ectr s) -> NF s LP ->
    ectr s <= ectr s' /\
    forall v a, In (v, a) r -> covers s0 a /\ forall x, In x (values_vec (am a)) -> LP x \/ x < ectr s'.
  Proof.
    induction l as [|[v0 a0] t IH]; intros m s r s' H R Hl Inj V Nf; cbn [final_go] in H.
    - apply ret_inv in H. destruct H as [-> ->]. split; [lia|]. intros v a [].
    - apply mbind_inv in H. destruct H as (m' & s1 & He & H).
      apply mbind_inv in H. destruct H as (r1 & s2 & Hr & H). apply ret_inv in H. destruct H as [-> Es]. subst s2.
      destruct (extend_fresh_gen LP _ _ _ _ _ He Inj V Nf) as (G1 & L1 & E1 & Inj' & V' & _ & Def).
      destruct (IH m' s1 r1 s' Hr (Rel_step _ _ R G1 L1)) as [L2 IH2]; [|exact Inj'|exact V'|exact (NF_step _ _ _ L1 E1 Nf)|].
      { intros w b Hw. eapply cb_mono; [exact L1|]. exact (Hl w b (or_intror Hw)). }
      split; [lia|]. intros v a Hin. destruct Hin as [Hin|Hin]; [|exact (IH2 v a Hin)].
      inversion Hin; subst v a; clear Hin.
      destruct (Hl v0 a0 (or_introl eq_refl)) as [[(c & Hc & Ia & Ka) Wa] _].
      destruct (comp_props (am a0) m' Wa Ia Inj') as [Ic Kc].
      { intros k w G. apply Def. apply (values_spec _ _ Wa). exists k. exact G. }
      split.
      + exists c. cbn [aid am]. split; [exact Hc|]. split; [exact Ic|]. intros k Hk. apply Kc. exact (Ka k Hk).
      + cbn [am]. intros x Hx. unfold values_vec in Hx. apply in_map_iff in Hx. destruct Hx as ([k z] & <- & Hkz). cbn [snd].
        apply (in_get _ _ _ (compose_partial_wf _ _)) in Hkz. rewrite (get_compose_partial _ _ _ Wa) in Hkz.
        destruct (get (am a0) k) as [y|]; [|discriminate]. destruct (V' y z Hkz) as [Qz|Lt]; [left; exact Qz|right; lia].
  Qed.

  Lemma mapM_inv2 : forall A C (f : A -> M C) l s r s', (forall x, pres R2 (f x)) -> mapM f l s = Ok (r, s') ->
    forall y, In y r -> exists x s1 s2, In x l /\ R2 s s1 /\ f x s1 = Ok (y, s2) /\ R2 s2 s'.
  Proof.
    intros A C f. induction l as [|x t IH]; intros s r s' Hf H y Hy; cbn [mapM] in H.
    - apply ret_inv in H. destruct H as [-> _]. contradiction.
    - apply mbind_inv in H. destruct H as (y1 & s1 & H1 & H). apply mbind_inv in H. destruct H as (r2 & s2 & H2 & H).
      apply ret_inv in H. destruct H as [-> Es]. subst s2. destruct Hy as [<-|Hy].
      + exists x, s, s1. split; [left; reflexivity|]. split; [apply R2_refl|]. split; [exact H1|].
        exact (pres_mapM R2 R2_refl R2_trans _ _ f t Hf _ _ _ H2).
      + destruct (IH _ _ _ Hf H2 y Hy) as (x' & sa & sb & Hin & Ra & Hfx & Rb).
        exists x', sa, sb. split; [right; exact Hin|]. split; [eapply R2_trans; [exact (Hf x _ _ _ H1)|exact Ra]|].
        split; [exact Hfx|exact Rb].
  Qed.

  Lemma sub_get_in : forall (l : subst) v a, sub_get l v = Some a -> exists k, In (k, a) l.
  Proof.
    induction l as [|[k x] t IH]; intros v a H; cbn [sub_get] in H; [discriminate|].
    destruct (text_eqb k v); [inversion H; subst; exists k; left; reflexivity|].
    destruct (IH _ _ H) as (k' & Hk'). exists k'. right. exact Hk'.
  Qed.

  Lemma r2_final_subst : forall st, pres R2 (final_subst st).
  Proof. intros. apply pres_R2; [apply sg_final_subst|apply c_final_subst]. Qed.

  (* ---- ematch_all; from here on the full m4 (the counter is 1 mod 4) is used ---- *)
  Hypothesis M4full : m4 s0.
  Hypothesis LP_nf : forall s, ectr s0 <= ectr s -> ok1 (ectr s) -> NF s LP.

  Definition R3 (s s' : egraph) : Prop := R2 s s' /\ (m4 s -> m4 s').
  Lemma R3_refl : forall s, R3 s s.
  Proof. intros s. split; [apply R2_refl|auto]. Qed.
  Lemma R3_trans : forall a b c, R3 a b -> R3 b c -> R3 a c.
  Proof. intros a b c [A1 A2] [B1 B2]. split; [eapply R2_trans; eauto|auto]. Qed.
  Lemma pres_R3 : forall A (m : M A), pres R2 m -> pres4 m -> pres R3 m.
  Proof. intros A m H1 H2 s x s' E. split; [exact (H1 s x s' E)|]. intros Ms. exact (proj1 (H2 s x s' E Ms)). Qed.

  Theorem ematch_all_cov0 : forall p l s', pat_P LP p -> ematch_all p s0 = Ok (l, s') ->
    forall sb, In sb l -> forall v a, sub_get sb v = Some a ->
    covers s0 a /\ forall x, In x (values_vec (am a)) -> LP x \/ x < ectr s'.
  Proof.
    intros p l s' PB H sb Hsb. unfold ematch_all in H.
    apply mbind_inv in H. destruct H as (live & s1 & Hl & H). inversion Hl; subst live s1; clear Hl.
    assert (Hf : forall i, pres R3 (dom sl <- reads (fun s => class_slots s i);
                                    dom sts <- ematch_impl p estate0 {| aid := i; am := identity sl |};
                                    mapM final_subst sts)).
    { intros i. apply pres_R3.
      - apply (pres_bind R2 R2_trans); [apply pres_reads; exact R2_refl|]. intros sl.
        apply (pres_bind R2 R2_trans); [apply r2_ematch_impl|]. intros sts.
        apply (pres_mapM R2 R2_refl R2_trans). intros st. apply r2_final_subst.
      - apply h_tt_bind; [apply h_reads_tt|]. intros sl. apply h_tt_bind; [apply h_ematch_impl|]. intros sts.
        apply h_mapM. intros st. apply h_final_subst. }
    destruct (flat_mapM_invR R3 R3_refl R3_trans _ _ _ _ _ _ _ Hf H sb Hsb) as (i & sa & ra & sb' & _ & [Ra Ma] & Hi & Hra & [Rend _]). clear H.
    assert (RA : Rel sa) by exact (Rel_R2 _ _ Rel_refl Ra).
    apply mbind_inv in Hi. destruct Hi as (sl & sa' & Hs & Hi). apply reads_inv in Hs. destruct Hs as [Hs ->].
    unfold class_slots in Hs. rewrite (Rel_class _ _ RA) in Hs.
    destruct (get_class s0 i) as [c|] eqn:Hc; cbn [bind] in Hs; [|discriminate]. inversion Hs; subst sl; clear Hs.
    apply mbind_inv in Hi. destruct Hi as (sts & s2 & Hm & Hi).
    destruct (class_facts _ _ Hc) as [_ Below].
    assert (Croot : cb sa {| aid := i; am := identity (c_slots c) |}).
    { split; [split; [apply covers_identity; exact Hc|apply identity_wf]|].
      cbn [am]. intros v Hv. unfold values_vec in Hv. apply in_map_iff in Hv. destruct Hv as ([k v'] & <- & Hkv).
      apply in_identity in Hkv. destruct Hkv as [<- Hk]. cbn [snd]. pose proof (Below k Hk). destruct RA as [_ RA]. lia. }
    assert (S0 : st_ok sa estate0).
    { split; [intros v a []|intros k v G; discriminate G]. }
    pose proof (r2_ematch_impl _ _ _ _ _ _ Hm) as R12.
    assert (M2 : m4 s2) by exact (proj1 (h_ematch_impl _ _ _ _ _ _ Hm (Ma M4full))).
    assert (Hf2 : forall st, pres R3 (final_subst st)) by (intros st; apply pres_R3; [apply r2_final_subst|apply h_final_subst]).
    destruct (mapM_invR R3 R3_refl R3_trans _ _ _ _ _ _ _ Hf2 Hi sb Hra) as (st & sc & sd & Hst & [Rc Mc] & Hfs & [Rd _]).
    pose proof (ematch_impl_ok p PB estate0 _ sa sts s2 RA Croot S0 Hm st Hst) as [Ast Bst].
    pose proof (ematch_impl_bij _ _ _ _ _ _ Hm eq_refl st Hst) as Bij. apply is_bijection_inj in Bij.
    assert (RC : Rel sc) by exact (Rel_R2 _ _ (Rel_R2 _ _ RA R12) Rc).
    rewrite final_subst_go in Hfs.
    intros v a Hg. destruct (sub_get_in _ _ _ Hg) as (k & Hk).
    destruct (final_go_cov _ _ _ _ _ Hfs RC) as [_ Fin]; [|exact Bij| | |].
    - intros w b Hw. eapply cb_mono; [exact (proj2 Rc)|exact (Ast w b Hw)].
    - intros k0 v0 G. left. exact (Bst k0 v0 G).
    - apply LP_nf; [exact (proj2 RC)|exact (proj1 (Mc M2))].
    - destruct (Fin k a Hk) as [Cv Vb]. split; [exact Cv|]. intros x Hx. destruct (Vb x Hx) as [Q|Lt]; [left; exact Q|right].
      destruct Rd as [_ Rd], Rend as [_ Rend]. unfold cle in *. lia.
  Qed.
End Matcher.

(* ------------------------------------------------------------------ *)
(* 8. GOAL 1: every substitution returned by the matcher binds covering invocations *)

(* pattern slots / values of returned maps: older than the counter, or not in the residue class of fresh slots *)
Definition pat_pre (B : N) (p : pattern) : Prop := pat_P (fun x => x < B \/ x mod 4 <> 1) p.
Definition pat_preb (B : N) (p : pattern) : bool := forallb (fun x => (x <? B) || negb (x mod 4 =? 1)) (pslots p).
Definition sub_pre (s : egraph) (sb : subst) : Prop :=
  forall v a, sub_get sb v = Some a -> forall x, In x (values_vec (am a)) -> x < ectr s \/ x mod 4 <> 1.
(* the strict forms *)
Definition sub_below (s : egraph) (sb : subst) : Prop :=
  forall v a, sub_get sb v = Some a -> forall x, In x (values_vec (am a)) -> x < ectr s.

Lemma pat_preb_sound : forall B p, pat_preb B p = true -> pat_pre B p.
Proof.
  intros B p H x Hx. unfold pat_preb in H. rewrite forallb_forall in H. specialize (H x Hx).
  apply orb_true_iff in H. destruct H as [H|H]; [left; apply N.ltb_lt; exact H|right].
  apply negb_true_iff in H. apply N.eqb_neq in H. exact H.
Qed.

Lemma pat_below_pre : forall B p, pat_below B p -> pat_pre B p.
Proof. intros B p H x Hx. left. exact (H x Hx). Qed.

Lemma sub_below_pre : forall s sb, sub_below s sb -> sub_pre s sb.
Proof. intros s sb H v a G x Hx. left. exact (H v a G x Hx). Qed.

(* GOAL 1, general form *)
Theorem ematch_all_covers_pre : forall p s l s', inv3 s -> kids_ok s -> m4 s -> pat_pre (ectr s) p ->
  ematch_all p s = Ok (l, s') -> Forall (fun sb => sub_cov s' sb /\ sub_pre s' sb) l.
Proof.
  intros p s l s' I3 K M PB H. apply Forall_forall. intros sb Hsb.
  destruct (ematch_all_state _ _ _ _ H) as (_ & Ec & _). pose proof (ematch_all_ctr _ _ _ _ H) as Lc. unfold cle in Lc.
  assert (NFp : forall s1, ectr s <= ectr s1 -> ok1 (ectr s1) -> NF s1 (fun x => x < ectr s \/ x mod 4 <> 1)).
  { intros s1 L O c Hc Em v [Lt|Ne] Ev; subst v; [lia|]. unfold ok1 in O. congruence. }
  pose proof (ematch_all_cov0 s I3 K (m4_cls4 _ M) _ M NFp p l s' PB H sb Hsb) as T. split.
  - intros v a Hg. apply (covers_same_classes s s' a Ec). exact (proj1 (T v a Hg)).
  - intros v a Hg x Hx. destruct (proj2 (T v a Hg) x Hx) as [[Lt|Ne]|Lt]; [left; lia|right; exact Ne|left; exact Lt].
Qed.

Theorem ematch_all_covers : forall p s l s', inv3 s -> kids_ok s -> m4 s -> pat_pre (ectr s) p ->
  ematch_all p s = Ok (l, s') -> Forall (sub_cov s') l.
Proof.
  intros p s l s' I3 K M PB H. generalize (ematch_all_covers_pre p s l s' I3 K M PB H).
  apply Forall_impl. intros sb [A _]. exact A.
Qed.

(* strict form: pattern slots below the counter give values below the counter *)
Theorem ematch_all_covers_below : forall p s l s', inv3 s -> kids_ok s -> m4 s -> pat_below (ectr s) p ->
  ematch_all p s = Ok (l, s') -> Forall (fun sb => sub_cov s' sb /\ sub_below s' sb) l.
Proof.
  intros p s l s' I3 K M PB H. apply Forall_forall. intros sb Hsb.
  destruct (ematch_all_state _ _ _ _ H) as (_ & Ec & _). pose proof (ematch_all_ctr _ _ _ _ H) as Lc. unfold cle in Lc.
  assert (NFp : forall s1, ectr s <= ectr s1 -> ok1 (ectr s1) -> NF s1 (fun x => x < ectr s)).
  { intros s1 L O c Hc Em v Lt Ev. subst v. lia. }
  pose proof (ematch_all_cov0 s I3 K (m4_cls4 _ M) _ M NFp p l s' PB H sb Hsb) as T. split.
  - intros v a Hg. apply (covers_same_classes s s' a Ec). exact (proj1 (T v a Hg)).
  - intros v a Hg x Hx. destruct (proj2 (T v a Hg) x Hx) as [Lt|Lt]; lia.
Qed.

Corollary ematch_all_covers_m4 : forall p s l s', inv3 s -> kids_ok s -> m4 s -> pat_pre (ectr s) p ->
  ematch_all p s = Ok (l, s') -> Forall (sub_cov s') l /\ Forall (sub_cov s) l.
Proof.
  intros p s l s' I3 K M PB H. pose proof (ematch_all_covers p s l s' I3 K M PB H) as F. split; [exact F|].
  destruct (ematch_all_state _ _ _ _ H) as (_ & Ec & _).
  revert F. apply Forall_impl. intros sb Hs v a Hg. apply (covers_same_classes s' s a (eq_sym Ec)). exact (Hs v a Hg).
Qed.

(* ------------------------------------------------------------------ *)
(* 9. the searcher phase of apply_rewrites delivers covering substitutions: `searchers_ok` of
   ProgressFacts.v, and the C15 statement without the searchers premise *)

Definition rules_below (B : N) (rs : list rule) : Prop :=
  Forall (fun r => pat_below B (r_lhs r) /\ pat_below B (r_rhs r)) rs.
Definition rules_belowb (B : N) (rs : list rule) : bool :=
  forallb (fun r => pat_belowb B (r_lhs r) && pat_belowb B (r_rhs r)) rs.
(* the general premise of the searcher phase: only the left-hand sides matter *)
Definition rules_pre (B : N) (rs : list rule) : Prop := Forall (fun r => pat_pre B (r_lhs r)) rs.
Definition rules_preb (B : N) (rs : list rule) : bool := forallb (fun r => pat_preb B (r_lhs r)) rs.
(* a schedule only reorders / drops substitutions *)
Definition sched_sub (sched : nat -> list subst -> list subst) : Prop := forall k l, incl (sched k l) l.

Lemma rules_belowb_sound : forall B rs, rules_belowb B rs = true -> rules_below B rs.
Proof.
  intros B rs H. apply Forall_forall. intros r Hr. unfold rules_belowb in H. rewrite forallb_forall in H.
  specialize (H r Hr). apply andb_true_iff in H. destruct H as [H1 H2]. split; apply pat_belowb_sound; assumption.
Qed.

Lemma rules_preb_sound : forall B rs, rules_preb B rs = true -> rules_pre B rs.
Proof.
  intros B rs H. apply Forall_forall. intros r Hr. unfold rules_preb in H. rewrite forallb_forall in H.
  apply pat_preb_sound. exact (H r Hr).
Qed.

Lemma rules_below_mono : forall B B' rs, B <= B' -> rules_below B rs -> rules_below B' rs.
Proof.
  intros B B' rs L. apply Forall_impl. intros r [H1 H2].
  split; intros x Hx; [pose proof (H1 x Hx)|pose proof (H2 x Hx)]; lia.
Qed.

Lemma rules_below_pre : forall B rs, rules_below B rs -> rules_pre B rs.
Proof. intros B rs. apply Forall_impl. intros r [H _]. apply pat_below_pre. exact H. Qed.

Lemma sub_cov_same_classes : forall s s' sb, classes s' = classes s -> sub_cov s sb -> sub_cov s' sb.
Proof. intros s s' sb E H v a G. eapply covers_same_classes; [exact E|exact (H v a G)]. Qed.

Lemma sub_below_mono : forall s s' sb, ectr s <= ectr s' -> sub_below s sb -> sub_below s' sb.
Proof. intros s s' sb L H v a G x Hx. pose proof (H v a G x Hx). lia. Qed.

Lemma sub_pre_mono : forall s s' sb, ectr s <= ectr s' -> sub_pre s sb -> sub_pre s' sb.
Proof. intros s s' sb L H v a G x Hx. destruct (H v a G x Hx); [left; lia|right; assumption]. Qed.

Section SearchGen.
  Variable P : N -> pattern -> Prop.
  Variable Q : egraph -> subst -> Prop.
  Hypothesis Hstep : forall p s l s', inv3 s -> kids_ok s -> m4 s -> P (ectr s) p ->
    ematch_all p s = Ok (l, s') -> Forall (Q s') l.
  Hypothesis HQ : forall s s' sb, classes s' = classes s -> ectr s <= ectr s' -> Q s sb -> Q s' sb.
  Hypothesis HP : forall B B' p, B <= B' -> P B p -> P B' p.

  Lemma searchers_gen : forall rs s ts s1, inv3 s -> kids_ok s -> m4 s -> Forall (fun r => P (ectr s) (r_lhs r)) rs ->
    mapM (fun r => ematch_all (r_lhs r)) rs s = Ok (ts, s1) -> Forall (Forall (Q s1)) ts.
  Proof.
    induction rs as [|r rs IH]; intros s ts s1 I3 K M RB H; cbn [mapM] in H.
    - apply ret_inv in H. destruct H as [-> _]. constructor.
    - apply mbind_inv in H. destruct H as (l & sa & Hl & H). apply mbind_inv in H. destruct H as (ts' & sb & Ht & H).
      apply ret_inv in H. destruct H as [-> ->].
      pose proof (Forall_inv RB) as Pr. pose proof (Forall_inv_tail RB) as RB'.
      pose proof (ematch_all_state _ _ _ _ Hl) as Ga. pose proof (ematch_all_ctr _ _ _ _ Hl) as La.
      pose proof (sg_searchers rs _ _ _ Ht) as Gb. pose proof (c_searchers rs _ _ _ Ht) as Lb.
      constructor.
      + pose proof (Hstep _ _ _ _ I3 K M Pr Hl) as F. revert F. apply Forall_impl. intros sb0.
        apply HQ; [destruct Gb as (_ & E & _); exact E|exact Lb].
      + destruct Ga as (Ga1 & Ga2 & Ga3 & Ga4).
        apply (IH sa ts' sb); [|eapply kids_ok_same_classes; eauto|exact (proj1 (h_ematch_all _ _ _ _ Hl M))| |exact Ht].
        * exact (proj1 (qstep_sg s sa I3 (conj Ga1 (conj Ga2 (conj Ga3 Ga4))) La)).
        * revert RB'. apply Forall_impl. intros r0. apply HP. exact La.
  Qed.
End SearchGen.

Lemma searchers_cov_pre : forall rs s ts s1, inv3 s -> kids_ok s -> m4 s -> rules_pre (ectr s) rs ->
  mapM (fun r => ematch_all (r_lhs r)) rs s = Ok (ts, s1) ->
  Forall (Forall (fun sb => sub_cov s1 sb /\ sub_pre s1 sb)) ts.
Proof.
  apply (searchers_gen pat_pre (fun s sb => sub_cov s sb /\ sub_pre s sb)).
  - exact ematch_all_covers_pre.
  - intros s s' sb E L [A B]. split; [eapply sub_cov_same_classes; eauto|eapply sub_pre_mono; eauto].
  - intros B B' p L H x Hx. destruct (H x Hx); [left; lia|right; assumption].
Qed.

Lemma searchers_cov_below : forall rs s ts s1, inv3 s -> kids_ok s -> m4 s -> rules_below (ectr s) rs ->
  mapM (fun r => ematch_all (r_lhs r)) rs s = Ok (ts, s1) ->
  Forall (Forall (fun sb => sub_cov s1 sb /\ sub_below s1 sb)) ts.
Proof.
  intros rs s ts s1 I3 K M RB.
  apply (searchers_gen pat_below (fun s sb => sub_cov s sb /\ sub_below s sb)); try assumption.
  - exact ematch_all_covers_below.
  - intros s2 s' sb E L [A B]. split; [eapply sub_cov_same_classes; eauto|eapply sub_below_mono; eauto].
  - intros B B' p L H x Hx. pose proof (H x Hx). lia.
  - revert RB. apply Forall_impl. intros r [H _]. exact H.
Qed.

Lemma searchers_cov : forall rs s ts s1, inv3 s -> kids_ok s -> m4 s -> rules_pre (ectr s) rs ->
  mapM (fun r => ematch_all (r_lhs r)) rs s = Ok (ts, s1) -> Forall (Forall (sub_cov s1)) ts.
Proof.
  intros rs s ts s1 I3 K M RB H. generalize (searchers_cov_pre rs s ts s1 I3 K M RB H).
  apply Forall_impl. intros l. apply Forall_impl. intros sb [A _]. exact A.
Qed.

Lemma mapi_from_sched_cov : forall (P : subst -> Prop) sched, sched_sub sched ->
  forall ts k, Forall (Forall P) ts -> Forall (Forall P) (mapi_from sched k ts).
Proof.
  intros P sched SS. induction ts as [|l t IH]; intros k F; cbn [mapi_from]; [constructor|].
  pose proof (Forall_inv F) as Fl. pose proof (Forall_inv_tail F) as Ft. constructor; [|apply IH; exact Ft].
  apply Forall_forall. intros sb Hsb. exact (proj1 (Forall_forall _ _) Fl sb (SS k l sb Hsb)).
Qed.

Theorem searchers_ok_proved : forall sched rs s, sched_sub sched ->
  inv3 s -> kids_ok s -> m4 s -> rules_pre (ectr s) rs -> searchers_ok sched rs s.
Proof.
  intros sched rs s SS I3 K M RB ts s1 H. apply mapi_from_sched_cov; [exact SS|].
  exact (searchers_cov rs s ts s1 I3 K M RB H).
Qed.

(* C15 on the model, WITHOUT the searchers premise: apply_rewrites returns false only if nothing changed *)
Theorem apply_rewrites_false_unchanged_all : forall sched rs s s', sched_sub sched ->
  inv3 s -> pending s = [] -> kids_ok s -> m4 s -> rules_pre (ectr s) rs ->
  apply_rewrites_sched sched rs s = Ok (false, s') ->
  same_graph s s' /\ total_number_of_nodes s' = total_number_of_nodes s /\ obs_same s s'.
Proof.
  intros sched rs s s' SS I3 Pd K M RB H.
  exact (apply_rewrites_false_unchanged sched rs s I3 Pd (searchers_ok_proved sched rs s SS I3 K M RB) s' H).
Qed.

Corollary apply_rewrites_false_unchanged_id : forall rs s s',
  inv3 s -> pending s = [] -> kids_ok s -> m4 s -> rules_pre (ectr s) rs ->
  apply_rewrites rs s = Ok (false, s') ->
  same_graph s s' /\ total_number_of_nodes s' = total_number_of_nodes s /\ obs_same s s'.
Proof.
  intros rs s s' I3 Pd K M RB H. apply (apply_rewrites_false_unchanged_all (fun _ l => l) rs s s'); auto.
  intros k l x Hx. exact Hx.
Qed.

(* ------------------------------------------------------------------ *)
(* 10b. ... and by the applier phase *)

Lemma h_do_term_subst : forall re x t, pres4 (do_term_subst re x t).
Proof.
  fix IH 1. intros [n ch] x t. cbn [do_term_subst]. apply h_tt_bind.
  - generalize (List.length (app_occ n)). induction ch as [|c r IHr]; intros k.
    + destruct k; [apply h_tt_ret|apply h_fail].
    + destruct k as [|k]; [apply h_tt_ret|].
      apply h_tt_bind; [apply IH|]. intros a. apply h_tt_bind; [apply IHr|]. intros; apply h_tt_ret.
  - intros l. apply h_tt_bind; [apply h_eg_add|]. intros app_id. destruct (appid_eqb app_id x); apply h_tt_ret.
Qed.

Lemma h_pattern_subst : forall p sb, pres4 (pattern_subst p sb).
Proof.
  intros p sb. induction p as [v|n ch IH|b x t IHb IHx IHt] using pattern_ind2.
  - cbn [pattern_subst]. destruct (sub_get sb v); [apply h_tt_ret|apply h_fail].
  - rewrite pattern_subst_node. apply h_tt_bind; [|intros l; apply h_eg_add].
    generalize (List.length (app_occ n)). induction IH as [|c r Hc _ IHr]; intros k.
    + rewrite psubst_kids_nil. destruct k; [apply h_tt_ret|apply h_fail].
    + destruct k as [|k]; [rewrite psubst_kids_O; apply h_tt_ret|]. rewrite psubst_kids_cons.
      apply h_tt_bind; [exact Hc|]. intros a. apply h_tt_bind; [apply IHr|]. intros; apply h_tt_ret.
  - cbn [pattern_subst]. apply h_tt_bind; [exact IHb|]. intros b'. apply h_tt_bind; [exact IHx|]. intros x'.
    apply h_tt_bind; [exact IHt|]. intros t'. unfold syn_expr_subst.
    apply h_tt_bind; [apply h_synify_app_id|]. intros sb'.
    apply h_tt_bind; [apply h_reads_tt|]. intros term. apply h_do_term_subst.
Qed.

Lemma h_union_instantiations : forall fp tp sb, pres4 (union_instantiations fp tp sb).
Proof.
  intros. unfold union_instantiations.
  apply h_tt_bind; [apply h_pattern_subst|]. intros a. apply h_tt_bind; [apply h_pattern_subst|]. intros b.
  apply h_tt_bind; [apply h_synify_app_id|]. intros _. apply h_tt_bind; [apply h_synify_app_id|]. intros _.
  apply h_tt_bind; [apply h_uint|]. intros out. apply h_tt_bind; [apply h_rebuild|]. intros _. apply h_tt_ret.
Qed.

Theorem h_apply_rewrites_sched : forall sched rs, pres4 (apply_rewrites_sched sched rs).
Proof.
  intros. unfold apply_rewrites_sched. apply h_tt_bind; [apply h_reads_tt|]. intros p0.
  apply h_tt_bind; [apply h_mapM; intros r; apply h_ematch_all|]. intros ts. cbv zeta.
  apply h_tt_bind.
  - apply h_iterM. intros [r substs] _. unfold apply_substs_cond. apply h_iterM. intros sb _.
    apply h_tt_bind; [apply h_lift_tt|]. intros c. destruct c; [|apply h_tt_ret].
    apply h_tt_bind; [apply h_union_instantiations|]. intros; apply h_tt_ret.
  - intros _. apply h_tt_bind; [apply h_reads_tt|]. intros p1. apply h_tt_ret.
Qed.

(* ------------------------------------------------------------------ *)
(* 11. `good` states are closed under apply_rewrites; a run that stops as Saturated left the graph unchanged.
   The ONLY remaining premise: the applier phase keeps `kids_ok` (`kids_step`; see KidsFacts.v). *)

Section GoodAll.
  Variable sched : nat -> list subst -> list subst.
  Variable rs : list rule.
  Hypothesis SS : sched_sub sched.

  Definition good2 (s : egraph) : Prop :=
    inv3 s /\ pending s = [] /\ kids_ok s /\ m4 s /\ rules_below (ectr s) rs.

  Lemma good2_good : forall s, good2 s -> good sched rs s.
  Proof.
    intros s (I3 & Pd & K & M & RB). split; [exact I3|]. split; [exact Pd|].
    exact (searchers_ok_proved sched rs s SS I3 K M (rules_below_pre _ _ RB)).
  Qed.

  Theorem apply_rewrites_false_unchanged_good : forall s s', good2 s ->
    apply_rewrites_sched sched rs s = Ok (false, s') ->
    same_graph s s' /\ total_number_of_nodes s' = total_number_of_nodes s /\ obs_same s s'.
  Proof.
    intros s s' (I3 & Pd & K & M & RB) H.
    exact (apply_rewrites_false_unchanged_all sched rs s s' SS I3 Pd K M (rules_below_pre _ _ RB) H).
  Qed.

  Hypothesis kids_step : forall s b s', good2 s -> apply_rewrites_sched sched rs s = Ok (b, s') -> kids_ok s'.

  Theorem good2_apply_total : forall s, good2 s -> good2 (snd (apply_total sched rs s)).
  Proof.
    intros s G. pose proof G as (I3 & Pd & K & M & RB). unfold apply_total.
    destruct (apply_rewrites_sched sched rs s) as [[b s']|e] eqn:E; cbn [snd]; [|exact G].
    destruct (apply_rewrites_qstep sched rs s b s' I3 (proj2 (proj2 (good2_good s G))) E) as [Q D].
    split; [exact (proj1 Q)|]. split; [exact (D Pd)|]. split; [exact (kids_step s b s' G E)|].
    split; [exact (proj1 (h_apply_rewrites_sched sched rs s _ s' E M))|].
    eapply rules_below_mono; [|exact RB]. destruct Q as (_ & (_ & _ & ((L & _) & _) & _) & _). exact L.
  Qed.

  Theorem good2_steps : forall k s, good2 s -> good2 (Run.Runner.steps egraph (apply_total sched rs) k s).
  Proof.
    induction k as [|k IH]; intros s G; cbn [Run.Runner.steps]; [exact G|]. apply IH. apply good2_apply_total. exact G.
  Qed.

  Variable nodes : egraph -> nat.
  Variable nclasses : egraph -> nat.
  Variable hook : nat -> egraph -> option nat.
  Variable late : nat -> bool.

  Theorem run_saturated_same_graph_all : forall lim fuel s r sf, good2 s ->
    Run.Runner.runner_run egraph (apply_total sched rs) nodes nclasses hook late lim fuel s = Some (r, sf) ->
    Run.Runner.stop_reason r = Run.Runner.Saturated ->
    exists s_prev, s_prev = Run.Runner.steps egraph (apply_total sched rs) (Run.Runner.iterations r - 1) s /\
      sf = snd (apply_total sched rs s_prev) /\
      same_graph s_prev sf /\ total_number_of_nodes sf = total_number_of_nodes s_prev /\ obs_same s_prev sf.
  Proof.
    intros lim fuel s r sf G H Hs.
    destruct (run_saturated_unchanged sched rs nodes nclasses hook late lim fuel s r sf H Hs) as (sp & E1 & E2 & U).
    exists sp. split; [exact E1|]. split; [exact E2|]. apply U. rewrite E1. apply good2_good. apply good2_steps. exact G.
  Qed.
End GoodAll.

(* ------------------------------------------------------------------ *)
(* 11b. `kids_step` reduced to the applier phase alone: what the searchers hand to the appliers satisfies
   `sub_ok` (covering invocations with values older than the counter), in a state satisfying inv3, m4, kids_ok
   and `rules_below`.  `appliers_keep` is the statement KidsFacts.v has to supply. *)

Definition sub_ok (s : egraph) (sb : subst) : Prop := sub_cov s sb /\ sub_below s sb.

Definition appliers_keep_kids_for (RP : rule -> Prop) : Prop :=
  forall (l : list (rule * list subst)) s x s',
    inv3 s -> m4 s -> kids_ok s ->
    Forall (fun rt : rule * list subst =>
              RP (fst rt) /\
              pat_below (ectr s) (r_lhs (fst rt)) /\ pat_below (ectr s) (r_rhs (fst rt)) /\ Forall (sub_ok s) (snd rt)) l ->
    iterM (fun rt : rule * list subst => apply_substs_cond (fst rt) (snd rt)) l s = Ok (x, s') -> kids_ok s'.

Definition appliers_keep_kids : Prop :=
  forall (l : list (rule * list subst)) s x s',
    inv3 s -> m4 s -> kids_ok s ->
    Forall (fun rt : rule * list subst =>
              pat_below (ectr s) (r_lhs (fst rt)) /\ pat_below (ectr s) (r_rhs (fst rt)) /\ Forall (sub_ok s) (snd rt)) l ->
    iterM (fun rt : rule * list subst => apply_substs_cond (fst rt) (snd rt)) l s = Ok (x, s') -> kids_ok s'.

Lemma appliers_keep_kids_any : appliers_keep_kids -> appliers_keep_kids_for (fun _ => True).
Proof.
  intros AK l s x s' I3 M K F H. apply (AK l s x s' I3 M K); [|exact H].
  revert F. apply Forall_impl. intros rt (_ & A). exact A.
Qed.

Section KidsStep.
  Variable sched : nat -> list subst -> list subst.
  Variable rs : list rule.
  Variable RP : rule -> Prop.
  Hypothesis SS : sched_sub sched.
  Hypothesis AK : appliers_keep_kids_for RP.
  Hypothesis RPrs : Forall RP rs.

  Theorem kids_step_proved : forall s b s', good2 rs s -> apply_rewrites_sched sched rs s = Ok (b, s') -> kids_ok s'.
  Proof.
    intros s b s' (I3 & Pd & K & M & RB) H. unfold apply_rewrites_sched in H.
    apply bind_reads_inv in H. destruct H as (p0 & P0 & H).
    apply mbind_inv in H. destruct H as (ts & s1 & H1 & H). cbv zeta in H.
    pose proof (c_searchers rs s ts s1 H1) as Lc. pose proof (sg_searchers rs s ts s1 H1) as G1.
    pose proof (searchers_cov_below rs s ts s1 I3 K M RB H1) as SC.
    apply mbind_inv in H. destruct H as (u & s2 & H2 & H).
    apply bind_reads_inv in H. destruct H as (p1 & P1 & H). inversion H; subst b s2; clear H.
    assert (I3' : inv3 s1) by exact (proj1 (qstep_sg s s1 I3 G1 Lc)).
    assert (M' : m4 s1).
    { refine (proj1 (h_mapM _ _ (fun r => ematch_all (r_lhs r)) rs _ s ts s1 H1 M)). intros r. apply h_ematch_all. }
    assert (K' : kids_ok s1) by (destruct G1 as (_ & E & _); eapply kids_ok_same_classes; eauto).
    assert (RB' : rules_below (ectr s1) rs) by (eapply rules_below_mono; [exact Lc|exact RB]).
    apply (AK (combine rs (mapi_from sched O ts)) s1 u s' I3' M' K'); [|exact H2].
    pose proof (mapi_from_sched_cov (sub_ok s1) sched SS ts O SC) as SC'.
    apply Forall_forall. intros [r l] Hin. cbn [fst snd].
    pose proof (in_combine_l _ _ _ _ Hin) as Hr. pose proof (in_combine_r _ _ _ _ Hin) as Hl.
    destruct (proj1 (Forall_forall _ _) RB' r Hr) as [B1 B2].
    split; [exact (proj1 (Forall_forall _ _) RPrs r Hr)|].
    split; [exact B1|]. split; [exact B2|]. exact (proj1 (Forall_forall _ _) SC' l Hl).
  Qed.

  Theorem good2_steps_final : forall k s, good2 rs s -> good2 rs (Run.Runner.steps egraph (apply_total sched rs) k s).
  Proof. exact (good2_steps sched rs SS kids_step_proved). Qed.

  Variable nodes : egraph -> nat.
  Variable nclasses : egraph -> nat.
  Variable hook : nat -> egraph -> option nat.
  Variable late : nat -> bool.

  Theorem run_saturated_same_graph_final : forall lim fuel s r sf, good2 rs s ->
    Run.Runner.runner_run egraph (apply_total sched rs) nodes nclasses hook late lim fuel s = Some (r, sf) ->
    Run.Runner.stop_reason r = Run.Runner.Saturated ->
    exists s_prev, s_prev = Run.Runner.steps egraph (apply_total sched rs) (Run.Runner.iterations r - 1) s /\
      sf = snd (apply_total sched rs s_prev) /\
      same_graph s_prev sf /\ total_number_of_nodes sf = total_number_of_nodes s_prev /\ obs_same s_prev sf.
  Proof.
    exact (run_saturated_same_graph_all sched rs SS kids_step_proved nodes nclasses hook late).
  Qed.
End KidsStep.

(* ------------------------------------------------------------------ *)
(* 12. the premise `pat_pre` is needed: a pattern slot that the counter still has to reach collides with a
   fresh slot drawn by `final_subst`.  State: lam x. f(x, y) inserted into the empty graph (counter 17);
   pattern (lam $21 ?x): the returned invocation of ?x maps both slots of the class of f to $21. *)
Definition mx_state : egraph :=
  match run_ops [xlam 2 (xs2 2 2 6)] [HAdd 0] [] empty_egraph with Ok (_, s) => s | Err _ => empty_egraph end.
Definition mx_pat (X : N) : pattern := PNode {| nvar := 0; nargs := [ABind X xph] |} [PVarP [120]].

Example ematch_all_covers_needs_pat_below :
  inv3 mx_state /\ kids_ok mx_state /\ m4 mx_state /\ pending mx_state = [] /\
  ~ pat_pre (ectr mx_state) (mx_pat 21) /\ pat_pre (ectr mx_state) (mx_pat 13) /\
  ectr mx_state = 17 /\
  match ematch_all (mx_pat 21) mx_state with
  | Ok (l, s') => l = [[([120], {| aid := 0; am := [(1, 21); (5, 21)] |})]] /\
                  forallb (fun sb : subst => forallb (fun va => coversb s' (snd va)) sb) l = false
  | Err _ => False
  end /\
  match ematch_all (mx_pat 13) mx_state with
  | Ok (l, s') => forallb (fun sb : subst => forallb (fun va => coversb s' (snd va)) sb) l = true
  | Err _ => False
  end.
Proof.
  split.
  { apply (reachable_inv3 [xlam 2 (xs2 2 2 6)] [HAdd 0]
             (match run_ops [xlam 2 (xs2 2 2 6)] [HAdd 0] [] empty_egraph with Ok (hs, _) => hs | Err _ => [] end)).
    vm_compute. reflexivity. }
  split; [apply kids_okb_sound; vm_compute; reflexivity|].
  split; [apply m4b_sound; vm_compute; reflexivity|].
  split; [reflexivity|].
  split.
  { intros H. assert (Hin : In 21 (pslots (mx_pat 21))) by (vm_compute; left; reflexivity).
    destruct (H 21 Hin) as [Lt|Ne]; [vm_compute in Lt; discriminate Lt|apply Ne; reflexivity]. }
  split; [apply pat_preb_sound; vm_compute; reflexivity|].
  vm_compute. repeat split; reflexivity.
Qed.

Print Assumptions ematch_all_covers.
Print Assumptions searchers_ok_proved.
Print Assumptions apply_rewrites_false_unchanged_all.
Print Assumptions h_apply_rewrites_sched.
Print Assumptions run_saturated_same_graph_all.
Print Assumptions ematch_all_covers_needs_pat_below.
Print Assumptions kids_step_proved.
Print Assumptions run_saturated_same_graph_final.
Print Assumptions ematch_all_covers_below.
Print Assumptions good2_apply_total.
