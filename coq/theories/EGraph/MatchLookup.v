(* EGraph/MatchLookup.v — C05 on the model: MATCHES DENOTE REPRESENTED TERMS.

   Statement (checked per run, STEP 0).  For `ematch_all p s = Ok (l, s')` and every sb in l, found in the live class i
   (slots sl) from the matcher state st, with mfin = the partial slot map of st after all the fresh extensions of
   `final_subst` (`final_go_m`):
       lookup_pat s' p sb = Ok (Some a)   and   eg_eq s' a {| aid := i; am := identity sl ** mfin |} = Ok true
   (`mr_root`: the class's slots are named by the pattern's slots where the pattern node names them, by the fresh
   slots of `final_subst` elsewhere).  `matches_okb` checks exactly this; `matches_okb_sound` (closed).
   vm_compute: true for all 21 patterns of `test_pats` (variables, depth one, repeated variables, slots, binders,
   nested) on 9 states satisfying hc_allb/kids_okb/m4b/nodes_okb/pending = [] (`checker_results`).
   COUNTEREXAMPLE (`root_needs_hc_ok`): on the final state of xT7/xO7 (a user-supplied child invocation that does not
   cover its class: `node_pre` fails, `hc_allb` = false, the same shape is stored in the live classes 7, 8, 9, while
   kids_okb, m4b, nodes_okb hold and pending = []) all 7 instances of `(4 ?x ?y)` are FOUND but 2 are found in another
   class than the one matched (root equality false): the premise `hc_ok` is needed for the root part.

   STEP 1 (depth one, `PNode nd (map PVarP vs)`, NoDup vs).  Closed lemmas: `ematch_all_r_spec`, `ematch_all_prov`,
   `ematch_impl_node_inv_sg` (provenance: nn in enodes_applied, n2 in weak_variants of the SAME graph),
   `ematch_kids_vars` (LINK A: one state, k-th variable := k-th child of n2), `lookup_pat_vars` (LINK B: the lookup
   of the instance is `eg_lookup s (set_apps nd (map snd sb))`), `shape_sg`/`eg_lookup_sg`/`weak_variants_sg`.
   Conditional theorem `depth_one_found` (Section DepthOne): the instance is found, in a live class
   (the proof shows: in the class i the match came from).  Its Section hypotheses, exactly:
     Hhc : hc_ok s                                      (premise of the goal)
     H_mono_impl : forall p st i, pres ctr_le (ematch_impl p st i)     (the fresh counter never decreases)
     H_mono_final : forall st, pres ctr_le (final_subst st)
     H_applied (C1) : every nn listed by `enodes_applied {|i; identity (c_slots c)|}` (i live, any state of the same
        graph) is `clean` (no public slot named like a binder) and `shape s nn = Ok (sh, _)` for an sh stored in class i
     H_variant (C2) : every n2 in `weak_variants s nn` of such an nn is `clean` and has the same shape sh
     H_inst (C3, pure) : for clean n2, pattern slots below the counter, equal weak shapes of nd and `nullify n2`,
        m' = insert_all_bij (combine (all_occ (nullify n2)) (all_occ nd)) [], and
        final_go (combine vs (app_occ n2)) m' t = Ok (sb, _):  exists g, ren_ok g n2 /\ set_apps nd (map snd sb) = ren g n2
   (Hpe : pending s = [] is declared but not used by the glue; it is needed to discharge C1 via `stored_canonical`.)
   C1, C2, C3 were tested along real runs by `links_okb` (with g := lookup in mfin) on 10 states x 11 depth-one
   patterns: all true (`links_checked`); the counter end-to-end: `mono_checked`.
   What the glue proves from them: shape_ren (HashconsShape.v) gives shape s inst = Ok (sh, _), tb_bwd of hc_ok gives
   the hashcons hit in class i.  NOT proved even conditionally: the `eg_eq` part (root relation); `shape_ren` only
   gives the shape, not the bijection; one needs `shape s (ren g n) = Ok (sh, map_vals (g true) b)` up to a group
   element of class i (the variant step changes the bijection by a symmetry, whence eg_eq rather than equality).

   SECOND ROUND (discharged).  H_mono_impl / H_mono_final: `c_ematch_impl`, `c_final_subst` of ProgressFacts.v.
   C1: `ea_entry_shape` (one entry of enodes_applied: stage 0 `shape_apply` + `stored_canonical`, stages 1 and 2
   `shape_ren` with the capture-freeness conditions of MatchFacts.v `ea_entry_kids`; the listed node is `clean`),
   `mapM_entries_shape`, `applied_shape` (= C1, closed; premises inv3, kids_ok, cls4, hc_ok, pending = []; the state t
   must satisfy `sg_ge s t`, so H_applied / H_variant now carry `sg_ge s t` instead of `same_graph s t`).
   C2: the `clean` half is proved (`variant_clean`, by `weak_variants_sub` + `variants_sub`); the shape half is reduced
   to the GROUP-CLOSURE hypothesis C2' on ALL group variants.
   `depth_one_found_final` (closed) has exactly these two remaining hypotheses (besides the premises
   inv3 s, kids_ok s, cls4 s, hc_ok s, pending s = [], NoDup vs, arity, pat_below (ctr s) p):
     C2' : forall i c t nns t' nn all n2 sh b, In i (ids s) -> get_class s i = Ok c -> sg_ge s t ->
             enodes_applied {| aid := i; am := identity (c_slots c) |} t = Ok (nns, t') -> In nn nns ->
             variants s nn = Ok all -> In n2 all -> shape s nn = Ok (sh, b) -> exists b', shape s n2 = Ok (sh, b')
           (tested on ALL variants of all listed nodes of all live classes of the 10 states: `c2all_checked`)
     C3  : H_inst above, unchanged (pure node algebra; tested by `links_checked`).
   Not done: the `eg_eq` root part (see above for the reduction).

   THIRD ROUND.  C3 is PROVED: `inst_ren` (closed), with `clean n` now = (no public slot named like a binder) /\ `wfk n`
   (`wfk n`: every child map of n is sorted; needed because `am a ** m` is a sorted map and equals the positional
   `ren_vals` only for sorted `am a`; C1 / `variant_clean` establish it from `ea_entry_kids` / `variants_cb`).
   Ingredients (all closed): `final_go_spec` (ONE injective final map mf extending m'; every child map becomes
   `am a ** mf`; mf is defined on all child values), `compose_total_mapv`, `compose_ext_on`, `insert_all_bij_src`,
   `all_occ_ren_flagless`, `nullify_eq`/`set_apps_nullify` (n = set_apps (nullify n) (app_occ n)), `all_occ_split`,
   `skel_occ_len`; the equation is `set_apps_ren` (HashconsShape.v) + `skel_occ_inj` (ShapeFacts.v): equal weak shapes
   give equal skeletons, `insert_all_bij_get` gives the slot occurrences positionally.
   `depth_one_found_c2` (closed): premises inv3 s, kids_ok s, cls4 s, hc_ok s, pending s = [], NoDup vs, arity,
   pat_below (ctr s) p, and the SINGLE remaining hypothesis C2' (group closure, stated above; `c2all_checked`).
   Reduction of C2' (not proved): (G1) for a variant n2 of nn (children of nn are leaders with sorted covering maps)
   find_enode s n2 = n2 up to `eqb_map` and `variants s n2` enumerates the same SET as `variants s nn` (class groups
   closed under composition: `orbit_step`, `grp_facts` in HashconsShape.v); (G2) `min_variant` returns an element of
   minimal key (`min_spec`), equal keys give equal weak shapes for variants of one node (same skeleton: `variants_ids`,
   equal child key vectors, and the key is `all_occ` of the weak shape: `skel_occ_inj`), `cmp_slots_antisym`.

   FOURTH ROUND.  C2' is reduced to G1, G2 is PROVED.  G2: `min_none`, `min_none_ok`, `min_variant_set_key` (two lists
   with the same elements: the selected variants have the same key), `key_skel_shape` (equal skeletons + equal keys
   give equal weak shapes: `skel_occ_inj`); `same_orbit_shape : same_orbit s nn n2 -> shape s nn = Ok (sh,b) ->
   exists b', shape s n2 = Ok (sh,b')` (closed), where
     same_orbit s nn n2 := exists m1 m2 V1 V2, find_enode s nn = Ok m1 /\ find_enode s n2 = Ok m2 /\
        variants s m1 = Ok V1 /\ variants s m2 = Ok V2 /\ (forall v, In v V1 <-> In v V2) /\
        (forall v w, In v V1 -> In w V1 -> skel v = skel w).
   `depth_one_found_g1` (closed): the SINGLE remaining hypothesis is
     G1 : forall i c t nns t' nn all n2, In i (ids s) -> get_class s i = Ok c -> sg_ge s t ->
            enodes_applied {| aid := i; am := identity (c_slots c) |} t = Ok (nns, t') -> In nn nns ->
            variants s nn = Ok all -> In n2 all -> same_orbit s nn n2
   tested by `g1_checked` (all variants of all listed nodes of all live classes, 10 states: true).
   Ingredient proved for G1: `grp_inv_closed` (the enumeration of a class group contains the inverse of each element,
   and inv x ** x = identity).  Route for G1 (not done): the children of a listed node nn are leaders with sorted maps
   whose keys are exactly the class slots (hc_ok/canon: leaders; kids_ok: covers; `found_lkid` for the converse
   inclusion), hence `lkid`, find_enode fixes nn and n2 (`lkid_fixed`, `lkid_gvar`); V(n2) is a subset of V(nn) by `orbit_step`
   (the argument `Sub` inside `pre_shape_idem`), nn in V(n2) by `grp_inv_closed` + `compose_partial_assoc` + `gvar_id`,
   hence V(nn) is a subset of V(n2) by the first inclusion applied to n2; one skeleton: aids by `variants_ids`, the key vectors of
   `pp ** am a` are the class slots when keys (am a) = c_slots c.  Mind the shortcut branch of `variants` (all groups
   trivial: [n]).

   FIFTH ROUND.  G1, the set part, is PROVED: `kid_grp2_intro`, `orbit_back` (inverse direction of `orbit_step`, by
   `grp_inv_closed` + `compose_partial_assoc` + `id_r`), `orbit_same_set : eg_inv s -> find_enode s n = Ok n ->
   variants s n = Ok all -> In n2 all -> find_enode s n2 = Ok n2 /\ exists V2, variants s n2 = Ok V2 /\
   forall v, In v all <-> In v V2` (closed; both branches of `variants`).
   `depth_one_found_closed` (closed) = the depth-one theorem modulo exactly two tested hypotheses on listed nodes nn
   (nn in enodes_applied of the identity invocation of a live class, any state t with sg_ge s t):
     H_fix  : find_enode s nn = Ok nn
     H_skel : variants s nn = Ok all -> In v all -> In w all -> skel v = skel w
   both tested by `fixskel_checked` (10 states, all true).  H_fix needs: the children of a stored canonical shape are
   fixed by find (leaders with identity leader maps and child keys inside the class slots); H_skel needs
   keys (pp ** am a) = keys (am a) for a class-group element pp when keys (am a) = c_slots c.

   STEP 2 (what is missing beyond depth one).
   - nested patterns: for a child pattern the lookup returns an invocation a_k that is `eg_eq` to the child
     invocation of n2 renamed by mfin, not identical with it (different but symmetric maps; redundant slots
     filtered by `lookup_internal`).  The parent instance is then `set_apps nd [a_k]`, and one needs
     CONGRUENCE OF `shape`: if Forall2 (eg_eq s) l l' (and the maps cover the class slots: kids_ok) then
     `fst (shape s (set_apps n l)) = fst (shape s (set_apps n l'))` and the bijections differ by a symmetry.
     For equal leaders and group-related maps this is the closure of `variants` under the class groups
     (`orbit_step` in HashconsShape.v is the core) plus: `min_variant` picks the same weak shape for two nodes whose
     variant SETS are equal (needs the key order to be a function of the set: `min_spec`/`min_first`).
     Also the partial slot map is shared between siblings (the slot names the first child bound constrain the
     second: `ematch_impl_slotmap_mono`), so the induction hypothesis must be stated for an arbitrary initial state
     `st` with a bijective slot map, not for `estate0`.
   - repeated variables: `ematch_impl (PVarP v)` with v bound to j only checks `eg_eq s i j`; the substitution
     keeps j, so the instance contains j where the matched node contains i: the same congruence lemma is needed
     (with l, l' related by eg_eq), and `eg_eq` there compares the un-renamed invocations, so equality must be
     transported through the renaming mfin (eg_eq is invariant under composing both maps with one injective map).
   The checker validates all of these cases on the test runs (patterns 3, 6-8, 10-15, 17, 18, 20 of `test_pats`). *)
From SE Require Import Slots.SlotMapFacts Group.GroupSound Lang.LangFacts Lang.ShapeFacts Lang.RenameFacts
  Base.TextFacts Parse.Parser EGraph.Model EGraph.ModelFacts EGraph.ModelMachine EGraph.UnionFindFacts
  EGraph.InvariantFacts EGraph.UnionInvariantFacts EGraph.AddCoversFacts EGraph.HashconsShape EGraph.Mod4Facts
  EGraph.HashconsAbs EGraph.HashconsFacts EGraph.Rewrite EGraph.RewriteFacts EGraph.MatchDefs EGraph.MatchMachine
  EGraph.ProgressFacts EGraph.MatchFacts EGraph.SoundUnion.
Require Import ZArith Lia ZifyBool ZifyN ZifyNat.

(* ------------------------------------------------------------------ *)
(* STEP 0.  the per-run checker *)

(* final_subst, also returning the slot map after all extensions *)
Fixpoint final_go_m (l : subst) (m : slotmap) : M (subst * slotmap) :=
  match l with
  | [] => ret ([], m)
  | (v, a) :: t =>
      dom m' <- extend_fresh (values (am a)) m;
      dom r <- final_go_m t m';
      ret ((v, {| aid := aid a; am := compose_partial (am a) m' |}) :: fst r, snd r)
  end.

(* one match: class, its slots, the matcher state, the final substitution, the final slot map *)
Record mrec := { mr_id : N; mr_sl : sset; mr_st : estate; mr_sb : subst; mr_fin : slotmap }.

(* `ematch_all`, remembering where every substitution came from *)
Definition ematch_all_r (p : pattern) : M (list mrec) :=
  dom live <- gets ids;
  flat_mapM (fun i =>
               dom sl <- reads (fun s => class_slots s i);
               dom sts <- ematch_impl p estate0 {| aid := i; am := identity sl |};
               mapM (fun st => dom r <- final_go_m (partial_subst st) (partial_slotmap st);
                               ret {| mr_id := i; mr_sl := sl; mr_st := st; mr_sb := fst r; mr_fin := snd r |}) sts) live.

(* the root of a match, seen through the final slot map: the class's slots named by the pattern's slots
   (where the pattern node names them) or by the fresh slots `final_subst` drew *)
Definition mr_root (r : mrec) : appid :=
  {| aid := mr_id r; am := compose_partial (identity (mr_sl r)) (mr_fin r) |}.

Definition found_okb (s' : egraph) (p : pattern) (r : mrec) : bool :=
  match lookup_pat s' p (mr_sb r) with Ok (Some _) => true | _ => false end.

Definition root_okb (s' : egraph) (p : pattern) (r : mrec) : bool :=
  match lookup_pat s' p (mr_sb r) with
  | Ok (Some a) => match eg_eq s' a (mr_root r) with Ok true => true | _ => false end
  | _ => false
  end.

Definition matches_okb (s : egraph) (p : pattern) : bool :=
  match ematch_all_r p s with
  | Ok (l, s') => forallb (root_okb s' p) l
  | Err _ => false
  end.

(* diagnostics: number of matches, of found instances, of instances equal to the root *)
Definition matches_report (s : egraph) (p : pattern) : option (nat * nat * nat) :=
  match ematch_all_r p s with
  | Ok (l, s') => Some (List.length l, List.length (filter (found_okb s' p) l), List.length (filter (root_okb s' p) l))
  | Err _ => None
  end.

(* --- ematch_all_r refines ematch_all --- *)
Definition mmap {A C} (h : A -> C) (r : res (A * egraph)) : res (C * egraph) :=
  match r with Ok (a, s) => Ok (h a, s) | Err e => Err e end.

Lemma mapM_mmap : forall A C D (f : A -> M C) (g : A -> M D) (h : D -> C),
  (forall x s, f x s = mmap h (g x s)) ->
  forall l s, mapM f l s = mmap (map h) (mapM g l s).
Proof.
  intros A C D f g h Hfg. induction l as [|x t IH]; intros s; cbn [mapM]; [reflexivity|].
  unfold mbind. rewrite Hfg. destruct (g x s) as [[d s1]|e]; cbn [mmap]; [|reflexivity].
  rewrite IH. destruct (mapM g t s1) as [[ds s2]|e]; cbn [mmap]; reflexivity.
Qed.

Lemma flat_mapM_mmap : forall A C D (f : A -> M (list C)) (g : A -> M (list D)) (h : D -> C),
  (forall x s, f x s = mmap (map h) (g x s)) ->
  forall l s, flat_mapM f l s = mmap (map h) (flat_mapM g l s).
Proof.
  intros A C D f g h Hfg. induction l as [|x t IH]; intros s; cbn [flat_mapM]; [reflexivity|].
  unfold mbind. rewrite Hfg. destruct (g x s) as [[d s1]|e]; cbn [mmap]; [|reflexivity].
  rewrite IH. destruct (flat_mapM g t s1) as [[ds s2]|e]; cbn [mmap]; [|reflexivity].
  unfold ret. cbn [mmap]. rewrite map_app. reflexivity.
Qed.

Lemma final_go_m_fst : forall l m s, final_go l m s = mmap fst (final_go_m l m s).
Proof.
  induction l as [|[v a] t IH]; intros m s; cbn [final_go final_go_m]; [reflexivity|].
  unfold mbind. destruct (extend_fresh (values (am a)) m s) as [[m' s1]|e]; cbn [mmap]; [|reflexivity].
  rewrite IH. destruct (final_go_m t m' s1) as [[[r mf] s2]|e]; cbn [mmap]; reflexivity.
Qed.

Lemma mbind_mmap : forall A C D (m : M A) (k : A -> M C) (k' : A -> M D) (h : D -> C),
  (forall a s, k a s = mmap h (k' a s)) -> forall s, mbind m k s = mmap h (mbind m k' s).
Proof.
  intros A C D m k k' h Hk s. unfold mbind. destruct (m s) as [[a s1]|e]; [apply Hk|reflexivity].
Qed.

Theorem ematch_all_r_spec : forall p s, ematch_all p s = mmap (map mr_sb) (ematch_all_r p s).
Proof.
  intros p s. unfold ematch_all, ematch_all_r. apply mbind_mmap. clear s. intros live s.
  apply flat_mapM_mmap. clear s. intros i s. apply mbind_mmap. clear s. intros sl s.
  apply mbind_mmap. clear s. intros sts s.
  apply mapM_mmap. clear s. intros st s. rewrite final_subst_go, final_go_m_fst. unfold mbind.
  destruct (final_go_m (partial_subst st) (partial_slotmap st) s) as [[[r mf] s5]|e]; cbn [mmap]; reflexivity.
Qed.

(* soundness of the checker *)
Theorem matches_okb_sound : forall s p, matches_okb s p = true ->
  forall l s', ematch_all p s = Ok (l, s') ->
  forall sb, In sb l ->
  exists r a, mr_sb r = sb /\ In (mr_id r) (ids s) /\
              lookup_pat s' p sb = Ok (Some a) /\ eg_eq s' a (mr_root r) = Ok true.
Proof.
  intros s p H l s' E sb Hin. unfold matches_okb in H. rewrite ematch_all_r_spec in E.
  destruct (ematch_all_r p s) as [[lr s1]|e] eqn:Er; cbn [mmap] in E; [|discriminate].
  inversion E; subst l s1. clear E. apply in_map_iff in Hin. destruct Hin as (r & Hr & Hin).
  rewrite forallb_forall in H. specialize (H r Hin). unfold root_okb in H. rewrite Hr in H.
  destruct (lookup_pat s' p sb) as [[a|]|e]; try discriminate.
  exists r, a. split; [exact Hr|]. split.
  - unfold ematch_all_r in Er. apply mbind_inv in Er. destruct Er as (live & s0 & Hl & Er).
    unfold gets in Hl. inversion Hl; subst live s0.
    destruct (flat_mapM_inv _ _ _ _ _ _ _ Er r Hin) as (i & sa & ra & sb' & Hi & Hf & Hra).
    apply mbind_inv in Hf. destruct Hf as (sl & s2 & _ & Hf).
    apply mbind_inv in Hf. destruct Hf as (sts & s3 & _ & Hf).
    destruct (mapM_inv _ _ _ _ _ _ _ Hf r Hra) as (st & s4 & s5 & _ & Hst).
    apply mbind_inv in Hst. destruct Hst as (rr & s6 & _ & Hst). apply ret_inv in Hst. destruct Hst as [Hst _].
    subst r. exact Hi.
  - split; [reflexivity|]. destruct (eg_eq s' a (mr_root r)) as [[|]|]; try discriminate. reflexivity.
Qed.

(* --- evaluation --- *)
Definition st_of (ts : list rterm) (os : list hop) : egraph :=
  match run_ops ts os [] empty_egraph with Ok (_, s) => s | Err _ => empty_egraph end.

Definition vx : pattern := PVarP [120].
Definition vy : pattern := PVarP [121].
Definition vz : pattern := PVarP [122].
Definition nd_s2 v x y : node := {| nvar := v; nargs := [ASlot x; ASlot y] |}.
Definition nd_s1 v x : node := {| nvar := v; nargs := [ASlot x] |}.
Definition nd_s3 v x y z : node := {| nvar := v; nargs := [ASlot x; ASlot y; ASlot z] |}.
Definition nd_un v : node := {| nvar := v; nargs := [xph] |}.
Definition nd_bin v : node := {| nvar := v; nargs := [xph; xph] |}.
Definition nd_lam x : node := {| nvar := 0; nargs := [ABind x xph] |}.
Definition nd_c v : node := {| nvar := v; nargs := [] |}.

Definition test_pats : list pattern :=
  [ vx;                                                         (* 0 *)
    PNode (nd_un 3) [vx];                                       (* 1 depth one *)
    PNode (nd_bin 4) [vx; vy];                                  (* 2 depth one *)
    PNode (nd_bin 4) [vx; vx];                                  (* 3 repeated variable *)
    PNode (nd_s2 2 2 6) [];                                     (* 4 leaf with slots *)
    PNode (nd_s2 2 6 6) [];                                     (* 5 leaf, same slot twice *)
    PNode (nd_un 3) [PNode (nd_s2 2 2 6) []];                   (* 6 nested *)
    PNode (nd_bin 4) [PNode (nd_s2 2 2 6) []; PNode (nd_s2 2 6 10) []];  (* 7 nested, shared slot *)
    PNode (nd_bin 4) [PNode (nd_s2 2 2 6) []; vy];              (* 8 *)
    PNode (nd_lam 2) [vx];                                      (* 9 binder *)
    PNode (nd_lam 2) [PNode (nd_s2 2 2 6) []];                  (* 10 binder, nested *)
    PNode (nd_lam 2) [PNode (nd_lam 6) [vx]];                   (* 11 *)
    PNode (nd_un 6) [PNode (nd_un 6) [vx]];                     (* 12 nested, depth two *)
    PNode (nd_un 3) [PNode (nd_un 3) [vx]];                     (* 13 *)
    PNode (nd_bin 4) [vx; PNode (nd_un 6) [vy]];                (* 14 *)
    PNode (nd_bin 4) [PNode (nd_s1 7 2) []; PNode (nd_un 6) [PNode (nd_s1 7 6) []]];  (* 15 *)
    PNode (nd_s3 2 2 6 10) [];                                  (* 16 *)
    PNode (nd_un 3) [PNode (nd_s3 2 2 6 10) []];                (* 17 *)
    PNode (nd_bin 4) [PNode (nd_s3 2 2 6 10) []; vx];           (* 18 *)
    PNode (nd_c 5) [];                                          (* 19 *)
    PNode (nd_bin 4) [PNode (nd_s2 9 2 6) []; vx]               (* 20 *)
  ].

Definition test_states : list egraph :=
  [ st_of xT1 xO1; st_of xT2 xO2; st_of xT3 xO3; st_of xT4 xO4; st_of xT5 xO5; st_of xT6 xO6; st_of xT7 xO7;
    st_of xT1 (firstn 7 xO1); st_of xT4 (firstn 9 xO4); st_of xT6 (firstn 15 xO6) ].

Definition reports := Eval vm_compute in map (fun s => map (matches_report s) test_pats) test_states.

(* ------------------------------------------------------------------ *)
(* STEP 1.  depth-one patterns `PNode nd (map PVarP vs)`, NoDup vs *)

Local Notation sg_ret := (pres_ret same_graph same_graph_refl).
Local Notation sg_bind := (pres_bind same_graph same_graph_trans).

(* inversion of flat_mapM / mapM that remembers that the intermediate states are the same graph *)
Lemma flat_mapM_inv_sg : forall A C (f : A -> M (list C)) l, (forall x, pres same_graph (f x)) ->
  forall s r s', flat_mapM f l s = Ok (r, s') ->
  forall y, In y r -> exists x s1 r1 s2, In x l /\ same_graph s s1 /\ f x s1 = Ok (r1, s2) /\ In y r1.
Proof.
  intros A C f l Hf. induction l as [|x t IH]; intros s r s' H y Hy; cbn [flat_mapM] in H.
  - apply ret_inv in H. destruct H as [Hr _]. subst r. contradiction.
  - apply mbind_inv in H. destruct H as (r1 & s1 & H1 & H).
    apply mbind_inv in H. destruct H as (r2 & s2 & H2 & H).
    apply ret_inv in H. destruct H as [Hr _]. subst r.
    apply in_app_or in Hy. destruct Hy as [Hy|Hy].
    + exists x, s, r1, s1. split; [left; reflexivity|]. split; [apply same_graph_refl|]. split; assumption.
    + destruct (IH _ _ _ H2 y Hy) as (x' & sa & ra & sb & Hin & Hsg & Hf' & Hyr).
      exists x', sa, ra, sb. split; [right; assumption|].
      split; [eapply same_graph_trans; [exact (Hf x _ _ _ H1)|exact Hsg]|]. split; assumption.
Qed.

Lemma mapM_inv_sg : forall A C (f : A -> M C) l, (forall x, pres same_graph (f x)) ->
  forall s r s', mapM f l s = Ok (r, s') ->
  forall y, In y r -> exists x s1 s2, In x l /\ same_graph s s1 /\ f x s1 = Ok (y, s2).
Proof.
  intros A C f l Hf. induction l as [|x t IH]; intros s r s' H y Hy; cbn [mapM] in H.
  - apply ret_inv in H. destruct H as [Hr _]. subst r. contradiction.
  - apply mbind_inv in H. destruct H as (y1 & s1 & H1 & H).
    apply mbind_inv in H. destruct H as (r2 & s2 & H2 & H).
    apply ret_inv in H. destruct H as [Hr _]. subst r.
    destruct Hy as [Hy|Hy].
    + subst y1. exists x, s, s1. split; [left; reflexivity|]. split; [apply same_graph_refl|assumption].
    + destruct (IH _ _ _ H2 y Hy) as (x' & sa & sb & Hin & Hsg & Hf').
      exists x', sa, sb. split; [right; assumption|].
      split; [eapply same_graph_trans; [exact (Hf x _ _ _ H1)|exact Hsg]|assumption].
Qed.

(* provenance of a substitution returned by ematch_all, with the states *)
Lemma ematch_all_prov : forall p s l s', ematch_all p s = Ok (l, s') ->
  same_graph s s' /\
  forall sb, In sb l ->
  exists i c s1 sts s2 st s3 s4,
    In i (ids s) /\ get_class s i = Ok c /\ same_graph s s1 /\
    ematch_impl p estate0 {| aid := i; am := identity (c_slots c) |} s1 = Ok (sts, s2) /\ In st sts /\
    final_subst st s3 = Ok (sb, s4).
Proof.
  intros p s l s' H. split; [exact (ematch_all_state p s l s' H)|]. intros sb Hin. unfold ematch_all in H.
  apply mbind_inv in H. destruct H as (live & s0 & Hl & H). unfold gets in Hl. inversion Hl; subst live s0. clear Hl.
  match type of H with flat_mapM ?f _ _ = _ => assert (Pf : forall x, pres same_graph (f x)) end.
  { intros i. apply sg_bind; [apply pres_reads; exact same_graph_refl|]. intros sl.
    apply sg_bind; [apply sg_ematch_impl|]. intros sts.
    apply pres_mapM; [exact same_graph_refl|exact same_graph_trans|]. intros st. apply sg_final_subst. }
  destruct (flat_mapM_inv_sg _ _ _ _ Pf _ _ _ H sb Hin) as (i & sa & ra & sb' & Hi & Hsg & Hf & Hra). clear H Pf.
  apply mbind_inv in Hf. destruct Hf as (sl & s1 & Hsl & H). apply reads_inv in Hsl. destruct Hsl as [Hsl E]. subst s1.
  apply mbind_inv in H. destruct H as (sts & s2 & Hm & H).
  destruct (mapM_inv _ _ _ _ _ _ _ H sb Hra) as (st & s3 & s4 & Hst & Hfs).
  unfold class_slots in Hsl. destruct (get_class sa i) as [c|] eqn:Hc; cbn [bind] in Hsl; [|discriminate].
  inversion Hsl; subst sl.
  exists i, c, sa, sts, s2, st, s3, s4. split; [exact Hi|]. split.
  { destruct Hsg as (_ & E2 & _). unfold get_class in *. rewrite <- E2. exact Hc. }
  split; [exact Hsg|]. split; [exact Hm|]. split; assumption.
Qed.

(* the node step of the matcher, with the provenance of the candidate *)
Lemma ematch_impl_node_inv_sg : forall n ch st i s l s',
  ematch_impl (PNode n ch) st i s = Ok (l, s') ->
  forall st', In st' l ->
  exists nns s0 nn sa vs n2 n_sh c_sh m' sk l1 s2,
    enodes_applied i s = Ok (nns, s0) /\ In nn nns /\ same_graph s sa /\
    weak_variants sa nn = Ok vs /\ In n2 vs /\
    wshape n = Ok n_sh /\ wshape (nullify n2) = Ok c_sh /\ node_eqb (fst n_sh) (fst c_sh) = true /\
    insert_all_bij (combine (all_occ (nullify n2)) (all_occ n)) (partial_slotmap st) = Some m' /\
    ematch_kids ch (app_occ n2) [ {| partial_subst := partial_subst st; partial_slotmap := m' |} ] sk = Ok (l1, s2) /\
    In st' l1.
Proof.
  intros n ch st i s l s' H st' Hin. rewrite ematch_impl_node in H.
  apply mbind_inv in H. destruct H as (nns & s0 & Hen & H).
  match type of H with flat_mapM ?f _ _ = _ => assert (Pf : forall x, pres same_graph (f x)) end.
  { intros nn. cbv beta. destruct (negb (Nat.eqb (nvar n) (nvar nn))); [apply sg_ret|].
    apply sg_bind; [apply pres_reads; exact same_graph_refl|]. intros vs.
    apply sg_flat_mapM. intros n2.
    apply sg_bind; [apply pres_lift; exact same_graph_refl|]. intros n_sh.
    apply sg_bind; [apply pres_lift; exact same_graph_refl|]. intros c_sh.
    destruct (negb (node_eqb (fst n_sh) (fst c_sh))); [apply sg_ret|].
    destruct (insert_all_bij _ _) as [m'|]; [|apply sg_ret].
    apply sg_ematch_kids. apply Forall_forall. intros p _. apply sg_ematch_impl. }
  destruct (flat_mapM_inv_sg _ _ _ _ Pf _ _ _ H st' Hin) as (nn & sa & ra & sb & Hnn & Hsg & Hf & Hra). clear H Pf.
  cbv beta in Hf. destruct (negb (Nat.eqb (nvar n) (nvar nn))).
  { apply ret_inv in Hf. destruct Hf as [E _]. subst ra. contradiction. }
  apply mbind_inv in Hf. destruct Hf as (vs & sc & Hv & H). apply reads_inv in Hv. destruct Hv as [Hv E]. subst sc.
  destruct (flat_mapM_inv _ _ _ _ _ _ _ H st' Hra) as (n2 & sd & rb & se & Hn2 & Hk & Hrb). clear H.
  apply mbind_inv in Hk. destruct Hk as (n_sh & sf & Hw1 & H). apply lift_inv in Hw1. destruct Hw1 as [Hw1 _].
  apply mbind_inv in H. destruct H as (c_sh & sg & Hw2 & H). apply lift_inv in Hw2. destruct Hw2 as [Hw2 _].
  destruct (node_eqb (fst n_sh) (fst c_sh)) eqn:Eq; cbn [negb] in H.
  2:{ apply ret_inv in H. destruct H as [E _]. subst rb. contradiction. }
  destruct (insert_all_bij (combine (all_occ (nullify n2)) (all_occ n)) (partial_slotmap st)) as [m'|] eqn:Ei.
  2:{ apply ret_inv in H. destruct H as [E _]. subst rb. contradiction. }
  exists nns, s0, nn, sa, vs, n2, n_sh, c_sh, m', sg, rb, se.
  split; [exact Hen|]. split; [exact Hnn|].
  split; [eapply same_graph_trans; [exact (sg_enodes_applied i _ _ _ Hen)|exact Hsg]|].
  split; [exact Hv|]. split; [exact Hn2|]. split; [exact Hw1|]. split; [exact Hw2|]. split; [exact Eq|].
  split; [exact Ei|]. split; assumption.
Qed.

(* LINK A: distinct unbound variables as children: one state, binding the k-th variable to the k-th child *)
Lemma ematch_kids_vars : forall vs subs st0 s, NoDup vs ->
  (forall v, In v vs -> sub_get (partial_subst st0) v = None) ->
  List.length vs = List.length subs ->
  ematch_kids (map PVarP vs) subs [st0] s =
  Ok ([ {| partial_subst := partial_subst st0 ++ combine vs subs; partial_slotmap := partial_slotmap st0 |} ], s).
Proof.
  induction vs as [|v vs' IH]; intros subs st0 s Hnd Hnone Hlen.
  - destruct subs; [|discriminate]. cbn [map ematch_kids combine]. rewrite app_nil_r. destruct st0; reflexivity.
  - destruct subs as [|sid subs']; [discriminate|]. cbn [map ematch_kids flat_mapM ematch_impl].
    rewrite (Hnone v (or_introl eq_refl)). unfold mbind at 1 2 3. unfold ret at 1 2 3. cbn [app].
    inversion Hnd as [|? ? Hnotin Hnd']; subst.
    rewrite IH; [| exact Hnd' | | cbn [List.length] in Hlen; lia].
    + cbn [partial_subst partial_slotmap combine]. rewrite <- app_assoc. reflexivity.
    + intros w Hw. cbn [partial_subst]. rewrite sub_get_app, (Hnone w (or_intror Hw)). cbn [sub_get].
      destruct (text_eqb v w) eqn:E; [|reflexivity]. apply text_eqb_eq in E. subst w. contradiction.
Qed.

(* LINK B: the read-only instance lookup of a depth-one pattern *)
Fixpoint lookup_kids (s : egraph) (sb : subst) (ch : list pattern) : res (option (list appid)) :=
  match ch with
  | [] => Ok (Some [])
  | c :: t =>
      do a <- lookup_pat s c sb;
      match a with
      | None => Ok None
      | Some a => do r <- lookup_kids s sb t; Ok (match r with Some r => Some (a :: r) | None => None end)
      end
  end.

Lemma lookup_pat_node : forall s n ch sb,
  lookup_pat s (PNode n ch) sb =
  if negb (Nat.eqb (List.length ch) (List.length (app_occ n))) then Ok None else
  do l <- lookup_kids s sb ch;
  match l with None => Ok None | Some l => eg_lookup s (set_apps n l) end.
Proof.
  intros s n ch sb. cbn [lookup_pat]. destruct (negb _); [reflexivity|].
  assert (E : forall l, (fix go (ch : list pattern) : res (option (list appid)) :=
                 match ch with
                 | [] => Ok (Some [])
                 | c :: t =>
                     do a <- lookup_pat s c sb;
                     match a with
                     | None => Ok None
                     | Some a => do r <- go t; Ok (match r with Some r => Some (a :: r) | None => None end)
                     end
                 end) l = lookup_kids s sb l).
  { induction l as [|c t IH]; [reflexivity|]. cbn [lookup_kids]. rewrite <- IH. reflexivity. }
  rewrite E. reflexivity.
Qed.

Lemma sub_get_nodup : forall (sb : subst) v a, NoDup (map fst sb) -> In (v, a) sb -> sub_get sb v = Some a.
Proof.
  induction sb as [|[k x] t IH]; intros v a Hnd Hin; [contradiction|]. cbn [map fst] in Hnd.
  inversion Hnd as [|? ? Hnotin Hnd']; subst. cbn [sub_get]. destruct Hin as [Hin|Hin].
  - inversion Hin; subst. rewrite text_eqb_refl. reflexivity.
  - destruct (text_eqb k v) eqn:E; [|apply IH; assumption].
    apply text_eqb_eq in E. subst k. exfalso. apply Hnotin. change v with (fst (v, a)). apply in_map. exact Hin.
Qed.

Lemma lookup_kids_vars : forall s sb0 sbt, (forall v a, In (v, a) sbt -> sub_get sb0 v = Some a) ->
  lookup_kids s sb0 (map PVarP (map fst sbt)) = Ok (Some (map snd sbt)).
Proof.
  intros s sb0. induction sbt as [|[v a] t IH]; intros H; [reflexivity|].
  cbn [map fst snd lookup_kids lookup_pat]. rewrite (H v a (or_introl eq_refl)). cbn [bind].
  rewrite IH; [reflexivity|]. intros w b Hw. apply H. right. exact Hw.
Qed.

Theorem lookup_pat_vars : forall s nd vs sb, NoDup vs -> map fst sb = vs ->
  List.length vs = List.length (app_occ nd) ->
  lookup_pat s (PNode nd (map PVarP vs)) sb = eg_lookup s (set_apps nd (map snd sb)).
Proof.
  intros s nd vs sb Hnd Hk Hlen. rewrite lookup_pat_node, map_length, Hlen, Nat.eqb_refl. cbn [negb].
  subst vs. rewrite lookup_kids_vars; [reflexivity|]. intros v a Hin. apply sub_get_nodup; assumption.
Qed.

(* the same inversions for an arbitrary preorder on states *)
Section GenInv.
  Variable R : egraph -> egraph -> Prop.
  Hypothesis R_refl : forall a, R a a.
  Hypothesis R_trans : forall a b c, R a b -> R b c -> R a c.

  Lemma flat_mapM_inv_R : forall A C (f : A -> M (list C)) l, (forall x, pres R (f x)) ->
    forall s r s', flat_mapM f l s = Ok (r, s') ->
    forall y, In y r -> exists x s1 r1 s2, In x l /\ R s s1 /\ f x s1 = Ok (r1, s2) /\ In y r1.
  Proof.
    intros A C f l Hf. induction l as [|x t IH]; intros s r s' H y Hy; cbn [flat_mapM] in H.
    - apply ret_inv in H. destruct H as [Hr _]. subst r. contradiction.
    - apply mbind_inv in H. destruct H as (r1 & s1 & H1 & H).
      apply mbind_inv in H. destruct H as (r2 & s2 & H2 & H).
      apply ret_inv in H. destruct H as [Hr _]. subst r.
      apply in_app_or in Hy. destruct Hy as [Hy|Hy].
      + exists x, s, r1, s1. split; [left; reflexivity|]. split; [apply R_refl|]. split; assumption.
      + destruct (IH _ _ _ H2 y Hy) as (x' & sa & ra & sb & Hin & Hsg & Hf' & Hyr).
        exists x', sa, ra, sb. split; [right; assumption|].
        split; [eapply R_trans; [exact (Hf x _ _ _ H1)|exact Hsg]|]. split; assumption.
  Qed.

  Lemma mapM_inv_R : forall A C (f : A -> M C) l, (forall x, pres R (f x)) ->
    forall s r s', mapM f l s = Ok (r, s') ->
    forall y, In y r -> exists x s1 s2, In x l /\ R s s1 /\ f x s1 = Ok (y, s2).
  Proof.
    intros A C f l Hf. induction l as [|x t IH]; intros s r s' H y Hy; cbn [mapM] in H.
    - apply ret_inv in H. destruct H as [Hr _]. subst r. contradiction.
    - apply mbind_inv in H. destruct H as (y1 & s1 & H1 & H).
      apply mbind_inv in H. destruct H as (r2 & s2 & H2 & H).
      apply ret_inv in H. destruct H as [Hr _]. subst r.
      destruct Hy as [Hy|Hy].
      + subst y1. exists x, s, s1. split; [left; reflexivity|]. split; [apply R_refl|assumption].
      + destruct (IH _ _ _ H2 y Hy) as (x' & sa & sb & Hin & Hsg & Hf').
        exists x', sa, sb. split; [right; assumption|].
        split; [eapply R_trans; [exact (Hf x _ _ _ H1)|exact Hsg]|assumption].
  Qed.
End GenInv.

(* same graph, counter not smaller *)
Definition sg_ge (s t : egraph) : Prop := same_graph s t /\ Model.ctr s <= Model.ctr t.
Lemma sg_ge_refl : forall a, sg_ge a a.
Proof. intros a. split; [apply same_graph_refl|lia]. Qed.
Lemma sg_ge_trans : forall a b c, sg_ge a b -> sg_ge b c -> sg_ge a c.
Proof. intros a b c [A1 A2] [B1 B2]. split; [eapply same_graph_trans; eassumption|lia]. Qed.

(* read-only functions do not look at the counter *)
Lemma sg_set_ctr : forall s t, same_graph s t -> t = set_ctr s (Model.ctr t).
Proof. intros s [u c h p k] (E1 & E2 & E3 & E4). cbn in *. subst. reflexivity. Qed.
Lemma shape_sg : forall s t n, same_graph s t -> shape t n = shape s n.
Proof. intros s t n H. rewrite (sg_set_ctr s t H). reflexivity. Qed.
Lemma eg_lookup_sg : forall s t n, same_graph s t -> eg_lookup t n = eg_lookup s n.
Proof. intros s t n H. rewrite (sg_set_ctr s t H). reflexivity. Qed.
Lemma weak_variants_sg : forall s t n, same_graph s t -> weak_variants t n = weak_variants s n.
Proof. intros s t n H. rewrite (sg_set_ctr s t H). reflexivity. Qed.

Lemma map_fst_combine_len : forall {A C} (l : list A) (l' : list C),
  List.length l = List.length l' -> map fst (combine l l') = l.
Proof.
  induction l as [|x t IH]; intros [|y u] H; try discriminate; [reflexivity|].
  cbn [combine map fst]. f_equal. apply IH. cbn [List.length] in H. lia.
Qed.

(* no public slot of the node has the name of one of its binders; the child maps are sorted *)
Definition wfk (n : node) : Prop := Forall (fun a => wf (am a)) (app_occ n).
Definition clean (n : node) : Prop := (forall x, In x (pub_occ n) -> ~ In x (binders n)) /\ wfk n.

Definition ctr_le (a b : egraph) : Prop := Model.ctr a <= Model.ctr b.

Section DepthOne.
  Variable s : egraph.
  Hypothesis Hhc : hc_ok s.
  Hypothesis Hpe : pending s = [].

  (* the fresh-slot counter never decreases while matching *)
  Hypothesis H_mono_impl : forall p st i, pres ctr_le (ematch_impl p st i).
  Hypothesis H_mono_final : forall st, pres ctr_le (final_subst st).

  (* C1: every node `enodes_applied` lists for the identity invocation of a live class i has the shape of an
     entry stored in class i, and its binders do not clash with its public slots *)
  Hypothesis H_applied : forall i c t nns t' nn, In i (ids s) -> get_class s i = Ok c -> sg_ge s t ->
    enodes_applied {| aid := i; am := identity (c_slots c) |} t = Ok (nns, t') -> In nn nns ->
    clean nn /\ exists sh p b, stored s i sh p /\ shape s nn = Ok (sh, b).

  (* C2: a (weak) group variant of such a node has the same shape *)
  Hypothesis H_variant : forall i c t nns t' nn vs n2 sh b, In i (ids s) -> get_class s i = Ok c -> sg_ge s t ->
    enodes_applied {| aid := i; am := identity (c_slots c) |} t = Ok (nns, t') -> In nn nns ->
    weak_variants s nn = Ok vs -> In n2 vs -> shape s nn = Ok (sh, b) ->
    clean n2 /\ exists b', shape s n2 = Ok (sh, b').

  (* C3: the instance is an injective renaming of the candidate (pure: no e-graph involved) *)
  Hypothesis H_inst : forall nd n2 n_sh c_sh m' vs t sb t', clean n2 ->
    (forall x, In x (all_occ nd) -> x < Model.ctr t) ->
    wshape nd = Ok n_sh -> wshape (nullify n2) = Ok c_sh -> node_eqb (fst n_sh) (fst c_sh) = true ->
    insert_all_bij (combine (all_occ (nullify n2)) (all_occ nd)) [] = Some m' ->
    List.length vs = List.length (app_occ n2) ->
    final_go (combine vs (app_occ n2)) m' t = Ok (sb, t') ->
    exists g, ren_ok g n2 /\ set_apps nd (map snd sb) = RenameFacts.ren g n2.

  Lemma ematch_all_prov_ge : forall p l s', ematch_all p s = Ok (l, s') ->
    forall sb, In sb l ->
    exists i c s1 sts s2 st s3 s4,
      In i (ids s) /\ get_class s i = Ok c /\ sg_ge s s1 /\
      ematch_impl p estate0 {| aid := i; am := identity (c_slots c) |} s1 = Ok (sts, s2) /\ In st sts /\
      sg_ge s s3 /\ final_subst st s3 = Ok (sb, s4).
  Proof.
    intros p l s' H sb Hin. unfold ematch_all in H.
    apply mbind_inv in H. destruct H as (live & s0 & Hl & H). unfold gets in Hl. inversion Hl; subst live s0. clear Hl.
    assert (Pi : forall q st i, pres sg_ge (ematch_impl q st i)).
    { intros q st i a x b Hx. split; [exact (sg_ematch_impl q st i a x b Hx)|exact (H_mono_impl q st i a x b Hx)]. }
    assert (Pfin : forall st, pres sg_ge (final_subst st)).
    { intros st a x b Hx. split; [exact (sg_final_subst st a x b Hx)|exact (H_mono_final st a x b Hx)]. }
    match type of H with flat_mapM ?f _ _ = _ => assert (Pf : forall x, pres sg_ge (f x)) end.
    { intros i. apply (pres_bind sg_ge sg_ge_trans); [apply pres_reads; exact sg_ge_refl|]. intros sl.
      apply (pres_bind sg_ge sg_ge_trans); [apply Pi|]. intros sts.
      apply pres_mapM; [exact sg_ge_refl|exact sg_ge_trans|]. exact Pfin. }
    destruct (flat_mapM_inv_R sg_ge sg_ge_refl sg_ge_trans _ _ _ _ Pf _ _ _ H sb Hin)
      as (i & sa & ra & sb' & Hi & Hsg & Hf & Hra). clear H Pf.
    apply mbind_inv in Hf. destruct Hf as (sl & s1 & Hsl & H). apply reads_inv in Hsl. destruct Hsl as [Hsl E]. subst s1.
    apply mbind_inv in H. destruct H as (sts & s2 & Hm & H).
    destruct (mapM_inv_R sg_ge sg_ge_refl sg_ge_trans _ _ _ _ Pfin _ _ _ H sb Hra) as (st & s3 & s4 & Hst & Hsg3 & Hfs).
    unfold class_slots in Hsl. destruct (get_class sa i) as [c|] eqn:Hc; cbn [bind] in Hsl; [|discriminate].
    inversion Hsl; subst sl.
    exists i, c, sa, sts, s2, st, s3, s4. split; [exact Hi|]. split.
    { destruct Hsg as ((_ & E2 & _) & _). unfold get_class in *. rewrite <- E2. exact Hc. }
    split; [exact Hsg|]. split; [exact Hm|]. split; [exact Hst|]. split; [|exact Hfs].
    eapply sg_ge_trans; [exact Hsg|]. eapply sg_ge_trans; [exact (Pi _ _ _ _ _ _ Hm)|exact Hsg3].
  Qed.

  (* C05 for depth-one patterns: every returned substitution's instance is found, in a live class
     (the class the match came from) *)
  Theorem depth_one_found : forall nd vs l s',
    NoDup vs -> List.length vs = List.length (app_occ nd) ->
    (forall x, In x (all_occ nd) -> x < Model.ctr s) ->
    ematch_all (PNode nd (map PVarP vs)) s = Ok (l, s') ->
    forall sb, In sb l ->
    exists a, lookup_pat s' (PNode nd (map PVarP vs)) sb = Ok (Some a) /\ In (aid a) (ids s).
  Proof.
    intros nd vs l s' Hnd Hlen Hbelow H sb Hin.
    pose proof (ematch_all_state _ _ _ _ H) as Hss'.
    destruct (ematch_all_prov_ge _ _ _ H sb Hin) as (i & c & s1 & sts & s2 & st & s3 & s4 & Hi & Hc & Hs1 & Hm & Hst & Hs3 & Hf).
    destruct (ematch_impl_node_inv_sg _ _ _ _ _ _ _ Hm st Hst)
      as (nns & s0 & nn & sa & vs' & n2 & n_sh & c_sh & m' & sk & l1 & sk' & Hen & Hnn & Hsa & Hv & Hn2 & Hw1 & Hw2 & He & Hib & Hk & Hl1).
    cbn [partial_subst partial_slotmap estate0] in Hib, Hk.
    pose proof (matched_app_len _ _ _ _ Hw1 Hw2 He) as L.
    rewrite ematch_kids_vars in Hk; [| exact Hnd | intros; reflexivity | lia].
    inversion Hk; subst l1 sk'. clear Hk. destruct Hl1 as [Hl1|[]]. subst st.
    cbn [partial_subst partial_slotmap app] in Hf. rewrite final_subst_go in Hf. cbn [partial_subst partial_slotmap] in Hf.
    pose proof (final_go_keys _ _ _ _ _ Hf) as Hkeys. rewrite map_fst_combine_len in Hkeys by lia.
    rewrite (lookup_pat_vars s' nd vs sb Hnd Hkeys Hlen).
    rewrite (eg_lookup_sg s s' _ Hss').
    pose proof (proj1 Hs1) as Hs1g.
    destruct (H_applied i c s1 nns s0 nn Hi Hc Hs1 Hen Hnn) as (Cnn & sh & p & b & Hstored & Hshape).
    rewrite (weak_variants_sg s sa nn) in Hv by (eapply same_graph_trans; eassumption).
    destruct (H_variant i c s1 nns s0 nn vs' n2 sh b Hi Hc Hs1 Hen Hnn Hv Hn2 Hshape) as (Cn2 & b' & Hshape2).
    destruct (H_inst nd n2 n_sh c_sh m' vs s3 sb s4 Cn2) as (g & (G1 & G2 & G3) & Einst); try assumption; [|lia|].
    { intros x Hx. destruct Hs3 as [_ Hge]. specialize (Hbelow x Hx). lia. }
    rewrite Einst.
    destruct (shape_ren s g n2 (sh, b') G1 G2 G3 Hshape2) as (b'' & Hshape3). cbn [fst] in Hshape3.
    unfold eg_lookup. rewrite Hshape3. cbn [bind]. unfold lookup_internal. destruct p as [bij src].
    rewrite (tb_bwd s (proj1 Hhc) _ _ _ Hstored).
    destruct (stored_class _ _ _ _ Hstored) as (c' & Hc' & Hn). rewrite Hc'. cbn [bind]. rewrite Hn.
    eexists. split; [reflexivity|]. cbn [aid]. exact Hi.
  Qed.
End DepthOne.

(* ------------------------------------------------------------------ *)
(* executable tests of the Section hypotheses C1, C2, C3 of `depth_one_found` along real runs *)
Definition inj_onb (f : slot -> slot) (l : list slot) : bool :=
  forallb (fun x => forallb (fun y => implb (f x =? f y) (x =? y)) l) l.
Definition ren_okb (g : bool -> slot -> slot) (n : node) : bool :=
  inj_onb (g false) (binders n) &&
  forallb (fun x => forallb (fun b => negb (g true x =? g false b)) (binders n)) (pub_occ n) &&
  inj_onb (g true) (pub_occ n).
Definition cleanb (n : node) : bool :=
  forallb (fun x => negb (existsb (N.eqb x) (binders n))) (pub_occ n) && forallb (fun a => sortedb (am a)) (app_occ n).
Definition g_of (m : slotmap) : bool -> slot -> slot := fun _ x => match get m x with Some y => y | None => x end.

(* per candidate n2 of node nn of class c: (C2, C3); C3 = true when the candidate does not match *)
Definition link_n2 (s t : egraph) (nd : node) (vs : list text) (sh : node) (n2 : node) : bool * bool :=
  let c2 := cleanb n2 && match shape s n2 with Ok (sh2, _) => node_eqb sh sh2 | Err _ => false end in
  let c3 :=
    match wshape nd, wshape (nullify n2) with
    | Ok n_sh, Ok c_sh =>
        if negb (node_eqb (fst n_sh) (fst c_sh)) then true else
        match insert_all_bij (combine (all_occ (nullify n2)) (all_occ nd)) [] with
        | None => true
        | Some m' =>
            match final_go_m (combine vs (app_occ n2)) m' t with
            | Ok ((sb, mf), _) => node_eqb (set_apps nd (map snd sb)) (RenameFacts.ren (g_of mf) n2) && ren_okb (g_of mf) n2
            | Err _ => false
            end
        end
    | _, _ => false
    end in
  (c2, c3).

Definition links_okb (s : egraph) (nd : node) (vs : list text) : bool * bool * bool :=
  let per := map (fun i =>
    match get_class s i with
    | Err _ => [(false, false, false)]
    | Ok c =>
        match enodes_applied {| aid := i; am := identity (c_slots c) |} s with
        | Err _ => [(false, false, false)]
        | Ok (nns, t) =>
            flat_map (fun nn =>
              match shape s nn with
              | Err _ => [(false, false, false)]
              | Ok (sh, _) =>
                  let c1 := cleanb nn && is_some (na_get (c_nodes c) sh) in
                  match weak_variants s nn with
                  | Err _ => [(c1, false, false)]
                  | Ok vs' => (c1, true, true) :: map (fun n2 => let '(c2, c3) := link_n2 s t nd vs sh n2 in (c1, c2, c3)) vs'
                  end
              end) nns
        end
    end) (ids s) in
  let all := concat per in
  (forallb (fun x => fst (fst x)) all, forallb (fun x => snd (fst x)) all, forallb (fun x => snd x) all).

Definition d1_pats : list (node * list text) :=
  [ (nd_un 3, [[120]]); (nd_bin 4, [[120]; [121]]); (nd_s2 2 2 6, []); (nd_s2 2 6 6, []); (nd_lam 2, [[120]]);
    (nd_un 6, [[120]]); (nd_s3 2 2 6 10, []); (nd_s3 8 2 6 10, []); (nd_c 5, []); (nd_s1 7 2, []); (nd_s2 9 2 6, []) ].

Definition links_results := Eval vm_compute in map (fun s => map (fun q => links_okb s (fst q) (snd q)) d1_pats) test_states.
(* the counter does not decrease (H_mono_*, end to end) *)
Definition mono_results := Eval vm_compute in
  map (fun s => forallb (fun p => match ematch_all p s with Ok (_, s') => Model.ctr s <=? Model.ctr s' | Err _ => false end) test_pats) test_states.

(* ------------------------------------------------------------------ *)
(* STEP 1, continued: discharging the hypotheses of `depth_one_found` *)

Lemma na_get_in_some : forall {V} (l : list (node * V)) k v, In (k, v) l -> na_get l k <> None.
Proof.
  induction l as [|[k0 v0] t IH]; intros k v Hin; [contradiction|]. cbn [na_get].
  destruct (node_eqb k k0) eqn:E; [discriminate|]. destruct Hin as [Hin|Hin].
  - inversion Hin; subst. rewrite node_eqb_refl in E. discriminate.
  - eapply IH; eassumption.
Qed.

Lemma na_get_nodup_in : forall {V} (l : list (node * V)) k v, na_nodup l -> In (k, v) l -> na_get l k = Some v.
Proof.
  induction l as [|[k0 v0] t IH]; intros k v Hnd Hin; [contradiction|]. cbn [na_get]. destruct Hnd as [Hn Hnd].
  destruct Hin as [Hin|Hin].
  - inversion Hin; subst. rewrite node_eqb_refl. reflexivity.
  - destruct (node_eqb k k0) eqn:E; [|apply IH; assumption].
    apply node_eqb_iff in E. subst k0. exfalso. exact (na_get_in_some _ _ _ Hin Hn).
Qed.

Section DischargeC1.
  Variable s0 : egraph.
  Hypothesis I3 : inv3 s0.
  Hypothesis K0 : kids_ok s0.
  Hypothesis M4 : cls4 s0.
  Hypothesis Hhc : hc_ok s0.
  Hypothesis Hpe : pending s0 = [].

  Lemma in_stored : forall i c sh p, get_class s0 i = Ok c -> In (sh, p) (c_nodes c) -> stored s0 i sh p.
  Proof.
    intros i c sh p Hc Hin. unfold stored. apply na_get_nodup_in.
    - apply (tb_cn s0 (proj1 Hhc)).
    - unfold cnodes. rewrite Hc. exact Hin.
  Qed.

  (* one entry of enodes_applied: the listed node has the shape of the entry and is clean *)
  Lemma ea_entry_shape : forall i c e s x2 s', Rel s0 s -> get_class s0 (aid i) = Ok c -> In e (c_nodes c) -> cb s0 s i ->
    ea_entry i c e s = Ok (x2, s') ->
    clean x2 /\ exists b, shape s0 x2 = Ok (fst e, b).
  Proof.
    intros i c [sh [bij src]] s x2 s' R Hc Hin [[Ci Wi] Vi] H.
    assert (WK : wfk x2).
    { destruct (ea_entry_kids s0 I3 K0 M4 i c (sh, (bij, src)) s x2 s' R Hc Hin (conj (conj Ci Wi) Vi) H) as (_ & _ & Fk).
      revert Fk. apply Forall_impl. intros a [[_ Wa] _]. exact Wa. }
    unfold ea_entry in H. cbn [fst].
    destruct (class_facts s0 I3 M4 _ _ Hc) as [S1c Below].
    apply mbind_inv in H. destruct H as (x0 & s1 & H1 & H). apply lift_inv in H1. destruct H1 as [H1 ->].
    apply mbind_inv in H. destruct H as (x1 & s2 & H2 & H).
    apply mbind_inv in H. destruct H as (m & s3 & H3 & H). cbv zeta in H. apply lift_inv in H. destruct H as [H4 <-].
    pose proof (rn_trav (c_slots c) x0 (Model.ctr s)) as (RI & RG & RD).
    unfold with_ctr in H2. destruct (trav (rnF (c_slots c)) x0 ([], Model.ctr s)) as [x1' [rho c1]] eqn:T.
    inversion H2; subst x1' s2; clear H2. cbn [fst snd] in RI, RG, RD.
    destruct RI as (L1 & RV & RInj). cbn [fst snd] in L1, RV, RInj.
    assert (RI : rnInv (Model.ctr s) (rho, c1)) by (split; [exact L1|split; [exact RV|exact RInj]]).
    assert (Below' : forall z, In z (c_slots c) -> z < Model.ctr s) by (intros z Hz; pose proof (Below z Hz); destruct R as [_ R]; lia).
    destruct (fo_spec (am i) c1 _ _ _ _ _ H3) as (SG3 & L3 & (Wm & Im & Vm)).
    { cbn [Model.ctr set_ctr]. lia. }
    { split; [exact I|]. split; [intros k1 k2 v G; discriminate G|intros k v G; discriminate G]. }
    cbn [Model.ctr set_ctr] in L3.
    set (MM := from_iter_onto m (am i)) in *.
    assert (GM : forall k, get MM k = match get (am i) k with Some v => Some v | None => get m k end).
    { intros k. exact (get_union m (am i) k Wm Wi). }
    assert (VM : forall k v, get MM k = Some v -> v < Model.ctr s \/ (c1 <= v /\ v < Model.ctr s')).
    { intros k v G. rewrite GM in G. destruct (get (am i) k) as [u|] eqn:Gi.
      - inversion G; subst u. left. apply Vi. eapply get_values_vec; eauto.
      - right. exact (Vm k v G). }
    assert (IM : injective MM).
    { intros k1 k2 v G1 G2. rewrite GM in G1, G2. destruct Ci as (ci & _ & Ii & _).
      destruct (get (am i) k1) as [u1|] eqn:E1, (get (am i) k2) as [u2|] eqn:E2.
      - inversion G1; inversion G2; subst. eapply Ii; eauto.
      - inversion G1; subst u1. pose proof (Vi v (get_values_vec _ _ _ E1)). pose proof (Vm k2 v G2). lia.
      - inversion G2; subst u2. pose proof (Vi v (get_values_vec _ _ _ E2)). pose proof (Vm k1 v G1). lia.
      - eapply Im; eauto. }
    pose proof (apply_slotmap_total _ _ _ H4) as TotM.
    destruct I3 as [_ NO].
    assert (Bx0 : binders x0 = binders sh) by (rewrite (apply_slotmap_ren _ _ _ H1); apply binders_asm).
    destruct (K0 (aid i) c _ Hc Hin) as [Sh4 _]. cbn [fst] in Sh4.
    (* stage 0: shape of sh[bij] *)
    pose proof (in_stored _ _ _ _ Hc Hin) as St.
    destruct (stored_canonical _ _ _ _ Hhc Hpe St) as [_ (b0 & Hb0)].
    destruct (NO (aid i) c _ Hc Hin) as (Wb & Inj & _). cbn [fst snd] in Wb, Inj.
    pose proof (cls4_bij4 _ M4) as B4.
    destruct (shape_apply s0 sh bij x0 b0 Hb0 H1 Inj (apply_slotmap_total _ _ _ H1)) as (b1 & Hs0).
    { intros k v G. rewrite (B4 (aid i) c sh bij src k v Hc Hin G). discriminate. }
    (* public slots of x0 are values of bij: = 1 mod 4; binders of x0: = 0 mod 4 *)
    assert (Px0 : forall x, In x (pub_occ x0) -> x mod 4 = 1).
    { intros x Hx. rewrite (apply_slotmap_ren _ _ _ H1) in Hx.
      destruct (pub_occ_ren_sub (asm_g bij) sh x (fun _ => eq_refl) Hx) as (x' & Hx' & ->).
      unfold asm_g. destruct (get bij x') as [y|] eqn:G; [|exfalso; exact (apply_slotmap_total _ _ _ H1 x' Hx' G)].
      exact (B4 (aid i) c sh bij src x' y Hc Hin G). }
    assert (Bx0' : forall b, In b (binders x0) -> b mod 4 = 0).
    { intros b Hb. rewrite Bx0 in Hb. exact (Sh4 b (binders_all_occ _ _ Hb)). }
    (* stage 1 *)
    destruct (shape_ren s0 (rnG (c_slots c) (rho, c1)) x0 (sh, b1)) as (b2 & Hs1); [| | |exact Hs0|].
    { intros x y Hx Hy E. eapply (rnG_inj (c_slots c) (Model.ctr s)); [exact RI|exact Below'| | |exact E];
        apply RD; apply binders_all_occ; assumption. }
    { intros x b Hx Hb E. assert (x = b).
      { eapply (rnG_inj (c_slots c) (Model.ctr s)); [exact RI|exact Below'| | |exact E];
          apply RD; [apply pub_occ_all_occ|apply binders_all_occ]; assumption. }
      subst b. pose proof (Px0 x Hx). pose proof (Bx0' x Hb). lia. }
    { intros x y Hx Hy E. eapply (rnG_inj (c_slots c) (Model.ctr s)); [exact RI|exact Below'| | |exact E];
        apply RD; apply pub_occ_all_occ; assumption. }
    cbn [fst] in Hs1. rewrite <- RG in Hs1.
    assert (Bx1 : forall b, In b (binders x1) -> Model.ctr s <= b /\ b < c1).
    { intros b Hb. rewrite RG, ren_binders in Hb. apply in_map_iff in Hb. destruct Hb as (bb & <- & Hbb).
      rewrite Bx0 in Hbb. pose proof (Sh4 bb (binders_all_occ _ _ Hbb)) as Z0.
      assert (Hbb' : In bb (all_occ x0)) by (apply binders_all_occ; rewrite Bx0; exact Hbb).
      unfold rnG. cbn [fst].
      destruct (sset_mem bb (c_slots c)) eqn:Em.
      { apply sset_mem_in in Em. pose proof (S1c bb Em) as Z1. unfold ok1 in Z1. lia. }
      destruct (RD bb Hbb') as [D|D]; [congruence|]. cbn [fst] in D.
      destruct (get rho bb) as [v|] eqn:G; [|congruence]. exact (RV bb v G). }
    (* stage 2 *)
    rewrite (apply_slotmap_ren _ _ _ H4) in WK. rewrite (apply_slotmap_ren _ _ _ H4).
    destruct (shape_ren s0 (asm_g MM) x1 (sh, b2)) as (b3 & Hs2); [| | |exact Hs1|].
    { intros x y _ _ E. exact E. }
    { intros x b Hx Hb E. unfold asm_g in E. destruct (get MM x) as [u|] eqn:G; [|apply (TotM x Hx); exact G].
      subst u. pose proof (Bx1 b Hb). destruct (VM x b G); lia. }
    { intros x y Hx Hy E. unfold asm_g in E.
      destruct (get MM x) as [u|] eqn:Gx; [|exfalso; apply (TotM x Hx); exact Gx].
      destruct (get MM y) as [v|] eqn:Gy; [|exfalso; apply (TotM y Hy); exact Gy]. subst v. eapply IM; eauto. }
    cbn [fst] in Hs2. split; [|exists b3; exact Hs2]. split; [|exact WK].
    intros x Hx Hb. rewrite binders_asm in Hb.
    destruct (pub_occ_ren_sub (asm_g MM) x1 x (fun _ => eq_refl) Hx) as (x' & Hx' & ->).
    unfold asm_g in Hb. destruct (get MM x') as [u|] eqn:G; [|exact (TotM x' Hx' G)].
    pose proof (Bx1 u Hb). destruct (VM x' u G); lia.
  Qed.

  Lemma mapM_entries_shape : forall i c l s nns s', Rel s0 s -> get_class s0 (aid i) = Ok c -> incl l (c_nodes c) -> cb s0 s i ->
    mapM (ea_entry i c) l s = Ok (nns, s') ->
    forall nn, In nn nns -> clean nn /\ exists e b, In e l /\ shape s0 nn = Ok (fst e, b).
  Proof.
    intros i c. induction l as [|e t IH]; intros s nns s' R Hc Hl Ci H; cbn [mapM] in H.
    - inversion H; subst. intros nn [].
    - apply mbind_inv in H. destruct H as (y & s1 & H1 & H). apply mbind_inv in H. destruct H as (r & s2 & H2 & H).
      inversion H; subst nns s2; clear H.
      destruct (ea_entry_kids s0 I3 K0 M4 i c e s y s1 R Hc (Hl e (or_introl eq_refl)) Ci H1) as (G1 & L1 & _).
      intros nn [<-|Hnn].
      + destruct (ea_entry_shape i c e s y s1 R Hc (Hl e (or_introl eq_refl)) Ci H1) as (Cl & b & Hb).
        split; [exact Cl|]. exists e, b. split; [left; reflexivity|exact Hb].
      + destruct (IH s1 r s' (Rel_step s0 _ _ R G1 L1) Hc (fun x Hx => Hl x (or_intror Hx)) (cb_mono s0 _ _ _ L1 Ci) H2 nn Hnn)
          as (Cl & e' & b & He' & Hb).
        split; [exact Cl|]. exists e', b. split; [right; exact He'|exact Hb].
  Qed.

  (* C1 *)
  Theorem applied_shape : forall i c t nns t' nn, get_class s0 i = Ok c -> sg_ge s0 t ->
    enodes_applied {| aid := i; am := identity (c_slots c) |} t = Ok (nns, t') -> In nn nns ->
    clean nn /\ exists sh p b, stored s0 i sh p /\ shape s0 nn = Ok (sh, b).
  Proof.
    intros i c t nns t' nn Hc R H Hnn.
    assert (R' : Rel s0 t) by exact R.
    destruct (class_facts s0 I3 M4 _ _ Hc) as [_ Below].
    assert (Croot : cb s0 t {| aid := i; am := identity (c_slots c) |}).
    { split; [split; [apply covers_identity; exact Hc|apply identity_wf]|].
      cbn [am]. intros v Hv. unfold values_vec in Hv. apply in_map_iff in Hv. destruct Hv as ([k v'] & <- & Hkv).
      apply in_identity in Hkv. destruct Hkv as [<- Hk]. cbn [snd]. pose proof (Below k Hk). destruct R as [_ R]. lia. }
    rewrite enodes_applied_eq in H.
    apply mbind_inv in H. destruct H as (c' & s1 & H1 & H). apply reads_inv in H1. destruct H1 as [Hc' ->].
    cbn [aid] in Hc'. rewrite (Rel_class s0 _ _ R') in Hc'. rewrite Hc in Hc'. inversion Hc'; subst c'.
    destruct (mapM_entries_shape {| aid := i; am := identity (c_slots c) |} c (c_nodes c) t nns t' R' Hc (incl_refl _) Croot H nn Hnn) as (Cl & [sh p] & b & He & Hb).
    split; [exact Cl|]. exists sh, p, b. split; [exact (in_stored i c sh p Hc He)|exact Hb].
  Qed.
End DischargeC1.
Print Assumptions ea_entry_shape.
Print Assumptions applied_shape.

(* `depth_one_found` with the counter hypotheses and C1 discharged: remaining hypotheses C2 and C3 *)
Theorem depth_one_found_c23 : forall s,
  inv3 s -> kids_ok s -> cls4 s -> hc_ok s -> pending s = [] ->
  (* C2 *)
  (forall i c t nns t' nn vs n2 sh b, In i (ids s) -> get_class s i = Ok c -> sg_ge s t ->
     enodes_applied {| aid := i; am := identity (c_slots c) |} t = Ok (nns, t') -> In nn nns ->
     weak_variants s nn = Ok vs -> In n2 vs -> shape s nn = Ok (sh, b) ->
     clean n2 /\ exists b', shape s n2 = Ok (sh, b')) ->
  (* C3 *)
  (forall nd n2 n_sh c_sh m' vs t sb t', clean n2 ->
     (forall x, In x (all_occ nd) -> x < Model.ctr t) ->
     wshape nd = Ok n_sh -> wshape (nullify n2) = Ok c_sh -> node_eqb (fst n_sh) (fst c_sh) = true ->
     insert_all_bij (combine (all_occ (nullify n2)) (all_occ nd)) [] = Some m' ->
     List.length vs = List.length (app_occ n2) ->
     final_go (combine vs (app_occ n2)) m' t = Ok (sb, t') ->
     exists g, ren_ok g n2 /\ set_apps nd (map snd sb) = RenameFacts.ren g n2) ->
  forall nd vs l s',
    NoDup vs -> List.length vs = List.length (app_occ nd) ->
    pat_below (Model.ctr s) (PNode nd (map PVarP vs)) ->
    ematch_all (PNode nd (map PVarP vs)) s = Ok (l, s') ->
    forall sb, In sb l ->
    exists a, lookup_pat s' (PNode nd (map PVarP vs)) sb = Ok (Some a) /\ In (aid a) (ids s).
Proof.
  intros s I3 K0 M4 Hhc Hpe C2 C3 nd vs l s' Hnd Hlen Hpb H sb Hin.
  eapply (depth_one_found s Hhc c_ematch_impl c_final_subst); try eassumption.
  - intros i c t nns t' nn _ Hc R Hen Hnn. exact (applied_shape s I3 K0 M4 Hhc Hpe i c t nns t' nn Hc R Hen Hnn).
  - intros x Hx. apply Hpb. rewrite pslots_node. apply in_or_app. left. exact Hx.
Qed.
Print Assumptions depth_one_found_c23.

(* C2, the `clean` half: a weak variant is a variant, and a variant keeps the binders and has no new public slot *)
Lemma variants_sg : forall s t n, same_graph s t -> variants t n = variants s n.
Proof. intros s t n H. rewrite (sg_set_ctr s t H). reflexivity. Qed.

Lemma variant_clean : forall s t nn vs n2, inv3 s -> Rel s t -> Forall (cb s t) (app_occ nn) ->
  weak_variants s nn = Ok vs -> In n2 vs -> clean nn ->
  clean n2 /\ exists all, variants s nn = Ok all /\ In n2 all.
Proof.
  intros s t nn vs n2 I3 Rt Fcb Hv Hn2 [Cl _]. destruct (weak_variants_sub _ _ _ Hv) as (all & Hall & Hsub).
  destruct (variants_sub s nn all n2 Hall (Hsub _ Hn2)) as (B & P).
  split; [|exists all; split; [exact Hall|exact (Hsub _ Hn2)]]. split.
  - intros x Hx Hb. rewrite B in Hb. exact (Cl x (P x Hx) Hb).
  - assert (Hall' : variants t nn = Ok all) by (rewrite (variants_sg s t nn (proj1 Rt)); exact Hall).
    pose proof (variants_cb s I3 t nn all Rt Fcb Hall' n2 (Hsub _ Hn2)) as F.
    revert F. apply Forall_impl. intros a [[_ Wa] _]. exact Wa.
Qed.

(* remaining hypotheses: C2' (GROUP CLOSURE: every group variant of a listed node has the same shape) and C3 *)
Theorem depth_one_found_final : forall s,
  inv3 s -> kids_ok s -> cls4 s -> hc_ok s -> pending s = [] ->
  (* C2' *)
  (forall i c t nns t' nn all n2 sh b, In i (ids s) -> get_class s i = Ok c -> sg_ge s t ->
     enodes_applied {| aid := i; am := identity (c_slots c) |} t = Ok (nns, t') -> In nn nns ->
     variants s nn = Ok all -> In n2 all -> shape s nn = Ok (sh, b) ->
     exists b', shape s n2 = Ok (sh, b')) ->
  (* C3 *)
  (forall nd n2 n_sh c_sh m' vs t sb t', clean n2 ->
     (forall x, In x (all_occ nd) -> x < Model.ctr t) ->
     wshape nd = Ok n_sh -> wshape (nullify n2) = Ok c_sh -> node_eqb (fst n_sh) (fst c_sh) = true ->
     insert_all_bij (combine (all_occ (nullify n2)) (all_occ nd)) [] = Some m' ->
     List.length vs = List.length (app_occ n2) ->
     final_go (combine vs (app_occ n2)) m' t = Ok (sb, t') ->
     exists g, ren_ok g n2 /\ set_apps nd (map snd sb) = RenameFacts.ren g n2) ->
  forall nd vs l s',
    NoDup vs -> List.length vs = List.length (app_occ nd) ->
    pat_below (Model.ctr s) (PNode nd (map PVarP vs)) ->
    ematch_all (PNode nd (map PVarP vs)) s = Ok (l, s') ->
    forall sb, In sb l ->
    exists a, lookup_pat s' (PNode nd (map PVarP vs)) sb = Ok (Some a) /\ In (aid a) (ids s).
Proof.
  intros s I3 K0 M4 Hhc Hpe C2 C3. apply (depth_one_found_c23 s I3 K0 M4 Hhc Hpe); [|exact C3].
  intros i c t nns t' nn vs n2 sh b Hi Hc R Hen Hnn Hv Hn2 Hsh.
  destruct (applied_shape s I3 K0 M4 Hhc Hpe i c t nns t' nn Hc R Hen Hnn) as (Cl & _).
  assert (R' : Rel s t) by exact R.
  destruct (class_facts s I3 M4 _ _ Hc) as [_ Below].
  assert (Croot : cb s t {| aid := i; am := identity (c_slots c) |}).
  { split; [split; [apply covers_identity; exact Hc|apply identity_wf]|].
    cbn [am]. intros v Hv'. unfold values_vec in Hv'. apply in_map_iff in Hv'. destruct Hv' as ([k v'] & <- & Hkv).
    apply in_identity in Hkv. destruct Hkv as [<- Hk]. cbn [snd]. pose proof (Below k Hk). destruct R as [_ R]. lia. }
  destruct (enodes_applied_kids s I3 K0 M4 _ t nns t' R' Croot Hen) as (G1 & L1 & Fk).
  destruct (variant_clean s t' nn vs n2 I3 (Rel_step s _ _ R' G1 L1) (Fk nn Hnn) Hv Hn2 Cl) as (Cl2 & all & Hall & Hin).
  split; [exact Cl2|]. exact (C2 i c t nns t' nn all n2 sh b Hi Hc R Hen Hnn Hall Hin Hsh).
Qed.
Print Assumptions depth_one_found_final.

(* test of C2' along real runs: ALL group variants of every listed node of every live class *)
Definition c2all_okb (s : egraph) : bool :=
  forallb (fun i =>
    match get_class s i with
    | Err _ => false
    | Ok c =>
        match enodes_applied {| aid := i; am := identity (c_slots c) |} s with
        | Err _ => false
        | Ok (nns, _) =>
            forallb (fun nn =>
              match shape s nn, variants s nn with
              | Ok (sh, _), Ok all =>
                  forallb (fun n2 => match shape s n2 with Ok (sh2, _) => node_eqb sh sh2 | Err _ => false end) all
              | _, _ => false
              end) nns
        end
    end) (ids s).
Example c2all_checked : map c2all_okb test_states = repeat true 10.
Proof. vm_compute. reflexivity. Qed.

(* ------------------------------------------------------------------ *)
(* C3: the instance is an injective renaming of the candidate (pure node algebra) *)

Lemma insert_all_bij_src : forall ps m m', insert_all_bij ps m = Some m' ->
  forall k v, get m' k = Some v -> get m k = Some v \/ In (k, v) ps.
Proof.
  induction ps as [|[x y] t IH]; intros m m' H k v G; cbn [insert_all_bij] in H.
  - inversion H; subst. left; exact G.
  - destruct (try_insert_bij x y m) as [m1|] eqn:E; [|discriminate].
    destruct (IH _ _ H k v G) as [G1|Hin]; [|right; right; exact Hin].
    apply try_insert_bij_eq in E. destruct E as (-> & _ & _). rewrite get_insert_any in G1.
    destruct (k =? x) eqn:Ek; [|left; exact G1]. apply N.eqb_eq in Ek. subst k. inversion G1; subst.
    right; left; reflexivity.
Qed.

Lemma compose_ext_on : forall a b b', (forall p, In p a -> get b (snd p) = get b' (snd p)) ->
  compose_partial a b = compose_partial a b'.
Proof.
  intros a b b' H. unfold compose_partial. f_equal. induction a as [|p t IH]; [reflexivity|]. cbn [flat_map].
  rewrite (H p (or_introl eq_refl)), IH; [reflexivity|]. intros q Hq. apply H. right; exact Hq.
Qed.

Lemma compose_total_mapv : forall a mf, wf a -> (forall v, In v (values_vec a) -> get mf v <> None) ->
  compose_partial a mf = mapv (g_of mf true) a.
Proof.
  intros a mf W Def. apply ext_eq; [apply compose_partial_wf|apply wf_mapv; exact W|]. intros k.
  rewrite get_compose_partial by exact W. rewrite get_mapv.
  destruct (get a k) as [y|] eqn:G; cbn [option_map]; [|reflexivity].
  unfold g_of. destruct (get mf y) as [z|] eqn:Gz; [reflexivity|].
  exfalso. apply (Def y); [eapply get_values_vec; eauto|exact Gz].
Qed.

(* local copy of MatchFacts.extend_fresh_spec (kept here so that refactorings there do not break this file) *)
Lemma extend_fresh_specL : forall l m s m' s', extend_fresh l m s = Ok (m', s') ->
  injective m -> (forall k v, get m k = Some v -> v < Model.ctr s) ->
  injective m' /\ (forall k v, get m' k = Some v -> v < Model.ctr s') /\
  (forall k v, get m k = Some v -> get m' k = Some v) /\ (forall x, In x l -> get m' x <> None).
Proof.
  induction l as [|x t IH]; intros m s m' s' H Inj V; cbn [extend_fresh] in H.
  - inversion H; subst. split; [exact Inj|]. split; [exact V|]. split; [auto|intros x []].
  - unfold contains_key in H. destruct (get m x) as [vx|] eqn:Gx.
    + destruct (IH _ _ _ _ H Inj V) as (C & D & E & F).
      split; [exact C|]. split; [exact D|]. split; [exact E|].
      intros y [<-|Hy]; [rewrite (E _ _ Gx); discriminate|exact (F y Hy)].
    + apply mbind_inv in H. destruct H as (f & s1 & Hf & H). unfold Model.fresh in Hf. inversion Hf; subst f s1; clear Hf.
      destruct (IH _ _ _ _ H) as (C & D & E & F).
      { intros k1 k2 v G1 G2. rewrite get_insert_any in G1, G2.
        destruct (k1 =? x) eqn:E1, (k2 =? x) eqn:E2.
        - apply N.eqb_eq in E1, E2. congruence.
        - inversion G1; subst v. pose proof (V k2 _ G2). lia.
        - inversion G2; subst v. pose proof (V k1 _ G1). lia.
        - eapply Inj; eauto. }
      { intros k v G. rewrite get_insert_any in G. cbn [Model.ctr set_ctr]. destruct (k =? x).
        - inversion G; subst v. lia.
        - pose proof (V k v G). lia. }
      split; [exact C|]. split; [exact D|]. split.
      * intros k v G. apply E. rewrite get_insert_any. destruct (k =? x) eqn:Ek; [|exact G].
        apply N.eqb_eq in Ek. congruence.
      * intros y [<-|Hy]; [|exact (F y Hy)]. rewrite (E x (Model.ctr s)); [discriminate|].
        rewrite get_insert_any, N.eqb_refl. reflexivity.
Qed.

Definition out_of (mf : slotmap) (a : appid) : appid := {| aid := aid a; am := compose_partial (am a) mf |}.

(* final_subst: every child map is composed with ONE final injective map extending the partial slot map *)
Lemma final_go_spec : forall l m t sb t', final_go l m t = Ok (sb, t') ->
  injective m -> (forall k v, get m k = Some v -> v < Model.ctr t) ->
  Forall (fun va : text * appid => wf (am (snd va))) l ->
  exists mf, injective mf /\ (forall k v, get m k = Some v -> get mf k = Some v) /\
    map snd sb = map (fun va => out_of mf (snd va)) l /\
    (forall va x, In va l -> In x (values_vec (am (snd va))) -> get mf x <> None).
Proof.
  induction l as [|[v a] r IH]; intros m t sb t' H Inj V W; cbn [final_go] in H.
  - apply ret_inv in H. destruct H as [-> _]. exists m. split; [exact Inj|]. split; [auto|]. split; [reflexivity|].
    intros va x [].
  - apply mbind_inv in H. destruct H as (m1 & t1 & He & H). apply mbind_inv in H. destruct H as (r1 & t2 & Hr & H).
    apply ret_inv in H. destruct H as [-> _].
    inversion W as [|? ? Wa Wr]; subst. cbn [snd] in Wa.
    destruct (extend_fresh_specL _ _ _ _ _ He Inj V) as (Inj1 & V1 & Mono1 & Def1).
    destruct (IH _ _ _ _ Hr Inj1 V1 Wr) as (mf & Injf & Monof & Hmap & Deff).
    assert (DefA : forall x, In x (values_vec (am a)) -> get m1 x <> None).
    { intros x Hx. apply Def1. apply (values_spec _ _ Wa). unfold values_vec in Hx. apply in_map_iff in Hx.
      destruct Hx as ([k x'] & <- & Hk). exists k. apply in_get; assumption. }
    exists mf. split; [exact Injf|]. split; [intros k w G; apply Monof, Mono1, G|]. split.
    + cbn [map snd]. rewrite Hmap. f_equal. unfold out_of. cbn [aid am snd]. f_equal. apply compose_ext_on.
      intros [k x] Hp. cbn [snd].
      assert (Hx : In x (values_vec (am a))) by (unfold values_vec; change x with (snd (k, x)); apply in_map; exact Hp).
      destruct (get m1 x) as [z|] eqn:G; [|exfalso; exact (DefA x Hx G)]. symmetry. exact (Monof _ _ G).
    + intros va x [<-|Hin] Hx; [|exact (Deff va x Hin Hx)]. cbn [snd] in Hx.
      destruct (get m1 x) as [z|] eqn:G; [|exfalso; exact (DefA x Hx G)]. rewrite (Monof _ _ G). discriminate.
Qed.

(* renaming by a flag-independent function *)
Lemma all_occ_f_ren_flagless : forall (h : slot -> slot) g, (forall b x, g b x = h x) ->
  forall a bd, all_occ_f (ren_f g bd a) = map h (all_occ_f a).
Proof.
  intros h g Hg. induction a as [s|x|s b IH|p]; intros bd; cbn [ren_f all_occ_f map].
  - rewrite Hg. reflexivity.
  - cbn [am]. unfold ren_vals, values_vec. rewrite !map_map. apply map_ext. intros kv. cbn [snd]. apply Hg.
  - rewrite Hg, IH. reflexivity.
  - reflexivity.
Qed.

Lemma all_occ_ren_flagless : forall (h : slot -> slot) g n, (forall b x, g b x = h x) ->
  all_occ (RenameFacts.ren g n) = map h (all_occ n).
Proof.
  intros h g n Hg. unfold all_occ, RenameFacts.ren. cbn [nargs].
  induction (nargs n) as [|a t IH]; cbn [map flat_map]; [reflexivity|].
  rewrite map_app, IH, (all_occ_f_ren_flagless h g Hg). reflexivity.
Qed.

(* nullify, with a named field function *)
Fixpoint nul_f (a : farg) : farg :=
  match a with AApp _ => AApp null_appid | ABind s b => ABind s (nul_f b) | _ => a end.

Lemma nullify_eq : forall n, nullify n = {| nvar := nvar n; nargs := map nul_f (nargs n) |}.
Proof.
  intros n. reflexivity.
Qed.

Lemma set_apps_f_nul : forall a rest, set_apps_f (nul_f a) (app_occ_f a ++ rest) = (a, rest).
Proof.
  induction a as [s|x|s b IH|p]; intros rest; cbn [nul_f app_occ_f app set_apps_f]; try reflexivity.
  rewrite IH. reflexivity.
Qed.

Lemma set_apps_args_nul : forall l rest, set_apps_args (map nul_f l) (flat_map app_occ_f l ++ rest) = l.
Proof.
  induction l as [|a t IH]; intros rest; cbn [map flat_map set_apps_args]; [reflexivity|].
  rewrite <- app_assoc, set_apps_f_nul, IH. reflexivity.
Qed.

Lemma set_apps_nullify : forall n, set_apps (nullify n) (app_occ n) = n.
Proof.
  intros n. rewrite nullify_eq. unfold set_apps, app_occ. cbn [nvar nargs].
  rewrite <- (app_nil_r (flat_map app_occ_f (nargs n))), set_apps_args_nul. destruct n; reflexivity.
Qed.

Lemma all_occ_f_split : forall a x, In x (all_occ_f a) ->
  In x (all_occ_f (nul_f a)) \/ exists k, In k (app_occ_f a) /\ In x (values_vec (am k)).
Proof.
  induction a as [s|k|s b IH|p]; intros x Hx; cbn [nul_f all_occ_f app_occ_f] in *.
  - left; exact Hx.
  - right. exists k. split; [left; reflexivity|exact Hx].
  - destruct Hx as [Hx|Hx]; [left; left; exact Hx|]. destruct (IH x Hx) as [L|R]; [left; right; exact L|right; exact R].
  - contradiction.
Qed.

Lemma all_occ_split : forall n x, In x (all_occ n) ->
  In x (all_occ (nullify n)) \/ exists k, In k (app_occ n) /\ In x (values_vec (am k)).
Proof.
  intros n x Hx. rewrite nullify_eq. unfold all_occ, app_occ in *. cbn [nargs]. apply in_flat_map in Hx.
  destruct Hx as (a & Ha & Hx). destruct (all_occ_f_split a x Hx) as [L|(k & Hk & Hv)].
  - left. apply in_flat_map. exists (nul_f a). split; [apply in_map; exact Ha|exact L].
  - right. exists k. split; [apply in_flat_map; exists a; split; assumption|exact Hv].
Qed.

Lemma skel_f_occ_len : forall a a', skel_f a = skel_f a' -> List.length (all_occ_f a) = List.length (all_occ_f a').
Proof.
  induction a as [s|x|s b IH|p]; intros [s'|x'|s' b'|p'] H; cbn [skel_f] in H; try discriminate; cbn [all_occ_f List.length].
  - reflexivity.
  - assert (Hm := f_equal (fun a => match a with AApp y => List.length (am y) | _ => 0%nat end) H).
    cbn [am] in Hm. rewrite !map_length in Hm. unfold values_vec. rewrite !map_length. exact Hm.
  - inversion H as [Hb]. rewrite (IH _ Hb). reflexivity.
  - reflexivity.
Qed.

Lemma skel_occ_len : forall n n', skel n = skel n' -> List.length (all_occ n) = List.length (all_occ n').
Proof.
  intros n n' H. assert (Hm := f_equal nargs H). unfold skel in Hm. cbn [nargs] in Hm. unfold all_occ. clear H.
  revert Hm. generalize (nargs n'). induction (nargs n) as [|a t IH]; intros [|a' t'] Hm; cbn [map] in Hm; try discriminate;
    [reflexivity|].
  injection Hm as Ha Ht. cbn [flat_map]. rewrite !app_length, (skel_f_occ_len _ _ Ha), (IH _ Ht). reflexivity.
Qed.

Lemma in_combine_l_ex : forall {A C} (l : list A) (l' : list C) x, List.length l = List.length l' -> In x l ->
  exists y, In (x, y) (combine l l').
Proof.
  induction l as [|a t IH]; intros [|b u] x L Hx; try discriminate; [contradiction|]. cbn [combine].
  destruct Hx as [<-|Hx]; [exists b; left; reflexivity|].
  destruct (IH u x) as (y & Hy); [cbn [List.length] in L; lia|exact Hx|]. exists y. right; exact Hy.
Qed.

Lemma map_combine_eq : forall {A C} (h : A -> C) l l', List.length l = List.length l' ->
  (forall x y, In (x, y) (combine l l') -> h x = y) -> map h l = l'.
Proof.
  intros A C h. induction l as [|a t IH]; intros [|b u] L H; try discriminate; [reflexivity|]. cbn [map combine] in *.
  rewrite (H a b (or_introl eq_refl)). f_equal. apply IH; [cbn [List.length] in L; lia|].
  intros x y Hxy. apply H. right; exact Hxy.
Qed.

Lemma map_snd_combine_len : forall {A C} (l : list A) (l' : list C),
  List.length l = List.length l' -> map snd (combine l l') = l'.
Proof.
  induction l as [|x t IH]; intros [|y u] H; try discriminate; [reflexivity|].
  cbn [combine map snd]. f_equal. apply IH. cbn [List.length] in H. lia.
Qed.

Lemma map_zip_with_l : forall {A C D} (F : C -> D) (G : A -> C -> D) bds l, List.length bds = List.length l ->
  (forall bd a, In a l -> F a = G bd a) -> map F l = zip_with G bds l.
Proof.
  intros A C D F G. induction bds as [|bd t IH]; intros [|a u] L H; try discriminate; [reflexivity|].
  cbn [map zip_with]. rewrite (H bd a (or_introl eq_refl)). f_equal. apply IH; [cbn [List.length] in L; lia|].
  intros bd' a' Ha'. apply H. right; exact Ha'.
Qed.

Theorem inst_ren : forall nd n2 n_sh c_sh m' vs t sb t', clean n2 ->
  (forall x, In x (all_occ nd) -> x < Model.ctr t) ->
  wshape nd = Ok n_sh -> wshape (nullify n2) = Ok c_sh -> node_eqb (fst n_sh) (fst c_sh) = true ->
  insert_all_bij (combine (all_occ (nullify n2)) (all_occ nd)) [] = Some m' ->
  List.length vs = List.length (app_occ n2) ->
  final_go (combine vs (app_occ n2)) m' t = Ok (sb, t') ->
  exists g, ren_ok g n2 /\ set_apps nd (map snd sb) = RenameFacts.ren g n2.
Proof.
  intros nd n2 [sh1 b1] [sh2 b2] m' vs t sb t' [Cl Wk] Below W1 W2 He Hib Hlen Hf. cbn [fst] in He.
  apply node_eqb_iff in He. subst sh2.
  assert (Sk : skel (nullify n2) = skel nd).
  { destruct (node_equiv_shape _ _ _ W1) as [S1 _]. destruct (node_equiv_shape _ _ _ W2) as [S2 _]. congruence. }
  pose proof (skel_occ_len _ _ Sk) as Len.
  assert (Injm : injective m').
  { apply is_bijection_inj. eapply insert_all_bij_bij; [exact Hib|reflexivity]. }
  assert (Vm : forall k v, get m' k = Some v -> v < Model.ctr t).
  { intros k v G. destruct (insert_all_bij_src _ _ _ Hib k v G) as [G0|Hin]; [discriminate G0|].
    apply Below. exact (in_combine_r _ _ _ _ Hin). }
  assert (Wl : Forall (fun va : text * appid => wf (am (snd va))) (combine vs (app_occ n2))).
  { apply Forall_forall. intros [v a] Hin. cbn [snd]. apply in_combine_r in Hin.
    exact (proj1 (Forall_forall _ _) Wk a Hin). }
  destruct (final_go_spec _ _ _ _ _ Hf Injm Vm Wl) as (mf & Injf & Monof & Hmap & Deff).
  rewrite <- (map_map snd (out_of mf)), (map_snd_combine_len vs (app_occ n2) Hlen) in Hmap.
  assert (DefK : forall a x, In a (app_occ n2) -> In x (values_vec (am a)) -> get mf x <> None).
  { intros a x Ha Hx. rewrite <- (map_snd_combine_len vs (app_occ n2) Hlen) in Ha. apply in_map_iff in Ha.
    destruct Ha as (va & <- & Hva). exact (Deff va x Hva Hx). }
  set (g := g_of mf). set (h := g true).
  assert (Hg : forall b x, g b x = h x) by reflexivity.
  assert (Hpair : forall x y, In (x, y) (combine (all_occ (nullify n2)) (all_occ nd)) -> h x = y).
  { intros x y Hxy. pose proof (Monof _ _ (insert_all_bij_get _ _ _ Hib x y Hxy)) as G.
    unfold h, g, g_of. rewrite G. reflexivity. }
  assert (E3 : RenameFacts.ren g (nullify n2) = nd).
  { apply skel_occ_inj; [rewrite ren_skel; exact Sk|].
    rewrite (all_occ_ren_flagless h g _ Hg). apply map_combine_eq; [exact Len|exact Hpair]. }
  assert (E2 : map (out_of mf) (app_occ n2) = zip_with (rv g) (abounds (nullify n2)) (app_occ n2)).
  { apply map_zip_with_l; [rewrite abounds_length; apply nullify_app_len|].
    intros bd a Ha. unfold out_of, rv. f_equal. rewrite ren_vals_mapv.
    rewrite (compose_total_mapv (am a) mf (proj1 (Forall_forall _ _) Wk a Ha) (fun x Hx => DefK a x Ha Hx)).
    reflexivity. }
  assert (Keys : forall x, In x (all_occ n2) -> exists y, get mf x = Some y).
  { intros x Hx. destruct (all_occ_split n2 x Hx) as [L|(k & Hk & Hv)].
    - destruct (in_combine_l_ex _ (all_occ nd) x Len L) as (y & Hy). exists y.
      exact (Monof _ _ (insert_all_bij_get _ _ _ Hib x y Hy)).
    - destruct (get mf x) as [y|] eqn:G; [exists y; reflexivity|]. exfalso. exact (DefK k x Hk Hv G). }
  assert (Hinj : forall x y, In x (all_occ n2) -> In y (all_occ n2) -> h x = h y -> x = y).
  { intros x y Hx Hy E. destruct (Keys x Hx) as (u & Gu). destruct (Keys y Hy) as (v & Gv).
    unfold h, g, g_of in E. rewrite Gu, Gv in E. subst v. eapply Injf; eauto. }
  exists g. split.
  - split; [|split].
    + intros x y Hx Hy E. apply Hinj; [apply binders_all_occ; exact Hx|apply binders_all_occ; exact Hy|exact E].
    + intros x b Hx Hb E. assert (x = b) by (apply Hinj; [apply pub_occ_all_occ; exact Hx|apply binders_all_occ; exact Hb|exact E]).
      subst b. exact (Cl x Hx Hb).
    + intros x y Hx Hy E. apply Hinj; [apply pub_occ_all_occ; exact Hx|apply pub_occ_all_occ; exact Hy|exact E].
  - rewrite Hmap, E2, <- E3 at 1. rewrite set_apps_ren, set_apps_nullify. reflexivity.
Qed.
Print Assumptions inst_ren.

(* C3 discharged: the only remaining hypothesis is the group closure C2' *)
Theorem depth_one_found_c2 : forall s,
  inv3 s -> kids_ok s -> cls4 s -> hc_ok s -> pending s = [] ->
  (* C2' *)
  (forall i c t nns t' nn all n2 sh b, In i (ids s) -> get_class s i = Ok c -> sg_ge s t ->
     enodes_applied {| aid := i; am := identity (c_slots c) |} t = Ok (nns, t') -> In nn nns ->
     variants s nn = Ok all -> In n2 all -> shape s nn = Ok (sh, b) ->
     exists b', shape s n2 = Ok (sh, b')) ->
  forall nd vs l s',
    NoDup vs -> List.length vs = List.length (app_occ nd) ->
    pat_below (Model.ctr s) (PNode nd (map PVarP vs)) ->
    ematch_all (PNode nd (map PVarP vs)) s = Ok (l, s') ->
    forall sb, In sb l ->
    exists a, lookup_pat s' (PNode nd (map PVarP vs)) sb = Ok (Some a) /\ In (aid a) (ids s).
Proof.
  intros s I3 K0 M4 Hhc Hpe C2. apply (depth_one_found_final s I3 K0 M4 Hhc Hpe C2). exact inst_ren.
Qed.
Print Assumptions depth_one_found_c2.

(* ------------------------------------------------------------------ *)
(* C2' (group closure), part G2: `min_variant` only depends on the SET of variants, as far as the weak shape goes *)

Lemma min_none : forall l p, min_variant l None = Ok p ->
  In p l /\ forall v, In v l -> cmp_slots (kof v) (kof p) <> Lt.
Proof.
  intros [|v t] p H; [cbn in H; discriminate|]. rewrite min_variant_step in H.
  pose proof (min_spec _ _ _ H) as [A B]. split.
  - destruct (min_variant_in _ _ _ H) as [Hin|(k & Hk)]; [right; exact Hin|]. inversion Hk; subst. left; reflexivity.
  - intros w [<-|Hw]; [exact A|exact (B w Hw)].
Qed.

Lemma min_none_ok : forall l v, In v l -> exists q, min_variant l None = Ok q.
Proof.
  intros [|w t] v Hv; [contradiction|]. destruct (min_variant_ok t (w, kof w)) as (q & Q).
  exists q. rewrite min_variant_step. exact Q.
Qed.

(* two lists with the same elements: the selected variants have the same key *)
Lemma min_variant_set_key : forall l l' p q, (forall v, In v l <-> In v l') ->
  min_variant l None = Ok p -> min_variant l' None = Ok q -> kof p = kof q.
Proof.
  intros l l' p q Hset P Q. destruct (min_none _ _ P) as [Pin Pmin]. destruct (min_none _ _ Q) as [Qin Qmin].
  pose proof (Pmin q (proj2 (Hset q) Qin)) as A. pose proof (Qmin p (proj1 (Hset p) Pin)) as B.
  apply cmp_slots_eq. rewrite (cmp_slots_antisym (kof q) (kof p)) in B.
  destruct (cmp_slots (kof q) (kof p)) eqn:C; cbn [CompOpp] in B; try congruence.
  apply cmp_slots_eq in C. rewrite C. apply cmp_slots_refl.
Qed.

(* equal skeletons and equal keys: equal weak shapes *)
Lemma key_skel_shape : forall p q shp bp shq bq, wshape p = Ok (shp, bp) -> wshape q = Ok (shq, bq) ->
  skel p = skel q -> kof p = kof q -> shp = shq.
Proof.
  intros p q shp bp shq bq Wp Wq Sk K. unfold kof in K. rewrite Wp, Wq in K. cbn [fst] in K.
  apply skel_occ_inj; [|exact K].
  destruct (node_equiv_shape _ _ _ Wp) as [S1 _]. destruct (node_equiv_shape _ _ _ Wq) as [S2 _]. congruence.
Qed.

(* G1 as a property of a pair (node, variant): after find_enode both have the same SET of variants, all with one skeleton *)
Definition same_orbit (s : egraph) (nn n2 : node) : Prop :=
  exists m1 m2 V1 V2, find_enode s nn = Ok m1 /\ find_enode s n2 = Ok m2 /\
    variants s m1 = Ok V1 /\ variants s m2 = Ok V2 /\
    (forall v, In v V1 <-> In v V2) /\ (forall v w, In v V1 -> In w V1 -> skel v = skel w).

Theorem same_orbit_shape : forall s nn n2 sh b, same_orbit s nn n2 -> shape s nn = Ok (sh, b) ->
  exists b', shape s n2 = Ok (sh, b').
Proof.
  intros s nn n2 sh b (m1 & m2 & V1 & V2 & F1 & F2 & Hv1 & Hv2 & Hset & Hsk) Hsh.
  unfold shape, pre_shape in Hsh |- *. rewrite F1 in Hsh. cbn [bind] in Hsh. rewrite Hv1 in Hsh. cbn [bind] in Hsh.
  destruct (min_variant V1 None) as [p|] eqn:P; cbn [bind] in Hsh; [|discriminate].
  rewrite F2. cbn [bind]. rewrite Hv2. cbn [bind].
  destruct (min_none _ _ P) as [Pin _].
  destruct (min_none_ok V2 p (proj1 (Hset p) Pin)) as (q & Q). rewrite Q. cbn [bind].
  destruct (min_none _ _ Q) as [Qin _].
  destruct (weak_shape_total false q) as (shq & bq & Wq). unfold wshape. rewrite Wq. exists bq. f_equal. f_equal.
  symmetry. eapply (key_skel_shape p q); [exact Hsh|exact Wq| |].
  - apply Hsk; [exact Pin|exact (proj2 (Hset q) Qin)].
  - eapply min_variant_set_key; eassumption.
Qed.

(* the only remaining hypothesis is G1 (`same_orbit` for every variant of every listed node) *)
Theorem depth_one_found_g1 : forall s,
  inv3 s -> kids_ok s -> cls4 s -> hc_ok s -> pending s = [] ->
  (* G1 *)
  (forall i c t nns t' nn all n2, In i (ids s) -> get_class s i = Ok c -> sg_ge s t ->
     enodes_applied {| aid := i; am := identity (c_slots c) |} t = Ok (nns, t') -> In nn nns ->
     variants s nn = Ok all -> In n2 all -> same_orbit s nn n2) ->
  forall nd vs l s',
    NoDup vs -> List.length vs = List.length (app_occ nd) ->
    pat_below (Model.ctr s) (PNode nd (map PVarP vs)) ->
    ematch_all (PNode nd (map PVarP vs)) s = Ok (l, s') ->
    forall sb, In sb l ->
    exists a, lookup_pat s' (PNode nd (map PVarP vs)) sb = Ok (Some a) /\ In (aid a) (ids s).
Proof.
  intros s I3 K0 M4 Hhc Hpe G1. apply (depth_one_found_c2 s I3 K0 M4 Hhc Hpe).
  intros i c t nns t' nn all n2 sh b Hi Hc R Hen Hnn Hall Hn2 Hsh.
  exact (same_orbit_shape s nn n2 sh b (G1 i c t nns t' nn all n2 Hi Hc R Hen Hnn Hall Hn2) Hsh).
Qed.
Print Assumptions same_orbit_shape.
Print Assumptions depth_one_found_g1.

(* an ingredient of G1: the enumeration of a class group is closed under inverses *)
Lemma grp_inv_closed : forall c G, grp_ok c -> gall_perms false (c_group c) = Ok G ->
  forall x, In x G ->
    In (inverse_nocheck x) G /\ compose_partial (inverse_nocheck x) x = identity (c_slots c).
Proof.
  intros c G (gens & HG & Hnew) Hl x Hx.
  pose proof (identity_is_id (c_slots c)) as Hid.
  destruct (gall_perms_exact (c_slots c) (identity (c_slots c)) gens Hid HG) as (g & l & Hg & Hl' & _ & Hin & _).
  rewrite Hnew in Hg. inversion Hg; subst g. rewrite Hl in Hl'. inversion Hl'; subst l.
  apply Hin in Hx. split.
  - apply Hin. apply gen_inv. exact Hx.
  - apply (inv_l (c_slots c) _ Hid). eapply generated_po; eauto.
Qed.
Print Assumptions grp_inv_closed.

(* test of G1 along real runs *)
Definition same_orbitb (s : egraph) (nn n2 : node) : bool :=
  match find_enode s nn, find_enode s n2 with
  | Ok m1, Ok m2 =>
      match variants s m1, variants s m2 with
      | Ok V1, Ok V2 =>
          forallb (fun v => existsb (node_eqb v) V2) V1 && forallb (fun v => existsb (node_eqb v) V1) V2 &&
          forallb (fun v => forallb (fun w => node_eqb (skel v) (skel w)) V1) V1
      | _, _ => false
      end
  | _, _ => false
  end.
Definition g1_okb (s : egraph) : bool :=
  forallb (fun i =>
    match get_class s i with
    | Err _ => false
    | Ok c =>
        match enodes_applied {| aid := i; am := identity (c_slots c) |} s with
        | Err _ => false
        | Ok (nns, _) =>
            forallb (fun nn => match variants s nn with
                               | Ok all => forallb (same_orbitb s nn) all
                               | Err _ => false
                               end) nns
        end
    end) (ids s).
Example g1_checked : map g1_okb test_states = repeat true 10.
Proof. vm_compute. reflexivity. Qed.

(* ------------------------------------------------------------------ *)
(* G1: the variants of a variant enumerate the same set *)

Definition kid_grp2 (s : egraph) (a : appid) (G : list perm) : Prop :=
  kid_grp s a G /\
  exists c, (forall pp, In pp G -> perm_on (c_slots c) pp) /\
            (forall x, In x G -> In (inverse_nocheck x) G /\ compose_partial (inverse_nocheck x) x = identity (c_slots c)).

Lemma kid_grp2_intro : forall s a c G, lkid s a -> get_class s (aid a) = Ok c ->
  gall_perms false (c_group c) = Ok G -> kid_grp2 s a G.
Proof.
  intros s a c G La Hc HG. split; [eapply kid_grp_intro; eauto|].
  assert (Hg : grp_ok c).
  { destruct La as (e & c' & _ & _ & Hc' & Hg & _). rewrite Hc in Hc'. inversion Hc'; subst. exact Hg. }
  exists c. split.
  - exact (proj1 (grp_facts c G Hg HG)).
  - exact (grp_inv_closed c G Hg HG).
Qed.

Lemma orbit_back : forall s apps groups l0 l, Forall2 (kid_grp2 s) apps groups ->
  Forall2 (@In perm) l0 groups -> Forall2 (@In perm) l groups ->
  exists l', Forall2 (@In perm) l' groups /\ zip_with gvar (zip_with gvar apps l0) l' = zip_with gvar apps l.
Proof.
  intros s apps groups l0 l H. revert l0 l.
  induction H as [|a G apps' groups' ((Wf & Cl & _ & _) & c & Po & Iv) _ IH]; intros l0 l H0 H1.
  - inversion H0; subst. inversion H1; subst. exists []. split; [constructor|reflexivity].
  - inversion H0 as [|p0 ? t0 ? Hp0 Ht0]; subst. inversion H1 as [|p1 ? t1 ? Hp1 Ht1]; subst.
    destruct (IH t0 t1 Ht0 Ht1) as (l' & Hl' & E).
    destruct (Iv p0 Hp0) as [Ii Ie].
    exists (compose_partial p1 (inverse_nocheck p0) :: l'). split.
    + constructor; [apply Cl; assumption|assumption].
    + cbn [zip_with]. rewrite E. f_equal. unfold gvar. cbn [aid am]. f_equal.
      rewrite <- (compose_partial_assoc (compose_partial p1 (inverse_nocheck p0)) p0 (am a))
        by (try apply compose_partial_wf; apply Wf; assumption).
      rewrite (compose_partial_assoc p1 (inverse_nocheck p0) p0) by (apply Wf; assumption).
      rewrite Ie. rewrite (id_r (c_slots c) _ (identity_is_id (c_slots c)) p1 (Po p1 Hp1)). reflexivity.
Qed.

Theorem orbit_same_set : forall s n all n2, eg_inv s -> find_enode s n = Ok n -> variants s n = Ok all -> In n2 all ->
  find_enode s n2 = Ok n2 /\ exists V2, variants s n2 = Ok V2 /\ forall v, In v all <-> In v V2.
Proof.
  intros s n all n2 Hs F V Hn2.
  destruct (find_enode_idem s n n (ei_uf _ Hs) F) as [_ Ff].
  assert (Lk : forall a, In a (app_occ n) -> lkid s a).
  { intros a Ha. destruct (Ff a Ha) as (a0 & Fa). eapply found_lkid; eauto. }
  pose proof V as V0. unfold variants in V.
  destruct (mapr (fun a => get_class s (aid a)) (app_occ n)) as [cls|] eqn:Ec; cbn [bind] in V; [|discriminate].
  destruct (forallb (fun c => gis_trivial (c_group c)) cls) eqn:Tr.
  - inversion V; subst all. destruct Hn2 as [<-|[]]. split; [exact F|]. exists [n]. split; [exact V0|]. intros v. split; auto.
  - destruct (mapr (fun c => gall_perms false (c_group c)) cls) as [groups|] eqn:Eg; cbn [bind] in V; [|discriminate].
    inversion V; subst all; clear V. fold gvar in *.
    set (apps := app_occ n) in *.
    assert (KG2 : Forall2 (kid_grp2 s) apps groups).
    { pose proof (mapr_mapr_F2 (lkid s) _ _ _ _ _ Lk Ec Eg) as F2. revert F2. apply Forall2_imp.
      intros a G (La & c & Hc & HG). eapply kid_grp2_intro; eauto. }
    assert (KG : Forall2 (kid_grp s) apps groups).
    { revert KG2. apply Forall2_imp. intros a G [H _]. exact H. }
    apply in_map_iff in Hn2. destruct Hn2 as (l0 & Ep & Hl0). apply cart_in in Hl0.
    set (apps2 := zip_with gvar apps l0) in *.
    destruct (orbit_lkid s apps groups l0 KG Hl0) as (Lp & Ap). fold apps2 in Lp, Ap.
    assert (LenP : List.length apps2 = List.length apps).
    { rewrite <- (map_length aid apps2), Ap, map_length. reflexivity. }
    assert (Op : app_occ n2 = apps2). { subst n2. apply app_occ_set_apps. exact LenP. }
    assert (Fp : find_enode s n2 = Ok n2).
    { unfold find_enode. rewrite (mapr_id (find_applied_id s) (app_occ n2)).
      - cbn [bind]. rewrite set_apps_self. reflexivity.
      - intros a Ha. apply lkid_fixed; [apply (ei_uf _ Hs)|]. rewrite Op in Ha.
        exact (proj1 (Forall_forall _ _) Lp a Ha). }
    assert (Vp : variants s n2 = Ok (map (fun l => set_apps n2 (zip_with gvar apps2 l)) (cartesian groups))).
    { unfold variants. rewrite Op.
      rewrite (mapr_map aid (get_class s) apps2), Ap, <- (mapr_map aid (get_class s) apps). fold apps in Ec.
      rewrite Ec. cbn [bind]. rewrite Tr, Eg. cbn [bind]. reflexivity. }
    split; [exact Fp|]. eexists. split; [exact Vp|]. intros v. split.
    + intros Hv. apply in_map_iff in Hv. destruct Hv as (l & <- & Hl). apply cart_in in Hl.
      destruct (orbit_back s apps groups l0 l KG2 Hl0 Hl) as (l' & Hl' & E).
      apply in_map_iff. exists l'. split; [|apply cart_in; exact Hl'].
      fold apps2 in E. rewrite E. rewrite <- Ep. apply set_apps_twice.
      destruct (orbit_lkid s apps groups l KG Hl) as (_ & Al).
      assert (LL : List.length (zip_with gvar apps l) = List.length apps).
      { rewrite <- (map_length aid (zip_with gvar apps l)), Al, map_length. reflexivity. }
      change (List.length apps <= List.length (zip_with gvar apps l))%nat. rewrite LL. lia.
    + intros Hv. apply in_map_iff in Hv. destruct Hv as (l & <- & Hl). apply cart_in in Hl.
      destruct (orbit_step s apps groups l0 l KG Hl0 Hl) as (l' & Hl' & E).
      apply in_map_iff. exists l'. split; [|apply cart_in; exact Hl'].
      fold apps2 in E. rewrite E. rewrite <- Ep. symmetry. apply set_apps_twice.
      destruct (orbit_lkid s apps groups l' KG Hl') as (_ & Al').
      assert (LL : List.length (zip_with gvar apps l') = List.length apps).
      { rewrite <- (map_length aid (zip_with gvar apps l')), Al', map_length. reflexivity. }
      change (List.length apps <= List.length (zip_with gvar apps l'))%nat. rewrite LL. lia.
Qed.
Print Assumptions orbit_same_set.

(* `depth_one_found`, modulo: (H_fix) find_enode fixes every listed node; (H_skel) its group variants share one skeleton *)
Theorem depth_one_found_closed : forall s,
  inv3 s -> kids_ok s -> cls4 s -> hc_ok s -> pending s = [] ->
  (* H_fix *)
  (forall i c t nns t' nn, In i (ids s) -> get_class s i = Ok c -> sg_ge s t ->
     enodes_applied {| aid := i; am := identity (c_slots c) |} t = Ok (nns, t') -> In nn nns ->
     find_enode s nn = Ok nn) ->
  (* H_skel *)
  (forall i c t nns t' nn all v w, In i (ids s) -> get_class s i = Ok c -> sg_ge s t ->
     enodes_applied {| aid := i; am := identity (c_slots c) |} t = Ok (nns, t') -> In nn nns ->
     variants s nn = Ok all -> In v all -> In w all -> skel v = skel w) ->
  forall nd vs l s',
    NoDup vs -> List.length vs = List.length (app_occ nd) ->
    pat_below (Model.ctr s) (PNode nd (map PVarP vs)) ->
    ematch_all (PNode nd (map PVarP vs)) s = Ok (l, s') ->
    forall sb, In sb l ->
    exists a, lookup_pat s' (PNode nd (map PVarP vs)) sb = Ok (Some a) /\ In (aid a) (ids s).
Proof.
  intros s I3 K0 M4 Hhc Hpe Hfix Hskel. apply (depth_one_found_g1 s I3 K0 M4 Hhc Hpe).
  intros i c t nns t' nn all n2 Hi Hc R Hen Hnn Hall Hn2.
  pose proof (Hfix i c t nns t' nn Hi Hc R Hen Hnn) as F.
  assert (EI : eg_inv s) by (destruct I3 as [[EI _] _]; exact EI).
  destruct (orbit_same_set s nn all n2 EI F Hall Hn2) as (F2 & V2 & Hv2 & Hset).
  exists nn, n2, all, V2. split; [exact F|]. split; [exact F2|]. split; [exact Hall|]. split; [exact Hv2|].
  split; [exact Hset|]. intros v w Hv Hw. exact (Hskel i c t nns t' nn all v w Hi Hc R Hen Hnn Hall Hv Hw).
Qed.
Print Assumptions depth_one_found_closed.

(* test of H_fix and H_skel along real runs *)
Definition fixskel_okb (s : egraph) : bool :=
  forallb (fun i =>
    match get_class s i with
    | Err _ => false
    | Ok c =>
        match enodes_applied {| aid := i; am := identity (c_slots c) |} s with
        | Err _ => false
        | Ok (nns, _) =>
            forallb (fun nn =>
              match find_enode s nn, variants s nn with
              | Ok m, Ok all => node_eqb m nn && forallb (fun v => forallb (fun w => node_eqb (skel v) (skel w)) all) all
              | _, _ => false
              end) nns
        end
    end) (ids s).
Example fixskel_checked : map fixskel_okb test_states = repeat true 10.
Proof. vm_compute. reflexivity. Qed.

(* ------------------------------------------------------------------ *)
(* recorded evaluations *)
Definition valid_stateb (s : egraph) : bool :=
  hc_allb s && kids_okb s && m4b s && nodes_okb s && match pending s with [] => true | _ => false end.

Example states_valid : map valid_stateb test_states = [true; true; true; true; true; true; false; true; true; true].
Proof. vm_compute. reflexivity. Qed.

Example checker_results :
  map (fun s => forallb (matches_okb s) test_pats) test_states = [true; true; true; true; true; true; false; true; true; true].
Proof. vm_compute. reflexivity. Qed.

(* all instances are FOUND on all ten states, also on the invalid one *)
Example found_results :
  map (fun s => forallb (fun p => match matches_report s p with Some (n, f, _) => Nat.eqb n f | None => false end) test_pats)
      test_states = repeat true 10.
Proof. vm_compute. reflexivity. Qed.

Definition s_x7 : egraph := st_of xT7 xO7.
Example root_needs_hc_ok :
  hc_allb s_x7 = false /\ kids_okb s_x7 = true /\ m4b s_x7 = true /\ nodes_okb s_x7 = true /\ pending s_x7 = [] /\
  matches_report s_x7 (PNode (nd_bin 4) [vx; vy]) = Some (7, 7, 5)%nat /\
  matches_okb s_x7 (PNode (nd_bin 4) [vx; vy]) = false.
Proof. vm_compute. repeat split; reflexivity. Qed.

Example links_checked : forallb (forallb (fun r => fst (fst r) && snd (fst r) && snd r)) links_results = true.
Proof. vm_compute. reflexivity. Qed.
Example mono_checked : mono_results = repeat true 10.
Proof. vm_compute. reflexivity. Qed.

Print Assumptions matches_okb_sound.
Print Assumptions ematch_all_r_spec.
Print Assumptions ematch_all_prov.
Print Assumptions ematch_impl_node_inv_sg.
Print Assumptions ematch_kids_vars.
Print Assumptions lookup_pat_vars.
Print Assumptions eg_lookup_sg.
Print Assumptions depth_one_found.
Print Assumptions checker_results.
Print Assumptions root_needs_hc_ok.
Print Assumptions links_checked.
