(* EGraph/MatchMachine.v — the correspondence machines of the two matching properties.
   `run_eg5` (C05, mirror of /verif/harness/src/eg5.rs): run a history, parse the single patterns (one slot
   table threaded through them, as in RewriteMachine.v), match each with `ematch_all` and validate the model's OWN
   substitutions with the model's read-only functions; print `(obs (res ok) (p <n> <vars> <inst>) ...)`.
   `run_eg4` (C04, mirror of eg4.rs): run a history, build the rules, check the planted left-hand instance, apply
   the rules once replaying the implementation's schedule, check the right-hand instance.
   Definitions only. *)
From SE Require Import Parse.Parser.
From SE Require Export EGraph.RewriteMachine EGraph.MultiPat.

(* the pattern variables of a pattern, in occurrence order (with repetitions) *)
Fixpoint pat_vars (p : pattern) : list text :=
  match p with
  | PVarP v => [v]
  | PNode _ ch =>
      (fix go (l : list pattern) : list text :=
         match l with [] => [] | c :: t => pat_vars c ++ go t end) ch
  | PSubst b x t => pat_vars b ++ pat_vars x ++ pat_vars t
  end.

(* EGraph::lookup *)
Definition eg_lookup (s : egraph) (n : node) : res (option appid) :=
  do t <- shape s n; lookup_internal s t.

(* pattern[subst] by bottom-up lookup, never inserting (eg5.rs: inst_lookup) *)
Fixpoint lookup_pat (s : egraph) (p : pattern) (sb : subst) {struct p} : res (option appid) :=
  match p with
  | PVarP v => Ok (sub_get sb v)
  | PNode n ch =>
      if negb (Nat.eqb (List.length ch) (List.length (app_occ n))) then Ok None else
      do l <- (fix go (ch : list pattern) : res (option (list appid)) :=
                 match ch with
                 | [] => Ok (Some [])
                 | c :: t =>
                     do a <- lookup_pat s c sb;
                     match a with
                     | None => Ok None
                     | Some a => do r <- go t; Ok (match r with Some r => Some (a :: r) | None => None end)
                     end
                 end) ch;
      match l with
      | None => Ok None
      | Some l => eg_lookup s (set_apps n l)
      end
  | PSubst _ _ _ => Ok None
  end.

(* rewrite/pattern.rs: lookup_rec_expr *)
Fixpoint lookup_rec (s : egraph) (t : rterm) {struct t} : res (option appid) :=
  match t with
  | RT n ch =>
      do l <- (fix go (ch : list rterm) (k : nat) {struct ch} : res (option (list appid)) :=
                 match k with
                 | O => Ok (Some [])
                 | S k' =>
                     match ch with
                     | [] => Err OutOfBounds                           (* re.children[i] *)
                     | c :: t =>
                         do a <- lookup_rec s c;
                         match a with
                         | None => Ok None
                         | Some a => do r <- go t k'; Ok (match r with Some r => Some (a :: r) | None => None end)
                         end
                     end
                 end) ch (List.length (app_occ n));
      match l with
      | None => Ok None
      | Some l => eg_lookup s (set_apps n l)
      end
  end.

(* some live class has a redundant slot: an e-node of the class has a public slot that is not a slot of the class *)
Definition has_redundant (s : egraph) : res bool :=
  do cls <- mapr (get_class s) (ids s);
  do fl <- mapr (fun c =>
                   do ns <- mapr (fun e : node * (slotmap * N) => apply_slotmap false (fst (snd e)) (fst e)) (c_nodes c);
                   Ok (existsb (fun n => negb (sset_subset (slots n) (c_slots c))) ns)) cls;
  Ok (existsb (fun b => b) fl).

Definition is_some {A} (o : option A) : bool := match o with Some _ => true | None => false end.

(* ------------------------------------------------------------------ *)
(* eg5 *)

Fixpoint parse_pats (st : table) (l : list text) : res (list pattern * table) :=
  match l with
  | [] => Ok ([], st)
  | x :: t => do p <- parse_unwrap st x; do q <- parse_pats (snd p) t; Ok (fst p :: fst q, snd q)
  end.

Fixpoint dec_texts (l : list sexp) : option (list text) :=
  match l with
  | [] => Some []
  | e :: t => match dec_text_sexp e, dec_texts t with Some x, Some r => Some (x :: r) | _, _ => None end
  end.

(* one single pattern: the number of substitutions, (i) all pattern variables bound, (ii) every instance found *)
Definition pat_obs (p : pattern) : M sexp :=
  dom l <- ematch_all p;
  dom s <- gets (fun s => s);
  let vars := pat_vars p in
  let vars_ok := forallb (fun sb => forallb (fun v => is_some (sub_get sb v)) vars) l in
  let inst_ok := forallb (fun sb => match lookup_pat s p sb with Ok (Some _) => true | _ => false end) l in
  ret (Lst [Sym "p"; Num (N.of_nat (List.length l)); sbool vars_ok; sbool inst_ok]).

Fixpoint pats_obs (ps : list pattern) (s : egraph) : list sexp :=
  match ps with
  | [] => []
  | p :: t =>
      match pat_obs p s with
      | Ok (o, s') => o :: pats_obs t s'
      | Err e => Lst [Sym "p"; err1 e] :: pats_obs t s
      end
  end.

(* multi-patterns: (mp (eqn (t <var>) (t <node pattern>)) ...); MultiPattern::parse parses, per equation, the variable
   (no slot names) and then the right-hand side, threading the one slot table *)
Definition dec_eqn (e : sexp) : option (text * text) :=
  match e with
  | Lst [Sym "eqn"; v; r] =>
      match dec_text_sexp v, dec_text_sexp r with Some v, Some r => Some (v, r) | _, _ => None end
  | _ => None
  end.
Fixpoint dec_eqns (l : list sexp) : option (list (text * text)) :=
  match l with
  | [] => Some []
  | e :: t => match dec_eqn e, dec_eqns t with Some x, Some r => Some (x :: r) | _, _ => None end
  end.
Fixpoint dec_mpats (l : list sexp) : option (list (list (text * text))) :=
  match l with
  | [] => Some []
  | Lst (Sym "mp" :: es) :: t => match dec_eqns es, dec_mpats t with Some x, Some r => Some (x :: r) | _, _ => None end
  | _ => None
  end.

Fixpoint parse_mpat (st : table) (l : list (text * text)) : res (mpat * table) :=
  match l with
  | [] => Ok ([], st)
  | (v, r) :: t =>
      do p <- parse_unwrap st r;
      match fst p with
      | PNode nd ch =>
          match pvars_of ch with
          | Some vs => do q <- parse_mpat (snd p) t; Ok ((v, nd, vs) :: fst q, snd q)
          | None => Err UnwrapNone
          end
      | _ => Err UnwrapNone
      end
  end.
Fixpoint parse_mpats (st : table) (l : list (list (text * text))) : res (list mpat * table) :=
  match l with
  | [] => Ok ([], st)
  | x :: t => do p <- parse_mpat st x; do q <- parse_mpats (snd p) t; Ok (fst p :: fst q, snd q)
  end.

(* the variables of a multi-pattern *)
Definition mpat_vars (m : mpat) : list text :=
  flat_map (fun e : text * node * list text => let '(v, _, ch) := e in v :: ch) m.

(* one multi-pattern: count, (i) all variables bound, (ii) every equation's node instance found by lookup,
   (iii) the class bound to the equation's variable `eq` the found class.  A substitution failing (i) is not
   examined further (eg5.rs) *)
Definition mpat_obs (norm : bool) (m : mpat) : M sexp :=
  dom l <- multi_ematch norm m;
  dom s <- gets (fun s => s);
  let vars := mpat_vars m in
  let bound_all (sb : subst) := forallb (fun v => is_some (sub_get sb v)) vars in
  let per (sb : subst) (e : text * node * list text) : bool * bool :=
    let '(v, nd, ch) := e in
    match lookup_pat s (PNode nd (map PVarP ch)) sb with
    | Ok None => (false, true)
    | Ok (Some c) =>
        match sub_get sb v with
        | Some a => match eg_eq s a c with Ok true => (true, true) | _ => (true, false) end
        | None => (true, false)
        end
    | Err _ => (true, false)
    end in
  let checked := filter bound_all l in
  let flags := flat_map (fun sb => map (per sb) m) checked in
  ret (Lst [Sym "mp"; Num (N.of_nat (List.length l)); sbool (forallb bound_all l);
            sbool (forallb (@fst bool bool) flags); sbool (forallb (@snd bool bool) flags)]).

Fixpoint mpats_obs (norm : bool) (ms : list mpat) (s : egraph) : list sexp :=
  match ms with
  | [] => []
  | m :: t =>
      match mpat_obs norm m s with
      | Ok (o, s') => o :: mpats_obs norm t s'
      | Err e => Lst [Sym "mp"; err1 e] :: mpats_obs norm t s
      end
  end.

(* the state after the single patterns (only the counter moves) *)
Fixpoint pats_state (ps : list pattern) (s : egraph) : egraph :=
  match ps with
  | [] => s
  | p :: t => match pat_obs p s with Ok (_, s') => pats_state t s' | Err _ => pats_state t s end
  end.

(* norm = false: multi_ematch as pinned; norm = true: with the candidate repair (see MultiPat.v) *)
Definition run_eg5 (norm : bool) (args : list sexp) : sexp :=
  match args with
  | _ :: Lst (Sym "terms" :: ts) :: Lst (Sym "ops" :: os) :: _ :: Lst (Sym "pats" :: ps) :: Lst (Sym "mpats" :: ms) :: _ =>
      match dec_rterms ts, dec_hops os, dec_texts ps, dec_mpats ms with
      | Some rts, Some ops, Some texts, Some mraw =>
          match run_ops rts ops [] empty_egraph with
          | Err e => Lst [Sym "obs"; Lst [Sym "res"; Sym "err"; site_sexp e]]
          | Ok (hs, s) =>
              match parse_pats {| fresh_idx := Model.ctr s; named_vec := [] |} texts with
              | Err e => Lst [Sym "obs"; Lst [Sym "res"; Sym "ok"]; Lst [Sym "rules"; err1 e]]
              | Ok (pats, tbl) =>
                  match parse_mpats tbl mraw with
                  | Err e => Lst [Sym "obs"; Lst [Sym "res"; Sym "ok"]; Lst [Sym "rules"; err1 e]]
                  | Ok (mpats, tbl2) =>
                      let s := set_ctr s (fresh_idx tbl2) in
                      Lst (Sym "obs" :: Lst [Sym "res"; Sym "ok"]
                             :: pats_obs pats s ++ mpats_obs norm mpats (pats_state pats s))
                  end
              end
          end
      | _, _, _, _ => Sym "bad-case"
      end
  | _ => Sym "bad-case"
  end.

(* ------------------------------------------------------------------ *)
(* eg4 *)

Definition post_obs (tL tR : rterm) (s1 : egraph) : res sexp :=
  do l1 <- lookup_rec s1 tL;
  do r1 <- lookup_rec s1 tR;
  do e <- match l1, r1 with Some a, Some b => eg_eq s1 a b | _, _ => Ok false end;
  let n0 := total_number_of_nodes s1 in
  do p <- add_expr tR s1;
  let '(hr, s2) := p in
  let n1 := total_number_of_nodes s2 in
  do eh <- match l1 with Some a => eg_eq s2 hr a | None => Ok false end;
  Ok (Lst [Sym "post"; Lst [Sym "lhs"; sbool (is_some l1)]; Lst [Sym "rhs"; sbool (is_some r1)];
           Lst [Sym "eq"; sbool e];
           Lst [Sym "nodes"; Num (N.of_nat n0); Num (N.of_nat n1)]; Lst [Sym "eqh"; sbool eh]]).

Definition eg4_body (tbl : table) (sched : list sexp) (rules : list rule) (hs : list appid) (tL tR : rterm)
  (s : egraph) : list sexp :=
  match has_redundant s, lookup_rec s tL with
  | Err e, _ | _, Err e => [err1 e]
  | Ok red, Ok l0 =>
      let pre := Lst [Sym "pre"; Lst [Sym "red"; sbool red]; Lst [Sym "lhs"; sbool (is_some l0)]] in
      match iteration tbl (hd_error sched) rules s with
      | Err e => [pre; err1 e]
      | Ok ((counts, bad, ch), s1) =>
          match bad with
          | _ :: _ => [pre; Lst (Sym "sched-mismatch" :: bad)]
          | [] =>
              match it_obs s1 hs counts ch with
              | Err e => [pre; err1 e]
              | Ok o =>
                  match post_obs tL tR s1 with
                  | Err e => [pre; o; err1 e]
                  | Ok po => [pre; o; po]
                  end
              end
          end
      end
  end.

Definition run_eg4 (args : list sexp) : sexp :=
  match args with
  | _ :: Lst (Sym "terms" :: ts) :: Lst (Sym "ops" :: os) :: _ :: Lst (Sym "rules" :: rs) :: _
      :: Lst [Sym "plant"; tl; tr; _] :: rest =>
      match dec_rterms ts, dec_hops os, dec_rules rs, dec_rterms [tl; tr] with
      | Some rts, Some ops, Some raw, Some [tL; tR] =>
          match run_ops rts ops [] empty_egraph with
          | Err e => Lst [Sym "obs"; Lst [Sym "res"; Sym "err"; site_sexp e]]
          | Ok (hs, s) =>
              match build_rules {| fresh_idx := Model.ctr s; named_vec := [] |} raw with
              | Err e => Lst [Sym "obs"; Lst [Sym "res"; Sym "ok"]; Lst [Sym "rules"; err1 e]]
              | Ok (rules, tbl) =>
                  let s := set_ctr s (fresh_idx tbl) in
                  let sched := match rest with Lst (Sym "sched" :: l) :: _ => l | _ => [] end in
                  Lst (Sym "obs" :: Lst [Sym "res"; Sym "ok"] :: eg4_body tbl sched rules hs tL tR s)
              end
          end
      | _, _, _, _ => Sym "bad-case"
      end
  | _ => Sym "bad-case"
  end.
