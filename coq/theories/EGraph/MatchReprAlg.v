(* EGraph/MatchReprAlg.v — pure node algebra: two clean nodes (pairwise distinct binder names, none of which is
   also a public slot name) with the same weak shape are renamings of each other by the POSITIONAL slot
   correspondence, which is a bijection (`same_wshape_rho`). *)
From SE Require Import Slots.SlotMapFacts Group.GroupSound Lang.LangFacts Lang.ShapeFacts Lang.RenameFacts
  Base.TextFacts Parse.Parser EGraph.Model EGraph.ModelFacts EGraph.ModelMachine EGraph.UnionFindFacts
  EGraph.InvariantFacts EGraph.UnionInvariantFacts EGraph.AddCoversFacts EGraph.HashconsShape EGraph.Mod4Facts
  EGraph.HashconsAbs EGraph.HashconsFacts EGraph.Rewrite EGraph.RewriteFacts EGraph.MatchDefs EGraph.MatchMachine
  EGraph.ProgressFacts EGraph.MatchFacts EGraph.SoundUnion EGraph.MonotoneFacts EGraph.MatchLookup
  EGraph.MatchComplete.
Require Import ZArith Lia ZifyBool ZifyN ZifyNat.

Definition cleanp (n : node) : Prop := NoDup (binders n) /\ forall x, In x (pub_occ n) -> ~ In x (binders n).

(* ------------------------------------------------------------------ *)
(* 1. the occurrences of a renamed node, flag-aware *)

Definition gfl (g : bool -> slot -> slot) (sb : slot * bool) : slot := g (snd sb) (fst sb).

Lemma all_occ_f_ren_flags : forall g a bd,
  all_occ_f (ren_f g bd a) = map (gfl g) (occ_flags_f bd a).
Proof.
  intros g. induction a as [s|x|s b IH|p]; intros bd; cbn [ren_f all_occ_f occ_flags_f map am].
  - reflexivity.
  - unfold ren_vals, values_vec. rewrite !map_map. apply map_ext. intros [k v]. reflexivity.
  - rewrite IH. reflexivity.
  - reflexivity.
Qed.

Lemma all_occ_ren_flags : forall g n,
  all_occ (RenameFacts.ren g n) = map (gfl g) (occ_flags n).
Proof.
  intros g n. unfold all_occ, RenameFacts.ren, occ_flags. cbn [nargs].
  induction (nargs n) as [|a t IH]; cbn [map flat_map]; [reflexivity|].
  rewrite map_app, IH, all_occ_f_ren_flags. reflexivity.
Qed.

(* a non-public occurrence carries the name of a binder *)
Lemma occ_flags_f_false : forall a bd x, In (x, false) (occ_flags_f bd a) -> In x bd \/ In x (binders_f a).
Proof.
  induction a as [s|y|s b IH|p]; intros bd x H; cbn [occ_flags_f binders_f In] in *.
  - destruct H as [H|[]]. injection H as -> U. left. apply unbound_false_in. exact U.
  - apply in_map_iff in H. destruct H as (v & E & _). injection E as -> U. left. apply unbound_false_in. exact U.
  - destruct H as [H|H]; [injection H as ->; right; left; reflexivity|].
    destruct (IH _ _ H) as [[<-|Q]|Q]; [right; left; reflexivity|left; exact Q|right; right; exact Q].
  - contradiction.
Qed.

Lemma occ_flags_false_binders : forall n x, In (x, false) (occ_flags n) -> In x (binders n).
Proof.
  intros n x H. unfold occ_flags in H. apply in_flat_map in H. destruct H as (a & Ha & H).
  destruct (occ_flags_f_false _ _ _ H) as [[]|Q]. unfold binders. apply in_flat_map. exists a. split; assumption.
Qed.

Definition isb (n : node) (x : slot) : bool := existsb (N.eqb x) (binders n).

Lemma isb_true : forall n x, In x (binders n) -> isb n x = true.
Proof. intros n x H. unfold isb. apply existsb_exists. exists x. split; [exact H|apply N.eqb_refl]. Qed.

Lemma isb_false : forall n x, ~ In x (binders n) -> isb n x = false.
Proof.
  intros n x H. unfold isb. destruct (existsb (N.eqb x) (binders n)) eqn:E; [|reflexivity].
  apply existsb_exists in E. destruct E as (y & Hy & E). apply N.eqb_eq in E. subst y. contradiction.
Qed.

(* in a clean node the flag of an occurrence is determined by its name *)
Lemma clean_flag : forall n x fl, cleanp n -> In (x, fl) (occ_flags n) -> fl = negb (isb n x).
Proof.
  intros n x fl [_ C] H. destruct fl.
  - rewrite isb_false; [reflexivity|]. apply C. apply occ_flags_true_pub. exact H.
  - rewrite isb_true; [reflexivity|]. apply occ_flags_false_binders. exact H.
Qed.

Lemma all_occ_flag : forall n x, In x (all_occ n) -> exists fl, In (x, fl) (occ_flags n).
Proof.
  intros n x H. rewrite <- flags_all in H. apply in_map_iff in H. destruct H as ([y fl] & E & H).
  cbn [fst] in E. subst y. exists fl. exact H.
Qed.

(* the weak shape of a clean node is its image under a flagless map injective on its occurrences *)
Lemma clean_shape_map : forall p sh b, cleanp p -> wshape p = Ok (sh, b) ->
  exists h, inj_on h (all_occ p) /\ all_occ sh = map h (all_occ p).
Proof.
  intros p sh b C W. destruct (wshape_fwd p sh b W (proj1 C)) as (g & -> & (R1 & R2 & R3)).
  exists (fun x => g (negb (isb p x)) x). split.
  - assert (K : forall x, In x (all_occ p) ->
      (In x (pub_occ p) /\ isb p x = false) \/ (In x (binders p) /\ isb p x = true)).
    { intros x Hx. destruct (all_occ_flag p x Hx) as ([|] & F).
      - left. pose proof (occ_flags_true_pub _ _ F) as P. split; [exact P|]. apply isb_false. apply (proj2 C). exact P.
      - right. pose proof (occ_flags_false_binders _ _ F) as P. split; [exact P|]. apply isb_true. exact P. }
    intros x y Hx Hy E.
    destruct (K x Hx) as [[Px Ex]|[Px Ex]], (K y Hy) as [[Py Ey]|[Py Ey]]; rewrite Ex, Ey in E; cbn [negb] in E.
    + apply R3; assumption.
    + exfalso. exact (R2 x y Px Py E).
    + exfalso. apply (R2 y x Py Px). symmetry. exact E.
    + apply R1; assumption.
  - rewrite all_occ_ren_flags, <- flags_all, map_map. apply map_ext_in. intros [x fl] H. unfold gfl. cbn [fst snd].
    rewrite (clean_flag p x fl C H). reflexivity.
Qed.

(* ------------------------------------------------------------------ *)
(* 2. list facts *)

Lemma map_eq_combine : forall {A B C} (f : A -> C) (g : B -> C) l l', map f l = map g l' ->
  forall x y, In (x, y) (combine l l') -> f x = g y.
Proof.
  intros A B C f g. induction l as [|a t IH]; intros [|b u] E x y H; cbn [map combine In] in *; try contradiction.
  injection E as E1 E2. destruct H as [H|H]; [injection H as <- <-; exact E1|]. exact (IH u E2 x y H).
Qed.

Lemma map_eq_in : forall {A B C} (f : A -> C) (g : B -> C) l l', map f l = map g l' ->
  forall x, In x l -> exists y, In y l' /\ f x = g y.
Proof.
  intros A B C f g l l' E x Hx. assert (H : In (f x) (map g l')) by (rewrite <- E; apply in_map; exact Hx).
  apply in_map_iff in H. destruct H as (y & Ey & Hy). exists y. split; [exact Hy|symmetry; exact Ey].
Qed.

(* ------------------------------------------------------------------ *)
(* 3. the positional correspondence of two nodes with equal weak shape *)

(* from equal weak shapes, a bijective positional correspondence renames A to B (no cleanness needed) *)
Lemma same_wshape_ren : forall A B sh bA bB rho,
  wshape A = Ok (sh, bA) -> wshape B = Ok (sh, bB) ->
  insert_all_bij (combine (all_occ A) (all_occ B)) [] = Some rho ->
  RenameFacts.ren (g_of rho) A = B.
Proof.
  intros A B sh bA bB rho WA WB H.
  assert (Sk : skel B = skel A).
  { destruct (node_equiv_shape _ _ _ WA) as [S1 _]. destruct (node_equiv_shape _ _ _ WB) as [S2 _]. congruence. }
  apply skel_occ_inj; [rewrite ren_skel; symmetry; exact Sk|].
  rewrite (all_occ_ren_flagless (g_of rho true) (g_of rho) A (fun _ _ => eq_refl)).
  apply map_combine_eq; [symmetry; apply skel_occ_len; exact Sk|].
  intros x y Hxy. unfold g_of. rewrite (insert_all_bij_get _ _ _ H x y Hxy). reflexivity.
Qed.

Theorem same_wshape_rho : forall A B sh bA bB,
  wshape A = Ok (sh, bA) -> wshape B = Ok (sh, bB) -> cleanp A -> cleanp B ->
  exists rho, insert_all_bij (combine (all_occ A) (all_occ B)) [] = Some rho /\
              RenameFacts.ren (g_of rho) A = B.
Proof.
  intros A B sh bA bB WA WB CA CB.
  destruct (clean_shape_map A sh bA CA WA) as (hA & IA & EA).
  destruct (clean_shape_map B sh bB CB WB) as (hB & IB & EB).
  assert (E : map hA (all_occ A) = map hB (all_occ B)) by congruence.
  set (f := fun x => inv_on hB (all_occ B) (hA x)).
  assert (F : forall x y, In y (all_occ B) -> hA x = hB y -> f x = y).
  { intros x y Hy Exy. unfold f. rewrite Exy. apply inv_on_spec; assumption. }
  destruct (insert_all_bij_ok f (all_occ A)) with (ps := combine (all_occ A) (all_occ B)) (m := @nil (slot * slot))
    as (rho & Hrho).
  - intros x x' Hx Hx' Ef.
    destruct (map_eq_in hA hB _ _ E x Hx) as (y & Hy & Exy).
    destruct (map_eq_in hA hB _ _ E x' Hx') as (y' & Hy' & Exy').
    rewrite (F x y Hy Exy), (F x' y' Hy' Exy') in Ef. subst y'.
    apply IA; [exact Hx|exact Hx'|congruence].
  - exact I.
  - intros x y Hxy. split; [|exact (in_combine_l _ _ _ _ Hxy)].
    symmetry. apply F; [exact (in_combine_r _ _ _ _ Hxy)|]. exact (map_eq_combine hA hB _ _ E x y Hxy).
  - intros k v G. discriminate G.
  - exists rho. split; [exact Hrho|]. eapply same_wshape_ren; eassumption.
Qed.
Print Assumptions same_wshape_rho.
