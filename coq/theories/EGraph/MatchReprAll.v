(* EGraph/MatchReprAll.v — C05, THE MAIN CLAUSE FOR PATTERNS OF ARBITRARY DEPTH:
   "for every substitution returned by the e-matcher for a pattern, instantiating the pattern with it gives a term
    that is represented in the e-graph, in the class the match was reported for (equal to it)".

   `matches_are_represented_all` : match_inv s -> ss_ok s -> wf_pat p -> pat_pre (Model.ctr s) p ->
        ematch_all p s = Ok (l, s') -> forall sb, In sb l ->
        exists r a, mr_sb r = sb /\ In (mr_id r) (ids s) /\
                    lookup_pat s' p sb = Ok (Some a) /\ eg_eq s' a (mr_root r) = Ok true
   — exactly the conclusion of the verified per-run checker `matches_okb_sound` (EGraph/MatchLookup.v), now WITHOUT
   running the checker, for EVERY pattern: any depth, repeated variables, binders, slot names shared between nodes,
   and on states WITH redundant slots and symmetric classes (no restriction is needed for this direction: the
   matching limitations in the presence of redundant slots documented in MatchReprDeep.v concern COMPLETENESS, C04).
   Premises: `match_inv s` (MatchReprFacts.v; every reachable state: `match_inv_reachable`), `ss_ok s`
   (self-symmetry completeness, CongruenceFacts.v; every reachable state: `reachable_ss_ok`), `wf_pat p`
   (RewriteFacts.v = `arity_okb`, the parser's arity invariant `parse_tokens_arity`), `pat_pre (Model.ctr s) p`
   (MatchFacts.v: no slot name of the pattern is a fresh slot still to be drawn; NEEDED already for
   `ematch_all_covers`: `ematch_all_covers_needs_pat_below`).  Patterns with PSubst: `ematch_all` panics on them
   (Err) as soon as one class is live, so the statement is vacuous there; no `nosubst` premise is needed.
   `matches_are_represented_all_reachable`: the same for every state of a run, with the ONE static premise
   `Forall term_static terms` of EGraph/OpsPreFacts.v.

   Structure (files in build order):
     MatchReprAllChk.v   executable validation of the invariant (every recursive call of the matcher, 268 states incl.
                         54 valid states with redundant slots) and of the final statement (vm_compute)
     MatchReprAllDefs.v  `impl_repr` (the invariant of one call of `ematch_impl`), `variant_lookup_at` (K1)
     MatchReprAllRen.v   `lookup_ren_map` / `lookup_ren_out` (the lookup commutes with renamings, slot map included),
                         `pat_node_ren` (the pattern node over the renamed children of the candidate IS the renamed candidate)
     MatchReprAllK1.v    `variant_lookup`: a weak variant of a node listed by `enodes_applied i` looks up to an
                         invocation equal to i (general invocation i of a leader class; needs ss_ok)
     MatchReprAllInv.v   `impl_repr_all`: the invariant, by induction on the pattern (node_congruence via `lookup_kid_eq`)
     MatchReprAllTop.v   `matches_from_inv`: from the invariant to `ematch_all` (final_subst's final slot map)
     MatchReprAll.v      this file. *)
From SE Require Import Slots.SlotMapFacts Lang.LangFacts Parse.Parser EGraph.Model EGraph.ModelFacts EGraph.ModelMachine
  EGraph.Rewrite EGraph.RewriteFacts EGraph.MatchDefs EGraph.MatchMachine EGraph.MatchFacts EGraph.MatchLookup
  EGraph.CongruenceFacts EGraph.MatchReprFacts EGraph.OpsPreFacts
  EGraph.MatchReprAllDefs EGraph.MatchReprAllK1 EGraph.MatchReprAllInv EGraph.MatchReprAllTop.
Require Import ZArith Lia.

(* the invariant of `ematch_impl`, closed *)
Theorem impl_repr_proved : forall s p, match_inv s -> ss_ok s -> wf_pat p -> impl_repr s p.
Proof.
  intros s p MI SS Wp. exact (impl_repr_all s MI SS (variant_lookup s MI SS) p Wp).
Qed.

(* THE MAIN CLAUSE of C05, patterns of arbitrary depth *)
Theorem matches_are_represented_all : forall s p, match_inv s -> ss_ok s -> wf_pat p -> pat_pre (Model.ctr s) p ->
  forall l s', ematch_all p s = Ok (l, s') ->
  forall sb, In sb l ->
  exists r a, mr_sb r = sb /\ In (mr_id r) (ids s) /\
              lookup_pat s' p sb = Ok (Some a) /\ eg_eq s' a (mr_root r) = Ok true.
Proof.
  intros s p MI SS Wp Pp. exact (matches_from_inv s p MI Pp (impl_repr_proved s p MI SS Wp)).
Qed.

(* the instance is found, in a live class (the form of the depth-one theorem `matches_are_represented_inv`) *)
Corollary matches_are_represented_found : forall s p, match_inv s -> ss_ok s -> wf_pat p -> pat_pre (Model.ctr s) p ->
  forall l s', ematch_all p s = Ok (l, s') ->
  forall sb, In sb l -> exists a, lookup_pat s' p sb = Ok (Some a).
Proof.
  intros s p MI SS Wp Pp l s' E sb Hin.
  destruct (matches_are_represented_all s p MI SS Wp Pp l s' E sb Hin) as (r & a & _ & _ & L & _).
  exists a. exact L.
Qed.

(* for every state of a run *)
Theorem matches_are_represented_all_reachable : forall terms ops hs s p,
  Forall term_static terms -> run_ops terms ops [] empty_egraph = Ok (hs, s) ->
  wf_pat p -> pat_pre (Model.ctr s) p ->
  forall l s', ematch_all p s = Ok (l, s') ->
  forall sb, In sb l ->
  exists r a, mr_sb r = sb /\ In (mr_id r) (ids s) /\
              lookup_pat s' p sb = Ok (Some a) /\ eg_eq s' a (mr_root r) = Ok true.
Proof.
  intros terms ops hs s p HT Hrun Wp Pp.
  apply (matches_from_inv_reachable terms ops hs s p HT Hrun); [|exact Pp].
  intros MI SS. exact (impl_repr_proved s p MI SS Wp).
Qed.

(* the strict slot premise `pat_below` (every slot name of the pattern is older than the counter) implies `pat_pre` *)
Corollary matches_are_represented_all_reachable_below : forall terms ops hs s p,
  Forall term_static terms -> run_ops terms ops [] empty_egraph = Ok (hs, s) ->
  wf_pat p -> pat_below (Model.ctr s) p ->
  forall l s', ematch_all p s = Ok (l, s') ->
  forall sb, In sb l ->
  exists r a, mr_sb r = sb /\ In (mr_id r) (ids s) /\
              lookup_pat s' p sb = Ok (Some a) /\ eg_eq s' a (mr_root r) = Ok true.
Proof.
  intros terms ops hs s p HT Hrun Wp Pb.
  apply (matches_are_represented_all_reachable terms ops hs s p HT Hrun Wp).
  intros x Hx. left. exact (Pb x Hx).
Qed.

Print Assumptions impl_repr_proved.
Print Assumptions matches_are_represented_all.
Print Assumptions matches_are_represented_found.
Print Assumptions matches_are_represented_all_reachable.
Print Assumptions matches_are_represented_all_reachable_below.
