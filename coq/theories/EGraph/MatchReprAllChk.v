(* EGraph/MatchReprAllChk.v — C05, patterns of arbitrary depth: EXECUTABLE VALIDATION of the strengthened
   invariant of `ematch_impl` that EGraph/MatchReprAll.v proves, and of the final statement, on the test universe of
   MatchComplete.v / MatchReprDeep.v (states with redundant slots and symmetric classes included).

   INVARIANT (one call `ematch_impl q st i` in the state t, result st'): let (sb, mf) be the final substitution and the
   final slot map that `final_go_m` computes from st' (an injective extension of `partial_slotmap st'` defined on all
   values of the bound invocations), then
     (A) every value of `am i` is in the domain of mf      (for node patterns: named by the pattern or bound below),
     (B) lookup_pat t q sb = Ok (Some a)  and  eg_eq t a {| aid := i; am := am i ** mf |} = Ok true.
   `ematch_calls` re-runs the matcher and records EVERY recursive call (q, st, i) it makes (with non-identity
   invocations i and non-empty states st); `inv_call_okb` checks (A) and (B) for one call.  Definitions + Examples. *)
From SE Require Import Slots.SlotMapFacts Group.GroupSound Lang.LangFacts Lang.ShapeFacts Lang.RenameFacts
  Base.TextFacts Parse.Parser EGraph.Model EGraph.ModelFacts EGraph.ModelMachine EGraph.UnionFindFacts
  EGraph.InvariantFacts EGraph.UnionInvariantFacts EGraph.AddCoversFacts EGraph.HashconsShape EGraph.Mod4Facts
  EGraph.HashconsAbs EGraph.HashconsFacts EGraph.Rewrite EGraph.RewriteFacts EGraph.MatchDefs EGraph.MatchMachine
  EGraph.ProgressFacts EGraph.MatchFacts EGraph.SoundUnion EGraph.MonotoneFacts EGraph.MatchLookup EGraph.MatchComplete
  EGraph.MatchReprDeep EGraph.CongruenceFacts.
Require Import ZArith Lia ZifyBool ZifyN ZifyNat.

(* the matcher, also returning the list of all recursive calls *)
Definition call := (pattern * estate * appid)%type.

Fixpoint ematch_calls (p : pattern) (st : estate) (i : appid) {struct p} : M (list estate * list call) :=
  match p with
  | PVarP v =>
      dom r <- ematch_impl p st i; ret (r, [(p, st, i)])
  | PNode n children =>
      dom nns <- enodes_applied i;
      dom r <- flat_mapM (fun nn =>
        if negb (Nat.eqb (nvar n) (nvar nn)) then ret [] else
        dom vs <- reads (fun s => weak_variants s nn);
        flat_mapM (fun n2 =>
          let clear_n2 := nullify n2 in
          dom n_sh <- lift (wshape n);
          dom c_sh <- lift (wshape clear_n2);
          if negb (node_eqb (fst n_sh) (fst c_sh)) then ret [] else
          match insert_all_bij (combine (all_occ clear_n2) (all_occ n)) (partial_slotmap st) with
          | None => ret []
          | Some m' =>
              (fix kids (ch : list pattern) (subs : list appid) (acc : list estate) (cs : list call) {struct ch}
                 : M (list (list estate * list call)) :=
                 match ch, subs with
                 | sp :: ch', sid :: subs' =>
                     dom next <- flat_mapM (fun a => dom r <- ematch_calls sp a sid; ret [r]) acc;
                     kids ch' subs' (flat_map fst next) (cs ++ flat_map snd next)
                 | _, _ => ret [(acc, cs)]
                 end) children (app_occ n2) [ {| partial_subst := partial_subst st; partial_slotmap := m' |} ] []
          end) vs) nns;
      ret (flat_map fst r, (p, st, i) :: flat_map snd r)
  | PSubst _ _ _ => fail ExplicitPanic
  end.

(* the invariant for one call, in the state t *)
Definition inv_st_okb (t : egraph) (q : pattern) (i : appid) (st' : estate) : bool :=
  match final_go_m (partial_subst st') (partial_slotmap st') t with
  | Ok ((sb, mf), _) =>
      forallb (fun x => contains_key mf x) (values (am i)) &&
      match lookup_pat t q sb with
      | Ok (Some a) =>
          match eg_eq t a {| aid := aid i; am := compose_partial (am i) mf |} with Ok true => true | _ => false end
      | _ => false
      end
  | Err _ => false
  end.

Definition inv_call_okb (t : egraph) (c : call) : bool :=
  let '(q, st, i) := c in
  match ematch_impl q st i t with
  | Ok (l, t') => forallb (inv_st_okb t' q i) l
  | Err _ => false
  end.

(* all calls of the matches of p from all live classes of s: (number of calls, number of calls with a result,
   all calls satisfy the invariant, the recorded run returns what ematch_impl returns) *)
Definition state_calls (s : egraph) (p : pattern) : option (list call * bool * N) :=
  (fix go (l : list N) (t : egraph) : option (list call * bool * N) :=
     match l with
     | [] => Some ([], true, Model.ctr t)
     | i :: tl =>
         match class_slots s i with
         | Ok sl =>
             let i0 := {| aid := i; am := identity sl |} in
             match ematch_calls p estate0 i0 t, ematch_impl p estate0 i0 t with
             | Ok ((r, cs), t'), Ok (r', _) =>
                 match go tl t' with
                 | Some (cs', b, c) => Some (cs ++ cs', b && Nat.eqb (List.length r) (List.length r'), c)
                 | None => None
                 end
             | _, _ => None
             end
         | Err _ => None
         end
     end) (ids s) s.

Definition has_result (t : egraph) (c : call) : bool :=
  let '(q, st, i) := c in
  match ematch_impl q st i t with Ok (_ :: _, _) => true | _ => false end.

Definition nonroot (c : call) : bool :=
  let '(q, st, i) := c in
  negb (Nat.eqb (List.length (partial_subst st) + List.length (partial_slotmap st)) 0).

Definition inv_report (s : egraph) (p : pattern) : option (N * N * N * bool) :=
  match state_calls s p with
  | Some (cs, b, c) =>
      (* every call is re-run from the same graph with the counter at the end of the whole run: all slot names that
         occur in the recorded states are older *)
      let s := set_ctr s c in
      Some (N.of_nat (List.length cs), N.of_nat (List.length (filter (has_result s) cs)),
            N.of_nat (List.length (filter nonroot (filter (has_result s) cs))),
            b && forallb (inv_call_okb s) cs)
  | None => None
  end.

Definition inv_okb (s : egraph) (p : pattern) : bool :=
  match inv_report s p with Some (_, _, _, b) => b | None => false end.

Definition add4 (acc : N * N * N * bool) (o : option (N * N * N * bool)) : N * N * N * bool :=
  let '(a', b', c', d') := acc in
  match o with
  | Some (a, b, c, d) => (a + a', b + b', c + c', d && d')
  | None => (a', b', c', false)
  end.
Definition sum3 (l : list (option (N * N * N * bool))) : N * N * N * bool := fold_left add4 l (0, 0, 0, true).

Definition fam_inv (ps : list pattern) (hs : list (list rterm * list hop)) : N * N * N * bool :=
  fold_left (fun acc h => let s := st_of (fst h) (snd h) in
                          if negb (valid_stateb s) then acc else
                          fold_left (fun acc p => if pat_belowb (Model.ctr s) p then add4 acc (inv_report s p) else acc) ps acc)
            hs (0, 0, 0, true).

(* the final statement (checker of MatchLookup.v) on a family *)
Definition fam_matches (ps : list pattern) (hs : list (list rterm * list hop)) : bool :=
  forallb (fun h => let s := st_of (fst h) (snd h) in
                    negb (valid_stateb s) ||
                    forallb (matches_okb s) (filter (pat_belowb (Model.ctr s)) ps)) hs.

(* ------------------------------------------------------------------ *)
(* the 21 patterns of MatchLookup.v on the 14 states of MatchComplete.v *)
Definition c_valid : list egraph := filter valid_stateb c_states.

Example inv_test_pats_c_states :
  map (fun s => forallb (inv_okb s) test_pats) c_valid = repeat true (List.length c_valid).
Proof. vm_compute. reflexivity. Qed.

Example matches_test_pats_c_states :
  map (fun s => forallb (matches_okb s) test_pats) c_valid = repeat true (List.length c_valid).
Proof. vm_compute. reflexivity. Qed.

Example inv_counts_c_states :
  map (fun s => sum3 (map (inv_report s) test_pats)) c_valid =
  [(119, 40, 9, true); (128, 25, 5, true); (58, 20, 6, true); (164, 21, 6, true); (118, 52, 18, true);
   (187, 44, 8, true); (119, 40, 9, true); (168, 25, 9, true); (294, 57, 9, true); (80, 17, 2, true);
   (96, 13, 2, true); (160, 54, 18, true); (128, 25, 5, true)].
Proof. vm_compute. reflexivity. Qed.
Example c_valid_redundant :
  map has_redundant c_valid =
  [Ok false; Ok true; Ok true; Ok true; Ok false; Ok true; Ok false; Ok false; Ok true; Ok true; Ok true; Ok false; Ok true].
Proof. vm_compute. reflexivity. Qed.

(* ------------------------------------------------------------------ *)
(* the nested pattern families of MatchReprDeep.v on ALL valid prefixes of the 18 histories; `red_prefixes`: states
   with a class that has a redundant slot; the histories dT1..dT2 have symmetric classes.
   (calls, calls with a result, calls with a result from a non-initial state, all satisfy (A) and (B)) *)
Example valid_prefix_counts :
  (List.length (filter (fun h => valid_stateb (st_of (fst h) (snd h))) nonred_prefixes),
   List.length (filter (fun h => valid_stateb (st_of (fst h) (snd h))) red_prefixes),
   forallb (fun h => negb (valid_stateb (st_of (fst h) (snd h))) || ss_okb (st_of (fst h) (snd h))) all_prefixes)
  = (208%nat, 54%nat, true).
Proof. vm_compute. reflexivity. Qed.
Example inv_lin_nonred : fam_inv lin_pats nonred_prefixes = (184199, 34400, 13258, true).
Proof. vm_compute. reflexivity. Qed.
Example inv_lin_red : fam_inv lin_pats red_prefixes = (64981, 8180, 2761, true).
Proof. vm_compute. reflexivity. Qed.
Example inv_rep_nonred : fam_inv rep_pats nonred_prefixes = (63277, 12698, 4948, true).
Proof. vm_compute. reflexivity. Qed.
Example inv_rep_red : fam_inv rep_pats red_prefixes = (20739, 3302, 1503, true).
Proof. vm_compute. reflexivity. Qed.
Example inv_rep1_all : fam_inv rep1_pats all_prefixes = (13619, 3258, 721, true).
Proof. vm_compute. reflexivity. Qed.

(* the final statement (the verified checker `matches_okb` of MatchLookup.v) on the same families *)
Example matches_families :
  fam_matches lin_pats all_prefixes = true /\ fam_matches rep_pats all_prefixes = true /\
  fam_matches rep1_pats all_prefixes = true.
Proof. vm_compute. repeat split; reflexivity. Qed.

(* COUNTEREXAMPLE for the formulation without `hc_ok` (a premise of `match_inv`): on the final state of xT7/xO7 (a
   user-supplied child invocation that does not cover its class; hc_allb = false, everything else valid, ss_okb = true)
   the invariant AND the final statement fail for the patterns 2 `(4 ?x ?y)` and 8 `(4 (2 $2 $6) ?y)` of `test_pats`
   (the instance is found in another class than the one matched: `root_needs_hc_ok` of MatchLookup.v) *)
Example inv_needs_hc_ok :
  valid_stateb s_x7 = false /\ ss_okb s_x7 = true /\
  map (inv_okb s_x7) test_pats =
    [true; true; false; true; true; true; true; true; false; true; true; true; true; true; true; true; true; true; true; true; true] /\
  map (matches_okb s_x7) test_pats =
    [true; true; false; true; true; true; true; true; false; true; true; true; true; true; true; true; true; true; true; true; true].
Proof. vm_compute. repeat split; reflexivity. Qed.

Print Assumptions inv_lin_nonred.
Print Assumptions inv_lin_red.
Print Assumptions inv_rep_nonred.
Print Assumptions inv_rep_red.
Print Assumptions inv_rep1_all.
Print Assumptions matches_families.
Print Assumptions inv_needs_hc_ok.
