(* EGraph/MatchReprAllDefs.v — C05 for patterns of ARBITRARY depth: the definitions shared by
   MatchReprAllK1.v (a weak variant of a listed node looks up to the invocation it was listed for),
   MatchReprAllInv.v (the invariant of `ematch_impl`, by induction on the pattern) and
   MatchReprAllTop.v (from the invariant to `ematch_all`).  Definitions only (+ trivial facts). *)
From SE Require Import Slots.SlotMapFacts Lang.LangFacts Lang.ShapeFacts Lang.RenameFacts
  Base.TextFacts Parse.Parser EGraph.Model EGraph.ModelFacts EGraph.ModelMachine EGraph.UnionFindFacts
  EGraph.InvariantFacts EGraph.HashconsShape EGraph.ShapeCong
  EGraph.Rewrite EGraph.RewriteFacts EGraph.MatchDefs EGraph.MatchMachine
  EGraph.MatchFacts EGraph.MatchLookup.
Require Import ZArith Lia.

(* an invocation the matcher is called with, seen from the state s0 the match started in (t: the current state,
   same graph, larger counter): an invocation of a LEADER class (`lkid`, HashconsShape.v), keys = the slots of its
   class, sorted, bijective (`canon_ok`; together `ckid`, ShapeCong.v); all values older than the counter *)
Definition inv_i (s0 t : egraph) (i : appid) : Prop :=
  ckid s0 i /\ forall v, In v (values_vec (am i)) -> v < Model.ctr t.

(* the bound invocations of a matcher state *)
Definition ist_ok (s0 t : egraph) (st : estate) : Prop :=
  forall v a, In (v, a) (partial_subst st) -> inv_i s0 t a.

(* x is named by the slot map of st or is a value of an invocation bound in st *)
Definition dom_ok (st : estate) (x : slot) : Prop :=
  get (partial_slotmap st) x <> None \/ exists v a, In (v, a) (partial_subst st) /\ In x (values_vec (am a)).

(* a FINAL slot map for st: injective, extends the partial slot map, defined on all values of the bound invocations
   (what `final_subst` builds: `final_go_spec` of MatchLookup.v) *)
Definition mf_ok (st : estate) (mf : slotmap) : Prop :=
  injective mf /\ (forall k v, get (partial_slotmap st) k = Some v -> get mf k = Some v) /\
  (forall v a x, In (v, a) (partial_subst st) -> In x (values_vec (am a)) -> get mf x <> None).

(* the substitution seen through a final slot map *)
Definition sub_out (mf : slotmap) (sb : subst) : subst := map (fun va : text * appid => (fst va, out_of mf (snd va))) sb.

(* st' extends st *)
Definition st_ext (st st' : estate) : Prop :=
  (forall v a, sub_get (partial_subst st) v = Some a -> sub_get (partial_subst st') v = Some a) /\
  (forall k v, get (partial_slotmap st) k = Some v -> get (partial_slotmap st') k = Some v).

(* THE INVARIANT of one call `ematch_impl p st i` in a state t of the graph s0 *)
Definition impl_repr (s0 : egraph) (p : pattern) : Prop :=
  forall st i t l t', sg_ge s0 t -> ist_ok s0 t st -> inv_i s0 t i ->
  ematch_impl p st i t = Ok (l, t') ->
  forall st', In st' l ->
    ist_ok s0 t' st' /\
    (forall x, In x (values_vec (am i)) -> dom_ok st' x) /\
    forall mf, mf_ok st' mf ->
      exists a, lookup_pat s0 p (sub_out mf (partial_subst st')) = Ok (Some a) /\
                eg_eq s0 a (out_of mf i) = Ok true.

(* K1: a weak variant n2 of a node nn that `enodes_applied i` lists (in a state t of the graph s) *)
Definition variant_lookup_at (s : egraph) : Prop :=
  forall i t nns t' nn vs n2, sg_ge s t -> inv_i s t i ->
    enodes_applied i t = Ok (nns, t') -> In nn nns -> weak_variants s nn = Ok vs -> In n2 vs ->
    clean n2 /\ NoDup (binders n2) /\
    (forall a, In a (app_occ n2) -> inv_i s t' a) /\
    (forall x, In x (values_vec (am i)) -> In x (pub_occ n2)) /\
    exists b0, eg_lookup s n2 = Ok (Some b0) /\ eg_eq s b0 i = Ok true /\
               wf (am b0) /\ (forall x, In x (values_vec (am b0)) -> In x (values_vec (am i))).

Lemma sub_get_sub_out : forall mf sb v, sub_get (sub_out mf sb) v = option_map (out_of mf) (sub_get sb v).
Proof.
  intros mf. induction sb as [|[k a] t IH]; intros v; cbn [sub_out map sub_get fst snd]; [reflexivity|].
  destruct (text_eqb k v); [reflexivity|]. apply IH.
Qed.

Lemma st_ext_refl : forall st, st_ext st st.
Proof. intros st. split; auto. Qed.

Lemma st_ext_trans : forall a b c, st_ext a b -> st_ext b c -> st_ext a c.
Proof. intros a b c [A1 A2] [B1 B2]. split; auto. Qed.

Lemma inv_i_mono : forall s0 t t' i, Model.ctr t <= Model.ctr t' -> inv_i s0 t i -> inv_i s0 t' i.
Proof. intros s0 t t' i L [C V]. split; [exact C|]. intros v Hv. pose proof (V v Hv). lia. Qed.

Lemma ist_ok_mono : forall s0 t t' st, Model.ctr t <= Model.ctr t' -> ist_ok s0 t st -> ist_ok s0 t' st.
Proof. intros s0 t t' st L H v a Hin. eapply inv_i_mono; [exact L|eauto]. Qed.
