(* EGraph/MatchReprAllInv.v — C05 for patterns of ARBITRARY depth: the invariant `impl_repr` (MatchReprAllDefs.v) of
   `ematch_impl p st i`, by induction on the pattern.

   `impl_repr_all : match_inv s0 -> ss_ok s0 -> variant_lookup_at s0 -> forall p, wf_pat p -> impl_repr s0 p`
   (`variant_lookup_at s0` is proved in MatchReprAllK1.v from match_inv s0 and ss_ok s0).

   Variable case: the variable is bound to the invocation itself, or to an `eg_eq` one (both are invocations of leader
   classes, so equal invocations have the same value set; `eg_eq_rename` transports the equality through the final map).
   Node case: the candidate n2 (a weak variant of a listed node of class i) looks up to an invocation b0 equal to i
   (K1); by `pat_node_ren` the pattern node over the renamed children of n2 IS `ren (g_of mf) n2`, whose lookup is
   `out_of mf b0` (`lookup_ren_out`); the children the sub-patterns look up are pairwise `eg_eq` to the renamed children
   of n2 (induction hypothesis), so by `lookup_kid_eq` (RepFacts.v: shape_kid_eq + node_congruence, needs ss_ok) the
   instantiated pattern node is found by an invocation equal to `out_of mf b0`, hence to `out_of mf i`. *)
From SE Require Import Slots.SlotMapFacts Group.GroupSound Lang.LangFacts Lang.ShapeFacts Lang.RenameFacts
  Base.TextFacts Parse.Parser EGraph.Model EGraph.ModelFacts EGraph.ModelMachine EGraph.UnionFindFacts
  EGraph.InvariantFacts EGraph.UnionInvariantFacts EGraph.AddCoversFacts EGraph.HashconsShape EGraph.Mod4Facts
  EGraph.HashconsAbs EGraph.HashconsFacts EGraph.Rewrite EGraph.RewriteFacts EGraph.MatchDefs EGraph.MatchMachine
  EGraph.ProgressFacts EGraph.MatchFacts EGraph.SoundUnion EGraph.MonotoneFacts EGraph.MatchLookup
  EGraph.NodeCong EGraph.KidEqFacts EGraph.ShapeCong EGraph.CongruenceFacts EGraph.MatchComplete
  EGraph.MatchReprFix EGraph.MatchReprAlg EGraph.StoredLive EGraph.KidsFacts EGraph.PendingFacts EGraph.MatchReprFacts
  EGraph.RepFacts EGraph.MatchReprAllDefs EGraph.MatchReprAllRen.
Require Import ZArith Lia ZifyBool ZifyN ZifyNat.

Local Notation "a ** b" := (compose_partial a b) (at level 40, left associativity).

(* ------------------------------------------------------------------ *)
(* 1. extension of matcher states *)

Definition sext (a b : estate) : Prop :=
  (forall v x, sub_get (partial_subst a) v = Some x -> sub_get (partial_subst b) v = Some x) /\
  (forall v x, In (v, x) (partial_subst a) -> In (v, x) (partial_subst b)) /\
  (forall k v, get (partial_slotmap a) k = Some v -> get (partial_slotmap b) k = Some v).

Lemma sext_refl : forall a, sext a a.
Proof. intros a. split; [auto|split; auto]. Qed.

Lemma sext_trans : forall a b c, sext a b -> sext b c -> sext a c.
Proof. intros a b c (A1 & A2 & A3) (B1 & B2 & B3). split; [auto|split; auto]. Qed.

Lemma insert_all_bij_mono : forall ps m m', insert_all_bij ps m = Some m' ->
  forall k v, get m k = Some v -> get m' k = Some v.
Proof.
  induction ps as [|[x y] t IH]; intros m m' H k v G; cbn [insert_all_bij] in H.
  - inversion H; subst. exact G.
  - destruct (try_insert_bij x y m) as [m1|] eqn:E; [|discriminate].
    apply (IH _ _ H). apply try_insert_bij_eq in E. destruct E as (-> & _ & Old).
    rewrite get_insert_any. destruct (k =? x) eqn:Ek; [|exact G].
    apply N.eqb_eq in Ek. subst k. destruct Old as [Old|Old]; congruence.
Qed.

Lemma ematch_impl_sext : forall p st i s l s', ematch_impl p st i s = Ok (l, s') ->
  forall st', In st' l -> sext st st'.
Proof.
  intros p st i s l s' H st' Hin.
  refine (ematch_impl_rel sext sext_refl sext_trans _ _ p st i s l s' H st' Hin).
  - intros a v j Hn. split; [|split]; cbn [partial_subst partial_slotmap].
    + intros w x G. rewrite sub_get_app, G. reflexivity.
    + intros w x Hw. apply in_or_app. left. exact Hw.
    + auto.
  - intros a ps m' Hi. split; [|split]; cbn [partial_subst partial_slotmap]; [auto|auto|].
    exact (insert_all_bij_mono _ _ _ Hi).
Qed.

Lemma dom_ok_sext : forall a b x, sext a b -> dom_ok a x -> dom_ok b x.
Proof.
  intros a b x (_ & E2 & E3) [D|(v & j & Hin & Hx)].
  - left. destruct (get (partial_slotmap a) x) as [y|] eqn:G; [|congruence]. rewrite (E3 _ _ G). discriminate.
  - right. exists v, j. split; [apply E2; exact Hin|exact Hx].
Qed.

Lemma mf_ok_sext : forall a b mf, sext a b -> mf_ok b mf -> mf_ok a mf.
Proof.
  intros a b mf (_ & E2 & E3) (Inj & Ext & Def). split; [exact Inj|]. split.
  - intros k v G. apply Ext, E3, G.
  - intros v j x Hin Hx. exact (Def v j x (E2 _ _ Hin) Hx).
Qed.

Lemma dom_mf : forall st mf x, mf_ok st mf -> dom_ok st x -> get mf x <> None.
Proof.
  intros st mf x (_ & Ext & Def) [D|(v & j & Hin & Hx)].
  - destruct (get (partial_slotmap st) x) as [y|] eqn:G; [|congruence]. rewrite (Ext _ _ G). discriminate.
  - exact (Def v j x Hin Hx).
Qed.

(* ------------------------------------------------------------------ *)
(* 2. the lookup of a pattern instance only grows with the substitution *)

Definition sub_le (a b : subst) : Prop := forall v x, sub_get a v = Some x -> sub_get b v = Some x.

Lemma lookup_kids_mono : forall s a b ch, sub_le a b ->
  Forall (fun p => forall x, lookup_pat s p a = Ok (Some x) -> lookup_pat s p b = Ok (Some x)) ch ->
  forall l, lookup_kids s a ch = Ok (Some l) -> lookup_kids s b ch = Ok (Some l).
Proof.
  intros s a b ch L. induction ch as [|c t IH]; intros F l H; cbn [lookup_kids] in *; [exact H|].
  inversion F as [|? ? Fc Ft]; subst.
  destruct (lookup_pat s c a) as [[x|]|e] eqn:E; cbn [bind] in H; try discriminate.
  rewrite (Fc x eq_refl). cbn [bind].
  destruct (lookup_kids s a t) as [[r|]|e] eqn:Er; cbn [bind] in H; try discriminate.
  rewrite (IH Ft r eq_refl). cbn [bind]. exact H.
Qed.

Lemma lookup_pat_mono : forall s a b, sub_le a b ->
  forall p x, lookup_pat s p a = Ok (Some x) -> lookup_pat s p b = Ok (Some x).
Proof.
  intros s a b L. induction p as [v|n ch IH|q y t _ _ _] using pattern_ind2; intros x H.
  - cbn [lookup_pat] in *. assert (G : sub_get a v = Some x) by congruence. rewrite (L v x G). reflexivity.
  - rewrite lookup_pat_node in *. destruct (negb _); [discriminate|].
    destruct (lookup_kids s a ch) as [[l|]|e] eqn:E; cbn [bind] in H; try discriminate.
    rewrite (lookup_kids_mono s a b ch L IH l E). cbn [bind]. exact H.
  - cbn [lookup_pat] in H. discriminate.
Qed.

Lemma sub_le_out : forall mf a b, sub_le a b -> sub_le (sub_out mf a) (sub_out mf b).
Proof.
  intros mf a b L v x G. rewrite sub_get_sub_out in *.
  destruct (sub_get a v) as [j|] eqn:E; cbn [option_map] in G; [|discriminate].
  rewrite (L v j E). exact G.
Qed.

Lemma lookup_kids_F2 : forall s sb ch l,
  Forall2 (fun p a => lookup_pat s p sb = Ok (Some a)) ch l -> lookup_kids s sb ch = Ok (Some l).
Proof.
  intros s sb ch l F. induction F as [|p a ch' l' Hp _ IH]; cbn [lookup_kids]; [reflexivity|].
  rewrite Hp. cbn [bind]. rewrite IH. reflexivity.
Qed.

Lemma sub_get_in : forall (sb : subst) v x, sub_get sb v = Some x -> In (v, x) sb.
Proof.
  induction sb as [|[k a] t IH]; intros v x G; cbn [sub_get] in G; [discriminate|].
  destruct (text_eqb k v) eqn:E.
  - apply text_eqb_eq in E. subst k. inversion G; subst. left. reflexivity.
  - right. exact (IH _ _ G).
Qed.

(* ------------------------------------------------------------------ *)
(* 3. invocations seen through a final map *)

Lemma get_out_of : forall mf a k, wf (am a) ->
  get (am (out_of mf a)) k = match get (am a) k with Some y => get mf y | None => None end.
Proof. intros mf a k W. unfold out_of. cbn [am]. rewrite get_compose_partial by exact W. reflexivity. Qed.

Lemma in_values_vec_get : forall m x, wf m -> In x (values_vec m) -> exists k, get m k = Some x.
Proof.
  intros m x W Hx. unfold values_vec in Hx. apply in_map_iff in Hx. destruct Hx as ([k x'] & <- & Hk).
  exists k. apply in_get; assumption.
Qed.

Lemma covers_out_of : forall s mf a, covers s a -> wf (am a) -> injective mf ->
  (forall x, In x (values_vec (am a)) -> get mf x <> None) ->
  covers s (out_of mf a) /\ wf (am (out_of mf a)).
Proof.
  intros s mf a (c & Hc & Inj & Sub) W Im Def. split; [|unfold out_of; cbn [am]; apply compose_partial_wf].
  exists c. split; [exact Hc|]. split.
  - intros k1 k2 v G1 G2. rewrite (get_out_of mf a k1 W) in G1. rewrite (get_out_of mf a k2 W) in G2.
    destruct (get (am a) k1) as [y1|] eqn:E1; [|discriminate]. destruct (get (am a) k2) as [y2|] eqn:E2; [|discriminate].
    assert (y1 = y2) by (eapply Im; eauto). subst y2. eapply Inj; eauto.
  - intros k Hk. rewrite (get_out_of mf a _ W). specialize (Sub k Hk).
    destruct (get (am a) k) as [y|] eqn:E; [|congruence]. apply Def. eapply get_values_vec; eauto.
Qed.

(* ------------------------------------------------------------------ *)
(* 4. the induction *)

Section Inv.
  Variable s0 : egraph.
  Hypothesis MI : match_inv s0.
  Hypothesis SS : ss_ok s0.
  Hypothesis H_K1 : variant_lookup_at s0.

  Let EI : eg_inv s0.
  Proof. destruct MI as [[[E _] _] _ _ _ _ _]. exact E. Qed.
  Let NK : nodes_ok s0.
  Proof. destruct MI as [[_ N] _ _ _ _ _]. exact N. Qed.
  Let GD : RepFacts.good s0.
  Proof. destruct MI as [I3 _ M Hh Pe _]. split; [|exact SS]. split; [exact I3|]. split; [exact Pe|]. split; [exact Hh|exact M]. Qed.

  Lemma ckid_cov : forall a, ckid s0 a -> covers s0 a /\ wf (am a) /\ find_applied_id s0 a = Ok a.
  Proof.
    intros a [La Ca]. split; [exact (canon_covers _ _ Ca)|]. split; [exact (proj1 (canon_parts _ _ Ca))|].
    exact (lkid_fixed s0 a (ei_uf _ EI) La).
  Qed.

  (* equal invocations of leader classes have the same values *)
  Lemma eg_eq_vals : forall a b, ckid s0 a -> ckid s0 b -> eg_eq s0 a b = Ok true ->
    forall x, In x (values_vec (am a)) -> In x (values_vec (am b)).
  Proof.
    intros a b Ka Kb E x Hx.
    destruct (ckid_cov a Ka) as (_ & Wa & Fa). destruct (ckid_cov b Kb) as (_ & Wb & Fb).
    destruct (eg_eq_true_inv _ _ _ E) as (a' & b' & c & Fa' & Fb' & _ & V & _).
    rewrite Fa in Fa'. rewrite Fb in Fb'. inversion Fa'; subst a'. inversion Fb'; subst b'.
    destruct (in_values_vec_get _ _ Wa Hx) as (k & G).
    assert (Hv : In x (values (am a))) by (apply (values_spec _ _ Wa); exists k; exact G).
    rewrite V in Hv. apply (values_spec _ _ Wb) in Hv. destruct Hv as (k' & G'). eapply get_values_vec; eauto.
  Qed.

  Lemma out_ok : forall t st mf v j, ist_ok s0 t st -> mf_ok st mf -> In (v, j) (partial_subst st) ->
    covers s0 (out_of mf j) /\ wf (am (out_of mf j)).
  Proof.
    intros t st mf v j Hst (Inj & _ & Def) Hin. destruct (Hst v j Hin) as [Kj _].
    destruct (ckid_cov j Kj) as (Cj & Wj & _).
    apply covers_out_of; [exact Cj|exact Wj|exact Inj|]. intros x Hx. exact (Def v j x Hin Hx).
  Qed.

  (* what a pattern instance looks up to covers its class *)
  Lemma lookup_pat_covers : forall t st mf p a, ist_ok s0 t st -> mf_ok st mf ->
    lookup_pat s0 p (sub_out mf (partial_subst st)) = Ok (Some a) -> covers s0 a.
  Proof.
    intros t st mf p a Hst Hmf H. destruct p as [n ch|v|q y z].
    - rewrite lookup_pat_node in H. destruct (negb _); [discriminate|].
      destruct (lookup_kids _ _ _) as [[l|]|e]; cbn [bind] in H; try discriminate.
      exact (eg_lookup_covers s0 _ a NK H).
    - cbn [lookup_pat] in H. assert (G : sub_get (sub_out mf (partial_subst st)) v = Some a) by congruence. rewrite sub_get_sub_out in G.
      destruct (sub_get (partial_subst st) v) as [j|] eqn:E; cbn [option_map] in G; [|discriminate].
      inversion G; subst a. exact (proj1 (out_ok t st mf v j Hst Hmf (sub_get_in _ _ _ E))).
    - cbn [lookup_pat] in H. discriminate.
  Qed.

  Lemma kid_eq_F2 : forall mf st' sd subs lk ch, ist_ok s0 sd st' -> mf_ok st' mf ->
    (forall a, In a subs -> ckid s0 a) ->
    (forall a x, In a subs -> In x (values_vec (am a)) -> get mf x <> None) ->
    Forall2 (fun p a => lookup_pat s0 p (sub_out mf (partial_subst st')) = Ok (Some a)) ch lk ->
    Forall2 (fun a sid => eg_eq s0 a (out_of mf sid) = Ok true) lk subs ->
    Forall2 (kid_eq s0) (map (out_of mf) subs) lk.
  Proof.
    intros mf st' sd subs lk ch I1 Hmf Kid DefK G1 G2. pose proof Hmf as (Inj & _ & _).
    revert ch G1 Kid DefK. induction G2 as [|a sid lk' subs' Ha _ IHF]; intros ch G1 Kid DefK; cbn [map]; [constructor|].
    inversion G1 as [|p0 a0 ch0 l0 Hp0 G1']; subst.
    destruct (ckid_cov sid (Kid sid (or_introl eq_refl))) as (Cs & Ws & _).
    destruct (covers_out_of s0 mf sid Cs Ws Inj (fun x Hx => DefK sid x (or_introl eq_refl) Hx)) as (Co & _).
    pose proof (lookup_pat_covers sd st' mf p0 a I1 Hmf Hp0) as Ca.
    constructor.
    - split; [exact Co|]. split; [exact Ca|]. exact (eg_eq_sym_true s0 _ _ EI Ca Co Ha).
    - apply (IHF ch0 G1'); [intros b Hb; apply Kid; right; exact Hb|intros b x Hb Hx; exact (DefK b x (or_intror Hb) Hx)].
  Qed.

  Definition kid_res (ch : list pattern) (subs : list appid) (st' : estate) : Prop :=
    (forall sid x, In sid subs -> In x (values_vec (am sid)) -> dom_ok st' x) /\
    forall mf, mf_ok st' mf -> exists l,
      Forall2 (fun p a => lookup_pat s0 p (sub_out mf (partial_subst st')) = Ok (Some a)) ch l /\
      Forall2 (fun a sid => eg_eq s0 a (out_of mf sid) = Ok true) l subs.

  Lemma sg_ge_R2 : forall t t', sg_ge s0 t -> R2 t t' -> sg_ge s0 t'.
  Proof.
    intros t t' [G L] [G' L']. unfold cle in L'. split; [eapply same_graph_trans; eauto|lia].
  Qed.

  Lemma kids_loop : forall ch, Forall (fun p => wf_pat p -> impl_repr s0 p) ch -> Forall wf_pat ch ->
    forall subs acc t l t', List.length ch = List.length subs -> sg_ge s0 t ->
      Forall (inv_i s0 t) subs -> (forall a, In a acc -> ist_ok s0 t a) ->
      ematch_kids ch subs acc t = Ok (l, t') -> forall st', In st' l ->
      exists a0, In a0 acc /\ sext a0 st' /\ ist_ok s0 t' st' /\ kid_res ch subs st'.
  Proof.
    induction ch as [|sp ch' IH]; intros Hok Hwf subs acc t l t' Len R Hs Hacc H st' Hin.
    - destruct subs; [|discriminate]. cbn [ematch_kids] in H. apply ret_inv in H. destruct H as [-> ->].
      exists st'. split; [exact Hin|]. split; [apply sext_refl|]. split; [exact (Hacc _ Hin)|]. split.
      + intros sid x [].
      + intros mf _. exists []. split; constructor.
    - destruct subs as [|sid subs']; [discriminate|]. cbn [List.length] in Len.
      cbn [ematch_kids] in H. apply mbind_inv in H. destruct H as (next & s1 & Hn & H).
      pose proof (Forall_inv Hok) as Hsp. pose proof (Forall_inv_tail Hok) as Hok'.
      pose proof (Forall_inv Hwf) as Wsp. pose proof (Forall_inv_tail Hwf) as Hwf'.
      pose proof (Forall_inv Hs) as Csid. pose proof (Forall_inv_tail Hs) as Hs'.
      pose proof (r2_flat_mapM _ _ (fun a => ematch_impl sp a sid) acc (fun a => r2_ematch_impl sp a sid) _ _ _ Hn) as R01.
      assert (Hnext : forall a', In a' next -> exists a0, In a0 acc /\ sext a0 a' /\ ist_ok s0 s1 a' /\
                (forall x, In x (values_vec (am sid)) -> dom_ok a' x) /\
                forall mf, mf_ok a' mf -> exists a, lookup_pat s0 sp (sub_out mf (partial_subst a')) = Ok (Some a) /\
                                                   eg_eq s0 a (out_of mf sid) = Ok true).
      { intros a' Ha'.
        destruct (flat_mapM_inv2 _ _ _ _ _ _ _ (fun a => r2_ematch_impl sp a sid) Hn a' Ha')
          as (a0 & sa & ra & sb & Ha0 & Ra & Hm & Hra & Rb).
        assert (La : Model.ctr t <= Model.ctr sa) by exact (proj2 Ra).
        destruct (Hsp Wsp a0 sid sa ra sb (sg_ge_R2 _ _ R Ra) (ist_ok_mono _ _ _ _ La (Hacc _ Ha0))
                    (inv_i_mono _ _ _ _ La Csid) Hm a' Hra) as (I1 & I2 & I3).
        exists a0. split; [exact Ha0|]. split; [exact (ematch_impl_sext _ _ _ _ _ _ Hm a' Hra)|].
        split; [exact (ist_ok_mono _ _ _ _ (proj2 Rb) I1)|]. split; [exact I2|exact I3]. }
      assert (L01 : Model.ctr t <= Model.ctr s1) by exact (proj2 R01).
      destruct (IH Hok' Hwf' subs' next s1 l t' ltac:(lia) (sg_ge_R2 _ _ R R01)) with (st' := st')
        as (a1 & Ha1 & E1 & I1 & (D1 & F1)); [| |exact H|exact Hin|].
      { revert Hs'. apply Forall_impl. intros a. apply inv_i_mono. exact L01. }
      { intros a' Ha'. destruct (Hnext a' Ha') as (_ & _ & _ & Q & _). exact Q. }
      destruct (Hnext a1 Ha1) as (a0 & Ha0 & E0 & _ & D0 & F0).
      exists a0. split; [exact Ha0|]. split; [exact (sext_trans _ _ _ E0 E1)|]. split; [exact I1|]. split.
      + intros k x [<-|Hk] Hx; [exact (dom_ok_sext _ _ _ E1 (D0 x Hx))|exact (D1 k x Hk Hx)].
      + intros mf Hmf. destruct (F1 mf Hmf) as (l' & G1 & G2).
        destruct (F0 mf (mf_ok_sext _ _ _ E1 Hmf)) as (a & La & Ea).
        exists (a :: l'). split; constructor; try assumption.
        apply (lookup_pat_mono s0 (sub_out mf (partial_subst a1))); [|exact La].
        apply sub_le_out. exact (proj1 E1).
  Qed.

  Theorem impl_repr_all : forall p, wf_pat p -> impl_repr s0 p.
  Proof.
    induction p as [v|n ch IH|q y z _ _ _] using pattern_ind2; intros Wp st i t l t' R Hst Hi H st' Hin.
    - (* a pattern variable *)
      destruct Hi as [Ki Vi]. destruct (ckid_cov i Ki) as (Ci & Wi & _).
      cbn [ematch_impl] in H. destruct (sub_get (partial_subst st) v) as [j|] eqn:G.
      + apply mbind_inv in H. destruct H as (e & s1 & He & H). apply reads_inv in He. destruct He as [He ->].
        apply ret_inv in H. destruct H as [-> ->]. destruct e; [|contradiction]. destruct Hin as [<-|[]].
        rewrite (eg_eq_sg s0 t _ _ (proj1 R)) in He.
        pose proof (sub_get_in _ _ _ G) as Hj. destruct (Hst v j Hj) as [Kj Vj].
        destruct (ckid_cov j Kj) as (Cj & Wj & _).
        split; [exact Hst|]. split.
        * intros x Hx. right. exists v, j. split; [exact Hj|exact (eg_eq_vals i j Ki Kj He x Hx)].
        * intros mf Hmf. exists (out_of mf j). split.
          { cbn [lookup_pat]. rewrite sub_get_sub_out, G. reflexivity. }
          destruct Hmf as (Inj & _ & Def).
          apply (eg_eq_rename s0 j i mf EI Cj Ci Wj Wi Inj).
          { intros k x Gk. exact (Def v j x Hj (get_values_vec _ _ _ Gk)). }
          exact (eg_eq_sym_true s0 i j EI Ci Cj He).
      + apply ret_inv in H. destruct H as [-> ->]. destruct Hin as [<-|[]]. cbn [partial_subst partial_slotmap].
        split; [|split].
        * intros w a Hw. cbn [partial_subst] in Hw. apply in_app_or in Hw. destruct Hw as [Hw|[Hw|[]]]; [exact (Hst w a Hw)|].
          inversion Hw; subst. split; assumption.
        * intros x Hx. right. exists v, i. split; [cbn [partial_subst]; apply in_or_app; right; left; reflexivity|exact Hx].
        * intros mf (Inj & _ & Def). cbn [partial_subst] in Def. exists (out_of mf i). split.
          { cbn [lookup_pat partial_subst]. rewrite sub_get_sub_out, sub_get_app, G. cbn [sub_get]. rewrite text_eqb_refl. reflexivity. }
          apply eg_eq_refl_inv; [exact (ei_uf _ EI)|exact (ei_slots _ EI)|].
          apply covers_out_of; [exact Ci|exact Wi|exact Inj|].
          intros x Hx. apply (Def v i x); [apply in_or_app; right; left; reflexivity|exact Hx].
    - (* a node *)
      apply wf_pat_node in Wp. destruct Wp as [Wl Wc].
      rewrite ematch_impl_node' in H. apply mbind_inv in H. destruct H as (nns & s1 & He & H).
      assert (R01 : R2 t s1) by (split; [exact (sg_enodes_applied i _ _ _ He)|exact (c_enodes_applied i _ _ _ He)]).
      destruct (flat_mapM_inv2 _ _ _ _ _ _ _ (r2_node_body n ch st) H st' Hin) as (nn & sa & ra & sb & Hnn & Ra & Hb & Hra & Rb).
      clear H. unfold node_body in Hb. destruct (negb (Nat.eqb (nvar n) (nvar nn))).
      { apply ret_inv in Hb. destruct Hb as [-> _]. contradiction. }
      apply mbind_inv in Hb. destruct Hb as (vs & sa' & Hv & Hb). apply reads_inv in Hv. destruct Hv as [Hv ->].
      assert (RA : sg_ge s0 sa) by exact (sg_ge_R2 _ _ (sg_ge_R2 _ _ R R01) Ra).
      rewrite (weak_variants_sg s0 sa nn (proj1 RA)) in Hv.
      destruct (flat_mapM_inv2 _ _ _ _ _ _ _ (r2_var_body n ch st) Hb st' Hra) as (n2 & sc & rc & sd & Hn2 & Rc & Hc & Hrc & Rd).
      clear Hb.
      assert (RC : sg_ge s0 sc) by exact (sg_ge_R2 _ _ RA Rc).
      unfold var_body in Hc.
      apply mbind_inv in Hc. destruct Hc as (n_sh & s2 & Hw1 & Hc). apply lift_inv in Hw1. destruct Hw1 as [Hw1 ->].
      apply mbind_inv in Hc. destruct Hc as (c_sh & s3 & Hw2 & Hc). apply lift_inv in Hw2. destruct Hw2 as [Hw2 ->].
      destruct (node_eqb (fst n_sh) (fst c_sh)) eqn:Eq; cbn [negb] in Hc.
      2:{ apply ret_inv in Hc. destruct Hc as [-> _]. contradiction. }
      destruct (insert_all_bij (combine (all_occ (nullify n2)) (all_occ n)) (partial_slotmap st)) as [m'|] eqn:Ei.
      2:{ apply ret_inv in Hc. destruct Hc as [-> _]. contradiction. }
      (* K1 *)
      destruct (H_K1 i t nns s1 nn vs n2 R Hi He Hnn Hv Hn2) as (Cl2 & ND2 & Kid2 & Occ2 & b0 & L0 & E0 & W0 & V0).
      pose proof (matched_app_len _ _ _ _ Hw1 Hw2 Eq) as Ln2.
      assert (Lc1 : Model.ctr s1 <= Model.ctr sc).
      { destruct Ra as [_ Ra], Rc as [_ Rc]. unfold cle in *. lia. }
      assert (Lt : Model.ctr t <= Model.ctr sc).
      { destruct R01 as [_ R01']. unfold cle in *. lia. }
      set (stm := {| partial_subst := partial_subst st; partial_slotmap := m' |}) in *.
      destruct (kids_loop ch IH Wc (app_occ n2) [stm] sc rc sd ltac:(lia) RC) with (st' := st')
        as (a0 & Ha0 & E1 & I1 & (D1 & F1)); [| |exact Hc|exact Hrc|].
      { apply Forall_forall. intros a Ha. exact (inv_i_mono _ _ _ _ Lc1 (Kid2 a Ha)). }
      { intros a [<-|[]]. intros w a Hw. exact (inv_i_mono _ _ _ _ Lt (Hst w a Hw)). }
      destruct Ha0 as [<-|[]].
      assert (Ld : Model.ctr sd <= Model.ctr t').
      { destruct Rd as [_ Rd], Rb as [_ Rb]. unfold cle in *. lia. }
      split; [exact (ist_ok_mono _ _ _ _ Ld I1)|].
      assert (Sk : List.length (all_occ (nullify n2)) = List.length (all_occ n)).
      { destruct n_sh as [sh1 b1], c_sh as [sh2 b2]. cbn [fst] in Eq. apply node_eqb_iff in Eq. subst sh2.
        apply skel_occ_len. destruct (node_equiv_shape _ _ _ Hw1) as [S1 _]. destruct (node_equiv_shape _ _ _ Hw2) as [S2 _].
        congruence. }
      assert (Dall : forall x, In x (all_occ n2) -> dom_ok st' x).
      { intros x Hx. destruct (all_occ_split n2 x Hx) as [Lx|(k & Hk & Hkx)].
        - destruct (in_combine_l_ex _ (all_occ n) x Sk Lx) as (y & Hy).
          pose proof (insert_all_bij_get _ _ _ Ei x y Hy) as Gm.
          left. rewrite (proj2 (proj2 E1) x y Gm). discriminate.
        - exact (D1 k x Hk Hkx). }
      split.
      { intros x Hx. apply Dall. apply pub_occ_all_occ. exact (Occ2 x Hx). }
      intros mf Hmf. destruct (F1 mf Hmf) as (lk & G1 & G2).
      pose proof Hmf as (Inj & Ext & Def).
      destruct Hi as [Ki Vi]. destruct (ckid_cov i Ki) as (Ci & Wi & _).
      assert (ExtM : forall k v, get m' k = Some v -> get mf k = Some v).
      { intros k v Gk. apply Ext. exact (proj2 (proj2 E1) k v Gk). }
      assert (DefK : forall a x, In a (app_occ n2) -> In x (values_vec (am a)) -> get mf x <> None).
      { intros a x Ha Hx. exact (dom_mf st' mf x Hmf (D1 a x Ha Hx)). }
      destruct (pat_node_ren n n2 n_sh c_sh (partial_slotmap st) m' mf Cl2 Hw1 Hw2 Eq Ei Inj ExtM DefK) as (Rg & Eset & _).
      assert (Dv0 : forall x, In x (values_vec (am b0)) -> get mf x <> None).
      { intros x Hx. apply (dom_mf st' mf x Hmf). apply Dall. apply pub_occ_all_occ. exact (Occ2 x (V0 x Hx)). }
      destruct (lookup_ren_out s0 mf n2 b0 Rg Dv0 L0) as (b1 & L1 & ->).
      pose proof (eg_lookup_covers s0 n2 b0 NK L0) as Cb0.
      assert (Er : eg_eq s0 (out_of mf b0) (out_of mf i) = Ok true).
      { apply (eg_eq_rename s0 b0 i mf EI Cb0 Ci W0 Wi Inj); [|exact E0].
        intros k x Gk. apply Dv0. eapply get_values_vec; eauto. }
      set (l2 := map (out_of mf) (app_occ n2)) in *.
      assert (Ll2 : List.length l2 = List.length (app_occ n)) by (unfold l2; rewrite map_length; exact Ln2).
      assert (Llk : List.length lk = List.length (app_occ n2)) by (symmetry; exact (Forall2_length' _ _ _ G2)).
      assert (O2 : app_occ (RenameFacts.ren (g_of mf) n2) = l2).
      { rewrite <- Eset. apply app_occ_set_apps. exact Ll2. }
      assert (KE : Forall2 (kid_eq s0) (app_occ (RenameFacts.ren (g_of mf) n2)) lk).
      { rewrite O2. unfold l2.
        apply (kid_eq_F2 mf st' sd (app_occ n2) lk ch I1 Hmf); [|exact DefK|exact G1|exact G2].
        intros a Ha. exact (proj1 (Kid2 a Ha)). }
      destruct (RepFacts.lookup_kid_eq s0 (RenameFacts.ren (g_of mf) n2) lk (out_of mf b0) GD
                  (ren_ok_nodup _ _ Rg ND2) KE L1) as (x' & L2 & E2).
      rewrite <- Eset in L2. rewrite set_apps_twice in L2 by lia.
      exists x'. split.
      + rewrite lookup_pat_node. rewrite Wl, Nat.eqb_refl. cbn [negb].
        rewrite (lookup_kids_F2 s0 _ ch lk G1). cbn [bind]. exact L2.
      + pose proof (eg_lookup_covers s0 _ x' NK L2) as Cx.
        destruct (covers_out_of s0 mf b0 Cb0 W0 Inj Dv0) as (Cob & _).
        destruct (covers_out_of s0 mf i Ci Wi Inj) as (Coi & _).
        { intros x Hx. apply (dom_mf st' mf x Hmf). apply Dall. apply pub_occ_all_occ. exact (Occ2 x Hx). }
        apply (eg_eq_trans_true s0 x' (out_of mf b0) (out_of mf i) EI Cx Cob Coi); [|exact Er].
        exact (eg_eq_sym_true s0 _ _ EI Cob Cx E2).
    - cbn [ematch_impl] in H. discriminate.
  Qed.
End Inv.

Print Assumptions impl_repr_all.
