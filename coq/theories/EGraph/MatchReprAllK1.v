(* EGraph/MatchReprAllK1.v — K1 of C05 for patterns of arbitrary depth (`variant_lookup_at`, MatchReprAllDefs.v):
   a weak variant n2 of a node nn that `enodes_applied i` lists for an ARBITRARY canonical invocation i of a leader class
   is clean, has distinct binders, canonical children older than the counter, mentions every value of `am i` as a public
   slot, and the read-only lookup of n2 finds an invocation b0 of the class of i with eg_eq s b0 i, sorted, whose values are
   values of `am i`.

   Route.  `ea_entry_gen` = `ea_entry_full` of MatchReprFix.v for an arbitrary invocation i (`MatchFacts.cb`): the listed
   node x2 of the entry (sh, (bij, src)) has wshape x2 = Ok (sh, b2) with b2 k = (am i)(bij k) on the class slots and every
   value of `am i` on a class slot occurs publicly in x2.  `listed_gen` collects the facts on a listed node (children ckid,
   shape = the stored shape).  Main theorem: nn heads its variants (`variants_head`), the variants of n2 are the same set
   (`orbit_same_set`), so shape s n2 = Ok (sh, b2) with b2 the bijection of a variant p2 of nn (`same_orbit_shape`); the
   lookup hits class aid i (hc_ok); `ss_at_var` (from ss_ok) compares the invocations computed from p2 and from nn, and
   the one computed from nn IS `am i` (`ext_eq`).  Values: both invocations are fixed by find (leader class). *)
From SE Require Import Slots.SlotMapFacts Group.GroupSound Lang.LangFacts Lang.ShapeFacts Lang.RenameFacts
  Base.TextFacts Parse.Parser EGraph.Model EGraph.ModelFacts EGraph.ModelMachine EGraph.UnionFindFacts
  EGraph.InvariantFacts EGraph.UnionInvariantFacts EGraph.AddCoversFacts EGraph.HashconsShape EGraph.Mod4Facts
  EGraph.HashconsAbs EGraph.HashconsFacts EGraph.Rewrite EGraph.RewriteFacts EGraph.MatchDefs EGraph.MatchMachine
  EGraph.ProgressFacts EGraph.MatchFacts EGraph.SoundUnion EGraph.MonotoneFacts EGraph.MatchLookup
  EGraph.NodeCong EGraph.KidEqFacts EGraph.ShapeCong EGraph.CongruenceFacts EGraph.MatchComplete
  EGraph.MatchReprFix EGraph.MatchReprAlg EGraph.StoredLive EGraph.KidsFacts EGraph.PendingFacts EGraph.SoundAddExpr
  EGraph.MatchReprFacts EGraph.MatchReprAllDefs.
Require Import ZArith Lia ZifyBool ZifyN ZifyNat.

Local Notation "a ** b" := (compose_partial a b) (at level 40, left associativity).

(* ------------------------------------------------------------------ *)
(* 1. one entry of `enodes_applied`, for an arbitrary invocation *)

Section ListedGen.
  Variable s0 : egraph.
  Hypothesis I3 : inv3 s0.
  Hypothesis K0 : kids_ok s0.
  Hypothesis M4 : cls4 s0.
  Hypothesis Hhc : hc_ok s0.
  Hypothesis Hpe : pending s0 = [].

  Lemma ea_entry_gen : forall i c sh bij src s x2 s', Rel s0 s -> get_class s0 (aid i) = Ok c ->
    In (sh, (bij, src)) (c_nodes c) -> MatchFacts.cb s0 s i ->
    ea_entry i c (sh, (bij, src)) s = Ok (x2, s') ->
    clean x2 /\ NoDup (binders x2) /\ exists b2, wshape x2 = Ok (sh, b2) /\
      (forall x y, In x (c_slots c) -> get (am i) x = Some y -> In y (pub_occ x2)) /\
      (forall k x y, In x (c_slots c) -> get bij k = Some x -> get (am i) x = Some y -> get b2 k = Some y).
  Proof.
    intros i c sh bij src s x2 s' R Hc Hin Cbi H.
    destruct (ea_entry_shape s0 I3 K0 M4 Hhc Hpe i c (sh, (bij, src)) s x2 s' R Hc Hin Cbi H) as (Cl & _).
    split; [exact Cl|]. destruct Cbi as [[Ci Wi] Vi].
    unfold ea_entry in H.
    destruct (class_facts s0 I3 M4 _ _ Hc) as [S1c Below].
    apply mbind_inv in H. destruct H as (x0 & s1 & H1 & H). apply lift_inv in H1. destruct H1 as [H1 ->].
    apply mbind_inv in H. destruct H as (x1 & s2 & H2 & H).
    apply mbind_inv in H. destruct H as (m & s3 & H3 & H). cbv zeta in H. apply lift_inv in H. destruct H as [H4 <-].
    pose proof (rn_trav (c_slots c) x0 (Model.ctr s)) as (RI & RG & RD).
    unfold with_ctr in H2. destruct (trav (rnF (c_slots c)) x0 ([], Model.ctr s)) as [x1' [rho c1]] eqn:T.
    inversion H2; subst x1' s2; clear H2. cbn [fst snd] in RI, RG, RD.
    destruct RI as (L1 & RV & RInj). cbn [fst snd] in L1, RV, RInj.
    assert (RI : rnInv (Model.ctr s) (rho, c1)) by (split; [exact L1|split; [exact RV|exact RInj]]).
    assert (Below' : forall z, In z (c_slots c) -> z < Model.ctr s) by (intros z Hz; pose proof (Below z Hz); destruct R as [_ R]; lia).
    destruct (fo_spec (am i) c1 _ _ _ _ _ H3) as (SG3 & L3 & (Wm & Im & Vm)).
    { cbn [Model.ctr set_ctr]. lia. }
    { split; [exact I|]. split; [intros k1 k2 v G; discriminate G|intros k v G; discriminate G]. }
    cbn [Model.ctr set_ctr] in L3.
    set (MM := from_iter_onto m (am i)) in *.
    assert (GM : forall k, get MM k = match get (am i) k with Some v => Some v | None => get m k end).
    { intros k. exact (get_union m (am i) k Wm Wi). }
    assert (VM : forall k v, get MM k = Some v -> v < Model.ctr s \/ (c1 <= v /\ v < Model.ctr s')).
    { intros k v G. rewrite GM in G. destruct (get (am i) k) as [u|] eqn:Gi.
      - inversion G; subst u. left. apply Vi. eapply get_values_vec; eauto.
      - right. exact (Vm k v G). }
    assert (IM : injective MM).
    { intros k1 k2 v G1 G2. rewrite GM in G1, G2. destruct Ci as (ci & _ & Ii & _).
      destruct (get (am i) k1) as [u1|] eqn:E1, (get (am i) k2) as [u2|] eqn:E2.
      - inversion G1; inversion G2; subst. eapply Ii; eauto.
      - inversion G1; subst u1. pose proof (Vi v (get_values_vec _ _ _ E1)). pose proof (Vm k2 v G2). lia.
      - inversion G2; subst u2. pose proof (Vi v (get_values_vec _ _ _ E2)). pose proof (Vm k1 v G1). lia.
      - eapply Im; eauto. }
    pose proof (apply_slotmap_total _ _ _ H4) as TotM.
    pose proof (apply_slotmap_total _ _ _ H1) as Tot0.
    destruct I3 as [_ NO].
    assert (Bx0 : binders x0 = binders sh) by (rewrite (apply_slotmap_ren _ _ _ H1); apply binders_asm).
    destruct (K0 (aid i) c _ Hc Hin) as [Sh4 _]. cbn [fst] in Sh4.
    pose proof (in_stored s0 Hhc _ _ _ _ Hc Hin) as St.
    destruct (NO (aid i) c _ Hc Hin) as (Wb & Inj & Kb & Sb). cbn [fst snd] in Wb, Inj, Kb, Sb.
    pose proof (cls4_bij4 _ M4) as B4.
    (* sh is its own weak shape *)
    destruct (tb_ws s0 (proj1 Hhc) _ _ _ St) as (n9 & b9 & W9).
    destruct (shape_idempotent _ _ _ W9) as (b0 & W0). change (wshape sh = Ok (sh, b0)) in W0.
    destruct (shape_bij _ _ _ W0) as (_ & _ & Mb0).
    pose proof (map_some_self (fun k => get b0 k) (pub_occ sh) Mb0) as Gb0. cbv beta in Gb0.
    (* stage 0 *)
    assert (R0 : ren_ok (asm_g bij) sh).
    { split; [|split].
      - intros x y _ _ E. exact E.
      - intros x b Hx Hb E. unfold asm_g in E. destruct (get bij x) as [y|] eqn:G; [|apply (Tot0 x Hx); exact G].
        pose proof (B4 (aid i) c sh bij src x y Hc Hin G) as Y1. pose proof (Sh4 b (binders_all_occ _ _ Hb)) as Y0. subst y. lia.
      - intros x y Hx Hy E. unfold asm_g in E.
        destruct (get bij x) as [u|] eqn:Gx; [|exfalso; apply (Tot0 x Hx); exact Gx].
        destruct (get bij y) as [v|] eqn:Gy; [|exfalso; apply (Tot0 y Hy); exact Gy]. subst v. eapply Inj; eauto. }
    pose proof (apply_slotmap_ren _ _ _ H1) as Ex0.
    assert (Px0 : forall x, In x (pub_occ x0) -> x mod 4 = 1).
    { intros x Hx. rewrite Ex0 in Hx.
      destruct (pub_occ_ren_sub (asm_g bij) sh x (fun _ => eq_refl) Hx) as (x' & Hx' & ->).
      unfold asm_g. destruct (get bij x') as [y|] eqn:G; [|exfalso; exact (Tot0 x' Hx' G)].
      exact (B4 (aid i) c sh bij src x' y Hc Hin G). }
    assert (Bx0' : forall b, In b (binders x0) -> b mod 4 = 0).
    { intros b Hb. rewrite Bx0 in Hb. exact (Sh4 b (binders_all_occ _ _ Hb)). }
    (* stage 1 *)
    assert (R1 : ren_ok (rnG (c_slots c) (rho, c1)) x0).
    { split; [|split].
      - intros x y Hx Hy E. eapply (rnG_inj (c_slots c) (Model.ctr s)); [exact RI|exact Below'| | |exact E];
          apply RD; apply binders_all_occ; assumption.
      - intros x b Hx Hb E. assert (x = b).
        { eapply (rnG_inj (c_slots c) (Model.ctr s)); [exact RI|exact Below'| | |exact E];
            apply RD; [apply pub_occ_all_occ|apply binders_all_occ]; assumption. }
        subst b. pose proof (Px0 x Hx). pose proof (Bx0' x Hb). lia.
      - intros x y Hx Hy E. eapply (rnG_inj (c_slots c) (Model.ctr s)); [exact RI|exact Below'| | |exact E];
          apply RD; apply pub_occ_all_occ; assumption. }
    assert (Bx1 : forall b, In b (binders x1) -> Model.ctr s <= b /\ b < c1).
    { intros b Hb. rewrite RG, ren_binders in Hb. apply in_map_iff in Hb. destruct Hb as (bb & <- & Hbb).
      rewrite Bx0 in Hbb. pose proof (Sh4 bb (binders_all_occ _ _ Hbb)) as Z0.
      assert (Hbb' : In bb (all_occ x0)) by (apply binders_all_occ; rewrite Bx0; exact Hbb).
      unfold rnG. cbn [fst].
      destruct (sset_mem bb (c_slots c)) eqn:Em.
      { apply sset_mem_in in Em. pose proof (S1c bb Em) as Z1. unfold ok1 in Z1. lia. }
      destruct (RD bb Hbb') as [D|D]; [congruence|]. cbn [fst] in D.
      destruct (get rho bb) as [v|] eqn:G; [|congruence]. exact (RV bb v G). }
    (* stage 2 *)
    assert (R2 : ren_ok (asm_g MM) x1).
    { split; [|split].
      - intros x y _ _ E. exact E.
      - intros x b Hx Hb E. unfold asm_g in E. destruct (get MM x) as [u|] eqn:G; [|apply (TotM x Hx); exact G].
        subst u. pose proof (Bx1 b Hb). destruct (VM x b G); lia.
      - intros x y Hx Hy E. unfold asm_g in E.
        destruct (get MM x) as [u|] eqn:Gx; [|exfalso; apply (TotM x Hx); exact Gx].
        destruct (get MM y) as [v|] eqn:Gy; [|exfalso; apply (TotM y Hy); exact Gy]. subst v. eapply IM; eauto. }
    pose proof (apply_slotmap_ren _ _ _ H4) as Ex2.
    (* the weak shapes and bijections of the three stages *)
    destruct (ren_ok_ws _ _ _ _ R0 W0) as (b1 & W1 & Gb1). rewrite <- Ex0 in W1.
    destruct (ren_ok_ws _ _ _ _ R1 W1) as (b2 & W2 & Gb2). rewrite <- RG in W2.
    destruct (ren_ok_ws _ _ _ _ R2 W2) as (b3 & W3 & Gb3). rewrite <- Ex2 in W3.
    (* what happens to a class slot x = bij k that the invocation maps to y *)
    assert (Step : forall k x y, In x (c_slots c) -> get bij k = Some x -> get (am i) x = Some y ->
              In k (pub_occ sh) /\ asm_g bij true k = x /\ rnG (c_slots c) (rho, c1) true x = x /\ asm_g MM true x = y).
    { intros k x y Hx G Gy. split; [apply Kb; congruence|]. split; [unfold asm_g; rewrite G; reflexivity|]. split.
      - unfold rnG. rewrite (proj2 (sset_mem_in _ _) Hx). reflexivity.
      - unfold asm_g. rewrite GM, Gy. reflexivity. }
    split.
    { rewrite Ex2. apply ren_ok_nodup; [exact R2|]. rewrite RG. apply ren_ok_nodup; [exact R1|].
      rewrite Ex0. apply ren_ok_nodup; [exact R0|]. exact (ws_binders_nodup _ _ _ W9). }
    exists b3. split; [exact W3|]. split.
    - intros x y Hx Gy. destruct (Sb x Hx) as (k & G). destruct (Step k x y Hx G Gy) as (Hk & E1 & E2 & E3).
      rewrite Ex2, <- E3. apply ren_ok_pub; [exact R2|]. rewrite RG, <- E2. apply ren_ok_pub; [exact R1|].
      rewrite Ex0, <- E1. apply ren_ok_pub; [exact R0|]. exact Hk.
    - intros k x y Hx G Gy. destruct (Step k x y Hx G Gy) as (Hk & E1 & E2 & E3).
      rewrite Gb3, Gb2, Gb1, (Gb0 k Hk). cbn [option_map]. rewrite E1, E2, E3. reflexivity.
  Qed.

  (* a listed node comes from one entry, run in a state of the same graph in which i is still below the counter *)
  Lemma mapM_entries_locate : forall i c l s nns s', Rel s0 s -> get_class s0 (aid i) = Ok c -> incl l (c_nodes c) ->
    MatchFacts.cb s0 s i -> mapM (ea_entry i c) l s = Ok (nns, s') ->
    forall nn, In nn nns ->
    exists e s1 s2, In e l /\ Rel s0 s1 /\ MatchFacts.cb s0 s1 i /\ ea_entry i c e s1 = Ok (nn, s2).
  Proof.
    intros i c. induction l as [|e t IH]; intros s nns s' R Hc Hl Ci H; cbn [mapM] in H.
    - inversion H; subst. intros nn [].
    - apply mbind_inv in H. destruct H as (y & s1 & H1 & H). apply mbind_inv in H. destruct H as (r & s2 & H2 & H).
      inversion H; subst nns s2; clear H.
      destruct (ea_entry_kids s0 I3 K0 M4 i c e s y s1 R Hc (Hl e (or_introl eq_refl)) Ci H1) as (G1 & L1 & _).
      intros nn [He|Hin].
      + subst y. exists e, s, s1. split; [left; reflexivity|]. split; [exact R|]. split; [exact Ci|exact H1].
      + destruct (IH s1 r s' (Rel_step s0 _ _ R G1 L1) Hc (fun x Hx => Hl x (or_intror Hx)) (cb_mono s0 _ _ _ L1 Ci) H2 nn Hin)
          as (e' & sa & sb & He' & Ra & Ca & Ee).
        exists e', sa, sb. split; [right; exact He'|]. split; [exact Ra|]. split; [exact Ca|exact Ee].
  Qed.

  (* all facts on a node listed for an arbitrary invocation *)
  Lemma listed_gen : forall i c t nns t' nn, Rel s0 t -> get_class s0 (aid i) = Ok c -> MatchFacts.cb s0 t i ->
    enodes_applied i t = Ok (nns, t') -> In nn nns ->
    Rel s0 t' /\ Forall (MatchFacts.cb s0 t') (app_occ nn) /\ (forall a, In a (app_occ nn) -> ckid s0 a) /\
    exists sh bij src b_nn, In (sh, (bij, src)) (c_nodes c) /\ clean nn /\ NoDup (binders nn) /\
      wshape nn = Ok (sh, b_nn) /\ (exists b, shape s0 nn = Ok (sh, b)) /\
      (forall x y, In x (c_slots c) -> get (am i) x = Some y -> In y (pub_occ nn)) /\
      (forall k x y, In x (c_slots c) -> get bij k = Some x -> get (am i) x = Some y -> get b_nn k = Some y).
  Proof.
    intros i c t nns t' nn R Hc Cbi Hen Hnn.
    assert (EI : eg_inv s0) by (destruct I3 as [[EI _] _]; exact EI).
    destruct (enodes_applied_kids s0 I3 K0 M4 i t nns t' R Cbi Hen) as (G1 & L1 & Fk).
    split; [exact (Rel_step s0 _ _ R G1 L1)|]. split; [exact (Fk nn Hnn)|].
    assert (Kd : forall a, In a (app_occ nn) -> kid_ok s0 a).
    { intros a Ha. exact (proj1 (proj1 (Forall_forall _ _) (Fk nn Hnn) a Ha)). }
    assert (Hct : get_class t (aid i) = Ok c) by (rewrite (Rel_class s0 _ _ R); exact Hc).
    assert (Ck : forall a, In a (app_occ nn) -> ckid s0 a).
    { destruct (listed_entry_skel i t c nns t' nn Hct Hen Hnn) as ([sh0 pr] & Hin0 & Esk). cbn [fst] in Esk.
      pose proof (in_stored s0 Hhc (aid i) c sh0 pr Hc Hin0) as St.
      destruct (stored_canonical _ _ _ _ Hhc Hpe St) as [_ (b0 & Hb0)].
      destruct (shape_fix_lkid s0 sh0 b0 EI Hb0) as (p & Ep & _ & Lp).
      assert (Lk : forall a, In a (app_occ nn) -> lkid s0 a).
      { apply (skel_lkid s0 nn p); [congruence|exact Lp|]. intros a Ha. exact (proj2 (Kd a Ha)). }
      intros a Ha. apply lkid_covers_ckid; [exact (Lk a Ha)|exact (proj1 (Kd a Ha))]. }
    split; [exact Ck|].
    rewrite enodes_applied_eq in Hen.
    apply mbind_inv in Hen. destruct Hen as (c' & s1 & H1 & H). apply reads_inv in H1. destruct H1 as [Hc' ->].
    rewrite (Rel_class s0 _ _ R) in Hc'. rewrite Hc in Hc'. inversion Hc'; subst c'.
    destruct (mapM_entries_locate i c (c_nodes c) t nns t' R Hc (incl_refl _) Cbi H nn Hnn)
      as ([sh [bij src]] & sa & sb & Hin & Ra & Ca & He).
    destruct (ea_entry_gen i c sh bij src sa nn sb Ra Hc Hin Ca He) as (Cl & Nd & b_nn & W & P1 & P2).
    destruct (ea_entry_shape s0 I3 K0 M4 Hhc Hpe i c (sh, (bij, src)) sa nn sb Ra Hc Hin Ca He) as (_ & bsh & Hbsh).
    cbn [fst] in Hbsh.
    exists sh, bij, src, b_nn. split; [exact Hin|]. split; [exact Cl|]. split; [exact Nd|]. split; [exact W|].
    split; [exists bsh; exact Hbsh|]. split; [exact P1|exact P2].
  Qed.
End ListedGen.

(* ------------------------------------------------------------------ *)
(* 2. K1 *)

Lemma values_values_vec : forall m x, In x (values m) <-> In x (values_vec m).
Proof. intros m x. unfold values. apply (proj2 (sset_of_list_spec _)). Qed.

Theorem variant_lookup : forall s, match_inv s -> ss_ok s -> variant_lookup_at s.
Proof.
  intros s [I3 K0 M4f Hhc Hpe Hlv] SS i t nns t' nn vs n2 R [[Li Ci] Vi] Hen Hnn Hv Hn2.
  pose proof (m4_cls4 _ M4f) as M4.
  assert (EI : eg_inv s) by (destruct I3 as [[EI _] _]; exact EI).
  assert (NO : nodes_ok s) by exact (proj2 I3).
  pose proof Ci as (c & Hc & Gc & Wi & Bi & Ki).
  assert (R' : Rel s t) by exact R.
  assert (Cbi : MatchFacts.cb s t i).
  { split; [split; [exact (canon_covers _ _ Ci)|exact Wi]|exact Vi]. }
  destruct (listed_gen s I3 K0 M4 Hhc Hpe i c t nns t' nn R' Hc Cbi Hen Hnn)
    as (Rt' & Fcb & Ck & sh & bij & src & b_nn & Hin & Cl & Nd & Wnn & (bsh & Hsh) & Pub & Bnn).
  (* nn is fixed by find_enode and heads its variants; n2 is one of them *)
  assert (Fnn : find_enode s nn = Ok nn).
  { unfold find_enode. rewrite (mapr_id (find_applied_id s) (app_occ nn)).
    - cbn [bind]. rewrite set_apps_self. reflexivity.
    - intros a Ha. apply lkid_fixed; [apply (ei_uf _ EI)|exact (proj1 (Ck a Ha))]. }
  destruct (weak_variants_sub _ _ _ Hv) as (all & Hall & Hsub).
  pose proof (Hsub _ Hn2) as Hn2a.
  destruct (variants_head s nn all (fun a Ha => proj1 (Ck a Ha)) Hall) as (tl & Eall).
  assert (Hnna : In nn all) by (rewrite Eall; left; reflexivity).
  destruct (orbit_same_set s nn all n2 EI Fnn Hall Hn2a) as (F2 & V2 & Hv2 & Hset).
  (* the shape of n2 is the stored shape, with the bijection of a variant p2 of nn *)
  assert (SO : same_orbit s nn n2).
  { exists nn, n2, all, V2. split; [exact Fnn|]. split; [exact F2|]. split; [exact Hall|]. split; [exact Hv2|].
    split; [exact Hset|]. intros v w Hv' Hw'.
    rewrite (variants_skel s nn all v Ck Hall Hv'), (variants_skel s nn all w Ck Hall Hw'). reflexivity. }
  destruct (same_orbit_shape s nn n2 sh bsh SO Hsh) as (b2 & Hsh2).
  pose proof Hsh2 as Wp2. unfold shape, pre_shape in Wp2. rewrite F2 in Wp2. cbn [bind] in Wp2.
  rewrite Hv2 in Wp2. cbn [bind] in Wp2.
  destruct (min_variant V2 None) as [p2|] eqn:P2; cbn [bind] in Wp2; [|discriminate].
  destruct (min_none _ _ P2) as [P2in _].
  pose proof (proj2 (Hset p2) P2in) as P2all.
  (* the lookup hits the class of i *)
  pose proof (in_stored s Hhc _ _ _ _ Hc Hin) as St.
  assert (G : na_get (c_nodes c) sh = Some (bij, src)) by (unfold stored, cnodes in St; rewrite Hc in St; exact St).
  pose proof (tb_bwd s (proj1 Hhc) _ _ _ St) as Hh.
  pose proof (lookup_internal_intro s sh b2 (aid i) c bij src Hh Hc G) as LI.
  (* self-symmetry completeness: the invocation computed from p2 equals the one computed from nn *)
  pose proof (ss_at_var s sh EI NO Hhc (SS sh) (aid i) c bij src nn all p2 nn b2 b_nn Hc G Ck Nd Hall P2all Hnna Wp2 Wnn) as E.
  (* ... and the one computed from nn is `am i` *)
  destruct (NO (aid i) c _ Hc Hin) as (Wcb & Icb & Kcb & Scb). cbn [fst snd] in Wcb, Icb, Kcb, Scb.
  assert (Bcb : is_bijection bij = true) by (apply (is_bijection_injective bij Wcb); exact Icb).
  assert (Emap : filt c (inverse_nocheck bij ** b_nn) = am i).
  { unfold filt.
    apply ext_eq; [apply (filter_key_wf (fun k => sset_mem k (c_slots c))), compose_partial_wf|exact Wi|].
    intros k. rewrite (get_filter_key (fun k => sset_mem k (c_slots c))).
    destruct (sset_mem k (c_slots c)) eqn:Em.
    - apply sset_mem_in in Em. destruct (Scb k Em) as (m & Gm).
      rewrite get_compose_partial by apply inverse_wf.
      rewrite (proj2 (get_inverse bij k m Wcb Bcb) Gm).
      destruct (get (am i) k) as [y|] eqn:Gy.
      + exact (Bnn m k y Em Gm Gy).
      + exfalso. assert (Hk : In k (keys (am i))) by (rewrite Ki; exact Em). apply keys_spec in Hk. contradiction.
    - destruct (get (am i) k) as [y|] eqn:Gy; [|reflexivity]. exfalso.
      assert (Hk : In k (keys (am i))) by (apply keys_spec; congruence). rewrite Ki in Hk.
      apply (proj2 (sset_mem_in _ _)) in Hk. congruence. }
  rewrite Emap in E.
  assert (Ei : {| aid := aid i; am := am i |} = i) by (destruct i; reflexivity).
  rewrite Ei in E.
  set (mb := filt c (inverse_nocheck bij ** b2)) in *.
  assert (Wb0 : wf mb).
  { unfold mb, filt. apply (filter_key_wf (fun k => sset_mem k (c_slots c))), compose_partial_wf. }
  (* values: both invocations are fixed by find *)
  assert (Vals : forall x, In x (values_vec mb) -> In x (values_vec (am i))).
  { destruct (eg_eq_true_inv _ _ _ E) as (a' & b' & c' & Fa & Fb & _ & Vals & _).
    rewrite (lkid_fixed s i (ei_uf _ EI) Li) in Fb. inversion Fb; subst b'.
    destruct Li as (e & ce & He & Hae & Hce & Gce & Ke & _ & _). rewrite Hc in Hce. inversion Hce; subst ce.
    assert (Fix0 : find_applied_id s {| aid := aid i; am := mb |} = Ok {| aid := aid i; am := mb |}).
    { apply (find_leader_fixed s _ e (ei_uf _ EI)); cbn [aid am]; [exact He|exact Hae|exact Wb0|].
      intros k Hk. unfold mb, filt in Hk. rewrite (get_filter_key (fun k => sset_mem k (c_slots c))) in Hk.
      destruct (sset_mem k (c_slots c)) eqn:Em; [|congruence]. apply sset_mem_in in Em.
      apply keys_spec. rewrite Ke. exact Em. }
    rewrite Fix0 in Fa. inversion Fa; subst a'. cbn [am] in Vals.
    intros x Hx. apply values_values_vec. rewrite <- Vals. apply values_values_vec. exact Hx. }
  (* clean, binders *)
  destruct (variant_clean s t' nn vs n2 I3 Rt' Fcb Hv Hn2 Cl) as (Cl2 & _).
  destruct (variants_sub s nn all n2 Hall Hn2a) as (B2 & _).
  (* children *)
  assert (Hall' : variants t' nn = Ok all) by (rewrite (variants_sg s t' nn (proj1 Rt')); exact Hall).
  pose proof (variants_cb s I3 t' nn all Rt' Fcb Hall' n2 Hn2a) as Fcb2.
  assert (Ck2 : forall a, In a (app_occ n2) -> ckid s a).
  { destruct (variants_inv s nn all Ck Hall) as (cls & Ec & [(Tr & Eq)|(Tr & groups & Eg & KC & Eq)]).
    - rewrite Eq in Hn2a. destruct Hn2a as [<-|[]]. exact Ck.
    - rewrite Eq in Hn2a. apply in_map_iff in Hn2a. destruct Hn2a as (l & El & Hl'). apply cart_in in Hl'.
      destruct (orbit_sk s _ _ l KC Hl') as (SK & CK).
      assert (KG : Forall2 (kid_grp s) (app_occ nn) groups).
      { revert KC. apply Forall2_imp. intros a G0. apply kid_cg_grp. }
      destruct (orbit_lkid s (app_occ nn) groups l KG Hl') as (_ & Al).
      assert (Len : List.length (zip_with gvar (app_occ nn) l) = List.length (app_occ nn)).
      { rewrite <- (map_length aid (zip_with gvar (app_occ nn) l)), Al, map_length. reflexivity. }
      intros a Ha. rewrite <- El in Ha. rewrite (app_occ_set_apps nn _ Len) in Ha.
      exact (proj1 (Forall_forall _ _) CK a Ha). }
  split; [exact Cl2|]. split; [rewrite B2; exact Nd|]. split.
  { intros a Ha. split; [exact (Ck2 a Ha)|]. exact (proj2 (proj1 (Forall_forall _ _) Fcb2 a Ha)). }
  split.
  { intros x Hx. unfold values_vec in Hx. apply in_map_iff in Hx. destruct Hx as ([k v] & Ev & Hkv). cbn [snd] in Ev. subst v.
    pose proof (in_get _ _ _ Wi Hkv) as Gk.
    assert (Hk : In k (c_slots c)) by (rewrite <- Ki; apply keys_spec; congruence).
    pose proof (Pub k x Hk Gk) as Pn.
    destruct (variants_sub s n2 V2 nn Hv2 (proj1 (Hset nn) Hnna)) as (_ & Incl). exact (Incl _ Pn). }
  exists {| aid := aid i; am := mb |}. split.
  { unfold MatchMachine.eg_lookup. rewrite Hsh2. cbn [bind]. exact LI. }
  split; [exact E|]. split; [exact Wb0|exact Vals].
Qed.

Print Assumptions variant_lookup.
