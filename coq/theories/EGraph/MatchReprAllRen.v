(* EGraph/MatchReprAllRen.v — two renaming facts for the all-depth representation argument.

   1. `lookup_ren_map`: the read-only lookup commutes with capture-free injective renamings, INCLUDING the slot map of the
      invocation it returns (Extract/NfOk.v `lookup_ren` + the map clause; same argument as `eg_lookup_ren` of RepReachB.v,
      no state premise is needed: `inverse_nocheck cb` is sorted by construction, `inverse_wf`).
      `lookup_ren_out`: for the renaming `g_of mf` of a slot map mf defined on the values of the result, the renamed
      lookup returns EXACTLY `out_of mf a` (the result map is sorted, so extensional equality is equality).
   2. `pat_node_ren`: `inst_ren` of MatchLookup.v with the final slot map GIVEN (any injective extension of the positional
      bijection that is defined on the values of the child invocations) instead of produced by `final_go`. *)
From SE Require Import Slots.SlotMapFacts Group.GroupSound Lang.LangFacts Lang.ShapeFacts Lang.RenameFacts
  Base.TextFacts Parse.Parser EGraph.Model EGraph.ModelFacts EGraph.ModelMachine EGraph.UnionFindFacts
  EGraph.InvariantFacts EGraph.UnionInvariantFacts EGraph.AddCoversFacts EGraph.HashconsShape EGraph.Mod4Facts
  EGraph.HashconsAbs EGraph.HashconsFacts EGraph.Rewrite EGraph.RewriteFacts EGraph.MatchDefs EGraph.MatchMachine
  EGraph.ProgressFacts EGraph.MatchFacts EGraph.SoundUnion EGraph.MonotoneFacts EGraph.MatchLookup
  EGraph.NodeCong EGraph.KidEqFacts EGraph.ShapeCong EGraph.CongruenceFacts EGraph.MatchComplete
  EGraph.MatchReprFix EGraph.MatchReprAlg EGraph.StoredLive EGraph.KidsFacts EGraph.PendingFacts EGraph.SoundAddExpr.
Require Import ZArith Lia ZifyBool ZifyN ZifyNat.

Local Notation "a ** b" := (compose_partial a b) (at level 40, left associativity).
Local Notation inv := inverse_nocheck.

(* ------------------------------------------------------------------ *)
(* 1. the lookup under a renaming *)

Lemma pre_shape_sub_r : forall s n p, pre_shape s n = Ok p -> binders p = binders n /\ incl (pub_occ p) (pub_occ n).
Proof.
  intros s n p P. unfold pre_shape in P.
  destruct (find_enode s n) as [Fn|] eqn:F; cbn [bind] in P; [|discriminate].
  destruct (variants s Fn) as [vs|] eqn:V; cbn [bind] in P; [|discriminate].
  destruct (UnionInvariantFacts.min_variant_in _ _ _ P) as [Ip|[k Bad]]; [|discriminate].
  destruct (variants_sub s Fn vs p V Ip) as (B2 & P2). destruct (find_enode_sub s n Fn F) as (B1 & P1).
  split; [congruence|]. intros z Hz. apply P1, P2, Hz.
Qed.

Lemma lookup_wf : forall s n a, MatchMachine.eg_lookup s n = Ok (Some a) -> wf (am a).
Proof.
  intros s n a L. unfold MatchMachine.eg_lookup in L.
  destruct (shape s n) as [[sh b]|] eqn:S; cbn [bind] in L; [|discriminate].
  destruct (lookup_internal_inv _ _ _ _ L) as (i & c & cb & src & _ & _ & _ & ->). cbn [am].
  apply (filter_key_wf (fun k => sset_mem k (c_slots c))), compose_partial_wf.
Qed.

Lemma lookup_ren_map : forall s g n a, ren_ok g n -> MatchMachine.eg_lookup s n = Ok (Some a) ->
  exists a', MatchMachine.eg_lookup s (RenameFacts.ren g n) = Ok (Some a') /\ aid a' = aid a /\
             forall k, get (am a') k = option_map (g true) (get (am a) k).
Proof.
  intros s g n a Rn L. unfold MatchMachine.eg_lookup in L.
  destruct (shape s n) as [[sh b]|] eqn:S; cbn [bind] in L; [|discriminate].
  unfold shape in S. destruct (pre_shape s n) as [p|] eqn:P; cbn [bind] in S; [|discriminate].
  destruct (pre_shape_sub_r s n p P) as (Bp & Pp).
  pose proof (ren_ok_sub g n p Bp Pp Rn) as Rp.
  destruct (ren_ok_same_wshape g p Rp sh b S) as (b' & S').
  pose proof (ws_ren_get g p sh b b' Rp S S') as R.
  pose proof (pre_shape_ren s g n p Rn P) as P'.
  destruct (lookup_internal_inv _ _ _ _ L) as (i & c & cb & src & Hh & Hc & G & ->).
  exists {| aid := i; am := filt c (inv cb ** b') |}. split; [|split; [reflexivity|]].
  - unfold MatchMachine.eg_lookup, shape. rewrite P'. cbn [bind]. rewrite S'. cbn [bind].
    exact (lookup_internal_intro s sh b' i c cb src Hh Hc G).
  - intros k. cbn [am]. unfold filt. rewrite !(get_filter_key (fun k => sset_mem k (c_slots c))).
    destruct (sset_mem k (c_slots c)); [|reflexivity].
    rewrite !get_compose_partial by apply inverse_wf. destruct (get (inv cb) k) as [k'|]; [|reflexivity]. apply R.
Qed.

Lemma lookup_ren_out : forall s mf n a, ren_ok (g_of mf) n ->
  (forall x, In x (values_vec (am a)) -> get mf x <> None) ->
  MatchMachine.eg_lookup s n = Ok (Some a) ->
  exists a', MatchMachine.eg_lookup s (RenameFacts.ren (g_of mf) n) = Ok (Some a') /\ a' = out_of mf a.
Proof.
  intros s mf n a Rn Def L.
  destruct (lookup_ren_map s (g_of mf) n a Rn L) as (a' & L' & Ai & Am).
  exists a'. split; [exact L'|].
  pose proof (lookup_wf _ _ _ L) as Wa. pose proof (lookup_wf _ _ _ L') as Wa'.
  unfold out_of. rewrite (compose_total_mapv (am a) mf Wa Def).
  destruct a' as [i' m']. cbn [aid am] in *. subst i'. f_equal.
  apply ext_eq; [exact Wa'|apply wf_mapv; exact Wa|]. intros k. rewrite get_mapv. apply Am.
Qed.

(* ------------------------------------------------------------------ *)
(* 2. the pattern node is the candidate renamed by any final slot map *)

Lemma pat_node_ren : forall nd n2 n_sh c_sh m m' mf, clean n2 ->
  wshape nd = Ok n_sh -> wshape (nullify n2) = Ok c_sh -> node_eqb (fst n_sh) (fst c_sh) = true ->
  insert_all_bij (combine (all_occ (nullify n2)) (all_occ nd)) m = Some m' ->
  injective mf -> (forall k v, get m' k = Some v -> get mf k = Some v) ->
  (forall a x, In a (app_occ n2) -> In x (values_vec (am a)) -> get mf x <> None) ->
  ren_ok (g_of mf) n2 /\ set_apps nd (map (out_of mf) (app_occ n2)) = RenameFacts.ren (g_of mf) n2 /\
  (forall x, In x (all_occ n2) -> get mf x <> None).
Proof.
  intros nd n2 [sh1 b1] [sh2 b2] m m' mf [Cl Wk] W1 W2 He Hib Injf Monof DefK. cbn [fst] in He.
  apply node_eqb_iff in He. subst sh2.
  assert (Sk : skel (nullify n2) = skel nd).
  { destruct (node_equiv_shape _ _ _ W1) as [S1 _]. destruct (node_equiv_shape _ _ _ W2) as [S2 _]. congruence. }
  pose proof (skel_occ_len _ _ Sk) as Len.
  set (g := g_of mf). set (h := g true).
  assert (Hg : forall b x, g b x = h x) by reflexivity.
  assert (Hpair : forall x y, In (x, y) (combine (all_occ (nullify n2)) (all_occ nd)) -> h x = y).
  { intros x y Hxy. pose proof (Monof _ _ (insert_all_bij_get _ _ _ Hib x y Hxy)) as G.
    unfold h, g, g_of. rewrite G. reflexivity. }
  assert (E3 : RenameFacts.ren g (nullify n2) = nd).
  { apply skel_occ_inj; [rewrite ren_skel; exact Sk|].
    rewrite (all_occ_ren_flagless h g _ Hg). apply map_combine_eq; [exact Len|exact Hpair]. }
  assert (E2 : map (out_of mf) (app_occ n2) = zip_with (rv g) (abounds (nullify n2)) (app_occ n2)).
  { apply map_zip_with_l; [rewrite abounds_length; apply nullify_app_len|].
    intros bd a Ha. unfold out_of, rv. f_equal. rewrite ren_vals_mapv.
    rewrite (compose_total_mapv (am a) mf (proj1 (Forall_forall _ _) Wk a Ha) (fun x Hx => DefK a x Ha Hx)).
    reflexivity. }
  assert (Keys : forall x, In x (all_occ n2) -> exists y, get mf x = Some y).
  { intros x Hx. destruct (all_occ_split n2 x Hx) as [L|(k & Hk & Hv)].
    - destruct (in_combine_l_ex _ (all_occ nd) x Len L) as (y & Hy). exists y.
      exact (Monof _ _ (insert_all_bij_get _ _ _ Hib x y Hy)).
    - destruct (get mf x) as [y|] eqn:G; [exists y; reflexivity|]. exfalso. exact (DefK k x Hk Hv G). }
  assert (Hinj : forall x y, In x (all_occ n2) -> In y (all_occ n2) -> h x = h y -> x = y).
  { intros x y Hx Hy E. destruct (Keys x Hx) as (u & Gu). destruct (Keys y Hy) as (v & Gv).
    unfold h, g, g_of in E. rewrite Gu, Gv in E. subst v. eapply Injf; eauto. }
  split; [|split].
  - split; [|split].
    + intros x y Hx Hy E. apply Hinj; [apply binders_all_occ; exact Hx|apply binders_all_occ; exact Hy|exact E].
    + intros x b Hx Hb E. assert (x = b) by (apply Hinj; [apply pub_occ_all_occ; exact Hx|apply binders_all_occ; exact Hb|exact E]).
      subst b. exact (Cl x Hx Hb).
    + intros x y Hx Hy E. apply Hinj; [apply pub_occ_all_occ; exact Hx|apply pub_occ_all_occ; exact Hy|exact E].
  - rewrite E2, <- E3 at 1. rewrite set_apps_ren, set_apps_nullify. reflexivity.
  - intros x Hx. destruct (Keys x Hx) as (y & Gy). rewrite Gy. discriminate.
Qed.

Print Assumptions lookup_ren_map.
Print Assumptions lookup_ren_out.
Print Assumptions pat_node_ren.
