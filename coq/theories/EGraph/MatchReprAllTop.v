(* EGraph/MatchReprAllTop.v — C05 for patterns of ARBITRARY depth: FROM THE INVARIANT `impl_repr` of one call of
   `ematch_impl` (EGraph/MatchReprAllDefs.v; proved by induction on the pattern in MatchReprAllInv.v) TO `ematch_all`.

   PART 1.  `matches_from_inv` (closed):
       match_inv s -> pat_pre (ctr s) p -> impl_repr s p -> ematch_all p s = Ok (l, s') -> In sb l ->
       exists r a, mr_sb r = sb /\ In (mr_id r) (ids s) /\ lookup_pat s' p sb = Ok (Some a) /\ eg_eq s' a (mr_root r) = Ok true
     (the conclusion of the per-run checker `matches_okb_sound` of MatchLookup.v, now for every run).
     Ingredients: `lookup_pat_sg` (the read-only lookup does not see the counter), `final_go_m_gen` (the analogue of
     `final_go_spec` for `final_go_m` when the values of the partial slot map are pattern slots: "older than the counter
     of the start state or not 1 mod 4" never collide with fresh slots), `root_inv_i` (the identity invocation of a live
     class is `inv_i`), the inversion of `ematch_all_r` along the relation RR (same graph, counter not smaller, m4 kept).
   PART 2.  `reachable_match_inv_ss` (match_inv s /\ ss_ok s for every state of a run with static terms) and
     `matches_from_inv_reachable` (PART 1 on reachable states; the invariant is an explicit premise). *)
From SE Require Import Slots.SlotMapFacts Group.GroupSound Lang.LangFacts Lang.ShapeFacts Lang.RenameFacts
  Base.TextFacts Parse.Parser EGraph.Model EGraph.ModelFacts EGraph.ModelMachine EGraph.UnionFindFacts
  EGraph.InvariantFacts EGraph.UnionInvariantFacts EGraph.AddCoversFacts EGraph.HashconsShape EGraph.Mod4Facts
  EGraph.HashconsAbs EGraph.HashconsFacts EGraph.Rewrite EGraph.RewriteFacts EGraph.MatchDefs EGraph.MatchMachine
  EGraph.ProgressFacts EGraph.MatchFacts EGraph.SoundUnion EGraph.MonotoneFacts EGraph.MatchLookup
  EGraph.NodeCong EGraph.KidEqFacts EGraph.ShapeCong EGraph.CongruenceFacts EGraph.MatchComplete
  EGraph.MatchReprFix EGraph.MatchReprAlg EGraph.StoredLive EGraph.KidsFacts EGraph.PendingFacts EGraph.SoundAddExpr
  EGraph.MatchReprFacts EGraph.MatchReprAllDefs EGraph.SelfSymFacts EGraph.OpsPreFacts EGraph.StaticFacts.
Require Import ZArith Lia ZifyBool ZifyN ZifyNat.

Local Notation "a ** b" := (compose_partial a b) (at level 40, left associativity).

(* ------------------------------------------------------------------ *)
(* 1. the read-only lookup of an instance does not look at the counter *)

Lemma lookup_kids_sg : forall s t sb ch, Forall (fun c => lookup_pat t c sb = lookup_pat s c sb) ch ->
  lookup_kids t sb ch = lookup_kids s sb ch.
Proof.
  intros s t sb ch F. induction F as [|c r Hc F IH]; [reflexivity|].
  cbn [lookup_kids]. rewrite Hc, IH. reflexivity.
Qed.

Lemma lookup_pat_sg : forall s t p sb, same_graph s t -> lookup_pat t p sb = lookup_pat s p sb.
Proof.
  intros s t p sb SG. induction p as [v|n ch IH|b x u _ _ _] using pattern_ind2.
  - reflexivity.
  - rewrite !lookup_pat_node. destruct (negb _); [reflexivity|].
    rewrite (lookup_kids_sg s t sb ch IH).
    destruct (lookup_kids s sb ch) as [[k|]|e]; cbn [bind]; try reflexivity.
    apply eg_lookup_sg. exact SG.
  - reflexivity.
Qed.

(* ------------------------------------------------------------------ *)
(* 2. `final_go_m`: ONE injective final map extending the partial slot map; every bound invocation is seen through it.
      The values of the partial slot map satisfy Q (pattern slots) or are older than the counter; no fresh slot
      still to be drawn satisfies Q (`NF`). *)

Lemma final_go_m_gen : forall (Q : slot -> Prop) l m t r t', final_go_m l m t = Ok (r, t') ->
  injective m -> (forall k v, get m k = Some v -> Q v \/ v < Model.ctr t) -> NF t Q ->
  Forall (fun va : text * appid => wf (am (snd va))) l ->
  injective (snd r) /\ (forall k v, get m k = Some v -> get (snd r) k = Some v) /\
  fst r = sub_out (snd r) l /\
  (forall va x, In va l -> In x (values_vec (am (snd va))) -> get (snd r) x <> None).
Proof.
  intros Q. induction l as [|[v a] rest IH]; intros m t r t' H Inj V Nf W; cbn [final_go_m] in H.
  - apply ret_inv in H. destruct H as [E _]. subst r. cbn [fst snd].
    split; [exact Inj|]. split; [auto|]. split; [reflexivity|]. intros va x [].
  - apply mbind_inv in H. destruct H as (m1 & t1 & He & H). apply mbind_inv in H. destruct H as (r1 & t2 & Hr & H).
    apply ret_inv in H. destruct H as [E _]. subst r. cbn [fst snd].
    inversion W as [|? ? Wa Wr]; subst. cbn [snd] in Wa.
    destruct (extend_fresh_gen Q Q _ _ _ _ _ He Inj V Nf) as (_ & L1 & E1 & Inj1 & V1 & Mono1 & Def1).
    destruct (IH _ _ _ _ Hr Inj1 V1 (NF_step Q _ _ _ L1 E1 Nf) Wr) as (Injf & Monof & Hmap & Deff).
    assert (DefA : forall x, In x (values_vec (am a)) -> get m1 x <> None).
    { intros x Hx. apply Def1. apply (values_spec _ _ Wa). unfold values_vec in Hx. apply in_map_iff in Hx.
      destruct Hx as ([k x'] & <- & Hk). exists k. apply in_get; assumption. }
    split; [exact Injf|]. split; [intros k w G; apply Monof, Mono1, G|]. split.
    + unfold sub_out. cbn [map fst snd]. fold (sub_out (snd r1) rest). rewrite <- Hmap. f_equal. f_equal.
      unfold out_of. cbn [aid am]. f_equal. apply compose_ext_on.
      intros [k x] Hp. cbn [snd].
      assert (Hx : In x (values_vec (am a))) by (unfold values_vec; change x with (snd (k, x)); apply in_map; exact Hp).
      destruct (get m1 x) as [z|] eqn:G; [|exfalso; exact (DefA x Hx G)]. symmetry. exact (Monof _ _ G).
    + intros va x [<-|Hin] Hx; [|exact (Deff va x Hin Hx)]. cbn [snd] in Hx.
      destruct (get m1 x) as [z|] eqn:G; [|exfalso; exact (DefA x Hx G)]. rewrite (Monof _ _ G). discriminate.
Qed.

Lemma final_go_m_final : forall st r t t', final_go_m (partial_subst st) (partial_slotmap st) t = Ok (r, t') ->
  final_subst st t = Ok (fst r, t').
Proof. intros st r t t' H. rewrite final_subst_go, final_go_m_fst, H. reflexivity. Qed.

(* ------------------------------------------------------------------ *)
(* 3. the relation all steps of `ematch_all_r` keep: same graph, counter not smaller, m4 kept *)

Definition RR (s t : egraph) : Prop := sg_ge s t /\ (m4 s -> m4 t).

Lemma RR_refl : forall a, RR a a.
Proof. intros a. split; [apply sg_ge_refl|auto]. Qed.

Lemma RR_trans : forall a b c, RR a b -> RR b c -> RR a c.
Proof. intros a b c [A1 A2] [B1 B2]. split; [eapply sg_ge_trans; eassumption|auto]. Qed.

Lemma RR_ematch_impl : forall p st i, pres RR (ematch_impl p st i).
Proof.
  intros p st i a x b H. split; [split|].
  - exact (sg_ematch_impl p st i a x b H).
  - exact (c_ematch_impl p st i a x b H).
  - intros Ma. exact (proj1 (h_ematch_impl p st i a x b H Ma)).
Qed.

Lemma RR_final_subst : forall st, pres RR (final_subst st).
Proof.
  intros st a x b H. split; [split|].
  - exact (sg_final_subst st a x b H).
  - exact (c_final_subst st a x b H).
  - intros Ma. exact (proj1 (h_final_subst st a x b H Ma)).
Qed.

Lemma RR_fin_body : forall (i : N) (sl : sset) st,
  pres RR (dom r <- final_go_m (partial_subst st) (partial_slotmap st);
           ret {| mr_id := i; mr_sl := sl; mr_st := st; mr_sb := fst r; mr_fin := snd r |}).
Proof.
  intros i sl st a x b H. apply mbind_inv in H. destruct H as (rr & s6 & Hg & H).
  apply ret_inv in H. destruct H as [_ E]. subst b.
  exact (RR_final_subst st a (fst rr) s6 (final_go_m_final st rr a s6 Hg)).
Qed.

(* ------------------------------------------------------------------ *)
(* 4. the identity invocation of a live class *)

Lemma root_inv_i : forall s t i c, inv3 s -> cls4 s -> In i (ids s) -> get_class s i = Ok c -> sg_ge s t ->
  inv_i s t {| aid := i; am := identity (c_slots c) |}.
Proof.
  intros s t i c I3 M4 Hi Hc R.
  assert (EI : eg_inv s) by (destruct I3 as [[EI _] _]; exact EI).
  destruct (ei_cls s EI i c Hc) as (Sw & Hg & _).
  destruct (class_facts s I3 M4 _ _ Hc) as [_ Below].
  split; [split|].
  - apply ids_leader in Hi. destruct Hi as (e & He & Hae).
    exists e, c. cbn [aid am]. split; [exact He|]. split; [exact Hae|]. split; [exact Hc|]. split; [exact Hg|].
    split; [exact (uso_leader s (ei_slots s EI) i e c He Hae Hc)|]. split; [apply identity_wf|].
    intros k Hk. destruct (get (identity (c_slots c)) k) as [v|] eqn:G; [|exfalso; apply Hk; reflexivity].
    exact (proj2 (pid_identity_get _ _ _ G)).
  - exists c. cbn [aid am]. split; [exact Hc|]. split; [exact Hg|]. split; [apply identity_wf|]. split.
    + apply (is_bijection_injective _ (identity_wf (c_slots c))). apply pid_injective, pid_identity.
    + apply keys_identity. exact Sw.
  - cbn [am]. intros v Hv. unfold values_vec in Hv. apply in_map_iff in Hv. destruct Hv as ([k v'] & <- & Hkv).
    apply in_identity in Hkv. destruct Hkv as [<- Hk]. cbn [snd]. pose proof (Below k Hk). destruct R as [_ R]. lia.
Qed.

(* ------------------------------------------------------------------ *)
(* 5. PART 1: from the invariant of `ematch_impl` to `ematch_all` *)

Theorem matches_from_inv : forall s p, match_inv s -> pat_pre (Model.ctr s) p -> impl_repr s p ->
  forall l s', ematch_all p s = Ok (l, s') ->
  forall sb, In sb l ->
  exists r a, mr_sb r = sb /\ In (mr_id r) (ids s) /\
              lookup_pat s' p sb = Ok (Some a) /\ eg_eq s' a (mr_root r) = Ok true.
Proof.
  intros s p [I3 K0 M4 Hhc Hpe Hlv] PP IR l s' E sb Hin.
  pose proof (ematch_all_state _ _ _ _ E) as Hss'.
  rewrite ematch_all_r_spec in E.
  destruct (ematch_all_r p s) as [[lr sx]|e] eqn:Er; cbn [mmap] in E; [|discriminate].
  inversion E; subst l sx. clear E. apply in_map_iff in Hin. destruct Hin as (r & Hr & Hin).
  unfold ematch_all_r in Er. apply mbind_inv in Er. destruct Er as (live & s0 & Hl & Er).
  unfold gets in Hl. inversion Hl; subst live s0. clear Hl.
  match type of Er with flat_mapM ?f _ _ = _ => assert (Pf : forall x, pres RR (f x)) end.
  { intros i. apply (pres_bind RR RR_trans); [apply pres_reads; exact RR_refl|]. intros sl.
    apply (pres_bind RR RR_trans); [apply RR_ematch_impl|]. intros sts.
    apply pres_mapM; [exact RR_refl|exact RR_trans|]. intros st. apply RR_fin_body. }
  destruct (flat_mapM_inv_R RR RR_refl RR_trans _ _ _ _ Pf _ _ _ Er r Hin) as (i & sa & ra & sb' & Hi & Rsa & Hf & Hra).
  clear Er Pf.
  apply mbind_inv in Hf. destruct Hf as (sl & s1 & Hsl & H). apply reads_inv in Hsl. destruct Hsl as [Hsl Es]. subst s1.
  apply mbind_inv in H. destruct H as (sts & s2 & Hm & H).
  destruct (mapM_inv_R RR RR_refl RR_trans _ _ _ _ (RR_fin_body i sl) _ _ _ H r Hra) as (st & s3 & s4 & Hst & R23 & Hfs).
  clear H.
  apply mbind_inv in Hfs. destruct Hfs as (rr & s5 & Hg & Hret). apply ret_inv in Hret. destruct Hret as [Err _].
  subst r. cbn [mr_sb] in Hr. subst sb.
  unfold class_slots in Hsl. destruct (get_class sa i) as [c|] eqn:Hca; cbn [bind] in Hsl; [|discriminate].
  inversion Hsl; subst sl. clear Hsl.
  assert (RA : sg_ge s sa) by exact (proj1 Rsa).
  assert (Hc : get_class s i = Ok c).
  { destruct RA as ((_ & E2 & _) & _). unfold get_class in *. rewrite <- E2. exact Hca. }
  pose proof (m4_cls4 _ M4) as C4.
  set (root := {| aid := i; am := identity (c_slots c) |}) in *.
  (* (a) the invocation the matcher is called with, the initial matcher state *)
  assert (Iroot : inv_i s sa root) by exact (root_inv_i s sa i c I3 C4 Hi Hc RA).
  assert (Ist0 : ist_ok s sa estate0) by (intros v a []).
  destruct (IR estate0 root sa sts s2 RA Ist0 Iroot Hm st Hst) as (Ist & _ & Hmf).
  (* the values of the partial slot map are pattern slots *)
  set (Q := fun x : slot => x < Model.ctr s \/ x mod 4 <> 1).
  assert (Bst : forall k v, get (partial_slotmap st) k = Some v -> Q v).
  { assert (Croot : cb s sa root).
    { destruct Iroot as [[_ Cn] Vr]. split; [|exact Vr]. split; [exact (canon_covers _ _ Cn)|apply identity_wf]. }
    assert (S0 : st_ok s Q sa estate0) by (split; [intros v a []|intros k v G; discriminate G]).
    exact (proj2 (ematch_impl_ok s I3 K0 C4 Q p PP estate0 root sa sts s2 RA Croot S0 Hm st Hst)). }
  destruct (ematch_impl_estate0_injective p root sa sts s2 Hm st Hst) as [_ Inj].
  (* (b) the final slot map *)
  assert (R03 : RR s s3).
  { eapply RR_trans; [exact Rsa|]. eapply RR_trans; [exact (RR_ematch_impl _ _ _ _ _ _ Hm)|exact R23]. }
  destruct R03 as [[_ L03] M03]. pose proof (proj1 (M03 M4)) as O3. unfold ok1 in O3.
  assert (Nf : NF s3 Q).
  { intros c0 Hc0 Em v [Lt|Ne] Ev; subst v; [lia|]. apply Ne. rewrite Em. exact O3. }
  assert (W : Forall (fun va : text * appid => wf (am (snd va))) (partial_subst st)).
  { apply Forall_forall. intros [v a] Hva. cbn [snd]. destruct (Ist v a Hva) as [[_ (c' & _ & _ & Wa & _)] _]. exact Wa. }
  destruct (final_go_m_gen Q _ _ _ _ _ Hg Inj (fun k v G => or_introl (Bst k v G)) Nf W) as (Injf & Monof & Efst & Deff).
  assert (MF : mf_ok st (snd rr)).
  { split; [exact Injf|]. split; [exact Monof|]. intros v a x Hva Hx. exact (Deff (v, a) x Hva Hx). }
  (* (c) the invariant *)
  destruct (Hmf (snd rr) MF) as (a & Hlk & Heq).
  eexists {| mr_id := i; mr_sl := c_slots c; mr_st := st; mr_sb := fst rr; mr_fin := snd rr |}, a.
  cbn [mr_sb mr_id]. split; [reflexivity|]. split; [exact Hi|]. split.
  - (* (d) transfer to the final state *)
    rewrite (lookup_pat_sg s s' p _ Hss'). rewrite Efst. exact Hlk.
  - rewrite (eg_eq_sg s s' _ _ Hss'). exact Heq.
Qed.

(* ------------------------------------------------------------------ *)
(* 6. PART 2: reachable states *)

Lemma reachable_match_inv_ss : forall terms ops hs s, Forall term_static terms ->
  run_ops terms ops [] empty_egraph = Ok (hs, s) -> match_inv s /\ ss_ok s.
Proof.
  intros terms ops hs s HT H. split.
  - exact (match_inv_reachable_static terms ops hs s HT H).
  - exact (ss_ok_reachable_static terms ops hs s HT H).
Qed.

Theorem matches_from_inv_reachable : forall terms ops hs s p,
  Forall term_static terms ->
  run_ops terms ops [] empty_egraph = Ok (hs, s) ->
  (match_inv s -> ss_ok s -> impl_repr s p) -> pat_pre (Model.ctr s) p ->
  forall l s', ematch_all p s = Ok (l, s') -> forall sb, In sb l ->
  exists r a, mr_sb r = sb /\ In (mr_id r) (ids s) /\ lookup_pat s' p sb = Ok (Some a) /\ eg_eq s' a (mr_root r) = Ok true.
Proof.
  intros terms ops hs s p HT H HI PP.
  destruct (reachable_match_inv_ss terms ops hs s HT H) as [MI SS].
  exact (matches_from_inv s p MI PP (HI MI SS)).
Qed.

Print Assumptions lookup_pat_sg.
Print Assumptions final_go_m_gen.
Print Assumptions root_inv_i.
Print Assumptions matches_from_inv.
Print Assumptions reachable_match_inv_ss.
Print Assumptions matches_from_inv_reachable.
