(* EGraph/MatchReprDeep.v — C04, item 3: for WHICH patterns of depth > 1 is the e-matcher complete
   ("every instance of p represented in the e-graph is reported by ematch_all up to `describes`")?  Decided by
   executable evaluation of the per-instance checker `complete_report` of MatchComplete.v (sound:
   `complete_forb_sound`); nothing here is proved for all states, every claim below is a checked Example over the test
   universe, plus the soundness theorems linking the boolean family checks to `complete_for`.

   TEST UNIVERSE.  18 histories = the 14 of `c_states` (`c_hist`, `c_hist_states`) + 4 with repeated subterms
   (dT1/dO1, dT1/dO3, dT2/dO2, dT2/dO4: symmetric classes, binder, with/without a redundant slot); STATES = every
   nonempty prefix of every history: 268 states, 213 without (`nonred_prefixes`) and 55 with (`red_prefixes`) a class
   that has a redundant slot (`has_redundant`).
   INSTANCES (section 1) come from GROUND TERMS, independently of the matcher: `pool s T` = all subterms of the
   history's terms + every term obtained by replacing one subterm by a pool term with an `eg_eq`-equal handle
   (congruence perturbation); `syn_match p t` is a syntactic matcher (node by node: same symbol, same weak shape,
   positional slot pairs), `inst_of_term s p t` = (theta, zeta): theta = the ONE bijection of all positional pairs,
   zeta v = `hnd s` of the subterm at the FIRST occurrence of v (so for a repeated variable the instance is
   represented exactly when the other occurrences are equal in the e-graph).
   PATTERNS (section 2) = every generalization of every history subterm (`gens`: any set of subterms replaced by
   variables): `lin_pats` 142 nested patterns with pairwise distinct variables (depth 2: 75, 3: 66, 4: 1),
   `rep_pats` 45 nested patterns with a repeated variable (equal names for syntactically / `eg_eq`-equal subterms;
   depth 2: 14, 3: 31), `rep1_pats` 7 depth-one patterns with a repeated variable, `slotlin_pats` = the 89 of
   `lin_pats` in which no slot name occurs in two different nodes.  All satisfy `bind_scopeb` (every bound name bound
   once in the pattern, used only below its binder) and are tested on a state only when `pat_belowb (ctr s)`.
   Symbols: 3, 6 unary; 4, 8 binary; 0 = lam; leaves 2, 7, 8, 9 with slots, 5, 6 constants.

   RESULTS  (instances, represented, matched, errors); strict = `describes` (ONE BIJECTIVE sigma), weak =
   `describes_w` (the same without injectivity of sigma: the match is more general than the instance).
     family                               states          strict                   weak
     lin_pats   (nested, distinct)        213 non-red.    10527/8768/8768/0        -                 T1
     rep_pats   (nested, repeated)        213 non-red.     4507/1304/1304/0        -                 T1
     rep1_pats  (depth one, repeated)     213 non-red.     2575/1208/1208/0        -                 T1
     rep1_pats  (depth one, repeated)      55 redundant    2630/1853/1853/0        -                 T2
     slotlin_pats                          55 redundant    7362/7362/6786/0        7362/7362/7362/0  T3
     lin_pats                              55 redundant    8813/8813/7009/0        8813/8813/7585/0  F
     rep_pats                              55 redundant    5159/4550/4208/0        5159/4550/4210/0  F
     rep_pats, slot-linear                 55 redundant    -                       4823/4214/4210/0  F

   THE STRONGEST FORMULATIONS THAT HOLD ON ALL TESTS (pattern in binder scope `bind_scopeb`, below the counter):
   (T1) NO class of s has a redundant slot  ==>  `complete_for s p theta zeta` for EVERY nested pattern, with distinct
        OR repeated variables (and for depth one with repeated variables).  Neither nesting nor a repeated variable
        nor their combination breaks completeness; only redundancy does.
   (T2) depth one (with MatchComplete.v: distinct variables; here: repeated variables): complete on ALL states,
        redundant slots included.
   (T3) with redundant slots: nested, pairwise distinct variables, no slot name in two different nodes  ==>
        `complete_w_for` (weak: sigma extends theta, need not be injective).  Strictly FALSE (CE3).
   WHAT FAILS, with minimal counterexamples (all on valid states, each also shown MATCHED on the prefix of the same
   history before the redundancy appears):
   (CE1) `CE1_redundant_binder_use_incomplete`: 2 nodes, NO variable: lam $6. (s2 $2 $6), the bound name used at a
         redundant position: represented, not matched, not even weakly.  So "nested + redundant, no repeated variable"
         is INCOMPLETE; the shape binder + use below it is the shape of every beta-like rule.
   (CE2) `CE2_redundant_shared_slot_incomplete`: NO variable, NO binder: bin4 (s2 $2 $6) (s2 $6 $2): a slot name in
         two sibling nodes, at redundant positions: not matched, not weakly.
   (CE3) `CE3_redundant_linear_only_weak`: bin4 ?x (s2 $6 $2), ?x := s2 $2 $6: one variable, slot-linear; the instance
         identifies a slot of the binding with the name at the redundant position: weakly matched, strictly not.
   (CE4) `CE4_redundant_repeated_not_weak`: `redundant_nested_incomplete` of MatchComplete.v (repeated variable,
         nesting, redundant slot, no slot names): not weakly matched either; so (T3) needs distinct variables.
   (P1)  `P1_nonredundant_repeated_nested_complete`: f (sub ?x ?x) ?x without redundancy: matched.
   MECHANISM of all failures: each visit of a class with a redundant slot (`enodes_applied`) draws a FRESH name for
   it; a pattern slot name (or a variable's slot) that reaches two such positions, or one such position and a
   binder / a variable binding, is tied to two different fresh names and `insert_all_bij` / `eg_eq` rejects.
   ANSWERS: nesting + redundant slot without repeated variable: NOT complete (CE1, CE2, CE3).  Repeated variable
   without nesting: complete on all tests, with or without redundancy (T1, T2).  Nesting + repeated variable without
   redundant slots: complete on all tests (T1, P1).

   PROVED: `report_many_spec` (the batched report IS `map complete_report`), `describes_wb_sound`,
   `fam_okb_strict_sound` / `fam_okb_weak_sound` (a family check = true gives `complete_for` / `complete_w_for` for
   every instance `inst_of_term` yields from every pool term of every listed state), `complete_for_weaken`.
   NOT PROVED (item D): the reduction of (T1) to depth one.  What an inductive proof of (T1) needs, precisely:
   (i) `d1_complete_from_repr` for the root node over fresh distinct variables (its premise `repr_hyp`);
   (ii) `node_congruence` (CongruenceFacts.v, premise `ss_ok s`) to pass from `lookup_pat s (pren theta p) zeta` to
   the lookup of the root node over the handles of the represented sub-instances; (iii) the matcher invariant for
   `ematch_impl q st i` started from an ARBITRARY state st with bijective partial slot map: if the sub-instance at i
   is described by a sigma agreeing with `partial_slotmap st` (inverted) and with `partial_subst st` on the variables
   already bound (`eg_eq` after sigma), then some returned state extends st and is described by an extension of sigma;
   (iv) for (iii) in a class visited through a child invocation: every slot of the class occurs in the invocation
   (NO redundant slot; exactly what CE1-CE3 violate), so that no fresh name is drawn for a slot the pattern names. *)
From SE Require Import Slots.SlotMapFacts Group.GroupSound Lang.LangFacts Lang.ShapeFacts Lang.RenameFacts
  Base.TextFacts Parse.Parser EGraph.Model EGraph.ModelFacts EGraph.ModelMachine EGraph.UnionFindFacts
  EGraph.InvariantFacts EGraph.UnionInvariantFacts EGraph.AddCoversFacts EGraph.HashconsShape EGraph.Mod4Facts
  EGraph.HashconsAbs EGraph.HashconsFacts EGraph.Rewrite EGraph.RewriteFacts EGraph.MatchDefs EGraph.MatchMachine
  EGraph.ProgressFacts EGraph.MatchFacts EGraph.SoundUnion EGraph.MonotoneFacts EGraph.MatchLookup EGraph.MatchComplete.
Require Import ZArith Lia ZifyBool ZifyN ZifyNat.

(* ------------------------------------------------------------------ *)
(* 1. INSTANCES FROM THE GROUND TERMS *)

Fixpoint rterm_eqb (a b : rterm) {struct a} : bool :=
  match a, b with
  | RT n ch, RT m cs =>
      node_eqb n m &&
      (fix go (l : list rterm) (r : list rterm) {struct l} : bool :=
         match l, r with
         | [], [] => true
         | x :: l', y :: r' => rterm_eqb x y && go l' r'
         | _, _ => false
         end) ch cs
  end.

Fixpoint rdedup (l : list rterm) (seen : list rterm) : list rterm :=
  match l with
  | [] => []
  | t :: r => if existsb (rterm_eqb t) seen then rdedup r seen else t :: rdedup r (t :: seen)
  end.

Fixpoint subterms (t : rterm) : list rterm :=
  match t with
  | RT n ch => t :: (fix go (l : list rterm) : list rterm := match l with [] => [] | c :: r => subterms c ++ go r end) ch
  end.

(* the syntactic matcher: positional slot pairs (pattern name, term name) and the bindings of the variables
   (all occurrences, in order: `sub_get` takes the first) *)
Fixpoint syn_match (p : pattern) (t : rterm) {struct p} : option (list (slot * slot) * list (text * rterm)) :=
  match p with
  | PVarP v => Some ([], [(v, t)])
  | PNode nd ch =>
      match t with
      | RT m cs =>
          if negb (Nat.eqb (nvar nd) (nvar m)) then None else
          match wshape nd, wshape (nullify m) with
          | Ok a, Ok b =>
              if node_eqb (fst a) (fst b) then
                match (fix go (l : list pattern) (cs : list rterm) {struct l}
                         : option (list (slot * slot) * list (text * rterm)) :=
                         match l, cs with
                         | [], [] => Some ([], [])
                         | q :: l', c :: cs' =>
                             match syn_match q c, go l' cs' with
                             | Some (a1, b1), Some (a2, b2) => Some (a1 ++ a2, b1 ++ b2)
                             | _, _ => None
                             end
                         | _, _ => None
                         end) ch cs with
                | Some (ps, bs) => Some (combine (all_occ nd) (all_occ (nullify m)) ++ ps, bs)
                | None => None
                end
              else None
          | _, _ => None
          end
      end
  | PSubst _ _ _ => None
  end.

(* the instance (theta, zeta) of p a ground term gives: theta the positional correspondence (it must be ONE bijection),
   zeta v the handle of the FIRST subterm at an occurrence of v (all subterms must be represented) *)
Definition inst_of_term (s : egraph) (p : pattern) (t : rterm) : option (slotmap * subst) :=
  match syn_match p t with
  | Some (ps, bs) =>
      match insert_all_bij ps [] with
      | Some theta =>
          if forallb (fun vt : text * rterm => match lookup_rec s (snd vt) with Ok (Some _) => true | _ => false end) bs
          then Some (theta, map (fun vt : text * rterm => (fst vt, hnd s (snd vt))) bs)
          else None
      | None => None
      end
  | None => None
  end.

(* congruence perturbations of a ground term: one subterm replaced by a pool term with an equal handle *)
Fixpoint perturb (repl : rterm -> list rterm) (t : rterm) {struct t} : list rterm :=
  match t with
  | RT n ch =>
      map (RT n)
          ((fix go (l : list rterm) : list (list rterm) :=
              match l with
              | [] => []
              | c :: r => map (fun c' => c' :: r) (repl c ++ perturb repl c) ++ map (cons c) (go r)
              end) ch)
  end.

Definition equal_terms (s : egraph) (pool : list rterm) (c : rterm) : list rterm :=
  match lookup_rec s c with
  | Ok (Some a) =>
      filter (fun t' => negb (rterm_eqb t' c) &&
                        match lookup_rec s t' with Ok (Some b) => eq_trueb (eg_eq s a b) | _ => false end) pool
  | _ => []
  end.

(* the pool of a state with history terms T: all subterms + their one-step congruence perturbations *)
Definition pool0 (T : list rterm) : list rterm := rdedup (flat_map subterms T) [].
Definition pool (s : egraph) (T : list rterm) : list rterm :=
  let p0 := pool0 T in rdedup (p0 ++ flat_map (perturb (equal_terms s p0)) p0) [].

(* WEAK description: as `describes` but sigma need not be injective (the match is MORE GENERAL than the instance:
   the instance is obtained from it by a slot map identifying slots) *)
Definition describes_w (s' : egraph) (p : pattern) (theta : slotmap) (zeta : subst) (a : appid) (r : mrec) : Prop :=
  exists sigma : slotmap,
    (forall x, In x (pslots p) -> exists y, get theta x = Some y /\ get sigma x = Some y) /\
    (forall v, In v (pat_vars p) -> exists b c, sub_get (mr_sb r) v = Some b /\ sub_get zeta v = Some c /\
                                               eg_eq s' (rn sigma b) c = Ok true) /\
    mr_id r = aid a /\ eg_eq s' (rn sigma (mr_root r)) a = Ok true.

Fixpoint insert_all_fun (ps : list (slot * slot)) (m : slotmap) : option slotmap :=
  match ps with
  | [] => Some m
  | (x, y) :: t =>
      match get m x with
      | Some y' => if y' =? y then insert_all_fun t m else None
      | None => insert_all_fun t (insert x y m)
      end
  end.

Definition sigma_cands_w (s' : egraph) (p : pattern) (theta : slotmap) (sb zeta : subst) : res (list slotmap) :=
  do per <- mapr (fun v =>
                    match sub_get sb v, sub_get zeta v with
                    | Some b, Some c =>
                        do fb <- find_applied_id s' b;
                        do fc <- find_applied_id s' c;
                        if negb (aid fb =? aid fc) then Ok [] else
                        do cl <- get_class s' (aid fb);
                        do G <- gall_perms false (c_group cl);
                        Ok (map (kid_pairs fb fc) G)
                    | _, _ => Ok []
                    end) (tdedup (pat_vars p) []);
  let base := flat_map (fun x => match get theta x with Some y => [(x, y)] | None => [] end) (pslots p) in
  Ok (flat_map (fun choice => match insert_all_fun (base ++ concat choice) [] with Some sg => [sg] | None => [] end)
               (cartesian per)).

Definition sigma_okb_w (s' : egraph) (p : pattern) (theta : slotmap) (zeta : subst) (a : appid) (r : mrec) (sigma : slotmap) : bool :=
  forallb (fun x => match get theta x, get sigma x with Some y, Some z => y =? z | _, _ => false end) (pslots p) &&
  forallb (fun v => match sub_get (mr_sb r) v, sub_get zeta v with
                    | Some b, Some c => eq_trueb (eg_eq s' (rn sigma b) c)
                    | _, _ => false
                    end) (pat_vars p) &&
  (mr_id r =? aid a) && eq_trueb (eg_eq s' (rn sigma (mr_root r)) a).

Definition describes_wb (s' : egraph) (p : pattern) (theta : slotmap) (zeta : subst) (a : appid) (r : mrec) : bool :=
  match sigma_cands_w s' p theta (mr_sb r) zeta with
  | Ok cs => existsb (sigma_okb_w s' p theta zeta a r) cs
  | Err _ => false
  end.

Lemma describes_wb_sound : forall s' p theta zeta a r, describes_wb s' p theta zeta a r = true -> describes_w s' p theta zeta a r.
Proof.
  intros s' p theta zeta a r H. unfold describes_wb in H.
  destruct (sigma_cands_w s' p theta (mr_sb r) zeta) as [cs|e]; [|discriminate].
  apply existsb_exists in H. destruct H as (sigma & _ & H). unfold sigma_okb_w in H.
  apply andb_true_iff in H. destruct H as [H H5]. apply andb_true_iff in H. destruct H as [H H4].
  apply andb_true_iff in H. destruct H as [H2 H3].
  exists sigma. split; [|split; [|split]].
  - intros x Hx. rewrite forallb_forall in H2. specialize (H2 x Hx).
    destruct (get theta x) as [y|]; [|discriminate]. destruct (get sigma x) as [z|]; [|discriminate].
    apply N.eqb_eq in H2. subst z. exists y. split; reflexivity.
  - intros v Hv. rewrite forallb_forall in H3. specialize (H3 v Hv).
    destruct (sub_get (mr_sb r) v) as [b|]; [|discriminate]. destruct (sub_get zeta v) as [c|]; [|discriminate].
    exists b, c. split; [reflexivity|]. split; [reflexivity|]. apply eq_trueb_true. exact H3.
  - apply N.eqb_eq. exact H4.
  - apply eq_trueb_true. exact H5.
Qed.

Lemma describes_weaken : forall s' p theta zeta a r, describes s' p theta zeta a r -> describes_w s' p theta zeta a r.
Proof. intros s' p theta zeta a r (sigma & _ & H). exists sigma. exact H. Qed.

(* per-pattern report with the matcher run ONCE; D = describes_b (strict) or describes_wb (weak) *)
Definition report_gen (D : egraph -> pattern -> slotmap -> subst -> appid -> mrec -> bool)
    (s : egraph) (p : pattern) (insts : list (slotmap * subst)) : list (option (bool * bool)) :=
  let m := ematch_all_r p s in
  map (fun tz : slotmap * subst =>
         match lookup_pat s (pren (fst tz) p) (snd tz) with
         | Ok (Some a) =>
             match m with
             | Ok (l, s') => Some (true, existsb (D s' p (fst tz) (snd tz) a) l)
             | Err _ => None
             end
         | Ok None => Some (false, true)
         | Err _ => None
         end) insts.
Definition report_many := report_gen describes_b.
Definition report_many_w := report_gen describes_wb.

Lemma report_many_spec : forall s p insts,
  report_many s p insts = map (fun tz : slotmap * subst => complete_report s p (fst tz) (snd tz)) insts.
Proof. intros s p insts. reflexivity. Qed.

(* ------------------------------------------------------------------ *)
(* 2. PATTERNS FROM THE GROUND TERMS: every generalization of a term (any set of subterms replaced by variables) *)

(* nm path t : the name of the variable put for the subterm t at position path *)
Fixpoint gens (nm : list N -> rterm -> text) (path : list N) (t : rterm) {struct t} : list pattern :=
  PVarP (nm path t) ::
  match t with
  | RT n ch =>
      map (PNode n)
          (cartesian ((fix go (l : list rterm) (i : N) {struct l} : list (list pattern) :=
                         match l with
                         | [] => []
                         | c :: r => gens nm (path ++ [i]) c :: go r (i + 1)
                         end) ch 0))
  end.

Fixpoint idx_by (f : rterm -> bool) (env : list rterm) (k : N) : N :=
  match env with
  | [] => k
  | u :: r => if f u then k else idx_by f r (k + 1)
  end.

(* distinct variables: the name is the position *)
Definition nm_lin (path : list N) (_ : rterm) : text := 120 :: path.
(* equal names for syntactically equal subterms *)
Definition nm_syn (P0 : list rterm) (_ : list N) (t : rterm) : text := [120 + idx_by (rterm_eqb t) P0 0].
(* equal names for subterms with equal handles *)
Definition nm_sem (s : egraph) (P0 : list rterm) (_ : list N) (t : rterm) : text :=
  [120 + idx_by (fun u => match lookup_rec s t, lookup_rec s u with
                          | Ok (Some a), Ok (Some b) => eq_trueb (eg_eq s a b)
                          | _, _ => rterm_eqb t u
                          end) P0 0].

Fixpoint pattern_eqb (a b : pattern) {struct a} : bool :=
  match a, b with
  | PVarP v, PVarP w => text_eqb v w
  | PNode n ch, PNode m cs =>
      node_eqb n m &&
      (fix go (l : list pattern) (r : list pattern) {struct l} : bool :=
         match l, r with
         | [], [] => true
         | x :: l', y :: r' => pattern_eqb x y && go l' r'
         | _, _ => false
         end) ch cs
  | _, _ => false
  end.

Fixpoint pdedup (l : list pattern) (seen : list pattern) : list pattern :=
  match l with
  | [] => []
  | t :: r => if existsb (pattern_eqb t) seen then pdedup r seen else t :: pdedup r (t :: seen)
  end.

Definition nestedb (p : pattern) : bool :=
  match p with
  | PNode _ ch => existsb (fun c => match c with PNode _ _ => true | _ => false end) ch
  | _ => false
  end.
Definition has_rep (p : pattern) : bool := negb (Nat.eqb (List.length (tdedup (pat_vars p) [])) (List.length (pat_vars p))).
Definition linb (p : pattern) : bool := negb (has_rep p).

(* binder scope: every bound name bound once in the whole pattern, and used only below its binder *)
Fixpoint pbinders (p : pattern) : list slot :=
  match p with
  | PNode n ch => binders n ++ (fix go (l : list pattern) : list slot := match l with [] => [] | c :: r => pbinders c ++ go r end) ch
  | _ => []
  end.
Fixpoint pfree (p : pattern) : list slot :=
  match p with
  | PNode n ch =>
      pub_occ n ++
      filter (fun x => negb (existsb (N.eqb x) (binders n)))
             ((fix go (l : list pattern) : list slot := match l with [] => [] | c :: r => pfree c ++ go r end) ch)
  | _ => []
  end.
Fixpoint node_scopeb (p : pattern) : bool :=
  match p with
  | PNode n ch =>
      forallb (fun x => negb (existsb (N.eqb x) (binders n))) (pub_occ n) &&
      (fix go (l : list pattern) : bool := match l with [] => true | c :: r => node_scopeb c && go r end) ch
  | _ => true
  end.
Definition bind_scopeb (p : pattern) : bool :=
  nodupb (pbinders p) && node_scopeb p && forallb (fun x => negb (existsb (N.eqb x) (pbinders p))) (pfree p).

(* the histories of the 14 states *)
Definition c_hist : list (list rterm * list hop) :=
  [ (xT1, xO1); (xT2, xO2); (xT3, xO3); (xT4, xO4); (xT5, xO5); (xT6, xO6); (xT7, xO7);
    (xT1, firstn 7 xO1); (xT4, firstn 9 xO4); (xT6, firstn 15 xO6);
    (rT1, rO1); (rT2, rO2); (xT5, firstn 10 xO5); (xT2, firstn 7 xO2) ].
Example c_hist_states : map (fun h => st_of (fst h) (snd h)) c_hist = c_states.
Proof. reflexivity. Qed.

(* four more histories with REPEATED subterms: dT1/dO1 (symmetric class bin4(var,var), binder; no redundant slot),
   dT1/dO3 (the same, then var $2 = constant: redundant slot), dT2/dO2 (symmetric leaf class; no redundant slot),
   dT2/dO4 (the same + s2 $2 $6 = s2 $2 $10: redundant slot) *)
Definition dT1 : list rterm :=
  [ xs1 7 2; xbin 4 (xs1 7 2) (xs1 7 2); xbin 8 (xbin 4 (xs1 7 2) (xs1 7 2)) (xs1 7 2);
    xbin 8 (xs1 7 2) (xbin 4 (xs1 7 2) (xs1 7 6)); xun 3 (xbin 4 (xs1 7 2) (xs1 7 2)); xlam 2 (xbin 4 (xs1 7 2) (xs1 7 2));
    xbin 8 (xbin 4 (xs1 7 2) (xs1 7 6)) (xbin 4 (xs1 7 2) (xs1 7 6));
    xbin 8 (xbin 4 (xs1 7 2) (xs1 7 6)) (xbin 4 (xs1 7 6) (xs1 7 2));
    xbin 4 (xs1 7 2) (xs1 7 6); xbin 4 (xs1 7 6) (xs1 7 2); xc0 5 ].
Definition dO1 : list hop :=
  [HAdd 0; HAdd 1; HAdd 2; HAdd 3; HAdd 4; HAdd 5; HAdd 6; HAdd 7; HAdd 8; HAdd 9; xU 8 9;
   HAdd 0; HAdd 1; HAdd 2; HAdd 3; HAdd 4; HAdd 5; HAdd 6; HAdd 7].
Definition dO3 : list hop := dO1 ++ [HAdd 10; xU 0 18; HAdd 1; HAdd 2; HAdd 3; HAdd 4; HAdd 5; HAdd 6; HAdd 7].
Definition dT2 : list rterm :=
  [ xs2 2 2 6; xs2 2 6 2; xbin 4 (xs2 2 2 6) (xs2 2 2 6); xbin 4 (xs2 2 2 6) (xs2 2 6 2);
    xbin 8 (xun 3 (xs2 2 2 6)) (xs2 2 2 6); xbin 8 (xun 3 (xs2 2 2 6)) (xs2 2 6 2); xun 3 (xs2 2 2 6); xs2 2 2 10 ].
Definition dO2 : list hop :=
  [HAdd 0; HAdd 1; HAdd 2; HAdd 3; HAdd 4; HAdd 5; HAdd 6; xU 0 1; HAdd 2; HAdd 3; HAdd 4; HAdd 5; HAdd 6].
Definition dO4 : list hop := dO2 ++ [HAdd 7; xU 0 12; HAdd 2; HAdd 3; HAdd 4; HAdd 5; HAdd 6].

Definition all_hist : list (list rterm * list hop) := c_hist ++ [(dT1, dO1); (dT1, dO3); (dT2, dO2); (dT2, dO4)].

Example all_hist_run : forallb (fun h => match run_ops (fst h) (snd h) [] empty_egraph with Ok _ => true | Err _ => false end) all_hist = true.
Proof. vm_compute. reflexivity. Qed.

(* every nonempty prefix of every history *)
Definition prefixes (h : list rterm * list hop) : list (list rterm * list hop) :=
  map (fun k => (fst h, firstn k (snd h))) (seq 1 (List.length (snd h))).
Definition all_prefixes : list (list rterm * list hop) := flat_map prefixes all_hist.

Definition gen_pats (nm : list N -> rterm -> text) (T : list rterm) : list pattern :=
  filter (fun p => match p with PNode _ _ => true | _ => false end) (flat_map (gens nm []) (pool0 T)).

(* all generalizations of all history terms of all states *)
Definition lin_all : list pattern := Eval vm_compute in pdedup (flat_map (fun h => gen_pats nm_lin (fst h)) all_hist) [].
Definition rep_all : list pattern := Eval vm_compute in
  filter has_rep (pdedup (flat_map (fun h => gen_pats (nm_syn (pool0 (fst h))) (fst h) ++
                                             gen_pats (nm_sem (st_of (fst h) (snd h)) (pool0 (fst h))) (fst h)) all_hist) []).
Definition lin_pats : list pattern := Eval vm_compute in filter nestedb lin_all.            (* nested, distinct variables *)
Definition rep_pats : list pattern := Eval vm_compute in filter nestedb rep_all.            (* nested, a repeated variable *)
Definition rep1_pats : list pattern := Eval vm_compute in filter (fun p => negb (nestedb p)) rep_all.   (* depth one, repeated *)

(* (instances, represented, matched, errors) *)
Definition tally (l : list (option (bool * bool))) : nat * nat * nat * nat :=
  (List.length l,
   List.length (filter (fun r => match r with Some (true, _) => true | _ => false end) l),
   List.length (filter (fun r => match r with Some (true, true) => true | _ => false end) l),
   List.length (filter (fun r => match r with None => true | _ => false end) l)).

Definition insts_of (s : egraph) (P : list rterm) (p : pattern) : list (slotmap * subst) :=
  flat_map (fun t => match inst_of_term s p t with Some i => [i] | None => [] end) P.

Definition sum4 (l : list (nat * nat * nat * nat)) : nat * nat * nat * nat :=
  fold_right (fun a b => let '(a1, a2, a3, a4) := a in let '(b1, b2, b3, b4) := b in (a1 + b1, a2 + b2, a3 + b3, a4 + b4)%nat)
             (0, 0, 0, 0)%nat l.

Definition state_report (weak : bool) (ps : list pattern) (h : list rterm * list hop) : nat * nat * nat * nat :=
  let s := st_of (fst h) (snd h) in
  let P := pool s (fst h) in
  sum4 (map (fun p => if pat_belowb (Model.ctr s) p
                      then tally ((if weak then report_many_w else report_many) s p (insts_of s P p)) else (0, 0, 0, 0)%nat) ps).

Definition full_report (h : list rterm * list hop) :=
  (has_redundant (st_of (fst h) (snd h)),
   [state_report false lin_pats h; state_report true lin_pats h;
    state_report false rep_pats h; state_report true rep_pats h;
    state_report false rep1_pats h; state_report true rep1_pats h]).

(* no slot name of the pattern occurs in two different nodes *)
Fixpoint node_slot_sets (p : pattern) : list slot :=
  match p with
  | PNode n ch => nodup N.eq_dec (all_occ n) ++
                  (fix go (l : list pattern) : list slot := match l with [] => [] | c :: r => node_slot_sets c ++ go r end) ch
  | _ => []
  end.
Definition slot_linb (p : pattern) : bool := nodupb (node_slot_sets p).

Definition is_red (h : list rterm * list hop) : bool :=
  match has_redundant (st_of (fst h) (snd h)) with Ok false => false | _ => true end.
Definition nonred_prefixes : list (list rterm * list hop) := Eval vm_compute in filter (fun h => negb (is_red h)) all_prefixes.
Definition red_prefixes : list (list rterm * list hop) := Eval vm_compute in filter is_red all_prefixes.
Definition slotlin_pats : list pattern := Eval vm_compute in filter slot_linb lin_pats.

Definition fam_report (weak : bool) (ps : list pattern) (hs : list (list rterm * list hop)) : nat * nat * nat * nat :=
  sum4 (map (state_report weak ps) hs).

(* ------------------------------------------------------------------ *)
(* 3. SOUNDNESS OF THE FAMILY CHECKS *)
Definition okr (r : option (bool * bool)) : bool := match r with Some (_, m) => m | None => false end.

Section Gen.
  Variable D : egraph -> pattern -> slotmap -> subst -> appid -> mrec -> bool.
  Variable DP : egraph -> pattern -> slotmap -> subst -> appid -> mrec -> Prop.
  Hypothesis D_sound : forall s' p theta zeta a r, D s' p theta zeta a r = true -> DP s' p theta zeta a r.

  Definition complete_gen (s : egraph) (p : pattern) (theta : slotmap) (zeta : subst) : Prop :=
    forall a, lookup_pat s (pren theta p) zeta = Ok (Some a) ->
    forall l s', ematch_all_r p s = Ok (l, s') -> exists r, In r l /\ DP s' p theta zeta a r.

  Lemma report_gen_sound : forall s p insts, forallb okr (report_gen D s p insts) = true ->
    forall theta zeta, In (theta, zeta) insts -> complete_gen s p theta zeta.
  Proof.
    intros s p insts H theta zeta Hin a Ha l s' E. unfold report_gen in H. cbv zeta in H.
    rewrite forallb_forall in H.
    match type of H with forall x, In x (map ?f _) -> _ => specialize (H _ (in_map f insts (theta, zeta) Hin)) end.
    cbv beta in H. cbn [fst snd] in H. rewrite Ha, E in H. unfold okr in H.
    apply existsb_exists in H. destruct H as (r & Hr & H). exists r. split; [exact Hr|]. apply D_sound. exact H.
  Qed.

  Definition fam_okb (ps : list pattern) (hs : list (list rterm * list hop)) : bool :=
    forallb (fun h : list rterm * list hop =>
               let s := st_of (fst h) (snd h) in
               let P := pool s (fst h) in
               forallb (fun p => if pat_belowb (Model.ctr s) p then forallb okr (report_gen D s p (insts_of s P p)) else true) ps) hs.

  Theorem fam_okb_sound : forall ps hs, fam_okb ps hs = true ->
    forall h p t theta zeta, In h hs -> In p ps ->
    pat_belowb (Model.ctr (st_of (fst h) (snd h))) p = true ->
    In t (pool (st_of (fst h) (snd h)) (fst h)) ->
    inst_of_term (st_of (fst h) (snd h)) p t = Some (theta, zeta) ->
    complete_gen (st_of (fst h) (snd h)) p theta zeta.
  Proof.
    intros ps hs H h p t theta zeta Hh Hp Hb Ht Hi. unfold fam_okb in H.
    rewrite forallb_forall in H. specialize (H h Hh). cbv zeta in H.
    rewrite forallb_forall in H. specialize (H p Hp). rewrite Hb in H.
    eapply report_gen_sound; [exact H|]. unfold insts_of. apply in_flat_map. exists t. split; [exact Ht|].
    rewrite Hi. left. reflexivity.
  Qed.
End Gen.

(* strict: `complete_gen describes` IS `complete_for` *)
Definition fam_okb_strict := fam_okb describes_b.
Definition fam_okb_weak := fam_okb describes_wb.
Definition complete_w_for := complete_gen describes_w.

Theorem fam_okb_strict_sound : forall ps hs, fam_okb_strict ps hs = true ->
  forall h p t theta zeta, In h hs -> In p ps ->
  pat_belowb (Model.ctr (st_of (fst h) (snd h))) p = true ->
  In t (pool (st_of (fst h) (snd h)) (fst h)) ->
  inst_of_term (st_of (fst h) (snd h)) p t = Some (theta, zeta) ->
  complete_for (st_of (fst h) (snd h)) p theta zeta.
Proof. exact (fam_okb_sound describes_b describes describes_b_sound). Qed.

Theorem fam_okb_weak_sound : forall ps hs, fam_okb_weak ps hs = true ->
  forall h p t theta zeta, In h hs -> In p ps ->
  pat_belowb (Model.ctr (st_of (fst h) (snd h))) p = true ->
  In t (pool (st_of (fst h) (snd h)) (fst h)) ->
  inst_of_term (st_of (fst h) (snd h)) p t = Some (theta, zeta) ->
  complete_w_for (st_of (fst h) (snd h)) p theta zeta.
Proof. exact (fam_okb_sound describes_wb describes_w describes_wb_sound). Qed.

Lemma complete_for_weaken : forall s p theta zeta, complete_for s p theta zeta -> complete_w_for s p theta zeta.
Proof.
  intros s p theta zeta H a Ha l s' E. destruct (H a Ha l s' E) as (r & Hr & Dr).
  exists r. split; [exact Hr|apply describes_weaken; exact Dr].
Qed.

(* ------------------------------------------------------------------ *)
(* 4. EVALUATION *)

Fixpoint pdepth (p : pattern) : nat :=
  match p with
  | PNode _ ch => S ((fix go (l : list pattern) : nat := match l with [] => O | c :: r => Nat.max (pdepth c) (go r) end) ch)
  | _ => O
  end.

(* the pattern families: sizes, scope, depths *)
Example families_checked :
  (List.length lin_pats, List.length rep_pats, List.length rep1_pats, List.length slotlin_pats) = (142, 45, 7, 89)%nat /\
  forallb bind_scopeb (lin_pats ++ rep_pats ++ rep1_pats) = true /\
  forallb linb lin_pats = true /\ forallb nestedb (lin_pats ++ rep_pats) = true /\
  forallb has_rep (rep_pats ++ rep1_pats) = true /\ existsb nestedb rep1_pats = false /\
  (List.length all_prefixes, List.length nonred_prefixes, List.length red_prefixes) = (268, 213, 55)%nat.
Proof. vm_compute. repeat split; reflexivity. Qed.
Example depths_checked :
  (map (fun d => List.length (filter (fun p => Nat.eqb (pdepth p) d) lin_pats)) [2; 3; 4]%nat,
   map (fun d => List.length (filter (fun p => Nat.eqb (pdepth p) d) rep_pats)) [2; 3; 4]%nat)
  = ([75; 66; 1]%nat, [14; 31; 0]%nat).
Proof. vm_compute. reflexivity. Qed.

Definition complete_report_w (s : egraph) (p : pattern) (theta : slotmap) (zeta : subst) : option (bool * bool) :=
  match report_many_w s p [(theta, zeta)] with [r] => r | _ => None end.

Definition s_x4 : egraph := st_of xT4 xO4.
Definition s_r1 : egraph := st_of rT1 rO1.
Definition s_r1_pre : egraph := st_of rT1 (firstn 4 rO1).
Definition s_d1 : egraph := st_of dT1 dO1.
Definition s_d3 : egraph := st_of dT1 dO3.
Definition p_lam_use : pattern := PNode (nd_lam 6) [PNode (nd_s2 2 2 6) []].
Definition p_shared : pattern := PNode (nd_bin 4) [PNode (nd_s2 2 2 6) []; PNode (nd_s2 2 6 2) []].
Definition p_linear : pattern := PNode (nd_bin 4) [vx; PNode (nd_s2 2 6 2) []].
Definition p_rep_nested : pattern := PNode (nd_bin 8) [PNode (nd_bin 4) [vx; vx]; vx].
Definition id26 : slotmap := [(2, 2); (6, 6)].


(* --- (T1) NO REDUNDANT SLOT: strictly complete, distinct or repeated variables, nested or not --- *)
Example T1_nonredundant_lin_complete :
  fam_okb_strict lin_pats nonred_prefixes = true /\ fam_report false lin_pats nonred_prefixes = (10527, 8768, 8768, 0)%nat.
Proof. vm_compute. split; reflexivity. Qed.
Example T1_nonredundant_rep_complete :
  fam_okb_strict rep_pats nonred_prefixes = true /\ fam_report false rep_pats nonred_prefixes = (4507, 1304, 1304, 0)%nat.
Proof. vm_compute. split; reflexivity. Qed.
Example T1_nonredundant_rep1_complete :
  fam_okb_strict rep1_pats nonred_prefixes = true /\ fam_report false rep1_pats nonred_prefixes = (2575, 1208, 1208, 0)%nat.
Proof. vm_compute. split; reflexivity. Qed.

(* --- (T2) DEPTH ONE with a repeated variable: strictly complete on the states WITH a redundant slot too --- *)
Example T2_redundant_rep1_complete :
  fam_okb_strict rep1_pats red_prefixes = true /\ fam_report false rep1_pats red_prefixes = (2630, 1853, 1853, 0)%nat.
Proof. vm_compute. split; reflexivity. Qed.

(* --- (T3) REDUNDANT SLOTS, distinct variables, no slot name in two nodes: WEAKLY complete, not strictly --- *)
Example T3_redundant_slotlin_weak_complete :
  fam_okb_weak slotlin_pats red_prefixes = true /\ fam_report true slotlin_pats red_prefixes = (7362, 7362, 7362, 0)%nat /\
  fam_report false slotlin_pats red_prefixes = (7362, 7362, 6786, 0)%nat.
Proof. vm_compute. repeat split; reflexivity. Qed.

(* --- (F) REDUNDANT SLOTS: what fails (instances, represented, matched, errors) --- *)
Example F_redundant_counts :
  fam_report false lin_pats red_prefixes = (8813, 8813, 7009, 0)%nat /\      (* nested, distinct variables: strict *)
  fam_report true lin_pats red_prefixes = (8813, 8813, 7585, 0)%nat /\       (* the same, weak *)
  fam_report false rep_pats red_prefixes = (5159, 4550, 4208, 0)%nat /\      (* nested, repeated variable: strict *)
  fam_report true rep_pats red_prefixes = (5159, 4550, 4210, 0)%nat /\       (* the same, weak *)
  fam_report true (filter slot_linb rep_pats) red_prefixes = (4823, 4214, 4210, 0)%nat.  (* repeated, slot-linear, weak *)
Proof. vm_compute. repeat split; reflexivity. Qed.

(* --- MINIMAL COUNTEREXAMPLES (explicit instances, `complete_report` of MatchComplete.v) --- *)

(* (CE1) two nodes, NO variable: a bound slot name used below its binder, the use at a redundant position.
   lam $6. (s2 $2 $6) in the lambda history xT4/xO4 (both slots of the class of s2 redundant): represented, not matched,
   not even weakly; matched on the prefix of the same history before the redundancy appears. *)
Example CE1_redundant_binder_use_incomplete :
  valid_stateb s_x4 = true /\ has_redundant s_x4 = Ok true /\
  bind_scopeb p_lam_use = true /\ linb p_lam_use = true /\ pat_vars p_lam_use = [] /\
  complete_report s_x4 p_lam_use id26 [] = Some (true, false) /\
  complete_report_w s_x4 p_lam_use id26 [] = Some (true, false) /\
  has_redundant (st_of xT4 (firstn 9 xO4)) = Ok false /\
  complete_report (st_of xT4 (firstn 9 xO4)) p_lam_use id26 [] = Some (true, true).
Proof. vm_compute. repeat split; reflexivity. Qed.

(* (CE2) NO variable, NO binder: a slot name in two sibling nodes, both at redundant positions:
   bin4 (s2 $2 $6) (s2 $6 $2) with s2 $2 $6 = s2 $2 $10 *)
Example CE2_redundant_shared_slot_incomplete :
  valid_stateb s_r1 = true /\ has_redundant s_r1 = Ok true /\ bind_scopeb p_shared = true /\ pat_vars p_shared = [] /\
  complete_report s_r1 p_shared id26 [] = Some (true, false) /\
  complete_report_w s_r1 p_shared id26 [] = Some (true, false) /\
  has_redundant s_r1_pre = Ok false /\ complete_report s_r1_pre p_shared id26 [] = Some (true, true).
Proof. vm_compute. repeat split; reflexivity. Qed.

(* (CE3) ONE variable, every slot name in one node only: the instance identifies a slot of the variable's binding with
   the pattern's slot name at the redundant position: the match found is MORE GENERAL (weakly described), no bijective
   sigma exists:  bin4 ?x (s2 $6 $2), ?x := s2 $2 $6 *)
Example CE3_redundant_linear_only_weak :
  slot_linb p_linear = true /\ linb p_linear = true /\
  complete_report s_r1 p_linear id26 [([120], hnd s_r1 (xs2 2 2 6))] = Some (true, false) /\
  complete_report_w s_r1 p_linear id26 [([120], hnd s_r1 (xs2 2 2 6))] = Some (true, true) /\
  complete_report s_r1_pre p_linear id26 [([120], hnd s_r1_pre (xs2 2 2 6))] = Some (true, true).
Proof. vm_compute. repeat split; reflexivity. Qed.

(* (CE4) `redundant_nested_incomplete` of MatchComplete.v (nesting + repeated variable + redundant slot, no slot name
   in the pattern at all): not weakly matched either *)
Example CE4_redundant_repeated_not_weak :
  slot_linb p_special2 = true /\
  complete_report_w s_r2 p_special [] [([120], hnd s_r2 (xs1 7 2))] = Some (true, false) /\
  complete_report_w s_r2 p_special2 [] [([120], hnd s_r2 (xs1 7 2))] = Some (true, false).
Proof. vm_compute. repeat split; reflexivity. Qed.

(* (P1) nesting + repeated variable WITHOUT a redundant slot: matched (f (sub ?x ?x) ?x, symmetric class of sub) *)
Example P1_nonredundant_repeated_nested_complete :
  valid_stateb s_d1 = true /\ has_redundant s_d1 = Ok false /\
  complete_report s_d1 p_rep_nested [] [([120], hnd s_d1 (xs1 7 2))] = Some (true, true).
Proof. vm_compute. repeat split; reflexivity. Qed.

Print Assumptions report_many_spec.
Print Assumptions describes_wb_sound.
Print Assumptions fam_okb_strict_sound.
Print Assumptions fam_okb_weak_sound.
Print Assumptions complete_for_weaken.
Print Assumptions c_hist_states.
Print Assumptions all_hist_run.
Print Assumptions families_checked.
Print Assumptions depths_checked.
Print Assumptions T1_nonredundant_lin_complete.
Print Assumptions T1_nonredundant_rep_complete.
Print Assumptions T1_nonredundant_rep1_complete.
Print Assumptions T2_redundant_rep1_complete.
Print Assumptions T3_redundant_slotlin_weak_complete.
Print Assumptions F_redundant_counts.
Print Assumptions CE1_redundant_binder_use_incomplete.
Print Assumptions CE2_redundant_shared_slot_incomplete.
Print Assumptions CE3_redundant_linear_only_weak.
Print Assumptions CE4_redundant_repeated_not_weak.
Print Assumptions P1_nonredundant_repeated_nested_complete.
