(* EGraph/MatchReprFacts.v — C04/C05 on the model: the E-GRAPH SIDE of the matcher theorems, discharged from the
   reachable-state invariants.

   State premises (all proved for every state of a run: `match_inv_reachable`):
     match_inv s := inv3 s /\ kids_ok s /\ m4 s /\ hc_ok s /\ pending s = [] /\ stored_live s
   `stored_live s` (EGraph/StoredLive.v, NEW invariant, proved reachable there: `stored_live_reachable`, with step
   theorems for move_to / union_internal / handle_pending / rebuild / eg_add / add_expr / eg_union): a class that
   stores an e-node is a leader ("dead classes are empty"); it gives that the class a lookup hits is LIVE
   (`stored_live_ids`), which the matcher needs since `ematch_all` only visits live classes.  No `ss_ok` is needed.

   1. `repr_hyp_proved` / `repr_hyp_reachable` (the remaining hypothesis of MatchComplete.v, closed):
        match_inv s -> Forall (covers s) (app_occ n) -> cleanp n -> repr_hyp s n
      with  cleanp n := NoDup (binders n) /\ forall x, In x (pub_occ n) -> ~ In x (binders n)   (EGraph/MatchReprAlg.v):
      the instance's bound names are pairwise distinct and not used free.  Premises on the INSTANCE n, not on the state:
      `covers` = every child invocation of the instance is defined on the slots of its class with an injective map (what
      `ematch_all_covers` gives for every substitution the matcher returns and `reachable_inv3` for every handle);
      `cleanp` is NECESSARY: `repr_needs_clean` (vm_compute, checker level; the matcher misses such instances:
      `bound_twice_incomplete`, `bound_and_free_incomplete` of MatchComplete.v).
      WITNESS (validated first by `repr_direct_checked` on all candidates of the 14 states): for the entry sh |-> (cb, src)
      the lookup hits, the node nn that `enodes_applied` lists for this entry (`listed_entry`, EGraph/MatchReprFix.v:
      wshape nn = Ok (sh, b_nn), b_nn = cb on the class slots, all class slots occur in nn, binders fresh and distinct),
      n2 := nn ITSELF (it heads its own variants: `variants_head`, hence its weak variants: `weak_variants_head`), and
      rho := the positional slot correspondence between nn and p = pre_shape s n (`same_wshape_rho`, MatchReprAlg.v: two clean
      nodes with one weak shape are renamings of each other by the positional bijection).  Children: p is a group variant
      of find_enode s n (`find_enode_kid_eq`, `variants_kid_eq`: children pairwise kid_eq); root: the invocation the lookup
      returns, filt c (inv cb ** bn), IS identity(c_slots c) ** rho (`ws_ren_get`), so eg_eq holds by reflexivity — this is
      why no self-symmetry completeness (ss_ok) is needed at depth one.
   2. `depth_one_complete_reachable` (= `d1_complete_from_repr` + 1), `depth_one_complete_ematch_all` (in terms of
      `ematch_all` and `eg_lookup`), `depth_one_complete_and_fires_reachable` (+ the rule fires: `d1_complete_and_fires`).
   3. `matches_are_represented_inv` (C05 direction, depth one): `H_fix` / `H_skel` of MatchLookup.v are discharged in
      EGraph/MatchReprFix.v (`listed_fix`, `listed_skel`, `listed_lkid`, `matches_are_represented_reachable`).
   4. Beyond depth one: EGraph/MatchReprDeep.v (evaluation of `complete_report` on nested patterns, precise scope,
      counterexamples).
   Remaining hypotheses: none for 1-3 (all theorems closed under the global context, premises as listed). *)
From SE Require Import Slots.SlotMapFacts Group.GroupSound Lang.LangFacts Lang.ShapeFacts Lang.RenameFacts
  Base.TextFacts Parse.Parser EGraph.Model EGraph.ModelFacts EGraph.ModelMachine EGraph.UnionFindFacts
  EGraph.InvariantFacts EGraph.UnionInvariantFacts EGraph.AddCoversFacts EGraph.HashconsShape EGraph.Mod4Facts
  EGraph.HashconsAbs EGraph.HashconsFacts EGraph.Rewrite EGraph.RewriteFacts EGraph.MatchDefs EGraph.MatchMachine
  EGraph.ProgressFacts EGraph.MatchFacts EGraph.SoundUnion EGraph.MonotoneFacts EGraph.MatchLookup
  EGraph.NodeCong EGraph.KidEqFacts EGraph.ShapeCong EGraph.CongruenceFacts EGraph.MatchComplete
  EGraph.MatchReprFix EGraph.MatchReprAlg EGraph.StoredLive EGraph.KidsFacts EGraph.PendingFacts EGraph.SoundAddExpr.
Require Import ZArith Lia ZifyBool ZifyN ZifyNat.

Local Notation "a ** b" := (compose_partial a b) (at level 40, left associativity).

(* ------------------------------------------------------------------ *)
(* 1. small facts *)

Lemma lookup_hit_inv : forall s n a, MatchMachine.eg_lookup s n = Ok (Some a) ->
  exists sh bn i c cb src, shape s n = Ok (sh, bn) /\ na_get (hashcons s) sh = Some i /\ get_class s i = Ok c /\
    na_get (c_nodes c) sh = Some (cb, src) /\
    a = {| aid := i; am := filter (fun p => sset_mem (fst p) (c_slots c)) (inverse_nocheck cb ** bn) |}.
Proof.
  intros s n a H. unfold MatchMachine.eg_lookup in H.
  destruct (shape s n) as [[sh bn]|] eqn:Hsh; cbn [bind] in H; [|discriminate].
  unfold lookup_internal in H. destruct (na_get (hashcons s) sh) as [i|] eqn:Hh; [|discriminate].
  destruct (get_class s i) as [c|] eqn:Hc; cbn [bind] in H; [|discriminate].
  destruct (na_get (c_nodes c) sh) as [[cb src]|] eqn:Hn; [|discriminate].
  inversion H. exists sh, bn, i, c, cb, src. repeat split; try assumption; reflexivity.
Qed.

Lemma Forall2_refl_in : forall {A} (P : A -> A -> Prop) l, (forall x, In x l -> P x x) -> Forall2 P l l.
Proof.
  intros A P. induction l as [|x t IH]; intros H; constructor; [apply H; left; reflexivity|].
  apply IH. intros y Hy. apply H. right; exact Hy.
Qed.

Lemma Forall2_trans3 : forall {A} (P Q R : A -> A -> Prop) l1 l2 l3,
  (forall x y z, P x y -> Q y z -> R x z) -> Forall2 P l1 l2 -> Forall2 Q l2 l3 -> Forall2 R l1 l3.
Proof.
  intros A P Q R l1 l2 l3 H F. revert l3. induction F as [|x y t1 t2 Hxy F IH]; intros l3 G; inversion G; subst; constructor.
  - eapply H; eauto.
  - apply IH. assumption.
Qed.

Lemma kid_eq_refl_canon : forall s a, eg_inv s -> canon_ok s a -> kid_eq s a a.
Proof.
  intros s a Hs Ca. pose proof (canon_covers _ _ Ca) as Cv. split; [exact Cv|]. split; [exact Cv|].
  apply eg_eq_refl_inv; [exact (ei_uf _ Hs)|exact (ei_slots _ Hs)|exact Cv].
Qed.

(* find_enode replaces the children by eg-equal ones *)
Lemma find_enode_kid_eq : forall s n N, eg_inv s -> Forall (covers s) (app_occ n) -> find_enode s n = Ok N ->
  N = set_apps n (app_occ N) /\ List.length (app_occ N) = List.length (app_occ n) /\
  Forall2 (kid_eq s) (app_occ n) (app_occ N).
Proof.
  intros s n N Hs Cv F. unfold find_enode in F.
  destruct (mapr (find_applied_id s) (app_occ n)) as [l|] eqn:El; cbn [bind] in F; [|discriminate].
  inversion F; subst N; clear F. pose proof (mapr_length _ _ _ El) as Len.
  rewrite app_occ_set_apps by exact Len. split; [reflexivity|]. split; [exact Len|].
  apply mapr_ok in El. clear Len. revert Cv. induction El as [|x y lx ly Hxy El IH]; intros Cv; [constructor|].
  inversion Cv as [|? ? Cx Ct]; subst. constructor; [apply kid_eq_find; assumption|apply IH; exact Ct].
Qed.

(* a group variant replaces the children by eg-equal ones *)
Lemma variants_kid_eq : forall s N vs v, eg_inv s -> (forall a, In a (app_occ N) -> canon_ok s a /\ lkid s a) ->
  variants s N = Ok vs -> In v vs ->
  v = set_apps N (app_occ v) /\ List.length (app_occ v) = List.length (app_occ N) /\
  Forall2 (kid_eq s) (app_occ N) (app_occ v).
Proof.
  intros s N vs v Hs FK H Hv. unfold variants in H.
  destruct (mapr (fun a => get_class s (aid a)) (app_occ N)) as [cls|] eqn:Ec; cbn [bind] in H; [|discriminate].
  destruct (forallb _ cls).
  - inversion H; subst vs. destruct Hv as [<-|[]]. split; [symmetry; apply set_apps_self|]. split; [reflexivity|].
    apply Forall2_refl_in. intros a Ha. apply kid_eq_refl_canon; [exact Hs|exact (proj1 (FK a Ha))].
  - destruct (mapr _ cls) as [groups|] eqn:Eg; cbn [bind] in H; [|discriminate]. inversion H; subst vs; clear H.
    apply in_map_iff in Hv. destruct Hv as (l & <- & Hl). fold gvar.
    pose proof (mapr_mapr_F2 (fun a => canon_ok s a /\ lkid s a) _ _ _ _ _ FK Ec Eg) as F2.
    assert (Z : Forall2 (kid_eq s) (app_occ N) (zip_with gvar (app_occ N) l)).
    { apply (zip_cart_gvar (kid_eq s) (app_occ N) groups); [|exact Hl].
      revert F2. apply Forall2_imp. intros a g ((Ca & La) & c & Hc & Hg) pp Hpp.
      exact (gvar_eg_eq s a c g pp Hs Ca La Hc Hg Hpp). }
    pose proof (Forall2_length' _ _ _ Z) as Len.
    rewrite app_occ_set_apps by exact Len. split; [|split; [exact Len|exact Z]].
    reflexivity.
Qed.

(* nullify forgets the children *)
Lemma nul_f_set_apps_f : forall a l, nul_f (fst (set_apps_f a l)) = nul_f a.
Proof.
  induction a as [x|x|x b IH|p]; intros l; cbn [set_apps_f nul_f fst]; try reflexivity.
  - destruct l; reflexivity.
  - specialize (IH l). destruct (set_apps_f b l) as [b' l']. cbn [fst nul_f] in *. rewrite IH. reflexivity.
Qed.

Lemma nullify_set_apps : forall n l, nullify (set_apps n l) = nullify n.
Proof.
  intros n l. rewrite !nullify_eq. unfold set_apps. cbn [nvar nargs]. f_equal. revert l.
  induction (nargs n) as [|a t IH]; intros l; cbn [set_apps_args map]; [reflexivity|].
  pose proof (nul_f_set_apps_f a l) as E. destruct (set_apps_f a l) as [a' l']. cbn [fst] in E. cbn [map].
  rewrite E, IH. reflexivity.
Qed.

Lemma nul_f_ren_f : forall g a bd, nul_f (ren_f g bd a) = ren_f g bd (nul_f a).
Proof.
  intros g. induction a as [x|x|x b IH|p]; intros bd; cbn [ren_f nul_f]; try reflexivity.
  rewrite IH. reflexivity.
Qed.

Lemma nullify_ren : forall g n, nullify (RenameFacts.ren g n) = RenameFacts.ren g (nullify n).
Proof.
  intros g n. rewrite !nullify_eq. unfold RenameFacts.ren. cbn [nvar nargs]. f_equal.
  rewrite !map_map. apply map_ext. intros a. apply nul_f_ren_f.
Qed.

Lemma binders_nul_f : forall a, binders_f (nul_f a) = binders_f a.
Proof. induction a as [x|x|x b IH|p]; cbn [nul_f binders_f]; try reflexivity. rewrite IH. reflexivity. Qed.

Lemma binders_nullify : forall n, binders (nullify n) = binders n.
Proof.
  intros n. rewrite nullify_eq. unfold binders. cbn [nargs]. induction (nargs n) as [|a t IH]; cbn [map flat_map]; [reflexivity|].
  rewrite binders_nul_f, IH. reflexivity.
Qed.

Lemma all_occ_nul_f : forall a x, In x (all_occ_f (nul_f a)) -> In x (all_occ_f a).
Proof.
  induction a as [y|y|y b IH|p]; intros x Hx; cbn [nul_f all_occ_f] in *; try assumption.
  - cbn in Hx. contradiction.
  - destruct Hx as [Hx|Hx]; [left; exact Hx|right; apply IH; exact Hx].
Qed.

Lemma all_occ_nullify : forall n x, In x (all_occ (nullify n)) -> In x (all_occ n).
Proof.
  intros n x Hx. rewrite nullify_eq in Hx. unfold all_occ in *. cbn [nargs] in Hx.
  apply in_flat_map in Hx. destruct Hx as (a' & Ha' & Hx). apply in_map_iff in Ha'. destruct Ha' as (a & <- & Ha).
  apply in_flat_map. exists a. split; [exact Ha|apply all_occ_nul_f; exact Hx].
Qed.

(* the enumeration of the variants of a node with canonical children starts with the node itself *)
Lemma cartesian_head : forall apps (groups : list (list perm)),
  Forall2 (fun a G => exists h tl, G = h :: tl /\ gvar a h = a) apps groups ->
  exists l0 rest, cartesian groups = l0 :: rest /\ zip_with gvar apps l0 = apps.
Proof.
  intros apps groups F. induction F as [|a G apps' groups' (h & tl & -> & Eh) _ (l0 & rest & Ec & Ez)].
  - exists [], []. split; reflexivity.
  - cbn [cartesian]. rewrite Ec. cbn [flat_map map app].
    eexists (h :: l0), _. split; [reflexivity|]. cbn [zip_with]. rewrite Eh, Ez. reflexivity.
Qed.

Lemma variants_head : forall s nn vs, (forall a, In a (app_occ nn) -> lkid s a) -> variants s nn = Ok vs ->
  exists tl, vs = nn :: tl.
Proof.
  intros s nn vs Lk H. unfold variants in H.
  destruct (mapr (fun a => get_class s (aid a)) (app_occ nn)) as [cls|] eqn:Ec; cbn [bind] in H; [|discriminate].
  destruct (forallb _ cls).
  - inversion H. exists []. reflexivity.
  - destruct (mapr _ cls) as [groups|] eqn:Eg; cbn [bind] in H; [|discriminate]. inversion H; subst vs; clear H. fold gvar.
    pose proof (mapr_mapr_F2 (lkid s) _ _ _ _ _ Lk Ec Eg) as F2.
    destruct (cartesian_head (app_occ nn) groups) as (l0 & rest & Ecart & Ez).
    { revert F2. apply Forall2_imp. intros a G (La & c & Hc & HG).
      assert (Hg : grp_ok c).
      { destruct La as (e & c' & _ & _ & Hc' & Hg & _). rewrite Hc in Hc'. inversion Hc'; subst. exact Hg. }
      destruct (grp_facts c G Hg HG) as (_ & _ & (tl & Hhd)).
      exists (identity (c_slots c)), tl. split; [exact Hhd|]. exact (gvar_id s a c La Hc). }
    rewrite Ecart. cbn [map]. eexists. apply f_equal2; [|reflexivity].
    transitivity (set_apps nn (app_occ nn)); [|apply set_apps_self]. apply f_equal. exact Ez.
Qed.

Fixpoint wv_go (l : list node) (shapes : list node) : res (list node) :=
  match l with
  | [] => Ok []
  | x :: t =>
      do sh <- wshape x;
      if existsb (node_eqb (fst sh)) shapes then wv_go t shapes
      else do r <- wv_go t (fst sh :: shapes); Ok (x :: r)
  end.

Lemma weak_variants_go : forall s n, weak_variants s n = do vs <- variants s n; wv_go vs [].
Proof. reflexivity. Qed.

Lemma wv_go_total : forall l shapes, exists r, wv_go l shapes = Ok r.
Proof.
  induction l as [|x t IH]; intros shapes; [exists []; reflexivity|].
  destruct (weak_shape_total false x) as (shx & bx & Wx). cbn [wv_go]. unfold wshape. rewrite Wx. cbn [bind fst].
  destruct (existsb (node_eqb shx) shapes); [apply IH|].
  destruct (IH (shx :: shapes)) as (r & Er). rewrite Er. cbn [bind]. eexists; reflexivity.
Qed.

Lemma weak_variants_head : forall s nn tl, variants s nn = Ok (nn :: tl) -> exists r, weak_variants s nn = Ok (nn :: r).
Proof.
  intros s nn tl H. rewrite weak_variants_go, H. cbn [bind wv_go].
  destruct (weak_shape_total false nn) as (shn & bn & Wn). unfold wshape. rewrite Wn. cbn [bind fst existsb].
  destruct (wv_go_total tl [shn]) as (r & Er). rewrite Er. cbn [bind]. exists r. reflexivity.
Qed.

(* a flagless injective renaming satisfies ren_ok on a node without public/bound name clashes *)
Lemma ren_ok_flagless : forall rho n, injective rho -> (forall x, In x (all_occ n) -> get rho x <> None) ->
  (forall x, In x (pub_occ n) -> ~ In x (binders n)) ->
  ren_ok (g_of rho) n.
Proof.
  intros rho n Inj Def Cl.
  assert (J : forall x y, In x (all_occ n) -> In y (all_occ n) -> g_of rho true x = g_of rho true y -> x = y).
  { intros x y Hx Hy E. unfold g_of in E.
    destruct (get rho x) as [u|] eqn:Gx; [|exfalso; exact (Def x Hx Gx)].
    destruct (get rho y) as [v|] eqn:Gy; [|exfalso; exact (Def y Hy Gy)]. subst v. eapply Inj; eauto. }
  split; [|split].
  - intros x y Hx Hy E. apply J; [apply binders_all_occ; exact Hx|apply binders_all_occ; exact Hy|exact E].
  - intros x b Hx Hb E.
    assert (x = b) by (apply J; [apply pub_occ_all_occ; exact Hx|apply binders_all_occ; exact Hb|exact E]).
    subst b. exact (Cl x Hx Hb).
  - intros x y Hx Hy E. apply J; [apply pub_occ_all_occ; exact Hx|apply pub_occ_all_occ; exact Hy|exact E].
Qed.

Lemma pub_occ_nul_f : forall a x, In x (pub_occ_f (nul_f a)) -> In x (pub_occ_f a).
Proof.
  induction a as [y|y|y b IH|p]; intros x Hx; cbn [nul_f pub_occ_f] in *; try assumption.
  - cbn in Hx. contradiction.
  - apply filter_In in Hx. destruct Hx as [Hx E]. apply filter_In. split; [apply IH; exact Hx|exact E].
Qed.

Lemma pub_occ_nullify : forall n x, In x (pub_occ (nullify n)) -> In x (pub_occ n).
Proof.
  intros n x Hx. rewrite nullify_eq in Hx. unfold pub_occ in *. cbn [nargs] in Hx.
  apply in_flat_map in Hx. destruct Hx as (a' & Ha' & Hx). apply in_map_iff in Ha'. destruct Ha' as (a & <- & Ha).
  apply in_flat_map. exists a. split; [exact Ha|apply pub_occ_nul_f; exact Hx].
Qed.

Lemma all_occ_f_app_val : forall a k x, In k (app_occ_f a) -> In x (values_vec (am k)) -> In x (all_occ_f a).
Proof.
  induction a as [y|y|y b IH|q]; intros k x Hk Hx; cbn [app_occ_f all_occ_f] in *; try contradiction.
  - destruct Hk as [<-|[]]. exact Hx.
  - right. eapply IH; eauto.
Qed.

Lemma all_occ_app_val : forall n k x, In k (app_occ n) -> In x (values_vec (am k)) -> In x (all_occ n).
Proof.
  intros n k x Hk Hx. unfold app_occ in Hk. unfold all_occ. apply in_flat_map in Hk. destruct Hk as (a & Ha & Hk).
  apply in_flat_map. exists a. split; [exact Ha|eapply all_occ_f_app_val; eauto].
Qed.

Lemma Forall2_map_l : forall {A B C} (P : B -> C -> Prop) (f : A -> B) l l',
  Forall2 P (map f l) l' -> Forall2 (fun a c => P (f a) c) l l'.
Proof.
  intros A B C P f. induction l as [|x t IH]; intros l' H; inversion H; subst; constructor; [assumption|apply IH; assumption].
Qed.

(* ------------------------------------------------------------------ *)
(* 2. THE E-GRAPH SIDE OF DEPTH-ONE COMPLETENESS: `repr_hyp` *)

(* every class that stores an e-node is live (dead classes are emptied by move_to) *)
Definition live_stored (s : egraph) : Prop := forall i sh p, stored s i sh p -> In i (ids s).

Theorem repr_hyp_proved : forall s n,
  inv3 s -> kids_ok s -> cls4 s -> hc_ok s -> pending s = [] -> live_stored s ->
  Forall (covers s) (app_occ n) -> NoDup (binders n) -> (forall x, In x (pub_occ n) -> ~ In x (binders n)) ->
  repr_hyp s n.
Proof.
  intros s n I3 K0 M4 Hhc Hpe Hlive Cv NDn Cln a Ha.
  assert (Hs : eg_inv s) by (destruct I3 as [[EI _] _]; exact EI).
  destruct (lookup_hit_inv s n a Ha) as (sh & bn & i & c & cb & src & Hsh & Hh & Hc & Hn & Ea).
  assert (St : stored s i sh (cb, src)) by (unfold stored, cnodes; rewrite Hc; exact Hn).
  pose proof (na_get_in _ _ _ Hn) as Hin.
  pose proof (Hlive i sh (cb, src) St) as Hi.
  subst a. cbn [aid].
  split; [exact Hi|]. exists c. split; [exact Hc|].
  intros t nns t' Rt Hen.
  destruct (listed_entry s I3 K0 M4 Hhc Hpe i c t nns t' sh cb src Hc Rt Hen Hin)
    as (nn & b_nn & Hnn & Clnn & NDnn & Wnn & Sl & Bc).
  pose proof (listed_lkid s i c t nns t' nn I3 K0 M4 Hhc Hpe Hc Rt Hen Hnn) as Lk.
  (* the pre-shape p of n: a group variant of find_enode s n *)
  unfold shape, pre_shape in Hsh.
  destruct (find_enode s n) as [N|] eqn:F; cbn [bind] in Hsh; [|discriminate].
  destruct (variants s N) as [vs|] eqn:V; cbn [bind] in Hsh; [|discriminate].
  destruct (min_variant vs None) as [p|] eqn:P; cbn [bind] in Hsh; [|discriminate].
  apply min_variant_in in P. destruct P as [P|[k P]]; [|discriminate].
  destruct (find_enode_kid_eq s n N Hs Cv F) as (EN & LenN & KN).
  pose proof (found_kids s n N Hs Cv F) as FK.
  destruct (variants_kid_eq s N vs p Hs FK V P) as (Ep & Lenp & Kp).
  destruct (find_enode_sub s n N F) as (B1 & P1). destruct (variants_sub s N vs p V P) as (B2 & P2).
  (* the positional renaming of the listed node nn onto p *)
  destruct (same_wshape_rho nn p sh b_nn bn Wnn Hsh) as (rho & Hrho & Eren).
  { split; [exact NDnn|exact (proj1 Clnn)]. }
  { split; [rewrite B2, B1; exact NDn|]. intros x Hx Hb. rewrite B2, B1 in Hb. exact (Cln x (P1 x (P2 x Hx)) Hb). }
  (* nn heads its own weak variants *)
  destruct (applied_shape s I3 K0 M4 Hhc Hpe i c t nns t' nn Hc Rt Hen Hnn) as (_ & sh' & p' & b' & _ & Hshn).
  pose proof (listed_fix s I3 K0 M4 Hhc Hpe i c t nns t' nn Hi Hc Rt Hen Hnn) as Fnn.
  unfold shape, pre_shape in Hshn. rewrite Fnn in Hshn. cbn [bind] in Hshn.
  destruct (variants s nn) as [vsn|] eqn:Vn; cbn [bind] in Hshn; [|discriminate].
  destruct (variants_head s nn vsn Lk Vn) as (tln & Evsn). subst vsn.
  destruct (weak_variants_head s nn tln Vn) as (r & Hwv).
  exists nn, (nn :: r), nn, rho. split; [exact Hnn|]. split; [exact Hwv|]. split; [left; reflexivity|].
  (* facts on rho *)
  assert (Wrho : wf rho) by (eapply insert_all_bij_wf; [exact Hrho|exact I]).
  assert (Brho : is_bijection rho = true) by (eapply insert_all_bij_bij; [exact Hrho|reflexivity]).
  assert (Irho : injective rho) by (apply is_bijection_inj; exact Brho).
  assert (Sk : skel nn = skel p).
  { destruct (node_equiv_shape _ _ _ Wnn) as [S1 _]. destruct (node_equiv_shape _ _ _ Hsh) as [S2 _]. congruence. }
  pose proof (skel_occ_len _ _ Sk) as Len.
  assert (Def : forall x, In x (all_occ nn) -> exists y, get rho x = Some y).
  { intros x Hx. destruct (in_combine_l_ex _ (all_occ p) x Len Hx) as (y & Hy). exists y.
    exact (insert_all_bij_get _ _ _ Hrho x y Hy). }
  assert (Def' : forall x, In x (all_occ nn) -> get rho x <> None).
  { intros x Hx. destruct (Def x Hx) as (y & Gy). rewrite Gy. discriminate. }
  assert (RO : ren_ok (g_of rho) nn) by (apply ren_ok_flagless; [exact Irho|exact Def'|exact (proj1 Clnn)]).
  (* the children of p are the children of nn renamed by rho *)
  assert (Ekids : app_occ p = map (rn rho) (app_occ nn)).
  { rewrite <- Eren, app_occ_ren. symmetry. apply map_zip_with_l; [apply abounds_length|].
    intros bd b Hb. unfold rn, rv. f_equal. rewrite ren_vals_mapv.
    rewrite (compose_total_mapv (am b) rho (proj1 (Forall_forall _ _) (proj2 Clnn) b Hb)); [reflexivity|].
    intros x Hx. apply Def'. exact (all_occ_app_val nn b x Hb Hx). }
  constructor.
  - (* rw_var *)
    assert (E1 : nvar p = nvar nn) by (rewrite <- Eren; reflexivity).
    assert (E2 : nvar p = nvar N) by (rewrite Ep; reflexivity).
    assert (E3 : nvar N = nvar n) by (rewrite EN; reflexivity). congruence.
  - exact (proj2 Clnn).
  - exact Wrho.
  - exact Irho.
  - apply ren_ok_flagless; [exact Irho| |].
    + intros x Hx. apply Def'. apply all_occ_nullify. exact Hx.
    + intros x Hx Hb. rewrite binders_nullify in Hb. exact (proj1 Clnn x (pub_occ_nullify _ _ Hx) Hb).
  - rewrite <- nullify_ren, Eren. transitivity (nullify N).
    + rewrite Ep. apply nullify_set_apps.
    + rewrite EN. apply nullify_set_apps.
  - intros x Hx. apply Def'. apply all_occ_nullify. exact Hx.
  - (* rw_kids *)
    apply (Forall2_map_l (fun q c0 => eg_eq s q c0 = Ok true) (rn rho)). rewrite <- Ekids.
    assert (T : Forall2 (kid_eq s) (app_occ n) (app_occ p)).
    { apply (Forall2_trans3 (kid_eq s) (kid_eq s) (kid_eq s) (app_occ n) (app_occ N) (app_occ p)); [|exact KN|exact Kp].
      intros x y z (Cx & Cy & Exy) (_ & Cz & Eyz). split; [exact Cx|]. split; [exact Cz|].
      exact (eg_eq_trans_true s x y z Hs Cx Cy Cz Exy Eyz). }
    clear -T Hs. induction T as [|x y lx ly (Cx & Cy & E) T IH]; constructor; [|exact IH].
    exact (eg_eq_sym_true s x y Hs Cx Cy E).
  - (* rw_slots *)
    intros x Hx. apply all_occ_split. apply pub_occ_all_occ. exact (Sl x Hx).
  - (* rw_root *)
    destruct I3 as [_ NO]. destruct (NO i c _ Hc Hin) as (Wcb & Icb & Kcb & Scb). cbn [fst snd] in Wcb, Icb, Kcb, Scb.
    assert (Bcb : is_bijection cb = true) by (apply (is_bijection_injective cb Wcb); exact Icb).
    assert (Hsh' : wshape (RenameFacts.ren (g_of rho) nn) = Ok (sh, bn)) by (rewrite Eren; exact Hsh).
    assert (Emap : identity (c_slots c) ** rho =
                   filter (fun q => sset_mem (fst q) (c_slots c)) (inverse_nocheck cb ** bn)).
    { apply ext_eq; [apply compose_partial_wf|apply (filter_key_wf (fun k => sset_mem k (c_slots c))), compose_partial_wf|].
      intros k. rewrite get_compose_partial by apply identity_wf. rewrite get_identity.
      rewrite (get_filter_key (fun k => sset_mem k (c_slots c))).
      destruct (sset_mem k (c_slots c)) eqn:Em; [|reflexivity]. apply sset_mem_in in Em.
      destruct (Scb k Em) as (m & Gm).
      rewrite get_compose_partial by apply inverse_wf.
      rewrite (proj2 (get_inverse cb k m Wcb Bcb) Gm).
      rewrite (ws_ren_get (g_of rho) nn sh b_nn bn RO Wnn Hsh' m), (Bc m k Em Gm). cbn [option_map].
      destruct (Def k (pub_occ_all_occ _ _ (Sl k Em))) as (y & Gy). unfold g_of. rewrite Gy. reflexivity. }
    unfold rn. cbn [aid am]. rewrite Emap.
    apply eg_eq_refl_inv; [exact (ei_uf _ Hs)|exact (ei_slots _ Hs)|].
    exists c. cbn [aid am]. split; [exact Hc|]. rewrite <- Emap. split.
    + intros k1 k2 v G1 G2. rewrite get_compose_partial in G1, G2 by apply identity_wf. rewrite get_identity in G1, G2.
      destruct (sset_mem k1 (c_slots c)); [|discriminate]. destruct (sset_mem k2 (c_slots c)); [|discriminate].
      eapply Irho; eauto.
    + intros k Hk. rewrite get_compose_partial by apply identity_wf. rewrite get_identity.
      rewrite (proj2 (sset_mem_in _ _) Hk). apply Def'. apply pub_occ_all_occ. exact (Sl k Hk).
Qed.
Print Assumptions repr_hyp_proved.

(* `live_stored` is a consequence of the reachable-state invariant `stored_live` of EGraph/StoredLive.v *)
Lemma stored_live_live : forall s, stored_live s -> live_stored s.
Proof. intros s H i sh p St. exact (stored_live_ids s sh i p H St). Qed.

(* the invariants of a reachable state that the matcher theorems use *)
Record match_inv (s : egraph) : Prop := {
  mi_inv3 : inv3 s; mi_kids : kids_ok s; mi_m4 : m4 s; mi_hc : hc_ok s; mi_pend : pending s = []; mi_live : stored_live s }.

Theorem repr_hyp_reachable : forall s n, match_inv s ->
  Forall (covers s) (app_occ n) -> cleanp n -> repr_hyp s n.
Proof.
  intros s n [I3 K0 M4 Hhc Hpe Hl] Cv [ND Cl].
  exact (repr_hyp_proved s n I3 K0 (m4_cls4 _ M4) Hhc Hpe (stored_live_live s Hl) Cv ND Cl).
Qed.

(* ------------------------------------------------------------------ *)
(* 3. DEPTH-ONE COMPLETENESS with reachable-state invariants as the only premises on the state *)

Theorem depth_one_complete_reachable : forall s nd vs n theta, match_inv s ->
  NoDup vs -> List.length vs = List.length (app_occ nd) -> pat_below (Model.ctr s) (d1_pat nd vs) ->
  instance_of nd n = Some theta -> Forall (covers s) (app_occ n) -> cleanp n ->
  complete_for s (d1_pat nd vs) theta (combine vs (app_occ n)).
Proof.
  intros s nd vs n theta MI Hnd Hlen Hpb Hinst Cv Cl.
  exact (d1_complete_from_repr s nd vs n theta Hnd Hlen Hpb Hinst (repr_hyp_reachable s n MI Cv Cl)).
Qed.

(* in terms of `ematch_all`: the represented instance is reported *)
Corollary depth_one_complete_ematch_all : forall s nd vs n theta, match_inv s ->
  NoDup vs -> List.length vs = List.length (app_occ nd) -> pat_below (Model.ctr s) (d1_pat nd vs) ->
  instance_of nd n = Some theta -> Forall (covers s) (app_occ n) -> cleanp n ->
  forall a, MatchMachine.eg_lookup s n = Ok (Some a) ->
  forall l s', ematch_all (d1_pat nd vs) s = Ok (l, s') ->
  exists sb r, In sb l /\ mr_sb r = sb /\ describes s' (d1_pat nd vs) theta (combine vs (app_occ n)) a r.
Proof.
  intros s nd vs n theta MI Hnd Hlen Hpb Hinst Cv Cl a Ha l s' E.
  pose proof (depth_one_complete_reachable s nd vs n theta MI Hnd Hlen Hpb Hinst Cv Cl) as C.
  apply (complete_for_ematch_all _ _ _ _ C a); [|exact E].
  destruct (instance_of_spec _ _ _ Hinst) as (Ev & (sa & sb0 & W1 & W2 & Efst) & Sk & Hth & Eren).
  assert (Ln : List.length (app_occ n) = List.length (app_occ nd)).
  { apply (matched_app_len nd n sa sb0 W1 W2). rewrite Efst. apply node_eqb_refl. }
  unfold d1_pat. rewrite pren_node, map_map.
  change (map (fun x => pren theta (PVarP x)) vs) with (map PVarP vs). rewrite Eren.
  rewrite (lookup_pat_vars s (nullify n) vs (combine vs (app_occ n)) Hnd);
    [| apply map_fst_combine_len; lia | rewrite nullify_app_len; lia].
  rewrite map_snd_combine_len by lia. rewrite set_apps_nullify. exact Ha.
Qed.

(* completeness AND firing: the rule fires on the represented instance *)
Theorem depth_one_complete_and_fires_reachable : forall s rl nd vs n theta b1 s1, match_inv s ->
  r_lhs rl = d1_pat nd vs -> r_cond rl = None ->
  NoDup vs -> List.length vs = List.length (app_occ nd) -> pat_below (Model.ctr s) (d1_pat nd vs) ->
  instance_of nd n = Some theta -> Forall (covers s) (app_occ n) -> cleanp n ->
  forall a0, MatchMachine.eg_lookup s n = Ok (Some a0) ->
  apply_rewrites [rl] s = Ok (b1, s1) ->
  exists l s' sb r, ematch_all (d1_pat nd vs) s = Ok (l, s') /\ In sb l /\ mr_sb r = sb /\
    describes s' (d1_pat nd vs) theta (combine vs (app_occ n)) a0 r /\
    exists t a b t1 t2, qstep s t /\
      pattern_subst (d1_pat nd vs) sb t = Ok (a, t1) /\ pattern_subst (r_rhs rl) sb t1 = Ok (b, t2) /\
      covers s1 a /\ covers s1 b /\ eg_eq s1 a b = Ok true.
Proof.
  intros s rl nd vs n theta b1 s1 MI Hl Hc Hnd Hlen Hpb Hinst Cv Cl a0 Ha0 Happ.
  pose proof (repr_hyp_reachable s n MI Cv Cl) as Hrep. destruct MI as [I3 K0 M4 Hhc Hpe Hlv].
  exact (d1_complete_and_fires s rl nd vs n theta b1 s1 I3 K0 M4 Hl Hc Hnd Hlen Hpb Hinst Hrep a0 Ha0 Happ).
Qed.

(* C05 direction with the same premises (H_fix / H_skel of MatchLookup.v discharged in EGraph/MatchReprFix.v) *)
Theorem matches_are_represented_inv : forall s, match_inv s ->
  forall nd vs l s', NoDup vs -> List.length vs = List.length (app_occ nd) ->
    pat_below (Model.ctr s) (PNode nd (map PVarP vs)) ->
    ematch_all (PNode nd (map PVarP vs)) s = Ok (l, s') ->
    forall sb, In sb l -> exists a, lookup_pat s' (PNode nd (map PVarP vs)) sb = Ok (Some a) /\ In (aid a) (ids s).
Proof.
  intros s [I3 K0 M4 Hhc Hpe _]. exact (matches_are_represented_reachable s I3 K0 (m4_cls4 _ M4) Hhc Hpe).
Qed.

(* every state of a run satisfies `match_inv` (the premises of the run are those of hc_ok_reachable / reachable_kids_ok) *)
Theorem match_inv_reachable : forall terms ops hs s,
  ops_pre terms ops [] empty_egraph -> Forall (fun t => rt_wf t /\ rt_pre 1 t) terms ->
  run_ops terms ops [] empty_egraph = Ok (hs, s) -> match_inv s.
Proof.
  intros terms ops hs s OP HT H. constructor.
  - exact (proj1 (reachable_inv3 _ _ _ _ H)).
  - exact (reachable_kids_ok _ _ _ _ HT H).
  - exact (reachable_m4 _ _ _ _ H).
  - exact (hc_ok_reachable _ _ _ _ OP H).
  - exact (reachable_no_pending_empty _ _ _ _ H).
  - exact (stored_live_reachable _ _ _ _ H).
Qed.

Print Assumptions repr_hyp_reachable.
Print Assumptions depth_one_complete_reachable.
Print Assumptions depth_one_complete_ematch_all.
Print Assumptions depth_one_complete_and_fires_reachable.
Print Assumptions matches_are_represented_inv.
Print Assumptions match_inv_reachable.

(* ------------------------------------------------------------------ *)
(* 4. the premise `cleanp n` on the instance cannot be dropped (checker level, as the counterexamples of
      MatchComplete.v): on the valid state s_k the nodes K(lam $2.v, lam $2.v) (one bound name bound twice) and
      K'($2, lam $2.v) (a bound name also free) are FOUND by eg_lookup, but no listed node / weak variant / class-group
      renaming is a `repr_witness` for them (`repr_okb` = false); the matcher indeed misses them
      (`bound_twice_incomplete`, `bound_and_free_incomplete`). *)
Definition cleanpb (n : node) : bool :=
  nodupb (binders n) && forallb (fun x => negb (existsb (N.eqb x) (binders n))) (pub_occ n).
Definition hk : appid := hnd s_k (xs1 7 2).
Definition n_bound_twice : node := set_apps nd_k2 [hk; hk].
Definition n_bound_free : node := set_apps nd_k3 [hk].
Example repr_needs_clean :
  valid_stateb s_k = true /\ stored_liveb s_k = true /\
  cleanpb n_bound_twice = false /\ is_some (match MatchMachine.eg_lookup s_k n_bound_twice with Ok o => o | Err _ => None end) = true /\
  repr_okb s_k n_bound_twice = false /\
  cleanpb n_bound_free = false /\ is_some (match MatchMachine.eg_lookup s_k n_bound_free with Ok o => o | Err _ => None end) = true /\
  repr_okb s_k n_bound_free = false.
Proof. vm_compute. repeat split; reflexivity. Qed.

(* `stored_live` holds on all 14 test states of MatchComplete.v; all candidate nodes of these states are clean *)
Example stored_live_c_states : map stored_liveb c_states = repeat true 14.
Proof. vm_compute. reflexivity. Qed.
Example candidates_clean : map (fun s => forallb cleanpb (d1_candidates s)) c_states = repeat true 14.
Proof. vm_compute. reflexivity. Qed.

(* the DIRECT witness used in the proof (nn itself as its own weak variant, rho = the positional map onto pre_shape s n)
   validated on all candidates of all 14 states before proving *)
Definition repr_directb (s : egraph) (n : node) : bool :=
  match MatchMachine.eg_lookup s n, pre_shape s n with
  | Ok (Some a), Ok p =>
      match get_class s (aid a) with
      | Ok c =>
          match enodes_applied {| aid := aid a; am := identity (c_slots c) |} s with
          | Ok (nns, _) =>
              existsb (fun nn => match weak_variants s nn, insert_all_bij (combine (all_occ nn) (all_occ p)) [] with
                                 | Ok (hd :: _), Some rho => node_eqb hd nn && witness_okb s n a c nn nn rho
                                 | _, _ => false
                                 end) nns
          | Err _ => false
          end
      | Err _ => false
      end
  | Ok None, _ => true
  | _, _ => false
  end.
Example repr_direct_checked : map (fun s => forallb (repr_directb s) (d1_candidates s)) c_states = repeat true 14.
Proof. vm_compute. reflexivity. Qed.

Print Assumptions repr_needs_clean.
Print Assumptions repr_direct_checked.
