(* EGraph/MatchReprFix.v — the two hypotheses H_fix / H_skel of `depth_one_found_closed` (MatchLookup.v) proved from
   the state invariants; closed depth-one theorem `matches_are_represented_reachable`.

   Route.  `enodes_applied` only renames slots (three `RenameFacts.ren` stages), hence a listed node nn has the
   skeleton of the stored shape sh of its entry (`ea_entry_skel`, `listed_entry_skel`: no invariant needed).  The
   stored shape is canonical (`stored_canonical`): shape s sh = Ok (sh, b), so sh is the weak shape of a group variant
   p of `find_enode s sh`; find_enode fixes p (`orbit_same_set`), the children of p are `lkid`, and skel sh = skel p
   (`ws_skel`): `shape_fix_lkid`.  The skeleton keeps the ids and the key vectors of the children (`skel_ckeys`), and
   the children of a listed node have sorted maps (`enodes_applied_kids`): `skel_lkid` transfers `lkid` to the
   children of nn: `listed_lkid`.  H_fix: `lkid_fixed`.  H_skel: the children are `ckid` (covers gives injectivity and
   the other key inclusion), `ShapeCong.variants_skel`. *)
From SE Require Import Slots.SlotMapFacts Group.GroupSound Lang.LangFacts Lang.ShapeFacts Lang.RenameFacts
  Base.TextFacts Parse.Parser EGraph.Model EGraph.ModelFacts EGraph.ModelMachine EGraph.UnionFindFacts
  EGraph.InvariantFacts EGraph.UnionInvariantFacts EGraph.AddCoversFacts EGraph.HashconsShape EGraph.Mod4Facts
  EGraph.HashconsAbs EGraph.HashconsFacts EGraph.Rewrite EGraph.RewriteFacts EGraph.MatchDefs EGraph.MatchMachine
  EGraph.ProgressFacts EGraph.MatchFacts EGraph.SoundUnion EGraph.MonotoneFacts EGraph.ShapeCong EGraph.MatchLookup.
Require Import ZArith Lia ZifyBool ZifyN ZifyNat.

Local Notation "a ** b" := (compose_partial a b) (at level 40, left associativity).

(* ------------------------------------------------------------------ *)
(* 1. a listed node has the skeleton of the stored shape of its entry (no invariant needed) *)

Lemma ea_entry_skel : forall i c e s x2 s', ea_entry i c e s = Ok (x2, s') -> skel x2 = skel (fst e).
Proof.
  intros i c [sh [bij src]] s x2 s' H. unfold ea_entry in H. cbn [fst].
  apply mbind_inv in H. destruct H as (x0 & s1 & H1 & H). apply lift_inv in H1. destruct H1 as [H1 ->].
  apply mbind_inv in H. destruct H as (x1 & s2 & H2 & H).
  apply mbind_inv in H. destruct H as (m & s3 & H3 & H). cbv zeta in H. apply lift_inv in H. destruct H as [H4 <-].
  pose proof (rn_trav (c_slots c) x0 (Model.ctr s)) as (_ & RG & _).
  unfold with_ctr in H2. destruct (trav (rnF (c_slots c)) x0 ([], Model.ctr s)) as [x1' [rho c1]] eqn:T.
  inversion H2; subst x1' s2; clear H2. cbn [fst snd] in RG.
  rewrite (apply_slotmap_ren _ _ _ H4), ren_skel, RG, ren_skel, (apply_slotmap_ren _ _ _ H1), ren_skel. reflexivity.
Qed.

Lemma mapM_entries_skel : forall i c l s nns s', mapM (ea_entry i c) l s = Ok (nns, s') ->
  forall nn, In nn nns -> exists e, In e l /\ skel nn = skel (fst e).
Proof.
  intros i c. induction l as [|e t IH]; intros s nns s' H; cbn [mapM] in H.
  - inversion H; subst. intros nn [].
  - apply mbind_inv in H. destruct H as (y & s1 & H1 & H). apply mbind_inv in H. destruct H as (r & s2 & H2 & H).
    inversion H; subst nns s2; clear H. intros nn [<-|Hnn].
    + exists e. split; [left; reflexivity|]. eapply ea_entry_skel; eauto.
    + destruct (IH s1 r s' H2 nn Hnn) as (e' & He' & E). exists e'. split; [right; exact He'|exact E].
Qed.

Lemma listed_entry_skel : forall i t c nns t' nn, get_class t (aid i) = Ok c ->
  enodes_applied i t = Ok (nns, t') -> In nn nns -> exists e, In e (c_nodes c) /\ skel nn = skel (fst e).
Proof.
  intros i t c nns t' nn Hc H Hnn. rewrite enodes_applied_eq in H.
  apply mbind_inv in H. destruct H as (c' & s1 & H1 & H). apply reads_inv in H1. destruct H1 as [Hc' ->].
  rewrite Hc in Hc'. inversion Hc'; subst c'. eapply mapM_entries_skel; eauto.
Qed.

(* ------------------------------------------------------------------ *)
(* 2. a fixpoint of `shape` has the skeleton of a node whose children are `lkid` *)

Lemma shape_fix_lkid : forall s sh b, eg_inv s -> shape s sh = Ok (sh, b) ->
  exists p, skel sh = skel p /\ find_enode s p = Ok p /\ forall a, In a (app_occ p) -> lkid s a.
Proof.
  intros s sh b Hs H. unfold shape in H.
  destruct (pre_shape s sh) as [p|] eqn:P; cbn [bind] in H; [|discriminate].
  unfold pre_shape in P.
  destruct (find_enode s sh) as [n1|] eqn:F1; cbn [bind] in P; [|discriminate].
  destruct (variants s n1) as [vs|] eqn:V; cbn [bind] in P; [|discriminate].
  apply min_variant_in in P. destruct P as [P|[k P]]; [|discriminate].
  destruct (find_enode_idem s sh n1 (ei_uf _ Hs) F1) as [F1' _].
  destruct (orbit_same_set s n1 vs p Hs F1' V P) as (Fp & _).
  destruct (find_enode_idem s p p (ei_uf _ Hs) Fp) as [_ Ff].
  exists p. split; [exact (ws_skel _ _ _ H)|]. split; [exact Fp|].
  intros a Ha. destruct (Ff a Ha) as (a0 & Fa). eapply found_lkid; eauto.
Qed.

(* `lkid` only looks at the id, the key vector and the sortedness of the map *)
Lemma lkid_same_keys : forall s a a', lkid s a' -> aid a = aid a' -> keys_vec (am a) = keys_vec (am a') -> wf (am a) ->
  lkid s a.
Proof.
  intros s a a' (e & c & He & Hae & Hc & Hg & Ke & _ & Ka) Ei Ek Wa.
  exists e, c. rewrite Ei. repeat split; try assumption.
  intros k Hk. apply Ka. apply keys_spec. apply keys_spec in Hk. unfold keys in *. rewrite <- Ek. exact Hk.
Qed.

Lemma skel_lkid : forall s n p, skel n = skel p -> (forall a, In a (app_occ p) -> lkid s a) ->
  (forall a, In a (app_occ n) -> wf (am a)) -> forall a, In a (app_occ n) -> lkid s a.
Proof.
  intros s n p E Lp Wn a Ha. pose proof (skel_ckeys _ _ E) as CK. unfold ckeys in CK.
  assert (Hin : In (aid a, keys_vec (am a)) (map (fun x => (aid x, keys_vec (am x))) (app_occ n))).
  { apply in_map_iff. exists a. split; [reflexivity|exact Ha]. }
  rewrite CK in Hin. apply in_map_iff in Hin. destruct Hin as (a' & Ea & Ha'). inversion Ea as [[Ei Ek]].
  apply (lkid_same_keys s a a' (Lp a' Ha')); [symmetry; exact Ei|symmetry; exact Ek|exact (Wn a Ha)].
Qed.

(* an `lkid` invocation that covers its class is canonical *)
Lemma lkid_covers_ckid : forall s a, lkid s a -> covers s a -> ckid s a.
Proof.
  intros s a La (c' & Hc' & Ia & Sa). split; [exact La|].
  destruct La as (e & c & He & Hae & Hc & Hg & Ke & Wa & Ka).
  rewrite Hc in Hc'. inversion Hc'; subst c'; clear Hc'.
  exists c. split; [exact Hc|]. split; [exact Hg|]. split; [exact Wa|].
  split; [apply is_bijection_injective; assumption|].
  rewrite <- Ke. apply sset_ext; try apply sset_of_list_spec.
  intros k. rewrite !keys_spec. split.
  - intros Hk. apply keys_spec. rewrite Ke. apply Ka. exact Hk.
  - intros Hk. apply Sa. rewrite <- Ke. apply keys_spec. exact Hk.
Qed.

(* ------------------------------------------------------------------ *)
(* 3. the children of a listed node *)

Section Listed.
  Variable s : egraph.
  Hypothesis I3 : inv3 s.
  Hypothesis K0 : kids_ok s.
  Hypothesis M4 : cls4 s.
  Hypothesis Hhc : hc_ok s.
  Hypothesis Hpe : pending s = [].

  Lemma listed_kids : forall i c t nns t' nn, get_class s i = Ok c -> sg_ge s t ->
    enodes_applied {| aid := i; am := identity (c_slots c) |} t = Ok (nns, t') -> In nn nns ->
    forall a, In a (app_occ nn) -> lkid s a /\ kid_ok s a.
  Proof.
    intros i c t nns t' nn Hc R Hen Hnn.
    assert (EI : eg_inv s) by (destruct I3 as [[EI _] _]; exact EI).
    assert (R' : Rel s t) by exact R.
    destruct (class_facts s I3 M4 _ _ Hc) as [_ Below].
    assert (Croot : cb s t {| aid := i; am := identity (c_slots c) |}).
    { split; [split; [apply covers_identity; exact Hc|apply identity_wf]|].
      cbn [am]. intros v Hv'. unfold values_vec in Hv'. apply in_map_iff in Hv'. destruct Hv' as ([k v'] & <- & Hkv).
      apply in_identity in Hkv. destruct Hkv as [<- Hk]. cbn [snd]. pose proof (Below k Hk). destruct R as [_ R]. lia. }
    destruct (enodes_applied_kids s I3 K0 M4 _ t nns t' R' Croot Hen) as (_ & _ & Fk).
    assert (Kd : forall a, In a (app_occ nn) -> kid_ok s a).
    { intros a Ha. destruct (proj1 (Forall_forall _ _) (Fk nn Hnn) a Ha) as [Ka _]. exact Ka. }
    assert (Hct : get_class t i = Ok c) by (rewrite (Rel_class s _ _ R'); exact Hc).
    destruct (listed_entry_skel {| aid := i; am := identity (c_slots c) |} t c nns t' nn Hct Hen Hnn) as ([sh pr] & Hin & Esk).
    cbn [fst] in Esk.
    pose proof (in_stored s Hhc i c sh pr Hc Hin) as St.
    destruct (stored_canonical _ _ _ _ Hhc Hpe St) as [_ (b0 & Hb0)].
    destruct (shape_fix_lkid s sh b0 EI Hb0) as (p & Ep & _ & Lp).
    assert (Lk : forall a, In a (app_occ nn) -> lkid s a).
    { apply (skel_lkid s nn p); [congruence|exact Lp|]. intros a Ha. exact (proj2 (Kd a Ha)). }
    intros a Ha. split; [exact (Lk a Ha)|exact (Kd a Ha)].
  Qed.
End Listed.

Lemma listed_lkid : forall s i c t nns t' nn, inv3 s -> kids_ok s -> cls4 s -> hc_ok s -> pending s = [] ->
  get_class s i = Ok c -> sg_ge s t ->
  enodes_applied {| aid := i; am := identity (c_slots c) |} t = Ok (nns, t') -> In nn nns ->
  forall a, In a (app_occ nn) -> lkid s a.
Proof.
  intros s i c t nns t' nn I3 K0 M4 Hhc Hpe Hc R Hen Hnn a Ha.
  exact (proj1 (listed_kids s I3 K0 M4 Hhc Hpe i c t nns t' nn Hc R Hen Hnn a Ha)).
Qed.

Lemma listed_ckid : forall s i c t nns t' nn, inv3 s -> kids_ok s -> cls4 s -> hc_ok s -> pending s = [] ->
  get_class s i = Ok c -> sg_ge s t ->
  enodes_applied {| aid := i; am := identity (c_slots c) |} t = Ok (nns, t') -> In nn nns ->
  forall a, In a (app_occ nn) -> ckid s a.
Proof.
  intros s i c t nns t' nn I3 K0 M4 Hhc Hpe Hc R Hen Hnn a Ha.
  destruct (listed_kids s I3 K0 M4 Hhc Hpe i c t nns t' nn Hc R Hen Hnn a Ha) as (La & Ca & _).
  apply lkid_covers_ckid; assumption.
Qed.

(* H_fix *)
Lemma listed_fix : forall s, inv3 s -> kids_ok s -> cls4 s -> hc_ok s -> pending s = [] ->
  forall i c t nns t' nn, In i (ids s) -> get_class s i = Ok c -> sg_ge s t ->
    enodes_applied {| aid := i; am := identity (c_slots c) |} t = Ok (nns, t') -> In nn nns ->
    find_enode s nn = Ok nn.
Proof.
  intros s I3 K0 M4 Hhc Hpe i c t nns t' nn _ Hc R Hen Hnn.
  assert (EI : eg_inv s) by (destruct I3 as [[EI _] _]; exact EI).
  unfold find_enode. rewrite (mapr_id (find_applied_id s) (app_occ nn)).
  - cbn [bind]. rewrite set_apps_self. reflexivity.
  - intros a Ha. apply lkid_fixed; [apply (ei_uf _ EI)|].
    exact (listed_lkid s i c t nns t' nn I3 K0 M4 Hhc Hpe Hc R Hen Hnn a Ha).
Qed.

(* H_skel *)
Lemma listed_skel : forall s, inv3 s -> kids_ok s -> cls4 s -> hc_ok s -> pending s = [] ->
  forall i c t nns t' nn all v w, In i (ids s) -> get_class s i = Ok c -> sg_ge s t ->
    enodes_applied {| aid := i; am := identity (c_slots c) |} t = Ok (nns, t') -> In nn nns ->
    variants s nn = Ok all -> In v all -> In w all -> skel v = skel w.
Proof.
  intros s I3 K0 M4 Hhc Hpe i c t nns t' nn all v w _ Hc R Hen Hnn Hall Hv Hw.
  pose proof (listed_ckid s i c t nns t' nn I3 K0 M4 Hhc Hpe Hc R Hen Hnn) as Ck.
  rewrite (variants_skel s nn all v Ck Hall Hv), (variants_skel s nn all w Ck Hall Hw). reflexivity.
Qed.

(* ------------------------------------------------------------------ *)
(* 4. the closed depth-one theorem *)

Theorem matches_are_represented_reachable : forall s,
  inv3 s -> kids_ok s -> cls4 s -> hc_ok s -> pending s = [] ->
  forall nd vs l s', NoDup vs -> List.length vs = List.length (app_occ nd) ->
    pat_below (Model.ctr s) (PNode nd (map PVarP vs)) ->
    ematch_all (PNode nd (map PVarP vs)) s = Ok (l, s') ->
    forall sb, In sb l -> exists a, lookup_pat s' (PNode nd (map PVarP vs)) sb = Ok (Some a) /\ In (aid a) (ids s).
Proof.
  intros s I3 K0 M4 Hhc Hpe.
  exact (depth_one_found_closed s I3 K0 M4 Hhc Hpe (listed_fix s I3 K0 M4 Hhc Hpe) (listed_skel s I3 K0 M4 Hhc Hpe)).
Qed.

Print Assumptions matches_are_represented_reachable.
Print Assumptions listed_fix.
Print Assumptions listed_skel.
Print Assumptions listed_lkid.
Print Assumptions listed_ckid.

(* ------------------------------------------------------------------ *)
(* 5. the converse of `applied_shape` for one stored entry: the listed node of the entry, its WEAK shape, and the
      class slots *)

From SE Require EGraph.CongruenceFacts.

Lemma ren_ok_ws : forall g n sh b, ren_ok g n -> wshape n = Ok (sh, b) ->
  exists b', wshape (RenameFacts.ren g n) = Ok (sh, b') /\ forall k, get b' k = option_map (g true) (get b k).
Proof.
  intros g n sh b Rg W. destruct (ren_ok_same_wshape g n Rg sh b W) as (b' & W').
  exists b'. split; [exact W'|]. exact (CongruenceFacts.ws_ren_get g n sh b b' Rg W W').
Qed.

Lemma ren_ok_nodup : forall g n, ren_ok g n -> NoDup (binders n) -> NoDup (binders (RenameFacts.ren g n)).
Proof.
  intros g n (Inj & _ & _) Nd. rewrite ren_binders. apply HashconsAbs.NoDup_map_inj_on; assumption.
Qed.

Lemma ren_ok_pub : forall g n k, ren_ok g n -> In k (pub_occ n) -> In (g true k) (pub_occ (RenameFacts.ren g n)).
Proof.
  intros g n k (Inj & Sep & _) Hk. rewrite (ren_pub_occ g n Inj Sep). apply in_map. exact Hk.
Qed.

Lemma map_some_self : forall (f : slot -> option slot) l, map f l = map Some l -> forall k, In k l -> f k = Some k.
Proof.
  intros f. induction l as [|x t IH]; intros E k Hk; [destruct Hk|]. cbn [map] in E. inversion E as [[E1 E2]].
  destruct Hk as [<-|Hk]; [exact E1|exact (IH E2 k Hk)].
Qed.

Section ListedEntry.
  Variable s0 : egraph.
  Hypothesis I3 : inv3 s0.
  Hypothesis K0 : kids_ok s0.
  Hypothesis M4 : cls4 s0.
  Hypothesis Hhc : hc_ok s0.
  Hypothesis Hpe : pending s0 = [].

  Lemma ea_entry_full : forall i c sh bij src s x2 s', Rel s0 s -> get_class s0 (aid i) = Ok c ->
    In (sh, (bij, src)) (c_nodes c) -> MatchFacts.cb s0 s i ->
    (forall x, In x (c_slots c) -> get (am i) x = Some x) ->
    ea_entry i c (sh, (bij, src)) s = Ok (x2, s') ->
    clean x2 /\ NoDup (binders x2) /\ exists b2, wshape x2 = Ok (sh, b2) /\
      (forall x, In x (c_slots c) -> In x (pub_occ x2)) /\
      (forall k x, In x (c_slots c) -> get bij k = Some x -> get b2 k = Some x).
  Proof.
    intros i c sh bij src s x2 s' R Hc Hin Cbi Hid H.
    destruct (ea_entry_shape s0 I3 K0 M4 Hhc Hpe i c (sh, (bij, src)) s x2 s' R Hc Hin Cbi H) as (Cl & _).
    split; [exact Cl|]. destruct Cbi as [[Ci Wi] Vi].
    unfold ea_entry in H.
    destruct (class_facts s0 I3 M4 _ _ Hc) as [S1c Below].
    apply mbind_inv in H. destruct H as (x0 & s1 & H1 & H). apply lift_inv in H1. destruct H1 as [H1 ->].
    apply mbind_inv in H. destruct H as (x1 & s2 & H2 & H).
    apply mbind_inv in H. destruct H as (m & s3 & H3 & H). cbv zeta in H. apply lift_inv in H. destruct H as [H4 <-].
    pose proof (rn_trav (c_slots c) x0 (Model.ctr s)) as (RI & RG & RD).
    unfold with_ctr in H2. destruct (trav (rnF (c_slots c)) x0 ([], Model.ctr s)) as [x1' [rho c1]] eqn:T.
    inversion H2; subst x1' s2; clear H2. cbn [fst snd] in RI, RG, RD.
    destruct RI as (L1 & RV & RInj). cbn [fst snd] in L1, RV, RInj.
    assert (RI : rnInv (Model.ctr s) (rho, c1)) by (split; [exact L1|split; [exact RV|exact RInj]]).
    assert (Below' : forall z, In z (c_slots c) -> z < Model.ctr s) by (intros z Hz; pose proof (Below z Hz); destruct R as [_ R]; lia).
    destruct (fo_spec (am i) c1 _ _ _ _ _ H3) as (SG3 & L3 & (Wm & Im & Vm)).
    { cbn [Model.ctr set_ctr]. lia. }
    { split; [exact I|]. split; [intros k1 k2 v G; discriminate G|intros k v G; discriminate G]. }
    cbn [Model.ctr set_ctr] in L3.
    set (MM := from_iter_onto m (am i)) in *.
    assert (GM : forall k, get MM k = match get (am i) k with Some v => Some v | None => get m k end).
    { intros k. exact (get_union m (am i) k Wm Wi). }
    assert (VM : forall k v, get MM k = Some v -> v < Model.ctr s \/ (c1 <= v /\ v < Model.ctr s')).
    { intros k v G. rewrite GM in G. destruct (get (am i) k) as [u|] eqn:Gi.
      - inversion G; subst u. left. apply Vi. eapply get_values_vec; eauto.
      - right. exact (Vm k v G). }
    assert (IM : injective MM).
    { intros k1 k2 v G1 G2. rewrite GM in G1, G2. destruct Ci as (ci & _ & Ii & _).
      destruct (get (am i) k1) as [u1|] eqn:E1, (get (am i) k2) as [u2|] eqn:E2.
      - inversion G1; inversion G2; subst. eapply Ii; eauto.
      - inversion G1; subst u1. pose proof (Vi v (get_values_vec _ _ _ E1)). pose proof (Vm k2 v G2). lia.
      - inversion G2; subst u2. pose proof (Vi v (get_values_vec _ _ _ E2)). pose proof (Vm k1 v G1). lia.
      - eapply Im; eauto. }
    pose proof (apply_slotmap_total _ _ _ H4) as TotM.
    pose proof (apply_slotmap_total _ _ _ H1) as Tot0.
    destruct I3 as [_ NO].
    assert (Bx0 : binders x0 = binders sh) by (rewrite (apply_slotmap_ren _ _ _ H1); apply binders_asm).
    destruct (K0 (aid i) c _ Hc Hin) as [Sh4 _]. cbn [fst] in Sh4.
    pose proof (in_stored s0 Hhc _ _ _ _ Hc Hin) as St.
    destruct (NO (aid i) c _ Hc Hin) as (Wb & Inj & Kb & Sb). cbn [fst snd] in Wb, Inj, Kb, Sb.
    pose proof (cls4_bij4 _ M4) as B4.
    (* sh is its own weak shape *)
    destruct (tb_ws s0 (proj1 Hhc) _ _ _ St) as (n9 & b9 & W9).
    destruct (shape_idempotent _ _ _ W9) as (b0 & W0). change (wshape sh = Ok (sh, b0)) in W0.
    destruct (shape_bij _ _ _ W0) as (_ & _ & Mb0).
    pose proof (map_some_self (fun k => get b0 k) (pub_occ sh) Mb0) as Gb0. cbv beta in Gb0.
    (* stage 0 *)
    assert (R0 : ren_ok (asm_g bij) sh).
    { split; [|split].
      - intros x y _ _ E. exact E.
      - intros x b Hx Hb E. unfold asm_g in E. destruct (get bij x) as [y|] eqn:G; [|apply (Tot0 x Hx); exact G].
        pose proof (B4 (aid i) c sh bij src x y Hc Hin G) as Y1. pose proof (Sh4 b (binders_all_occ _ _ Hb)) as Y0. subst y. lia.
      - intros x y Hx Hy E. unfold asm_g in E.
        destruct (get bij x) as [u|] eqn:Gx; [|exfalso; apply (Tot0 x Hx); exact Gx].
        destruct (get bij y) as [v|] eqn:Gy; [|exfalso; apply (Tot0 y Hy); exact Gy]. subst v. eapply Inj; eauto. }
    pose proof (apply_slotmap_ren _ _ _ H1) as Ex0.
    assert (Px0 : forall x, In x (pub_occ x0) -> x mod 4 = 1).
    { intros x Hx. rewrite Ex0 in Hx.
      destruct (pub_occ_ren_sub (asm_g bij) sh x (fun _ => eq_refl) Hx) as (x' & Hx' & ->).
      unfold asm_g. destruct (get bij x') as [y|] eqn:G; [|exfalso; exact (Tot0 x' Hx' G)].
      exact (B4 (aid i) c sh bij src x' y Hc Hin G). }
    assert (Bx0' : forall b, In b (binders x0) -> b mod 4 = 0).
    { intros b Hb. rewrite Bx0 in Hb. exact (Sh4 b (binders_all_occ _ _ Hb)). }
    (* stage 1 *)
    assert (R1 : ren_ok (rnG (c_slots c) (rho, c1)) x0).
    { split; [|split].
      - intros x y Hx Hy E. eapply (rnG_inj (c_slots c) (Model.ctr s)); [exact RI|exact Below'| | |exact E];
          apply RD; apply binders_all_occ; assumption.
      - intros x b Hx Hb E. assert (x = b).
        { eapply (rnG_inj (c_slots c) (Model.ctr s)); [exact RI|exact Below'| | |exact E];
            apply RD; [apply pub_occ_all_occ|apply binders_all_occ]; assumption. }
        subst b. pose proof (Px0 x Hx). pose proof (Bx0' x Hb). lia.
      - intros x y Hx Hy E. eapply (rnG_inj (c_slots c) (Model.ctr s)); [exact RI|exact Below'| | |exact E];
          apply RD; apply pub_occ_all_occ; assumption. }
    assert (Bx1 : forall b, In b (binders x1) -> Model.ctr s <= b /\ b < c1).
    { intros b Hb. rewrite RG, ren_binders in Hb. apply in_map_iff in Hb. destruct Hb as (bb & <- & Hbb).
      rewrite Bx0 in Hbb. pose proof (Sh4 bb (binders_all_occ _ _ Hbb)) as Z0.
      assert (Hbb' : In bb (all_occ x0)) by (apply binders_all_occ; rewrite Bx0; exact Hbb).
      unfold rnG. cbn [fst].
      destruct (sset_mem bb (c_slots c)) eqn:Em.
      { apply sset_mem_in in Em. pose proof (S1c bb Em) as Z1. unfold ok1 in Z1. lia. }
      destruct (RD bb Hbb') as [D|D]; [congruence|]. cbn [fst] in D.
      destruct (get rho bb) as [v|] eqn:G; [|congruence]. exact (RV bb v G). }
    (* stage 2 *)
    assert (R2 : ren_ok (asm_g MM) x1).
    { split; [|split].
      - intros x y _ _ E. exact E.
      - intros x b Hx Hb E. unfold asm_g in E. destruct (get MM x) as [u|] eqn:G; [|apply (TotM x Hx); exact G].
        subst u. pose proof (Bx1 b Hb). destruct (VM x b G); lia.
      - intros x y Hx Hy E. unfold asm_g in E.
        destruct (get MM x) as [u|] eqn:Gx; [|exfalso; apply (TotM x Hx); exact Gx].
        destruct (get MM y) as [v|] eqn:Gy; [|exfalso; apply (TotM y Hy); exact Gy]. subst v. eapply IM; eauto. }
    pose proof (apply_slotmap_ren _ _ _ H4) as Ex2.
    (* the weak shapes and bijections of the three stages *)
    destruct (ren_ok_ws _ _ _ _ R0 W0) as (b1 & W1 & Gb1). rewrite <- Ex0 in W1.
    destruct (ren_ok_ws _ _ _ _ R1 W1) as (b2 & W2 & Gb2). rewrite <- RG in W2.
    destruct (ren_ok_ws _ _ _ _ R2 W2) as (b3 & W3 & Gb3). rewrite <- Ex2 in W3.
    (* what happens to a class slot x = bij k *)
    assert (Step : forall k x, In x (c_slots c) -> get bij k = Some x ->
              In k (pub_occ sh) /\ asm_g bij true k = x /\ rnG (c_slots c) (rho, c1) true x = x /\ asm_g MM true x = x).
    { intros k x Hx G. split; [apply Kb; congruence|]. split; [unfold asm_g; rewrite G; reflexivity|]. split.
      - unfold rnG. rewrite (proj2 (sset_mem_in _ _) Hx). reflexivity.
      - unfold asm_g. rewrite GM, (Hid x Hx). reflexivity. }
    split.
    { rewrite Ex2. apply ren_ok_nodup; [exact R2|]. rewrite RG. apply ren_ok_nodup; [exact R1|].
      rewrite Ex0. apply ren_ok_nodup; [exact R0|]. exact (ws_binders_nodup _ _ _ W9). }
    exists b3. split; [exact W3|]. split.
    - intros x Hx. destruct (Sb x Hx) as (k & G). destruct (Step k x Hx G) as (Hk & E1 & E2 & E3).
      rewrite Ex2, <- E3. apply ren_ok_pub; [exact R2|]. rewrite RG, <- E2. apply ren_ok_pub; [exact R1|].
      rewrite Ex0, <- E1. apply ren_ok_pub; [exact R0|]. exact Hk.
    - intros k x Hx G. destruct (Step k x Hx G) as (Hk & E1 & E2 & E3).
      rewrite Gb3, Gb2, Gb1, (Gb0 k Hk). cbn [option_map]. rewrite E1, E2, E3. reflexivity.
  Qed.

  Lemma mapM_entries_full : forall i c l s nns s', Rel s0 s -> get_class s0 (aid i) = Ok c -> incl l (c_nodes c) ->
    MatchFacts.cb s0 s i -> (forall x, In x (c_slots c) -> get (am i) x = Some x) ->
    mapM (ea_entry i c) l s = Ok (nns, s') ->
    forall sh bij src, In (sh, (bij, src)) l ->
    exists nn b_nn, In nn nns /\ clean nn /\ NoDup (binders nn) /\ wshape nn = Ok (sh, b_nn) /\
      (forall x, In x (c_slots c) -> In x (pub_occ nn)) /\
      (forall k x, In x (c_slots c) -> get bij k = Some x -> get b_nn k = Some x).
  Proof.
    intros i c. induction l as [|e t IH]; intros s nns s' R Hc Hl Ci Hid H; cbn [mapM] in H.
    - intros sh bij src [].
    - apply mbind_inv in H. destruct H as (y & s1 & H1 & H). apply mbind_inv in H. destruct H as (r & s2 & H2 & H).
      inversion H; subst nns s2; clear H.
      destruct (ea_entry_kids s0 I3 K0 M4 i c e s y s1 R Hc (Hl e (or_introl eq_refl)) Ci H1) as (G1 & L1 & _).
      intros sh bij src [He|Hin].
      + subst e.
        destruct (ea_entry_full i c sh bij src s y s1 R Hc (Hl _ (or_introl eq_refl)) Ci Hid H1)
          as (Cl & Nd & b2 & W & P1 & P2).
        exists y, b2. split; [left; reflexivity|]. split; [exact Cl|]. split; [exact Nd|]. split; [exact W|].
        split; [exact P1|exact P2].
      + destruct (IH s1 r s' (Rel_step s0 _ _ R G1 L1) Hc (fun x Hx => Hl x (or_intror Hx)) (cb_mono s0 _ _ _ L1 Ci) Hid H2
                    sh bij src Hin) as (nn & b2 & Hnn & Rest).
        exists nn, b2. split; [right; exact Hnn|exact Rest].
  Qed.
End ListedEntry.

Lemma listed_entry : forall s, inv3 s -> kids_ok s -> cls4 s -> hc_ok s -> pending s = [] ->
  forall i c t nns t' sh cb src, get_class s i = Ok c -> sg_ge s t ->
  enodes_applied {| aid := i; am := identity (c_slots c) |} t = Ok (nns, t') ->
  In (sh, (cb, src)) (c_nodes c) ->
  exists nn b_nn, In nn nns /\ clean nn /\ NoDup (binders nn) /\
    wshape nn = Ok (sh, b_nn) /\
    (forall x, In x (c_slots c) -> In x (pub_occ nn)) /\
    (forall k x, In x (c_slots c) -> get cb k = Some x -> get b_nn k = Some x).
Proof.
  intros s I3 K0 M4 Hhc Hpe i c t nns t' sh bij src Hc R H Hin.
  assert (R' : Rel s t) by exact R.
  destruct (class_facts s I3 M4 _ _ Hc) as [_ Below].
  assert (Croot : MatchFacts.cb s t {| aid := i; am := identity (c_slots c) |}).
  { split; [split; [apply covers_identity; exact Hc|apply identity_wf]|].
    cbn [am]. intros v Hv. unfold values_vec in Hv. apply in_map_iff in Hv. destruct Hv as ([k v'] & <- & Hkv).
    apply in_identity in Hkv. destruct Hkv as [<- Hk]. cbn [snd]. pose proof (Below k Hk). destruct R as [_ R]. lia. }
  rewrite enodes_applied_eq in H.
  apply mbind_inv in H. destruct H as (c' & s1 & H1 & H). apply reads_inv in H1. destruct H1 as [Hc' ->].
  cbn [aid] in Hc'. rewrite (Rel_class s _ _ R') in Hc'. rewrite Hc in Hc'. inversion Hc'; subst c'.
  assert (Hid : forall x, In x (c_slots c) -> get (am {| aid := i; am := identity (c_slots c) |}) x = Some x).
  { cbn [am]. intros x Hx. rewrite get_identity. rewrite (proj2 (sset_mem_in _ _) Hx). reflexivity. }
  exact (mapM_entries_full s I3 K0 M4 Hhc Hpe {| aid := i; am := identity (c_slots c) |} c (c_nodes c) t nns t' R' Hc
           (incl_refl _) Croot Hid H sh bij src Hin).
Qed.

Print Assumptions listed_entry.
