(* EGraph/MatchScope.v — A PATTERN VARIABLE OUTSIDE THE SCOPE OF A BINDER IS NOT BOUND TO AN INVOCATION THAT MENTIONS THE
   PATTERN'S BINDER SLOT.

   For the rule (let $1 ?b ?t) -> ?b[(var $1) := ?t] (Sem/FpRewriteSubstEx.v, `R11`): the left-hand side is
   PNode n [PVarP vb; PVarP vt] with nargs n = [ABind x (AApp a1); AApp a2].

   - `ea_entry_clean` / `enodes_applied_clean`: in every node listed by `enodes_applied`, no public slot is the name of a
     binder (the binders are the fresh names of the renaming pass, drawn in a window of the counter in which no value of the
     final slot map lies).  No hashcons invariant is needed: `inv3`, `kids_ok`, `cls4` suffice.
   - `let_scope` : the invocation bound to ?t has no value x.
   - `let_scope_gen` is the same with the premise on x in the form  x mod 4 <> 1 \/ x < ctr s.
   - `searchers_let_scope` : the searcher phase.
   The premise vb <> vt is used by the proof (for vb = vt the second child is only compared with the first, and ?t is bound
   to the invocation UNDER the binder); no counterexample was found for vb = vt.  The premise on x (x is not a fresh slot
   still to be drawn) is NEEDED: `let_scope_needs_x_not_fresh` (vm_compute).  No hashcons invariant is needed.
   - `let_scope_R11`, `R11_lhs_is_letpat`, `let_scope_runs`: the rule of the pool, and the statement evaluated on histories. *)
From SE Require Import Slots.SlotMapFacts Group.GroupSound Lang.LangFacts Lang.ShapeFacts Lang.RenameFacts
  Base.TextFacts Parse.Parser EGraph.Model EGraph.ModelFacts EGraph.ModelMachine EGraph.UnionFindFacts
  EGraph.InvariantFacts EGraph.UnionInvariantFacts EGraph.AddCoversFacts EGraph.HashconsShape EGraph.Mod4Facts
  EGraph.HashconsAbs EGraph.HashconsFacts EGraph.Rewrite EGraph.RewriteFacts EGraph.MatchDefs EGraph.MatchMachine
  EGraph.ProgressFacts EGraph.MatchFacts EGraph.SoundUnion EGraph.MatchLookup EGraph.MatchVals.
Require Import ZArith Lia ZifyBool ZifyN ZifyNat.

Local Notation "a ** b" := (compose_partial a b) (at level 40, left associativity).
Local Notation ectr := Model.ctr.

Local Ltac neq := repeat match goal with
  | H : (_ =? _) = true |- _ => apply N.eqb_eq in H
  | H : (_ =? _) = false |- _ => apply N.eqb_neq in H
  end.

(* ------------------------------------------------------------------ *)
(* 1. the nodes listed by enodes_applied: no public slot is a binder name *)

Definition pclean (n : node) : Prop := forall x, In x (pub_occ n) -> ~ In x (binders n).

Section Clean.
  Variable s0 : egraph.
  Hypothesis I3 : inv3 s0.
  Hypothesis K0 : kids_ok s0.
  Hypothesis M4 : cls4 s0.

  Lemma ea_entry_clean : forall i c e s x2 s', Rel s0 s -> get_class s0 (aid i) = Ok c -> In e (c_nodes c) -> cb s0 s i ->
    ea_entry i c e s = Ok (x2, s') -> pclean x2.
  Proof.
    intros i c [sh [bij src]] s x2 s' R Hc Hin [[Ci Wi] Vi] H.
    unfold ea_entry in H.
    destruct (class_facts s0 I3 M4 _ _ Hc) as [S1c Below].
    apply mbind_inv in H. destruct H as (x0 & s1 & H1 & H). apply lift_inv in H1. destruct H1 as [H1 ->].
    apply mbind_inv in H. destruct H as (x1 & s2 & H2 & H).
    apply mbind_inv in H. destruct H as (m & s3 & H3 & H). cbv zeta in H. apply lift_inv in H. destruct H as [H4 <-].
    pose proof (rn_trav (c_slots c) x0 (ectr s)) as (RI & RG & RD).
    unfold with_ctr in H2. destruct (trav (rnF (c_slots c)) x0 ([], ectr s)) as [x1' [rho c1]] eqn:T.
    inversion H2; subst x1' s2; clear H2. cbn [fst snd] in RI, RG, RD.
    destruct RI as (L1 & RV & RInj). cbn [fst snd] in L1, RV, RInj.
    destruct (fo_spec (am i) c1 _ _ _ _ _ H3) as (SG3 & L3 & (Wm & Im & Vm)).
    { cbn [Model.ctr set_ctr]. lia. }
    { split; [exact I|]. split; [intros k1 k2 v G; discriminate G|intros k v G; discriminate G]. }
    cbn [Model.ctr set_ctr] in L3.
    set (MM := from_iter_onto m (am i)) in *.
    assert (GM : forall k, get MM k = match get (am i) k with Some v => Some v | None => get m k end).
    { intros k. exact (get_union m (am i) k Wm Wi). }
    assert (VM : forall k v, get MM k = Some v -> v < ectr s \/ (c1 <= v /\ v < ectr s')).
    { intros k v G. rewrite GM in G. destruct (get (am i) k) as [u|] eqn:Gi.
      - inversion G; subst u. left. apply Vi. eapply get_values_vec; eauto.
      - right. exact (Vm k v G). }
    pose proof (apply_slotmap_total _ _ _ H4) as TotM.
    assert (Bx0 : binders x0 = binders sh) by (rewrite (apply_slotmap_ren _ _ _ H1); apply binders_asm).
    destruct (K0 (aid i) c _ Hc Hin) as [Sh4 _]. cbn [fst] in Sh4.
    assert (Bx1 : forall b, In b (binders x1) -> ectr s <= b /\ b < c1).
    { intros b Hb. rewrite RG, ren_binders in Hb. apply in_map_iff in Hb. destruct Hb as (bb & <- & Hbb).
      rewrite Bx0 in Hbb. pose proof (Sh4 bb (binders_all_occ _ _ Hbb)) as Z0.
      assert (Hbb' : In bb (all_occ x0)) by (apply binders_all_occ; rewrite Bx0; exact Hbb).
      unfold rnG. cbn [fst].
      destruct (sset_mem bb (c_slots c)) eqn:Em.
      { apply sset_mem_in in Em. pose proof (S1c bb Em) as Z1. unfold ok1 in Z1. lia. }
      destruct (RD bb Hbb') as [D|D]; [congruence|]. cbn [fst] in D.
      destruct (get rho bb) as [v|] eqn:G; [|congruence]. exact (RV bb v G). }
    rewrite (apply_slotmap_ren _ _ _ H4).
    intros x Hx Hb. rewrite binders_asm in Hb.
    destruct (pub_occ_ren_sub (asm_g MM) x1 x (fun _ => eq_refl) Hx) as (x' & Hx' & ->).
    unfold asm_g in Hb. destruct (get MM x') as [u|] eqn:G; [|exact (TotM x' Hx' G)].
    pose proof (Bx1 u Hb). destruct (VM x' u G); lia.
  Qed.

  Lemma mapM_entries_clean : forall i c l s nns s', Rel s0 s -> get_class s0 (aid i) = Ok c -> incl l (c_nodes c) -> cb s0 s i ->
    mapM (ea_entry i c) l s = Ok (nns, s') -> forall nn, In nn nns -> pclean nn.
  Proof.
    intros i c. induction l as [|e t IH]; intros s nns s' R Hc Hl Ci H; cbn [mapM] in H.
    - inversion H; subst. intros nn [].
    - apply mbind_inv in H. destruct H as (y & s1 & H1 & H). apply mbind_inv in H. destruct H as (r & s2 & H2 & H).
      inversion H; subst nns s2; clear H.
      destruct (ea_entry_kids s0 I3 K0 M4 i c e s y s1 R Hc (Hl e (or_introl eq_refl)) Ci H1) as (G1 & L1 & _).
      intros nn [<-|Hnn].
      + exact (ea_entry_clean i c e s y s1 R Hc (Hl e (or_introl eq_refl)) Ci H1).
      + exact (IH s1 r s' (Rel_step s0 _ _ R G1 L1) Hc (fun x Hx => Hl x (or_intror Hx)) (cb_mono s0 _ _ _ L1 Ci) H2 nn Hnn).
  Qed.

  Theorem enodes_applied_clean : forall i s nns s', Rel s0 s -> cb s0 s i -> enodes_applied i s = Ok (nns, s') ->
    forall nn, In nn nns -> pclean nn.
  Proof.
    intros i s nns s' R Ci H. rewrite enodes_applied_eq in H.
    apply mbind_inv in H. destruct H as (c & s1 & H1 & H). apply reads_inv in H1. destruct H1 as [Hc ->].
    rewrite (Rel_class s0 _ _ R) in Hc. exact (mapM_entries_clean i c (c_nodes c) s nns s' R Hc (incl_refl _) Ci H).
  Qed.
End Clean.

(* a weak variant keeps the binders and has no new public slot *)
Lemma weak_variant_pclean : forall s nn vs n2, weak_variants s nn = Ok vs -> In n2 vs -> pclean nn -> pclean n2.
Proof.
  intros s nn vs n2 Hv Hn2 Cl. destruct (weak_variants_sub _ _ _ Hv) as (all & Hall & Hsub).
  destruct (variants_sub s nn all n2 Hall (Hsub _ Hn2)) as (B & P).
  intros x Hx Hb. rewrite B in Hb. exact (Cl x (P x Hx) Hb).
Qed.

(* ------------------------------------------------------------------ *)
(* 2. the structure of a node matched by a let-shaped pattern node *)

Lemma skel_let_inv : forall l z u1 u2, map skel_f l = [ABind z (AApp u1); AApp u2] ->
  exists f b1 b2, l = [ABind f (AApp b1); AApp b2].
Proof.
  intros l z u1 u2 H. destruct l as [|a1 [|a2 [|a3 t]]]; cbn [map] in H; try discriminate.
  destruct a1 as [?|?|f a1|?]; cbn [skel_f] in H; try discriminate.
  destruct a1 as [?|b1|? ?|?]; cbn [skel_f] in H; try discriminate.
  destruct a2 as [?|b2|? ?|?]; cbn [skel_f] in H; try discriminate.
  exists f, b1, b2. reflexivity.
Qed.

Lemma nul_let_inv : forall l f b1 b2, map nul_f l = [ABind f (AApp b1); AApp b2] ->
  exists c1 c2, l = [ABind f (AApp c1); AApp c2].
Proof.
  intros l f b1 b2 H. destruct l as [|a1 [|a2 [|a3 t]]]; cbn [map] in H; try discriminate.
  destruct a1 as [?|?|f' a1|?]; cbn [nul_f] in H; try discriminate.
  destruct a1 as [?|c1|? ?|?]; cbn [nul_f] in H; try discriminate.
  destruct a2 as [?|c2|? ?|?]; cbn [nul_f] in H; try discriminate.
  inversion H; subst. exists c1, c2. reflexivity.
Qed.

Lemma matched_let : forall n n2 n_sh c_sh x a1 a2, nargs n = [ABind x (AApp a1); AApp a2] ->
  wshape n = Ok n_sh -> wshape (nullify n2) = Ok c_sh -> node_eqb (fst n_sh) (fst c_sh) = true ->
  exists f b1 b2, nargs n2 = [ABind f (AApp b1); AApp b2].
Proof.
  intros n n2 [nsh nb] [csh cb'] x a1 a2 Hn W1 W2 E. cbn [fst] in E. apply node_eqb_iff in E. subst csh.
  pose proof (ws_skel _ _ _ W1) as S1. pose proof (ws_skel _ _ _ W2) as S2. rewrite S1 in S2.
  assert (Ea : map skel_f (map nul_f (nargs n2)) = map skel_f (nargs n)).
  { change (map skel_f (map nul_f (nargs n2))) with (nargs (skel (nullify n2))). rewrite <- S2. reflexivity. }
  rewrite Hn in Ea. cbn [map skel_f] in Ea.
  destruct (skel_let_inv _ _ _ _ Ea) as (f & b1 & b2 & E1).
  destruct (nul_let_inv _ _ _ _ E1) as (c1 & c2 & E2). exists f, c1, c2. exact E2.
Qed.

(* ------------------------------------------------------------------ *)
(* 3. the matcher states of a let-shaped pattern with two distinct variables *)

Lemma impl_let : forall s0, inv3 s0 -> kids_ok s0 -> cls4 s0 ->
  forall n x a1 a2 vb vt i s l s', nargs n = [ABind x (AApp a1); AApp a2] -> vb <> vt ->
  Rel s0 s -> cb s0 s i ->
  ematch_impl (PNode n [PVarP vb; PVarP vt]) estate0 i s = Ok (l, s') ->
  forall st, In st l ->
  exists f b1 b2, partial_subst st = [(vb, b1); (vt, b2)] /\ partial_slotmap st = [(f, x)] /\
                  ~ In f (values_vec (am b2)).
Proof.
  intros s0 I3 K0 M4 n x a1 a2 vb vt i s l s' Hn Nv R Ci H st Hst.
  destruct (ematch_impl_node_inv_sg _ _ _ _ _ _ _ H st Hst)
    as (nns & s1 & nn & sa & vs & n2 & n_sh & c_sh & m' & sk & l1 & s2 & Hen & Hnn & Hsa & Hv & Hn2 & Hw1 & Hw2 & He & Hib & Hk & Hl1).
  cbn [partial_subst partial_slotmap estate0] in Hib, Hk.
  pose proof (enodes_applied_clean s0 I3 K0 M4 i s nns s1 R Ci Hen nn Hnn) as Cnn.
  pose proof (weak_variant_pclean sa nn vs n2 Hv Hn2 Cnn) as Cn2.
  destruct (matched_let n n2 n_sh c_sh x a1 a2 Hn Hw1 Hw2 He) as (f & b1 & b2 & En2).
  assert (Ea : app_occ n2 = [b1; b2]) by (unfold app_occ; rewrite En2; reflexivity).
  assert (Nf : ~ In f (values_vec (am b2))).
  { intros Hf. apply (Cn2 f).
    - unfold pub_occ. rewrite En2. cbn [flat_map pub_occ_f]. apply in_or_app. right. apply in_or_app. left. exact Hf.
    - unfold binders. rewrite En2. cbn [flat_map binders_f]. left. reflexivity. }
  (* the slot map *)
  assert (Em : m' = [(f, x)]).
  { rewrite nullify_eq in Hib. unfold all_occ in Hib. cbn [nargs] in Hib. rewrite En2, Hn in Hib.
    cbn [map nul_f flat_map all_occ_f null_appid am values_vec app combine insert_all_bij] in Hib.
    destruct (try_insert_bij f x []) as [m1|] eqn:Et; [|discriminate].
    apply try_insert_bij_eq in Et. destruct Et as (-> & _ & _). inversion Hib; subst m'. reflexivity. }
  (* the children *)
  rewrite Ea in Hk. change [PVarP vb; PVarP vt] with (map PVarP [vb; vt]) in Hk.
  rewrite ematch_kids_vars in Hk.
  - inversion Hk; subst l1 s2. destruct Hl1 as [<-|[]]. cbn [partial_subst partial_slotmap app combine].
    exists f, b1, b2. split; [reflexivity|]. split; [exact Em|exact Nf].
  - constructor; [intros [E|[]]; apply Nv; symmetry; exact E|]. constructor; [intros []|constructor].
  - intros v _. reflexivity.
  - reflexivity.
Qed.

(* ------------------------------------------------------------------ *)
(* 4. final_subst: only the key f of the extended slot map is sent to x *)

(* x is not a fresh slot still to be drawn *)
Definition NX (x : slot) (s : egraph) : Prop := (x mod 4 <> 1 /\ ok1 (ectr s)) \/ x < ectr s.

Definition only_key (x f : slot) (m : slotmap) : Prop := wf m /\ forall k, get m k = Some x -> k = f.

Lemma extend_fresh_x : forall x f l m s m' s', extend_fresh l m s = Ok (m', s') ->
  NX x s -> only_key x f m -> NX x s' /\ only_key x f m'.
Proof.
  intros x f. induction l as [|y t IH]; intros m s m' s' H Nx Ok1; cbn [extend_fresh] in H.
  - inversion H; subst. split; assumption.
  - destruct (contains_key m y).
    + exact (IH _ _ _ _ H Nx Ok1).
    + apply mbind_inv in H. destruct H as (fr & s1 & Hf & H). unfold Model.fresh in Hf. inversion Hf; subst fr s1; clear Hf.
      apply (IH _ _ _ _ H).
      * destruct Nx as [[A B]|A]; [left; split; [exact A|cbn [Model.ctr set_ctr]; apply ok1_next; exact B]|right; cbn [Model.ctr set_ctr]; lia].
      * destruct Ok1 as [W P]. split; [apply insert_wf; exact W|].
        intros k G. rewrite get_insert_any in G. destruct (k =? y) eqn:E; [|exact (P k G)].
        exfalso. inversion G as [G']. destruct Nx as [[A B]|A]; [unfold ok1 in B; lia|lia].
Qed.

Lemma final_let : forall x f vb vt b1 b2 s sb s', vb <> vt -> NX x s -> ~ In f (values_vec (am b2)) ->
  final_go [(vb, b1); (vt, b2)] [(f, x)] s = Ok (sb, s') ->
  forall t', sub_get sb vt = Some t' -> ~ In x (values_vec (am t')).
Proof.
  intros x f vb vt b1 b2 s sb s' Nv Nx Nf H t' G.
  cbn [final_go] in H.
  apply mbind_inv in H. destruct H as (m1 & s1 & He1 & H).
  apply mbind_inv in H. destruct H as (r1 & s2 & H & Hr). apply ret_inv in Hr. destruct Hr as [-> _].
  apply mbind_inv in H. destruct H as (m2 & s3 & He2 & H).
  apply mbind_inv in H. destruct H as (r2 & s4 & H & Hr). apply ret_inv in Hr. destruct Hr as [-> _].
  apply ret_inv in H. destruct H as [-> _].
  assert (O0 : only_key x f [(f, x)]).
  { split; [cbn; auto|]. intros k Gk. cbn [get] in Gk. destruct (k =? f) eqn:E; [neq; exact E|discriminate]. }
  destruct (extend_fresh_x x f _ _ _ _ _ He1 Nx O0) as [Nx1 O1].
  destruct (extend_fresh_x x f _ _ _ _ _ He2 Nx1 O1) as [_ [W2 P2]].
  cbn [sub_get] in G.
  destruct (text_eqb vb vt) eqn:E; [apply text_eqb_eq in E; contradiction|].
  rewrite text_eqb_refl in G. inversion G; subst t'; clear G. cbn [am].
  intros Hx. unfold values_vec in Hx. apply in_map_iff in Hx. destruct Hx as ([k z] & Ez & Hkz). cbn [snd] in Ez. subst z.
  destruct (in_compose _ _ _ _ Hkz) as (y & Hy1 & Hy2).
  pose proof (P2 y (in_get _ _ _ W2 Hy2)) as ->.
  apply Nf. unfold values_vec. apply in_map_iff. exists (k, f). split; [reflexivity|exact Hy1].
Qed.

(* ------------------------------------------------------------------ *)
(* 5. ematch_all *)

Theorem let_scope_gen : forall n x vb vt a1 a2 s0 l s',
  nargs n = [ABind x (AApp a1); AApp a2] -> vb <> vt ->
  inv3 s0 -> kids_ok s0 -> m4 s0 -> (x mod 4 <> 1 \/ x < ectr s0) ->
  ematch_all (PNode n [PVarP vb; PVarP vt]) s0 = Ok (l, s') ->
  forall sb t', In sb l -> sub_get sb vt = Some t' -> ~ In x (values_vec (am t')).
Proof.
  intros n x vb vt a1 a2 s0 l s' Hn Nv I3 K0 M4full Px H sb t' Hsb Hg. pose proof (m4_cls4 _ M4full) as M4.
  set (p := PNode n [PVarP vb; PVarP vt]) in *.
  unfold ematch_all in H.
  apply mbind_inv in H. destruct H as (live & s1 & Hl & H). inversion Hl; subst live s1; clear Hl.
  assert (Hf : forall i, pres R3 (dom sl <- reads (fun s => class_slots s i);
                                  dom sts <- ematch_impl p estate0 {| aid := i; am := identity sl |};
                                  mapM final_subst sts)).
  { intros i. apply pres_R3.
    - apply (pres_bind R2 R2_trans); [apply pres_reads; exact R2_refl|]. intros sl.
      apply (pres_bind R2 R2_trans); [apply r2_ematch_impl|]. intros sts.
      apply (pres_mapM R2 R2_refl R2_trans). intros st. apply r2_final_subst.
    - apply h_tt_bind; [apply h_reads_tt|]. intros sl. apply h_tt_bind; [apply h_ematch_impl|]. intros sts.
      apply h_mapM. intros st. apply h_final_subst. }
  destruct (flat_mapM_invR R3 R3_refl R3_trans _ _ _ _ _ _ _ Hf H sb Hsb)
    as (i & sa & ra & sb' & _ & [Ra Ma] & Hi & Hra & [Rend _]). clear H.
  assert (RA : Rel s0 sa) by exact (Rel_R2 s0 _ _ (Rel_refl s0) Ra).
  apply mbind_inv in Hi. destruct Hi as (sl & sa' & Hs & Hi). apply reads_inv in Hs. destruct Hs as [Hs ->].
  unfold class_slots in Hs. rewrite (Rel_class s0 _ _ RA) in Hs.
  destruct (get_class s0 i) as [c|] eqn:Hc; cbn [bind] in Hs; [|discriminate]. inversion Hs; subst sl; clear Hs.
  apply mbind_inv in Hi. destruct Hi as (sts & s2 & Hm & Hi).
  destruct (class_facts s0 I3 M4 _ _ Hc) as [_ Below].
  assert (Croot : cb s0 sa {| aid := i; am := identity (c_slots c) |}).
  { split; [split; [apply covers_identity; exact Hc|apply identity_wf]|].
    cbn [am]. intros w Hw. unfold values_vec in Hw. apply in_map_iff in Hw. destruct Hw as ([k v'] & <- & Hkv).
    apply in_identity in Hkv. destruct Hkv as [<- Hk]. cbn [snd]. pose proof (Below k Hk). destruct RA as [_ RA]. lia. }
  assert (M2 : m4 s2) by exact (proj1 (h_ematch_impl _ _ _ _ _ _ Hm (Ma M4full))).
  assert (Hf2 : forall st, pres R3 (final_subst st)) by (intros st; apply pres_R3; [apply r2_final_subst|apply h_final_subst]).
  destruct (mapM_invR R3 R3_refl R3_trans _ _ _ _ _ _ _ Hf2 Hi sb Hra) as (st & sc & sd & Hst & [Rc Mc] & Hfs & [Rd _]).
  destruct (impl_let s0 I3 K0 M4 n x a1 a2 vb vt _ sa sts s2 Hn Nv RA Croot Hm st Hst) as (f & b1 & b2 & Es & Em & Nf).
  rewrite final_subst_go, Es, Em in Hfs.
  pose proof (r2_ematch_impl _ _ _ _ _ _ Hm) as R12.
  assert (La : ectr s0 <= ectr sa) by exact (proj2 RA).
  assert (L2 : ectr sa <= ectr s2) by exact (proj2 R12).
  assert (Lc : ectr s2 <= ectr sc) by exact (proj2 Rc).
  apply (final_let x f vb vt b1 b2 sc sb sd Nv); [|exact Nf|exact Hfs|exact Hg].
  destruct Px as [A|A]; [left; split; [exact A|exact (proj1 (Mc M2))]|right; lia].
Qed.

Theorem let_scope : forall n x vb vt a1 a2 s l s',
  nargs n = [ABind x (AApp a1); AApp a2] -> vb <> vt ->
  inv3 s -> kids_ok s -> m4 s -> x mod 4 <> 1 ->
  ematch_all (PNode n [PVarP vb; PVarP vt]) s = Ok (l, s') ->
  forall sb t', In sb l -> sub_get sb vt = Some t' -> ~ In x (values_vec (am t')).
Proof.
  intros n x vb vt a1 a2 s l s' Hn Nv I3 K M Px. exact (let_scope_gen n x vb vt a1 a2 s l s' Hn Nv I3 K M (or_introl Px)).
Qed.

(* ------------------------------------------------------------------ *)
(* 6. the searcher phase *)

Definition SXW (c0 : N) (r : rule) (sb : subst) : Prop :=
  forall n x vb vt a1 a2, r_lhs r = PNode n [PVarP vb; PVarP vt] -> nargs n = [ABind x (AApp a1); AApp a2] ->
  vb <> vt -> (x mod 4 <> 1 \/ x < c0) ->
  forall t', sub_get sb vt = Some t' -> ~ In x (values_vec (am t')).

Definition SX (r : rule) (sb : subst) : Prop :=
  forall n x vb vt a1 a2, r_lhs r = PNode n [PVarP vb; PVarP vt] -> nargs n = [ABind x (AApp a1); AApp a2] ->
  vb <> vt -> x mod 4 <> 1 ->
  forall t', sub_get sb vt = Some t' -> ~ In x (values_vec (am t')).

Lemma SXW_SX : forall c0 r sb, SXW c0 r sb -> SX r sb.
Proof. intros c0 r sb H n x vb vt a1 a2 E Hn Nv Px. exact (H n x vb vt a1 a2 E Hn Nv (or_introl Px)). Qed.

Lemma searchers_let_scope_gen : forall c0 rs s ts s1, c0 <= ectr s -> inv3 s -> kids_ok s -> m4 s ->
  mapM (fun r => ematch_all (r_lhs r)) rs s = Ok (ts, s1) ->
  Forall2 (fun r l => Forall (SXW c0 r) l) rs ts.
Proof.
  intros c0. induction rs as [|r rs IH]; intros s ts s1 L0 I3 K M H; cbn [mapM] in H.
  - apply ret_inv in H. destruct H as [-> _]. constructor.
  - apply mbind_inv in H. destruct H as (l & sa & Hl & H). apply mbind_inv in H. destruct H as (ts' & sb & Ht & H).
    apply ret_inv in H. destruct H as [-> ->].
    pose proof (ematch_all_state _ _ _ _ Hl) as Ga. pose proof (ematch_all_ctr _ _ _ _ Hl) as La.
    constructor.
    + apply Forall_forall. intros sb0 Hsb n x vb vt a1 a2 E Hn Nv Px t' G.
      rewrite E in Hl.
      apply (let_scope_gen n x vb vt a1 a2 s l sa Hn Nv I3 K M) with (sb := sb0); [|exact Hl|exact Hsb|exact G].
      destruct Px as [A|A]; [left; exact A|right; lia].
    + destruct Ga as (Ga1 & Ga2 & Ga3 & Ga4).
      apply (IH sa ts' sb); [|exact (proj1 (qstep_sg s sa I3 (conj Ga1 (conj Ga2 (conj Ga3 Ga4))) La))
                              |eapply kids_ok_same_classes; eauto|exact (proj1 (h_ematch_all _ _ _ _ Hl M))|exact Ht].
      unfold cle in La. lia.
Qed.

Theorem searchers_let_scope_win : forall rs s ts s1, inv3 s -> kids_ok s -> m4 s ->
  mapM (fun r => ematch_all (r_lhs r)) rs s = Ok (ts, s1) ->
  Forall2 (fun r l => Forall (SXW (ectr s) r) l) rs ts.
Proof. intros rs s ts s1. apply searchers_let_scope_gen. lia. Qed.

Theorem searchers_let_scope : forall rs s ts s1, inv3 s -> kids_ok s -> m4 s ->
  mapM (fun r => ematch_all (r_lhs r)) rs s = Ok (ts, s1) ->
  Forall2 (fun r l => Forall (SX r) l) rs ts.
Proof.
  intros rs s ts s1 I3 K M H. pose proof (searchers_let_scope_win rs s ts s1 I3 K M H) as F.
  revert F. apply Forall2_imp. intros r l. apply Forall_impl. intros sb. apply SXW_SX.
Qed.

(* the schedule only reorders / drops *)
Lemma combine_sched_SX : forall sched, sched_sub sched -> forall rs ts,
  Forall2 (fun r l => Forall (SX r) l) rs ts ->
  forall k rt, In rt (combine rs (mapi_from sched k ts)) -> Forall (SX (fst rt)) (snd rt).
Proof.
  intros sched SS rs ts F. induction F as [|r l rs ts Hrl F IH]; intros k rt Hin; cbn [mapi_from combine] in Hin; [destruct Hin|].
  destruct Hin as [<-|Hin]; [|exact (IH (S k) rt Hin)]. cbn [fst snd].
  apply Forall_forall. intros sb Hsb. exact (proj1 (Forall_forall _ _) Hrl sb (SS k l sb Hsb)).
Qed.

(* ------------------------------------------------------------------ *)
(* 7. the rule (let $1 ?b ?t) -> ?b[(var $1) := ?t] of the pool (Sem/FpRewriteSubstEx.R11), and experiments *)

Definition letpat (x : N) (vb vt : text) : pattern :=
  PNode {| nvar := 10; nargs := [ABind x (AApp null_appid); AApp null_appid] |} [PVarP vb; PVarP vt].

Theorem let_scope_R11 : forall s l s', inv3 s -> kids_ok s -> m4 s ->
  ematch_all (letpat 4 [98] [116]) s = Ok (l, s') ->
  forall sb t', In sb l -> sub_get sb [116] = Some t' -> ~ In 4 (values_vec (am t')).
Proof.
  intros s l s' I3 K M H.
  apply (let_scope {| nvar := 10; nargs := [ABind 4 (AApp null_appid); AApp null_appid] |} 4 [98] [116] null_appid null_appid s l s' eq_refl);
    try assumption.
  - intros E. discriminate E.
  - intros E. vm_compute in E. discriminate E.
Qed.

From SE Require Import EGraph.SoundFacts EGraph.SoundAddExpr EGraph.RewriteSoundInst EGraph.RewriteSound EGraph.RewriteSoundRun.
From SE Require Import Sem.Term Sem.Deriv Sem.Algebra Explain.CheckerFacts Sem.Fp Sem.FpFacts Sem.FpRewrite Sem.FpRewriteRun
  Sem.FpRewriteSubstEx.

Example R11_lhs_is_letpat : r_lhs R11 = letpat 4 [98] [116].
Proof. vm_compute. reflexivity. Qed.

(* (executable premises hold, counter of the state, the statement holds for every substitution, the substitutions) *)
Definition chkx (x : N) (vb vt : text) (terms : list fterm) (ops : list rop) : option (bool * N * bool * list subst) :=
  match run_rops (map rterm_of terms) ops [] [] empty_egraph with
  | Ok (_, _, s) =>
      match ematch_all (letpat x vb vt) s with
      | Ok (l, s1) =>
          Some (nodes_okb s && kids_okb s && m4b s, ectr s,
                forallb (fun sb => match sub_get sb vt with
                                   | Some t' => negb (existsb (N.eqb x) (values_vec (am t')))
                                   | None => false
                                   end) l, l)
      | Err _ => None
      end
  | _ => None
  end.
Definition chk_ok (r : option (bool * N * bool * list subst)) : bool :=
  match r with Some (true, _, true, _ :: _) => true | _ => false end.

(* the statement holds on histories in which the let-bound name also occurs free in t, is shadowed, is bound again in the
   context, and after rewriting *)
Example let_scope_runs :
  forallb (fun q => chk_ok (chkx 4 [98] [116] (fst q) (snd q)))
    [ ([TLet 4 (TAdd (TVar 4) (TNum 1)) (TVar 4)], [RAdd 0]);
      ([TLet 4 (TAdd (TVar 4) (TNum 1)) (TAdd (TVar 4) (TVar 8))], [RAdd 0]);
      ([TLet 4 (TNum 1) (TVar 4)], [RAdd 0]);
      ([TLet 4 (TSum 4 (TAdd (TVar 4) (TNum 1))) (TVar 4)], [RAdd 0]);
      ([TLet 8 (TAdd (TVar 8) (TNum 1)) (TVar 4)], [RAdd 0]);
      ([TSum 4 (TLet 8 (TAdd (TVar 8) (TNum 1)) (TVar 4))], [RAdd 0]);
      ([TSum 4 (TLet 4 (TAdd (TVar 4) (TNum 1)) (TVar 4))], [RAdd 0]);
      ([TLet 4 (TAdd (TVar 4) (TVar 12)) (TLet 4 (TVar 4) (TVar 4))], [RAdd 0]);
      ([TLet 4 (TMul (TVar 4) (TNum 0)) (TMul (TVar 4) (TNum 0))], [RAdd 0; RRew [R7]]);
      ([TLet 4 (TMul (TAdd (TVar 4) (TNum 0)) (TNum 2)) (TVar 4); TAdd (TVar 4) (TNum 0)], [RAdd 0; RAdd 1; RRew [R5]]) ] = true.
Proof. vm_compute. reflexivity. Qed.

(* COUNTEREXAMPLE to the statement without the premise on x: the state {let x = x + 1 in x} has counter 17; for the pattern
   (let $f ?b ?t) with the binder slot f = 21 (1 mod 4, not below the counter) the matcher's counter has reached 21 when
   `final_subst` draws a fresh slot for the uncovered slot of the invocation bound to ?t: it is the pattern's binder slot. *)
Example let_scope_needs_x_not_fresh :
  chkx 21 [98] [116] [TLet 4 (TAdd (TVar 4) (TNum 1)) (TVar 4)] [RAdd 0] =
  Some (true, 17, false, [[([98], {| aid := 2; am := [(5, 21)] |}); ([116], {| aid := 0; am := [(1, 21)] |})]]).
Proof. vm_compute. reflexivity. Qed.

Print Assumptions enodes_applied_clean.
Print Assumptions let_scope_gen.
Print Assumptions let_scope.
Print Assumptions searchers_let_scope_win.
Print Assumptions searchers_let_scope.
Print Assumptions combine_sched_SX.
Print Assumptions let_scope_R11.
Print Assumptions let_scope_runs.
Print Assumptions let_scope_needs_x_not_fresh.
