(* EGraph/MatchVals.v — NO VALUE OF A SUBSTITUTION RETURNED BY THE E-MATCHER IS A RESERVED BINDER NAME.

   MatchFacts.v proves that every value x of a map bound by a returned substitution satisfies `LP x \/ x < ctr s'`
   (LP: what is known of the pattern's slot names).  The second disjunct forgets that the slots the matcher draws
   are 1 mod 4.  Here the precise form is proved:

   - `ematch_all_vals` : inv3 s -> kids_ok s -> m4 s -> pat_P LP p -> ematch_all p s = Ok (l, s') ->
        every value x of every map bound by every sb in l satisfies  LP x \/ x mod 4 = 1.
     Reason: `final_subst` returns (am a) ** m' where m' extends the partial slot map (values: pattern slots, `st_ok`
     second clause, from `ematch_impl_ok`) by fresh slots (the counter, 1 mod 4 by m4, kept by pres4), and the values
     of a composition are values of its second factor (`extend_fresh_v`, `final_go_vals`).
   - `ematch_all_vals_nb` : ... -> (forall x, In x (pslots p) -> is_B x = false) -> ... -> Forall sub_nb l
     (`is_B x = (x mod 4 =? 3)`, Sem/Term.v; `sub_nb`: no value of a bound map is a reserved binder name).
     `ematch_all_vals_nb_gen` is the same without the (unused) premise `pat_below`.
   - `searchers_ok_nb` : the searcher phase delivers substitutions that are sub_cov, sub_below and sub_nb. *)
From SE Require Import Slots.SlotMapFacts Group.GroupSound Lang.LangFacts Lang.ShapeFacts Lang.RenameFacts
  Base.TextFacts Parse.Parser Sem.Term EGraph.Model EGraph.ModelFacts EGraph.ModelMachine EGraph.UnionFindFacts
  EGraph.InvariantFacts EGraph.UnionInvariantFacts EGraph.AddCoversFacts EGraph.MonotoneFacts EGraph.Mod4Facts
  EGraph.HashconsFacts EGraph.Rewrite EGraph.RewriteFacts EGraph.ProgressFacts EGraph.MatchDefs EGraph.MatchFacts.
Require Import ZArith Lia ZifyBool ZifyN ZifyNat.

Local Notation "a ** b" := (compose_partial a b) (at level 40, left associativity).
Local Notation ectr := Model.ctr.

Local Ltac neq := repeat match goal with
  | H : (_ =? _) = true |- _ => apply N.eqb_eq in H
  | H : (_ =? _) = false |- _ => apply N.eqb_neq in H
  end.

(* ------------------------------------------------------------------ *)
(* 1. extend_fresh / final_go: the values are Q-values or 1 mod 4 *)

Lemma extend_fresh_v : forall (Q : slot -> Prop) l m s m' s', extend_fresh l m s = Ok (m', s') ->
  ok1 (ectr s) -> (forall k v, get m k = Some v -> Q v \/ v mod 4 = 1) ->
  ok1 (ectr s') /\ (forall k v, get m' k = Some v -> Q v \/ v mod 4 = 1).
Proof.
  intros Q. induction l as [|x t IH]; intros m s m' s' H O V; cbn [extend_fresh] in H.
  - inversion H; subst. split; [exact O|exact V].
  - destruct (contains_key m x).
    + exact (IH _ _ _ _ H O V).
    + apply mbind_inv in H. destruct H as (f & s1 & Hf & H). unfold Model.fresh in Hf. inversion Hf; subst f s1; clear Hf.
      apply (IH _ _ _ _ H).
      * cbn [Model.ctr set_ctr]. apply ok1_next. exact O.
      * intros k v G. rewrite get_insert_any in G. destruct (k =? x).
        -- inversion G; subst v. right. exact O.
        -- exact (V k v G).
Qed.

Lemma final_go_vals : forall (Q : slot -> Prop) l m s r s', final_go l m s = Ok (r, s') ->
  ok1 (ectr s) -> (forall v a, In (v, a) l -> wf (am a)) ->
  (forall k v, get m k = Some v -> Q v \/ v mod 4 = 1) ->
  forall v a, In (v, a) r -> forall x, In x (values_vec (am a)) -> Q x \/ x mod 4 = 1.
Proof.
  intros Q. induction l as [|[v0 a0] t IH]; intros m s r s' H O Hl V; cbn [final_go] in H.
  - apply ret_inv in H. destruct H as [-> _]. intros v a [].
  - apply mbind_inv in H. destruct H as (m' & s1 & He & H).
    apply mbind_inv in H. destruct H as (r1 & s2 & Hr & H). apply ret_inv in H. destruct H as [-> Es]. subst s2.
    destruct (extend_fresh_v Q _ _ _ _ _ He O V) as [O1 V'].
    intros v a Hin. destruct Hin as [Hin|Hin].
    + inversion Hin; subst v a; clear Hin.
      pose proof (Hl v0 a0 (or_introl eq_refl)) as Wa.
      cbn [am]. intros x Hx. unfold values_vec in Hx. apply in_map_iff in Hx. destruct Hx as ([k z] & <- & Hkz). cbn [snd].
      apply (in_get _ _ _ (compose_partial_wf _ _)) in Hkz. rewrite (get_compose_partial _ _ _ Wa) in Hkz.
      destruct (get (am a0) k) as [y|]; [|discriminate]. exact (V' y z Hkz).
    + apply (IH m' s1 r1 s' Hr O1 (fun w b Hw => Hl w b (or_intror Hw)) V' v a Hin).
Qed.

(* ------------------------------------------------------------------ *)
(* 2. ematch_all: the assembly of MatchFacts.ematch_all_cov0, with final_go_vals at the end *)

Theorem ematch_all_vals : forall (LP : slot -> Prop) p s0 l s', inv3 s0 -> kids_ok s0 -> m4 s0 -> pat_P LP p ->
  ematch_all p s0 = Ok (l, s') ->
  forall sb, In sb l -> forall v a, sub_get sb v = Some a ->
  forall x, In x (values_vec (am a)) -> LP x \/ x mod 4 = 1.
Proof.
  intros LP p s0 l s' I3 K0 M4full PB H sb Hsb. pose proof (m4_cls4 _ M4full) as M4.
  unfold ematch_all in H.
  apply mbind_inv in H. destruct H as (live & s1 & Hl & H). inversion Hl; subst live s1; clear Hl.
  assert (Hf : forall i, pres R3 (dom sl <- reads (fun s => class_slots s i);
                                  dom sts <- ematch_impl p estate0 {| aid := i; am := identity sl |};
                                  mapM final_subst sts)).
  { intros i. apply pres_R3.
    - apply (pres_bind R2 R2_trans); [apply pres_reads; exact R2_refl|]. intros sl.
      apply (pres_bind R2 R2_trans); [apply r2_ematch_impl|]. intros sts.
      apply (pres_mapM R2 R2_refl R2_trans). intros st. apply r2_final_subst.
    - apply h_tt_bind; [apply h_reads_tt|]. intros sl. apply h_tt_bind; [apply h_ematch_impl|]. intros sts.
      apply h_mapM. intros st. apply h_final_subst. }
  destruct (flat_mapM_invR R3 R3_refl R3_trans _ _ _ _ _ _ _ Hf H sb Hsb)
    as (i & sa & ra & sb' & _ & [Ra Ma] & Hi & Hra & [Rend _]). clear H.
  assert (RA : Rel s0 sa) by exact (Rel_R2 s0 _ _ (Rel_refl s0) Ra).
  apply mbind_inv in Hi. destruct Hi as (sl & sa' & Hs & Hi). apply reads_inv in Hs. destruct Hs as [Hs ->].
  unfold class_slots in Hs. rewrite (Rel_class s0 _ _ RA) in Hs.
  destruct (get_class s0 i) as [c|] eqn:Hc; cbn [bind] in Hs; [|discriminate]. inversion Hs; subst sl; clear Hs.
  apply mbind_inv in Hi. destruct Hi as (sts & s2 & Hm & Hi).
  destruct (class_facts s0 I3 M4 _ _ Hc) as [_ Below].
  assert (Croot : cb s0 sa {| aid := i; am := identity (c_slots c) |}).
  { split; [split; [apply covers_identity; exact Hc|apply identity_wf]|].
    cbn [am]. intros w Hw. unfold values_vec in Hw. apply in_map_iff in Hw. destruct Hw as ([k v'] & <- & Hkv).
    apply in_identity in Hkv. destruct Hkv as [<- Hk]. cbn [snd]. pose proof (Below k Hk). destruct RA as [_ RA]. lia. }
  assert (S0 : st_ok s0 LP sa estate0).
  { split; [intros w a []|intros k w G; discriminate G]. }
  assert (M2 : m4 s2) by exact (proj1 (h_ematch_impl _ _ _ _ _ _ Hm (Ma M4full))).
  assert (Hf2 : forall st, pres R3 (final_subst st)) by (intros st; apply pres_R3; [apply r2_final_subst|apply h_final_subst]).
  destruct (mapM_invR R3 R3_refl R3_trans _ _ _ _ _ _ _ Hf2 Hi sb Hra) as (st & sc & sd & Hst & [Rc Mc] & Hfs & [Rd _]).
  pose proof (ematch_impl_ok s0 I3 K0 M4 LP p PB estate0 _ sa sts s2 RA Croot S0 Hm st Hst) as [Ast Bst].
  rewrite final_subst_go in Hfs.
  intros v a Hg. destruct (sub_get_in _ _ _ Hg) as (k & Hk).
  apply (final_go_vals LP _ _ _ _ _ Hfs) with (v := k).
  - exact (proj1 (Mc M2)).
  - intros w b Hw. destruct (Ast w b Hw) as [[_ Wb] _]. exact Wb.
  - intros k0 v0 G. left. exact (Bst k0 v0 G).
  - exact Hk.
Qed.

(* ------------------------------------------------------------------ *)
(* 3. no reserved binder names *)

Definition sub_nb (sb : subst) : Prop :=
  forall v a, sub_get sb v = Some a -> forall x, In x (values_vec (am a)) -> is_B x = false.

Lemma ok1_not_B : forall x, x mod 4 = 1 -> is_B x = false.
Proof. intros x E. unfold is_B. rewrite E. reflexivity. Qed.

Theorem ematch_all_vals_nb_gen : forall p s l s', inv3 s -> kids_ok s -> m4 s ->
  (forall x, In x (pslots p) -> is_B x = false) ->
  ematch_all p s = Ok (l, s') -> Forall sub_nb l.
Proof.
  intros p s l s' I3 K M PB H. apply Forall_forall. intros sb Hsb v a Hg x Hx.
  destruct (ematch_all_vals (fun x => is_B x = false) p s l s' I3 K M PB H sb Hsb v a Hg x Hx) as [Q|E];
    [exact Q|apply ok1_not_B; exact E].
Qed.

Theorem ematch_all_vals_nb : forall p s l s', inv3 s -> kids_ok s -> m4 s -> pat_below (ectr s) p ->
  (forall x, In x (pslots p) -> is_B x = false) ->
  ematch_all p s = Ok (l, s') -> Forall sub_nb l.
Proof. intros p s l s' I3 K M _ PB H. exact (ematch_all_vals_nb_gen p s l s' I3 K M PB H). Qed.

Theorem searchers_ok_nb : forall rs s ts s1, inv3 s -> kids_ok s -> m4 s -> rules_below (ectr s) rs ->
  Forall (fun r => forall x, In x (pslots (r_lhs r)) -> is_B x = false) rs ->
  mapM (fun r => ematch_all (r_lhs r)) rs s = Ok (ts, s1) ->
  Forall (Forall (fun sb => sub_cov s1 sb /\ sub_below s1 sb /\ sub_nb sb)) ts.
Proof.
  intros rs s ts s1 I3 K M RB NB.
  apply (searchers_gen (fun B p => pat_below B p /\ forall x, In x (pslots p) -> is_B x = false)
                       (fun s sb => sub_cov s sb /\ sub_below s sb /\ sub_nb sb)); try assumption.
  - intros p s2 l s' I3' K' M' [PB PN] H.
    pose proof (ematch_all_covers_below p s2 l s' I3' K' M' PB H) as F1.
    pose proof (ematch_all_vals_nb p s2 l s' I3' K' M' PB PN H) as F2.
    apply Forall_forall. intros sb Hsb.
    destruct (proj1 (Forall_forall _ _) F1 sb Hsb) as [A B].
    split; [exact A|]. split; [exact B|exact (proj1 (Forall_forall _ _) F2 sb Hsb)].
  - intros s2 s' sb E L (A & B & C). split; [eapply sub_cov_same_classes; eauto|]. split; [eapply sub_below_mono; eauto|exact C].
  - intros B B' p L [H N]. split; [|exact N]. intros x Hx. pose proof (H x Hx). lia.
  - apply Forall_forall. intros r Hr. split.
    + exact (proj1 (proj1 (Forall_forall _ _) RB r Hr)).
    + exact (proj1 (Forall_forall _ _) NB r Hr).
Qed.

Print Assumptions ematch_all_vals_nb.
Print Assumptions searchers_ok_nb.
