(* EGraph/MatchValsWin.v — THE FRESH VALUES OF A SUBSTITUTION RETURNED BY THE E-MATCHER LIE IN THE WINDOW OF THE COUNTER.

   MatchVals.ematch_all_vals: every value x of a map bound by a substitution returned by `ematch_all p s0` satisfies
   `LP x \/ x mod 4 = 1`.  The second disjunct forgets WHEN the fresh slot was drawn.  Here:

   - `ematch_all_vals_win` : ... ematch_all p s0 = Ok (l, s') -> ... LP x \/ (x mod 4 = 1 /\ ectr s0 <= x /\ x < ectr s').
   - `sub_valsW c0 p sb`, `searchers_vals_win`, `sub_valsW_vals`, `combine_sched_valsW`: the searcher phase. *)
From SE Require Import Slots.SlotMapFacts Group.GroupSound Lang.LangFacts Lang.ShapeFacts Lang.RenameFacts
  Base.TextFacts Parse.Parser
  EGraph.Model EGraph.ModelFacts EGraph.ModelMachine EGraph.UnionFindFacts EGraph.InvariantFacts
  EGraph.UnionInvariantFacts EGraph.AddCoversFacts EGraph.MonotoneFacts EGraph.Mod4Facts EGraph.SoundFacts EGraph.SoundUnion
  EGraph.SoundSyn EGraph.SoundNode EGraph.SoundStruct EGraph.NodePass EGraph.SoundBase EGraph.SoundAddNew EGraph.SoundVals
  EGraph.SoundAddExpr EGraph.SoundPending EGraph.SoundRebuild EGraph.SoundGuard EGraph.SoundFinal EGraph.SoundClosed
  EGraph.Rewrite EGraph.RewriteFacts EGraph.ProgressFacts EGraph.MatchDefs EGraph.MatchFacts EGraph.KidsFacts
  EGraph.MatchVals EGraph.RewriteSoundInst EGraph.RewriteSound.
From SE Require Import Sem.Deriv Sem.DerivFacts Sem.AlgebraFacts Sem.EgMachine Explain.CheckerFacts.
Require Import ZArith Lia ZifyBool ZifyN ZifyNat.

Local Notation "a ** b" := (compose_partial a b) (at level 40, left associativity).
Local Notation ectr := Model.ctr.

(* ------------------------------------------------------------------ *)
(* 1. extend_fresh / final_go: the values are Q-values or fresh slots drawn in the window [c0, counter) *)

Definition winv (Q : slot -> Prop) (c0 c1 : N) (v : slot) : Prop := Q v \/ (v mod 4 = 1 /\ c0 <= v /\ v < c1).

Lemma winv_mono : forall Q c0 c1 c2 v, c1 <= c2 -> winv Q c0 c1 v -> winv Q c0 c2 v.
Proof. intros Q c0 c1 c2 v L [q|(A & B & C)]; [left; exact q|right]. split; [exact A|]. split; [exact B|lia]. Qed.

Lemma extend_fresh_w : forall (Q : slot -> Prop) (c0 : N) l m s m' s', extend_fresh l m s = Ok (m', s') ->
  ok1 (ectr s) -> c0 <= ectr s ->
  (forall k v, get m k = Some v -> winv Q c0 (ectr s) v) ->
  ok1 (ectr s') /\ ectr s <= ectr s' /\ (forall k v, get m' k = Some v -> winv Q c0 (ectr s') v).
Proof.
  intros Q c0. induction l as [|x t IH]; intros m s m' s' H O L V; cbn [extend_fresh] in H.
  - inversion H; subst. split; [exact O|]. split; [lia|exact V].
  - destruct (contains_key m x).
    + exact (IH _ _ _ _ H O L V).
    + apply mbind_inv in H. destruct H as (f & s1 & Hf & H). unfold Model.fresh in Hf. inversion Hf; subst f s1; clear Hf.
      assert (E : ectr (set_ctr s (ectr s + 4)) = ectr s + 4) by reflexivity.
      destruct (IH _ _ _ _ H) as (O' & L' & V').
      * rewrite E. apply ok1_next. exact O.
      * rewrite E. lia.
      * intros k v G. rewrite E. rewrite get_insert_any in G. destruct (k =? x).
        -- inversion G; subst v. right. split; [exact O|]. lia.
        -- apply (winv_mono Q c0 (ectr s)); [lia|]. exact (V k v G).
      * rewrite E in L'. split; [exact O'|]. split; [lia|exact V'].
Qed.

Lemma final_go_w : forall (Q : slot -> Prop) (c0 : N) l m s r s', final_go l m s = Ok (r, s') ->
  ok1 (ectr s) -> c0 <= ectr s -> (forall v a, In (v, a) l -> wf (am a)) ->
  (forall k v, get m k = Some v -> winv Q c0 (ectr s) v) ->
  ectr s <= ectr s' /\
  forall v a, In (v, a) r -> forall x, In x (values_vec (am a)) -> winv Q c0 (ectr s') x.
Proof.
  intros Q c0. induction l as [|[v0 a0] t IH]; intros m s r s' H O L Hl V; cbn [final_go] in H.
  - apply ret_inv in H. destruct H as [-> Es]. subst s'. split; [lia|]. intros v a [].
  - apply mbind_inv in H. destruct H as (m' & s1 & He & H).
    apply mbind_inv in H. destruct H as (r1 & s2 & Hr & H). apply ret_inv in H. destruct H as [-> Es]. subst s2.
    destruct (extend_fresh_w Q c0 _ _ _ _ _ He O L V) as (O1 & L1 & V').
    assert (L01 : c0 <= ectr s1) by lia.
    destruct (IH m' s1 r1 s' Hr O1 L01 (fun w b Hw => Hl w b (or_intror Hw)) V') as [L2 IH2].
    split; [lia|].
    intros v a Hin. destruct Hin as [Hin|Hin].
    + inversion Hin; subst v a; clear Hin.
      pose proof (Hl v0 a0 (or_introl eq_refl)) as Wa.
      cbn [am]. intros x Hx. unfold values_vec in Hx. apply in_map_iff in Hx. destruct Hx as ([k z] & <- & Hkz). cbn [snd].
      apply (in_get _ _ _ (compose_partial_wf _ _)) in Hkz. rewrite (get_compose_partial _ _ _ Wa) in Hkz.
      destruct (get (am a0) k) as [y|]; [|discriminate].
      apply (winv_mono Q c0 (ectr s1)); [exact L2|]. exact (V' y z Hkz).
    + exact (IH2 v a Hin).
Qed.

(* ------------------------------------------------------------------ *)
(* 2. ematch_all: the assembly of MatchVals.ematch_all_vals, with final_go_w at the end *)

Theorem ematch_all_vals_win : forall (LP : slot -> Prop) p s0 l s', inv3 s0 -> kids_ok s0 -> m4 s0 -> pat_P LP p ->
  ematch_all p s0 = Ok (l, s') ->
  forall sb, In sb l -> forall v a, sub_get sb v = Some a ->
  forall x, In x (values_vec (am a)) -> LP x \/ (x mod 4 = 1 /\ ectr s0 <= x /\ x < ectr s').
Proof.
  intros LP p s0 l s' I3 K0 M4full PB H sb Hsb. pose proof (m4_cls4 _ M4full) as M4.
  unfold ematch_all in H.
  apply mbind_inv in H. destruct H as (live & s1 & Hl & H). inversion Hl; subst live s1; clear Hl.
  assert (Hf : forall i, pres R3 (dom sl <- reads (fun s => class_slots s i);
                                  dom sts <- ematch_impl p estate0 {| aid := i; am := identity sl |};
                                  mapM final_subst sts)).
  { intros i. apply pres_R3.
    - apply (pres_bind R2 R2_trans); [apply pres_reads; exact R2_refl|]. intros sl.
      apply (pres_bind R2 R2_trans); [apply r2_ematch_impl|]. intros sts.
      apply (pres_mapM R2 R2_refl R2_trans). intros st. apply r2_final_subst.
    - apply h_tt_bind; [apply h_reads_tt|]. intros sl. apply h_tt_bind; [apply h_ematch_impl|]. intros sts.
      apply h_mapM. intros st. apply h_final_subst. }
  destruct (flat_mapM_invR R3 R3_refl R3_trans _ _ _ _ _ _ _ Hf H sb Hsb)
    as (i & sa & ra & sb' & _ & [Ra Ma] & Hi & Hra & [Rend _]). clear H.
  assert (RA : Rel s0 sa) by exact (Rel_R2 s0 _ _ (Rel_refl s0) Ra).
  apply mbind_inv in Hi. destruct Hi as (sl & sa' & Hs & Hi). apply reads_inv in Hs. destruct Hs as [Hs ->].
  unfold class_slots in Hs. rewrite (Rel_class s0 _ _ RA) in Hs.
  destruct (get_class s0 i) as [c|] eqn:Hc; cbn [bind] in Hs; [|discriminate]. inversion Hs; subst sl; clear Hs.
  apply mbind_inv in Hi. destruct Hi as (sts & s2 & Hm & Hi).
  destruct (class_facts s0 I3 M4 _ _ Hc) as [_ Below].
  assert (Croot : cb s0 sa {| aid := i; am := identity (c_slots c) |}).
  { split; [split; [apply covers_identity; exact Hc|apply identity_wf]|].
    cbn [am]. intros w Hw. unfold values_vec in Hw. apply in_map_iff in Hw. destruct Hw as ([k v'] & <- & Hkv).
    apply in_identity in Hkv. destruct Hkv as [<- Hk]. cbn [snd]. pose proof (Below k Hk). destruct RA as [_ RA]. lia. }
  assert (S0 : st_ok s0 LP sa estate0).
  { split; [intros w a []|intros k w G; discriminate G]. }
  assert (M2 : m4 s2) by exact (proj1 (h_ematch_impl _ _ _ _ _ _ Hm (Ma M4full))).
  assert (Hf2 : forall st, pres R3 (final_subst st)) by (intros st; apply pres_R3; [apply r2_final_subst|apply h_final_subst]).
  destruct (mapM_invR R3 R3_refl R3_trans _ _ _ _ _ _ _ Hf2 Hi sb Hra) as (st & sc & sd & Hst & [Rc Mc] & Hfs & [Rd _]).
  pose proof (ematch_impl_ok s0 I3 K0 M4 LP p PB estate0 _ sa sts s2 RA Croot S0 Hm st Hst) as [Ast Bst].
  rewrite final_subst_go in Hfs.
  pose proof (r2_ematch_impl _ _ _ _ _ _ Hm) as R12.
  assert (La : ectr s0 <= ectr sa) by exact (proj2 RA).
  assert (L2 : ectr sa <= ectr s2) by exact (proj2 R12).
  assert (Lc : ectr s2 <= ectr sc) by exact (proj2 Rc).
  assert (Ld : ectr sd <= ectr sb') by exact (proj2 Rd).
  assert (Le : ectr sb' <= ectr s') by exact (proj2 Rend).
  destruct (final_go_w LP (ectr s0) _ _ _ _ _ Hfs) as [Lcd Vd].
  - exact (proj1 (Mc M2)).
  - lia.
  - intros w b Hw. destruct (Ast w b Hw) as [[_ Wb] _]. exact Wb.
  - intros k0 v0 G. left. exact (Bst k0 v0 G).
  - intros v a Hg. destruct (sub_get_in _ _ _ Hg) as (k & Hk). intros x Hx.
    assert (Lf : ectr sd <= ectr s') by lia.
    exact (winv_mono LP (ectr s0) _ _ x Lf (Vd k a Hk x Hx)).
Qed.

(* ------------------------------------------------------------------ *)
(* 3. the searcher phase *)

Definition sub_valsW (c0 : N) (p : pattern) (sb : subst) : Prop :=
  forall v a, sub_get sb v = Some a -> forall x, In x (values_vec (am a)) -> In x (pslots p) \/ (x mod 4 = 1 /\ c0 <= x).

Lemma sub_valsW_vals : forall c0 p sb, sub_valsW c0 p sb -> sub_vals p sb.
Proof. intros c0 p sb H v a G x Hx. destruct (H v a G x Hx) as [q|[A _]]; [left; exact q|right; exact A]. Qed.

Lemma sub_valsW_mono : forall c0 c1 p sb, c0 <= c1 -> sub_valsW c1 p sb -> sub_valsW c0 p sb.
Proof. intros c0 c1 p sb L H v a G x Hx. destruct (H v a G x Hx) as [q|[A B]]; [left; exact q|right]. split; [exact A|lia]. Qed.

Lemma searchers_vals_win_gen : forall c0 rs s ts s1, c0 <= ectr s -> inv3 s -> kids_ok s -> m4 s ->
  mapM (fun r => ematch_all (r_lhs r)) rs s = Ok (ts, s1) ->
  Forall2 (fun r l => Forall (sub_valsW c0 (r_lhs r)) l) rs ts.
Proof.
  intros c0. induction rs as [|r rs IH]; intros s ts s1 L0 I3 K M H; cbn [mapM] in H.
  - apply ret_inv in H. destruct H as [-> _]. constructor.
  - apply mbind_inv in H. destruct H as (l & sa & Hl & H). apply mbind_inv in H. destruct H as (ts' & sb & Ht & H).
    apply ret_inv in H. destruct H as [-> ->].
    pose proof (ematch_all_state _ _ _ _ Hl) as Ga. pose proof (ematch_all_ctr _ _ _ _ Hl) as La.
    constructor.
    + apply Forall_forall. intros sb0 Hsb v a G x Hx.
      destruct (ematch_all_vals_win (fun y => In y (pslots (r_lhs r))) (r_lhs r) s l sa I3 K M (fun y Hy => Hy) Hl sb0 Hsb v a G x Hx)
        as [q|(A & B & _)]; [left; exact q|right]. split; [exact A|lia].
    + destruct Ga as (Ga1 & Ga2 & Ga3 & Ga4).
      apply (IH sa ts' sb); [|exact (proj1 (qstep_sg s sa I3 (conj Ga1 (conj Ga2 (conj Ga3 Ga4))) La))
                              |eapply kids_ok_same_classes; eauto|exact (proj1 (h_ematch_all _ _ _ _ Hl M))|exact Ht].
      unfold cle in La. lia.
Qed.

Lemma searchers_vals_win : forall rs s ts s1, inv3 s -> kids_ok s -> m4 s ->
  mapM (fun r => ematch_all (r_lhs r)) rs s = Ok (ts, s1) ->
  Forall2 (fun r l => Forall (sub_valsW (ectr s) (r_lhs r)) l) rs ts.
Proof. intros rs s ts s1. apply searchers_vals_win_gen. lia. Qed.

Lemma combine_sched_valsW : forall c0 sched, sched_sub sched -> forall rs ts,
  Forall2 (fun r l => Forall (sub_valsW c0 (r_lhs r)) l) rs ts ->
  forall k rt, In rt (combine rs (mapi_from sched k ts)) -> Forall (sub_valsW c0 (r_lhs (fst rt))) (snd rt).
Proof.
  intros c0 sched SS rs ts F. induction F as [|r l rs ts Hrl F IH]; intros k rt Hin; cbn [mapi_from combine] in Hin; [destruct Hin|].
  destruct Hin as [<-|Hin]; [|exact (IH (S k) rt Hin)]. cbn [fst snd].
  apply Forall_forall. intros sb Hsb. exact (proj1 (Forall_forall _ _) Hrl sb (SS k l sb Hsb)).
Qed.

Print Assumptions ematch_all_vals_win.
Print Assumptions searchers_vals_win.
Print Assumptions sub_valsW_vals.
Print Assumptions combine_sched_valsW.
