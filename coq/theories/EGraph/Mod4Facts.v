(* EGraph/Mod4Facts.v — every reachable state of the e-graph model stores only self-generated slots.

   The fresh-slot counter starts at 1 and only moves in steps of 4; the slots of weak shapes are
   0 mod 4; user slots are arbitrary.  Invariant `m4 s` (executable form `m4b`, `m4b_sound`):
     - `ctr s mod 4 = 1`;
     - every key and every value of every map of the `unionfind` table is 1 mod 4 (`a4`);
     - for every class c (`c4`): every value of every stored bijection of `c_nodes c` is 1 mod 4,
       every slot of `c_slots c` is 1 mod 4, every public slot of `c_syn c` is 1 mod 4, and every key
       and value of every permutation stored in the stabiliser chain `c_group c` (identity and coset
       representatives at every level, hence all generators) is 1 mod 4 (`gP`).
   Membership is by `In` in the pair lists (implies the `get` formulation; no sortedness needed).

   Why it is inductive (slot flow of Model.v): NEITHER the keys NOR the values of the handles given to
   `union_internal` reach the state: `find_applied_id` replaces the keys by keys of union-find maps,
   and the values are only used after mapping them back through the inverse (shrink_slots: `origcap`
   = keys), or as the intermediate slots of a composition (move_to, union_leaders).  So `union_internal`
   preserves `m4` for ARBITRARY handles.  Nodes passed to `eg_add` only contribute through
   `mk_singleton_class`, which renames all public slots to fresh ones first.  The group part is not needed
   for the rest (group slots do not flow into the tables: the generators moved by `shrink_slots` are only
   used as handles, the generators transported by `move_to` are rewritten through a map with values in
   keys(to)); it is carried along as a fourth conjunct of `c4`.

   Checked BEFORE proving, by vm_compute after every operation of the histories xT1..xT6 of
   AddCoversFacts.v and of xT7 below (user slots of residues 0, 2, 3; binders; a user-supplied child
   invocation): `m4b` holds everywhere; no counterexample, the formulation did not have to be changed.
   Also true on all these histories but NOT proved here: all (also private) slots of `c_syn` are 1 mod 4
   (`syn_all4b`), keys of the child maps of stored shapes are 1 mod 4 (`shape_keys4b`), keys of stored
   bijections are 0 mod 4 (`bij_keys0b`).

   Proved (closed under the global context): `m4_empty`, preservation (`hoare`/`pres4` triples) through
   raw_add_to_class, raw_remove_from_class, touched_class, record_redundancy_witness, shrink_slots,
   move_to, union_leaders, union_internal (all fuels), pc_congruence, handle_shrink_in_upwards_merge,
   handle_congruence, determine_self_symmetries, hp_loop, handle_pending, rebuild (all fuels), eg_union,
   alloc_eclass, mk_singleton_class, add_internal, eg_add, add_expr, run_ops;
   `reachable_m4`, `reachable_bij4`, `reachable_slots4`.  No remaining hypotheses. *)
From SE Require Import Slots.SlotMapFacts Group.GroupSound Lang.LangFacts Lang.ShapeFacts Lang.RenameFacts
  Base.TextFacts EGraph.Model EGraph.ModelFacts EGraph.ModelMachine EGraph.UnionFindFacts EGraph.InvariantFacts
  EGraph.UnionInvariantFacts EGraph.AddCoversFacts.
Require Import ZArith Lia ZifyBool ZifyN ZifyNat.
Ltac Zify.zify_post_hook ::= Z.div_mod_to_equations.

Local Notation inv := inverse_nocheck.
Local Notation ectr := Model.ctr.

(* ------------------------------------------------------------------ *)
(* 0. executable checkers *)

Definition ok1b (x : slot) : bool := x mod 4 =? 1.
Definition K1b (m : slotmap) : bool := forallb (fun p => ok1b (fst p)) m.
Definition V1b (m : slotmap) : bool := forallb (fun p => ok1b (snd p)) m.
Definition S1b (l : list slot) : bool := forallb ok1b l.

Fixpoint gPb (g : group) : bool :=
  match g with
  | Grp i nx => K1b i && V1b i &&
      match nx with
      | None => true
      | Some (_, o, g') => forallb (fun kp => K1b (snd kp) && V1b (snd kp)) o && gPb g'
      end
  end.
Definition c4b (c : eclass) : bool :=
  forallb (fun e => V1b (fst (snd e))) (c_nodes c) && S1b (c_slots c) && S1b (slots (c_syn c)) && gPb (c_group c).
Definition m4b (s : egraph) : bool :=
  ok1b (ectr s) && forallb (fun e => K1b (am e) && V1b (am e)) (unionfind s) && forallb c4b (classes s).

(* candidate extras, checked separately *)
(* all (also private) slots of the syntactic node *)
Definition syn_all4b (s : egraph) : bool := forallb (fun c => S1b (all_occ (c_syn c))) (classes s).
(* keys of the child maps of stored shapes *)
Definition shape_keys4b (s : egraph) : bool :=
  forallb (fun c => forallb (fun e => forallb (fun a => K1b (am a)) (app_occ (fst e))) (c_nodes c)) (classes s).
(* keys of stored bijections are shape slots *)
Definition bij_keys0b (s : egraph) : bool :=
  forallb (fun c => forallb (fun e => forallb (fun p => fst p mod 4 =? 0) (fst (snd e))) (c_nodes c)) (classes s).

Fixpoint run_chk4 (chk : egraph -> bool) (terms : list rterm) (ops : list hop) (hs : list appid) (s : egraph) : bool :=
  match ops with
  | [] => true
  | o :: t =>
    let r := match o with
      | HAdd k => match nth_opt terms k with None => Err OutOfBounds
                  | Some tm => match add_expr tm s with Ok (a, s') => Ok (hs ++ [a], s') | Err e => Err e end end
      | HUnion i j _ => match nth_opt hs i, nth_opt hs j with
                  | Some a, Some b => match eg_union a b s with Ok (_, s') => Ok (hs, s') | Err e => Err e end
                  | _, _ => Err OutOfBounds end
      end in
    match r with
    | Err e => false
    | Ok (hs', s') => chk s' && run_chk4 chk terms t hs' s'
    end
  end.

Definition xall := [(xT1, xO1); (xT2, xO2); (xT3, xO3); (xT4, xO4); (xT5, xO5); (xT6, xO6)].
Definition chk_all (chk : egraph -> bool) := map (fun p => run_chk4 chk (fst p) (snd p) [] empty_egraph) xall.

Example m4b_checked : chk_all m4b = [true; true; true; true; true; true].
Proof. vm_compute. reflexivity. Qed.
(* further properties that hold on the histories (not part of the proved invariant) *)
Example extras_checked :
  map chk_all [syn_all4b; shape_keys4b; bij_keys0b] = repeat [true; true; true; true; true; true] 3.
Proof. vm_compute. reflexivity. Qed.
(* sanity: the harness is not vacuous *)
Example chk_not_vacuous : chk_all (fun s => ok1b (ectr s + 1)) = [false; false; false; false; false; false].
Proof. vm_compute. reflexivity. Qed.
(* user slots of residues 0, 2, 3 (also as binders), a user-supplied child invocation that is not replaced *)
Definition xT7 := [xs2 2 3 7; xs2 2 7 3; xun 3 (xs2 2 3 7); xlam 3 (xs2 2 3 0); xlam 4 (xs3 8 4 0 3); xbin 4 (xs2 2 3 7) (xs2 2 7 8); xbin 4 (xs2 2 7 3) (xs2 2 8 7);
  RT {| nvar := 4; nargs := [xph; AApp {| aid := 0; am := [(2, 3); (7, 11)] |}] |} [xs2 2 3 7]; xs2 2 3 12].
Definition xO7 := [HAdd 0; HAdd 1; HAdd 2; HAdd 3; HAdd 4; HAdd 5; HAdd 6; HAdd 7; xU 0 1; HAdd 2; HAdd 5; HAdd 6; xU 5 6; HAdd 7; HAdd 8; xU 0 8; HAdd 2; HAdd 7; xU 3 4].
Example x7_checked :
  map (fun chk => run_chk4 chk xT7 xO7 [] empty_egraph) [m4b; syn_all4b; shape_keys4b; bij_keys0b]
  = [true; true; true; true].
Proof. vm_compute. reflexivity. Qed.

(* ------------------------------------------------------------------ *)
(* 1. slot maps: membership lemmas (no sortedness needed) *)

Definition ok1 (x : slot) : Prop := x mod 4 = 1.
Definition K1 (m : slotmap) : Prop := forall k v, In (k, v) m -> ok1 k.
Definition V1 (m : slotmap) : Prop := forall k v, In (k, v) m -> ok1 v.
Definition S1 (l : list slot) : Prop := forall x, In x l -> ok1 x.

Lemma in_insert : forall m l r p, In p (insert l r m) -> p = (l, r) \/ In p m.
Proof.
  induction m as [|[k v] t IH]; intros l r p H; cbn [insert] in H.
  - destruct H as [H|[]]; auto.
  - destruct (l <? k); [destruct H as [H|H]; auto|].
    destruct (l =? k).
    + destruct H as [H|H]; [auto|right; right; exact H].
    + destruct H as [H|H]; [right; left; exact H|]. apply IH in H. destruct H; [auto|right; right; assumption].
Qed.

Lemma in_from_iter_onto : forall ps acc p, In p (from_iter_onto acc ps) -> In p acc \/ In p ps.
Proof.
  unfold from_iter_onto. induction ps as [|q t IH]; intros acc p H; cbn [fold_left] in H; [auto|].
  apply IH in H. destruct H as [H|H]; [|right; right; exact H].
  apply in_insert in H. destruct H as [->|H]; [right; left; destruct q; reflexivity|auto].
Qed.
Lemma in_from_iter : forall ps p, In p (from_iter ps) -> In p ps.
Proof. intros ps p H. apply in_from_iter_onto in H. destruct H as [[]|H]; exact H. Qed.

Lemma in_inverse : forall m k v, In (k, v) (inv m) -> In (v, k) m.
Proof.
  intros m k v H. apply in_from_iter in H. apply in_map_iff in H. destruct H as ([a b] & E & H).
  unfold swap in E. cbn in E. inversion E; subst. exact H.
Qed.

Lemma in_compose : forall a b k z, In (k, z) (compose_partial a b) -> exists y, In (k, y) a /\ In (y, z) b.
Proof.
  intros a b k z H. apply in_from_iter in H. apply in_flat_map in H. destruct H as ([x y] & Hx & H).
  cbn [fst snd] in H. destruct (get b y) as [z'|] eqn:G; [|destruct H].
  destruct H as [H|[]]. inversion H; subst. exists y. split; [assumption|]. apply get_in; assumption.
Qed.

Lemma in_sset_of_list : forall l x, In x (sset_of_list l) -> In x l.
Proof. intros l x H. apply (proj2 (sset_of_list_spec l)). exact H. Qed.

Lemma in_identity : forall sl k v, In (k, v) (identity sl) -> k = v /\ In k sl.
Proof.
  intros sl k v H. apply in_from_iter in H. apply in_map_iff in H. destruct H as (x & E & H).
  inversion E; subst. auto.
Qed.

Lemma in_values : forall m v, In v (values m) -> exists k, In (k, v) m.
Proof.
  intros m v H. apply in_sset_of_list in H. unfold values_vec in H. apply in_map_iff in H.
  destruct H as ([k v'] & E & H). cbn in E. subst. eauto.
Qed.

Lemma K1_compose : forall a b, K1 a -> K1 (compose_partial a b).
Proof. intros a b H k v Hi. apply in_compose in Hi. destruct Hi as (y & Hy & _). eapply H; eauto. Qed.
Lemma V1_compose : forall a b, V1 b -> V1 (compose_partial a b).
Proof. intros a b H k v Hi. apply in_compose in Hi. destruct Hi as (y & _ & Hy). eapply H; eauto. Qed.
Lemma V1_inverse : forall m, K1 m -> V1 (inv m).
Proof. intros m H k v Hi. apply in_inverse in Hi. eapply H; eauto. Qed.
Lemma K1_inverse : forall m, V1 m -> K1 (inv m).
Proof. intros m H k v Hi. apply in_inverse in Hi. eapply H; eauto. Qed.
Lemma K1_identity : forall sl, S1 sl -> K1 (identity sl).
Proof. intros sl H k v Hi. apply in_identity in Hi. apply H. tauto. Qed.
Lemma V1_identity : forall sl, S1 sl -> V1 (identity sl).
Proof. intros sl H k v Hi. apply in_identity in Hi. destruct Hi as [-> Hi]. apply H. assumption. Qed.
Lemma S1_values : forall m, V1 m -> S1 (values m).
Proof. intros m H x Hx. apply in_values in Hx. destruct Hx as [k Hk]. eapply H; eauto. Qed.
Lemma S1_sset_of_list : forall l, S1 l -> S1 (sset_of_list l).
Proof. intros l H x Hx. apply H. apply in_sset_of_list. assumption. Qed.
Lemma V1_insert : forall m l r, V1 m -> ok1 r -> V1 (insert l r m).
Proof. intros m l r H Hr k v Hi. apply in_insert in Hi. destruct Hi as [E|Hi]; [inversion E; subst; assumption|eapply H; eauto]. Qed.
Lemma K1_insert : forall m l r, K1 m -> ok1 l -> K1 (insert l r m).
Proof. intros m l r H Hr k v Hi. apply in_insert in Hi. destruct Hi as [E|Hi]; [inversion E; subst; assumption|eapply H; eauto]. Qed.
Lemma ok1_next : forall c, ok1 c -> ok1 (c + 4).
Proof. unfold ok1. intros. lia. Qed.
Lemma ok1_step : forall c c', ok1 c -> ctr_step c c' -> ok1 c'.
Proof. unfold ok1. intros c c' H S. rewrite (ctr_step_mod _ _ S). assumption. Qed.

Lemma compose_fresh_go_V1 : forall a b c out, V1 b -> V1 out -> ok1 c -> V1 (fst (compose_fresh_go a b c out)).
Proof.
  induction a as [|[x y] t IH]; intros b c out Hb Ho Hc; cbn [compose_fresh_go]; [exact Ho|].
  destruct (get b y) as [z|] eqn:G.
  - apply IH; auto. apply V1_insert; auto. apply get_in in G. eapply Hb; eauto.
  - apply IH; auto; [apply V1_insert; auto|apply ok1_next; auto].
Qed.
Lemma compose_fresh_V1 : forall a b c, V1 b -> ok1 c -> V1 (fst (compose_fresh a b c)).
Proof. intros. apply compose_fresh_go_V1; auto. intros k v []. Qed.

Lemma bff_go_K1 : forall s c out, K1 out -> ok1 c -> K1 (fst (bff_go s c out)).
Proof.
  induction s as [|x t IH]; intros c out Ho Hc; cbn [bff_go]; [exact Ho|].
  apply IH; [apply K1_insert; auto|apply ok1_next; auto].
Qed.
Lemma bff_K1 : forall s c, ok1 c -> K1 (fst (bijection_from_fresh_to s c)).
Proof. intros. apply bff_go_K1; auto. intros k v []. Qed.

Lemma mapr_index_in : forall m l r, mapr (index m) l = Ok r -> forall y, In y r -> exists x, In (x, y) m.
Proof.
  induction l as [|a t IH]; intros r H y Hy; cbn [mapr] in H.
  - inversion H; subst. destruct Hy.
  - unfold index at 1 in H. destruct (get m a) as [v|] eqn:G; cbn [bind] in H; [|discriminate].
    destruct (mapr (index m) t) as [r'|] eqn:E; cbn [bind] in H; [|discriminate].
    inversion H; subst. destruct Hy as [<-|Hy]; [exists a; apply get_in; assumption|eapply IH; eauto].
Qed.

(* ------------------------------------------------------------------ *)
(* 2. public slots of a renamed node *)

Section TravPub.
  Context {St : Type} (f : bool -> slot -> St -> slot * St) (I : St -> Prop) (P : slot -> Prop).
  Hypothesis f_priv : forall s st, fst (f false s st) = s.
  Hypothesis f_pub : forall s st, I st -> P (fst (f true s st)).
  Hypothesis f_I : forall b s st, I st -> I (snd (f b s st)).

  Lemma f_occ : forall bound s st, I st ->
    let b := negb (existsb (N.eqb s) bound) in P (fst (f b s st)) \/ In (fst (f b s st)) bound.
  Proof.
    intros bound s st HI. cbv zeta. destruct (existsb (N.eqb s) bound) eqn:E; cbn [negb].
    - right. rewrite f_priv. apply existsb_exists in E. destruct E as (x & Hx & E). apply N.eqb_eq in E. subst. assumption.
    - left. apply f_pub. assumption.
  Qed.

  Lemma trav_vals_pub : forall bound m st, I st ->
    I (snd (trav_vals f bound m st)) /\
    forall x, In x (values_vec (fst (trav_vals f bound m st))) -> P x \/ In x bound.
  Proof.
    induction m as [|[k v] t IH]; intros st HI; cbn [trav_vals]; [split; [assumption|intros x []]|].
    pose proof (f_occ bound v st HI) as H1. cbv zeta in H1.
    pose proof (f_I (negb (existsb (N.eqb v) bound)) v st HI) as H2.
    destruct (f _ v st) as [v' st1]. cbn [fst snd] in *.
    destruct (IH st1 H2) as [H3 H4]. destruct (trav_vals f bound t st1) as [t' st2]. cbn [fst snd] in *.
    split; [assumption|]. intros x [<-|Hx]; auto.
  Qed.

  Lemma trav_f_pub : forall a bound st, I st ->
    I (snd (trav_f f bound a st)) /\
    forall x, In x (pub_occ_f (fst (trav_f f bound a st))) -> P x \/ In x bound.
  Proof.
    induction a as [s|y|s b IH|p]; intros bound st HI; cbn [trav_f].
    - pose proof (f_occ bound s st HI) as H1. cbv zeta in H1.
      pose proof (f_I (negb (existsb (N.eqb s) bound)) s st HI) as H2.
      destruct (f _ s st) as [s' st1]. cbn [fst snd pub_occ_f] in *. split; [assumption|].
      intros x [<-|[]]. assumption.
    - pose proof (trav_vals_pub bound (am y) st HI) as [H1 H2].
      destruct (trav_vals f bound (am y) st) as [m' st1]. cbn [fst snd pub_occ_f am] in *. auto.
    - pose proof (f_priv s st) as H0. pose proof (f_I false s st HI) as H1.
      destruct (f false s st) as [s' st1]. cbn [fst snd] in *. subst s'.
      destruct (IH (s :: bound) st1 H1) as [H2 H3].
      destruct (trav_f f (s :: bound) b st1) as [b' st2]. cbn [fst snd pub_occ_f] in *.
      split; [assumption|]. intros x Hx. apply filter_In in Hx. destruct Hx as [Hx Hn].
      destruct (H3 x Hx) as [H|[H|H]]; auto. subst x. rewrite N.eqb_refl in Hn. discriminate.
    - cbn [fst snd pub_occ_f]. split; [assumption|intros x []].
  Qed.

  Lemma trav_args_pub : forall l st, I st ->
    I (snd (trav_args f l st)) /\
    forall x, In x (flat_map pub_occ_f (fst (trav_args f l st))) -> P x.
  Proof.
    induction l as [|a t IH]; intros st HI; cbn [trav_args]; [split; [assumption|intros x []]|].
    destruct (trav_f_pub a [] st HI) as [H1 H2]. destruct (trav_f f [] a st) as [a' st1]. cbn [fst snd] in *.
    destruct (IH st1 H1) as [H3 H4]. destruct (trav_args f t st1) as [t' st2]. cbn [fst snd flat_map] in *.
    split; [assumption|]. intros x Hx. apply in_app_or in Hx. destruct Hx as [Hx|Hx]; [|auto].
    destruct (H2 x Hx) as [H|[]]; assumption.
  Qed.

  Lemma trav_pub : forall n st, I st -> forall x, In x (pub_occ (fst (trav f n st))) -> P x.
  Proof.
    intros n st HI x. unfold trav. destruct (trav_args_pub (nargs n) st HI) as [_ H].
    destruct (trav_args f (nargs n) st) as [l st']. cbn [fst] in *. unfold pub_occ. cbn [nargs]. apply H.
  Qed.
End TravPub.

Lemma asf_pub_ok1 : forall m n (c : N), V1 m -> ok1 c -> S1 (pub_occ (fst (apply_slotmap_fresh false m n c))).
Proof.
  intros m n c Hm Hc x. unfold apply_slotmap_fresh.
  match goal with |- context [trav ?f n (m, c)] =>
    pose proof (trav_pub f (fun st : slotmap * N => V1 (fst st) /\ ok1 (snd st)) ok1) as H;
    destruct (trav f n (m, c)) as [n' [m' c']] eqn:E
  end.
  cbn [fst]. intros Hx.
  assert (Hg : forall x, In x (pub_occ (fst (n', (m', c')))) -> ok1 x); [|apply Hg; exact Hx].
  rewrite <- E. apply H.
  - intros s st. reflexivity.
  - intros s [m0 c0] [A B]. cbn [fst snd] in *. destruct (get m0 s) eqn:G; cbn [fst]; [|assumption].
    apply get_in in G. eapply A; eauto.
  - intros b s [m0 c0] [A B]. cbn [fst snd] in *. destruct b; [|cbn [fst snd]; auto].
    destruct (get m0 s); cbn [fst snd]; [auto|]. split; [apply V1_insert; auto|apply ok1_next; auto].
  - cbn [fst snd]. auto.
Qed.

Lemma asf_slots_ok1 : forall m n c, V1 m -> ok1 c -> S1 (slots (fst (apply_slotmap_fresh false m n c))).
Proof. intros. unfold slots. apply S1_sset_of_list. apply asf_pub_ok1; assumption. Qed.

Lemma wshape_V1 : forall n sh bij, wshape n = Ok (sh, bij) -> S1 (pub_occ n) -> V1 bij.
Proof.
  intros n sh bij H Hp k v Hi. destruct (shape_bij_props _ _ _ H) as (W & _ & B).
  apply Hp. apply B. exists k. apply in_get; assumption.
Qed.
Lemma S1_slots_pub : forall n, S1 (slots n) -> S1 (pub_occ n).
Proof. intros n H x Hx. apply H. unfold slots. apply (proj2 (sset_of_list_spec _)). assumption. Qed.

(* ------------------------------------------------------------------ *)
(* 2b. groups: every permutation stored in a stabiliser chain *)

Definition PP (p : perm) : Prop := K1 p /\ V1 p.
Definition LP (l : list perm) : Prop := forall p, In p l -> PP p.
Definition otP (o : ot) : Prop := forall k p, In (k, p) o -> PP p.

Fixpoint gP (g : group) : Prop :=
  match g with
  | Grp i nx => PP i /\ match nx with
                        | None => True
                        | Some (_, o, g') => otP o /\ gP g'
                        end
  end.

Lemma PP_compose : forall a b, PP a -> PP b -> PP (compose_partial a b).
Proof. intros a b [A _] [_ B]. split; [apply K1_compose|apply V1_compose]; assumption. Qed.
Lemma PP_inverse : forall p, PP p -> PP (inv p).
Proof. intros p [A B]. split; [apply K1_inverse|apply V1_inverse]; assumption. Qed.
Lemma PP_identity : forall sl, S1 sl -> PP (identity sl).
Proof. intros sl H. split; [apply K1_identity|apply V1_identity]; assumption. Qed.
Lemma PP_filter : forall (f : slot * slot -> bool) p, PP p -> PP (filter f p).
Proof.
  intros f p [A B]. split; intros k v Hi; apply filter_In in Hi; destruct Hi as [Hi _]; eauto.
Qed.

Lemma fold_res_inv : forall {A B} (F : res A -> B -> res A) (Q : A -> Prop) (l : list B),
  (forall acc b, In b l -> (forall a, acc = Ok a -> Q a) -> forall a, F acc b = Ok a -> Q a) ->
  forall acc, (forall a, acc = Ok a -> Q a) -> forall r, fold_left F l acc = Ok r -> Q r.
Proof.
  intros A B F Q l. induction l as [|b t IH]; intros HF acc Hacc r H; cbn [fold_left] in H; [auto|].
  eapply IH; [| |exact H].
  - intros acc' b' Hb'. apply HF. right. assumption.
  - intros a. apply HF; [left; reflexivity|assumption].
Qed.

Lemma ot_get_in : forall o s p, ot_get o s = Some p -> exists k, In (k, p) o.
Proof.
  induction o as [|[k v] t IH]; intros s p H; cbn [ot_get] in H; [discriminate|].
  destruct (s =? k); [inversion H; subst; eexists; left; reflexivity|].
  apply IH in H. destruct H as [k' H]. exists k'. right. assumption.
Qed.

Lemma compose_false : forall a b x, compose false a b = Ok x -> x = compose_partial a b.
Proof. intros a b x H. unfold compose in H. cbn [andb] in H. inversion H. reflexivity. Qed.
Lemma inverse_false : forall m x, inverse false m = Ok x -> x = inv m.
Proof. intros m x H. unfold inverse in H. cbn [andb] in H. inversion H. reflexivity. Qed.

Lemma ot_pass_gen_P : forall stab g o r, PP g -> otP o -> ot_pass_gen false stab g o = Ok r -> otP r.
Proof.
  intros stab g o r Hg Ho H. unfold ot_pass_gen in H.
  eapply (fold_res_inv _ otP o); [| |exact H].
  - intros acc [k v] Hb Hacc a Ha. destruct acc as [acc|]; cbn [bind] in Ha; [|discriminate].
    cbn [snd] in Ha. destruct (compose false v g) as [new|] eqn:C; cbn [bind] in Ha; [|discriminate].
    apply compose_false in C.
    destruct (index new stab) as [target|]; cbn [bind] in Ha; [|discriminate].
    pose proof (Hacc acc eq_refl) as Pa.
    destruct (ot_get acc target); inversion Ha; subst a; [assumption|].
    intros k' p' Hi. apply in_app_or in Hi. destruct Hi as [Hi|[E|[]]]; [eapply Pa; eauto|].
    inversion E; subst. apply PP_compose; [eapply Ho; eauto|assumption].
  - intros a E. inversion E; subst. assumption.
Qed.

Lemma ot_pass_P : forall stab gens o r, LP gens -> otP o -> ot_pass false stab gens o = Ok r -> otP r.
Proof.
  intros stab gens o r Hg Ho H. unfold ot_pass in H.
  eapply (fold_res_inv _ otP gens); [| |exact H].
  - intros acc g Hb Hacc a Ha. destruct acc as [acc|]; cbn [bind] in Ha; [|discriminate].
    eapply ot_pass_gen_P; [apply Hg; exact Hb|apply Hacc; reflexivity|exact Ha].
  - intros a E. inversion E; subst. assumption.
Qed.

Lemma build_ot_loop_P : forall fuel stab gens o r, LP gens -> otP o -> build_ot_loop false fuel stab gens o = Ok r -> otP r.
Proof.
  induction fuel as [|f IH]; intros stab gens o r Hg Ho H; cbn [build_ot_loop] in H; [discriminate|].
  destruct (ot_pass false stab gens o) as [o'|] eqn:E; cbn [bind] in H; [|discriminate].
  pose proof (ot_pass_P _ _ _ _ Hg Ho E) as Ho'.
  destruct (Nat.eqb _ _); [inversion H; subst; assumption|eapply IH; eauto].
Qed.

Lemma build_ot_P : forall stab i gens r, PP i -> LP gens -> build_ot false stab i gens = Ok r -> otP r.
Proof.
  intros stab i gens r Hi Hg H. unfold build_ot in H. eapply build_ot_loop_P; [exact Hg| |exact H].
  intros k p [E|[]]. inversion E; subst. assumption.
Qed.

Lemma in_padd : forall p l q, In q (padd p l) -> q = p \/ In q l.
Proof.
  intros p l q H. unfold padd in H. destruct (pmem p l); [auto|]. apply in_app_or in H.
  destruct H as [H|[H|[]]]; auto.
Qed.
Lemma in_punion : forall b a q, In q (punion a b) -> In q a \/ In q b.
Proof.
  unfold punion. induction b as [|p t IH]; intros a q H; cbn [fold_left] in H; [auto|].
  apply IH in H. destruct H as [H|H]; [|right; right; assumption]. apply in_padd in H.
  destruct H as [->|H]; [right; left; reflexivity|auto].
Qed.
Lemma LP_punion : forall a b, LP a -> LP b -> LP (punion a b).
Proof. intros a b A B q H. apply in_punion in H. destruct H; auto. Qed.
Lemma LP_pdedup : forall l, LP l -> LP (pdedup l).
Proof. intros l H. apply LP_punion; [intros q []|assumption]. Qed.
Lemma LP_nil : LP [].
Proof. intros q []. Qed.

Lemma schreier_P : forall stab o gens r, otP o -> LP gens -> schreier false stab o gens = Ok r -> LP r.
Proof.
  intros stab o gens r Ho Hg H. unfold schreier in H.
  eapply (fold_res_inv _ LP o); [| |exact H].
  - intros acc [k v] Hb Hacc a Ha.
    eapply (fold_res_inv _ LP gens); [| |exact Ha]; [|exact Hacc].
    intros acc' s Hs Hacc' a' Ha'. destruct acc' as [acc'|]; cbn [bind] in Ha'; [|discriminate].
    cbn [snd] in Ha'. destruct (compose false v s) as [rs|] eqn:C; cbn [bind] in Ha'; [|discriminate].
    apply compose_false in C.
    destruct (index rs stab) as [t|]; cbn [bind] in Ha'; [|discriminate].
    destruct (ot_get o t) as [r2|] eqn:G; [|discriminate].
    destruct (inverse false r2) as [r2i|] eqn:Iv; cbn [bind] in Ha'; [|discriminate]. apply inverse_false in Iv.
    destruct (compose false rs r2i) as [x|] eqn:C2; cbn [bind] in Ha'; [|discriminate]. apply compose_false in C2.
    inversion Ha'; subst a'. intros q Hq. apply in_padd in Hq. destruct Hq as [->|Hq]; [|exact (Hacc' _ eq_refl _ Hq)].
    apply ot_get_in in G. destruct G as [k2 G]. subst x rs r2i.
    apply PP_compose; [apply PP_compose; [eapply Ho; eauto|apply Hg; assumption]|apply PP_inverse; eapply Ho; eauto].
  - intros a E. inversion E; subst. apply LP_nil.
Qed.

Lemma gnew_P : forall fuel i gens g, PP i -> LP gens -> gnew false fuel i gens = Ok g -> gP g.
Proof.
  induction fuel as [|f IH]; intros i gens g Hi Hg H; cbn [gnew] in H; [discriminate|].
  destruct (find_lowest_nonstab gens) as [s|]; [|inversion H; subst; cbn [gP]; auto].
  destruct (build_ot false s i gens) as [o|] eqn:B; cbn [bind] in H; [|discriminate].
  destruct (schreier false s o gens) as [sg|] eqn:S; cbn [bind] in H; [|discriminate].
  destruct (gnew false f i sg) as [g'|] eqn:G; cbn [bind] in H; [|discriminate].
  inversion H; subst. pose proof (build_ot_P _ _ _ _ Hi Hg B) as Po.
  cbn [gP]. split; [assumption|]. split; [assumption|]. eapply IH; [exact Hi| |exact G].
  eapply schreier_P; eauto.
Qed.

Lemma group_new_P : forall i gens g, PP i -> LP gens -> group_new false i gens = Ok g -> gP g.
Proof. intros i gens g Hi Hg H. unfold group_new in H. eapply gnew_P; [exact Hi| |exact H]. apply LP_pdedup. assumption. Qed.

Lemma gidentity_P : forall g, gP g -> PP (gidentity g).
Proof. intros [i nx] H. exact (proj1 H). Qed.

Lemma ggens_impl_P : forall g, gP g -> LP (ggens_impl g).
Proof.
  fix IH 1. intros [i [[[s o] g']|]] H; cbn [ggens_impl]; [|apply LP_nil].
  cbn [gP] in H. destruct H as (_ & Ho & Hg'). apply LP_punion; [|apply IH; assumption].
  apply LP_pdedup. intros p Hp. apply in_map_iff in Hp. destruct Hp as ([k v] & <- & Hi). eapply Ho; eauto.
Qed.
Lemma ggenerators_P : forall g, gP g -> LP (ggenerators g).
Proof.
  intros g H p Hp. unfold ggenerators, premove in Hp. apply filter_In in Hp. destruct Hp as [Hp _].
  eapply ggens_impl_P; eauto.
Qed.

Lemma gadd_set_P : forall g perms r, gP g -> LP perms -> gadd_set false g perms = Ok r -> gP (fst r).
Proof.
  intros g perms r Hg Hp H. unfold gadd_set in H.
  match type of H with bind ?k _ = _ => destruct k as [keep|] eqn:K end; cbn [bind] in H; [|discriminate].
  assert (Pk : LP keep).
  { eapply (fold_res_inv _ LP perms); [| |exact K].
    - intros acc p Hi Hacc a Ha. destruct acc as [acc|]; cbn [bind] in Ha; [|discriminate].
      destruct (gcontains false g p) as [c|]; cbn [bind] in Ha; [|discriminate].
      inversion Ha; subst a. destruct c; [exact (Hacc _ eq_refl)|].
      intros q Hq. apply in_padd in Hq. destruct Hq as [->|Hq]; [auto|exact (Hacc _ eq_refl _ Hq)].
    - intros a E. inversion E; subst. apply LP_nil. }
  destruct keep as [|k0 kt]; [inversion H; subst; assumption|].
  match type of H with bind ?k _ = _ => destruct k as [g'|] eqn:G end; cbn [bind] in H; [|discriminate].
  inversion H; subst. cbn [fst]. eapply group_new_P; [apply gidentity_P; exact Hg| |exact G].
  apply LP_punion; [apply ggenerators_P|]; assumption.
Qed.

(* ------------------------------------------------------------------ *)
(* 3. the invariant *)

Definition a4 (e : appid) : Prop := K1 (am e) /\ V1 (am e).
Definition c4 (c : eclass) : Prop :=
  (forall sh bij src, In (sh, (bij, src)) (c_nodes c) -> V1 bij) /\ S1 (c_slots c) /\ S1 (slots (c_syn c)) /\
  gP (c_group c).
Definition m4 (s : egraph) : Prop :=
  ok1 (ectr s) /\ (forall e, In e (unionfind s) -> a4 e) /\ (forall c, In c (classes s) -> c4 c).

Definition bij4 (s : egraph) : Prop :=
  forall i c sh bij src k v, get_class s i = Ok c -> In (sh, (bij, src)) (c_nodes c) -> get bij k = Some v -> v mod 4 = 1.

Lemma forallb_In : forall {A} (f : A -> bool) l x, forallb f l = true -> In x l -> f x = true.
Proof. intros A f l x H Hx. rewrite forallb_forall in H. auto. Qed.

Lemma ok1b_sound : forall x, ok1b x = true -> ok1 x.
Proof. unfold ok1b, ok1. intros x H. apply N.eqb_eq in H. exact H. Qed.
Lemma K1b_sound : forall m, K1b m = true -> K1 m.
Proof. intros m H k v Hi. apply ok1b_sound. exact (forallb_In _ _ _ H Hi). Qed.
Lemma V1b_sound : forall m, V1b m = true -> V1 m.
Proof. intros m H k v Hi. apply ok1b_sound. exact (forallb_In _ _ _ H Hi). Qed.
Lemma S1b_sound : forall l, S1b l = true -> S1 l.
Proof. intros l H x Hi. apply ok1b_sound. exact (forallb_In _ _ _ H Hi). Qed.

Lemma gPb_sound : forall g, gPb g = true -> gP g.
Proof.
  fix IH 1. intros [i [[[st o] g']|]] H; cbn [gPb] in H; cbn [gP].
  - apply andb_prop in H. destruct H as [H1 H2]. apply andb_prop in H1. destruct H1 as [A B].
    apply andb_prop in H2. destruct H2 as [Ho Hg].
    split; [split; [apply K1b_sound|apply V1b_sound]; assumption|]. split; [|apply IH; assumption].
    intros k p Hi. pose proof (forallb_In _ _ _ Ho Hi) as H. cbn [snd] in H. apply andb_prop in H. destruct H.
    split; [apply K1b_sound|apply V1b_sound]; assumption.
  - apply andb_prop in H. destruct H as [H1 _]. apply andb_prop in H1. destruct H1 as [A B].
    split; [split; [apply K1b_sound|apply V1b_sound]; assumption|exact Logic.I].
Qed.

Theorem m4b_sound : forall s, m4b s = true -> m4 s.
Proof.
  intros s H. unfold m4b in H. apply andb_prop in H. destruct H as [H H3]. apply andb_prop in H. destruct H as [H1 H2].
  split; [apply ok1b_sound; assumption|]. split.
  - intros e He. pose proof (forallb_In _ _ _ H2 He) as H. cbv beta in H. apply andb_prop in H.
    destruct H. split; [apply K1b_sound|apply V1b_sound]; assumption.
  - intros c Hc. pose proof (forallb_In _ _ _ H3 Hc) as H. unfold c4b in H. apply andb_prop in H.
    destruct H as [H Hg]. apply andb_prop in H.
    destruct H as [H Hs]. apply andb_prop in H. destruct H as [Hn Hl].
    split; [|split; [|split]]; [|apply S1b_sound; assumption|apply S1b_sound; assumption|apply gPb_sound; assumption].
    intros sh bij src Hi. pose proof (forallb_In _ _ _ Hn Hi) as H. cbn [fst snd] in H. apply V1b_sound. assumption.
Qed.

Lemma m4_empty : m4 empty_egraph.
Proof. split; [reflexivity|]. split; intros x []. Qed.

Lemma m4_frame : forall s s', m4 s -> ectr s' = ectr s -> unionfind s' = unionfind s -> classes s' = classes s -> m4 s'.
Proof. intros s s' H E1 E2 E3. unfold m4. rewrite E1, E2, E3. exact H. Qed.

Lemma m4_set_ctr : forall s c, m4 s -> ok1 c -> m4 (set_ctr s c).
Proof. intros s c (A & B & C) H. split; [exact H|]. split; assumption. Qed.

Lemma m4_bij4 : forall s, m4 s -> bij4 s.
Proof.
  intros s (_ & _ & C) i c sh bij src k v Hc Hi G. unfold get_class in Hc.
  destruct (nth_opt (classes s) (N.to_nat i)) eqn:E; [|discriminate]. inversion Hc; subst.
  apply nth_opt_In in E. destruct (C _ E) as (Hn & _). apply get_in in G. exact (Hn _ _ _ Hi _ _ G).
Qed.

Lemma get_class_in : forall s i c, get_class s i = Ok c -> In c (classes s).
Proof.
  intros s i c H. unfold get_class in H. destruct (nth_opt (classes s) (N.to_nat i)) eqn:E; [|discriminate].
  inversion H; subst. eapply nth_opt_In; eauto.
Qed.
Lemma m4_class : forall s i c, m4 s -> get_class s i = Ok c -> c4 c.
Proof. intros s i c (_ & _ & C) H. apply C. eapply get_class_in; eauto. Qed.

Lemma in_set_nth : forall {A} (l : list A) n x y, In y (set_nth l n x) -> y = x \/ In y l.
Proof.
  induction l as [|a t IH]; intros n x y H; destruct n; cbn [set_nth] in H; try (destruct H; fail).
  - destruct H as [H|H]; [auto|right; right; assumption].
  - destruct H as [H|H]; [right; left; assumption|]. apply IH in H. destruct H; [auto|right; right; assumption].
Qed.

(* ------------------------------------------------------------------ *)
(* 4. Hoare triples over the state monad *)

Definition hoare {A} (m : M A) (Q : A -> Prop) : Prop :=
  forall s x s', m s = Ok (x, s') -> m4 s -> m4 s' /\ Q x.
Definition tt_post {A} : A -> Prop := fun _ => True.
Notation pres4 m := (hoare m tt_post).

Lemma h_bind : forall A C (m : M A) (k : A -> M C) Q Q',
  hoare m Q -> (forall a, Q a -> hoare (k a) Q') -> hoare (mbind m k) Q'.
Proof.
  intros A C m k Q Q' Hm Hk s x s' H I. apply mbind_inv in H. destruct H as (a & s1 & H1 & H2).
  destruct (Hm _ _ _ H1 I) as [I1 Qa]. exact (Hk a Qa _ _ _ H2 I1).
Qed.
Lemma h_ret : forall A (a : A) (Q : A -> Prop), Q a -> hoare (ret a) Q.
Proof. intros A a Q H s x s' E I. inversion E; subst. auto. Qed.
Lemma h_fail : forall A e (Q : A -> Prop), hoare (fail e) Q.
Proof. intros A e Q s x s' E. discriminate. Qed.
Lemma h_lift : forall A (r : res A) (Q : A -> Prop), (forall x, r = Ok x -> Q x) -> hoare (Model.lift r) Q.
Proof. intros A r Q H s x s' E I. apply lift_inv in E. destruct E as [E ->]. auto. Qed.
Lemma h_reads : forall A (f : egraph -> res A) (Q : A -> Prop),
  (forall s x, m4 s -> f s = Ok x -> Q x) -> hoare (reads f) Q.
Proof.
  intros A f Q H s x s' E I. unfold reads in E. destruct (f s) eqn:F; [|discriminate]. inversion E; subst. eauto.
Qed.
Lemma h_gets : forall A (f : egraph -> A), pres4 (gets f).
Proof. intros A f s x s' E I. inversion E; subst. split; [assumption|exact Logic.I]. Qed.
Lemma h_modify : forall f, (forall s, m4 s -> m4 (f s)) -> pres4 (modify f).
Proof. intros f H s x s' E I. inversion E; subst. split; [auto|exact Logic.I]. Qed.
Lemma h_weaken : forall A (m : M A) (Q Q' : A -> Prop), hoare m Q -> (forall x, Q x -> Q' x) -> hoare m Q'.
Proof. intros A m Q Q' H HQ s x s' E I. destruct (H _ _ _ E I). auto. Qed.
Lemma h_tt : forall A (m : M A) (Q : A -> Prop), hoare m Q -> pres4 m.
Proof. intros A m Q H. eapply h_weaken; [exact H|]. intros; exact Logic.I. Qed.
Lemma h_iterM : forall A (f : A -> M unit) l, (forall x, In x l -> pres4 (f x)) -> pres4 (iterM f l).
Proof.
  intros A f l. induction l as [|a t IH]; intros Hf; cbn [iterM]; [apply h_ret; exact Logic.I|].
  eapply h_bind; [apply Hf; left; reflexivity|]. intros _ _. apply IH. intros x Hx. apply Hf. right. assumption.
Qed.
Lemma h_mapM : forall A C (f : A -> M C) l, (forall x, pres4 (f x)) -> pres4 (mapM f l).
Proof.
  intros A C f l Hf. induction l as [|a t IH]; cbn [mapM]; [apply h_ret; exact Logic.I|].
  eapply h_bind; [apply Hf|]. intros y _. eapply h_bind; [apply IH|]. intros r _. apply h_ret. exact Logic.I.
Qed.
Lemma h_reads_tt : forall A (f : egraph -> res A), pres4 (reads f).
Proof. intros. apply h_reads. intros; exact Logic.I. Qed.
Lemma h_lift_tt : forall A (r : res A), pres4 (Model.lift r).
Proof. intros. apply h_lift. intros; exact Logic.I. Qed.

(* primitives *)
Lemma h_frame_modify : forall f, (forall s, ectr (f s) = ectr s /\ unionfind (f s) = unionfind s /\ classes (f s) = classes s) ->
  pres4 (modify f).
Proof. intros f H. apply h_modify. intros s I. destruct (H s) as (A & B & C). eapply m4_frame; eauto. Qed.
Lemma h_pending_insert : forall sh ty, pres4 (pending_insert sh ty).
Proof. intros. apply h_frame_modify. intros s. repeat split. Qed.
Lemma h_pending_touch : forall sh ty, pres4 (pending_touch sh ty).
Proof. intros. apply h_frame_modify. intros s. repeat split. Qed.
Lemma h_set_hashcons : forall (F : egraph -> list (node * N)), pres4 (modify (fun s => set_hashcons s (F s))).
Proof. intros. apply h_frame_modify. intros s. repeat split. Qed.
Lemma h_set_pending : forall (F : egraph -> list (node * bool)), pres4 (modify (fun s => set_pending s (F s))).
Proof. intros. apply h_frame_modify. intros s. repeat split. Qed.

Lemma h_upd_class : forall i f, (forall c, c4 c -> c4 (f c)) -> pres4 (upd_class i f).
Proof.
  intros i f Hf s x s' E I. apply upd_class_inv in E. destruct E as (c & Hc & ->).
  split; [|exact Logic.I]. pose proof (m4_class _ _ _ I Hc) as Cc. destruct I as (A & B & C).
  split; [exact A|]. split; [exact B|]. cbn [classes set_classes]. intros c' Hc'. apply in_set_nth in Hc'.
  destruct Hc' as [->|Hc']; auto.
Qed.

Lemma h_unionfind_set : forall i p, a4 p -> pres4 (unionfind_set i p).
Proof.
  intros i p Hp s x s' E I. split; [|exact Logic.I]. destruct I as (A & B & C). unfold unionfind_set in E.
  destruct (Nat.eqb _ _).
  - inversion E; subst. split; [exact A|]. split; [|exact C]. cbn [unionfind set_uf]. intros e He.
    apply in_app_or in He. destruct He as [He|[<-|[]]]; auto.
  - destruct (Nat.ltb _ _); [|discriminate]. inversion E; subst. split; [exact A|]. split; [|exact C].
    cbn [unionfind set_uf]. intros e He. apply in_set_nth in He. destruct He as [->|He]; auto.
Qed.

Lemma h_fresh : hoare fresh ok1.
Proof.
  intros s x s' E I. inversion E; subst. split; [|exact (proj1 I)]. apply m4_set_ctr; [assumption|].
  apply ok1_next. exact (proj1 I).
Qed.

Lemma h_with_ctr : forall A (f : N -> A * N) (Q : A -> Prop),
  (forall c, ok1 c -> ok1 (snd (f c)) /\ Q (fst (f c))) -> hoare (with_ctr f) Q.
Proof.
  intros A f Q H s x s' E I. unfold with_ctr in E. destruct (H (ectr s) (proj1 I)) as [H1 H2].
  destruct (f (ectr s)) as [a c]. inversion E; subst. cbn [fst snd] in *. split; [apply m4_set_ctr; assumption|assumption].
Qed.
Lemma h_with_ctr_step : forall A (f : N -> A * N), (forall c, ctr_step c (snd (f c))) -> pres4 (with_ctr f).
Proof. intros A f H. apply h_with_ctr. intros c Hc. split; [eapply ok1_step; eauto|exact Logic.I]. Qed.
Lemma h_compose_fresh : forall a b, V1 b -> hoare (with_ctr (compose_fresh a b)) V1.
Proof.
  intros a b Hb. apply h_with_ctr. intros c Hc. split; [eapply ok1_step; [eassumption|apply compose_fresh_step]|].
  apply compose_fresh_V1; assumption.
Qed.

Lemma h_fill_fresh : forall l m, V1 m -> hoare (fill_fresh l m) V1.
Proof.
  induction l as [|x t IH]; intros m Hm; cbn [fill_fresh]; [apply h_ret; assumption|].
  destruct (contains_key m x); [apply IH; assumption|].
  eapply h_bind; [apply h_fresh|]. intros f Hf. apply IH. apply V1_insert; assumption.
Qed.

(* ------------------------------------------------------------------ *)
(* 5. the pass *)

Ltac hsk :=
  eapply h_bind;
  [ first [ apply h_reads_tt | apply h_lift_tt | apply h_gets | apply h_pending_insert | apply h_pending_touch
          | apply h_set_hashcons | apply h_set_pending ]
  | intros ? _ ]; cbv beta zeta.
Ltac hif := match goal with |- hoare (if ?b then _ else _) _ => destruct b end.
Ltac hdone := apply h_ret; exact Logic.I.

Lemma uf_get_go_a4 : forall fuel uf i p, (forall e, In e uf -> a4 e) -> uf_get_go fuel uf i = Ok p -> a4 p.
Proof.
  induction fuel as [|f IH]; intros uf i p Hu H; cbn [uf_get_go] in H; [discriminate|].
  destruct (nth_opt uf (N.to_nat i)) as [e|] eqn:E; [|discriminate]. apply nth_opt_In in E.
  destruct (aid e =? i); [inversion H; subst; auto|].
  destruct (uf_get_go f uf (aid e)) as [l|] eqn:G; cbn [bind] in H; [|discriminate]. inversion H; subst.
  destruct (IH _ _ _ Hu G) as [A _]. destruct (Hu _ E) as [_ B].
  split; cbn [am]; [apply K1_compose|apply V1_compose]; assumption.
Qed.

Lemma find_K1 : forall s a b, m4 s -> find_applied_id s a = Ok b -> K1 (am b).
Proof.
  intros s a b (_ & U & _) H. unfold find_applied_id in H.
  destruct (unionfind_get s (aid a)) as [p|] eqn:G; cbn [bind] in H; [|discriminate]. inversion H; subst. cbn [am].
  apply K1_compose. exact (proj1 (uf_get_go_a4 _ _ _ _ U G)).
Qed.
Lemma h_find : forall a, hoare (reads (fun s => find_applied_id s a)) (fun b => K1 (am b)).
Proof. intros a. apply h_reads. intros s x I E. eapply find_K1; eauto. Qed.
Lemma h_get_class : forall i, hoare (reads (fun s => get_class s i)) c4.
Proof. intros i. apply h_reads. intros s x I E. eapply m4_class; eauto. Qed.
Lemma h_syn_slots : forall i, hoare (reads (fun s => syn_slots s i)) S1.
Proof.
  intros i. apply h_reads. intros s x I E. unfold syn_slots in E. destruct (get_class s i) eqn:G; cbn [bind] in E; [|discriminate].
  inversion E; subst. exact (proj1 (proj2 (proj2 (m4_class _ _ _ I G)))).
Qed.

Lemma in_na_set : forall {V} (l : list (node * V)) k0 v0 k v, In (k, v) (na_set l k0 v0) -> v = v0 \/ In (k, v) l.
Proof.
  induction l as [|[k' v'] t IH]; intros k0 v0 k v H; cbn [na_set] in H.
  - destruct H as [H|[]]. inversion H; auto.
  - destruct (node_eqb k0 k').
    + destruct H as [H|H]; [inversion H; auto|right; right; assumption].
    + destruct H as [H|H]; [right; left; assumption|]. apply IH in H. destruct H; [auto|right; right; assumption].
Qed.
Lemma in_na_remove : forall {V} (l : list (node * V)) k0 p, In p (na_remove l k0) -> In p l.
Proof.
  induction l as [|[k' v'] t IH]; intros k0 p H; cbn [na_remove] in H; [assumption|].
  destruct (node_eqb k0 k'); [right; assumption|]. destruct H as [H|H]; [left; assumption|right; eapply IH; eauto].
Qed.

Lemma h_usages : forall (F : eclass -> list node) l, pres4 (iterM (fun r => upd_class r (fun c => with_usages c (F c))) l).
Proof. intros F l. apply h_iterM. intros r _. apply h_upd_class. intros c Hc. exact Hc. Qed.

Lemma h_raw_add : forall id sh bij src, V1 bij -> pres4 (raw_add_to_class id (sh, bij) src).
Proof.
  intros id sh bij src Hb. unfold raw_add_to_class.
  eapply h_bind; [apply h_upd_class|intros ? _].
  { intros c (A & B & C). split; [|split; assumption]. cbn [c_nodes with_nodes]. intros sh' bij' src' Hi.
    apply in_na_set in Hi. destruct Hi as [E|Hi]; [inversion E; subst; assumption|eauto]. }
  hsk. apply h_usages.
Qed.

Lemma h_raw_remove : forall id sh, pres4 (raw_remove_from_class id sh).
Proof.
  intros id sh. unfold raw_remove_from_class. hsk.
  eapply h_bind; [apply h_upd_class|intros ? _].
  { intros c (A & B & C). split; [|split; assumption]. cbn [c_nodes with_nodes]. intros sh' bij' src' Hi.
    apply in_na_remove in Hi. eauto. }
  hsk. eapply h_bind; [apply h_usages|intros ? _].
  match goal with |- hoare (match ?o with _ => _ end) _ => destruct o end; [hdone|apply h_fail].
Qed.

Lemma h_touched : forall i ty, pres4 (touched_class i ty).
Proof. intros i ty. unfold touched_class. hsk. apply h_iterM. intros sh _. apply h_pending_touch. Qed.

Lemma h_pc_congruence : forall a b, hoare (pc_congruence a b) (fun ab => fst ab = snd a).
Proof.
  intros a b. unfold pc_congruence. hsk. hsk.
  eapply h_bind; [apply h_with_ctr_step; intros; apply compose_fresh_step|intros m _].
  eapply h_bind; [apply h_with_ctr_step; intros; apply apply_slotmap_fresh_step|intros ? _].
  eapply h_bind; [apply h_with_ctr_step; intros; apply compose_fresh_step|intros bm _].
  apply h_ret. reflexivity.
Qed.

Lemma h_rrw : forall i cap, S1 cap -> pres4 (record_redundancy_witness i cap).
Proof.
  intros i cap Hc. unfold record_redundancy_witness.
  eapply h_bind; [apply h_syn_slots|intros ss Hss]. apply h_unionfind_set. split; cbn [am].
  - apply K1_compose. apply K1_identity. assumption.
  - apply V1_compose. apply V1_identity. assumption.
Qed.

Lemma c4_group : forall c g, c4 c -> gP g -> c4 (with_group c g).
Proof. intros c g (A & B & C & _) H. split; [exact A|]. split; [exact B|]. split; [exact C|exact H]. Qed.
Lemma h_upd_group : forall i g, gP g -> pres4 (upd_class i (fun c => with_group c g)).
Proof. intros i g H. apply h_upd_class. intros c Hc. apply c4_group; assumption. Qed.

Lemma h_move_to : forall from to, K1 (am from) -> K1 (am to) -> pres4 (move_to from to).
Proof.
  intros from to Hf Ht. unfold move_to. cbv zeta.
  eapply h_bind; [apply h_unionfind_set|intros ? _].
  { split; cbn [am]; [apply K1_compose; assumption|apply V1_compose; apply V1_inverse; assumption]. }
  eapply h_bind; [apply h_get_class|intros cf Hcf].
  eapply h_bind; [apply h_iterM|intros ? _].
  { intros [sh [bij src]] Hin. cbv beta iota zeta.
    eapply h_bind; [apply h_raw_remove|intros ? _].
    eapply h_bind; [apply h_compose_fresh|intros nb Hnb].
    { apply V1_inverse. apply K1_compose. assumption. }
    eapply h_bind; [apply h_raw_add; assumption|intros ? _]. apply h_pending_insert. }
  eapply h_bind; [apply h_get_class|intros cf2 Hcf2]. eapply h_bind; [apply h_get_class|intros ct Hct].
  eapply h_bind; [apply (h_lift _ _ (fun r => gP (fst r)))|intros r Hr].
  { intros r E. eapply gadd_set_P; [exact (proj2 (proj2 (proj2 Hct)))| |exact E].
    intros p Hp. apply in_map_iff in Hp. destruct Hp as (x & <- & Hx).
    assert (Vf : V1 (compose_partial (am from) (inv (am to)))) by (apply V1_compose; apply V1_inverse; assumption).
    split; intros k v Hi; apply in_from_iter in Hi; apply in_flat_map in Hi; destruct Hi as (kv & _ & Hi);
      destruct (get _ (fst kv)) as [a1|] eqn:G1; try (destruct Hi; fail);
      destruct (get _ (snd kv)) as [b1|] eqn:G2; try (destruct Hi; fail);
      destruct Hi as [E1|[]]; inversion E1; subst; apply get_in in G1, G2; eapply Vf; eauto. }
  eapply h_bind; [apply h_upd_group; assumption|intros ? _].
  eapply h_bind; [|intros ? _; apply h_touched].
  hif; [apply h_touched|hdone].
Qed.

Section Ui4.
  Variable ui : appid -> appid -> M bool.
  Hypothesis H_ui : forall l r, pres4 (ui l r).

  Lemma h_shrink_slots : forall from cap, K1 (am from) -> pres4 (shrink_slots ui from cap).
  Proof.
    intros from cap Hf. unfold shrink_slots. cbv zeta.
    eapply h_bind; [apply h_lift; intros x Hx; exact (mapr_index_in _ _ _ Hx)|intros oc Hoc]. cbv beta in Hoc.
    assert (Hs : S1 (sset_of_list oc)).
    { apply S1_sset_of_list. intros y Hy. destruct (Hoc y Hy) as [x Hx]. apply in_inverse in Hx. eapply Hf; eauto. }
    eapply h_bind; [apply h_rrw; assumption|intros ? _].
    eapply h_bind; [apply h_get_class|intros c0 Hc0]. hsk.
    eapply h_bind; [apply (h_lift _ _ gP)|intros g Hg].
    { intros g E. eapply group_new_P; [apply PP_identity; exact Hs| |exact E].
      intros p Hp. apply in_map_iff in Hp. destruct Hp as (pp & <- & Hpp). apply PP_filter.
      apply in_map_iff in Hpp. destruct Hpp as ([q fl] & <- & Hq).
      apply filter_In in Hq. destruct Hq as [Hq _]. apply in_combine_l in Hq. cbn [fst].
      eapply ggenerators_P; [exact (proj2 (proj2 (proj2 Hc0)))|exact Hq]. }
    eapply h_bind; [apply h_upd_class|intros ? _].
    { intros c (A & B & C & D). split; [exact A|]. split; [exact Hs|]. split; [exact C|exact Hg]. }
    eapply h_bind; [apply h_touched|intros ? _].
    apply h_iterM. intros pp _. hsk. hsk.
    eapply h_bind; [apply H_ui|intros ? _]. hdone.
  Qed.

  Lemma h_union_leaders : forall l r, K1 (am l) -> K1 (am r) -> pres4 (union_leaders ui l r).
  Proof.
    intros l r Hl Hr. unfold union_leaders. hsk. hif; [hdone|]. cbv zeta.
    hif; [eapply h_bind; [apply h_shrink_slots; assumption|intros ? _]; eapply h_bind; [apply H_ui|intros ? _]; hdone|].
    hif; [eapply h_bind; [apply h_shrink_slots; assumption|intros ? _]; eapply h_bind; [apply H_ui|intros ? _]; hdone|].
    hif.
    - eapply h_bind; [apply h_get_class|intros c0 Hc0]. hsk. hif; [hdone|].
      eapply h_bind; [apply (h_lift _ _ (fun g => gP (fst g)))|intros g Hg].
      { intros g E. eapply gadd_set_P; [exact (proj2 (proj2 (proj2 Hc0)))| |exact E].
        intros p [<-|[]]. split; [apply K1_compose; assumption|apply V1_compose; apply V1_inverse; assumption]. }
      eapply h_bind; [apply h_upd_group; assumption|intros ? _].
      eapply h_bind; [apply h_touched|intros ? _]. hdone.
    - hsk. hsk. eapply h_bind; [|intros ? _; hdone]. hif; apply h_move_to; assumption.
  Qed.

  Lemma h_union_internal_body : forall l r, pres4 (union_internal_body ui l r).
  Proof.
    intros l r. unfold union_internal_body.
    eapply h_bind; [apply h_find|intros l' Hl]. eapply h_bind; [apply h_find|intros r' Hr].
    apply h_union_leaders; assumption.
  Qed.
End Ui4.

Lemma h_union_internal : forall fuel l r, pres4 (union_internal fuel l r).
Proof.
  induction fuel as [|f IH]; intros l r; [apply h_fail|]. rewrite union_internal_S.
  apply h_union_internal_body. exact IH.
Qed.
Lemma h_uint : forall l r, pres4 (uint l r).
Proof. intros l r. exact (h_union_internal ui_fuel l r). Qed.

Lemma pc_from_src_K1 : forall s i pc, m4 s -> pc_from_src_id s i = Ok pc -> K1 (am (snd pc)).
Proof.
  intros s i pc I H. unfold pc_from_src_id in H.
  destruct (get_class s i) as [c|]; cbn [bind] in H; [|discriminate].
  destruct (apply_slotmap false _ (c_syn c)) as [n|]; cbn [bind] in H; [|discriminate].
  destruct (pre_shape s n) as [nd|]; cbn [bind] in H; [|discriminate].
  match type of H with context [find_applied_id s ?x] => destruct (find_applied_id s x) as [pai|] eqn:F end;
    cbn [bind] in H; [|discriminate].
  inversion H; subst. cbn [snd]. eapply find_K1; eauto.
Qed.
Lemma h_pc_from_src : forall i, hoare (reads (fun s => pc_from_src_id s i)) (fun pc => K1 (am (snd pc))).
Proof. intros i. apply h_reads. intros s x I E. eapply pc_from_src_K1; eauto. Qed.

Lemma h_handle_shrink : forall src, pres4 (handle_shrink_in_upwards_merge src).
Proof.
  intros src. unfold handle_shrink_in_upwards_merge.
  eapply h_bind; [apply h_pc_from_src|intros pc1 Hpc]. hsk.
  eapply h_bind; [apply h_pc_congruence|intros [pa pb] Hab]. cbn [fst snd] in Hab. subst pa. cbv beta iota zeta.
  apply h_shrink_slots; [exact h_uint|assumption].
Qed.

Lemma h_handle_congruence : forall pc, pres4 (handle_congruence pc).
Proof.
  intros pc. unfold handle_congruence. hsk. hsk.
  eapply h_bind; [eapply h_tt; apply h_pc_congruence|intros ab _].
  eapply h_bind; [apply h_uint|intros ? _]. hdone.
Qed.

Lemma h_determine_self_symmetries : forall src, pres4 (determine_self_symmetries src).
Proof.
  intros src. unfold determine_self_symmetries. hsk. hsk. hsk.
  apply h_iterM. intros pn2 _. hsk. hif; [|hdone].
  eapply h_bind; [eapply h_tt; apply h_pc_congruence|intros ab _].
  eapply h_bind; [apply h_uint|intros ? _]. hdone.
Qed.

Lemma h_hp_loop : forall fuel src enode i, K1 (am i) -> hoare (hp_loop fuel src enode i) (fun r => K1 (am (snd r))).
Proof.
  induction fuel as [|f IH]; intros src enode i Hi; cbn [hp_loop]; [apply h_fail|].
  hif; [apply h_ret; assumption|].
  eapply h_bind; [apply h_handle_shrink|intros ? _]. hsk.
  eapply h_bind; [apply h_find|intros i' Hi']. apply IH. assumption.
Qed.

Lemma h_handle_pending : forall sh ty, pres4 (handle_pending sh ty).
Proof.
  intros sh ty. unfold handle_pending. hsk. hif; [hdone|]. hsk.
  eapply h_bind; [apply h_lift_tt|intros [bij0 src_id] _]. cbv beta iota zeta.
  hsk. eapply h_bind; [apply h_raw_remove|intros ? _]. hsk. hsk.
  eapply h_bind; [apply h_find|intros i1 Hi1].
  eapply h_bind; [apply h_hp_loop; assumption|intros [enode i2] Hi2]. cbn [snd] in Hi2. cbv beta iota zeta.
  hsk. hsk.
  match goal with |- hoare (match ?lk with _ => _ end) _ => destruct lk end.
  - hsk. apply h_handle_congruence.
  - match goal with |- hoare (let '(_, _) := ?t in _) _ => destruct t as [sh' bij] end.
    pose proof h_fill_fresh as Hff. unfold fill_fresh in Hff.
    eapply h_bind; [apply Hff; apply V1_inverse; assumption|intros m Hm].
    eapply h_bind; [apply h_raw_add; apply V1_compose; assumption|intros ? _].
    apply h_determine_self_symmetries.
Qed.

Lemma h_rebuild : forall fuel, pres4 (rebuild fuel).
Proof.
  induction fuel as [|f IH]; [apply h_fail|]. rewrite rebuild_S. hsk.
  match goal with |- hoare (match ?p with _ => _ end) _ => destruct p as [|[sh ty] rest] end; [hdone|].
  eapply h_bind; [apply (h_set_pending (fun _ => rest))|intros ? _].
  eapply h_bind; [apply h_handle_pending|intros ? _]. apply IH.
Qed.

Lemma h_fill_fresh_tt : forall l m, pres4 (fill_fresh l m).
Proof.
  induction l as [|x t IH]; intros m; cbn [fill_fresh]; [hdone|].
  destruct (contains_key m x); [apply IH|]. eapply h_bind; [apply h_fresh|intros f _]. apply IH.
Qed.
Lemma h_synify_app_id : forall a, pres4 (synify_app_id a).
Proof.
  intros a. unfold synify_app_id. hsk. pose proof h_fill_fresh_tt as Hff. unfold fill_fresh in Hff.
  eapply h_bind; [apply Hff|intros ? _]. hdone.
Qed.
Lemma h_synify_enode : forall n, pres4 (synify_enode n).
Proof.
  intros n. unfold synify_enode. eapply h_bind; [apply h_mapM; intros; apply h_synify_app_id|intros ? _]. hdone.
Qed.

Theorem h_eg_union : forall l r, pres4 (eg_union l r).
Proof.
  intros l r. unfold eg_union.
  eapply h_bind; [apply h_synify_app_id|intros ? _]. eapply h_bind; [apply h_synify_app_id|intros ? _].
  eapply h_bind; [apply h_uint|intros ? _]. eapply h_bind; [apply h_rebuild|intros ? _]. hdone.
Qed.

Lemma h_alloc_eclass : forall sl syn, S1 sl -> S1 (slots syn) -> pres4 (alloc_eclass sl syn).
Proof.
  intros sl syn Hs Hy s i s' E (A & B & C). apply alloc_eclass_exact in E.
  destruct E as (_ & Eu & Ec & _ & _ & Et). split; [|exact Logic.I]. unfold m4. rewrite Eu, Ec, Et.
  split; [exact A|]. split.
  - intros e He. apply in_app_or in He. destruct He as [He|[<-|[]]]; [auto|].
    split; cbn [am]; [apply K1_identity|apply V1_identity]; assumption.
  - intros c Hc. apply in_app_or in Hc. destruct Hc as [Hc|[<-|[]]]; [auto|].
    split; [intros sh bij src []|]. split; [assumption|]. split; [assumption|].
    cbn [c_group gP]. split; [apply PP_identity; assumption|exact Logic.I].
Qed.

Lemma h_mk_singleton_class : forall n, pres4 (mk_singleton_class n).
Proof.
  intros n. unfold mk_singleton_class. cbv zeta.
  eapply h_bind; [apply (h_with_ctr _ _ K1)|intros f2o Hf].
  { intros c Hc. split; [eapply ok1_step; [eassumption|apply bijection_from_fresh_to_step]|apply bff_K1; assumption]. }
  eapply h_bind; [apply (h_with_ctr _ _ (fun sf => S1 (slots sf)))|intros sf Hsf].
  { intros c Hc. split; [eapply ok1_step; [eassumption|apply apply_slotmap_fresh_step]|].
    apply asf_slots_ok1; [apply V1_inverse|]; assumption. }
  eapply h_bind; [apply h_alloc_eclass|intros i _]; [apply S1_values; apply V1_inverse; assumption|assumption|].
  eapply h_bind; [apply (h_lift _ _ (fun t => V1 (snd t)))|intros [sh bij] Ht].
  { intros [sh bij] E. cbn [snd]. eapply wshape_V1; [exact E|]. apply S1_slots_pub. assumption. }
  cbn [snd fst] in *.
  eapply h_bind; [apply h_raw_add; assumption|intros ? _]. hsk.
  eapply h_bind; [apply h_rebuild|intros ? _]. hdone.
Qed.

Lemma h_refresh_step : forall n, pres4 (refresh_step n).
Proof.
  intros n s x s' E I. pose proof (refresh_step_spec _ _ _ _ E) as ->. split; [|exact Logic.I].
  apply m4_set_ctr; [assumption|]. eapply ok1_step; [exact (proj1 I)|apply refresh_private_step].
Qed.

Lemma h_add_internal : forall t, pres4 (add_internal t).
Proof.
  intros t. unfold add_internal. hsk.
  match goal with |- hoare (match ?lk with _ => _ end) _ => destruct lk end; [hdone|].
  pose proof h_refresh_step as Hr. unfold refresh_step in Hr.
  eapply h_bind; [apply Hr|intros ? _]. hsk.
  eapply h_bind; [apply h_synify_enode|intros ? _].
  eapply h_bind; [apply h_mk_singleton_class|intros ? _]. apply h_reads_tt.
Qed.

Theorem h_eg_add : forall n, pres4 (eg_add n).
Proof. intros n. unfold eg_add. hsk. apply h_add_internal. Qed.

Theorem h_add_expr : forall t, pres4 (add_expr t).
Proof.
  fix IH 1. intros [n ch]. cbn [add_expr]. eapply h_bind; [|intros l _].
  - instantiate (1 := tt_post). induction ch as [|c r IHr]; [hdone|].
    eapply h_bind; [apply IH|intros a _]. eapply h_bind; [apply IHr|intros ? _]. hdone.
  - hif; [apply h_fail|apply h_eg_add].
Qed.

Theorem m4_run_ops : forall terms ops hs s hs' s', m4 s -> run_ops terms ops hs s = Ok (hs', s') -> m4 s'.
Proof.
  intros terms ops. induction ops as [|o t IH]; intros hs s hs' s' I H; cbn [run_ops] in H.
  - inversion H; subst. assumption.
  - destruct o as [k|i j w].
    + destruct (nth_opt terms k) as [tm|]; [|discriminate].
      apply mbind_inv in H. destruct H as (a & s1 & H1 & H). destruct (h_add_expr _ _ _ _ H1 I) as [I1 _]. eauto.
    + destruct (nth_opt hs i) as [a|]; [|discriminate]. destruct (nth_opt hs j) as [b|]; [|discriminate].
      apply mbind_inv in H. destruct H as (u & s1 & H1 & H). destruct (h_eg_union _ _ _ _ _ H1 I) as [I1 _]. eauto.
Qed.

Theorem reachable_m4 : forall terms ops hs s, run_ops terms ops [] empty_egraph = Ok (hs, s) -> m4 s.
Proof. intros terms ops hs s H. eapply m4_run_ops; [apply m4_empty|exact H]. Qed.

Theorem reachable_bij4 : forall terms ops hs s, run_ops terms ops [] empty_egraph = Ok (hs, s) ->
  Model.ctr s mod 4 = 1 /\ bij4 s.
Proof.
  intros terms ops hs s H. pose proof (reachable_m4 _ _ _ _ H) as I. split; [exact (proj1 I)|apply m4_bij4; assumption].
Qed.

(* the other parts of the invariant, by class id *)
Theorem reachable_slots4 : forall terms ops hs s, run_ops terms ops [] empty_egraph = Ok (hs, s) ->
  (forall e k v, In e (unionfind s) -> get (am e) k = Some v -> k mod 4 = 1 /\ v mod 4 = 1) /\
  (forall i c, get_class s i = Ok c ->
     (forall x, In x (c_slots c) -> x mod 4 = 1) /\
     (forall x, In x (slots (c_syn c)) -> x mod 4 = 1) /\
     (forall p k v, In p (gidentity (c_group c) :: ggenerators (c_group c)) -> get p k = Some v -> k mod 4 = 1 /\ v mod 4 = 1)).
Proof.
  intros terms ops hs s H. pose proof (reachable_m4 _ _ _ _ H) as I. split.
  - intros e k v He G. destruct I as (_ & U & _). destruct (U e He) as [A B]. apply get_in in G. split; [eapply A|eapply B]; eauto.
  - intros i c Hc. destruct (m4_class _ _ _ I Hc) as (_ & A & B & C). split; [exact A|]. split; [exact B|].
    intros p k v [<-|Hp] G; apply get_in in G.
    + destruct (gidentity_P _ C) as [P1 P2]. split; [eapply P1|eapply P2]; eauto.
    + destruct (ggenerators_P _ C _ Hp) as [P1 P2]. split; [eapply P1|eapply P2]; eauto.
Qed.

Print Assumptions m4b_sound.
Print Assumptions reachable_m4.
Print Assumptions reachable_slots4.
Print Assumptions reachable_bij4.
