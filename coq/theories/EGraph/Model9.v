(* EGraph/Model9.v — C09 machine: after a history, look probe terms up (lookup_rec_expr) and insert them. *)
From SE Require Export EGraph.ModelMachine EGraph.ModelFacts.

(* rewrite/pattern.rs lookup_rec_expr: children first, then EGraph::lookup; a pure function of the state *)
Fixpoint lookup_rec (s : egraph) (t : rterm) : res (option appid) :=
  match t with
  | RT n ch =>
      do l <- (fix go (l : list rterm) : res (option (list appid)) :=
                 match l with
                 | [] => Ok (Some [])
                 | c :: r =>
                     do a <- lookup_rec s c;
                     match a with
                     | None => Ok None
                     | Some a' => do r' <- go r; Ok (match r' with Some r'' => Some (a' :: r'') | None => None end)
                     end
                 end) ch;
      match l with
      | None => Ok None
      | Some l' => if Nat.ltb (List.length (app_occ n)) (List.length l') then Err OutOfBounds
                   else eg_lookup s (set_apps n l')
      end
  end.

Definition slots_of (s : egraph) (a : appid) : res sexp :=
  do f <- find_applied_id s a; Ok (set_sexp (values (am f))).

Definition probe (orig : option appid) (t : rterm) (s : egraph) : res (sexp * egraph) :=
  do lk <- lookup_rec s t;
  let c0 := List.length (classes s) in
  let n0 := total_number_of_nodes s in
  match add_expr t s with
  | Err e => Err e
  | Ok (a, s') =>
      let c1 := List.length (classes s') in
      let n1 := total_number_of_nodes s' in
      do lk_sx <- match lk with
                  | Some x =>
                      do sl <- slots_of s x;
                      do e1 <- eg_eq s' x a;
                      do e2 <- match orig with Some o => do b <- eg_eq s' x o; Ok (sbool b) | None => Ok (Sym "na") end;
                      Ok (Lst [Sym "found"; sl; sbool e1; e2])
                  | None => Ok (Sym "absent")
                  end;
      do sa <- slots_of s' a;
      do e3 <- match orig with Some o => do b <- eg_eq s' a o; Ok (sbool b) | None => Ok (Sym "na") end;
      (* the invocations as returned, before any canonicalisation: number of slot arguments *)
      let raw := Lst [Sym "raw"; Num (N.of_nat (List.length (am a)));
                      match lk with Some x => Num (N.of_nat (List.length (am x))) | None => Sym "na" end] in
      Ok (Lst [Sym "p"; lk_sx; sbool true; Num (N.of_nat (c1 - c0));
               Num (N.of_nat (if Nat.leb n0 n1 then n1 - n0 else n0 - n1)); sa; e3; raw], s')
  end.

Fixpoint run_probes (hs : list appid) (ps : list sexp) (s : egraph) (acc : list sexp) : list sexp :=
  match ps with
  | [] => rev acc
  | Lst [Sym "P"; _; o; t] :: r =>
      match dec_rterm 64 t with
      | None => rev (Sym "bad-probe" :: acc)
      | Some tm =>
          let orig := match o with Num k => nth_opt hs (N.to_nat k) | _ => None end in
          match probe orig tm s with
          | Ok (ob, s') => run_probes hs r s' (ob :: acc)
          | Err e => rev (Lst [Sym "err"; site_sexp e] :: acc)
          end
      end
  | _ :: _ => rev (Sym "bad-probe" :: acc)
  end.

Definition run_eg9 (args : list sexp) : sexp :=
  match args with
  | _ :: Lst (Sym "terms" :: ts) :: Lst (Sym "ops" :: os) :: _ :: Lst (Sym "probes" :: ps) :: _ =>
      match dec_rterms ts, dec_hops os with
      | Some rts, Some ops =>
          match run_ops rts ops [] empty_egraph with
          | Err e => err_obs e
          | Ok (hs, s) => Lst (Sym "obs" :: Lst [Sym "res"; Sym "ok"] :: run_probes hs ps s [])
          end
      | _, _ => Sym "bad-case"
      end
  | _ => Sym "bad-case"
  end.
