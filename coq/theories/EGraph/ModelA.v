(* EGraph/ModelA.v — the e-graph model WITH e-class analysis (trait `Analysis`,
   /repo/src/egraph/analysis.rs).  This is EGraph/Model.v (which stays as it is: the proofs of
   ModelFacts.v are about it) copied into a section over the analysis

     Data, data_eqb       N::Data with its `Eq`
     make get n           N::make(eg, n): `get i` is `eg.analysis_data(i)` (the datum of class find_id(i))
     merge                N::merge
     modify_kind, const_of  N::modify as data: 0 = the default (nothing); 1 = constant folding: if the
                          datum of the class is `Some k` (const_of), add the node `Num k` and unite it
                          with the class (guarded by `eq`)

   with the analysis calls threaded exactly where the implementation makes them (default build):
     alloc_eclass          analysis_data: make(&self, &syn_enode), computed BEFORE the class is inserted
     mk_singleton_class    modify_queue.push(i) after the node went to `pending`, before rebuild
     handle_pending        update_analysis(&sh, i) first (make on the SHAPE, children possibly dead ids:
                           analysis_data goes through find_id), then return if the entry is OnlyAnalysis
     update_analysis       merge(old, make); if changed: modify_queue.push(i), touched_class(i, OnlyAnalysis)
     move_to               first thing: merge(data(from), data(to)) into `to`; if changed: push, touched_class
     rebuild               drain `pending`, then `while let Some(i) = modify_queue.pop()` (from the END):
                           modify(find_id(i)).  modify may add and unite, which rebuild recursively
                           (and drain the whole queue in the nested call): fuel.
   Everything else is word for word Model.v.  Definitions only. *)
From SE Require Export Lang.Sig Group.Group Sem.Term.

(* ------------------------------------------------------------------ *)
(* equality on nodes (derived PartialEq/Hash of L), order on Vec<Slot> *)

Definition appid_eqb (a b : appid) : bool := (aid a =? aid b) && eqb_map (am a) (am b).

Fixpoint farg_eqb (a b : farg) : bool :=
  match a, b with
  | ASlot s, ASlot t => s =? t
  | AApp x, AApp y => appid_eqb x y
  | ABind s f, ABind t g => (s =? t) && farg_eqb f g
  | APay p, APay q => pval_eqb p q
  | _, _ => false
  end.

Definition node_eqb (n m : node) : bool :=
  Nat.eqb (nvar n) (nvar m) && forallb2 farg_eqb (nargs n) (nargs m).

(* derived Ord on Vec<Slot>: lexicographic *)
Fixpoint cmp_slots (a b : list slot) : comparison :=
  match a, b with
  | [], [] => Eq
  | [], _ :: _ => Lt
  | _ :: _, [] => Gt
  | x :: a', y :: b' => match x ?= y with Eq => cmp_slots a' b' | c => c end
  end.

(* HashMap<L, V> *)
Section Assoc.
  Context {V : Type}.
  Fixpoint na_get (l : list (node * V)) (k : node) : option V :=
    match l with
    | [] => None
    | (k', v) :: t => if node_eqb k k' then Some v else na_get t k
    end.
  Fixpoint na_set (l : list (node * V)) (k : node) (v : V) : list (node * V) :=
    match l with
    | [] => [(k, v)]
    | (k', v') :: t => if node_eqb k k' then (k', v) :: t else (k', v') :: na_set t k v
    end.
  Fixpoint na_remove (l : list (node * V)) (k : node) : list (node * V) :=
    match l with
    | [] => []
    | (k', v') :: t => if node_eqb k k' then t else (k', v') :: na_remove t k
    end.
End Assoc.

(* HashSet<L> *)
Definition ns_add (l : list node) (k : node) : list node :=
  if existsb (node_eqb k) l then l else l ++ [k].
Definition ns_remove (l : list node) (k : node) : list node :=
  filter (fun x => negb (node_eqb k x)) l.
Definition ns_dedup (l : list node) : list node := fold_left ns_add l [].

(* ------------------------------------------------------------------ *)
(* the analysis, and the state *)

Section Analysis.
Variable Data : Type.
Variable data_eqb : Data -> Data -> bool.
Variable make : (N -> res Data) -> node -> res Data.
Variable merge : Data -> Data -> Data.
Variable modify_kind : nat.
Variable const_of : Data -> option N.

Record eclass := {
  c_nodes  : list (node * (slotmap * N));   (* shape -> (bijection, src_id) *)
  c_slots  : sset;
  c_usages : list node;
  c_group  : group;
  c_syn    : node;
  c_data   : Data }.

Record egraph := {
  unionfind : list appid;
  classes   : list eclass;
  hashcons  : list (node * N);
  pending   : list (node * bool);           (* true = PendingType::Full, false = OnlyAnalysis *)
  ctr       : N;
  modify_queue : list N }.

Definition empty_egraph : egraph :=
  {| unionfind := []; classes := []; hashcons := []; pending := []; ctr := 1; modify_queue := [] |}.

Definition set_uf (s : egraph) (u : list appid) : egraph :=
  {| unionfind := u; classes := classes s; hashcons := hashcons s; pending := pending s; ctr := ctr s; modify_queue := modify_queue s |}.
Definition set_classes (s : egraph) (c : list eclass) : egraph :=
  {| unionfind := unionfind s; classes := c; hashcons := hashcons s; pending := pending s; ctr := ctr s; modify_queue := modify_queue s |}.
Definition set_hashcons (s : egraph) (h : list (node * N)) : egraph :=
  {| unionfind := unionfind s; classes := classes s; hashcons := h; pending := pending s; ctr := ctr s; modify_queue := modify_queue s |}.
Definition set_pending (s : egraph) (p : list (node * bool)) : egraph :=
  {| unionfind := unionfind s; classes := classes s; hashcons := hashcons s; pending := p; ctr := ctr s; modify_queue := modify_queue s |}.
Definition set_ctr (s : egraph) (c : N) : egraph :=
  {| unionfind := unionfind s; classes := classes s; hashcons := hashcons s; pending := pending s; ctr := c; modify_queue := modify_queue s |}.
Definition set_mq (s : egraph) (q : list N) : egraph :=
  {| unionfind := unionfind s; classes := classes s; hashcons := hashcons s; pending := pending s; ctr := ctr s; modify_queue := q |}.

Definition with_nodes (c : eclass) (n : list (node * (slotmap * N))) : eclass :=
  {| c_nodes := n; c_slots := c_slots c; c_usages := c_usages c; c_group := c_group c; c_syn := c_syn c; c_data := c_data c |}.
Definition with_slots (c : eclass) (sl : sset) : eclass :=
  {| c_nodes := c_nodes c; c_slots := sl; c_usages := c_usages c; c_group := c_group c; c_syn := c_syn c; c_data := c_data c |}.
Definition with_usages (c : eclass) (u : list node) : eclass :=
  {| c_nodes := c_nodes c; c_slots := c_slots c; c_usages := u; c_group := c_group c; c_syn := c_syn c; c_data := c_data c |}.
Definition with_group (c : eclass) (g : group) : eclass :=
  {| c_nodes := c_nodes c; c_slots := c_slots c; c_usages := c_usages c; c_group := g; c_syn := c_syn c; c_data := c_data c |}.
Definition with_data (c : eclass) (d : Data) : eclass :=
  {| c_nodes := c_nodes c; c_slots := c_slots c; c_usages := c_usages c; c_group := c_group c; c_syn := c_syn c; c_data := d |}.

(* ------------------------------------------------------------------ *)
(* state-and-error monad *)

Definition M (A : Type) : Type := egraph -> res (A * egraph).
Definition ret {A} (a : A) : M A := fun s => Ok (a, s).
Definition mbind {A C} (m : M A) (k : A -> M C) : M C :=
  fun s => match m s with Ok (a, s') => k a s' | Err e => Err e end.
Definition fail {A} (e : site) : M A := fun _ => Err e.
Definition lift {A} (r : res A) : M A := fun s => match r with Ok a => Ok (a, s) | Err e => Err e end.
Definition reads {A} (f : egraph -> res A) : M A :=
  fun s => match f s with Ok a => Ok (a, s) | Err e => Err e end.
Definition gets {A} (f : egraph -> A) : M A := fun s => Ok (f s, s).
Definition modify (f : egraph -> egraph) : M unit := fun s => Ok (tt, f s).

Notation "'dom' x <- m ; k" := (mbind m (fun x => k))
  (at level 200, x pattern, m at level 100, k at level 200, right associativity).

Fixpoint mapr {A C} (f : A -> res C) (l : list A) : res (list C) :=
  match l with
  | [] => Ok []
  | x :: t => do y <- f x; do r <- mapr f t; Ok (y :: r)
  end.
Fixpoint mapM {A C} (f : A -> M C) (l : list A) : M (list C) :=
  match l with
  | [] => ret []
  | x :: t => dom y <- f x; dom r <- mapM f t; ret (y :: r)
  end.
Fixpoint iterM {A} (f : A -> M unit) (l : list A) : M unit :=
  match l with
  | [] => ret tt
  | x :: t => dom _ <- f x; iterM f t
  end.
(* Iterator::all with a panicking predicate: short-circuits *)
Fixpoint allr {A} (f : A -> res bool) (l : list A) : res bool :=
  match l with
  | [] => Ok true
  | x :: t => do b <- f x; if b then allr f t else Ok false
  end.

(* Slot::fresh *)
Definition fresh : M slot := fun s => Ok (ctr s, set_ctr s (ctr s + 4)).
(* functions of Slots/Lang that thread the counter *)
Definition with_ctr {A} (f : N -> A * N) : M A :=
  fun s => let '(a, c) := f (ctr s) in Ok (a, set_ctr s c).

(* ------------------------------------------------------------------ *)
(* classes / hashcons / pending access *)

(* `self.classes[&i]`, `classes.get_mut(&i).unwrap()` *)
Definition get_class (s : egraph) (i : N) : res eclass :=
  match nth_opt (classes s) (N.to_nat i) with Some c => Ok c | None => Err UnwrapNone end.

Definition upd_class (i : N) (f : eclass -> eclass) : M unit := fun s =>
  match nth_opt (classes s) (N.to_nat i) with
  | Some c => Ok (tt, set_classes s (set_nth (classes s) (N.to_nat i) (f c)))
  | None => Err UnwrapNone
  end.

Definition class_slots (s : egraph) (i : N) : res sset := do c <- get_class s i; Ok (c_slots c).
Definition syn_slots (s : egraph) (i : N) : res sset := do c <- get_class s i; Ok (slots (c_syn c)).

(* PendingType::merge; HashMap::insert keeps the place of an existing key *)
Definition pending_insert (sh : node) (ty : bool) : M unit :=
  modify (fun s => set_pending s (na_set (pending s) sh ty)).
Definition pending_touch (sh : node) (ty : bool) : M unit :=
  modify (fun s => set_pending s
    (match na_get (pending s) sh with
     | None => pending s ++ [(sh, ty)]
     | Some v => na_set (pending s) sh (v || ty)
     end)).

(* modify_queue: a Vec; push at the end, pop from the end *)
Definition mq_push (i : N) : M unit := modify (fun s => set_mq s (modify_queue s ++ [i])).
Fixpoint pop_last (l : list N) : option (list N * N) :=
  match l with
  | [] => None
  | [x] => Some ([], x)
  | x :: t => match pop_last t with Some (t', y) => Some (x :: t', y) | None => None end
  end.

(* ------------------------------------------------------------------ *)
(* replacing the applied ids of a node, in occurrence order (applied_id_occurrences_mut) *)

Fixpoint set_apps_f (a : farg) (l : list appid) : farg * list appid :=
  match a with
  | AApp x => match l with y :: t => (AApp y, t) | [] => (a, []) end
  | ABind s b => let '(b', l') := set_apps_f b l in (ABind s b', l')
  | _ => (a, l)
  end.
Fixpoint set_apps_args (args : list farg) (l : list appid) : list farg :=
  match args with
  | [] => []
  | a :: t => let '(a', l') := set_apps_f a l in a' :: set_apps_args t l'
  end.
Definition set_apps (n : node) (l : list appid) : node :=
  {| nvar := nvar n; nargs := set_apps_args (nargs n) l |}.

Definition node_ids (n : node) : list N := map aid (app_occ n).

Definition wshape (n : node) : res (node * slotmap) := weak_shape false false n.

(* ------------------------------------------------------------------ *)
(* find.rs *)

(* unionfind_get_impl, without the compression writes *)
Fixpoint uf_get_go (fuel : nat) (uf : list appid) (i : N) : res appid :=
  match fuel with
  | O => Err OutOfFuel
  | S f =>
      match nth_opt uf (N.to_nat i) with
      | None => Err OutOfBounds
      | Some e =>
          if aid e =? i then Ok e
          else do l <- uf_get_go f uf (aid e);
               (* chain_pai: next.elem.apply_slotmap(&start.elem.m) *)
               Ok {| aid := aid l; am := compose_partial (am l) (am e) |}
      end
  end.
Definition unionfind_get (s : egraph) (i : N) : res appid :=
  uf_get_go (S (List.length (unionfind s))) (unionfind s) i.

Definition unionfind_set (i : N) (p : appid) : M unit := fun s =>
  let n := List.length (unionfind s) in
  let k := N.to_nat i in
  if Nat.eqb n k then Ok (tt, set_uf s (unionfind s ++ [p]))
  else if Nat.ltb k n then Ok (tt, set_uf s (set_nth (unionfind s) k p))
  else Err OutOfBounds.

Definition find_applied_id (s : egraph) (a : appid) : res appid :=
  do p <- unionfind_get s (aid a);
  Ok {| aid := aid p; am := compose_partial (am p) (am a) |}.

Definition find_enode (s : egraph) (n : node) : res node :=
  do l <- mapr (find_applied_id s) (app_occ n);
  Ok (set_apps n l).

Definition is_alive (s : egraph) (i : N) : res bool :=
  match nth_opt (unionfind s) (N.to_nat i) with
  | Some e => Ok (aid e =? i)
  | None => Err OutOfBounds
  end.

Definition ids (s : egraph) : list N :=
  let fix go (l : list appid) (i : N) : list N :=
    match l with
    | [] => []
    | e :: t => if aid e =? i then i :: go t (i + 1) else go t (i + 1)
    end in
  go (unionfind s) 0.

Definition find_id (s : egraph) (i : N) : res N := do p <- unionfind_get s i; Ok (aid p).

(* analysis_data(i) = &self.classes[&self.find_id(i)].analysis_data *)
Definition analysis_data (s : egraph) (i : N) : res Data :=
  do j <- find_id s i; do c <- get_class s j; Ok (c_data c).

(* N::make(self, n) *)
Definition make_in (s : egraph) (n : node) : res Data := make (analysis_data s) n.

(* ------------------------------------------------------------------ *)
(* mod.rs: eq, shapes *)

Definition eg_eq (s : egraph) (a b : appid) : res bool :=
  do a <- find_applied_id s a;
  do b <- find_applied_id s b;
  if negb (aid a =? aid b) then Ok false
  else if negb (sset_eqb (values (am a)) (values (am b))) then Ok false
  else
    let perm := compose_partial (am a) (inverse_nocheck (am b)) in
    do c <- get_class s (aid a);
    gcontains false (c_group c) perm.

(* {1,2} x {3} x {4,5} -> (1,3,4), (2,3,4), (1,3,5), (2,3,5): the first index runs fastest *)
Fixpoint cartesian {A} (input : list (list A)) : list (list A) :=
  match input with
  | [] => [[]]
  | g :: gs => flat_map (fun rest => map (fun x => x :: rest) g) (cartesian gs)
  end.

Fixpoint zip_with {A C D} (f : A -> C -> D) (l : list A) (l' : list C) : list D :=
  match l, l' with
  | x :: t, y :: t' => f x y :: zip_with f t t'
  | _, _ => []
  end.

(* proven_proven_get_group_compatible_variants (data part) *)
Definition variants (s : egraph) (n : node) : res (list node) :=
  let apps := app_occ n in
  do cls <- mapr (fun a => get_class s (aid a)) apps;
  if forallb (fun c => gis_trivial (c_group c)) cls then Ok [n]
  else
    do groups <- mapr (fun c => gall_perms false (c_group c)) cls;
    Ok (map (fun l =>
               (* chain_pai_pp: mk_sem_applied_id(pai.elem.id, pp.elem.compose(&pai.elem.m)) *)
               set_apps n (zip_with (fun a pp => {| aid := aid a; am := compose_partial pp (am a) |}) apps l))
            (cartesian groups)).

(* min_by_key(|pn| pn.weak_shape().0.elem.all_slot_occurrences()): the first minimum *)
Fixpoint min_variant (l : list node) (best : option (node * list slot)) : res node :=
  match l with
  | [] => match best with Some (n, _) => Ok n | None => Err UnwrapNone end
  | v :: t =>
      do sh <- wshape v;
      let key := all_occ (fst sh) in
      match best with
      | None => min_variant t (Some (v, key))
      | Some (_, bk) =>
          match cmp_slots key bk with
          | Lt => min_variant t (Some (v, key))
          | _ => min_variant t best
          end
      end
  end.

(* proven_proven_pre_shape *)
Definition pre_shape (s : egraph) (n : node) : res node :=
  do n <- find_enode s n;
  do vs <- variants s n;
  min_variant vs None.

Definition shape (s : egraph) (n : node) : res (node * slotmap) :=
  do p <- pre_shape s n; wshape p.

(* synify_app_id: `for s in self.syn_slots(app.id)` iterates the sorted set *)
Definition synify_app_id (a : appid) : M appid :=
  dom ss <- reads (fun s => syn_slots s (aid a));
  dom m <- (fix go (l : list slot) (m : slotmap) : M slotmap :=
              match l with
              | [] => ret m
              | x :: t => if contains_key m x then go t m
                          else dom f <- fresh; go t (insert x f m)
              end) ss (am a);
  ret {| aid := aid a; am := m |}.

Definition synify_enode (n : node) : M node :=
  dom l <- mapM synify_app_id (app_occ n);
  ret (set_apps n l).

Definition semify_app_id (s : egraph) (a : appid) : res appid :=
  do sl <- class_slots s (aid a);
  Ok {| aid := aid a; am := filter (fun p => sset_mem (fst p) sl) (am a) |}.

(* ------------------------------------------------------------------ *)
(* add.rs: lookup, raw add / remove, alloc *)

Definition lookup_internal (s : egraph) (t : node * slotmap) : res (option appid) :=
  let '(sh, n_bij) := t in
  match na_get (hashcons s) sh with
  | None => Ok None
  | Some i =>
      do c <- get_class s i;
      match na_get (c_nodes c) sh with
      | None => Err UnwrapNone                         (* c.nodes[&shape] *)
      | Some (cn_bij, _) =>
          let out := compose_partial (inverse_nocheck cn_bij) n_bij in
          let out := filter (fun p => sset_mem (fst p) (c_slots c)) out in
          Ok (Some {| aid := i; am := out |})
      end
  end.

Definition raw_add_to_class (id : N) (t : node * slotmap) (src_id : N) : M unit :=
  let '(sh, bij) := t in
  dom _ <- upd_class id (fun c => with_nodes c (na_set (c_nodes c) sh (bij, src_id)));
  dom _ <- modify (fun s => set_hashcons s (na_set (hashcons s) sh id));
  iterM (fun r => upd_class r (fun c => with_usages c (ns_add (c_usages c) sh))) (node_ids sh).

Definition raw_remove_from_class (id : N) (sh : node) : M (slotmap * N) :=
  dom c <- reads (fun s => get_class s id);
  let opt := na_get (c_nodes c) sh in
  dom _ <- upd_class id (fun c => with_nodes c (na_remove (c_nodes c) sh));
  dom _ <- modify (fun s => set_hashcons s (na_remove (hashcons s) sh));
  dom _ <- iterM (fun r => upd_class r (fun c => with_usages c (ns_remove (c_usages c) sh))) (node_ids sh);
  match opt with Some p => ret p | None => fail UnwrapNone end.

Definition alloc_eclass (sl : sset) (syn : node) : M N :=
  dom c_id <- gets (fun s => N.of_nat (List.length (unionfind s)));
  dom g <- lift (group_new false (identity sl) []);
  (* analysis_data: N::make(&self, &syn_enode): the class is not in `classes` yet *)
  dom d <- reads (fun s => make_in s syn);
  let c := {| c_nodes := []; c_slots := sl; c_usages := []; c_group := g; c_syn := syn; c_data := d |} in
  (* classes.insert(c_id, c): ids are consecutive *)
  dom _ <- modify (fun s => set_classes s (classes s ++ [c]));
  dom _ <- unionfind_set c_id {| aid := c_id; am := identity (slots syn) |};
  ret c_id.

(* touched_class *)
Definition touched_class (i : N) (ty : bool) : M unit :=
  dom c <- reads (fun s => get_class s i);
  iterM (fun sh => pending_touch sh ty) (c_usages c).

(* rebuild.rs: update_analysis(&sh, i) *)
Definition update_analysis (sh : node) (i : N) : M unit :=
  dom v <- reads (fun s => make_in s sh);
  dom c <- reads (fun s => get_class s i);
  let old := c_data c in
  let new := merge old v in
  dom _ <- upd_class i (fun c => with_data c new);
  if data_eqb new old then ret tt
  else dom _ <- mq_push i; touched_class i false.

(* ------------------------------------------------------------------ *)
(* wrapper/contains.rs: ProvenContains = (node, applied id) *)

Definition pcont := (node * appid)%type.

(* refl_pc + pc_find *)
Definition pc_from_src_id (s : egraph) (i : N) : res pcont :=
  do c <- get_class s i;
  let ident := {| aid := i; am := identity (slots (c_syn c)) |} in
  do n <- apply_slotmap false (am ident) (c_syn c);       (* get_syn_node *)
  do nd <- pre_shape s n;
  do pai <- find_applied_id s ident;
  Ok (nd, pai).

(* match_pcs + pc_congruence *)
Definition pc_congruence (a b : pcont) : M (appid * appid) :=
  dom sa <- lift (wshape (fst a));
  dom sb <- lift (wshape (fst b));
  let bij1 := snd sa in
  let bij2 := snd sb in
  dom m <- with_ctr (compose_fresh (inverse_nocheck bij2) bij1);
  (* b.node.elem.apply_slotmap_fresh(&m): only its fresh draws matter *)
  dom _ <- with_ctr (apply_slotmap_fresh false m (fst b));
  dom bm <- with_ctr (compose_fresh (am (snd b)) m);
  ret (snd a, {| aid := aid (snd b); am := bm |}).

(* ------------------------------------------------------------------ *)
(* rebuild.rs / union.rs: the mutually recursive core.
   `ui` is union_internal with one unit of fuel less. *)

Section Core.
  Variable ui : appid -> appid -> M bool.

  Definition record_redundancy_witness (i : N) (cap : sset) : M unit :=
    dom ss <- reads (fun s => syn_slots s i);
    unionfind_set i {| aid := i; am := compose_partial (identity ss) (identity cap) |}.

  Definition shrink_slots (from : appid) (cap : sset) : M unit :=
    let m_inv := inverse_nocheck (am from) in
    dom origcap <- lift (mapr (index m_inv) cap);
    let origcap := sset_of_list origcap in
    dom _ <- record_redundancy_witness (aid from) origcap;
    let id := aid from in
    let cap := origcap in
    dom c <- reads (fun s => get_class s id);
    let all_generators := ggenerators (c_group c) in
    (* partition(|pp| cap.iter().all(|x| cap.contains(&pp.elem[*x]))) *)
    dom flags <- lift (mapr (fun pp => allr (fun x => do y <- index pp x; Ok (sset_mem y cap)) cap) all_generators);
    let tagged := combine all_generators flags in
    let generators := map fst (filter snd tagged) in
    let moved := map fst (filter (fun p => negb (snd p)) tagged) in
    let restricted := map (fun pp => filter (fun kv => sset_mem (fst kv) cap) pp) generators in
    dom g <- lift (group_new false (identity cap) restricted);
    dom _ <- upd_class id (fun c => with_group (with_slots c cap) g);
    dom _ <- touched_class id true;
    iterM (fun pp =>
             dom sl <- reads (fun s => class_slots s id);
             let l := {| aid := id; am := identity sl |} in
             dom ps <- lift (mapr (fun x => do y <- index pp x; Ok (x, y)) cap);
             let r := {| aid := id; am := from_iter ps |} in
             dom _ <- ui l r;
             ret tt) moved.

  Definition move_to (from to : appid) : M unit :=
    (* the analysis block comes first *)
    dom a_from <- reads (fun s => analysis_data s (aid from));
    dom to_id <- reads (fun s => find_id s (aid to));          (* analysis_data_mut(to.id) *)
    dom a_to <- reads (fun s => analysis_data s (aid to));
    let new := merge a_from a_to in
    dom _ <- upd_class to_id (fun c => with_data c new);
    dom _ <- (if data_eqb a_to new then ret tt
              else dom _ <- mq_push (aid to); touched_class (aid to) false);
    let map_ := compose_partial (am to) (inverse_nocheck (am from)) in
    dom _ <- unionfind_set (aid from) {| aid := aid to; am := map_ |};
    dom cf <- reads (fun s => get_class s (aid from));
    let map_inv := inverse_nocheck map_ in
    dom _ <- iterM (fun e =>
                      let '(sh, (bij, src_id)) := e in
                      dom _ <- raw_remove_from_class (aid from) sh;
                      dom new_bij <- with_ctr (compose_fresh bij map_inv);
                      dom _ <- raw_add_to_class (aid to) (sh, new_bij) src_id;
                      pending_insert sh true) (c_nodes cf);
    let f := compose_partial (am from) (inverse_nocheck (am to)) in
    let change (x : perm) : perm :=
      from_iter (flat_map (fun kv => match get f (fst kv), get f (snd kv) with
                                     | Some a, Some b => [(a, b)]
                                     | _, _ => []
                                     end) x) in
    dom cf <- reads (fun s => get_class s (aid from));
    let set := map change (ggenerators (c_group cf)) in
    dom ct <- reads (fun s => get_class s (aid to));
    dom r <- lift (gadd_set false (c_group ct) set);
    dom _ <- upd_class (aid to) (fun c => with_group c (fst r));
    dom _ <- (if snd r then touched_class (aid to) true else ret tt);
    touched_class (aid from) true.

  Definition union_leaders (l r : appid) : M bool :=
    dom e <- reads (fun s => eg_eq s l r);
    if e then ret false else
    let lsl := values (am l) in
    let rsl := values (am r) in
    let cap := sset_inter lsl rsl in
    if negb (sset_eqb lsl cap) then
      dom _ <- shrink_slots l cap; dom _ <- ui l r; ret true
    else if negb (sset_eqb rsl cap) then
      dom _ <- shrink_slots r cap; dom _ <- ui l r; ret true
    else if aid l =? aid r then
      let id := aid l in
      let perm := compose_partial (am r) (inverse_nocheck (am l)) in
      dom c <- reads (fun s => get_class s id);
      dom b <- lift (gcontains false (c_group c) perm);
      if b then ret false else
      dom g <- lift (gadd_set false (c_group c) [perm]);
      dom _ <- upd_class id (fun c => with_group c (fst g));
      dom _ <- touched_class id true;
      ret true
    else
      dom cl <- reads (fun s => get_class s (aid l));
      dom cr <- reads (fun s => get_class s (aid r));
      let ssl := List.length (slots (c_syn cl)) in
      let ssr := List.length (slots (c_syn cr)) in
      let size (c : eclass) := (List.length (c_nodes c) + List.length (c_usages c))%nat in
      let right_order :=
        if Nat.ltb ssr ssl then true
        else if Nat.ltb ssl ssr then false
        else Nat.leb (size cl) (size cr) in
      dom _ <- (if right_order then move_to l r else move_to r l);
      ret true.

  Definition union_internal_body (l r : appid) : M bool :=
    dom l <- reads (fun s => find_applied_id s l);
    dom r <- reads (fun s => find_applied_id s r);
    union_leaders l r.
End Core.

Fixpoint union_internal (fuel : nat) (l r : appid) : M bool :=
  match fuel with
  | O => fail OutOfFuel
  | S f => union_internal_body (union_internal f) l r
  end.

Definition ui_fuel : nat := 400.
Definition uint := union_internal ui_fuel.

Definition handle_shrink_in_upwards_merge (src_id : N) : M unit :=
  dom pc1 <- reads (fun s => pc_from_src_id s src_id);
  dom n2 <- reads (fun s => find_enode s (fst pc1));
  dom ab <- pc_congruence pc1 (n2, snd pc1);
  let '(a, b) := ab in
  let cap := sset_inter (values (am a)) (values (am b)) in
  shrink_slots uint a cap.

Definition pc_from_shape (s : egraph) (sh : node) : res pcont :=
  match na_get (hashcons s) sh with
  | None => Err UnwrapNone                              (* .expect(..) *)
  | Some i =>
      do c <- get_class s i;
      match na_get (c_nodes c) sh with
      | None => Err UnwrapNone
      | Some (_, src) => pc_from_src_id s src
      end
  end.

Definition handle_congruence (pc1 : pcont) : M unit :=
  dom sh <- reads (fun s => shape s (fst pc1));
  dom pc2 <- reads (fun s => pc_from_shape s (fst sh));
  dom ab <- pc_congruence pc1 pc2;
  dom _ <- uint (fst ab) (snd ab);
  ret tt.

Definition determine_self_symmetries (src_id : N) : M unit :=
  dom pc1 <- reads (fun s => pc_from_src_id s src_id);
  dom w <- lift (wshape (fst pc1));
  let weak := fst w in
  dom vs <- reads (fun s => variants s (fst pc1));
  iterM (fun pn2 =>
           dom w2 <- lift (wshape pn2);
           if node_eqb weak (fst w2) then
             dom ab <- pc_congruence pc1 (pn2, snd pc1);
             dom _ <- uint (fst ab) (snd ab);
             ret tt
           else ret tt) vs.

(* the `while !i.slots().is_subset(&enode.slots())` loop of handle_pending *)
Fixpoint hp_loop (fuel : nat) (src_id : N) (enode : node) (i : appid) : M (node * appid) :=
  match fuel with
  | O => fail OutOfFuel
  | S f =>
      if sset_subset (values (am i)) (slots enode) then ret (enode, i)
      else
        dom _ <- handle_shrink_in_upwards_merge src_id;
        dom enode' <- reads (fun s => find_enode s enode);
        dom i' <- reads (fun s => find_applied_id s i);
        hp_loop f src_id enode' i'
  end.

Definition handle_pending (sh : node) (ty : bool) : M unit :=
  dom i <- reads (fun s => match na_get (hashcons s) sh with Some i => Ok i | None => Err UnwrapNone end);
  dom _ <- update_analysis sh i;
  if negb ty then ret tt else
  dom c <- reads (fun s => get_class s i);
  dom psn <- lift (match na_get (c_nodes c) sh with Some p => Ok p | None => Err UnwrapNone end);
  let '(bij0, src_id) := psn in
  dom nd <- lift (apply_slotmap false bij0 sh);
  dom _ <- raw_remove_from_class i sh;
  dom sl <- reads (fun s => class_slots s i);
  let app_i := {| aid := i; am := identity sl |} in
  dom enode <- reads (fun s => find_enode s nd);
  dom i1 <- reads (fun s => find_applied_id s app_i);
  dom ei <- hp_loop 100 src_id enode i1;
  let '(enode, i1) := ei in
  dom t <- reads (fun s => shape s enode);
  dom lk <- reads (fun s => lookup_internal s t);
  match lk with
  | Some _ =>
      dom pc <- reads (fun s => pc_from_src_id s src_id);
      handle_congruence pc
  | None =>
      let '(sh', bij) := t in
      dom m <- (fix go (l : list slot) (m : slotmap) : M slotmap :=
                  match l with
                  | [] => ret m
                  | x :: r => if contains_key m x then go r m
                              else dom f <- fresh; go r (insert x f m)
                  end) (values bij) (inverse_nocheck (am i1));
      let bij' := compose_partial bij m in
      dom _ <- raw_add_to_class (aid i1) (sh', bij') src_id;
      determine_self_symmetries src_id
  end.

(* rebuild, first loop: `while let Some(sh) = self.pending.keys().cloned().next()`: the first pending entry *)
Fixpoint rebuild_pending (fuel : nat) : M unit :=
  match fuel with
  | O => fail OutOfFuel
  | S f =>
      dom p <- gets pending;
      match p with
      | [] => ret tt
      | (sh, ty) :: rest =>
          dom _ <- modify (fun s => set_pending s rest);
          dom _ <- handle_pending sh ty;
          rebuild_pending f
      end
  end.

Definition rebuild_fuel : nat := 2000.

(* ------------------------------------------------------------------ *)
(* add.rs: add; union.rs: union; N::modify.  They call rebuild, and rebuild calls N::modify:
   `rb` is rebuild with one unit of (nesting) fuel less. *)

Section Rebuild.
  Variable rb : M unit.

  Definition mk_singleton_class (syn_enode : node) : M appid :=
    let old_slots := slots syn_enode in
    dom fresh_to_old <- with_ctr (bijection_from_fresh_to old_slots);
    let old_to_fresh := inverse_nocheck fresh_to_old in
    let fresh_slots := values old_to_fresh in
    dom syn_fresh <- with_ctr (apply_slotmap_fresh false old_to_fresh syn_enode);
    dom i <- alloc_eclass fresh_slots syn_fresh;
    dom t <- lift (wshape syn_fresh);
    dom _ <- raw_add_to_class i t i;
    dom _ <- pending_insert (fst t) true;
    dom _ <- mq_push i;
    dom _ <- rb;
    ret {| aid := i; am := fresh_to_old |}.

  Definition add_internal (t : node * slotmap) : M appid :=
    dom lk <- reads (fun s => lookup_internal s t);
    match lk with
    | Some x => ret x
    | None =>
        dom en <- (fun s => let '(r, c) := refresh_private (fst t) (ctr s) in
                            match r with Ok n => Ok (n, set_ctr s c) | Err e => Err e end);
        dom en <- lift (apply_slotmap false (snd t) en);
        dom en <- synify_enode en;
        dom syn <- mk_singleton_class en;
        reads (fun s => semify_app_id s syn)
    end.

  Definition eg_add (n : node) : M appid :=
    dom t <- reads (fun s => shape s n);
    add_internal t.

  Fixpoint add_expr (t : rterm) : M appid :=
    match t with
    | RT n ch =>
        dom l <- (fix go (l : list rterm) : M (list appid) :=
                    match l with
                    | [] => ret []
                    | c :: r => dom a <- add_expr c; dom r' <- go r; ret (a :: r')
                    end) ch;
        (* `*(refs[i]) = ...` for every child *)
        if Nat.ltb (List.length (app_occ n)) (List.length l) then fail OutOfBounds
        else eg_add (set_apps n l)
    end.

  (* union -> union_justified -> union_instantiations (patterns ?a / ?b) *)
  Definition eg_union (l r : appid) : M bool :=
    dom _ <- synify_app_id l;
    dom _ <- synify_app_id r;
    dom out <- uint l r;
    dom _ <- rb;
    ret out.

  (* N::modify(self, i), as data.
     kind 1 (constant folding):
       if let Some(k) = *eg.analysis_data(id) {
           let c = eg.add(LV::Num(k));                       -- variant 17 of the harness language
           let me = eg.mk_identity_applied_id(id);            -- `id` may be dead by now: slots(id) is still there
           if !eg.eq(&c, &me) { eg.union(&c, &me); } } *)
  Definition num_node (k : N) : node := {| nvar := 17; nargs := [APay (PVu32 k)] |}.

  Definition modify_hook (i : N) : M unit :=
    match modify_kind with
    | 1%nat =>
        dom d <- reads (fun s => analysis_data s i);
        match const_of d with
        | None => ret tt
        | Some k =>
            dom c <- eg_add (num_node k);
            dom sl <- reads (fun s => class_slots s i);
            let me := {| aid := i; am := identity sl |} in
            dom e <- reads (fun s => eg_eq s c me);
            if e then ret tt else dom _ <- eg_union c me; ret tt
        end
    | _ => ret tt
    end.

  (* rebuild, second loop: `while let Some(i) = self.modify_queue.pop() { let i = self.find_id(i); N::modify(self, i); }` *)
  Fixpoint mq_loop (fuel : nat) : M unit :=
    match fuel with
    | O => fail OutOfFuel
    | S f =>
        dom q <- gets modify_queue;
        match pop_last q with
        | None => ret tt
        | Some (q', i) =>
            dom _ <- modify (fun s => set_mq s q');
            dom j <- reads (fun s => find_id s i);
            dom _ <- modify_hook j;
            mq_loop f
        end
    end.
End Rebuild.

Definition mq_fuel : nat := 4000.

(* rebuild; the fuel is the nesting depth rebuild -> modify -> add/union -> rebuild *)
Fixpoint rebuild (depth : nat) : M unit :=
  match depth with
  | O => fail OutOfFuel
  | S d =>
      dom _ <- rebuild_pending rebuild_fuel;
      mq_loop (rebuild d) mq_fuel
  end.

Definition rebuild_depth : nat := 200.
Definition rb0 : M unit := rebuild rebuild_depth.

(* the entry points of a history *)
Definition add_expr0 : rterm -> M appid := add_expr rb0.
Definition eg_union0 : appid -> appid -> M bool := eg_union rb0.

(* ------------------------------------------------------------------ *)
(* queries *)

Definition enodes (s : egraph) (i : N) : res (list node) :=
  do al <- is_alive s i;
  if negb al then Err AssertFailed else
  do c <- get_class s i;
  do l <- mapr (fun e => apply_slotmap false (fst (snd e)) (fst e)) (c_nodes c);
  Ok (ns_dedup l).

Definition total_number_of_nodes (s : egraph) : nat := List.length (hashcons s).

(* progress(): number_of_classes, number_of_live_classes, sum_of_slots, sum_of_symmetries *)
Definition progress (s : egraph) : res (N * N * N * N) :=
  let live := ids s in
  do cls <- mapr (get_class s) live;
  Ok (N.of_nat (List.length (classes s)),
      N.of_nat (List.length live),
      fold_left (fun acc c => acc + N.of_nat (List.length (c_slots c))) cls 0,
      fold_left (fun acc c => acc + gcount (c_group c)) cls 0).

End Analysis.
