(* EGraph/ModelAMachine.v — the e-graph model with analysis as a correspondence machine:
   decode `(eg14 (cfg c e) (terms T...) (ops OP...) motif (an K))`, run the history on
   EGraph/ModelA.v instantiated with analysis K, print `(steps ST...)` as the first list of
   /verif/harness/src/eg14.rs:  ST = (st (prog ..) b<eq bits> (data d0 d1 ...)).
   The three analyses mirror the `impl Analysis<LV>` blocks of eg14.rs. *)
From SE Require Import EGraph.ModelA.
From SE Require Export Sem.EgMachine.

(* ------------------------------------------------------------------ *)
(* the three analyses over the harness language LV *)

Definition u64_max : N := 18446744073709551615.
Definition sat_add (a b : N) : N := N.min u64_max (a + b).
Definition u32_mod : N := 4294967296.

(* MinSize: make(n) = 1 + sum of the children's data (saturating), merge = min *)
Definition make_minsize (get : N -> res N) (n : node) : res N :=
  fold_left (fun acc a => do s <- acc; do d <- get (aid a); Ok (sat_add s d)) (app_occ n) (Ok 1).

(* Depth: make(n) = 1 + max of the children's data, merge = min *)
Definition make_depth (get : N -> res N) (n : node) : res N :=
  do m <- fold_left (fun acc a => do s <- acc; do d <- get (aid a); Ok (N.max s d)) (app_occ n) (Ok 0);
  Ok (sat_add m 1).

(* ConstFold: Num k -> Some k; Add / Mul of two constants -> wrapping u32 arithmetic; else None.
   merge(l, r) = l.or(r): the LEFT one wins if both are constants *)
Definition make_constfold (get : N -> res (option N)) (n : node) : res (option N) :=
  match nargs n with
  | [APay (PVu32 k)] => if Nat.eqb (nvar n) 17 then Ok (Some k) else Ok None
  | [AApp a; AApp b] =>
      if Nat.eqb (nvar n) 13 then
        do x <- get (aid a); do y <- get (aid b);
        Ok (match x, y with Some x, Some y => Some ((x + y) mod u32_mod) | _, _ => None end)
      else if Nat.eqb (nvar n) 14 then
        do x <- get (aid a); do y <- get (aid b);
        Ok (match x, y with Some x, Some y => Some ((x * y) mod u32_mod) | _, _ => None end)
      else Ok None
  | _ => Ok None
  end.
(* CapDepth (probes, `(an 3)`: cap 3, `(an 4)`: cap 8): make(n) = min(cap, 1 + max of the children's data),
   merge = max *)
Definition make_capdepth (cap : N) (get : N -> res N) (n : node) : res N :=
  do m <- fold_left (fun acc a => do s <- acc; do d <- get (aid a); Ok (N.max s d)) (app_occ n) (Ok 0);
  Ok (N.min cap (m + 1)).

Definition merge_or (l r : option N) : option N := match l with Some _ => l | None => r end.
Definition optN_eqb (a b : option N) : bool :=
  match a, b with Some x, Some y => x =? y | None, None => true | _, _ => false end.

(* ------------------------------------------------------------------ *)
(* the run loop, generic in the analysis *)

Section Run.
  Variable Data : Type.
  Variable data_eqb : Data -> Data -> bool.
  Variable make : (N -> res Data) -> node -> res Data.
  Variable merge : Data -> Data -> Data.
  Variable modify_kind : nat.
  Variable const_of : Data -> option N.
  Variable data_sexp : Data -> sexp.

  Let eg := egraph Data.
  Let add_e := add_expr0 Data data_eqb make merge modify_kind const_of.
  Let union_e := eg_union0 Data data_eqb make merge modify_kind const_of.

  Definition eq_matrix_a (s : eg) (hs : list appid) : res (list bool) :=
    mapr (fun p => eg_eq Data s (fst p) (snd p)) (flat_map (fun a => map (fun b => (a, b)) hs) hs).

  Definition step_obs_a (s : eg) (hs : list appid) : res sexp :=
    do p <- progress Data s;
    let '(a, b, c, d) := p in
    do m <- eq_matrix_a s hs;
    do ds <- mapr (fun h => analysis_data Data s (aid h)) hs;
    Ok (Lst [Sym "st"; Lst [Sym "prog"; Num a; Num b; Num c; Num d];
             Sym (String "b"%char (bits m));
             Lst (Sym "data" :: map data_sexp ds)]).

  Fixpoint run_ops_steps_a (terms : list rterm) (ops : list hop) (handles : list appid) (acc : list sexp) (s : eg)
    : list sexp :=
    match ops with
    | [] => rev acc
    | o :: t =>
        let r := match o with
                 | HAdd k => match nth_opt terms k with
                             | None => Err OutOfBounds
                             | Some tm => match add_e tm s with Ok (a, s') => Ok (handles ++ [a], s') | Err e => Err e end
                             end
                 | HUnion i j _ =>
                     match nth_opt handles i, nth_opt handles j with
                     | Some a, Some b => match union_e a b s with Ok (_, s') => Ok (handles, s') | Err e => Err e end
                     | _, _ => Err OutOfBounds
                     end
                 end in
        match r with
        | Err e => rev (Lst [Sym "err"; site_sexp e] :: acc)
        | Ok (hs', s') =>
            match step_obs_a s' hs' with
            | Ok ob => run_ops_steps_a terms t hs' (ob :: acc) s'
            | Err e => rev (Lst [Sym "err"; site_sexp e] :: acc)
            end
        end
    end.

  Definition run_steps_a (rts : list rterm) (ops : list hop) : sexp :=
    Lst (Sym "steps" :: run_ops_steps_a rts ops [] [] (empty_egraph Data)).
End Run.

Definition optN_sexp (d : option N) : sexp :=
  match d with None => Sym "none" | Some k => Lst [Sym "some"; Num k] end.

Definition run_minsize := run_steps_a N N.eqb make_minsize N.min 0 (fun _ => None) Num.
Definition run_constfold := run_steps_a (option N) optN_eqb make_constfold merge_or 1 (fun d => d) optN_sexp.
Definition run_capdepth (cap : N) := run_steps_a N N.eqb (make_capdepth cap) N.max 0 (fun _ => None) Num.
Definition run_depth := run_steps_a N N.eqb make_depth N.min 0 (fun _ => None) Num.

Fixpoint find_an (l : list sexp) : N :=
  match l with
  | [] => 0
  | Lst [Sym "an"; Num k] :: _ => k
  | _ :: t => find_an t
  end.

(* case: (eg14 cfg (terms ...) (ops ...) motif (an K)) *)
Definition run_eg14 (args : list sexp) : sexp :=
  match args with
  | _ :: Lst (Sym "terms" :: ts) :: Lst (Sym "ops" :: os) :: rest =>
      match dec_rterms ts, dec_hops os with
      | Some rts, Some ops =>
          match find_an rest with
          | 0 => run_minsize rts ops
          | 1 => run_constfold rts ops
          | 2 => run_depth rts ops
          | 3 => run_capdepth 3 rts ops
          | 4 => run_capdepth 8 rts ops
          | _ => Sym "bad-case"
          end
      | _, _ => Sym "bad-case"
      end
  | _ => Sym "bad-case"
  end.
