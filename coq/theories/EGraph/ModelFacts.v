(* EGraph/ModelFacts.v — structural theorems about the e-graph model (EGraph/Model.v), for all
   states and inputs.

   1. allocation is monotone: no M-computation of the model shrinks `unionfind` or `classes`;
      only `alloc_eclass` allocates: on states with |unionfind| = |classes| (`eg_wf`, which holds
      of `empty_egraph` and is preserved) `rebuild`, `union_internal`, `eg_union` leave both
      lengths unchanged, and `add_internal` allocates exactly one class for an unknown node.
   2. insertion agrees with lookup: a known node is returned without touching the state.
   3. the fresh-slot counter only grows, by multiples of 4.

   Remark (queries).  `lookup_internal`, `shape`, `eg_lookup`, `eg_eq`, `find_applied_id`,
   `find_enode`, `enodes`, `progress`, ... have type `egraph -> ... -> res _`: they take the state
   and return no state, so a query cannot modify the e-graph by construction. *)
From SE Require Import EGraph.Model.
Require Import ZArith Lia ZifyBool ZifyN ZifyNat.
Ltac Zify.zify_post_hook ::= Z.div_mod_to_equations.

Definition eg_lookup (s : egraph) (n : node) : res (option appid) :=
  do t <- shape s n; lookup_internal s t.

(* the two anonymous pieces of Model.v, named *)
Definition fill_fresh : list slot -> slotmap -> M slotmap :=
  fix go (l : list slot) (m : slotmap) : M slotmap :=
    match l with
    | [] => ret m
    | x :: t => if contains_key m x then go t m
                else dom f <- fresh; go t (insert x f m)
    end.

Definition refresh_step (n : node) : M node :=
  fun s => let '(r, c) := refresh_private n (ctr s) in
           match r with Ok n => Ok (n, set_ctr s c) | Err e => Err e end.

(* ------------------------------------------------------------------ *)
(* list facts *)

Lemma set_nth_length : forall {A} (l : list A) n x, List.length (set_nth l n x) = List.length l.
Proof. induction l; destruct n; cbn; intros; auto. Qed.

Lemma nth_opt_Some_lt : forall {A} (l : list A) n x, nth_opt l n = Some x -> (n < List.length l)%nat.
Proof.
  induction l; destruct n; cbn; intros; try discriminate; try lia.
  apply IHl in H. lia.
Qed.

Lemma get_class_lt : forall s i c, get_class s i = Ok c -> (N.to_nat i < List.length (classes s))%nat.
Proof.
  unfold get_class. intros s i c H. destruct (nth_opt (classes s) (N.to_nat i)) eqn:E; [|discriminate].
  eapply nth_opt_Some_lt; eauto.
Qed.

Lemma unionfind_set_classes : forall i p s x s', unionfind_set i p s = Ok (x, s') -> classes s' = classes s.
Proof.
  unfold unionfind_set. intros i p s x s' H.
  destruct (Nat.eqb _ _); [inversion H; reflexivity|].
  destruct (Nat.ltb _ _); [inversion H; reflexivity|discriminate].
Qed.

(* ------------------------------------------------------------------ *)
(* a generic pass over the model: every M-computation preserves a preorder R that the
   primitive state updates preserve *)

Section Pres.
  Variable R : egraph -> egraph -> Prop.
  Hypothesis R_refl : forall s, R s s.
  Hypothesis R_trans : forall a b c, R a b -> R b c -> R a c.

  Definition pres {A} (m : M A) : Prop := forall s x s', m s = Ok (x, s') -> R s s'.

  Lemma pres_ret : forall A (a : A), pres (ret a).
  Proof. intros A a s x s' H. inversion H. auto. Qed.
  Lemma pres_fail : forall A e, pres (@fail A e).
  Proof. intros A e s x s' H. discriminate. Qed.
  Lemma pres_lift : forall A (r : res A), pres (lift r).
  Proof. intros A r s x s' H. unfold lift in H. destruct r; inversion H. auto. Qed.
  Lemma pres_reads : forall A (f : egraph -> res A), pres (reads f).
  Proof. intros A f s x s' H. unfold reads in H. destruct (f s); inversion H. auto. Qed.
  Lemma pres_gets : forall A (f : egraph -> A), pres (gets f).
  Proof. intros A f s x s' H. inversion H. auto. Qed.
  Lemma pres_modify : forall f, (forall s, R s (f s)) -> pres (modify f).
  Proof. intros f Hf s x s' H. inversion H. auto. Qed.
  Lemma pres_bind : forall A C (m : M A) (k : A -> M C),
    pres m -> (forall a, pres (k a)) -> pres (mbind m k).
  Proof.
    intros A C m k Hm Hk s x s' H. unfold mbind in H.
    destruct (m s) as [[a s1]|] eqn:E; [|discriminate].
    eapply R_trans; [eapply Hm; eauto | eapply Hk; eauto].
  Qed.
  Lemma pres_mapM : forall A C (f : A -> M C) l, (forall x, pres (f x)) -> pres (mapM f l).
  Proof.
    intros A C f l Hf. induction l; cbn [mapM]; [apply pres_ret|].
    apply pres_bind; [apply Hf|]. intros y. apply pres_bind; [apply IHl|]. intros. apply pres_ret.
  Qed.
  Lemma pres_iterM : forall A (f : A -> M unit) l, (forall x, pres (f x)) -> pres (iterM f l).
  Proof.
    intros A f l Hf. induction l; cbn [iterM]; [apply pres_ret|].
    apply pres_bind; [apply Hf|]. intros; apply IHl.
  Qed.

  (* the primitive updates *)
  Hypothesis H_pend : forall s p, R s (set_pending s p).
  Hypothesis H_hc : forall s h, R s (set_hashcons s h).
  Hypothesis H_cls : forall s c, List.length c = List.length (classes s) -> R s (set_classes s c).
  Hypothesis H_ufset : forall i p s s', unionfind_set i p s = Ok (tt, s') ->
    (N.to_nat i < List.length (classes s))%nat -> R s s'.
  Hypothesis H_fresh : pres fresh.
  Hypothesis H_cf : forall a b, pres (with_ctr (compose_fresh a b)).
  Hypothesis H_asf : forall lg m n, pres (with_ctr (apply_slotmap_fresh lg m n)).

  Lemma pres_upd_class : forall i f, pres (upd_class i f).
  Proof.
    intros i f s x s' H. unfold upd_class in H.
    destruct (nth_opt (classes s) (N.to_nat i)); inversion H. apply H_cls. apply set_nth_length.
  Qed.
  Lemma pres_pending_insert : forall sh ty, pres (pending_insert sh ty).
  Proof. intros. apply pres_modify. intros; apply H_pend. Qed.
  Lemma pres_pending_touch : forall sh ty, pres (pending_touch sh ty).
  Proof. intros. apply pres_modify. intros; apply H_pend. Qed.

  (* unionfind_set, guarded by a class access at the same id, before or after *)
  Lemma pres_get_then_ufset : forall i A (p : A -> appid) (f : egraph -> res A),
    (forall s a, f s = Ok a -> exists c, get_class s i = Ok c) ->
    pres (dom a <- reads f; unionfind_set i (p a)).
  Proof.
    intros i A p f Hf s x s' H. unfold mbind, reads in H.
    destruct (f s) eqn:E; [|discriminate]. destruct x.
    destruct (Hf _ _ E) as [c Hc]. eapply H_ufset; eauto. eapply get_class_lt; eauto.
  Qed.
  Lemma pres_ufset_then_get : forall i p A (k : eclass -> M A),
    (forall c, pres (k c)) ->
    pres (dom _ <- unionfind_set i p; dom cf <- reads (fun s => get_class s i); k cf).
  Proof.
    intros i p A k Hk s x s' H. unfold mbind at 1 in H.
    destruct (unionfind_set i p s) as [[[] s1]|] eqn:E1; [|discriminate].
    unfold mbind, reads in H. destruct (get_class s1 i) eqn:E2; [|discriminate].
    eapply R_trans; [|eapply Hk; eauto].
    eapply H_ufset; eauto. rewrite <- (unionfind_set_classes _ _ _ _ _ E1).
    eapply get_class_lt; eauto.
  Qed.

  Ltac pstep :=
    cbv beta zeta;
    match goal with
    | |- pres (mbind _ _) => apply pres_bind; [| intros ?]
    | |- pres (ret _) => apply pres_ret
    | |- pres (fail _) => apply pres_fail
    | |- pres (lift _) => apply pres_lift
    | |- pres (reads _) => apply pres_reads
    | |- pres (gets _) => apply pres_gets
    | |- pres (iterM _ _) => apply pres_iterM; intros ?
    | |- pres (mapM _ _) => apply pres_mapM; intros ?
    | |- pres (upd_class _ _) => apply pres_upd_class
    | |- pres (pending_insert _ _) => apply pres_pending_insert
    | |- pres (pending_touch _ _) => apply pres_pending_touch
    | |- pres (modify (fun s => set_pending s _)) => apply pres_modify; intros; apply H_pend
    | |- pres (modify (fun s => set_hashcons s _)) => apply pres_modify; intros; apply H_hc
    | |- pres fresh => apply H_fresh
    | |- pres (with_ctr (compose_fresh _ _)) => apply H_cf
    | |- pres (with_ctr (apply_slotmap_fresh _ _ _)) => apply H_asf
    | |- pres (match ?x with _ => _ end) => destruct x
    | |- pres _ => solve [auto]
    end.
  Ltac psolve := repeat pstep.

  Lemma pres_fill_fresh : forall l m, pres (fill_fresh l m).
  Proof.
    induction l; intros m; cbn [fill_fresh]; [apply pres_ret|].
    destruct (contains_key m a); [apply IHl|].
    apply pres_bind; [apply H_fresh|]. intros; apply IHl.
  Qed.

  Lemma pres_synify_app_id : forall a, pres (synify_app_id a).
  Proof.
    intros a. unfold synify_app_id. apply pres_bind; [apply pres_reads|]. intros ss.
    apply pres_bind; [apply pres_fill_fresh|]. intros; apply pres_ret.
  Qed.
  Lemma pres_synify_enode : forall n, pres (synify_enode n).
  Proof. intros n. unfold synify_enode. pose proof pres_synify_app_id. psolve. Qed.

  Lemma pres_raw_add_to_class : forall id t src, pres (raw_add_to_class id t src).
  Proof. intros id t src. unfold raw_add_to_class. psolve. Qed.
  Lemma pres_raw_remove_from_class : forall id sh, pres (raw_remove_from_class id sh).
  Proof. intros id sh. unfold raw_remove_from_class. psolve. Qed.
  Lemma pres_touched_class : forall i ty, pres (touched_class i ty).
  Proof. intros i ty. unfold touched_class. psolve. Qed.
  Lemma pres_pc_congruence : forall a b, pres (pc_congruence a b).
  Proof. intros a b. unfold pc_congruence. psolve. Qed.

  Lemma pres_record_redundancy_witness : forall i cap, pres (record_redundancy_witness i cap).
  Proof.
    intros i cap. unfold record_redundancy_witness.
    apply (pres_get_then_ufset i _
             (fun ss => {| aid := i; am := compose_partial (identity ss) (identity cap) |})).
    intros s a H. unfold syn_slots in H. destruct (get_class s i); [eauto|discriminate].
  Qed.

  Lemma pres_move_to : forall from to, pres (move_to from to).
  Proof.
    intros from to. unfold move_to. cbv zeta.
    pose proof pres_raw_add_to_class. pose proof pres_raw_remove_from_class.
    pose proof pres_touched_class.
    apply pres_ufset_then_get. intros cf. psolve.
  Qed.

  Section Ui.
    Variable ui : appid -> appid -> M bool.
    Hypothesis H_ui : forall l r, pres (ui l r).

    Lemma pres_shrink_slots : forall from cap, pres (shrink_slots ui from cap).
    Proof.
      intros from cap. unfold shrink_slots.
      pose proof pres_record_redundancy_witness. pose proof pres_touched_class. psolve.
    Qed.
    Lemma pres_union_leaders : forall l r, pres (union_leaders ui l r).
    Proof.
      intros l r. unfold union_leaders.
      pose proof pres_shrink_slots. pose proof pres_touched_class. pose proof pres_move_to. psolve.
    Qed.
    Lemma pres_union_internal_body : forall l r, pres (union_internal_body ui l r).
    Proof. intros l r. unfold union_internal_body. pose proof pres_union_leaders. psolve. Qed.
  End Ui.

  Lemma pres_union_internal : forall fuel l r, pres (union_internal fuel l r).
  Proof.
    induction fuel; intros l r; cbn [union_internal]; [apply pres_fail|].
    apply pres_union_internal_body. exact IHfuel.
  Qed.
  Lemma pres_uint : forall l r, pres (uint l r).
  Proof. intros; apply pres_union_internal. Qed.

  Lemma pres_handle_shrink : forall src, pres (handle_shrink_in_upwards_merge src).
  Proof.
    intros src. unfold handle_shrink_in_upwards_merge.
    pose proof pres_pc_congruence. pose proof (pres_shrink_slots uint pres_uint). psolve.
  Qed.
  Lemma pres_handle_congruence : forall pc, pres (handle_congruence pc).
  Proof.
    intros pc. unfold handle_congruence. pose proof pres_pc_congruence. pose proof pres_uint. psolve.
  Qed.
  Lemma pres_determine_self_symmetries : forall src, pres (determine_self_symmetries src).
  Proof.
    intros src. unfold determine_self_symmetries.
    pose proof pres_pc_congruence. pose proof pres_uint. psolve.
  Qed.
  Lemma pres_hp_loop : forall fuel src enode i, pres (hp_loop fuel src enode i).
  Proof.
    induction fuel; intros src enode i; cbn [hp_loop]; [apply pres_fail|].
    pose proof pres_handle_shrink. psolve.
  Qed.
  Lemma pres_handle_pending : forall sh ty, pres (handle_pending sh ty).
  Proof.
    intros sh ty. unfold handle_pending.
    pose proof pres_raw_remove_from_class. pose proof pres_hp_loop. pose proof pres_handle_congruence.
    pose proof pres_raw_add_to_class. pose proof pres_determine_self_symmetries.
    pose proof pres_fill_fresh as Hff. unfold fill_fresh in Hff. psolve.
  Qed.
  Lemma pres_rebuild : forall fuel, pres (rebuild fuel).
  Proof.
    induction fuel; cbn [rebuild]; [apply pres_fail|].
    pose proof pres_handle_pending. psolve.
  Qed.

  Lemma pres_eg_union : forall l r, pres (eg_union l r).
  Proof.
    intros l r. unfold eg_union.
    pose proof pres_synify_app_id. pose proof pres_uint. pose proof pres_rebuild. psolve.
  Qed.

  (* the allocating side *)
  Hypothesis H_bff : forall l, pres (with_ctr (bijection_from_fresh_to l)).
  Hypothesis H_refresh : forall n, pres (refresh_step n).
  Hypothesis H_alloc : forall sl syn, pres (alloc_eclass sl syn).

  Lemma pres_mk_singleton_class : forall n, pres (mk_singleton_class n).
  Proof.
    intros n. unfold mk_singleton_class.
    pose proof pres_raw_add_to_class. pose proof pres_rebuild. psolve.
  Qed.
  Lemma pres_add_internal : forall t, pres (add_internal t).
  Proof.
    intros t. unfold add_internal.
    pose proof pres_synify_enode. pose proof pres_mk_singleton_class.
    pose proof H_refresh as Hr. unfold refresh_step in Hr. psolve.
  Qed.
  Lemma pres_eg_add : forall n, pres (eg_add n).
  Proof. intros n. unfold eg_add. pose proof pres_add_internal. psolve. Qed.
  Lemma pres_add_expr : forall t, pres (add_expr t).
  Proof.
    fix IH 1. intros [n ch]. cbn [add_expr]. apply pres_bind.
    - induction ch as [|c r IHr]; [apply pres_ret|].
      apply pres_bind; [apply IH|]. intros a. apply pres_bind; [apply IHr|]. intros; apply pres_ret.
    - intros l. destruct (Nat.ltb _ _); [apply pres_fail | apply pres_eg_add].
  Qed.
End Pres.

(* the hypotheses of the pass, bundled *)
Record core_ok (R : egraph -> egraph -> Prop) : Prop := {
  ok_refl : forall s, R s s;
  ok_trans : forall a b c, R a b -> R b c -> R a c;
  ok_pend : forall s p, R s (set_pending s p);
  ok_hc : forall s h, R s (set_hashcons s h);
  ok_cls : forall s c, List.length c = List.length (classes s) -> R s (set_classes s c);
  ok_ufset : forall i p s s', unionfind_set i p s = Ok (tt, s') ->
    (N.to_nat i < List.length (classes s))%nat -> R s s';
  ok_fresh : pres R fresh;
  ok_cf : forall a b, pres R (with_ctr (compose_fresh a b));
  ok_asf : forall lg m n, pres R (with_ctr (apply_slotmap_fresh lg m n)) }.

Record alloc_ok (R : egraph -> egraph -> Prop) : Prop := {
  ok_bff : forall l, pres R (with_ctr (bijection_from_fresh_to l));
  ok_refresh : forall n, pres R (refresh_step n);
  ok_alloc : forall sl syn, pres R (alloc_eclass sl syn) }.

Section Bundled.
  Variable R : egraph -> egraph -> Prop.
  Hypothesis C : core_ok R.
  Lemma core_union_internal : forall fuel l r, pres R (union_internal fuel l r).
  Proof. destruct C. apply pres_union_internal; assumption. Qed.
  Lemma core_rebuild : forall fuel, pres R (rebuild fuel).
  Proof. destruct C. apply pres_rebuild; assumption. Qed.
  Lemma core_eg_union : forall l r, pres R (eg_union l r).
  Proof. destruct C. apply pres_eg_union; assumption. Qed.
  Lemma core_synify_enode : forall n, pres R (synify_enode n).
  Proof. destruct C. apply pres_synify_enode; assumption. Qed.
  Lemma core_raw_add_to_class : forall i t src, pres R (raw_add_to_class i t src).
  Proof. destruct C. apply pres_raw_add_to_class; assumption. Qed.
  Hypothesis L : alloc_ok R.
  Lemma core_add_internal : forall t, pres R (add_internal t).
  Proof. destruct C, L. apply pres_add_internal; assumption. Qed.
  Lemma core_eg_add : forall n, pres R (eg_add n).
  Proof. destruct C, L. apply pres_eg_add; assumption. Qed.
  Lemma core_add_expr : forall t, pres R (add_expr t).
  Proof. destruct C, L. apply pres_add_expr; assumption. Qed.
End Bundled.

(* ------------------------------------------------------------------ *)
(* facts about the primitives *)

Notation lu s := (List.length (unionfind s)).
Notation lc s := (List.length (classes s)).

(* the well-formedness used for the exact statements: ids index both tables *)
Definition eg_wf (s : egraph) : Prop := lu s = lc s.
Definition eg_wfb (s : egraph) : bool := Nat.eqb (lu s) (lc s).
Lemma eg_wfb_spec : forall s, eg_wfb s = true <-> eg_wf s.
Proof. intros s. unfold eg_wfb, eg_wf. apply Nat.eqb_eq. Qed.
Lemma eg_wf_dec : forall s, {eg_wf s} + {~ eg_wf s}.
Proof. intros s. unfold eg_wf. apply Nat.eq_dec. Qed.
Lemma eg_wf_empty : eg_wf empty_egraph.
Proof. reflexivity. Qed.

Lemma unionfind_set_spec : forall i p s x s', unionfind_set i p s = Ok (x, s') ->
  classes s' = classes s /\ ctr s' = ctr s /\
  ((N.to_nat i = lu s /\ lu s' = S (lu s)) \/ (N.to_nat i < lu s /\ lu s' = lu s))%nat.
Proof.
  unfold unionfind_set. intros i p s x s' H.
  destruct (Nat.eqb _ _) eqn:E1.
  - inversion H; subst; cbn. apply Nat.eqb_eq in E1. rewrite app_length. cbn. repeat split; auto. left. lia.
  - destruct (Nat.ltb _ _) eqn:E2; [|discriminate].
    inversion H; subst; cbn. apply Nat.ltb_lt in E2. rewrite set_nth_length. repeat split; auto.
Qed.

Lemma with_ctr_spec : forall A (f : N -> A * N) s x s', with_ctr f s = Ok (x, s') ->
  s' = set_ctr s (snd (f (ctr s))).
Proof. unfold with_ctr. intros A f s x s' H. destruct (f (ctr s)). inversion H. reflexivity. Qed.

Lemma refresh_step_spec : forall n s x s', refresh_step n s = Ok (x, s') ->
  s' = set_ctr s (snd (refresh_private n (ctr s))).
Proof.
  unfold refresh_step. intros n s x s' H. destruct (refresh_private n (ctr s)) as [[r|e] c]; inversion H.
  reflexivity.
Qed.

Lemma alloc_eclass_spec : forall sl syn s i s', alloc_eclass sl syn s = Ok (i, s') ->
  i = N.of_nat (lu s) /\ lu s' = S (lu s) /\ lc s' = S (lc s) /\ ctr s' = ctr s.
Proof.
  unfold alloc_eclass, mbind, gets, lift, modify, ret. intros sl syn s i s' H.
  destruct (group_new false (identity sl) []); [|discriminate].
  match type of H with match ?u with _ => _ end = _ => destruct u as [[[] s1]|] eqn:E end; [|discriminate].
  inversion H; subst. apply unionfind_set_spec in E. cbn in E.
  destruct E as (Hc & Hk & Hu). rewrite Hc, Hk, app_length. cbn.
  rewrite Nat2N.id in Hu. repeat split; lia.
Qed.

(* any relation that ignores the counter *)
Section AnyCtr.
  Variable R : egraph -> egraph -> Prop.
  Hypothesis H : forall s c, R s (set_ctr s c).
  Lemma anyctr_fresh : pres R fresh.
  Proof. intros s x s' E. inversion E. apply H. Qed.
  Lemma anyctr_with_ctr : forall A (f : N -> A * N), pres R (with_ctr f).
  Proof. intros A f s x s' E. apply with_ctr_spec in E. subst. apply H. Qed.
  Lemma anyctr_refresh : forall n, pres R (refresh_step n).
  Proof. intros n s x s' E. apply refresh_step_spec in E. subst. apply H. Qed.
End AnyCtr.

(* ------------------------------------------------------------------ *)
(* 1a. monotone allocation, and preservation of eg_wf *)

Definition mono (s s' : egraph) : Prop :=
  (lu s <= lu s')%nat /\ (lc s <= lc s')%nat /\ (eg_wf s -> eg_wf s').

Lemma mono_refl : forall s, mono s s.
Proof. unfold mono; intros; repeat split; auto. Qed.
Lemma mono_trans : forall a b c, mono a b -> mono b c -> mono a c.
Proof. unfold mono; intros a b c (?&?&?) (?&?&?); repeat split; try lia; auto. Qed.

Lemma mono_core : core_ok mono.
Proof.
  assert (HC : forall s c, mono s (set_ctr s c)) by (intros; unfold mono, eg_wf; cbn; auto).
  constructor.
  - apply mono_refl.
  - apply mono_trans.
  - intros; unfold mono, eg_wf; cbn; auto.
  - intros; unfold mono, eg_wf; cbn; auto.
  - intros s c E. unfold mono, eg_wf; cbn. lia.
  - intros i p s s' E Hlt. apply unionfind_set_spec in E. destruct E as (Hc & _ & Hu).
    unfold mono, eg_wf. rewrite Hc. lia.
  - apply anyctr_fresh; auto.
  - intros; apply anyctr_with_ctr; auto.
  - intros; apply anyctr_with_ctr; auto.
Qed.
Lemma mono_alloc : alloc_ok mono.
Proof.
  assert (HC : forall s c, mono s (set_ctr s c)) by (intros; unfold mono, eg_wf; cbn; auto).
  constructor.
  - intros; apply anyctr_with_ctr; auto.
  - intros; apply anyctr_refresh; auto.
  - intros sl syn s i s' E. apply alloc_eclass_spec in E. unfold mono, eg_wf. lia.
Qed.

Theorem add_expr_mono : forall t s a s', add_expr t s = Ok (a, s') ->
  (lu s <= lu s')%nat /\ (lc s <= lc s')%nat.
Proof. intros t s a s' H. apply (core_add_expr _ mono_core mono_alloc) in H. destruct H as (?&?&?); auto. Qed.
Theorem eg_add_mono : forall n s a s', eg_add n s = Ok (a, s') ->
  (lu s <= lu s')%nat /\ (lc s <= lc s')%nat.
Proof. intros n s a s' H. apply (core_eg_add _ mono_core mono_alloc) in H. destruct H as (?&?&?); auto. Qed.
Theorem eg_union_mono : forall l r s b s', eg_union l r s = Ok (b, s') ->
  (lu s <= lu s')%nat /\ (lc s <= lc s')%nat.
Proof. intros l r s b s' H. apply (core_eg_union _ mono_core) in H. destruct H as (?&?&?); auto. Qed.
Theorem rebuild_mono : forall fuel s x s', rebuild fuel s = Ok (x, s') ->
  (lu s <= lu s')%nat /\ (lc s <= lc s')%nat.
Proof. intros fuel s x s' H. apply (core_rebuild _ mono_core) in H. destruct H as (?&?&?); auto. Qed.
Theorem union_internal_mono : forall fuel l r s b s', union_internal fuel l r s = Ok (b, s') ->
  (lu s <= lu s')%nat /\ (lc s <= lc s')%nat.
Proof. intros fuel l r s b s' H. apply (core_union_internal _ mono_core) in H. destruct H as (?&?&?); auto. Qed.

Theorem eg_wf_add_expr : forall t s a s', eg_wf s -> add_expr t s = Ok (a, s') -> eg_wf s'.
Proof. intros t s a s' W H. apply (core_add_expr _ mono_core mono_alloc) in H. destruct H as (?&?&?); auto. Qed.
Theorem eg_wf_eg_add : forall n s a s', eg_wf s -> eg_add n s = Ok (a, s') -> eg_wf s'.
Proof. intros n s a s' W H. apply (core_eg_add _ mono_core mono_alloc) in H. destruct H as (?&?&?); auto. Qed.
Theorem eg_wf_eg_union : forall l r s b s', eg_wf s -> eg_union l r s = Ok (b, s') -> eg_wf s'.
Proof. intros l r s b s' W H. apply (core_eg_union _ mono_core) in H. destruct H as (?&?&?); auto. Qed.

(* ------------------------------------------------------------------ *)
(* 1b. only alloc_eclass allocates *)

Definition keep (s s' : egraph) : Prop := lc s' = lc s /\ (eg_wf s -> lu s' = lu s).

Lemma keep_refl : forall s, keep s s.
Proof. unfold keep; intros; split; auto. Qed.
Lemma keep_trans : forall a b c, keep a b -> keep b c -> keep a c.
Proof. unfold keep, eg_wf; intros a b c (?&?) (?&?); split; [lia|]. intros. lia. Qed.

Lemma keep_core : core_ok keep.
Proof.
  assert (HC : forall s c, keep s (set_ctr s c)) by (intros; unfold keep, eg_wf; cbn; auto).
  constructor.
  - apply keep_refl.
  - apply keep_trans.
  - intros; unfold keep, eg_wf; cbn; auto.
  - intros; unfold keep, eg_wf; cbn; auto.
  - intros s c E. unfold keep, eg_wf; cbn. auto.
  - intros i p s s' E Hlt. apply unionfind_set_spec in E. destruct E as (Hc & _ & Hu).
    unfold keep, eg_wf. rewrite Hc. split; [auto|]. lia.
  - apply anyctr_fresh; auto.
  - intros; apply anyctr_with_ctr; auto.
  - intros; apply anyctr_with_ctr; auto.
Qed.

Theorem eg_union_no_alloc : forall l r s b s', eg_union l r s = Ok (b, s') ->
  lc s' = lc s /\ (eg_wf s -> lu s' = lu s).
Proof. intros l r s b s' H. exact (core_eg_union _ keep_core _ _ _ _ _ H). Qed.
Theorem rebuild_no_alloc : forall fuel s x s', rebuild fuel s = Ok (x, s') ->
  lc s' = lc s /\ (eg_wf s -> lu s' = lu s).
Proof. intros fuel s x s' H. exact (core_rebuild _ keep_core _ _ _ _ H). Qed.
Theorem union_internal_no_alloc : forall fuel l r s b s', union_internal fuel l r s = Ok (b, s') ->
  lc s' = lc s /\ (eg_wf s -> lu s' = lu s).
Proof. intros fuel l r s b s' H. exact (core_union_internal _ keep_core _ _ _ _ _ _ H). Qed.

Lemma mbind_inv : forall A C (m : M A) (k : A -> M C) s x s', mbind m k s = Ok (x, s') ->
  exists a s1, m s = Ok (a, s1) /\ k a s1 = Ok (x, s').
Proof. unfold mbind. intros A C m k s x s' H. destruct (m s) as [[a s1]|]; [eauto|discriminate]. Qed.

(* mk_singleton_class allocates exactly one class, whose id is the old table size *)
Lemma mk_singleton_class_allocates_one : forall n s a s', mk_singleton_class n s = Ok (a, s') ->
  aid a = N.of_nat (lu s) /\ lc s' = S (lc s) /\ (eg_wf s -> lu s' = S (lu s)).
Proof.
  unfold mk_singleton_class. intros n s a s' H.
  apply mbind_inv in H. destruct H as (f2o & s1 & H1 & H). apply with_ctr_spec in H1.
  apply mbind_inv in H. destruct H as (syn & s2 & H2 & H). apply with_ctr_spec in H2.
  apply mbind_inv in H. destruct H as (i & s3 & H3 & H). apply alloc_eclass_spec in H3.
  apply mbind_inv in H. destruct H as (t & s4 & H4 & H). apply (pres_lift keep keep_refl) in H4.
  apply mbind_inv in H. destruct H as (u5 & s5 & H5 & H). apply (core_raw_add_to_class _ keep_core) in H5.
  apply mbind_inv in H. destruct H as (u6 & s6 & H6 & H). inversion H6; subst s6; clear H6.
  apply mbind_inv in H. destruct H as (u7 & s7 & K7 & H). apply (core_rebuild _ keep_core) in K7.
  inversion H; subst; clear H. cbn [aid].
  unfold keep, eg_wf in *. cbn [classes unionfind set_pending set_ctr] in *.
  destruct H3 as (Hi & A3 & B3 & _), H4 as (A4 & B4), H5 as (A5 & B5), K7 as (A7 & B7).
  split; [auto|]. split; [lia|]. intros W. lia.
Qed.

Lemma semify_app_id_aid : forall s a b, semify_app_id s a = Ok b -> aid b = aid a.
Proof.
  unfold semify_app_id. intros s a b H. destruct (class_slots s (aid a)); cbn in H; inversion H. reflexivity.
Qed.

Theorem add_internal_allocates_one : forall t s a s',
  lookup_internal s t = Ok None -> add_internal t s = Ok (a, s') ->
  lc s' = S (lc s) /\ (eg_wf s -> lu s' = S (lu s) /\ aid a = N.of_nat (lu s)).
Proof.
  intros t s a s' Hlk H. unfold add_internal in H.
  apply mbind_inv in H. destruct H as (lk & s0 & H0 & H).
  unfold reads in H0. rewrite Hlk in H0. inversion H0; subst lk s0; clear H0.
  apply mbind_inv in H. destruct H as (en1 & s1 & H1 & H). apply (refresh_step_spec (fst t)) in H1.
  apply mbind_inv in H. destruct H as (en2 & s2 & H2 & H). apply (pres_lift keep keep_refl) in H2.
  apply mbind_inv in H. destruct H as (en3 & s3 & H3 & H). apply (core_synify_enode _ keep_core) in H3.
  apply mbind_inv in H. destruct H as (syn & s4 & H4 & H). apply mk_singleton_class_allocates_one in H4.
  unfold reads in H. destruct (semify_app_id s4 syn) eqn:E; inversion H; subst; clear H.
  apply semify_app_id_aid in E.
  unfold keep, eg_wf in *. cbn [classes unionfind set_ctr] in *.
  destruct H2 as (A2 & B2), H3 as (A3 & B3), H4 as (Hi & A4 & B4).
  split; [lia|]. intros W. split; [lia|]. rewrite E, Hi. f_equal. lia.
Qed.

(* ------------------------------------------------------------------ *)
(* 2. insertion agrees with lookup *)

Theorem add_internal_known : forall s t a,
  lookup_internal s t = Ok (Some a) -> add_internal t s = Ok (a, s).
Proof. intros s t a H. unfold add_internal, mbind, reads. rewrite H. reflexivity. Qed.

Theorem eg_add_known : forall s n a,
  eg_lookup s n = Ok (Some a) -> eg_add n s = Ok (a, s).
Proof.
  intros s n a H. unfold eg_lookup in H. unfold eg_add, mbind at 1, reads at 1.
  destruct (shape s n) as [t|]; cbn in H; [|discriminate].
  apply add_internal_known; assumption.
Qed.

(* a known node allocates nothing *)
Corollary eg_add_known_no_alloc : forall s n a x s',
  eg_lookup s n = Ok (Some a) -> eg_add n s = Ok (x, s') -> x = a /\ s' = s.
Proof. intros s n a x s' H E. rewrite (eg_add_known _ _ _ H) in E. inversion E; auto. Qed.

(* ------------------------------------------------------------------ *)
(* 3. the fresh-slot counter: every consumer advances it by a multiple of 4 *)

Definition ctr_step (c c' : N) : Prop := exists k, c' = c + 4 * k.

Lemma ctr_step_refl : forall c, ctr_step c c.
Proof. intros c. exists 0. lia. Qed.
Lemma ctr_step_trans : forall a b c, ctr_step a b -> ctr_step b c -> ctr_step a c.
Proof. intros a b c [k ->] [k' ->]. exists (k + k'). lia. Qed.
Lemma ctr_step_4 : forall c, ctr_step c (c + 4).
Proof. intros c. exists 1. lia. Qed.
Lemma ctr_step_le : forall c c', ctr_step c c' -> c <= c'.
Proof. intros c c' [k ->]. lia. Qed.
Lemma ctr_step_mod : forall c c', ctr_step c c' -> c' mod 4 = c mod 4.
Proof. intros c c' [k ->]. lia. Qed.

Lemma compose_fresh_go_step : forall a b c out, ctr_step c (snd (compose_fresh_go a b c out)).
Proof.
  induction a as [|[x y] t IH]; intros b c out; cbn [compose_fresh_go]; [apply ctr_step_refl|].
  destruct (get b y); [apply IH|].
  eapply ctr_step_trans; [apply ctr_step_4 | apply IH].
Qed.
Lemma compose_fresh_step : forall a b c, ctr_step c (snd (compose_fresh a b c)).
Proof. intros; apply compose_fresh_go_step. Qed.

Lemma bff_go_step : forall s c out, ctr_step c (snd (bff_go s c out)).
Proof.
  induction s as [|x t IH]; intros c out; cbn [bff_go]; [apply ctr_step_refl|].
  eapply ctr_step_trans; [apply ctr_step_4 | apply IH].
Qed.
Lemma bijection_from_fresh_to_step : forall s c, ctr_step c (snd (bijection_from_fresh_to s c)).
Proof. intros; apply bff_go_step. Qed.

Section TravInv.
  Context {S : Type} (f : bool -> slot -> S -> slot * S) (P : S -> S -> Prop).
  Hypothesis P_refl : forall a, P a a.
  Hypothesis P_trans : forall a b c, P a b -> P b c -> P a c.
  Hypothesis Hf : forall b s st, P st (snd (f b s st)).

  Lemma trav_vals_inv : forall bound m st, P st (snd (trav_vals f bound m st)).
  Proof.
    induction m as [|[k v] t IH]; intros st; cbn [trav_vals]; [apply P_refl|].
    pose proof (Hf (negb (existsb (N.eqb v) bound)) v st) as H1.
    destruct (f _ v st) as [v' st1]. pose proof (IH st1) as H2.
    destruct (trav_vals f bound t st1) as [t' st2]. cbn in *. eauto.
  Qed.
  Lemma trav_f_inv : forall a bound st, P st (snd (trav_f f bound a st)).
  Proof.
    induction a as [s|x|s b IH|p]; intros bound st; cbn [trav_f].
    - pose proof (Hf (negb (existsb (N.eqb s) bound)) s st) as H1.
      destruct (f _ s st) as [s' st1]. exact H1.
    - pose proof (trav_vals_inv bound (am x) st) as H1.
      destruct (trav_vals f bound (am x) st) as [m' st1]. exact H1.
    - pose proof (Hf false s st) as H1. destruct (f false s st) as [s' st1].
      pose proof (IH (s :: bound) st1) as H2. destruct (trav_f f (s :: bound) b st1) as [b' st2].
      cbn in *. eauto.
    - apply P_refl.
  Qed.
  Lemma trav_args_inv : forall l st, P st (snd (trav_args f l st)).
  Proof.
    induction l as [|a t IH]; intros st; cbn [trav_args]; [apply P_refl|].
    pose proof (trav_f_inv a [] st) as H1. destruct (trav_f f [] a st) as [a' st1].
    pose proof (IH st1) as H2. destruct (trav_args f t st1) as [t' st2]. cbn in *. eauto.
  Qed.
  Lemma trav_inv : forall n st, P st (snd (trav f n st)).
  Proof.
    intros n st. unfold trav. pose proof (trav_args_inv (nargs n) st) as H1.
    destruct (trav_args f (nargs n) st) as [l st']. exact H1.
  Qed.
End TravInv.

Lemma apply_slotmap_fresh_step : forall lg m n c, ctr_step c (snd (apply_slotmap_fresh lg m n c)).
Proof.
  intros lg m n c. unfold apply_slotmap_fresh.
  match goal with |- context [trav ?f n (m, c)] =>
    pose proof (trav_inv f (fun a b : slotmap * N => ctr_step (snd a) (snd b))
                  (fun a => ctr_step_refl (snd a))
                  (fun a b c => ctr_step_trans (snd a) (snd b) (snd c))) as H;
    destruct (trav f n (m, c)) as [n' [m' c']] eqn:E
  end.
  cbn [snd]. specialize (H ltac:(
    intros b s st; destruct b; [destruct (get (fst st) s)|]; cbn [snd];
    try apply ctr_step_refl; apply ctr_step_4) n (m, c)).
  rewrite E in H. exact H.
Qed.

Lemma refresh_by_step : forall sel set n c, ctr_step c (snd (refresh_by sel set n c)).
Proof.
  intros sel set n c. unfold refresh_by.
  pose proof (bijection_from_fresh_to_step set c) as H.
  destruct (bijection_from_fresh_to set c) as [bf c']. exact H.
Qed.
Lemma refresh_private_step : forall n c, ctr_step c (snd (refresh_private n c)).
Proof. intros; apply refresh_by_step. Qed.

Definition ctr_rel (s s' : egraph) : Prop := ctr_step (ctr s) (ctr s').

Lemma ctr_core : core_ok ctr_rel.
Proof.
  unfold ctr_rel. constructor.
  - intros; apply ctr_step_refl.
  - intros a b c; apply ctr_step_trans.
  - intros; apply ctr_step_refl.
  - intros; apply ctr_step_refl.
  - intros; apply ctr_step_refl.
  - intros i p s s' E _. apply unionfind_set_spec in E. destruct E as (_ & -> & _). apply ctr_step_refl.
  - intros s x s' E. inversion E; cbn. apply ctr_step_4.
  - intros a b s x s' E. apply with_ctr_spec in E. subst. cbn. apply compose_fresh_step.
  - intros lg m n s x s' E. apply with_ctr_spec in E. subst. cbn. apply apply_slotmap_fresh_step.
Qed.
Lemma ctr_alloc : alloc_ok ctr_rel.
Proof.
  unfold ctr_rel. constructor.
  - intros l s x s' E. apply with_ctr_spec in E. subst. cbn. apply bijection_from_fresh_to_step.
  - intros n s x s' E. apply refresh_step_spec in E. subst. cbn. apply refresh_private_step.
  - intros sl syn s i s' E. apply alloc_eclass_spec in E. destruct E as (_ & _ & _ & ->). apply ctr_step_refl.
Qed.

Theorem add_expr_ctr : forall t s a s', add_expr t s = Ok (a, s') -> exists k, ctr s' = ctr s + 4 * k.
Proof. intros t s a s' H. exact (core_add_expr _ ctr_core ctr_alloc _ _ _ _ H). Qed.
Theorem eg_add_ctr : forall n s a s', eg_add n s = Ok (a, s') -> exists k, ctr s' = ctr s + 4 * k.
Proof. intros n s a s' H. exact (core_eg_add _ ctr_core ctr_alloc _ _ _ _ H). Qed.
Theorem eg_union_ctr : forall l r s b s', eg_union l r s = Ok (b, s') -> exists k, ctr s' = ctr s + 4 * k.
Proof. intros l r s b s' H. exact (core_eg_union _ ctr_core _ _ _ _ _ H). Qed.

Theorem ctr_grows : forall s s',
  (exists t a, add_expr t s = Ok (a, s')) \/ (exists l r b, eg_union l r s = Ok (b, s')) ->
  ctr s <= ctr s' /\ (ctr s mod 4 = 1 -> ctr s' mod 4 = 1).
Proof.
  intros s s' H.
  assert (K : ctr_step (ctr s) (ctr s')).
  { destruct H as [(t & a & H)|(l & r & b & H)]; [eapply add_expr_ctr | eapply eg_union_ctr]; eauto. }
  split; [apply ctr_step_le; auto|]. intros E. rewrite (ctr_step_mod _ _ K). exact E.
Qed.

Corollary add_expr_ctr_grows : forall t s a s', add_expr t s = Ok (a, s') ->
  ctr s <= ctr s' /\ (ctr s mod 4 = 1 -> ctr s' mod 4 = 1).
Proof. intros t s a s' H. apply ctr_grows. left; eauto. Qed.
Corollary eg_union_ctr_grows : forall l r s b s', eg_union l r s = Ok (b, s') ->
  ctr s <= ctr s' /\ (ctr s mod 4 = 1 -> ctr s' mod 4 = 1).
Proof. intros l r s b s' H. apply ctr_grows. right; eauto. Qed.

(* ------------------------------------------------------------------ *)
Print Assumptions add_expr_mono.
Print Assumptions eg_add_mono.
Print Assumptions eg_union_mono.
Print Assumptions rebuild_mono.
Print Assumptions union_internal_mono.
Print Assumptions eg_wf_add_expr.
Print Assumptions eg_wf_eg_union.
Print Assumptions eg_union_no_alloc.
Print Assumptions rebuild_no_alloc.
Print Assumptions union_internal_no_alloc.
Print Assumptions add_internal_allocates_one.
Print Assumptions add_internal_known.
Print Assumptions eg_add_known.
Print Assumptions ctr_grows.
