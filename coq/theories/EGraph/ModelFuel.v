(* EGraph/ModelFuel.v — the FUEL-PARAMETRIC e-graph model (C08, termination half).

   EGraph/Model.v runs its three unbounded loops on CONSTANT fuel (`uint = union_internal 400`, `hp_loop 100`,
   `rebuild 2000`); these constants are exceeded by reachable runs (NoErrorFuelHp.v / NoErrorLimits.v).  Here the
   few top-level definitions of Model.v that mention the constants are copied with a parameter `ph : fuels`
   (three numbers: recursion depth of union_internal, rounds of the hp_loop, rounds of rebuild):

     uint_f, handle_shrink_f, handle_congruence_f, determine_self_symmetries_f, hp_loop_f, handle_pending_f, rebuild_f,
     mk_singleton_class_f, add_internal_f, eg_add_f, add_expr_f, eg_union_f, run_ops_f.

   Everything else (shrink_slots, move_to, union_leaders, union_internal, ...) is Model.v's.

   Proved (closed):
   - `*_model`      : at `model_fuels` (400, 100, 2000) the parametric functions ARE Model.v's (pointwise equal).
   - `fle_*_f`      : monotone in the fuels (order `fle` of NoErrorFuel.v: at least as defined).
   - `run_ops_f_agrees`      : run_ops terms ops hs s = Ok r -> fuels_le model_fuels ph -> run_ops_f ph terms ops hs s = Ok r.
   - `run_ops_f_mono`, `run_ops_f_indep` (two successful fuel assignments give the same result), `run_ops_f_err`
     (a non-fuel error is kept by all larger fuels).
   Definitions and fuel algebra only; no invariant is used. *)
From SE Require Import EGraph.Model EGraph.ModelMachine EGraph.ModelFacts EGraph.PendingFacts
  EGraph.InvariantFacts EGraph.NoErrorBase EGraph.NoErrorFuel.
Require Import ZArith Lia List.
Import ListNotations.

Record fuels := { f_ui : nat; f_hp : nat; f_rb : nat }.

Definition model_fuels : fuels := {| f_ui := ui_fuel; f_hp := 100; f_rb := rebuild_fuel |}.
Definition fuel1 (k : nat) : fuels := {| f_ui := k; f_hp := k; f_rb := k |}.
Definition fuels_le (a b : fuels) : Prop := (f_ui a <= f_ui b /\ f_hp a <= f_hp b /\ f_rb a <= f_rb b)%nat.
Definition fuels_max (a b : fuels) : fuels :=
  {| f_ui := Nat.max (f_ui a) (f_ui b); f_hp := Nat.max (f_hp a) (f_hp b); f_rb := Nat.max (f_rb a) (f_rb b) |}.

Lemma fuels_le_refl : forall a, fuels_le a a.
Proof. intros a. unfold fuels_le. lia. Qed.
Lemma fuels_le_trans : forall a b c, fuels_le a b -> fuels_le b c -> fuels_le a c.
Proof. unfold fuels_le. intros a b c H1 H2. lia. Qed.
Lemma fuels_max_l : forall a b, fuels_le a (fuels_max a b).
Proof. intros a b. unfold fuels_le, fuels_max. cbn [f_ui f_hp f_rb]. lia. Qed.
Lemma fuels_max_r : forall a b, fuels_le b (fuels_max a b).
Proof. intros a b. unfold fuels_le, fuels_max. cbn [f_ui f_hp f_rb]. lia. Qed.
Lemma fuels_le_fuel1 : forall a, fuels_le a (fuel1 (Nat.max (f_ui a) (Nat.max (f_hp a) (f_rb a)))).
Proof. intros a. unfold fuels_le, fuel1. cbn [f_ui f_hp f_rb]. lia. Qed.

(* ------------------------------------------------------------------ *)
(* 1. the parametric definitions (copies of Model.v 517-671 and ModelMachine.run_ops) *)

Section Fuelled.
  Variable ph : fuels.

  Definition uint_f : appid -> appid -> M bool := union_internal (f_ui ph).

  Definition handle_shrink_f (src_id : N) : M unit :=
    dom pc1 <- reads (fun s => pc_from_src_id s src_id);
    dom n2 <- reads (fun s => find_enode s (fst pc1));
    dom ab <- pc_congruence pc1 (n2, snd pc1);
    let '(a, b) := ab in
    let cap := sset_inter (values (am a)) (values (am b)) in
    shrink_slots uint_f a cap.

  Definition handle_congruence_f (pc1 : pcont) : M unit :=
    dom sh <- reads (fun s => shape s (fst pc1));
    dom pc2 <- reads (fun s => pc_from_shape s (fst sh));
    dom ab <- pc_congruence pc1 pc2;
    dom _ <- uint_f (fst ab) (snd ab);
    ret tt.

  Definition determine_self_symmetries_f (src_id : N) : M unit :=
    dom pc1 <- reads (fun s => pc_from_src_id s src_id);
    dom w <- Model.lift (wshape (fst pc1));
    let weak := fst w in
    dom vs <- reads (fun s => variants s (fst pc1));
    iterM (fun pn2 =>
             dom w2 <- Model.lift (wshape pn2);
             if node_eqb weak (fst w2) then
               dom ab <- pc_congruence pc1 (pn2, snd pc1);
               dom _ <- uint_f (fst ab) (snd ab);
               ret tt
             else ret tt) vs.

  Fixpoint hp_loop_f (fuel : nat) (src_id : N) (enode : node) (i : appid) : M (node * appid) :=
    match fuel with
    | O => fail OutOfFuel
    | S f =>
        if sset_subset (values (am i)) (slots enode) then ret (enode, i)
        else
          dom _ <- handle_shrink_f src_id;
          dom enode' <- reads (fun s => find_enode s enode);
          dom i' <- reads (fun s => find_applied_id s i);
          hp_loop_f f src_id enode' i'
    end.

  Definition fill_fresh : list slot -> slotmap -> M slotmap :=
    fix go (l : list slot) (m : slotmap) : M slotmap :=
      match l with
      | [] => ret m
      | x :: r => if contains_key m x then go r m
                  else dom f <- fresh; go r (insert x f m)
      end.

  Definition handle_pending_f (sh : node) (ty : bool) : M unit :=
    dom i <- reads (fun s => match na_get (hashcons s) sh with Some i => Ok i | None => Err UnwrapNone end);
    if negb ty then ret tt else
    dom c <- reads (fun s => get_class s i);
    dom psn <- Model.lift (match na_get (c_nodes c) sh with Some p => Ok p | None => Err UnwrapNone end);
    let '(bij0, src_id) := psn in
    dom nd <- Model.lift (apply_slotmap false bij0 sh);
    dom _ <- raw_remove_from_class i sh;
    dom sl <- reads (fun s => class_slots s i);
    let app_i := {| aid := i; am := identity sl |} in
    dom enode <- reads (fun s => find_enode s nd);
    dom i1 <- reads (fun s => find_applied_id s app_i);
    dom ei <- hp_loop_f (f_hp ph) src_id enode i1;
    let '(enode, i1) := ei in
    dom t <- reads (fun s => shape s enode);
    dom lk <- reads (fun s => lookup_internal s t);
    match lk with
    | Some _ =>
        dom pc <- reads (fun s => pc_from_src_id s src_id);
        handle_congruence_f pc
    | None =>
        let '(sh', bij) := t in
        dom m <- fill_fresh (values bij) (inverse_nocheck (am i1));
        let bij' := compose_partial bij m in
        dom _ <- raw_add_to_class (aid i1) (sh', bij') src_id;
        determine_self_symmetries_f src_id
    end.

  Fixpoint rebuild_f (fuel : nat) : M unit :=
    match fuel with
    | O => fail OutOfFuel
    | S f =>
        dom p <- gets pending;
        match p with
        | [] => ret tt
        | (sh, ty) :: rest =>
            dom _ <- modify (fun s => set_pending s rest);
            dom _ <- handle_pending_f sh ty;
            rebuild_f f
        end
    end.

  Definition mk_singleton_class_f (syn_enode : node) : M appid :=
    let old_slots := slots syn_enode in
    dom fresh_to_old <- with_ctr (bijection_from_fresh_to old_slots);
    let old_to_fresh := inverse_nocheck fresh_to_old in
    let fresh_slots := values old_to_fresh in
    dom syn_fresh <- with_ctr (apply_slotmap_fresh false old_to_fresh syn_enode);
    dom i <- alloc_eclass fresh_slots syn_fresh;
    dom t <- Model.lift (wshape syn_fresh);
    dom _ <- raw_add_to_class i t i;
    dom _ <- pending_insert (fst t) true;
    dom _ <- rebuild_f (f_rb ph);
    ret {| aid := i; am := fresh_to_old |}.

  Definition add_internal_f (t : node * slotmap) : M appid :=
    dom lk <- reads (fun s => lookup_internal s t);
    match lk with
    | Some x => ret x
    | None =>
        dom en <- (fun s => let '(r, c) := refresh_private (fst t) (Model.ctr s) in
                            match r with Ok n => Ok (n, set_ctr s c) | Err e => Err e end);
        dom en <- Model.lift (apply_slotmap false (snd t) en);
        dom en <- synify_enode en;
        dom syn <- mk_singleton_class_f en;
        reads (fun s => semify_app_id s syn)
    end.

  Definition eg_add_f (n : node) : M appid :=
    dom t <- reads (fun s => shape s n);
    add_internal_f t.

  Fixpoint add_expr_f (t : rterm) : M appid :=
    match t with
    | RT n ch =>
        dom l <- (fix go (l : list rterm) : M (list appid) :=
                    match l with
                    | [] => ret []
                    | c :: r => dom a <- add_expr_f c; dom r' <- go r; ret (a :: r')
                    end) ch;
        if Nat.ltb (List.length (app_occ n)) (List.length l) then fail OutOfBounds
        else eg_add_f (set_apps n l)
    end.

  Definition eg_union_f (l r : appid) : M bool :=
    dom _ <- synify_app_id l;
    dom _ <- synify_app_id r;
    dom out <- uint_f l r;
    dom _ <- rebuild_f (f_rb ph);
    ret out.

  Fixpoint run_ops_f (terms : list rterm) (ops : list hop) (handles : list appid) : M (list appid) :=
    match ops with
    | [] => ret handles
    | HAdd k :: t =>
        match nth_opt terms k with
        | None => fail OutOfBounds
        | Some tm => dom a <- add_expr_f tm; run_ops_f terms t (handles ++ [a])
        end
    | HUnion i j _ :: t =>
        match nth_opt handles i, nth_opt handles j with
        | Some a, Some b => dom _ <- eg_union_f a b; run_ops_f terms t handles
        | _, _ => fail OutOfBounds
        end
    end.
End Fuelled.

Lemma hp_loop_f_S : forall ph f src enode i, hp_loop_f ph (S f) src enode i =
  (if sset_subset (values (am i)) (slots enode) then ret (enode, i)
   else dom _ <- handle_shrink_f ph src;
        dom enode' <- reads (fun s => find_enode s enode);
        dom i' <- reads (fun s => find_applied_id s i);
        hp_loop_f ph f src enode' i').
Proof. reflexivity. Qed.

Lemma rebuild_f_S : forall ph f, rebuild_f ph (S f) =
  (dom p <- gets pending;
   match p with
   | [] => ret tt
   | (sh, ty) :: rest =>
       dom _ <- modify (fun s => set_pending s rest);
       dom _ <- handle_pending_f ph sh ty;
       rebuild_f ph f
   end).
Proof. reflexivity. Qed.

(* ------------------------------------------------------------------ *)
(* 2. pointwise equality of actions, congruence *)

Definition feq {A} (m m' : M A) : Prop := forall s, m s = m' s.

Lemma feq_refl : forall A (m : M A), feq m m.
Proof. intros A m s. reflexivity. Qed.

Lemma feq_bind : forall A C (m m' : M A) (k k' : A -> M C),
  feq m m' -> (forall a, feq (k a) (k' a)) -> feq (mbind m k) (mbind m' k').
Proof.
  intros A C m m' k k' Hm Hk s. unfold mbind. rewrite (Hm s). destruct (m' s) as [[a s1]|e]; [apply Hk|reflexivity].
Qed.

Lemma feq_iterM : forall A (f f' : A -> M unit) l, (forall x, feq (f x) (f' x)) -> feq (iterM f l) (iterM f' l).
Proof.
  intros A f f' l H. induction l as [|x t IH]; cbn [iterM]; [apply feq_refl|].
  apply feq_bind; [apply H|]. intros _. exact IH.
Qed.

Lemma feq_fle : forall A (m m' : M A), feq m m' -> fle m m'.
Proof. intros A m m' H s. right. symmetry. apply H. Qed.

(* ------------------------------------------------------------------ *)
(* 3. at the constants of Model.v the parametric model is Model.v *)

Lemma uint_model : uint_f model_fuels = uint.
Proof. reflexivity. Qed.

Lemma handle_shrink_model : forall src, handle_shrink_f model_fuels src = handle_shrink_in_upwards_merge src.
Proof. reflexivity. Qed.

Lemma handle_congruence_model : forall pc, handle_congruence_f model_fuels pc = handle_congruence pc.
Proof. reflexivity. Qed.

Lemma determine_self_symmetries_model : forall src, determine_self_symmetries_f model_fuels src = determine_self_symmetries src.
Proof. reflexivity. Qed.

Lemma hp_loop_model : forall f src en i, feq (hp_loop_f model_fuels f src en i) (hp_loop f src en i).
Proof.
  induction f as [|f IH]; intros src en i; [apply feq_refl|].
  rewrite hp_loop_f_S. cbn [hp_loop]. destruct (sset_subset (values (am i)) (slots en)); [apply feq_refl|].
  rewrite handle_shrink_model.
  apply feq_bind; [apply feq_refl|]. intros _.
  apply feq_bind; [apply feq_refl|]. intros en'.
  apply feq_bind; [apply feq_refl|]. intros i'. apply IH.
Qed.

Lemma handle_pending_model : forall sh ty, feq (handle_pending_f model_fuels sh ty) (handle_pending sh ty).
Proof.
  intros sh ty. unfold handle_pending_f, handle_pending.
  apply feq_bind; [apply feq_refl|]. intros i. destruct (negb ty); [apply feq_refl|].
  apply feq_bind; [apply feq_refl|]. intros c.
  apply feq_bind; [apply feq_refl|]. intros [bij0 src].
  apply feq_bind; [apply feq_refl|]. intros nd.
  apply feq_bind; [apply feq_refl|]. intros _.
  apply feq_bind; [apply feq_refl|]. intros sl. cbv zeta.
  apply feq_bind; [apply feq_refl|]. intros en.
  apply feq_bind; [apply feq_refl|]. intros i1.
  apply feq_bind; [apply hp_loop_model|]. intros [en1 i2].
  apply feq_refl.
Qed.

Lemma rebuild_model : forall f, feq (rebuild_f model_fuels f) (rebuild f).
Proof.
  induction f as [|f IH]; [apply feq_refl|]. rewrite rebuild_f_S, rebuild_step.
  apply feq_bind; [apply feq_refl|]. intros p. destruct p as [|[sh ty] rest]; [apply feq_refl|].
  apply feq_bind; [apply feq_refl|]. intros _.
  apply feq_bind; [apply handle_pending_model|]. intros _. exact IH.
Qed.

Lemma mk_singleton_model : forall en, feq (mk_singleton_class_f model_fuels en) (mk_singleton_class en).
Proof.
  intros en. unfold mk_singleton_class_f, mk_singleton_class. cbv zeta.
  apply feq_bind; [apply feq_refl|]. intros f2o.
  apply feq_bind; [apply feq_refl|]. intros syn.
  apply feq_bind; [apply feq_refl|]. intros i.
  apply feq_bind; [apply feq_refl|]. intros t.
  apply feq_bind; [apply feq_refl|]. intros _.
  apply feq_bind; [apply feq_refl|]. intros _.
  apply feq_bind; [exact (rebuild_model rebuild_fuel)|]. intros _. apply feq_refl.
Qed.

Lemma add_internal_model : forall t, feq (add_internal_f model_fuels t) (add_internal t).
Proof.
  intros t. unfold add_internal_f, add_internal.
  apply feq_bind; [apply feq_refl|]. intros lk. destruct lk as [x|]; [apply feq_refl|].
  apply feq_bind; [apply feq_refl|]. intros en1.
  apply feq_bind; [apply feq_refl|]. intros en2.
  apply feq_bind; [apply feq_refl|]. intros en3.
  apply feq_bind; [apply mk_singleton_model|]. intros syn. apply feq_refl.
Qed.

Lemma eg_add_model : forall n, feq (eg_add_f model_fuels n) (eg_add n).
Proof. intros n. unfold eg_add_f, eg_add. apply feq_bind; [apply feq_refl|]. intros t. apply add_internal_model. Qed.

Lemma add_expr_model : forall t, feq (add_expr_f model_fuels t) (add_expr t).
Proof.
  fix IH 1. intros [n ch]. cbn [add_expr_f add_expr]. apply feq_bind.
  - induction ch as [|c r IHr]; [apply feq_refl|].
    apply feq_bind; [apply IH|]. intros a. apply feq_bind; [apply IHr|]. intros; apply feq_refl.
  - intros l. destruct (Nat.ltb _ _); [apply feq_refl | apply eg_add_model].
Qed.

Lemma eg_union_model : forall l r, feq (eg_union_f model_fuels l r) (eg_union l r).
Proof.
  intros l r. unfold eg_union_f, eg_union.
  apply feq_bind; [apply feq_refl|]. intros _.
  apply feq_bind; [apply feq_refl|]. intros _.
  apply feq_bind; [apply feq_refl|]. intros out.
  apply feq_bind; [exact (rebuild_model rebuild_fuel)|]. intros _. apply feq_refl.
Qed.

Theorem run_ops_model : forall terms ops hs, feq (run_ops_f model_fuels terms ops hs) (run_ops terms ops hs).
Proof.
  intros terms. induction ops as [|[k|i j o] t IH]; intros hs; cbn [run_ops_f run_ops]; [apply feq_refl| |].
  - destruct (nth_opt terms k) as [tm|]; [|apply feq_refl].
    apply feq_bind; [apply add_expr_model|]. intros a. apply IH.
  - destruct (nth_opt hs i) as [a|]; [|apply feq_refl]. destruct (nth_opt hs j) as [b|]; [|apply feq_refl].
    apply feq_bind; [apply eg_union_model|]. intros _. apply IH.
Qed.

(* ------------------------------------------------------------------ *)
(* 4. monotone in the fuels *)

Section Mono.
  Variables ph ph' : fuels.
  Hypothesis Hle : fuels_le ph ph'.

  Lemma fle_uint_f : forall l r, fle (uint_f ph l r) (uint_f ph' l r).
  Proof. intros l r. unfold uint_f. apply fle_union_internal. destruct Hle as (H & _). exact H. Qed.

  Lemma fle_handle_shrink_f : forall src, fle (handle_shrink_f ph src) (handle_shrink_f ph' src).
  Proof.
    intros src. unfold handle_shrink_f.
    apply fle_bind; [apply fle_refl|]. intros pc1.
    apply fle_bind; [apply fle_refl|]. intros n2.
    apply fle_bind; [apply fle_refl|]. intros [a b]. cbv zeta.
    apply fle_shrink_slots. exact fle_uint_f.
  Qed.

  Lemma fle_handle_congruence_f : forall pc, fle (handle_congruence_f ph pc) (handle_congruence_f ph' pc).
  Proof.
    intros pc. unfold handle_congruence_f.
    apply fle_bind; [apply fle_refl|]. intros sh.
    apply fle_bind; [apply fle_refl|]. intros pc2.
    apply fle_bind; [apply fle_refl|]. intros ab.
    apply fle_bind; [apply fle_uint_f|]. intros _. apply fle_refl.
  Qed.

  Lemma fle_determine_self_symmetries_f : forall src,
    fle (determine_self_symmetries_f ph src) (determine_self_symmetries_f ph' src).
  Proof.
    intros src. unfold determine_self_symmetries_f.
    apply fle_bind; [apply fle_refl|]. intros pc1.
    apply fle_bind; [apply fle_refl|]. intros w. cbv zeta.
    apply fle_bind; [apply fle_refl|]. intros vs.
    apply fle_iterM. intros pn2.
    apply fle_bind; [apply fle_refl|]. intros w2. destruct (node_eqb (fst w) (fst w2)); [|apply fle_refl].
    apply fle_bind; [apply fle_refl|]. intros ab.
    apply fle_bind; [apply fle_uint_f|]. intros _. apply fle_refl.
  Qed.

  Lemma fle_hp_loop_f : forall f f', (f <= f')%nat -> forall src en i, fle (hp_loop_f ph f src en i) (hp_loop_f ph' f' src en i).
  Proof.
    induction f as [|f IH]; intros f' L src en i.
    - cbn [hp_loop_f]. apply fle_fail_fuel.
    - destruct f' as [|f']; [lia|]. rewrite !hp_loop_f_S.
      destruct (sset_subset (values (am i)) (slots en)); [apply fle_refl|].
      apply fle_bind; [apply fle_handle_shrink_f|]. intros _.
      apply fle_bind; [apply fle_refl|]. intros en'.
      apply fle_bind; [apply fle_refl|]. intros i'. apply IH. lia.
  Qed.

  Lemma fle_handle_pending_f : forall sh ty, fle (handle_pending_f ph sh ty) (handle_pending_f ph' sh ty).
  Proof.
    intros sh ty. unfold handle_pending_f.
    apply fle_bind; [apply fle_refl|]. intros i. destruct (negb ty); [apply fle_refl|].
    apply fle_bind; [apply fle_refl|]. intros c.
    apply fle_bind; [apply fle_refl|]. intros [bij0 src].
    apply fle_bind; [apply fle_refl|]. intros nd.
    apply fle_bind; [apply fle_refl|]. intros _.
    apply fle_bind; [apply fle_refl|]. intros sl. cbv zeta.
    apply fle_bind; [apply fle_refl|]. intros en.
    apply fle_bind; [apply fle_refl|]. intros i1.
    apply fle_bind; [apply fle_hp_loop_f; destruct Hle as (_ & H & _); exact H|]. intros [en1 i2].
    apply fle_bind; [apply fle_refl|]. intros t.
    apply fle_bind; [apply fle_refl|]. intros lk. destruct lk as [x|].
    - apply fle_bind; [apply fle_refl|]. intros pc. apply fle_handle_congruence_f.
    - destruct t as [sh' bij].
      apply fle_bind; [apply fle_refl|]. intros m. cbv zeta.
      apply fle_bind; [apply fle_refl|]. intros _. apply fle_determine_self_symmetries_f.
  Qed.

  Lemma fle_rebuild_f : forall f f', (f <= f')%nat -> fle (rebuild_f ph f) (rebuild_f ph' f').
  Proof.
    induction f as [|f IH]; intros f' L.
    - cbn [rebuild_f]. apply fle_fail_fuel.
    - destruct f' as [|f']; [lia|]. rewrite !rebuild_f_S.
      apply fle_bind; [apply fle_refl|]. intros p. destruct p as [|[sh ty] rest]; [apply fle_refl|].
      apply fle_bind; [apply fle_refl|]. intros _.
      apply fle_bind; [apply fle_handle_pending_f|]. intros _. apply IH. lia.
  Qed.

  Lemma fle_rebuild_f_top : fle (rebuild_f ph (f_rb ph)) (rebuild_f ph' (f_rb ph')).
  Proof. apply fle_rebuild_f. destruct Hle as (_ & _ & H). exact H. Qed.

  Lemma fle_mk_singleton_f : forall en, fle (mk_singleton_class_f ph en) (mk_singleton_class_f ph' en).
  Proof.
    intros en. unfold mk_singleton_class_f. cbv zeta.
    apply fle_bind; [apply fle_refl|]. intros f2o.
    apply fle_bind; [apply fle_refl|]. intros syn.
    apply fle_bind; [apply fle_refl|]. intros i.
    apply fle_bind; [apply fle_refl|]. intros t.
    apply fle_bind; [apply fle_refl|]. intros _.
    apply fle_bind; [apply fle_refl|]. intros _.
    apply fle_bind; [apply fle_rebuild_f_top|]. intros _. apply fle_refl.
  Qed.

  Lemma fle_add_internal_f : forall t, fle (add_internal_f ph t) (add_internal_f ph' t).
  Proof.
    intros t. unfold add_internal_f.
    apply fle_bind; [apply fle_refl|]. intros lk. destruct lk as [x|]; [apply fle_refl|].
    apply fle_bind; [apply fle_refl|]. intros en1.
    apply fle_bind; [apply fle_refl|]. intros en2.
    apply fle_bind; [apply fle_refl|]. intros en3.
    apply fle_bind; [apply fle_mk_singleton_f|]. intros syn. apply fle_refl.
  Qed.

  Lemma fle_eg_add_f : forall n, fle (eg_add_f ph n) (eg_add_f ph' n).
  Proof. intros n. unfold eg_add_f. apply fle_bind; [apply fle_refl|]. intros t. apply fle_add_internal_f. Qed.

  Lemma fle_add_expr_f : forall t, fle (add_expr_f ph t) (add_expr_f ph' t).
  Proof.
    fix IH 1. intros [n ch]. cbn [add_expr_f]. apply fle_bind.
    - induction ch as [|c r IHr]; [apply fle_refl|].
      apply fle_bind; [apply IH|]. intros a. apply fle_bind; [apply IHr|]. intros; apply fle_refl.
    - intros l. destruct (Nat.ltb _ _); [apply fle_refl | apply fle_eg_add_f].
  Qed.

  Lemma fle_eg_union_f : forall l r, fle (eg_union_f ph l r) (eg_union_f ph' l r).
  Proof.
    intros l r. unfold eg_union_f.
    apply fle_bind; [apply fle_refl|]. intros _.
    apply fle_bind; [apply fle_refl|]. intros _.
    apply fle_bind; [apply fle_uint_f|]. intros out.
    apply fle_bind; [apply fle_rebuild_f_top|]. intros _. apply fle_refl.
  Qed.

  Theorem fle_run_ops_f : forall terms ops hs, fle (run_ops_f ph terms ops hs) (run_ops_f ph' terms ops hs).
  Proof.
    intros terms. induction ops as [|[k|i j o] t IH]; intros hs; cbn [run_ops_f]; [apply fle_refl| |].
    - destruct (nth_opt terms k) as [tm|]; [|apply fle_refl].
      apply fle_bind; [apply fle_add_expr_f|]. intros a. apply IH.
    - destruct (nth_opt hs i) as [a|]; [|apply fle_refl]. destruct (nth_opt hs j) as [b|]; [|apply fle_refl].
      apply fle_bind; [apply fle_eg_union_f|]. intros _. apply IH.
  Qed.
End Mono.

(* ------------------------------------------------------------------ *)
(* 5. readings *)

Theorem run_ops_f_mono : forall ph ph' terms ops hs s r, fuels_le ph ph' ->
  run_ops_f ph terms ops hs s = Ok r -> run_ops_f ph' terms ops hs s = Ok r.
Proof. intros ph ph' terms ops hs s r L H. eapply fle_ok; [apply fle_run_ops_f; exact L|exact H]. Qed.

Theorem run_ops_f_err : forall ph ph' terms ops hs s e, fuels_le ph ph' -> e <> OutOfFuel ->
  run_ops_f ph terms ops hs s = Err e -> run_ops_f ph' terms ops hs s = Err e.
Proof. intros ph ph' terms ops hs s e L Hne H. eapply fle_err; [apply fle_run_ops_f; exact L|exact H|exact Hne]. Qed.

(* two successful fuel assignments give the same result *)
Theorem run_ops_f_indep : forall ph ph' terms ops hs s r r',
  run_ops_f ph terms ops hs s = Ok r -> run_ops_f ph' terms ops hs s = Ok r' -> r = r'.
Proof.
  intros ph ph' terms ops hs s r r' H H'.
  pose proof (run_ops_f_mono _ _ terms ops hs s r (fuels_max_l ph ph') H) as E.
  pose proof (run_ops_f_mono _ _ terms ops hs s r' (fuels_max_r ph ph') H') as E'.
  rewrite E in E'. injection E' as E'. exact E'.
Qed.

(* the parametric run agrees with Model.v's run whenever the latter succeeds (and whenever it fails with a
   non-fuel error) *)
Theorem run_ops_f_agrees : forall ph terms ops hs s r, fuels_le model_fuels ph ->
  run_ops terms ops hs s = Ok r -> run_ops_f ph terms ops hs s = Ok r.
Proof.
  intros ph terms ops hs s r L H. apply (run_ops_f_mono model_fuels ph); [exact L|].
  rewrite (run_ops_model terms ops hs s). exact H.
Qed.

Theorem run_ops_f_agrees_err : forall ph terms ops hs s e, fuels_le model_fuels ph -> e <> OutOfFuel ->
  run_ops terms ops hs s = Err e -> run_ops_f ph terms ops hs s = Err e.
Proof.
  intros ph terms ops hs s e L Hne H. apply (run_ops_f_err model_fuels ph); [exact L|exact Hne|].
  rewrite (run_ops_model terms ops hs s). exact H.
Qed.

(* conversely: whatever a (possibly larger) fuel assignment computes, Model.v computes the same or runs out of fuel *)
Theorem run_ops_model_or_fuel : forall ph terms ops hs s, fuels_le model_fuels ph ->
  run_ops terms ops hs s = Err OutOfFuel \/ run_ops_f ph terms ops hs s = run_ops terms ops hs s.
Proof.
  intros ph terms ops hs s L. rewrite <- (run_ops_model terms ops hs s).
  exact (fle_run_ops_f model_fuels ph L terms ops hs s).
Qed.

Print Assumptions run_ops_model.
Print Assumptions run_ops_f_mono.
Print Assumptions run_ops_f_indep.
Print Assumptions run_ops_f_agrees.
Print Assumptions run_ops_f_agrees_err.
Print Assumptions run_ops_model_or_fuel.
