(* EGraph/ModelMachine.v — the e-graph model as a correspondence machine: decode a history
   `(egm (cfg c e) (terms T...) (ops OP...) motif)`, run it on EGraph/Model.v, print the
   observation line of /verif/harness/src/eg.rs (`final_obs`). *)
From SE Require Export EGraph.Model Sem.EgMachine.

(* run the ops; handles = results of the `add` ops in order *)
Fixpoint run_ops (terms : list rterm) (ops : list hop) (handles : list appid) : M (list appid) :=
  match ops with
  | [] => ret handles
  | HAdd k :: t =>
      match nth_opt terms k with
      | None => fail OutOfBounds
      | Some tm => dom a <- add_expr tm; run_ops terms t (handles ++ [a])
      end
  | HUnion i j _ :: t =>
      match nth_opt handles i, nth_opt handles j with
      | Some a, Some b => dom _ <- eg_union a b; run_ops terms t handles
      | _, _ => fail OutOfBounds
      end
  end.

(* all permutations of a list (perms_of: only the count of the accepted ones is observed) *)
Fixpoint selects {A} (l : list A) : list (A * list A) :=
  match l with
  | [] => []
  | x :: t => (x, t) :: map (fun p => (fst p, x :: snd p)) (selects t)
  end.
Fixpoint perms_fuel {A} (fuel : nat) (l : list A) : list (list A) :=
  match fuel with
  | O => [[]]
  | S f =>
      match l with
      | [] => [[]]
      | _ => flat_map (fun p => map (cons (fst p)) (perms_fuel f (snd p))) (selects l)
      end
  end.
Definition perms_of_vals (vals : list slot) : list (list slot) :=
  if Nat.leb (List.length vals) 5 then perms_fuel (List.length vals) vals else [vals].

Definition eq_matrix (s : egraph) (hs : list appid) : res (list bool) :=
  mapr (fun p => eg_eq s (fst p) (snd p)) (flat_map (fun a => map (fun b => (a, b)) hs) hs).

Definition obs_handle (s : egraph) (a : appid) : res sexp :=
  do f <- find_applied_id s a;
  let sl := values (am f) in
  let vals := values_vec (am f) in
  do flags <- mapr (fun p => eg_eq s f {| aid := aid f; am := from_iter (combine (keys_vec (am f)) p) |})
                   (perms_of_vals vals);
  do en <- enodes s (aid f);
  Ok (Lst [set_sexp sl; Num (N.of_nat (List.length (filter (fun b => b) flags)));
           Num (N.of_nat (List.length en))]).

Definition final_obs (s : egraph) (hs : list appid) : res sexp :=
  do m <- eq_matrix s hs;
  do per <- mapr (obs_handle s) hs;
  do p <- progress s;
  let '(a, b, c, d) := p in
  Ok (Lst [Sym "obs"; Lst [Sym "res"; Sym "ok"];
           Lst [Sym "eqm"; Num (N.of_nat (List.length hs)); Sym (String "b"%char (bits m))];
           Lst (Sym "handles" :: per);
           Lst [Sym "prog"; Num a; Num b; Num c; Num d];
           Lst [Sym "nodes"; Num (N.of_nat (total_number_of_nodes s))];
           Lst [Sym "check"; Sym "ok"]]).

Definition err_obs (e : site) : sexp :=
  Lst [Sym "obs"; Lst [Sym "res"; Sym "err"; Num 0; Sym "model"; site_sexp e]].

(* case: (egm cfg (terms ...) (ops ...) motif) *)
Definition run_egm (args : list sexp) : sexp :=
  match args with
  | _ :: Lst (Sym "terms" :: ts) :: Lst (Sym "ops" :: os) :: _ =>
      match dec_rterms ts, dec_hops os with
      | Some rts, Some ops =>
          match run_ops rts ops [] empty_egraph with
          | Err e => err_obs e
          | Ok (hs, s) =>
              match final_obs s hs with
              | Ok o => o
              | Err e => err_obs e
              end
          end
      | _, _ => Sym "bad-case"
      end
  | _ => Sym "bad-case"
  end.

(* ---- per-operation observations (C08, C13): after every op the progress measure, the equality
   matrix over the handles obtained so far and the public slots of every handle ---- *)
Definition step_obs (s : egraph) (hs : list appid) : res sexp :=
  do m <- eq_matrix s hs;
  do sl <- mapr (fun a => do f <- find_applied_id s a; Ok (set_sexp (values (am f)))) hs;
  do p <- progress s;
  let '(a, b, c, d) := p in
  Ok (Lst [Sym "st"; Lst [Sym "prog"; Num a; Num b; Num c; Num d];
           Sym (String "b"%char (bits m)); Lst sl;
           Lst [Sym "nodes"; Num (N.of_nat (total_number_of_nodes s))]]).

Fixpoint run_ops_steps (terms : list rterm) (ops : list hop) (handles : list appid) (acc : list sexp) (s : egraph)
  : list sexp :=
  match ops with
  | [] => rev acc
  | o :: t =>
      let r := match o with
               | HAdd k => match nth_opt terms k with
                           | None => Err OutOfBounds
                           | Some tm => match add_expr tm s with Ok (a, s') => Ok (handles ++ [a], s') | Err e => Err e end
                           end
               | HUnion i j _ =>
                   match nth_opt handles i, nth_opt handles j with
                   | Some a, Some b => match eg_union a b s with Ok (_, s') => Ok (handles, s') | Err e => Err e end
                   | _, _ => Err OutOfBounds
                   end
               end in
      match r with
      | Err e => rev (Lst [Sym "err"; site_sexp e] :: acc)
      | Ok (hs', s') =>
          match step_obs s' hs' with
          | Ok ob => run_ops_steps terms t hs' (ob :: acc) s'
          | Err e => rev (Lst [Sym "err"; site_sexp e] :: acc)
          end
      end
  end.

Definition run_egs (args : list sexp) : sexp :=
  match args with
  | _ :: Lst (Sym "terms" :: ts) :: Lst (Sym "ops" :: os) :: _ =>
      match dec_rterms ts, dec_hops os with
      | Some rts, Some ops => Lst (Sym "steps" :: run_ops_steps rts ops [] [] empty_egraph)
      | _, _ => Sym "bad-case"
      end
  | _ => Sym "bad-case"
  end.

(* everything at once for the end-of-history properties: model observation + closure matrix *)
Definition run_egall (args : list sexp) : sexp := Lst [Sym "all"; run_egm args; run_eg 2 8 args].
