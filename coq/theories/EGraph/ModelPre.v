(* EGraph/ModelPre.v — the operations of EGraph/Model.v WITHOUT their final rebuild (definitions only):
     mk_singleton_pre  = mk_singleton_class up to (excluding) `rebuild`
     add_pre t         = the miss branch of add_internal up to (excluding) the rebuild of mk_singleton_class
                         and the final semify_app_id; it returns the syntactic invocation {i, fresh_to_old}
     union_pre l r     = eg_union up to (excluding) `rebuild`
   They are the Model.v counterparts of AnalysisModelTop.add_pre0 and `eg_union .. (ret tt)` of ModelA.v; the
   simulation ModelA -> Model (AnalysisModelSim.v) and the step invariants of Model.v (ModelSteps*.v) meet here. *)
From SE Require Import EGraph.Model.

Definition mk_singleton_pre (syn_enode : node) : M appid :=
  let old_slots := slots syn_enode in
  dom fresh_to_old <- with_ctr (bijection_from_fresh_to old_slots);
  let old_to_fresh := inverse_nocheck fresh_to_old in
  let fresh_slots := values old_to_fresh in
  dom syn_fresh <- with_ctr (apply_slotmap_fresh false old_to_fresh syn_enode);
  dom i <- alloc_eclass fresh_slots syn_fresh;
  dom t <- lift (wshape syn_fresh);
  dom _ <- raw_add_to_class i t i;
  dom _ <- pending_insert (fst t) true;
  ret {| aid := i; am := fresh_to_old |}.

Definition add_pre (t : node * slotmap) : M appid :=
  dom en <- (fun s => let '(r, c) := refresh_private (fst t) (ctr s) in
                      match r with Ok n => Ok (n, set_ctr s c) | Err e => Err e end);
  dom en <- lift (apply_slotmap false (snd t) en);
  dom en <- synify_enode en;
  mk_singleton_pre en.

Definition union_pre (l r : appid) : M bool :=
  dom _ <- synify_app_id l;
  dom _ <- synify_app_id r;
  uint l r.
