(* EGraph/ModelStepsA.v — the run invariants of EGraph/Model.v STEP BY STEP: the bundle MI of
   EGraph/ModelStepsDefs.v is kept by set_pending, by one call of handle_pending, by the prefix of a union
   (union_pre of EGraph/ModelPre.v); handles (hok); the key fact at the lookup of handle_pending. *)
From SE Require Import Slots.SlotMapFacts Group.GroupSound Lang.LangFacts Lang.ShapeFacts Lang.RenameFacts
  EGraph.Model EGraph.ModelFacts EGraph.ModelMachine EGraph.UnionFindFacts EGraph.InvariantFacts
  EGraph.UnionInvariantFacts EGraph.AddCoversFacts EGraph.MonotoneFacts EGraph.SoundFacts EGraph.SoundUnion EGraph.SoundSyn EGraph.SoundNode EGraph.SoundStruct EGraph.NodePass EGraph.SoundBase EGraph.SoundAddNew EGraph.SoundVals EGraph.SoundAddExpr EGraph.SoundPending.
From SE Require EGraph.SoundCong.
From SE Require Import EGraph.SoundReadd EGraph.KidsCov EGraph.SoundRebuild EGraph.SoundFinal.
From SE Require Import EGraph.HashconsShape EGraph.NodeCong EGraph.KidEqFacts EGraph.ShapeCong EGraph.EntriesPersist EGraph.SynNodup.
From SE Require Import Sem.Deriv Sem.DerivFacts Sem.AlgebraFacts Sem.EgMachine Explain.CheckerFacts.
From SE Require Import EGraph.SoundClosed EGraph.HashconsFacts EGraph.KidsFacts EGraph.OpsPreFacts EGraph.ModelPre EGraph.ModelStepsDefs.
Require Import ZArith Lia ZifyBool ZifyN ZifyNat.
Ltac Zify.zify_post_hook ::= Z.div_mod_to_equations.

Local Notation "a ** b" := (compose_partial a b) (at level 40, left associativity).
Local Notation inv := inverse_nocheck.
Local Notation ectr := Model.ctr.

(* ====================================================================== *)
(* T0. the empty e-graph                                                   *)
(* ====================================================================== *)

Theorem MI_empty : MI empty_egraph.
Proof.
  split; [exact inv3_empty|]. split; [exact mod4_ok_empty|]. split; [exact kids_cov_empty|].
  split; [exact stored2_empty|]. split; [exact KS_empty|exact SN_empty].
Qed.

Theorem MI_ctr : forall m, MI m -> ectr m mod 4 = 1.
Proof. intros m (_ & M & _). exact (m4_ctr m M). Qed.

(* ====================================================================== *)
(* T7. handles along ext0 / ext                                            *)
(* ====================================================================== *)

Theorem hok_ext0 : forall m m' a, ext0 m m' -> hok m a -> hok m' a.
Proof. intros m m' a E H. exact (inv_ok_ext0 m m' a E H). Qed.

Theorem hok_ext : forall m m' a, ext m m' -> hok m a -> hok m' a.
Proof. intros m m' a E H. exact (hok_ext0 m m' a (ext_ext0 _ _ E) H). Qed.

(* ====================================================================== *)
(* T1. set_pending                                                         *)
(* ====================================================================== *)

Lemma set_pending_step : forall m p, semR m (set_pending m p) /\ nsame m (set_pending m p).
Proof. intros m p. split; [split; [apply sem_set_pending|cbn [Model.ctr set_pending]; lia]|apply nsame_pend]. Qed.

Theorem MI_set_pending : forall m p, MI m -> MI (set_pending m p).
Proof.
  intros m p (I3 & M & Kc & SO & K & Sn).
  destruct (set_pending_step m p) as [A N].
  destruct (semn_step3 _ _ A N I3) as [I3' E].
  assert (U : cuR m (set_pending m p)) by (split; reflexivity).
  destruct (KC2_cuR _ _ U (conj Kc (conj SO K))) as (Kc' & SO' & K').
  split; [exact I3'|]. split; [exact (m4_set_pending m p M)|]. split; [exact Kc'|]. split; [exact SO'|].
  split; [exact K'|exact (SN_ext _ _ E Sn)].
Qed.

Theorem hce_set_pending : forall (E E' : node -> Prop) m p, hce E m -> (forall sh, E sh -> E' sh) ->
  (forall sh, na_get (pending m) sh = Some true -> na_get p sh = Some true \/ E' sh) -> hce E' (set_pending m p).
Proof.
  intros E E' m p [T C] X P. split; [eapply tab_ok_same; [|exact T]; repeat split|].
  intros i sh q S. change (stored m i sh q) in S.
  destruct (C i sh q S) as [A|[A|A]].
  - destruct (P sh A) as [B|B]; [left; exact B|right; right; exact B].
  - right. left. eapply canon_frame; [|exact A]. intros j _. split; reflexivity.
  - right. right. exact (X sh A).
Qed.

Theorem hok_set_pending : forall m p a, hok m a -> hok (set_pending m p) a.
Proof.
  intros m p a [C V]. split; [|exact V].
  apply (covers_classes m (set_pending m p) a); [reflexivity|exact C].
Qed.

(* ====================================================================== *)
(* T2. one call of handle_pending                                          *)
(* ====================================================================== *)

Theorem MI_hp : forall sh ty m x m', MI m -> handle_pending sh ty m = Ok (x, m') -> MI m' /\ ext m m'.
Proof.
  intros sh ty m x m' (I3 & M & Kc & SO & K & Sn) H.
  destruct (inv3_handle_pending pre_shape_keeps_proved _ _ _ _ _ H I3) as [I3' E].
  split; [|exact E].
  split; [exact I3'|]. split; [exact (m4_handle_pending _ _ _ _ _ M H)|].
  split; [exact (kids_cov_handle_pending sh ty m x m' I3 M Kc H)|].
  split; [exact (pS_handle_pending sh ty m x m' H SO)|].
  split; [exact (KS_handle_pending sh ty m x m' I3 M (conj Kc (conj SO K)) H)|exact (SN_ext _ _ E Sn)].
Qed.

(* ====================================================================== *)
(* T3. the prefix of a union                                               *)
(* ====================================================================== *)

Theorem MI_union_pre : forall l r m b m', MI m -> covers m l -> covers m r -> union_pre l r m = Ok (b, m') ->
  MI m' /\ ext m m' /\ (forall E, hce E m -> hce E m').
Proof.
  intros l r m b m' (I3 & M & Kc & SO & K & Sn) Cl Cr H. unfold union_pre in H.
  apply mbind_inv in H. destruct H as (l1 & s1 & H1 & H).
  destruct (semn_step3 _ _ (s_synify_app_id _ _ _ _ H1) (n_synify_app_id _ _ _ _ H1) I3) as [I1 E1].
  pose proof (cu_synify_app_id _ _ _ _ H1) as U1. pose proof (m4_synify_app_id _ _ _ _ M H1) as M1.
  apply mbind_inv in H. destruct H as (r1 & s2 & H2 & H).
  destruct (semn_step3 _ _ (s_synify_app_id _ _ _ _ H2) (n_synify_app_id _ _ _ _ H2) I1) as [I2 E2].
  pose proof (cu_synify_app_id _ _ _ _ H2) as U2. pose proof (m4_synify_app_id _ _ _ _ M1 H2) as M2.
  pose proof (cuR_trans _ _ _ U1 U2) as U02. pose proof (ext_trans _ _ _ E1 E2) as E02.
  pose proof (covers_ext _ _ _ E02 Cl) as Cl2. pose proof (covers_ext _ _ _ E02 Cr) as Cr2.
  destruct (inv3_uint _ _ _ _ _ I2 Cl2 Cr2 H) as [I3' E3].
  destruct (KC2_cuR _ _ U02 (conj Kc (conj SO K))) as (Kc2 & SO2 & K2).
  pose proof (ext_trans _ _ _ E02 E3) as E03.
  split; [|split; [exact E03|]].
  - split; [exact I3'|]. split; [exact (m4_uint _ _ _ _ _ M2 H)|].
    split; [exact (kids_cov_uint l r s2 b m' I2 Cl2 Cr2 Kc2 H)|].
    split; [exact (pS_uint l r s2 b m' H SO2)|].
    split; [|exact (SN_ext _ _ E03 Sn)].
    destruct (uint_step4 l r s2 b m' Cl2 Cr2 H (proj1 I2)) as [_ X].
    exact (KS_mext_EP s2 m' X (pE_uint l r s2 b m' H) K2).
  - intros E Hs. eapply hce_uint; [exact H|]. eapply hce_synify_app_id; [exact H2|].
    eapply hce_synify_app_id; [exact H1|exact Hs].
Qed.

(* ====================================================================== *)
(* T8. the node handed to an insertion                                     *)
(* ====================================================================== *)

Theorem node_pre_static : forall m n l, NoDup (binders n) -> (List.length l <= List.length (app_occ n))%nat ->
  (forall x, In x (all_occ n) -> x mod 4 <> 1) -> Forall (hok m) l -> List.length l = List.length (app_occ n) ->
  node_pre m (set_apps n l).
Proof.
  intros m n l ND _ RPn L1 Len. split; [|split].
  - rewrite app_occ_set_apps by lia. revert L1. apply Forall_impl. intros y [Cy _]. exact Cy.
  - intros y Hy. apply pub_in_all in Hy. unfold all_occ, set_apps in Hy. cbn [nargs] in Hy. apply set_apps_args_all in Hy.
    destruct Hy as [Hy|(z & Hz & Hy)].
    + right. exact (RPn y Hy).
    + destruct (proj1 (Forall_forall _ _) L1 z Hz) as [_ Vz]. exact (Vz y Hy).
  - rewrite binders_set_apps'. exact ND.
Qed.

(* ====================================================================== *)
(* T6. the key fact at the lookup of handle_pending                        *)
(* ====================================================================== *)

Theorem key_at_hit_model : forall m sh i c bij0 src nd p m2 sl enode i1 enode' i1' m3 t pc t2,
  MI m -> na_get (hashcons m) sh = Some i -> get_class m i = Ok c -> na_get (c_nodes c) sh = Some (bij0, src) ->
  apply_slotmap false bij0 sh = Ok nd -> raw_remove_from_class i sh m = Ok (p, m2) ->
  class_slots m2 i = Ok sl -> find_enode m2 nd = Ok enode ->
  find_applied_id m2 {| aid := i; am := identity sl |} = Ok i1 ->
  hp_loop 100 src enode i1 m2 = Ok ((enode', i1'), m3) ->
  shape m3 enode' = Ok t -> pc_from_src_id m3 src = Ok pc -> shape m3 (fst pc) = Ok t2 -> fst t2 = fst t.
Proof.
  intros m sh i c bij0 src nd p m2 sl enode i1 enode' i1' m3 t pc t2
    (I3 & M & Kc & SO & K & Sn) Hh Hc Hp0 Hnd HA Hsl Hen Hi1 HB Ht P1 Ht2.
  unfold class_slots in Hsl. destruct (get_class m2 i) as [cA|] eqn:HcA; cbn [bind] in Hsl; [|discriminate].
  inversion Hsl; subst sl; clear Hsl.
  destruct (KS_hp_prefix m sh i c bij0 src nd p m2 cA enode i1 enode' i1' m3 I3 M (conj Kc (conj SO K))
              Hh Hc Hp0 Hnd HA HcA Hen Hi1 HB) as (HsB & _ & _ & (csrc & Hcs & Hnc) & _ & _).
  pose proof (proj1 HsB) as Hs.
  destruct (pc_from_src_spec _ _ _ P1) as (c1 & Hc1 & PS1 & _).
  rewrite Hcs in Hc1. inversion Hc1; subst c1; clear Hc1.
  destruct (pre_shape_found m3 _ _ Hs PS1) as (N1 & F1 & PN1).
  pose proof (pre_shape_idem m3 _ N1 _ Hs F1 PN1) as Id1.
  assert (W2 : wshape (fst pc) = Ok t2).
  { unfold shape in Ht2. rewrite Id1 in Ht2. cbn [bind] in Ht2. exact Ht2. }
  assert (S2 : shape m3 (c_syn csrc) = Ok t2) by (unfold shape; rewrite PS1; cbn [bind]; exact W2).
  destruct (nc_shape m3 _ _ _ Hs Hnc S2) as [b Hk]. rewrite Ht in Hk. inversion Hk. reflexivity.
Qed.

(* ====================================================================== *)
(* T5. the invocation returned by a lookup hit is a handle                 *)
(* ====================================================================== *)

Theorem hit_hok : forall m n t x, MI m -> node_pre m n -> shape m n = Ok t -> lookup_internal m t = Ok (Some x) -> hok m x.
Proof.
  intros m n [sh bij] x (I3 & _) (_ & Pn & _) H L.
  unfold shape in H. destruct (pre_shape m n) as [p|] eqn:P; cbn [bind] in H; [|discriminate].
  split; [exact (lookup_covers m p (sh, bij) x (proj2 I3) H L)|].
  unfold pre_shape in P.
  destruct (find_enode m n) as [n1|] eqn:F; cbn [bind] in P; [|discriminate].
  destruct (variants m n1) as [vs|] eqn:V; cbn [bind] in P; [|discriminate].
  apply min_variant_in in P. destruct P as [P|[k P]]; [|discriminate].
  destruct (find_enode_sub m n n1 F) as (B1 & P1). destruct (variants_sub m n1 vs p V P) as (B2 & P2).
  intros v Hv. apply Pn. apply P1, P2. exact (lookup_hit_vals m p sh bij x H L v Hv).
Qed.

Print Assumptions MI_empty.
Print Assumptions MI_ctr.
Print Assumptions MI_set_pending.
Print Assumptions hce_set_pending.
Print Assumptions hok_set_pending.
Print Assumptions MI_hp.
Print Assumptions MI_union_pre.
Print Assumptions hit_hok.
Print Assumptions key_at_hit_model.
Print Assumptions hok_ext0.
Print Assumptions hok_ext.
Print Assumptions node_pre_static.
