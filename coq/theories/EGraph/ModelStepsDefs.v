(* EGraph/ModelStepsDefs.v — the bundle of run invariants of EGraph/Model.v that is carried STEP BY STEP
   (one round of the pending loop, the prefix of an insertion, the prefix of a union) in ModelSteps*.v,
   for use through the simulation ModelA -> Model (AnalysisModelSim.v).  Definitions only. *)
From SE Require Import EGraph.Model EGraph.ModelPre EGraph.UnionFindFacts EGraph.UnionInvariantFacts EGraph.AddCoversFacts
  EGraph.SoundUnion EGraph.SoundStruct EGraph.KidsCov EGraph.SynNodup EGraph.SoundClosed EGraph.HashconsFacts EGraph.KidsFacts.

Local Notation ectr := Model.ctr.

(* none of the components mentions `pending` *)
Definition MI (m : egraph) : Prop := inv3 m /\ mod4_ok m /\ kids_cov m /\ stored2 m /\ KS m /\ SN m.

(* a handle: covers its class, and its slot values are below the counter or not fresh-like (= KidsFacts.inv_ok) *)
Definition hok (m : egraph) (a : appid) : Prop := covers m a /\ vpre_in (ectr m) (am a).
