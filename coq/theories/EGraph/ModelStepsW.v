(* EGraph/ModelStepsW.v — the run invariants MI (ModelStepsDefs.v) and hc_ok (HashconsFacts.v) across the PREFIX
   `add_pre t` (ModelPre.v) of the lookup-miss branch of add_internal: everything up to, and excluding, the
   rebuild inside mk_singleton_class and the final semify_app_id.  The whole-operation proofs (SoundAddNew.v,
   SoundFinal.v, SoundClosed.v, SynNodup.v, HashconsFacts.v, SoundVals.v, AddCoversFacts.v) are re-run for the prefix. *)
From SE Require Import Slots.SlotMapFacts Group.GroupSound Lang.LangFacts Lang.ShapeFacts Lang.RenameFacts
  EGraph.Model EGraph.ModelFacts EGraph.ModelMachine EGraph.UnionFindFacts EGraph.InvariantFacts
  EGraph.UnionInvariantFacts EGraph.AddCoversFacts EGraph.MonotoneFacts EGraph.SoundFacts EGraph.SoundUnion EGraph.SoundSyn EGraph.SoundNode EGraph.SoundStruct EGraph.NodePass EGraph.SoundBase EGraph.SoundAddNew EGraph.SoundVals EGraph.SoundAddExpr EGraph.SoundPending.
From SE Require EGraph.SoundCong.
From SE Require Import EGraph.SoundReadd EGraph.KidsCov EGraph.SoundRebuild EGraph.SoundFinal.
From SE Require Import EGraph.HashconsShape EGraph.NodeCong EGraph.KidEqFacts EGraph.ShapeCong EGraph.EntriesPersist EGraph.SynNodup.
From SE Require Import Sem.Deriv Sem.DerivFacts Sem.AlgebraFacts Sem.EgMachine Explain.CheckerFacts.
From SE Require Import EGraph.SoundClosed EGraph.SoundFinal EGraph.HashconsAbs EGraph.HashconsFacts EGraph.KidsFacts EGraph.ModelPre EGraph.ModelStepsDefs.
Require Import ZArith Lia ZifyBool ZifyN ZifyNat.
Ltac Zify.zify_post_hook ::= Z.div_mod_to_equations.

Local Notation "a ** b" := (compose_partial a b) (at level 40, left associativity).
Local Notation inv := inverse_nocheck.
Local Notation ectr := Model.ctr.

(* ====================================================================== *)
(* 1. the walk through mk_singleton_pre / add_pre                          *)
(* ====================================================================== *)

Lemma mk_singleton_pre_walk : forall en s a s5, inv3 s -> Forall (fun b => b < ectr s) (binders en) ->
  mk_singleton_pre en s = Ok (a, s5) ->
  exists f2o c2 synf s3 sh bij s4,
    let i := N.of_nat (lc s) in
    let s2 := set_ctr (set_ctr s c2) c2 in
    bijection_from_fresh_to (slots en) (ectr s) = (f2o, c2) /\
    apply_slotmap_fresh false (inv f2o) en c2 = (synf, c2) /\
    alloc_eclass (values (inv f2o)) synf s2 = Ok (i, s3) /\
    wshape synf = Ok (sh, bij) /\
    raw_add_to_class i (sh, bij) i s3 = Ok (tt, s4) /\
    pending_insert sh true s4 = Ok (tt, s5) /\
    a = {| aid := i; am := f2o |} /\
    inv3 s2 /\ ext s s2 /\ inv3 s3 /\ ext0 s2 s3 /\ inv3 s4 /\ ext s3 s4 /\ inv3 s5 /\ ext s4 s5.
Proof.
  intros en s a s' I3 Hb H. unfold mk_singleton_pre in H.
  apply mbind_inv in H. destruct H as (f2o & s1 & H1 & H).
  unfold with_ctr in H1. destruct (bijection_from_fresh_to (slots en) (ectr s)) as [f2o' c2] eqn:BF.
  inversion H1; subst f2o' s1; clear H1.
  apply mbind_inv in H. destruct H as (syn0 & s2 & H2 & H). unfold with_ctr in H2. cbn [Model.ctr set_ctr] in H2.
  pose proof (fresh_rename_spec en (ectr s) f2o c2 Hb BF) as R. cbv zeta in R.
  destruct (bff_props _ _ _ _ (slots_sorted en) BF) as [Wf2o If2o].
  destruct (apply_slotmap_fresh false (inv f2o) en c2) as [synf c3] eqn:ASF. cbn [fst snd] in R.
  inversion H2; subst syn0 s2; clear H2.
  destruct R as (Ec3 & _ & Bi & Sl & _ & Pb & _). subst c3.
  pose proof (bijection_from_fresh_to_step (slots en) (ectr s)) as St. rewrite BF in St. cbn [snd] in St. apply ctr_step_le in St.
  set (s2 := set_ctr (set_ctr s c2) c2) in *.
  assert (S02 : semR s s2).
  { split; [|unfold s2; cbn [Model.ctr set_ctr]; lia]. split; reflexivity. }
  destruct (semn_step3 _ _ S02 (nsame_classes s s2 eq_refl) I3) as [I2 E02].
  apply mbind_inv in H. destruct H as (i & s3 & H3 & H).
  pose proof (alloc_eclass_exact _ _ _ _ _ H3) as (Hi & U & C & _ & _ & Ct).
  assert (S3 : inv3 s3 /\ ext0 s2 s3).
  { destruct I2 as [[[Hok Hsl HC] Hbl] HN].
    assert (Wsl : swf (values (inv f2o))) by apply sset_of_list_spec.
    split; [split; [split|]|].
    - constructor.
      + exact (uf_ok_alloc_eclass _ _ _ _ _ H3 Hok).
      + eapply uf_slots_ok_alloc_eclass; [exact Hok|exact Hsl|exact Wsl|exact Sl|exact H3].
      + intros j c Hc. apply (get_class_ext_inv s2 s3 _ C) in Hc. destruct Hc as [Hc|[_ ->]]; [eapply HC; eauto|].
        split; [exact Wsl|]. split.
        * apply class_flat_grp_ok. unfold class_flat. cbn [c_slots c_group c_syn]. auto.
        * cbn [c_slots c_syn]. rewrite Sl. apply incl_refl.
    - intros j c x Hc Hx. rewrite Ct. apply (get_class_ext_inv s2 s3 _ C) in Hc. destruct Hc as [Hc|[_ ->]]; [eapply Hbl; eauto|].
      cbn [c_syn] in Hx. unfold s2. cbn [Model.ctr set_ctr].
      apply (Permutation.Permutation_in _ (occ_partition synf)) in Hx. apply in_app_or in Hx. destruct Hx as [Hx|Hx].
      + apply Pb in Hx. lia.
      + apply prv_binders in Hx. rewrite Bi in Hx. pose proof (proj1 (Forall_forall _ _) Hb x Hx) as T. cbv beta in T. lia.
    - intros j c e Hc He. apply (get_class_ext_inv s2 s3 _ C) in Hc. destruct Hc as [Hc|[_ ->]]; [eapply HN; eauto|].
      cbn [c_nodes] in He. contradiction.
    - split; [rewrite Ct; lia|]. intros j c Hc. exists c. split; [eapply get_class_ext_old; eauto|].
      split; [apply incl_refl|reflexivity]. }
  destruct S3 as [I3' E23].
  pose proof (get_class_ext_new s2 s3 _ C) as Hnew.
  assert (Ei : i = N.of_nat (lc s2)).
  { rewrite Hi. f_equal. exact (uso_wf _ (ei_slots _ (proj1 (proj1 I2)))). }
  rewrite <- Ei in Hnew.
  apply mbind_inv in H. destruct H as (t & s0 & Ht & H). apply lift_inv in Ht. destruct Ht as [Ht ->].
  apply mbind_inv in H. destruct H as (u4 & s4 & H4 & H). destruct t as [sh bij].
  assert (I4 : inv3 s4 /\ ext s3 s4).
  { destruct I3' as [Hs2 HN]. destruct (semR_step2 _ _ (s_raw_add _ _ _ _ _ _ H4) Hs2) as [Hs4 E4].
    split; [|exact E4]. split; [exact Hs4|]. eapply nodes_raw_add; [exact HN|exact Hnew| |exact H4].
    destruct (shape_bij_props _ _ _ Ht) as (Wb & Bb & _). destruct (shape_bij _ _ _ Ht) as (Sb1 & Sb2 & _).
    unfold entry_ok. cbn [fst snd c_slots]. split; [assumption|]. split; [apply is_bijection_injective; assumption|].
    split; [intros k Hk; apply Sb2; assumption|].
    intros x Hx. apply Sb1. rewrite <- Sl in Hx. apply slots_spec. assumption. }
  destruct I4 as [I4 E34].
  apply mbind_inv in H. destruct H as (u5 & s5 & H5 & H).
  destruct (semn_step3 _ _ (s_pending_insert _ _ _ _ _ H5) (n_pending_insert _ _ _ _ _ H5) I4) as [I5 E45].
  inversion H; subst a s5; clear H.
  destruct u4, u5. cbn [fst] in H5.
  exists f2o, c2, synf, s3, sh, bij, s4. cbv zeta. fold s2.
  assert (Ei' : i = N.of_nat (lc s)) by (rewrite Ei; reflexivity). rewrite <- Ei'.
  repeat (split; [first [reflexivity|assumption]|]). assumption.
Qed.

(* all the facts of SoundAddNew.add_internal_walk + mk_singleton_walk for the prefix *)
Definition pre_walk (t : node * slotmap) (s : egraph) (syn : appid) (s5 : egraph)
  (en1 : node) (c1 : N) (en2 en3 : node) (s3 : egraph) (f2o : slotmap) (c2 : N) (synf : node)
  (s3a : egraph) (sh : node) (bij : slotmap) (s4 : egraph) : Prop :=
  let s1 := set_ctr s c1 in
  let i := N.of_nat (lc s3) in
  let s2 := set_ctr (set_ctr s3 c2) c2 in
  refresh_private (fst t) (ectr s) = (Ok en1, c1) /\
  apply_slotmap false (snd t) en1 = Ok en2 /\
  synify_enode en2 s1 = Ok (en3, s3) /\
  bijection_from_fresh_to (slots en3) (ectr s3) = (f2o, c2) /\
  apply_slotmap_fresh false (inv f2o) en3 c2 = (synf, c2) /\
  alloc_eclass (values (inv f2o)) synf s2 = Ok (i, s3a) /\
  wshape synf = Ok (sh, bij) /\
  raw_add_to_class i (sh, bij) i s3a = Ok (tt, s4) /\
  pending_insert sh true s4 = Ok (tt, s5) /\
  syn = {| aid := i; am := f2o |} /\
  inv3 s1 /\ ext s s1 /\ inv3 s3 /\ ext s1 s3 /\ Forall (fun b => b < ectr s3) (binders en3) /\
  inv3 s2 /\ ext s3 s2 /\ inv3 s3a /\ ext0 s2 s3a /\ inv3 s4 /\ ext s3a s4 /\ inv3 s5 /\ ext s4 s5.

Lemma add_pre_walk : forall t s syn s5, inv3 s -> add_pre t s = Ok (syn, s5) ->
  exists en1 c1 en2 en3 s3 f2o c2 synf s3a sh bij s4,
    pre_walk t s syn s5 en1 c1 en2 en3 s3 f2o c2 synf s3a sh bij s4.
Proof.
  intros t s syn s5 I3 H. unfold add_pre in H.
  apply mbind_inv in H. destruct H as (en1 & s1 & H1 & H).
  destruct (refresh_private (fst t) (ectr s)) as [[r|e] c1] eqn:RP; [|discriminate]. inversion H1; subst r s1; clear H1.
  pose proof (refresh_private_step (fst t) (ectr s)) as St1. rewrite RP in St1. cbn [snd] in St1. apply ctr_step_le in St1.
  destruct (refresh_private_spec _ _ _ _ RP) as (_ & Bi1 & _).
  set (s1 := set_ctr s c1) in *.
  assert (S01 : semR s s1) by (split; [apply sem_set_ctr|unfold s1; cbn [Model.ctr set_ctr]; lia]).
  destruct (semn_step3 _ _ S01 (nsame_ctr s c1) I3) as [I1 E01].
  apply mbind_inv in H. destruct H as (en2 & s2 & H2 & H). apply lift_inv in H2. destruct H2 as [H2 ->].
  pose proof (apply_slotmap_ren _ _ _ H2) as R2.
  assert (Bi2 : binders en2 = binders en1) by (rewrite R2, ren_binders; unfold asm_g; apply map_id).
  apply mbind_inv in H. destruct H as (en3 & s3 & H3 & H).
  pose proof (s_synify_enode _ _ _ _ H3) as S13.
  destruct (semn_step3 _ _ S13 (n_synify_enode _ _ _ _ H3) I1) as [I3' E13].
  pose proof (synify_enode_binders _ _ _ _ H3) as Bi3.
  assert (Hb : Forall (fun b => b < ectr s3) (binders en3)).
  { rewrite Bi3, Bi2. revert Bi1. apply Forall_impl. intros b ((_ & Hb) & _).
    destruct S13 as [_ L13]. unfold s1 in L13. cbn [Model.ctr set_ctr] in L13. lia. }
  destruct (mk_singleton_pre_walk _ _ _ _ I3' Hb H) as (f2o & c2 & synf & s3a & sh & bij & s4 & BF & ASF & AL & Hsh & RA & PI & Ea & I2 & E32 & I3a & E23 & I4 & E34 & I5 & E45).
  cbv zeta in *.
  exists en1, c1, en2, en3, s3, f2o, c2, synf, s3a, sh, bij, s4. unfold pre_walk. cbv zeta. fold s1.
  repeat (split; [first [reflexivity|assumption]|]). assumption.
Qed.

Lemma pre_walk_new_walk : forall t s syn s5 en1 c1 en2 en3 s3 f2o c2 synf s3a sh bij s4,
  pre_walk t s syn s5 en1 c1 en2 en3 s3 f2o c2 synf s3a sh bij s4 -> new_walk t s s5.
Proof.
  intros t s syn s5 en1 c1 en2 en3 s3 f2o c2 synf s3a sh bij s4 W. unfold pre_walk in W. cbv zeta in W.
  destruct W as (RP & H2 & H3 & BF & ASF & AL & Hsh & RA & PI & _).
  exists en1, c1, en2, en3, s3, f2o, c2, synf, (N.of_nat (lc s3)), s3a, sh, bij, s4.
  repeat (split; [assumption|]). assumption.
Qed.

Lemma pre_walk_ext0 : forall t s syn s5 en1 c1 en2 en3 s3 f2o c2 synf s3a sh bij s4,
  pre_walk t s syn s5 en1 c1 en2 en3 s3 f2o c2 synf s3a sh bij s4 -> ext0 s s5.
Proof.
  intros t s syn s5 en1 c1 en2 en3 s3 f2o c2 synf s3a sh bij s4 W. unfold pre_walk in W. cbv zeta in W.
  destruct W as (_ & _ & _ & _ & _ & _ & _ & _ & _ & _ & _ & E01 & _ & E13 & _ & _ & E32 & _ & E23 & _ & E34 & _ & E45).
  eapply ext0_trans; [apply ext_ext0; exact E01|]. eapply ext0_trans; [apply ext_ext0; exact E13|].
  eapply ext0_trans; [apply ext_ext0; exact E32|]. eapply ext0_trans; [exact E23|].
  eapply ext0_trans; [apply ext_ext0; exact E34|apply ext_ext0; exact E45].
Qed.

(* the first lemma in the requested form *)
Lemma add_pre_new_walk : forall t s syn s5, inv3 s -> add_pre t s = Ok (syn, s5) ->
  new_walk t s s5 /\ inv3 s5 /\ ext0 s s5 /\
  exists en1 c1 en2 en3 s3 f2o c2 synf s3a sh bij s4,
    pre_walk t s syn s5 en1 c1 en2 en3 s3 f2o c2 synf s3a sh bij s4.
Proof.
  intros t s syn s5 I3 H.
  destruct (add_pre_walk t s syn s5 I3 H) as (en1 & c1 & en2 & en3 & s3 & f2o & c2 & synf & s3a & sh & bij & s4 & W).
  split; [eapply pre_walk_new_walk; exact W|]. split; [|split; [eapply pre_walk_ext0; exact W|]].
  - unfold pre_walk in W. cbv zeta in W. tauto.
  - exists en1, c1, en2, en3, s3, f2o, c2, synf, s3a, sh, bij, s4. exact W.
Qed.

(* ====================================================================== *)
(* 2. the pre-shape of the inserted node                                    *)
(* ====================================================================== *)

Lemma pre_shape_pub_sub : forall s n p, pre_shape s n = Ok p -> incl (pub_occ p) (pub_occ n).
Proof.
  intros s n p P. unfold pre_shape in P.
  destruct (find_enode s n) as [n1|] eqn:F; cbn [bind] in P; [|discriminate].
  destruct (variants s n1) as [vs|] eqn:V; cbn [bind] in P; [|discriminate].
  apply min_variant_in in P. destruct P as [P|[k P]]; [|discriminate].
  destruct (find_enode_sub s n n1 F) as (_ & P1). destruct (variants_sub s n1 vs p V P) as (_ & P2).
  intros x Hx. apply P1, P2, Hx.
Qed.

(* ====================================================================== *)
(* 3. MI at the end of the prefix                                           *)
(* ====================================================================== *)

Lemma kids_cov_pre_walk : forall t p s syn s5 en1 c1 en2 en3 s3 f2o c2 synf s3a sh bij s4,
  inv3 s -> mod4_ok s -> kids_cov s -> wshape p = Ok t ->
  Forall (covers s) (app_occ p) -> (forall x, In x (pub_occ p) -> x mod 4 <> 1 \/ x < ectr s) ->
  pre_walk t s syn s5 en1 c1 en2 en3 s3 f2o c2 synf s3a sh bij s4 -> kids_cov s5.
Proof.
  intros [sh_t bij_t] p s syn s5 en1 c1 en2 en3 s3 f2o c2 synf s3a sh bij s4 I3 M4 KCs Hw Cv Bp W.
  pose proof (m4_ctr s M4) as Cm. unfold pre_walk in W. cbv zeta in W. cbn [fst snd] in W.
  destruct W as (RP & H2 & H3 & BF & ASF & AL & Hsh & RA & PI & Ea & I1 & E01 & I3' & E13 & Hb & I2 & E32 & I3a & E23 & I4 & E34 & I5 & E45).
  pose proof (cls_synify_enode _ _ _ _ H3) as [C13 _]. cbn [classes set_ctr] in C13.
  pose proof (alloc_eclass_exact _ _ _ _ _ AL) as (_ & _ & C & _).
  set (s2 := set_ctr (set_ctr s3 c2) c2) in *.
  assert (C2 : classes s2 = classes s) by (unfold s2; cbn [classes set_ctr]; exact C13).
  destruct (pre_node_equiv p sh_t bij_t (ectr s) en1 c1 en2 Hw RP H2 Cm Bp) as [Q1 Bi2].
  pose proof (covers_child_inj s _ _ Cv (child_inj_node _ _ _ Q1)) as Cv2.
  destruct (refresh_private_spec _ _ _ _ RP) as (_ & Bi1 & _).
  pose proof (refresh_private_step sh_t (ectr s)) as St1. rewrite RP in St1. cbn [snd] in St1.
  pose proof (ctr_step_le _ _ St1) as Le1.
  assert (All2 : forall v, In v (all_occ en2) -> v mod 4 <> 1 \/ v < c1).
  { intros v Hall.
    apply (Permutation.Permutation_in _ (occ_partition en2)) in Hall. apply in_app_or in Hall. destruct Hall as [Hp|Hp].
    - rewrite (equiv_pub _ _ _ (proj2 (proj2 Q1))), map_id in Hp. destruct (Bp _ Hp); [left; assumption|right; lia].
    - apply prv_binders in Hp. rewrite Bi2 in Hp. pose proof (proj1 (Forall_forall _ _) Bi1 v Hp) as T. cbv beta in T. right. lia. }
  assert (Vv2 : Forall (fun x2 => vbv (ectr (set_ctr s c1)) (am x2)) (app_occ en2)).
  { apply Forall_forall. intros x2 Hx2 v Hv. cbn [Model.ctr set_ctr]. apply All2. exact (vals_all_occ en2 x2 v Hx2 Hv). }
  assert (Vb2 : Forall (fun x2 => injective (am x2) /\ vbound (ectr (set_ctr s c1)) (am x2)) (app_occ en2)).
  { apply Forall_forall. intros x2 Hx2. destruct (proj1 (Forall_forall _ _) Cv2 x2 Hx2) as (c & _ & Ix2 & _).
    split; [exact Ix2|]. apply vbv_vbound. exact (proj1 (Forall_forall _ _) Vv2 x2 Hx2). }
  assert (Cm1 : ectr (set_ctr s c1) mod 4 = 1) by (cbn [Model.ctr set_ctr]; rewrite (ctr_step_mod _ _ St1); exact Cm).
  assert (Cv3 : Forall (covers s) (app_occ en3)).
  { pose proof H3 as H3c. unfold synify_enode in H3c. apply mbind_inv in H3c. destruct H3c as (l & s1 & H3c & H3'). inversion H3'; subst en3 s1; clear H3'.
    rewrite app_occ_set_apps by (eapply mapM_length; eauto).
    exact (covers_child_ext s _ _ Cv2 (mapM_synify_rel _ _ _ _ H3c Cm1 Vb2)). }
  destruct (fresh_rename_equiv en3 (ectr s3) f2o c2 synf Hb BF ASF) as [Q3 _].
  pose proof (covers_child_inj s _ _ Cv3 (child_inj_node _ _ _ Q3)) as Cvf.
  pose proof (kids_cov_classes s s2 C2 KCs) as K2.
  assert (K3a : kids_cov s3a).
  { intros j cj sh0 bij1 src1 x Hj Hin Hx. apply (get_class_ext_inv s2 s3a _ C) in Hj.
    destruct Hj as [Hj|[_ ->]]; [|destruct Hin]. apply (covers_ext0 s2 s3a x E23). exact (K2 _ _ _ _ _ _ Hj Hin Hx). }
  assert (Cvf3 : Forall (covers s3a) (app_occ synf)).
  { revert Cvf. apply Forall_impl. intros x Cx. apply (covers_ext0 s2 s3a x E23). exact (covers_classes s s2 x C2 Cx). }
  pose proof (wshape_covers s3a synf sh bij Hsh Cvf3) as CvS.
  pose proof (kids_cov_raw_add _ _ _ _ _ _ _ (proj1 I3a) K3a CvS RA) as K4.
  apply (kids_cov_step s4 s5 E45); [|exact K4]. inversion PI. apply nsame_ks, nsame_pend.
Qed.

Lemma mod4_pre_walk : forall t s syn s5 en1 c1 en2 en3 s3 f2o c2 synf s3a sh bij s4, mod4_ok s ->
  pre_walk t s syn s5 en1 c1 en2 en3 s3 f2o c2 synf s3a sh bij s4 -> mod4_ok s5.
Proof.
  intros t s syn s5 en1 c1 en2 en3 s3 f2o c2 synf s3a sh bij s4 M4s W. unfold pre_walk in W. cbv zeta in W.
  destruct W as (RP & H2 & H3 & BF & ASF & AL & Hsh & RA & PI & _).
  pose proof (m4_refresh_ctr _ _ _ _ M4s RP) as Ma.
  pose proof (p4_synify_enode _ _ _ _ H3 Ma) as Mb.
  exact (m4_singleton_pre en3 s3 f2o c2 synf _ s3a sh bij s4 s5 Mb BF ASF AL Hsh RA PI).
Qed.

Theorem MI_add_pre_MI : forall m n t syn m5, MI m -> Forall (covers m) (app_occ n) ->
  (forall x, In x (pub_occ n) -> x < ectr m \/ x mod 4 <> 1) ->
  shape m n = Ok t -> add_pre t m = Ok (syn, m5) -> MI m5 /\ ext0 m m5.
Proof.
  intros m n t syn m5 (I3 & M4 & KC & SO & K & Sn) Cv Pn Hsh H.
  unfold shape in Hsh. destruct (pre_shape m n) as [p|] eqn:P; cbn [bind] in Hsh; [|discriminate].
  pose proof (pre_shape_covers m n p I3 Cv P) as Cvp.
  pose proof (pre_shape_pub_sub m n p P) as Pp.
  assert (Bp : forall x, In x (pub_occ p) -> x mod 4 <> 1 \/ x < ectr m).
  { intros x Hx. destruct (Pn x (Pp x Hx)); [right|left]; assumption. }
  destruct (add_pre_walk t m syn m5 I3 H) as (en1 & c1 & en2 & en3 & s3 & f2o & c2 & synf & s3a & sh & bij & s4 & W).
  pose proof (pre_walk_new_walk _ _ _ _ _ _ _ _ _ _ _ _ _ _ _ _ W) as NW.
  pose proof (pre_walk_ext0 _ _ _ _ _ _ _ _ _ _ _ _ _ _ _ _ W) as E05.
  assert (I5 : inv3 m5) by (unfold pre_walk in W; cbv zeta in W; tauto).
  pose proof (mod4_pre_walk _ _ _ _ _ _ _ _ _ _ _ _ _ _ _ _ M4 W) as M5.
  pose proof (kids_cov_pre_walk t p m syn m5 _ _ _ _ _ _ _ _ _ _ _ _ I3 M4 KC Hsh Cvp Bp W) as KC5.
  pose proof (SN_new_walk t p m m5 Sn Hsh NW) as Sn5.
  destruct (KS_new_walk t p m m5 I3 SO K Sn5 Hsh NW) as [SO5 K5].
  split; [|exact E05]. unfold MI. tauto.
Qed.

(* ====================================================================== *)
(* 4. hc_ok and the hashcons at the end of the prefix                       *)
(* ====================================================================== *)

Lemma hc_pre_walk : forall n t s syn s5 en1 c1 en2 en3 s3 f2o c2 synf s3a sh bij s4,
  inv3 s -> pending s = [] -> hc_ok s -> ectr s mod 4 = 1 -> node_pre s n ->
  shape s n = Ok t -> lookup_internal s t = Ok None ->
  pre_walk t s syn s5 en1 c1 en2 en3 s3 f2o c2 synf s3a sh bij s4 ->
  hc_ok s5 /\ na_get (hashcons s) sh = None /\ hashcons s5 = na_set (hashcons s) sh (N.of_nat (lc s3)).
Proof.
  intros n t s syn s5 en1 c1 en2 en3 s3 f2o c2 synf s3a sh bij s4 I3 Pe Hs C4 (Cv & Pn & ND) Hsh Hlk W.
  unfold pre_walk in W. cbv zeta in W.
  destruct W as (RP & H2 & H3 & BF & ASF & AL & Hw & RA & PI & Ea & I1 & E01 & I3' & E13 & Hb & I2 & E32 & I3a & E23 & I4 & E34 & I5 & E45).
  assert (Hs3 : hc_ok s3).
  { eapply hce_synify_enode; [exact H3|]. eapply hce_ctr_only; [eexists; reflexivity|exact Hs]. }
  assert (Hh3 : hashcons s3 = hashcons s).
  { pose proof H3 as H3c. apply (pres_synify_enode ctr_only ctr_only_refl ctr_only_trans) in H3c.
    - destruct (ctr_only_fields _ _ H3c) as (_ & _ & A & _). exact A.
    - intros s0 y s0' H0. inversion H0. eexists; reflexivity. }
  set (s2 := set_ctr (set_ctr s3 c2) c2) in *.
  assert (Hs2 : hc_ok s2).
  { unfold s2. eapply hce_ctr_only; [eexists; reflexivity|]. eapply hce_ctr_only; [eexists; reflexivity|exact Hs3]. }
  assert (W2 : eg_wf s2) by exact (uso_wf _ (ei_slots _ (proj1 (proj1 I2)))).
  destruct (hce_alloc noex _ _ _ _ _ W2 AL Hs2) as (Hs3a & Hh3a & _).
  assert (Abs : na_get (hashcons s) sh = None).
  { eapply (add_shape_absent_nodup s n t en1 c1 en2 en3 s3); eauto.
    - intros sh' i Hi. destruct (tb_fwd s (proj1 Hs) sh' i Hi) as [p Sp].
      destruct (proj2 Hs i sh' p Sp) as [A|[A|[]]]; [rewrite Pe in A; discriminate|exact (proj2 A)].
    - destruct t as [sht bt]. eapply lookup_none_absent; eauto. }
  assert (Abs3 : na_get (hashcons s3a) sh = None).
  { rewrite Hh3a. unfold s2. cbn [hashcons set_ctr]. rewrite Hh3. exact Abs. }
  destruct (hce_raw_add noex _ sh bij _ s3a tt s4 Abs3 (ex_intro _ synf (ex_intro _ bij Hw)) RA Hs3a) as [Hs4 _].
  pose proof (hce_pending_insert noex sh s4 tt s5 PI Hs4) as Hs5.
  split; [exact Hs5|]. split; [exact Abs|].
  destruct (raw_add_views _ _ _ _ _ _ _ RA) as (Hh4 & _).
  inversion PI. cbn [hashcons set_pending]. rewrite Hh4, Hh3a. unfold s2. cbn [hashcons set_ctr]. rewrite Hh3. reflexivity.
Qed.

(* ====================================================================== *)
(* 5. the handle obtained by semify in any later state                      *)
(* ====================================================================== *)

Lemma hok_pre_walk : forall n p t s syn s5 en1 c1 en2 en3 s3 f2o c2 synf s3a sh bij s4,
  inv3 s -> ectr s mod 4 = 1 -> (forall x, In x (pub_occ n) -> x < ectr s \/ x mod 4 <> 1) ->
  pre_shape s n = Ok p -> wshape p = Ok t ->
  pre_walk t s syn s5 en1 c1 en2 en3 s3 f2o c2 synf s3a sh bij s4 ->
  forall m' a, ext s5 m' -> semify_app_id m' syn = Ok a -> hok m' a.
Proof.
  intros n p [sh_t bij_t] s syn s5 en1 c1 en2 en3 s3 f2o c2 synf s3a sh bij s4 I3 Cm Pn P Hwp W m' a E5 Sm.
  unfold pre_walk in W. cbv zeta in W. cbn [fst snd] in W.
  destruct W as (RP & H2 & H3 & BF & ASF & AL & Hw & RA & PI & Ea & I1 & E01 & I3' & E13 & Hb & I2 & E32 & I3a & E23 & I4 & E34 & I5 & E45).
  destruct (bff_props _ _ _ _ (slots_sorted en3) BF) as [Wf2o If2o].
  pose proof (alloc_eclass_exact _ _ _ _ _ AL) as (_ & _ & C & _).
  set (s2 := set_ctr (set_ctr s3 c2) c2) in *.
  pose proof (get_class_ext_new s2 s3a _ C) as Hnew.
  replace (N.of_nat (lc s2)) with (N.of_nat (lc s3)) in Hnew by reflexivity.
  pose proof (ext_trans _ _ _ E34 (ext_trans _ _ _ E45 E5)) as E3m.
  destruct (proj2 (proj2 E3m) _ _ Hnew) as (c6 & Hc6 & I6' & _). cbn [c_slots] in I6'.
  subst syn. unfold semify_app_id, class_slots in Sm. cbn [aid am] in Sm. rewrite Hc6 in Sm. cbn [bind] in Sm.
  inversion Sm; subst a; clear Sm.
  split.
  - exists c6. cbn [aid am]. split; [exact Hc6|]. split.
    + apply (filter_key_injective (fun k => sset_mem k (c_slots c6))). exact If2o.
    + intros x Hx. rewrite (get_filter_key (fun k => sset_mem k (c_slots c6))). rewrite (proj2 (sset_mem_in _ _) Hx).
      apply I6' in Hx. apply values_spec in Hx; [|apply inverse_wf]. destruct Hx as (k & Gk).
      apply get_inverse_sound in Gk; [|assumption]. congruence.
  - cbn [am]. intros v Hv.
    assert (Hv1 : In v (values_vec f2o)).
    { unfold values_vec in *. apply in_map_iff in Hv. destruct Hv as (kv & Ekv & Hin). apply filter_In in Hin.
      apply in_map_iff. exists kv. tauto. }
    pose proof (bff_vals _ _ _ _ (slots_sorted en3) BF v Hv1) as Hv2. apply slots_spec in Hv2.
    pose proof (refresh_private_step sh_t (ectr s)) as St1. rewrite RP in St1. cbn [snd] in St1.
    assert (Cm1 : ectr (set_ctr s c1) mod 4 = 1) by (cbn [Model.ctr set_ctr]; rewrite (ctr_step_mod _ _ St1); exact Cm).
    destruct (synify_enode_pub _ _ _ _ H3 Cm1) as (_ & P3).
    assert (Le3 : ectr s3 <= ectr m').
    { destruct E32 as [L32 _]. destruct E23 as [L23 _]. destruct E3m as [L3m _]. lia. }
    destruct (P3 v Hv2) as [Hv3|[F1 F2]]; [|left; lia].
    pose proof (pre_node_pub p sh_t bij_t (ectr s) en1 c1 en2 Hwp RP H2 Cm v Hv3) as Hv4.
    apply (pre_shape_pub_sub s n p P) in Hv4.
    assert (Le0 : ectr s <= ectr s3) by (destruct E01 as [L01 _]; destruct E13 as [L13 _]; lia).
    destruct (Pn v Hv4); [left; lia|right; assumption].
Qed.

(* ====================================================================== *)
(* 6. the theorem                                                          *)
(* ====================================================================== *)

Theorem MI_add_pre_str : forall m n t syn m5,
  MI m -> hc_ok m -> pending m = [] -> node_pre m n -> shape m n = Ok t -> lookup_internal m t = Ok None ->
  add_pre t m = Ok (syn, m5) ->
  MI m5 /\ hc_ok m5 /\ ext0 m m5 /\
  (forall sh j, na_get (hashcons m) sh = Some j -> na_get (hashcons m5) sh = Some j).
Proof.
  intros m n t syn m5 HMI Hs Pe NP Hsh Hlk H. pose proof HMI as (I3 & M4 & _). pose proof NP as (Cv & Pn & ND).
  destruct (MI_add_pre_MI m n t syn m5 HMI Cv Pn Hsh H) as [HMI5 E05].
  destruct (add_pre_walk t m syn m5 I3 H) as (en1 & c1 & en2 & en3 & s3 & f2o & c2 & synf & s3a & sh & bij & s4 & W).
  destruct (hc_pre_walk n t m syn m5 _ _ _ _ _ _ _ _ _ _ _ _ I3 Pe Hs (m4_ctr m M4) NP Hsh Hlk W) as (Hs5 & Abs & Hh5).
  split; [exact HMI5|]. split; [exact Hs5|]. split; [exact E05|].
  intros sh' j G. rewrite Hh5. rewrite na_get_set_other; [exact G|]. intros ->. rewrite Abs in G. discriminate.
Qed.

Theorem MI_add_pre_hok : forall m n t syn m5,
  inv3 m -> mod4_ok m -> (forall x, In x (pub_occ n) -> x < ectr m \/ x mod 4 <> 1) -> shape m n = Ok t ->
  add_pre t m = Ok (syn, m5) ->
  forall m' a, ext m5 m' -> semify_app_id m' syn = Ok a -> hok m' a.
Proof.
  intros m n t syn m5 I3 M4 Pn Hsh H m' a E5 Sm.
  unfold shape in Hsh. destruct (pre_shape m n) as [p|] eqn:P; cbn [bind] in Hsh; [|discriminate].
  destruct (add_pre_walk t m syn m5 I3 H) as (en1 & c1 & en2 & en3 & s3 & f2o & c2 & synf & s3a & sh & bij & s4 & W).
  exact (hok_pre_walk n p t m syn m5 _ _ _ _ _ _ _ _ _ _ _ _ I3 (m4_ctr m M4) Pn P Hsh W m' a E5 Sm).
Qed.

Theorem MI_add_pre : forall m n t syn m5,
  MI m -> hc_ok m -> pending m = [] -> node_pre m n -> shape m n = Ok t -> lookup_internal m t = Ok None ->
  add_pre t m = Ok (syn, m5) ->
  MI m5 /\ hc_ok m5 /\ ext0 m m5 /\
  (forall sh j, na_get (hashcons m) sh = Some j -> na_get (hashcons m5) sh = Some j) /\
  (forall m' a, inv3 m' -> ext m5 m' -> semify_app_id m' syn = Ok a -> hok m' a).
Proof.
  intros m n t syn m5 HMI Hs Pe NP Hsh Hlk H.
  destruct (MI_add_pre_str m n t syn m5 HMI Hs Pe NP Hsh Hlk H) as (A1 & A2 & A3 & A4).
  split; [exact A1|]. split; [exact A2|]. split; [exact A3|]. split; [exact A4|].
  intros m' a _ E5 Sm. pose proof HMI as (I3 & M4 & _). pose proof NP as (_ & Pn & _).
  exact (MI_add_pre_hok m n t syn m5 I3 M4 Pn Hsh H m' a E5 Sm).
Qed.

Print Assumptions mk_singleton_pre_walk.
Print Assumptions add_pre_walk.
Print Assumptions add_pre_new_walk.
Print Assumptions pre_shape_pub_sub.
Print Assumptions kids_cov_pre_walk.
Print Assumptions mod4_pre_walk.
Print Assumptions MI_add_pre_MI.
Print Assumptions hc_pre_walk.
Print Assumptions hok_pre_walk.
Print Assumptions MI_add_pre_str.
Print Assumptions MI_add_pre_hok.
Print Assumptions MI_add_pre.
Print Assumptions pre_walk_new_walk.
Print Assumptions pre_walk_ext0.
