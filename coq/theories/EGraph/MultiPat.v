(* EGraph/MultiPat.v — executable model of /repo/src/rewrite/multipat.rs (multi_ematch), default build.
   - `MultiState`: pattern_slots (a set), diseq_constraints (HashMap<Slot, HashSet<Slot>>: association list of
     sets), subst (association list in binding order), slot_uf (HashMap<Slot, Slot>: a slot map).
   - The implementation iterates hash sets in `unify` (`xonly.iter().next()`, `for yy in yonly`); the model uses the
     sorted order.  Only the order of the returned substitutions can depend on it (every consistent pairing of
     the two sets is enumerated exactly once either way); the machine compares counts and validity flags.
   - `enodes_applied` and `bijection_from_fresh_to` draw fresh slots: state transformers, as in Rewrite.v.
   - `norm = false` follows the implementation as it is: `extend_subst` inserts the child's applied id WITHOUT
     applying `slot_uf` (the C05 finding on multi-patterns); `norm = true` is the candidate repair
     `st.subst.insert(pv, state_appid_find(x, &st))`.
   Definitions only. *)
From SE Require Import Parse.Parser.
From SE Require Export EGraph.Rewrite.

Record mstate := {
  ms_pslots : sset;
  ms_diseq  : list (slot * sset);
  ms_subst  : subst;
  ms_uf     : slotmap }.

Definition mstate0 : mstate := {| ms_pslots := []; ms_diseq := []; ms_subst := []; ms_uf := [] |}.

Definition with_subst (st : mstate) (sb : subst) : mstate :=
  {| ms_pslots := ms_pslots st; ms_diseq := ms_diseq st; ms_subst := sb; ms_uf := ms_uf st |}.

(* state_find: `while let Some(y) = st.slot_uf.get(&x) { x = *y }` *)
Fixpoint uf_find (fuel : nat) (uf : slotmap) (x : slot) : slot :=
  match fuel with
  | O => x
  | S f => match get uf x with Some y => uf_find f uf y | None => x end
  end.
Definition state_find (st : mstate) (x : slot) : slot := uf_find (S (List.length (ms_uf st))) (ms_uf st) x.

(* state_appid_find: the values of the invocation are replaced in place *)
Definition state_appid_find (st : mstate) (a : appid) : appid :=
  {| aid := aid a; am := map (fun kv : slot * slot => (fst kv, state_find st (snd kv))) (am a) |}.

Fixpoint dis_get (d : list (slot * sset)) (x : slot) : option sset :=
  match d with
  | [] => None
  | (k, v) :: t => if k =? x then Some v else dis_get t x
  end.
(* entry(x).or_default().extend(vs) *)
Fixpoint dis_extend (d : list (slot * sset)) (x : slot) (vs : list slot) : list (slot * sset) :=
  match d with
  | [] => [(x, sset_of_list vs)]
  | (k, v) :: t => if k =? x then (k, sset_union v (sset_of_list vs)) :: t else (k, v) :: dis_extend t x vs
  end.

Definition add_disjointness_constraint (set : sset) (st : mstate) : mstate :=
  {| ms_pslots := ms_pslots st;
     ms_diseq := fold_left (fun d x => dis_extend d x (filter (fun y => negb (y =? x)) set)) set (ms_diseq st);
     ms_subst := ms_subst st; ms_uf := ms_uf st |}.

Definition update_state (st : mstate) : mstate :=
  {| ms_pslots := ms_pslots st;
     ms_diseq := fold_left (fun d (e : slot * sset) => dis_extend d (state_find st (fst e)) (map (state_find st) (snd e)))
                           (ms_diseq st) [];
     ms_subst := map (fun p : text * appid => (fst p, state_appid_find st (snd p))) (ms_subst st);
     ms_uf := ms_uf st |}.

Definition allows_directed_union (x : slot) (st : mstate) : bool := negb (sset_mem x (ms_pslots st)).

Definition union_slot (x y : slot) (st : mstate) : option mstate :=
  let x := state_find st x in
  let y := state_find st y in
  if x =? y then Some st else
  if match dis_get (ms_diseq st) x with Some xx => sset_mem y xx | None => false end then None else
  if match dis_get (ms_diseq st) y with Some yy => sset_mem x yy | None => false end then None else
  let '(x, y) := if allows_directed_union x st then (x, y) else (y, x) in
  if negb (allows_directed_union x st) then None else
  Some (update_state {| ms_pslots := ms_pslots st; ms_diseq := ms_diseq st; ms_subst := ms_subst st;
                        ms_uf := insert x y (ms_uf st) |}).

(* matches_raw: n1 from the pattern, n2 from the e-graph *)
Definition matches_raw (n1 n2 : node) (st : mstate) : res (option mstate) :=
  let n1 := nullify n1 in
  let n2 := nullify n2 in
  do sh1 <- wshape n1;
  do sh2 <- wshape n2;
  if negb (node_eqb (fst sh1) (fst sh2)) then Ok None else
  Ok ((fix go (ps : list (slot * slot)) (st : mstate) : option mstate :=
         match ps with
         | [] => Some st
         | (x1, y1) :: t =>
             let st := {| ms_pslots := sset_insert x1 (ms_pslots st); ms_diseq := ms_diseq st;
                          ms_subst := ms_subst st; ms_uf := ms_uf st |} in
             match union_slot x1 y1 st with Some st' => go t st' | None => None end
         end) (combine (all_occ n1) (all_occ n2)) st).

Fixpoint flat_mapr {A C} (f : A -> res (list C)) (l : list A) : res (list C) :=
  match l with
  | [] => Ok []
  | x :: t => do y <- f x; do r <- flat_mapr f t; Ok (y ++ r)
  end.

(* unify: fuel = number of slots still to pair + 1 *)
Fixpoint unify (fuel : nat) (s : egraph) (x y : appid) (st : mstate) : res (list mstate) :=
  match fuel with
  | O => Err OutOfFuel
  | S f =>
      let x' := state_appid_find st x in
      let y' := state_appid_find st y in
      if negb (aid x' =? aid y') then Ok [] else
      let xslots := values (am x') in
      let yslots := values (am y') in
      let xonly := sset_diff xslots yslots in
      let yonly := sset_diff yslots xslots in
      if negb (Nat.eqb (List.length xonly) (List.length yonly)) then Err AssertFailed else
      match xonly with
      | [] => do e <- eg_eq s x' y'; Ok (if e then [st] else [])
      | xx :: _ =>
          flat_mapr (fun yy => match union_slot xx yy st with
                               | Some st' => unify f s x' y' st'
                               | None => Ok []
                               end) yonly
      end
  end.

Definition extend_subst (norm : bool) (s : egraph) (pv : text) (x : appid) (st : mstate) : res (list mstate) :=
  match sub_get (ms_subst st) pv with
  | Some y => unify (S (List.length (am x) + List.length (am y))) s x y st
  | None => Ok [with_subst st (ms_subst st ++ [(pv, if norm then state_appid_find st x else x)])]
  end.

Definition multi_ematch_step_class (pv : text) (st : mstate) : M (list mstate) :=
  match sub_get (ms_subst st) pv with
  | Some _ => ret [st]
  | None =>
      dom live <- gets ids;
      mapM (fun x =>
              dom sl <- reads (fun s => class_slots s x);
              dom m <- with_ctr (bijection_from_fresh_to sl);
              ret (with_subst st (ms_subst st ++ [(pv, {| aid := x; am := inverse_nocheck m |})]))) live
  end.

Definition multi_ematch_step_node (norm : bool) (pv : text) (nd : node) (children : list text) (st : mstate) : M (list mstate) :=
  match sub_get (ms_subst st) pv with
  | None => fail ExplicitPanic                                  (* `&state.subst[pv]` *)
  | Some gid =>
      dom ns <- enodes_applied gid;
      reads (fun s =>
        flat_mapr (fun n =>
          let st := add_disjointness_constraint (sset_of_list (all_occ n)) st in
          do r <- matches_raw nd n st;
          match r with
          | None => Ok []
          | Some st =>
              (fix kids (ch : list text) (subs : list appid) (acc : list mstate) {struct ch} : res (list mstate) :=
                 match ch, subs with
                 | cv :: ch', cg :: subs' =>
                     do next <- flat_mapr (extend_subst norm s cv cg) acc;
                     kids ch' subs' next
                 | _, _ => Ok acc
                 end) children (app_occ n) [st]
          end) ns)
  end.

Definition multi_ematch_step (norm : bool) (e : text * node * list text) (st : mstate) : M (list mstate) :=
  let '(pv, nd, children) := e in
  dom cs <- multi_ematch_step_class pv st;
  flat_mapM (multi_ematch_step_node norm pv nd children) cs.

Fixpoint multi_ematch_go (norm : bool) (pat : mpat) (states : list mstate) : M (list mstate) :=
  match pat with
  | [] => ret states
  | e :: t => dom next <- flat_mapM (multi_ematch_step norm e) states; multi_ematch_go norm t next
  end.

Definition multi_ematch (norm : bool) (pat : mpat) : M (list subst) :=
  dom sts <- multi_ematch_go norm pat [mstate0];
  ret (map ms_subst sts).
