(* EGraph/MultiPatChk.v — C05, the multi-pattern matcher: EXECUTABLE VALIDATION of the invariant of
   `multi_ematch_go` that EGraph/MultiPatFacts.v is about, checked after EVERY equation, on the multi-patterns
   obtained by flattening the pattern families of MatchLookup.v / MatchReprDeep.v (root-first and leaves-first),
   plus joins, on the test universe of MatchComplete.v / MatchReprDeep.v (states with redundant slots and symmetric
   classes included), and on the c05 witness of props/C05.v.  Definitions + Examples. *)
From SE Require Import Slots.SlotMapFacts Lang.LangFacts Parse.Parser EGraph.Model EGraph.ModelMachine
  EGraph.Rewrite EGraph.RewriteFacts EGraph.MatchDefs EGraph.MultiPat EGraph.MatchMachine EGraph.MatchLookup
  EGraph.MatchComplete EGraph.MatchReprDeep EGraph.CongruenceFacts EGraph.MultiPatState.
From SE Require Import Lang.RenameFacts EGraph.UnionFindFacts.
Require Import ZArith Lia.

(* ------------------------------------------------------------------ *)
(* 1. the invariant, as a boolean *)

Definition bound_in (sb : subst) (v : text) : bool := is_some (sub_get sb v).

(* one equation in the substitution sb: (all variables bound, instance found by an invocation eg_eq to ?v) *)
Definition eqn_okb (s : egraph) (sb : subst) (e : text * node * list text) : bool :=
  let '(v, nd, ch) := e in
  bound_in sb v && forallb (bound_in sb) ch &&
  match lookup_pat s (PNode nd (map PVarP ch)) sb, sub_get sb v with
  | Ok (Some c), Some a => match eg_eq s c a with Ok true => true | _ => false end
  | _, _ => false
  end.

Definition is_root (st : mstate) (x : slot) : bool := negb (contains_key (ms_uf st) x).

Fixpoint nodupN (l : list N) : bool :=
  match l with [] => true | x :: t => negb (existsb (N.eqb x) t) && nodupN t end.

(* the parts of the invariant: (ii) equations, (iii) pattern slots are roots = fixed by state_find,
   (n) the substitution is normalised (all values are roots), (k) union-find keys are fresh slots (>= c0),
   (p) the pattern slots recorded are the slots of the equations done, (j) every bound invocation is injective *)
Definition st_inv_parts (c0 : N) (s : egraph) (done : mpat) (st : mstate) : list bool :=
  [ forallb (eqn_okb s (ms_subst st)) done;
    forallb (fun x => state_find st x =? x) (ms_pslots st) && forallb (is_root st) (ms_pslots st);
    forallb (fun va : text * appid => forallb (is_root st) (values_vec (am (snd va)))) (ms_subst st);
    forallb (fun kv : slot * slot => (c0 <=? fst kv) && negb (sset_mem (fst kv) (ms_pslots st))) (ms_uf st);
    sset_eqb (ms_pslots st) (sset_of_list (flat_map (fun e : text * node * list text => all_occ (snd (fst e))) done));
    forallb (fun va : text * appid => nodupN (values_vec (am (snd va)))) (ms_subst st) ].

Definition st_inv_okb (c0 : N) (s : egraph) (done : mpat) (st : mstate) : bool :=
  forallb (fun b => b) (st_inv_parts c0 s done st).

(* the instrumented loop: (number of states checked, all satisfy the invariant) *)
Fixpoint go_chk (norm : bool) (c0 : N) (done pat : mpat) (states : list mstate) : M (N * bool) :=
  match pat with
  | [] => ret (0, true)
  | e :: t =>
      dom next <- flat_mapM (multi_ematch_step norm e) states;
      dom s <- gets (fun s => s);
      let done' := done ++ [e] in
      dom r <- go_chk norm c0 done' t next;
      ret (N.of_nat (List.length next) + fst r, forallb (st_inv_okb c0 s done' ) next && snd r)
  end.

Definition mp_slots (m : mpat) : list slot := flat_map (fun e : text * node * list text => all_occ (snd (fst e))) m.
Definition mp_belowb (B : N) (m : mpat) : bool := forallb (fun x => x <? B) (mp_slots m).
Definition mp_arityb (m : mpat) : bool :=
  forallb (fun e : text * node * list text => Nat.eqb (List.length (snd e)) (List.length (app_occ (snd (fst e))))) m.

Definition inv_report_mp (norm : bool) (s : egraph) (m : mpat) : option (N * N * bool) :=
  match go_chk norm (Model.ctr s) [] m [mstate0] s, multi_ematch norm m s with
  | Ok ((n, b), _), Ok (l, _) => Some (n, N.of_nat (List.length l), b)
  | _, _ => None
  end.

(* the CONCLUSION of the theorem, as a boolean *)
Definition same_graphb (s s' : egraph) : bool :=
  Nat.eqb (List.length (unionfind s)) (List.length (unionfind s')) &&
  Nat.eqb (List.length (classes s)) (List.length (classes s')) &&
  Nat.eqb (List.length (hashcons s)) (List.length (hashcons s')) &&
  Nat.eqb (List.length (pending s)) (List.length (pending s')) && (Model.ctr s <=? Model.ctr s').

Definition mp_concl_okb (norm : bool) (m : mpat) (s : egraph) : bool :=
  match multi_ematch norm m s with
  | Ok (l, s') => same_graphb s s' && forallb (fun sb => forallb (eqn_okb s' sb) m) l
  | Err _ => false
  end.

(* ------------------------------------------------------------------ *)
(* 2. multi-patterns from patterns *)

Fixpoint flat_pat (nm : text) (p : pattern) {struct p} : text * mpat :=
  match p with
  | PVarP v => (v, [])
  | PNode n ch =>
      let r := (fix go (l : list pattern) (k : N) : list text * mpat :=
                  match l with
                  | [] => ([], [])
                  | c :: t => let '(v, e) := flat_pat (nm ++ [k]) c in
                              let '(vs, es) := go t (k + 1) in (v :: vs, e ++ es)
                  end) ch 1 in
      (nm, (nm, n, fst r) :: snd r)
  | PSubst _ _ _ => (nm, [])
  end.

Definition mp_of (p : pattern) : mpat := snd (flat_pat [1000] p).
(* joins: the equations of p and of q about the SAME root variable / about different roots *)
Definition mp_join (p q : pattern) : mpat := snd (flat_pat [1000] p) ++ snd (flat_pat [1000] q).
Definition mp_pair (p q : pattern) : mpat := snd (flat_pat [1000] p) ++ snd (flat_pat [2000] q).

Definition add3 (acc : N * N * bool) (o : option (N * N * bool)) : N * N * bool :=
  let '(a', b', d') := acc in
  match o with
  | Some (a, b, d) => (a + a', b + b', d && d')
  | None => (a', b', false)
  end.

Definition fam_mp (norm : bool) (ms : list mpat) (ss : list egraph) : N * N * bool :=
  fold_left (fun acc s =>
               if negb (valid_stateb s && ss_okb s) then acc else
               fold_left (fun acc m => if mp_belowb (Model.ctr s) m && mp_arityb m then add3 acc (inv_report_mp norm s m) else acc) ms acc)
            ss (0, 0, true).

Definition fam_concl (norm : bool) (ms : list mpat) (ss : list egraph) : bool :=
  forallb (fun s => negb (valid_stateb s && ss_okb s) ||
                    forallb (fun m => negb (mp_belowb (Model.ctr s) m && mp_arityb m) || mp_concl_okb norm m s) ms) ss.

Definition test_mps : list mpat :=
  map mp_of test_pats ++ map (fun p => rev (mp_of p)) test_pats ++
  flat_map (fun p => map (mp_join p) (firstn 12 test_pats)) (firstn 12 test_pats) ++
  flat_map (fun p => map (mp_pair p) (firstn 6 test_pats)) (firstn 6 test_pats).

Definition c_valid : list egraph := filter (fun s => valid_stateb s && ss_okb s) c_states.


(* ------------------------------------------------------------------ *)
(* 3. THE GHOST INVARIANT `mp_inv` of MultiPatDefs.v, as a boolean: the instrumented matcher records, per processed
      equation, the witness (n, g): the listed e-graph node that was matched and the invocation ?v was bound to *)

Definition witness := (node * appid)%type.
Definition gstate := (mstate * list witness)%type.

Definition step_node_g (norm : bool) (pv : text) (nd : node) (ch : list text) (g : gstate) : M (list gstate) :=
  let '(st, ws) := g in
  match sub_get (ms_subst st) pv with
  | None => fail ExplicitPanic
  | Some gid =>
      dom ns <- enodes_applied gid;
      reads (fun s => flat_mapr (fun n => do l <- mnode_body norm s nd ch st n;
                                          Ok (map (fun st' => (st', ws ++ [(n, gid)])) l)) ns)
  end.

Definition step_g (norm : bool) (e : text * node * list text) (g : gstate) : M (list gstate) :=
  let '(pv, nd, children) := e in
  dom cs <- multi_ematch_step_class pv (fst g);
  flat_mapM (fun c => step_node_g norm pv nd children (c, snd g)) cs.

Definition markedb (st : mstate) (a b : slot) : bool :=
  match dis_get (ms_diseq st) a with Some dS => sset_mem b dS | None => false end.
Definition apartb (st : mstate) (x y : slot) : bool :=
  let fx := state_find st x in let fy := state_find st y in
  negb (fx =? fy) && (markedb st fx fy || markedb st fy fx).

Definition subset_b (a b : list slot) : bool := forallb (fun x => existsb (N.eqb x) b) a.

Definition eq_witb (s0 : egraph) (st : mstate) (e : text * node * list text) (w : witness) : bool :=
  let '(v, nd, ch) := e in
  let '(n, g) := w in
  cleanb n && nodupN (binders n) && subset_b (values_vec (am g)) (all_occ n) &&
  match MatchMachine.eg_lookup s0 n with
  | Ok (Some b0) => match eg_eq s0 b0 g with Ok true => subset_b (values_vec (am b0)) (values_vec (am g)) | _ => false end
  | _ => false
  end &&
  match sub_get (ms_subst st) v with Some a => appid_eqb a (state_appid_find st g) | None => false end &&
  match wshape (nullify nd), wshape (nullify n) with
  | Ok sh1, Ok sh2 => node_eqb (fst sh1) (fst sh2)
  | _, _ => false
  end &&
  forallb2 N.eqb (map (state_find st) (all_occ (nullify n))) (all_occ (nullify nd)) &&
  Nat.eqb (List.length ch) (List.length (app_occ n)) &&
  forallb (fun cc : text * appid =>
             match sub_get (ms_subst st) (fst cc) with
             | Some a => match eg_eq s0 (state_appid_find st (snd cc)) a with Ok true => true | _ => false end
             | None => false
             end) (combine ch (app_occ n)).

(* a bound invocation: canonical (sorted, keys = the slots of its live class, injective), below the counter,
   fresh-or-pattern slots, all values are representatives of slot occurrences of one witness node *)
Definition bnd_okb (s0 : egraph) (c0 : N) (t : egraph) (st : mstate) (ns : list node) (a : appid) : bool :=
  sortedb (am a) && nodupN (values_vec (am a)) &&
  match class_slots s0 (aid a), is_alive s0 (aid a) with
  | Ok sl, Ok true => sset_eqb (keys (am a)) sl
  | _, _ => false
  end &&
  forallb (fun x => (x <? Model.ctr t) && ((c0 <=? x) || sset_mem x (ms_pslots st))) (values_vec (am a)) &&
  existsb (fun n => subset_b (values_vec (am a)) (map (state_find st) (all_occ n))) ns.

Definition mp_inv_parts (s0 : egraph) (c0 : N) (t : egraph) (done : mpat) (g : gstate) : list bool :=
  let '(st, ws) := g in
  let ns := map fst ws in
  [ forallb (fun kv : slot * slot => is_root st (state_find st (fst kv)) && is_root st (state_find st (snd kv))) (ms_uf st);
    forallb (fun va : text * appid => forallb (is_root st) (values_vec (am (snd va)))) (ms_subst st);
    forallb (is_root st) (ms_pslots st);
    forallb (fun kv : slot * slot => (c0 <=? fst kv) && (fst kv <? Model.ctr t)) (ms_uf st);
    sset_eqb (ms_pslots st) (sset_of_list (flat_map (fun e : text * node * list text => all_occ (nullify (snd (fst e)))) done));
    forallb (fun va : text * appid => bnd_okb s0 c0 t st ns (snd va)) (ms_subst st);
    forallb (fun n => forallb (fun x => forallb (fun y => (x =? y) || apartb st x y) (all_occ n)) (all_occ n)) ns;
    Nat.eqb (List.length done) (List.length ws) && forallb (fun ew => eq_witb s0 st (fst ew) (snd ew)) (combine done ws) ].

Definition mp_invb (s0 : egraph) (c0 : N) (t : egraph) (done : mpat) (g : gstate) : bool :=
  forallb (fun b => b) (mp_inv_parts s0 c0 t done g).

Fixpoint go_g (norm : bool) (s0 : egraph) (done pat : mpat) (states : list gstate) : M (N * bool * list bool) :=
  match pat with
  | [] => ret (0, true, [])
  | e :: t =>
      dom next <- flat_mapM (step_g norm e) states;
      dom s <- gets (fun s => s);
      let done' := done ++ [e] in
      dom r <- go_g norm s0 done' t next;
      let bad := filter (fun g => negb (mp_invb s0 (Model.ctr s0) s done' g)) next in
      ret (N.of_nat (List.length next) + fst (fst r), forallb (mp_invb s0 (Model.ctr s0) s done') next && snd (fst r),
           match bad with g :: _ => mp_inv_parts s0 (Model.ctr s0) s done' g | [] => snd r end)
  end.

Definition ghost_report (norm : bool) (s : egraph) (m : mpat) : option (N * N * bool) :=
  match go_g norm s [] m [(mstate0, [])] s, multi_ematch norm m s with
  | Ok ((n, b, _), _), Ok (l, _) => Some (n, N.of_nat (List.length l), b)
  | _, _ => None
  end.

Definition fam_ghost (norm : bool) (ms : list mpat) (ss : list egraph) : N * N * bool :=
  fold_left (fun acc s =>
               if negb (valid_stateb s && ss_okb s) then acc else
               fold_left (fun acc m => if mp_belowb (Model.ctr s) m && mp_arityb m then add3 acc (ghost_report norm s m) else acc) ms acc)
            ss (0, 0, true).

Definition first_bad (norm : bool) (ms : list mpat) (ss : list egraph) : list (nat * nat * list bool) :=
  firstn 3 (flat_map (fun si : nat * egraph =>
     flat_map (fun mi : nat * mpat =>
        if mp_belowb (Model.ctr (snd si)) (snd mi) && mp_arityb (snd mi) then
          match go_g norm (snd si) [] (snd mi) [(mstate0, [])] (snd si) with
          | Ok ((_, false, parts), _) => [(fst si, fst mi, parts)]
          | _ => []
          end else []) (combine (seq 0 (List.length ms)) ms)) (combine (seq 0 (List.length ss)) ss)).


(* the witness of props/C05.v `C05_legacy_multi_ematch_refuted`: the state and the multi-pattern of `c05_case` *)
Definition c05_case : list sexp := [Lst [Sym "cfg"; Num 0; Num 0]; Lst [Sym "terms"; Lst [Sym "rt"; Lst [Sym "nd"; Num 8; Lst [Sym "b"; Num 1; Lst [Sym "a"; Num 0; Lst [Sym "m"]]]]; Lst [Sym "rt"; Lst [Sym "nd"; Num 5; Lst [Sym "s"; Num 1]]]]]; Lst [Sym "ops"; Lst [Sym "add"; Num 0]]; Sym "corpus"; Lst [Sym "pats"; Lst [Sym "t"; Num 40; Num 108; Num 97; Num 109; Num 32; Num 36; Num 49; Num 32; Num 63; Num 98; Num 41]]; Lst [Sym "mpats"; Lst [Sym "mp"; Lst [Sym "eqn"; Lst [Sym "t"; Num 120]; Lst [Sym "t"; Num 40; Num 108; Num 97; Num 109; Num 32; Num 36; Num 49; Num 32; Num 63; Num 98; Num 41]]]]].

Definition eg5_setup (args : list sexp) : option (egraph * list mpat) :=
  match args with
  | _ :: Lst (Sym "terms" :: ts) :: Lst (Sym "ops" :: os) :: _ :: Lst (Sym "pats" :: ps) :: Lst (Sym "mpats" :: ms) :: _ =>
      match dec_rterms ts, dec_hops os, dec_texts ps, dec_mpats ms with
      | Some rts, Some ops, Some texts, Some mraw =>
          match run_ops rts ops [] empty_egraph with
          | Ok (hs, s) =>
              match parse_pats {| fresh_idx := Model.ctr s; named_vec := [] |} texts with
              | Ok (pats, tbl) =>
                  match parse_mpats tbl mraw with
                  | Ok (mpats, tbl2) => Some (pats_state pats (set_ctr s (fresh_idx tbl2)), mpats)
                  | Err _ => None
                  end
              | Err _ => None
              end
          | Err _ => None
          end
      | _, _, _, _ => None
      end
  | _ => None
  end.

Definition c05_state : egraph := match eg5_setup c05_case with Some (s, _) => s | None => empty_egraph end.
Definition c05_mpat : mpat := match eg5_setup c05_case with Some (_, m :: _) => m | _ => [] end.


Definition deep_mps (ps : list pattern) : list mpat := map mp_of ps ++ map (fun p => rev (mp_of p)) ps.
Definition sts (hs : list (list rterm * list hop)) : list egraph := map (fun h => st_of (fst h) (snd h)) hs.

(* ------------------------------------------------------------------ *)
(* 4. RESULTS.  (states checked = matcher states after every equation, substitutions returned, all satisfy the invariant) *)

(* 222 multi-patterns (the 21 patterns of MatchLookup.v flattened root-first and leaves-first, 144 joins on one root
   variable, 36 pairs on two roots) on the 13 valid states of MatchComplete.v (7 with redundant slots) *)
Example chk_test_mps_repaired :
  (List.length c_valid, List.length test_mps) = (13%nat, 222%nat) /\
  fam_mp true test_mps c_valid = (3421, 896, true) /\ fam_ghost true test_mps c_valid = (3421, 896, true) /\
  fam_concl true test_mps c_valid = true.
Proof. vm_compute. repeat split; reflexivity. Qed.

(* COUNTEREXAMPLE family for the pinned matcher (norm = false): the plain invariant, the ghost invariant and the
   conclusion of the theorem all fail (the substitution is not normalised: part (n) of `st_inv_parts`) *)
Example chk_test_mps_legacy :
  fam_mp false test_mps c_valid = (3421, 896, false) /\ fam_ghost false test_mps c_valid = (3421, 896, false) /\
  fam_concl false test_mps c_valid = false.
Proof. vm_compute. repeat split; reflexivity. Qed.

(* the nested families of MatchReprDeep.v (repeated variables: `unify` runs), flattened root-first and leaves-first,
   on ALL valid prefixes of the 18 histories (55 prefixes with redundant slots; symmetric classes in dT1..dT2) *)
Example chk_rep_red : fam_ghost true (deep_mps rep_pats) (sts red_prefixes) = (7306, 802, true).
Proof. vm_compute. reflexivity. Qed.
Example chk_rep_nonred : fam_ghost true (deep_mps rep_pats) (sts nonred_prefixes) = (22318, 1698, true).
Proof. vm_compute. reflexivity. Qed.
Example chk_rep1_all : fam_ghost true (deep_mps rep1_pats) (sts all_prefixes) = (912, 912, true).
Proof. vm_compute. reflexivity. Qed.
Example chk_lin_red : fam_ghost true (deep_mps lin_pats) (sts red_prefixes) = (24179, 4141, true).
Proof. vm_compute. reflexivity. Qed.
Example chk_concl_rep_all : fam_concl true (deep_mps rep_pats ++ deep_mps rep1_pats) (sts all_prefixes) = true.
Proof. vm_compute. reflexivity. Qed.

(* the witness of C05_legacy_multi_ematch_refuted *)
Example chk_c05 :
  (valid_stateb c05_state && ss_okb c05_state, mp_belowb (Model.ctr c05_state) c05_mpat, mp_arityb c05_mpat) = (true, true, true) /\
  mp_concl_okb true c05_mpat c05_state = true /\ mp_concl_okb false c05_mpat c05_state = false /\
  ghost_report true c05_state c05_mpat = Some (1, 1, true) /\ ghost_report false c05_state c05_mpat = Some (1, 1, false).
Proof. vm_compute. repeat split; reflexivity. Qed.

Print Assumptions chk_test_mps_repaired.
Print Assumptions chk_test_mps_legacy.
Print Assumptions chk_rep_red.
Print Assumptions chk_c05.
