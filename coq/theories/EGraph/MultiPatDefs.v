(* EGraph/MultiPatDefs.v — C05, the multi-pattern matcher: well-formedness of a multi-pattern, the conclusion of
   `multi_matches_satisfy_equations`, and THE INVARIANT of `multi_ematch_go` (a matcher state `st` after the equations
   `done`, in the state t of the graph s0, pattern slot names below c0).  Definitions only (+ trivial facts).

   Ghost data: for every processed equation (v, nd, ch) a WITNESS (n, g): the e-graph node n that was matched (listed by
   `enodes_applied` for the invocation g that ?v was bound to at that moment).  Everything the matcher does later only
   renames slots through the slot union-find `state_find st` (pattern slots are roots), and the renaming stays injective
   on the slot occurrences of every witness node (they are pairwise `apart`: disequality constraints). *)
From SE Require Import Slots.SlotMapFacts Lang.LangFacts Lang.ShapeFacts Lang.RenameFacts
  Base.TextFacts Parse.Parser EGraph.Model EGraph.ModelFacts EGraph.ModelMachine EGraph.UnionFindFacts
  EGraph.InvariantFacts EGraph.HashconsShape EGraph.ShapeCong
  EGraph.Rewrite EGraph.RewriteFacts EGraph.MatchDefs EGraph.MultiPat EGraph.MatchMachine
  EGraph.MatchFacts EGraph.MatchLookup EGraph.NodeCong EGraph.MatchReprAllDefs
  EGraph.MultiPatUf EGraph.MultiPatDiseq EGraph.MultiPatRen.
Require Import ZArith Lia.

(* ------------------------------------------------------------------ *)
(* well-formedness of a multi-pattern *)

(* every equation ?v == nd(children): as many child variables as child positions (MultiPattern::parse) *)
Definition mp_arity (pat : mpat) : Prop :=
  forall v nd ch, In (v, nd, ch) pat -> List.length ch = List.length (app_occ nd).
(* the slot names of the pattern nodes are older than the counter: they cannot be drawn as fresh slots *)
Definition mp_slots (pat : mpat) : list slot :=
  flat_map (fun e : text * node * list text => all_occ (nullify (snd (fst e)))) pat.
Definition mp_below (B : N) (pat : mpat) : Prop := forall x, In x (mp_slots pat) -> x < B.

(* ------------------------------------------------------------------ *)
(* the conclusion for one equation and one substitution, in the state s *)
Definition eqn_sat (s : egraph) (sb : subst) (e : text * node * list text) : Prop :=
  let '(v, nd, ch) := e in
  (forall cv, In cv ch -> sub_get sb cv <> None) /\
  exists a c, sub_get sb v = Some a /\
              lookup_pat s (PNode nd (map PVarP ch)) sb = Ok (Some c) /\ eg_eq s c a = Ok true.

(* ------------------------------------------------------------------ *)
(* the invariant *)

Definition witness := (node * appid)%type.

Definition nodes_apart (st : mstate) (ns : list node) : Prop :=
  forall n x y, In n ns -> In x (all_occ n) -> In y (all_occ n) -> x <> y -> apart st x y.

Definition eq_wit (s0 : egraph) (st : mstate) (e : text * node * list text) (w : witness) : Prop :=
  let '(v, nd, ch) := e in
  let '(n, g) := w in
  clean n /\ NoDup (binders n) /\ (forall a, In a (app_occ n) -> ckid s0 a) /\
  ckid s0 g /\ (forall x, In x (values_vec (am g)) -> In x (all_occ n)) /\
  (exists b0, MatchMachine.eg_lookup s0 n = Ok (Some b0) /\ eg_eq s0 b0 g = Ok true /\ wf (am b0) /\
              forall x, In x (values_vec (am b0)) -> In x (values_vec (am g))) /\
  sub_get (ms_subst st) v = Some (state_appid_find st g) /\
  (exists sh1 sh2, wshape (nullify nd) = Ok sh1 /\ wshape (nullify n) = Ok sh2 /\ node_eqb (fst sh1) (fst sh2) = true) /\
  map (state_find st) (all_occ (nullify n)) = all_occ (nullify nd) /\
  Forall2 (fun cv cg => exists a, sub_get (ms_subst st) cv = Some a /\ eg_eq s0 (state_appid_find st cg) a = Ok true)
          ch (app_occ n).

(* a bound invocation: canonical invocation of a leader class, slots older than the counter, every slot a fresh one or a
   registered pattern slot, and all its slots are (the representatives of) slot occurrences of ONE witness node *)
Definition bnd_ok (s0 : egraph) (c0 : N) (t : egraph) (st : mstate) (ns : list node) (a : appid) : Prop :=
  inv_i s0 t a /\
  (forall x, In x (values_vec (am a)) -> c0 <= x \/ In x (ms_pslots st)) /\
  exists n, In n ns /\ forall x, In x (values_vec (am a)) -> exists y, In y (all_occ n) /\ x = state_find st y.

Definition mp_inv (s0 : egraph) (c0 : N) (t : egraph) (done : mpat) (st : mstate) : Prop :=
  exists ws : list witness,
    uf_ok st /\ sub_norm st /\ ps_roots st /\ keys_fresh c0 st /\
    (forall k, get (ms_uf st) k <> None -> k < Model.ctr t) /\
    (forall x, In x (ms_pslots st) <-> In x (mp_slots done)) /\
    (forall v a, sub_get (ms_subst st) v = Some a -> bnd_ok s0 c0 t st (map fst ws) a) /\
    nodes_apart st (map fst ws) /\
    Forall2 (eq_wit s0 st) done ws.

(* (iii): the slot union-find fixes every pattern slot — pairwise distinct pattern slots stay pairwise distinct *)
Definition ps_fixed (pat : mpat) (st : mstate) : Prop := forall x, In x (mp_slots pat) -> state_find st x = x.

Lemma ps_fixed_inj : forall pat st, ps_fixed pat st -> inj_on (state_find st) (mp_slots pat).
Proof. intros pat st F x y Hx Hy E. rewrite (F x Hx), (F y Hy) in E. exact E. Qed.

Lemma mp_inv_ps_fixed : forall s0 c0 t done st, mp_inv s0 c0 t done st -> ps_fixed done st.
Proof.
  intros s0 c0 t done st (ws & _ & _ & R & _ & _ & P & _) x Hx.
  apply state_find_root. apply R. apply P. exact Hx.
Qed.
