(* EGraph/MultiPatDiseq.v — the disequality constraints of the multi-pattern matcher (MultiPat.v):
   membership specification of `dis_extend`, `add_disjointness_constraint`, `update_state`, and
   preservation of "apartness" by `union_slot`.  No sortedness / distinct-keys invariant is needed. *)
From SE Require Import Slots.SlotMapFacts Lang.LangFacts Base.TextFacts Parse.Parser EGraph.Model EGraph.Rewrite EGraph.MultiPat.
Require Import ZArith Lia List.
Import ListNotations.
Open Scope N_scope.

(* ---- definitions ---- *)
Definition marked (st : mstate) (a b : slot) : Prop :=
  exists S, dis_get (ms_diseq st) a = Some S /\ sset_mem b S = true.
Definition apart (st : mstate) (x y : slot) : Prop :=
  state_find st x <> state_find st y /\
  (marked st (state_find st x) (state_find st y) \/ marked st (state_find st y) (state_find st x)).

(* membership in an association list of sets *)
Definition dmem (d : list (slot * sset)) (k z : slot) : Prop :=
  exists S, dis_get d k = Some S /\ sset_mem z S = true.

Lemma marked_dmem : forall st a b, marked st a b <-> dmem (ms_diseq st) a b.
Proof. intros st a b. unfold marked, dmem. tauto. Qed.

(* ---- sets, without sortedness ---- *)
Lemma sset_union_in : forall b a y, In y (sset_union a b) <-> In y a \/ In y b.
Proof.
  unfold sset_union. intros b. induction b as [|x b IHb]; intros a y.
  - cbn [fold_left In]. tauto.
  - cbn [fold_left In]. rewrite IHb. rewrite sset_insert_in. intuition auto.
Qed.

Lemma sset_of_list_in : forall l y, In y (sset_of_list l) <-> In y l.
Proof. intros l y. apply (proj2 (sset_of_list_spec l)). Qed.

Lemma sset_mem_union : forall a b y,
  sset_mem y (sset_union a b) = true <-> sset_mem y a = true \/ sset_mem y b = true.
Proof. intros a b y. rewrite !sset_mem_in. apply sset_union_in. Qed.

Lemma sset_mem_of_list : forall l y, sset_mem y (sset_of_list l) = true <-> In y l.
Proof. intros l y. rewrite sset_mem_in. apply sset_of_list_in. Qed.

(* ---- D1: dis_extend ---- *)
Lemma dis_get_in : forall d k S, dis_get d k = Some S -> In (k, S) d.
Proof.
  induction d as [|[k0 v] t IHt]; intros k S Hg.
  - discriminate Hg.
  - cbn [dis_get] in Hg. destruct (N.eqb_spec k0 k) as [He|Hne].
    + injection Hg as Hv. subst. left. reflexivity.
    + right. apply IHt. exact Hg.
Qed.

Lemma dis_extend_spec : forall d x vs k z,
  (exists S, dis_get (dis_extend d x vs) k = Some S /\ sset_mem z S = true) <->
  (exists S, dis_get d k = Some S /\ sset_mem z S = true) \/ (k = x /\ In z vs).
Proof.
  induction d as [|[k0 v] t IHt]; intros x vs k z.
  - cbn [dis_extend dis_get]. destruct (N.eqb_spec x k) as [He|Hne].
    + split.
      * intros [S [HS Hm]]. injection HS as HS. subst S. right. split; [symmetry; exact He|].
        apply sset_mem_of_list. exact Hm.
      * intros [[S [HS _]]|[_ Hin]]; [discriminate HS|].
        eexists. split; [reflexivity|]. apply sset_mem_of_list. exact Hin.
    + split.
      * intros [S [HS _]]. discriminate HS.
      * intros [[S [HS _]]|[Hk _]]; [discriminate HS|]. exfalso. apply Hne. symmetry. exact Hk.
  - cbn [dis_extend]. destruct (N.eqb_spec k0 x) as [He|Hne].
    + subst k0. cbn [dis_get]. destruct (N.eqb_spec x k) as [Hk|Hnk].
      * split.
        -- intros [S [HS Hm]]. injection HS as HS. subst S.
           apply sset_mem_union in Hm. destruct Hm as [Hm|Hm].
           ++ left. exists v. split; [reflexivity|exact Hm].
           ++ right. split; [symmetry; exact Hk|]. apply sset_mem_of_list. exact Hm.
        -- intros [[S [HS Hm]]|[_ Hin]].
           ++ injection HS as HS. subst S. eexists. split; [reflexivity|].
              apply sset_mem_union. left. exact Hm.
           ++ eexists. split; [reflexivity|]. apply sset_mem_union. right.
              apply sset_mem_of_list. exact Hin.
      * split.
        -- intros H. left. exact H.
        -- intros [H|[Hk _]]; [exact H|]. exfalso. apply Hnk. symmetry. exact Hk.
    + cbn [dis_get]. destruct (N.eqb_spec k0 k) as [Hk|Hnk].
      * split.
        -- intros H. left. exact H.
        -- intros [H|[Hkx _]]; [exact H|]. exfalso. apply Hne. rewrite Hk. exact Hkx.
      * apply IHt.
Qed.

Lemma dis_extend_dmem : forall d x vs k z,
  dmem (dis_extend d x vs) k z <-> dmem d k z \/ (k = x /\ In z vs).
Proof. intros. apply dis_extend_spec. Qed.

(* generic fold *)
Lemma dis_fold_spec : forall (A : Type) (g : A -> slot) (h : A -> list slot) (l : list A) d0 k z,
  dmem (fold_left (fun d e => dis_extend d (g e) (h e)) l d0) k z <->
  dmem d0 k z \/ (exists e, In e l /\ k = g e /\ In z (h e)).
Proof.
  intros A g h l. induction l as [|e l IHl]; intros d0 k z.
  - cbn [fold_left In]. split; [intros H; left; exact H|].
    intros [H|[e [[] _]]]. exact H.
  - cbn [fold_left]. rewrite IHl. rewrite dis_extend_dmem. split.
    + intros [[H|[Hk Hz]]|[e' [Hin [Hk Hz]]]].
      * left. exact H.
      * right. exists e. split; [left; reflexivity|]. split; assumption.
      * right. exists e'. split; [right; exact Hin|]. split; assumption.
    + intros [H|[e' [[He|Hin] [Hk Hz]]]].
      * left. left. exact H.
      * subst e'. left. right. split; assumption.
      * right. exists e'. split; [exact Hin|]. split; assumption.
Qed.

(* the fold of update_state *)
Lemma dis_fold_map_spec : forall (f : slot -> slot) (l : list (slot * sset)) d0 k z,
  (exists S, dis_get (fold_left (fun d (e : slot * sset) => dis_extend d (f (fst e)) (map f (snd e))) l d0) k = Some S
             /\ sset_mem z S = true) <->
  (exists S, dis_get d0 k = Some S /\ sset_mem z S = true) \/
  (exists e, In e l /\ k = f (fst e) /\ exists z0, In z0 (snd e) /\ z = f z0).
Proof.
  intros f l d0 k z.
  pose proof (dis_fold_spec (slot * sset) (fun e => f (fst e)) (fun e => map f (snd e)) l d0 k z) as H.
  unfold dmem in H. rewrite H. split.
  - intros [H0|[e [Hin [Hk Hz]]]]; [left; exact H0|].
    right. exists e. split; [exact Hin|]. split; [exact Hk|].
    apply in_map_iff in Hz. destruct Hz as [z0 [Hz0 Hin0]]. exists z0. split; [exact Hin0|symmetry; exact Hz0].
  - intros [H0|[e [Hin [Hk [z0 [Hin0 Hz0]]]]]]; [left; exact H0|].
    right. exists e. split; [exact Hin|]. split; [exact Hk|].
    apply in_map_iff. exists z0. split; [symmetry; exact Hz0|exact Hin0].
Qed.

(* ---- D2: add_disjointness_constraint ---- *)
Lemma adc_uf : forall set st, ms_uf (add_disjointness_constraint set st) = ms_uf st.
Proof. reflexivity. Qed.
Lemma adc_subst : forall set st, ms_subst (add_disjointness_constraint set st) = ms_subst st.
Proof. reflexivity. Qed.
Lemma adc_pslots : forall set st, ms_pslots (add_disjointness_constraint set st) = ms_pslots st.
Proof. reflexivity. Qed.
Lemma adc_find : forall set st z, state_find (add_disjointness_constraint set st) z = state_find st z.
Proof. reflexivity. Qed.

Lemma adc_marked_iff : forall set st a b,
  marked (add_disjointness_constraint set st) a b <->
  marked st a b \/ (In a set /\ In b set /\ b <> a).
Proof.
  intros set st a b. rewrite !marked_dmem.
  unfold add_disjointness_constraint. cbn [ms_diseq].
  rewrite (dis_fold_spec slot (fun x => x) (fun x => filter (fun y => negb (y =? x)) set) set (ms_diseq st) a b).
  split.
  - intros [H|[e [Hin [Hk Hz]]]]; [left; exact H|]. subst e. right.
    apply filter_In in Hz. destruct Hz as [Hb Hne]. split; [exact Hin|]. split; [exact Hb|].
    destruct (N.eqb_spec b a) as [He|Hn]; [discriminate Hne|exact Hn].
  - intros [H|[Ha [Hb Hne]]]; [left; exact H|]. right. exists a. split; [exact Ha|]. split; [reflexivity|].
    apply filter_In. split; [exact Hb|]. destruct (N.eqb_spec b a) as [He|Hn]; [contradiction|reflexivity].
Qed.

Lemma adc_marked_mono : forall set st a b, marked st a b -> marked (add_disjointness_constraint set st) a b.
Proof. intros set st a b H. apply adc_marked_iff. left. exact H. Qed.

Lemma adc_marked_new : forall set st x y, In x set -> In y set -> x <> y ->
  marked (add_disjointness_constraint set st) x y.
Proof.
  intros set st x y Hx Hy Hne. apply adc_marked_iff. right. split; [exact Hx|]. split; [exact Hy|].
  intros He. apply Hne. symmetry. exact He.
Qed.

Lemma adc_apart_mono : forall set st x y, apart st x y -> apart (add_disjointness_constraint set st) x y.
Proof.
  intros set st x y [Hne Hm]. unfold apart. rewrite !adc_find. split; [exact Hne|].
  destruct Hm as [Hm|Hm]; [left|right]; apply adc_marked_mono; exact Hm.
Qed.

Lemma adc_apart_new : forall set st x y, In x set -> In y set -> x <> y ->
  state_find st x = x -> state_find st y = y -> apart (add_disjointness_constraint set st) x y.
Proof.
  intros set st x y Hx Hy Hne Hfx Hfy. unfold apart. rewrite !adc_find, Hfx, Hfy.
  split; [exact Hne|]. left. apply adc_marked_new; assumption.
Qed.

(* ---- D3: update_state ---- *)
Lemma update_state_uf : forall st1, ms_uf (update_state st1) = ms_uf st1.
Proof. reflexivity. Qed.
Lemma update_state_pslots : forall st1, ms_pslots (update_state st1) = ms_pslots st1.
Proof. reflexivity. Qed.
Lemma update_state_find : forall st1 z, state_find (update_state st1) z = state_find st1 z.
Proof. reflexivity. Qed.

Lemma update_state_marked_iff : forall st1 k z,
  marked (update_state st1) k z <->
  exists e, In e (ms_diseq st1) /\ k = state_find st1 (fst e) /\
            exists z0, In z0 (snd e) /\ z = state_find st1 z0.
Proof.
  intros st1 k z. unfold marked, update_state. cbn [ms_diseq].
  rewrite (dis_fold_map_spec (state_find st1) (ms_diseq st1) [] k z). split.
  - intros [[S [HS _]]|H]; [discriminate HS|exact H].
  - intros H. right. exact H.
Qed.

Lemma update_state_marked : forall st1 a b,
  marked st1 a b -> marked (update_state st1) (state_find st1 a) (state_find st1 b).
Proof.
  intros st1 a b [S [HS Hm]]. apply update_state_marked_iff.
  exists (a, S). split; [apply dis_get_in; exact HS|]. split; [reflexivity|].
  exists b. split; [apply sset_mem_in; exact Hm|reflexivity].
Qed.

(* ---- bridge: the boolean test of union_slot ---- *)
Lemma marked_test_false : forall st a b,
  (match dis_get (ms_diseq st) a with Some xx => sset_mem b xx | None => false end) = false <-> ~ marked st a b.
Proof.
  intros st a b. unfold marked. destruct (dis_get (ms_diseq st) a) as [xx|].
  - split.
    + intros Hf [S [HS Hm]]. injection HS as HS. subst S. rewrite Hf in Hm. discriminate Hm.
    + intros Hn. destruct (sset_mem b xx) eqn:Hm; [|reflexivity].
      exfalso. apply Hn. exists xx. split; [reflexivity|exact Hm].
  - split; [|reflexivity]. intros _ [S [HS _]]. discriminate HS.
Qed.

Lemma marked_test_true : forall st a b,
  (match dis_get (ms_diseq st) a with Some xx => sset_mem b xx | None => false end) = true <-> marked st a b.
Proof.
  intros st a b. unfold marked. destruct (dis_get (ms_diseq st) a) as [xx|].
  - split.
    + intros Hm. exists xx. split; [reflexivity|exact Hm].
    + intros [S [HS Hm]]. injection HS as HS. subst S. exact Hm.
  - split; [discriminate|]. intros [S [HS _]]. discriminate HS.
Qed.

(* ---- D4: a union step preserves apartness ---- *)
Definition uf_insert_state (st : mstate) (a b : slot) : mstate :=
  {| ms_pslots := ms_pslots st; ms_diseq := ms_diseq st; ms_subst := ms_subst st;
     ms_uf := insert a b (ms_uf st) |}.

(* minimal premises *)
Lemma update_union_apart_gen : forall st a b,
  (forall z, state_find st (state_find st z) = state_find st z) ->
  (forall z, state_find (uf_insert_state st a b) z = (if state_find st z =? a then b else state_find st z)) ->
  ~ marked st a b -> ~ marked st b a ->
  forall x y, apart st x y -> apart (update_state (uf_insert_state st a b)) x y.
Proof.
  intros st a b Hidem Hf Hab Hba x y [Hne Hm].
  set (st1 := uf_insert_state st a b) in *.
  assert (Hm1 : forall p q, marked st p q -> marked st1 p q) by (intros p q H; exact H).
  assert (Hfx : state_find st1 (state_find st x) = state_find st1 x)
    by (rewrite !Hf, Hidem; reflexivity).
  assert (Hfy : state_find st1 (state_find st y) = state_find st1 y)
    by (rewrite !Hf, Hidem; reflexivity).
  unfold apart. rewrite !update_state_find. split.
  - rewrite !Hf.
    destruct (N.eqb_spec (state_find st x) a) as [Hxa|Hxa];
      destruct (N.eqb_spec (state_find st y) a) as [Hya|Hya].
    + exfalso. apply Hne. rewrite Hxa, Hya. reflexivity.
    + intros Hb. rewrite Hxa, <- Hb in Hm. destruct Hm as [Hm|Hm]; [apply Hab|apply Hba]; exact Hm.
    + intros Hb. rewrite Hya, Hb in Hm. destruct Hm as [Hm|Hm]; [apply Hba|apply Hab]; exact Hm.
    + exact Hne.
  - destruct Hm as [Hm|Hm]; [left|right].
    + rewrite <- Hfx, <- Hfy. apply update_state_marked. apply Hm1. exact Hm.
    + rewrite <- Hfx, <- Hfy. apply update_state_marked. apply Hm1. exact Hm.
Qed.

(* the statement as requested (a <> b, Hra, Hrb are not used) *)
Lemma update_union_apart : forall st a b, a <> b ->
  forall st1, st1 = {| ms_pslots := ms_pslots st; ms_diseq := ms_diseq st; ms_subst := ms_subst st;
                       ms_uf := insert a b (ms_uf st) |} ->
  forall st', st' = update_state st1 ->
  (forall z, state_find st (state_find st z) = state_find st z) ->
  (forall z, state_find st1 z = (if state_find st z =? a then b else state_find st z)) ->
  ~ marked st a b -> ~ marked st b a ->
  state_find st a = a -> state_find st b = b ->
  forall x y, apart st x y -> apart st' x y.
Proof.
  intros st a b _ st1 E1 st' E' Hidem Hf Hab Hba _ _ x y Hap. subst st' st1.
  apply (update_union_apart_gen st a b Hidem Hf Hab Hba x y Hap).
Qed.

(* ---- D5: union_slot ---- *)
Lemma union_slot_same : forall st x y, state_find st x = state_find st y -> union_slot x y st = Some st.
Proof. intros st x y He. unfold union_slot. rewrite He, N.eqb_refl. reflexivity. Qed.

(* shape of a successful union_slot *)
Lemma union_slot_cases : forall st x y st', union_slot x y st = Some st' ->
  (state_find st x = state_find st y /\ st' = st) \/
  (state_find st x <> state_find st y /\
   ~ marked st (state_find st x) (state_find st y) /\ ~ marked st (state_find st y) (state_find st x) /\
   ((allows_directed_union (state_find st x) st = true /\
     st' = update_state (uf_insert_state st (state_find st x) (state_find st y))) \/
    (allows_directed_union (state_find st x) st = false /\ allows_directed_union (state_find st y) st = true /\
     st' = update_state (uf_insert_state st (state_find st y) (state_find st x))))).
Proof.
  intros st x y st' Hu. unfold union_slot in Hu.
  destruct (N.eqb_spec (state_find st x) (state_find st y)) as [He|Hne].
  - left. injection Hu as Hu. split; [exact He|symmetry; exact Hu].
  - right. split; [exact Hne|].
    destruct (match dis_get (ms_diseq st) (state_find st x) with
              | Some xx => sset_mem (state_find st y) xx | None => false end) eqn:T1; [discriminate Hu|].
    destruct (match dis_get (ms_diseq st) (state_find st y) with
              | Some yy => sset_mem (state_find st x) yy | None => false end) eqn:T2; [discriminate Hu|].
    apply marked_test_false in T1. apply marked_test_false in T2.
    split; [exact T1|]. split; [exact T2|].
    destruct (allows_directed_union (state_find st x) st) eqn:A1.
    + rewrite A1 in Hu. cbn [negb] in Hu. injection Hu as Hu. left. split; [reflexivity|symmetry; exact Hu].
    + destruct (allows_directed_union (state_find st y) st) eqn:A2.
      * cbn [negb] in Hu. injection Hu as Hu. right. split; [reflexivity|]. split; [reflexivity|symmetry; exact Hu].
      * cbn [negb] in Hu. discriminate Hu.
Qed.

Lemma union_slot_apart : forall st x y st',
  (forall z, state_find st (state_find st z) = state_find st z) ->
  (forall a b, a <> b -> state_find st a = a -> state_find st b = b ->
     forall z, state_find {| ms_pslots := ms_pslots st; ms_diseq := ms_diseq st; ms_subst := ms_subst st;
                             ms_uf := insert a b (ms_uf st) |} z
               = (if state_find st z =? a then b else state_find st z)) ->
  union_slot x y st = Some st' -> forall p q, apart st p q -> apart st' p q.
Proof.
  intros st x y st' Hidem Hfuel Hu p q Hap.
  apply union_slot_cases in Hu.
  destruct Hu as [[_ E]|[Hne [Hxy [Hyx [[_ E]|[_ [_ E]]]]]]].
  - subst st'. exact Hap.
  - subst st'. apply update_union_apart_gen; try assumption.
    apply (Hfuel (state_find st x) (state_find st y) Hne (Hidem x) (Hidem y)).
  - subst st'. apply update_union_apart_gen; try assumption.
    apply (Hfuel (state_find st y) (state_find st x)); [|apply Hidem|apply Hidem].
    intros E. apply Hne. symmetry. exact E.
Qed.

Lemma union_slot_not_apart : forall st x y st', union_slot x y st = Some st' -> ~ apart st x y.
Proof.
  intros st x y st' Hu [Hne Hm]. apply union_slot_cases in Hu.
  destruct Hu as [[He _]|[_ [Hxy [Hyx _]]]].
  - apply Hne. exact He.
  - destruct Hm as [Hm|Hm]; [apply Hxy|apply Hyx]; exact Hm.
Qed.

Lemma union_slot_apart_find_ne : forall st x y st',
  (forall z, state_find st (state_find st z) = state_find st z) ->
  (forall a b, a <> b -> state_find st a = a -> state_find st b = b ->
     forall z, state_find {| ms_pslots := ms_pslots st; ms_diseq := ms_diseq st; ms_subst := ms_subst st;
                             ms_uf := insert a b (ms_uf st) |} z
               = (if state_find st z =? a then b else state_find st z)) ->
  forall p q, apart st p q -> union_slot x y st = Some st' -> state_find st' p <> state_find st' q.
Proof.
  intros st x y st' Hidem Hfuel p q Hap Hu.
  exact (proj1 (union_slot_apart st x y st' Hidem Hfuel Hu p q Hap)).
Qed.

(* ---- D6: pattern-slot insertion ---- *)
Definition pslot_insert_state (x1 : slot) (st : mstate) : mstate :=
  {| ms_pslots := sset_insert x1 (ms_pslots st); ms_diseq := ms_diseq st;
     ms_subst := ms_subst st; ms_uf := ms_uf st |}.

Lemma pslot_insert_find : forall x1 st z,
  state_find {| ms_pslots := sset_insert x1 (ms_pslots st); ms_diseq := ms_diseq st;
                ms_subst := ms_subst st; ms_uf := ms_uf st |} z = state_find st z.
Proof. reflexivity. Qed.

Lemma pslot_insert_marked : forall x1 st a b,
  marked {| ms_pslots := sset_insert x1 (ms_pslots st); ms_diseq := ms_diseq st;
            ms_subst := ms_subst st; ms_uf := ms_uf st |} a b <-> marked st a b.
Proof. intros. unfold marked. cbn [ms_diseq]. tauto. Qed.

Lemma pslot_insert_apart : forall x1 st x y,
  apart {| ms_pslots := sset_insert x1 (ms_pslots st); ms_diseq := ms_diseq st;
           ms_subst := ms_subst st; ms_uf := ms_uf st |} x y <-> apart st x y.
Proof.
  intros x1 st x y. unfold apart. rewrite !pslot_insert_find, !pslot_insert_marked. tauto.
Qed.

Print Assumptions dis_extend_spec.
Print Assumptions dis_fold_map_spec.
Print Assumptions adc_marked_iff.
Print Assumptions adc_apart_mono.
Print Assumptions adc_apart_new.
Print Assumptions update_state_marked.
Print Assumptions marked_test_false.
Print Assumptions update_union_apart.
Print Assumptions union_slot_apart.
Print Assumptions union_slot_not_apart.
Print Assumptions union_slot_apart_find_ne.
Print Assumptions pslot_insert_apart.
