(* EGraph/MultiPatFacts.v — C05, THE MULTI-PATTERN CLAUSE: "every substitution returned by the (repaired) multi-pattern
   matcher satisfies all equations of the multi-pattern".

   `multi_matches_satisfy_equations` (CLOSED: no hypothesis; `multi_matches_from_step` is the Section form from `mp_step_ok s`,
   which `mp_step_ok_proved` of MultiPatStep.v discharges):
       match_inv s -> ss_ok s -> mp_arity pat -> mp_below (Model.ctr s) pat -> multi_ematch true pat s = Ok (l, s') ->
       (iv) unionfind/classes/hashcons/pending of s' = those of s, Model.ctr s <= Model.ctr s'  /\
       forall sb, In sb l -> exists st, sb = ms_subst st /\
         (iii) ps_fixed pat st  (the slot union-find of the final matcher state fixes every pattern slot: pairwise distinct
               pattern slots stay pairwise distinct, `ps_fixed_inj`) /\
         forall (v, nd, ch) in pat:  (i) ?v and all child variables are bound in sb /\
               (ii) exists a c, sub_get sb v = Some a /\ lookup_pat s' (PNode nd (map PVarP ch)) sb = Ok (Some c) /\
                                eg_eq s' c a = Ok true          (exactly what machine eg5 evaluates per run: `mpat_obs`).
   PROVED OUTRIGHT (no hypothesis, every `norm`): (i) `multi_ematch_binds` and (iv) `multi_ematch_state` (MultiPatState.v).
   PROVED: the invariant `mp_inv` (MultiPatDefs.v) holds initially (`mp_inv_init`), is monotone in the counter
   (`mp_inv_mono`), implies (ii) for every processed equation (`wit_sound`, MultiPatSound.v; uses `inst_lookup` of
   MultiPatRen.v = lookup_ren_map + lookup_kid_eq) and (iii) (`mp_inv_ps_fixed`), and the induction over the equations
   (`multi_go_inv_all`).
   The hypothesis of Section StepHyp,  mp_step_ok s := one equation step `multi_ematch_step true e` preserves `mp_inv`
   (validated executably, MultiPatChk.v, after every equation of every run), is PROVED in MultiPatStep*.v
   (`mp_step_ok_proved`: class phase, add_disjointness_constraint, matches_raw, children loop with unify) from: MultiPatListed.v (`listed_lookup`, `listed_slots`: the K1 fact for the
   listed node itself and the freshness of its slots), MultiPatUf.v (the slot union-find: `union_slot_spec`,
   `matches_raw_spec`), MultiPatDiseq.v (disequality constraints survive unions: `union_slot_apart`), MultiPatRedirect.v
   (covers / eg_eq / kid_eq under a renaming injective on the values), MultiPatUnion.v (each clause of the invariant is
   preserved by one union), MultiPatUnify.v (`unify_spec`, `kids_go_ind`).
   The conclusion FAILS for the pinned matcher (`norm = false`) on the witness of C05_legacy_multi_ematch_refuted:
   `legacy_conclusion_fails` (vm_compute). *)
From SE Require Import Slots.SlotMapFacts Lang.LangFacts Lang.ShapeFacts Parse.Parser EGraph.Model EGraph.ModelFacts EGraph.ModelMachine
  EGraph.Rewrite EGraph.RewriteFacts EGraph.MatchDefs EGraph.MultiPat EGraph.MatchMachine EGraph.ProgressFacts EGraph.MatchFacts EGraph.MatchLookup
  EGraph.MatchComplete EGraph.CongruenceFacts EGraph.MatchReprFacts EGraph.OpsPreFacts
  EGraph.MatchReprAllDefs EGraph.MatchReprAllTop
  EGraph.MultiPatUf EGraph.MultiPatDiseq EGraph.MultiPatRen EGraph.MultiPatDefs EGraph.MultiPatState EGraph.MultiPatSound
  EGraph.MultiPatStep EGraph.MultiPatChk.
Require Import ZArith Lia.

(* ------------------------------------------------------------------ *)
(* 1. the invariant: initial state, monotonicity in the counter *)

Lemma mp_inv_init : forall s0 c0 t, mp_inv s0 c0 t [] mstate0.
Proof.
  intros s0 c0 t. exists []. split; [exact uf_ok_mstate0|].
  split; [intros v a x Hin; destruct Hin|]. split; [intros x Hx; destruct Hx|].
  split; [intros k Hk; exfalso; apply Hk; reflexivity|]. split; [intros k Hk; exfalso; apply Hk; reflexivity|].
  split; [intros x; split; intros Hx; destruct Hx|]. split; [intros v a G; discriminate G|].
  split; [intros n x y Hn; destruct Hn|constructor].
Qed.

Lemma mp_inv_mono : forall s0 c0 t t' done st, Model.ctr t <= Model.ctr t' -> mp_inv s0 c0 t done st -> mp_inv s0 c0 t' done st.
Proof.
  intros s0 c0 t t' done st L (ws & U & Nm & R & Kf & Kb & P & B & A & W).
  exists ws. split; [exact U|]. split; [exact Nm|]. split; [exact R|]. split; [exact Kf|].
  split; [intros k Hk; pose proof (Kb k Hk); lia|]. split; [exact P|]. split; [|split; [exact A|exact W]].
  intros v a G. destruct (B v a G) as (I & H2 & H3). split; [exact (inv_i_mono _ _ _ _ L I)|split; [exact H2|exact H3]].
Qed.

(* ------------------------------------------------------------------ *)
(* 2. the step hypothesis and the induction over the equations *)

Definition mp_step_ok (s0 : egraph) : Prop :=
  forall done e st t l t', sg_ge s0 t -> mp_arity (done ++ [e]) -> mp_below (Model.ctr s0) (done ++ [e]) ->
    mp_inv s0 (Model.ctr s0) t done st -> multi_ematch_step true e st t = Ok (l, t') ->
    forall st', In st' l -> mp_inv s0 (Model.ctr s0) t' (done ++ [e]) st'.

Lemma mp_arity_app_l : forall a b, mp_arity (a ++ b) -> mp_arity a.
Proof. intros a b H v nd ch Hin. apply (H v nd ch). apply in_or_app. left. exact Hin. Qed.
Lemma mp_below_app_l : forall B a b, mp_below B (a ++ b) -> mp_below B a.
Proof.
  intros B a b H x Hx. apply H. unfold mp_slots in *. apply in_flat_map in Hx. destruct Hx as (e & He & Hx).
  apply in_flat_map. exists e. split; [apply in_or_app; left; exact He|exact Hx].
Qed.

Lemma sg_ge_R2' : forall s0 t t', sg_ge s0 t -> R2 t t' -> sg_ge s0 t'.
Proof. intros s0 t t' [G L] [G' L']. unfold cle in L'. split; [eapply same_graph_trans; eauto|lia]. Qed.

Section StepHyp.
  Variable s0 : egraph.
  Hypothesis H_step : mp_step_ok s0.

  Lemma multi_go_inv_all : forall pat done states t l t', sg_ge s0 t ->
    mp_arity (done ++ pat) -> mp_below (Model.ctr s0) (done ++ pat) ->
    (forall st, In st states -> mp_inv s0 (Model.ctr s0) t done st) ->
    multi_ematch_go true pat states t = Ok (l, t') ->
    forall st', In st' l -> mp_inv s0 (Model.ctr s0) t' (done ++ pat) st'.
  Proof.
    induction pat as [|e pt IH]; intros done states t l t' R Ar Be Hst H st' Hin.
    - apply multi_go_nil_inv in H. destruct H as [-> ->]. rewrite app_nil_r. exact (Hst _ Hin).
    - destruct (multi_go_inv _ _ _ _ _ _ _ H) as (next & s1 & Hn & Hgo).
      assert (E : done ++ e :: pt = (done ++ [e]) ++ pt) by (rewrite <- app_assoc; reflexivity).
      rewrite E in *.
      pose proof (r2_flat_mapM _ _ (multi_ematch_step true e) states (fun a => r2_multi_step true e a) _ _ _ Hn) as R01.
      apply (IH (done ++ [e]) next s1 l t' (sg_ge_R2' _ _ _ R R01) Ar Be); [|exact Hgo|exact Hin].
      intros a' Ha'.
      destruct (flat_mapM_inv2 _ _ _ _ _ _ _ (fun a => r2_multi_step true e a) Hn a' Ha') as (a0 & sa & ra & sb & Ha0 & Ra & Hm & Hra & Rb).
      apply (mp_inv_mono s0 _ sb s1); [exact (proj2 Rb)|].
      apply (H_step done e a0 sa ra sb (sg_ge_R2' _ _ _ R Ra) (mp_arity_app_l _ _ Ar) (mp_below_app_l _ _ _ Be)); [|exact Hm|exact Hra].
      apply (mp_inv_mono s0 _ t sa); [exact (proj2 Ra)|]. exact (Hst _ Ha0).
  Qed.

  (* THE MULTI-PATTERN CLAUSE of C05 *)
  Theorem multi_matches_from_step : forall pat, match_inv s0 -> ss_ok s0 ->
    mp_arity pat -> mp_below (Model.ctr s0) pat ->
    forall l s', multi_ematch true pat s0 = Ok (l, s') ->
    (unionfind s' = unionfind s0 /\ classes s' = classes s0 /\ hashcons s' = hashcons s0 /\ pending s' = pending s0 /\
     Model.ctr s0 <= Model.ctr s') /\
    forall sb, In sb l -> exists st, sb = ms_subst st /\ ps_fixed pat st /\
      forall v nd ch, In (v, nd, ch) pat ->
        (sub_get sb v <> None /\ forall cv, In cv ch -> sub_get sb cv <> None) /\
        exists a c, sub_get sb v = Some a /\ lookup_pat s' (PNode nd (map PVarP ch)) sb = Ok (Some c) /\ eg_eq s' c a = Ok true.
  Proof.
    intros pat MI SS Ar Be l s' H. split; [exact (multi_ematch_state true pat s0 l s' H)|].
    intros sb Hsb. pose proof (multi_ematch_binds true pat s0 l s' Ar H sb Hsb) as Bd.
    pose proof (r2_multi_ematch true pat _ _ _ H) as [SG _].
    destruct (multi_ematch_inv _ _ _ _ _ H) as (sts & Hgo & ->).
    apply in_map_iff in Hsb. destruct Hsb as (st & <- & Hst).
    assert (Inv : mp_inv s0 (Model.ctr s0) s' pat st).
    { apply (multi_go_inv_all pat [] [mstate0] s0 sts s' (sg_ge_refl s0) Ar Be); [|exact Hgo|exact Hst].
      intros a [<-|[]]. apply mp_inv_init. }
    exists st. split; [reflexivity|]. split; [exact (mp_inv_ps_fixed _ _ _ _ _ Inv)|].
    intros v nd ch Hin. split; [exact (Bd v nd ch Hin)|].
    pose proof (wit_sound s0 _ s' pat st MI SS Ar Inv (v, nd, ch) Hin) as (_ & a & c & G & L & E).
    exists a, c. split; [exact G|]. split.
    - rewrite (lookup_pat_sg s0 s' _ _ SG). exact L.
    - rewrite (eg_eq_sg s0 s' _ _ SG). exact E.
  Qed.

  (* the conclusion as the machine evaluates it: every equation is satisfied *)
  Corollary multi_matches_eqn_sat_from_step : forall pat, match_inv s0 -> ss_ok s0 -> mp_arity pat -> mp_below (Model.ctr s0) pat ->
    forall l s', multi_ematch true pat s0 = Ok (l, s') -> forall sb, In sb l -> forall e, In e pat -> eqn_sat s' sb e.
  Proof.
    intros pat MI SS Ar Be l s' H sb Hsb [[v nd] ch] Hin.
    destruct (multi_matches_from_step pat MI SS Ar Be l s' H) as (_ & C).
    destruct (C sb Hsb) as (st & _ & _ & Q). destruct (Q v nd ch Hin) as ((_ & Bc) & a & c & G & L & E).
    split; [exact Bc|]. exists a, c. split; [exact G|split; [exact L|exact E]].
  Qed.
End StepHyp.

(* ------------------------------------------------------------------ *)
(* 2b. the step hypothesis is PROVED (MultiPatStep.v): the closed theorems *)

Lemma mp_step_ok_closed : forall s, match_inv s -> ss_ok s -> mp_step_ok s.
Proof. intros s MI SS. exact (mp_step_ok_proved s MI SS). Qed.

(* THE MULTI-PATTERN CLAUSE of C05, for the repaired matcher *)
Theorem multi_matches_satisfy_equations : forall s pat, match_inv s -> ss_ok s ->
  mp_arity pat -> mp_below (Model.ctr s) pat ->
  forall l s', multi_ematch true pat s = Ok (l, s') ->
  (unionfind s' = unionfind s /\ classes s' = classes s /\ hashcons s' = hashcons s /\ pending s' = pending s /\
   Model.ctr s <= Model.ctr s') /\
  forall sb, In sb l -> exists st, sb = ms_subst st /\ ps_fixed pat st /\
    forall v nd ch, In (v, nd, ch) pat ->
      (sub_get sb v <> None /\ forall cv, In cv ch -> sub_get sb cv <> None) /\
      exists a c, sub_get sb v = Some a /\ lookup_pat s' (PNode nd (map PVarP ch)) sb = Ok (Some c) /\ eg_eq s' c a = Ok true.
Proof. intros s pat MI SS. exact (multi_matches_from_step s (mp_step_ok_closed s MI SS) pat MI SS). Qed.

Corollary multi_matches_eqn_sat : forall s pat, match_inv s -> ss_ok s -> mp_arity pat -> mp_below (Model.ctr s) pat ->
  forall l s', multi_ematch true pat s = Ok (l, s') -> forall sb, In sb l -> forall e, In e pat -> eqn_sat s' sb e.
Proof. intros s pat MI SS. exact (multi_matches_eqn_sat_from_step s (mp_step_ok_closed s MI SS) pat MI SS). Qed.

(* for every state of a run over statically well-formed terms *)
Theorem multi_matches_satisfy_equations_reachable : forall terms ops hs s pat,
  Forall term_static terms -> run_ops terms ops [] empty_egraph = Ok (hs, s) ->
  mp_arity pat -> mp_below (Model.ctr s) pat ->
  forall l s', multi_ematch true pat s = Ok (l, s') ->
  (unionfind s' = unionfind s /\ classes s' = classes s /\ hashcons s' = hashcons s /\ pending s' = pending s /\
   Model.ctr s <= Model.ctr s') /\
  forall sb, In sb l -> exists st, sb = ms_subst st /\ ps_fixed pat st /\
    forall v nd ch, In (v, nd, ch) pat ->
      (sub_get sb v <> None /\ forall cv, In cv ch -> sub_get sb cv <> None) /\
      exists a c, sub_get sb v = Some a /\ lookup_pat s' (PNode nd (map PVarP ch)) sb = Ok (Some c) /\ eg_eq s' c a = Ok true.
Proof.
  intros terms ops hs s pat HT Hrun.
  destruct (reachable_match_inv_ss terms ops hs s HT Hrun) as [MI SS].
  exact (multi_matches_satisfy_equations s pat MI SS).
Qed.

(* ------------------------------------------------------------------ *)
(* 3. the fix is what makes it true: on the witness of C05_legacy_multi_ematch_refuted the premises hold (executable
      forms) and the conclusion (`mp_concl_okb` = same graph + every equation of every returned substitution satisfied)
      FAILS for the pinned matcher and holds for the repaired one *)
Example legacy_conclusion_fails :
  valid_stateb c05_state && ss_okb c05_state = true /\ mp_belowb (Model.ctr c05_state) c05_mpat = true /\ mp_arityb c05_mpat = true /\
  mp_concl_okb false c05_mpat c05_state = false /\ mp_concl_okb true c05_mpat c05_state = true /\
  ghost_report false c05_state c05_mpat = Some (1, 1, false) /\ ghost_report true c05_state c05_mpat = Some (1, 1, true).
Proof. vm_compute. repeat split; reflexivity. Qed.

Print Assumptions mp_inv_init.
Print Assumptions mp_inv_mono.
Print Assumptions multi_go_inv_all.
Print Assumptions multi_matches_from_step.
Print Assumptions mp_step_ok_closed.
Print Assumptions multi_matches_satisfy_equations.
Print Assumptions multi_matches_eqn_sat.
Print Assumptions multi_matches_satisfy_equations_reachable.
Print Assumptions legacy_conclusion_fails.
