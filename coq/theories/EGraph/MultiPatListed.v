(* EGraph/MultiPatListed.v — facts on the nodes that `enodes_applied i` lists, for the LISTED NODE ITSELF (no weak variant):
   `listed_lookup`: the K1 statement of MatchReprAllK1.v (`variant_lookup`) for nn itself;
   `listed_slots`: every slot occurrence of a listed node is a value of the invocation or was drawn fresh by the call. *)
From SE Require Import Slots.SlotMapFacts Group.GroupSound Lang.LangFacts Lang.ShapeFacts Lang.RenameFacts
  Base.TextFacts Parse.Parser EGraph.Model EGraph.ModelFacts EGraph.ModelMachine EGraph.UnionFindFacts
  EGraph.InvariantFacts EGraph.UnionInvariantFacts EGraph.AddCoversFacts EGraph.HashconsShape EGraph.Mod4Facts
  EGraph.HashconsAbs EGraph.HashconsFacts EGraph.Rewrite EGraph.RewriteFacts EGraph.MatchDefs EGraph.MatchMachine
  EGraph.ProgressFacts EGraph.MatchFacts EGraph.SoundUnion EGraph.MonotoneFacts EGraph.MatchLookup
  EGraph.NodeCong EGraph.KidEqFacts EGraph.ShapeCong EGraph.CongruenceFacts EGraph.MatchComplete
  EGraph.MatchReprFix EGraph.MatchReprAlg EGraph.StoredLive EGraph.KidsFacts EGraph.PendingFacts EGraph.SoundAddExpr
  EGraph.MatchReprFacts EGraph.MatchReprAllDefs EGraph.MatchReprAllK1.
Require Import ZArith Lia ZifyBool ZifyN ZifyNat.

Local Notation "a ** b" := (compose_partial a b) (at level 40, left associativity).

(* ------------------------------------------------------------------ *)
(* GOAL 1 *)

Theorem listed_lookup : forall s, match_inv s -> ss_ok s ->
  forall i t nns t' nn, sg_ge s t -> inv_i s t i -> enodes_applied i t = Ok (nns, t') -> In nn nns ->
    clean nn /\ NoDup (binders nn) /\ (forall a, In a (app_occ nn) -> inv_i s t' a) /\
    (forall x, In x (values_vec (am i)) -> In x (pub_occ nn)) /\
    exists b0, eg_lookup s nn = Ok (Some b0) /\ eg_eq s b0 i = Ok true /\ wf (am b0) /\
               (forall x, In x (values_vec (am b0)) -> In x (values_vec (am i))).
Proof.
  intros s [I3 K0 M4f Hhc Hpe Hlv] SS i t nns t' nn R [[Li Ci] Vi] Hen Hnn.
  pose proof (m4_cls4 _ M4f) as M4.
  assert (EI : eg_inv s) by (destruct I3 as [[EI _] _]; exact EI).
  assert (NO : nodes_ok s) by exact (proj2 I3).
  pose proof Ci as (c & Hc & Gc & Wi & Bi & Ki).
  assert (R' : Rel s t) by exact R.
  assert (Cbi : MatchFacts.cb s t i).
  { split; [split; [exact (canon_covers _ _ Ci)|exact Wi]|exact Vi]. }
  destruct (listed_gen s I3 K0 M4 Hhc Hpe i c t nns t' nn R' Hc Cbi Hen Hnn)
    as (Rt' & Fcb & Ck & sh & bij & src & b_nn & Hin & Cl & Nd & Wnn & (bsh & Hsh) & Pub & Bnn).
  assert (Fnn : find_enode s nn = Ok nn).
  { unfold find_enode. rewrite (mapr_id (find_applied_id s) (app_occ nn)).
    - cbn [bind]. rewrite set_apps_self. reflexivity.
    - intros a Ha. apply lkid_fixed; [apply (ei_uf _ EI)|exact (proj1 (Ck a Ha))]. }
  (* the variants of nn exist since its shape does *)
  pose proof Hsh as Wp2. unfold shape, pre_shape in Wp2. rewrite Fnn in Wp2. cbn [bind] in Wp2.
  destruct (variants s nn) as [all|] eqn:Hall; cbn [bind] in Wp2; [|discriminate].
  destruct (min_variant all None) as [p2|] eqn:P2; cbn [bind] in Wp2; [|discriminate].
  destruct (min_none _ _ P2) as [P2all _].
  destruct (variants_head s nn all (fun a Ha => proj1 (Ck a Ha)) Hall) as (tl & Eall).
  assert (Hnna : In nn all) by (rewrite Eall; left; reflexivity).
  (* the lookup hits the class of i *)
  pose proof (in_stored s Hhc _ _ _ _ Hc Hin) as St.
  assert (G : na_get (c_nodes c) sh = Some (bij, src)) by (unfold stored, cnodes in St; rewrite Hc in St; exact St).
  pose proof (tb_bwd s (proj1 Hhc) _ _ _ St) as Hh.
  pose proof (lookup_internal_intro s sh bsh (aid i) c bij src Hh Hc G) as LI.
  pose proof (ss_at_var s sh EI NO Hhc (SS sh) (aid i) c bij src nn all p2 nn bsh b_nn Hc G Ck Nd Hall P2all Hnna Wp2 Wnn) as E.
  destruct (NO (aid i) c _ Hc Hin) as (Wcb & Icb & Kcb & Scb). cbn [fst snd] in Wcb, Icb, Kcb, Scb.
  assert (Bcb : is_bijection bij = true) by (apply (is_bijection_injective bij Wcb); exact Icb).
  assert (Emap : filt c (inverse_nocheck bij ** b_nn) = am i).
  { unfold filt.
    apply ext_eq; [apply (filter_key_wf (fun k => sset_mem k (c_slots c))), compose_partial_wf|exact Wi|].
    intros k. rewrite (get_filter_key (fun k => sset_mem k (c_slots c))).
    destruct (sset_mem k (c_slots c)) eqn:Em.
    - apply sset_mem_in in Em. destruct (Scb k Em) as (m & Gm).
      rewrite get_compose_partial by apply inverse_wf.
      rewrite (proj2 (get_inverse bij k m Wcb Bcb) Gm).
      destruct (get (am i) k) as [y|] eqn:Gy.
      + exact (Bnn m k y Em Gm Gy).
      + exfalso. assert (Hk : In k (keys (am i))) by (rewrite Ki; exact Em). apply keys_spec in Hk. contradiction.
    - destruct (get (am i) k) as [y|] eqn:Gy; [|reflexivity]. exfalso.
      assert (Hk : In k (keys (am i))) by (apply keys_spec; congruence). rewrite Ki in Hk.
      apply (proj2 (sset_mem_in _ _)) in Hk. congruence. }
  rewrite Emap in E.
  assert (Ei : {| aid := aid i; am := am i |} = i) by (destruct i; reflexivity).
  rewrite Ei in E.
  set (mb := filt c (inverse_nocheck bij ** bsh)) in *.
  assert (Wb0 : wf mb).
  { unfold mb, filt. apply (filter_key_wf (fun k => sset_mem k (c_slots c))), compose_partial_wf. }
  assert (Vals : forall x, In x (values_vec mb) -> In x (values_vec (am i))).
  { destruct (eg_eq_true_inv _ _ _ E) as (a' & b' & c' & Fa & Fb & _ & Vals & _).
    rewrite (lkid_fixed s i (ei_uf _ EI) Li) in Fb. inversion Fb; subst b'.
    destruct Li as (e & ce & He & Hae & Hce & Gce & Ke & _ & _). rewrite Hc in Hce. inversion Hce; subst ce.
    assert (Fix0 : find_applied_id s {| aid := aid i; am := mb |} = Ok {| aid := aid i; am := mb |}).
    { apply (find_leader_fixed s _ e (ei_uf _ EI)); cbn [aid am]; [exact He|exact Hae|exact Wb0|].
      intros k Hk. unfold mb, filt in Hk. rewrite (get_filter_key (fun k => sset_mem k (c_slots c))) in Hk.
      destruct (sset_mem k (c_slots c)) eqn:Em; [|congruence]. apply sset_mem_in in Em.
      apply keys_spec. rewrite Ke. exact Em. }
    rewrite Fix0 in Fa. inversion Fa; subst a'. cbn [am] in Vals.
    intros x Hx. apply values_values_vec. rewrite <- Vals. apply values_values_vec. exact Hx. }
  split; [exact Cl|]. split; [exact Nd|]. split.
  { intros a Ha. split; [exact (Ck a Ha)|]. exact (proj2 (proj1 (Forall_forall _ _) Fcb a Ha)). }
  split.
  { intros x Hx. unfold values_vec in Hx. apply in_map_iff in Hx. destruct Hx as ([k v] & Ev & Hkv). cbn [snd] in Ev. subst v.
    pose proof (in_get _ _ _ Wi Hkv) as Gk.
    assert (Hk : In k (c_slots c)) by (rewrite <- Ki; apply keys_spec; congruence).
    exact (Pub k x Hk Gk). }
  exists {| aid := aid i; am := mb |}. split.
  { unfold MatchMachine.eg_lookup. rewrite Hsh. cbn [bind]. exact LI. }
  split; [exact E|]. split; [exact Wb0|exact Vals].
Qed.

Print Assumptions listed_lookup.

(* ------------------------------------------------------------------ *)
(* GOAL 2: the slot occurrences of a listed node *)

Lemma all_occ_pub_or_binder : forall n x, In x (all_occ n) -> In x (pub_occ n) \/ In x (binders n).
Proof.
  intros n x Hx. destruct (all_occ_flag n x Hx) as ([|] & F).
  - left. exact (occ_flags_true_pub _ _ F).
  - right. exact (occ_flags_false_binders _ _ F).
Qed.

Section ListedSlots.
  Variable s0 : egraph.
  Hypothesis I3 : inv3 s0.
  Hypothesis K0 : kids_ok s0.
  Hypothesis M4 : cls4 s0.

  (* one entry: the counter grows; every occurrence is a value of the invocation or fresh *)
  Lemma ea_entry_slots : forall i c sh bij src s x2 s', get_class s0 (aid i) = Ok c ->
    In (sh, (bij, src)) (c_nodes c) -> wf (am i) ->
    ea_entry i c (sh, (bij, src)) s = Ok (x2, s') ->
    Model.ctr s <= Model.ctr s' /\
    forall x, In x (all_occ x2) -> In x (values_vec (am i)) \/ (Model.ctr s <= x /\ x < Model.ctr s').
  Proof.
    intros i c sh bij src s x2 s' Hc Hin Wi H.
    unfold ea_entry in H.
    destruct (class_facts s0 I3 M4 _ _ Hc) as [S1c Below].
    apply mbind_inv in H. destruct H as (x0 & s1 & H1 & H). apply lift_inv in H1. destruct H1 as [H1 ->].
    apply mbind_inv in H. destruct H as (x1 & s2 & H2 & H).
    apply mbind_inv in H. destruct H as (m & s3 & H3 & H). cbv zeta in H. apply lift_inv in H. destruct H as [H4 <-].
    pose proof (rn_trav (c_slots c) x0 (Model.ctr s)) as (RI & RG & RD).
    unfold with_ctr in H2. destruct (trav (rnF (c_slots c)) x0 ([], Model.ctr s)) as [x1' [rho c1]] eqn:T.
    inversion H2; subst x1' s2; clear H2. cbn [fst snd] in RI, RG, RD.
    destruct RI as (L1 & RV & RInj). cbn [fst snd] in L1, RV, RInj.
    destruct (fo_spec (am i) c1 _ _ _ _ _ H3) as (SG3 & L3 & (Wm & Im & Vm)).
    { cbn [Model.ctr set_ctr]. lia. }
    { split; [exact I|]. split; [intros k1 k2 v G; discriminate G|intros k v G; discriminate G]. }
    cbn [Model.ctr set_ctr] in L3.
    split; [lia|].
    set (MM := from_iter_onto m (am i)) in *.
    assert (GM : forall k, get MM k = match get (am i) k with Some v => Some v | None => get m k end).
    { intros k. exact (get_union m (am i) k Wm Wi). }
    assert (VM : forall k v, get MM k = Some v -> In v (values_vec (am i)) \/ (c1 <= v /\ v < Model.ctr s')).
    { intros k v G. rewrite GM in G. destruct (get (am i) k) as [u|] eqn:Gi.
      - inversion G; subst u. left. eapply get_values_vec; eauto.
      - right. exact (Vm k v G). }
    pose proof (apply_slotmap_total _ _ _ H4) as TotM.
    assert (Bx0 : binders x0 = binders sh) by (rewrite (apply_slotmap_ren _ _ _ H1); apply binders_asm).
    destruct (K0 (aid i) c _ Hc Hin) as [Sh4 _]. cbn [fst] in Sh4.
    assert (Bx1 : forall b, In b (binders x1) -> Model.ctr s <= b /\ b < c1).
    { intros b Hb. rewrite RG, ren_binders in Hb. apply in_map_iff in Hb. destruct Hb as (bb & <- & Hbb).
      rewrite Bx0 in Hbb. pose proof (Sh4 bb (binders_all_occ _ _ Hbb)) as Z0.
      assert (Hbb' : In bb (all_occ x0)) by (apply binders_all_occ; rewrite Bx0; exact Hbb).
      unfold rnG. cbn [fst].
      destruct (sset_mem bb (c_slots c)) eqn:Em.
      { apply sset_mem_in in Em. pose proof (S1c bb Em) as Z1. unfold ok1 in Z1. lia. }
      destruct (RD bb Hbb') as [D|D]; [congruence|]. cbn [fst] in D.
      destruct (get rho bb) as [v|] eqn:G; [|congruence]. exact (RV bb v G). }
    pose proof (apply_slotmap_ren _ _ _ H4) as Ex2.
    intros x Hx. destruct (all_occ_pub_or_binder _ _ Hx) as [Px|Bx].
    - rewrite Ex2 in Px. destruct (pub_occ_ren_sub (asm_g MM) x1 x (fun _ => eq_refl) Px) as (y & Hy & ->).
      unfold asm_g. destruct (get MM y) as [v|] eqn:G; [|exfalso; exact (TotM y Hy G)].
      destruct (VM y v G) as [V|V]; [left; exact V|right; lia].
    - rewrite Ex2, binders_asm in Bx. pose proof (Bx1 x Bx). right. lia.
  Qed.

  Lemma mapM_entries_slots : forall i c, get_class s0 (aid i) = Ok c -> wf (am i) ->
    forall l s nns s', incl l (c_nodes c) -> mapM (ea_entry i c) l s = Ok (nns, s') ->
    Model.ctr s <= Model.ctr s' /\
    forall nn, In nn nns -> forall x, In x (all_occ nn) ->
      In x (values_vec (am i)) \/ (Model.ctr s <= x /\ x < Model.ctr s').
  Proof.
    intros i c Hc Wi. induction l as [|e l IH]; intros s nns s' Hl H; cbn [mapM] in H.
    - inversion H; subst. split; [lia|]. intros nn [].
    - apply mbind_inv in H. destruct H as (y & s1 & H1 & H). apply mbind_inv in H. destruct H as (r & s2 & H2 & H).
      inversion H; subst nns s2; clear H.
      destruct e as [sh [bij src]].
      destruct (ea_entry_slots i c sh bij src s y s1 Hc (Hl _ (or_introl eq_refl)) Wi H1) as (La & Sa).
      destruct (IH s1 r s' (fun x Hx => Hl x (or_intror Hx)) H2) as (Lb & Sb).
      split; [lia|]. intros nn [<-|Hin] x Hx.
      + destruct (Sa x Hx) as [V|V]; [left; exact V|right; lia].
      + destruct (Sb nn Hin x Hx) as [V|V]; [left; exact V|right; lia].
  Qed.

  Lemma listed_slots_gen : forall i c t nns t', get_class s0 (aid i) = Ok c -> get_class t (aid i) = Ok c ->
    wf (am i) -> enodes_applied i t = Ok (nns, t') ->
    Model.ctr t <= Model.ctr t' /\
    (forall nn, In nn nns -> forall x, In x (all_occ nn) ->
      In x (values_vec (am i)) \/ (Model.ctr t <= x /\ x < Model.ctr t')).
  Proof.
    intros i c t nns t' Hc Hct Wi Hen. rewrite enodes_applied_eq in Hen.
    apply mbind_inv in Hen. destruct Hen as (c' & s1 & H1 & H). apply reads_inv in H1. destruct H1 as [Hc' ->].
    rewrite Hct in Hc'. inversion Hc'; subst c'.
    destruct (mapM_entries_slots i c Hc Wi (c_nodes c) t nns t' (incl_refl _) H) as (L & S).
    split; [exact L|exact S].
  Qed.
End ListedSlots.

Theorem listed_slots : forall s, match_inv s ->
  forall i t nns t' nn, sg_ge s t -> inv_i s t i -> enodes_applied i t = Ok (nns, t') -> In nn nns ->
    forall x, In x (all_occ nn) -> In x (values_vec (am i)) \/ (Model.ctr t <= x /\ x < Model.ctr t').
Proof.
  intros s [I3 K0 M4f Hhc Hpe Hlv] i t nns t' nn R [[Li Ci] Vi] Hen Hnn.
  pose proof (m4_cls4 _ M4f) as M4.
  destruct Ci as (c & Hc & Gc & Wi & Bi & Ki).
  assert (Hct : get_class t (aid i) = Ok c) by (rewrite (Rel_class s _ _ R); exact Hc).
  exact (proj2 (listed_slots_gen s I3 K0 M4 i c t nns t' Hc Hct Wi Hen) nn Hnn).
Qed.

Theorem listed_ctr : forall s, match_inv s ->
  forall i t nns t', sg_ge s t -> inv_i s t i -> enodes_applied i t = Ok (nns, t') ->
    Model.ctr t <= Model.ctr t'.
Proof.
  intros s [I3 K0 M4f Hhc Hpe Hlv] i t nns t' R [[Li Ci] Vi] Hen.
  pose proof (m4_cls4 _ M4f) as M4.
  destruct Ci as (c & Hc & Gc & Wi & Bi & Ki).
  assert (Hct : get_class t (aid i) = Ok c) by (rewrite (Rel_class s _ _ R); exact Hc).
  exact (proj1 (listed_slots_gen s I3 K0 M4 i c t nns t' Hc Hct Wi Hen)).
Qed.

Print Assumptions listed_slots.
Print Assumptions listed_ctr.
