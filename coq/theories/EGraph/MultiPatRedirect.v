From SE Require Import Slots.SlotMapFacts Group.GroupSound Lang.LangFacts Lang.ShapeFacts Lang.RenameFacts
  Base.TextFacts Parse.Parser EGraph.Model EGraph.ModelFacts EGraph.ModelMachine EGraph.UnionFindFacts
  EGraph.InvariantFacts EGraph.UnionInvariantFacts EGraph.AddCoversFacts EGraph.HashconsShape EGraph.Mod4Facts
  EGraph.HashconsAbs EGraph.HashconsFacts EGraph.Rewrite EGraph.RewriteFacts EGraph.MatchDefs EGraph.MultiPat EGraph.MatchMachine
  EGraph.ProgressFacts EGraph.MatchFacts EGraph.SoundUnion EGraph.MonotoneFacts EGraph.MatchLookup
  EGraph.NodeCong EGraph.KidEqFacts EGraph.ShapeCong EGraph.CongruenceFacts EGraph.MatchComplete
  EGraph.MatchReprFix EGraph.MatchReprAlg EGraph.StoredLive EGraph.KidsFacts EGraph.PendingFacts EGraph.MatchReprFacts
  EGraph.RepFacts EGraph.MatchReprAllDefs EGraph.MatchReprAllRen EGraph.MatchReprAllInv EGraph.MultiPatRen.
Require Import ZArith Lia ZifyBool ZifyN ZifyNat.


(* EGraph/MultiPatRedirect.v — renaming the VALUES of invocations by an arbitrary function f that is injective on the
   listed values: covers / eg_eq / kid_eq are preserved; instance: one more step of the slot union-find of a matcher
   state. *)

Definition mapa (f : slot -> slot) (a : appid) : appid := {| aid := aid a; am := mapv f (am a) |}.

Lemma values_vec_mapv : forall f m, values_vec (mapv f m) = map f (values_vec m).
Proof.
  intros f m. unfold values_vec, mapv. rewrite !map_map. reflexivity.
Qed.

Lemma values_vec_mapa : forall f a, values_vec (am (mapa f a)) = map f (values_vec (am a)).
Proof. intros f a. apply values_vec_mapv. Qed.

Lemma mapv_ext_in : forall (f g : slot -> slot) m, (forall v, In v (values_vec m) -> f v = g v) -> mapv f m = mapv g m.
Proof.
  intros f g m H. unfold mapv. apply map_ext_in. intros [k v] Hin. cbn [fst snd]. f_equal. apply H.
  unfold values_vec. apply in_map_iff. exists (k, v). split; [reflexivity|exact Hin].
Qed.

Lemma mapv_mapv : forall f g m, mapv f (mapv g m) = mapv (fun x => f (g x)) m.
Proof. intros f g m. unfold mapv. rewrite map_map. reflexivity. Qed.

Lemma mapa_mapa : forall f g a, mapa f (mapa g a) = mapa (fun x => f (g x)) a.
Proof. intros f g a. unfold mapa. cbn [aid am]. rewrite mapv_mapv. reflexivity. Qed.

Lemma get_values_vec : forall m k v, get m k = Some v -> In v (values_vec m).
Proof.
  intros m k v G. apply get_in in G. unfold values_vec. apply in_map_iff. exists (k, v). split; [reflexivity|exact G].
Qed.

(* 1. covers *)
Lemma covers_mapa : forall s f a, covers s a -> wf (am a) -> inj_on f (values_vec (am a)) ->
  covers s (mapa f a) /\ wf (am (mapa f a)).
Proof.
  intros s f a (c & Hc & Inj & Sub) W If. split; [|unfold mapa; cbn [am]; apply wf_mapv; exact W].
  exists c. unfold mapa. cbn [aid am]. split; [exact Hc|]. split.
  - intros k1 k2 v G1 G2. rewrite get_mapv in G1, G2.
    destruct (get (am a) k1) as [y1|] eqn:E1; [|discriminate]. destruct (get (am a) k2) as [y2|] eqn:E2; [|discriminate].
    cbn [option_map] in G1, G2.
    assert (y1 = y2).
    { apply If; [exact (get_values_vec _ _ _ E1)|exact (get_values_vec _ _ _ E2)|congruence]. }
    subst y2. exact (Inj _ _ _ E1 E2).
  - intros k Hk. rewrite get_mapv. pose proof (Sub k Hk) as G. destruct (get (am a) k); [discriminate|contradiction].
Qed.

(* the slot map of f on a list of values *)
Definition sg_of (f : slot -> slot) (l : list slot) : slotmap := from_iter (map (fun v => (v, f v)) l).

Lemma assoc_last_graph : forall (f : slot -> slot) l k y, assoc_last (map (fun v => (v, f v)) l) k = Some y -> In k l /\ y = f k.
Proof.
  intros f l k y H. apply assoc_last_in in H. apply in_map_iff in H. destruct H as (v & E & Hv).
  inversion E; subst. split; [exact Hv|reflexivity].
Qed.

Lemma assoc_last_graph_in : forall (f : slot -> slot) l k, In k l -> assoc_last (map (fun v => (v, f v)) l) k = Some (f k).
Proof.
  intros f. induction l as [|x t IH]; intros k Hk; [contradiction|]. cbn [map assoc_last].
  destruct (assoc_last (map (fun v => (v, f v)) t) k) as [y|] eqn:E.
  - destruct (assoc_last_graph _ _ _ _ E) as [_ ->]. reflexivity.
  - destruct (N.eqb_spec k x) as [->|Ne]; [reflexivity|]. destruct Hk as [->|Hk]; [contradiction|].
    rewrite (IH k Hk) in E. discriminate.
Qed.

Lemma get_sg_of : forall f l k y, get (sg_of f l) k = Some y -> In k l /\ y = f k.
Proof. intros f l k y H. unfold sg_of in H. rewrite get_from_iter in H. exact (assoc_last_graph _ _ _ _ H). Qed.

Lemma get_sg_of_in : forall f l k, In k l -> get (sg_of f l) k = Some (f k).
Proof. intros f l k H. unfold sg_of. rewrite get_from_iter. exact (assoc_last_graph_in _ _ _ H). Qed.

Lemma sg_of_injective : forall f l, inj_on f l -> injective (sg_of f l).
Proof.
  intros f l If k1 k2 v G1 G2. destruct (get_sg_of _ _ _ _ G1) as [H1 E1]. destruct (get_sg_of _ _ _ _ G2) as [H2 E2].
  apply If; [exact H1|exact H2|congruence].
Qed.

Lemma compose_sg_of : forall f l m, wf m -> (forall v, In v (values_vec m) -> In v l) -> compose_partial m (sg_of f l) = mapv f m.
Proof.
  intros f l m W Sub. rewrite compose_total_mapv; [|exact W|].
  - apply mapv_ext_in. intros v Hv. unfold g_of. rewrite (get_sg_of_in f l v (Sub v Hv)). reflexivity.
  - intros v Hv. rewrite (get_sg_of_in f l v (Sub v Hv)). discriminate.
Qed.

(* 2. eg_eq *)
Lemma eg_eq_mapa : forall s f a b, eg_inv s -> covers s a -> covers s b -> wf (am a) -> wf (am b) ->
  inj_on f (values_vec (am a) ++ values_vec (am b)) ->
  eg_eq s a b = Ok true -> eg_eq s (mapa f a) (mapa f b) = Ok true.
Proof.
  intros s f a b Hs Ca Cb Wa Wb If E.
  set (l := values_vec (am a) ++ values_vec (am b)) in *.
  pose proof (eg_eq_rename s a b (sg_of f l) Hs Ca Cb Wa Wb (sg_of_injective f l If)) as R.
  rewrite (compose_sg_of f l (am a) Wa) in R by (intros v Hv; apply in_or_app; left; exact Hv).
  rewrite (compose_sg_of f l (am b) Wb) in R by (intros v Hv; apply in_or_app; right; exact Hv).
  apply R; [|exact E].
  intros k y G. rewrite (get_sg_of_in f l y); [discriminate|]. apply in_or_app. left. exact (get_values_vec _ _ _ G).
Qed.

Lemma inj_on_app_l : forall (f : slot -> slot) l1 l2, inj_on f (l1 ++ l2) -> inj_on f l1.
Proof. intros f l1 l2 H x y Hx Hy. apply H; apply in_or_app; left; assumption. Qed.

Lemma inj_on_app_r : forall (f : slot -> slot) l1 l2, inj_on f (l1 ++ l2) -> inj_on f l2.
Proof. intros f l1 l2 H x y Hx Hy. apply H; apply in_or_app; right; assumption. Qed.

(* 3. kid_eq *)
Lemma kid_eq_mapa : forall s f a b, eg_inv s -> wf (am a) -> wf (am b) ->
  inj_on f (values_vec (am a) ++ values_vec (am b)) ->
  kid_eq s a b -> kid_eq s (mapa f a) (mapa f b).
Proof.
  intros s f a b Hs Wa Wb If (Ca & Cb & E). split; [|split].
  - exact (proj1 (covers_mapa s f a Ca Wa (inj_on_app_l _ _ _ If))).
  - exact (proj1 (covers_mapa s f b Cb Wb (inj_on_app_r _ _ _ If))).
  - exact (eg_eq_mapa s f a b Hs Ca Cb Wa Wb If E).
Qed.

(* 4. the slot union-find of a matcher state *)
Lemma nrm_mapa : forall st a, state_appid_find st a = mapa (state_find st) a.
Proof. intros st a. reflexivity. Qed.

Lemma nrm_step : forall st st' r a, (forall z, state_find st' z = r (state_find st z)) ->
  state_appid_find st' a = mapa r (state_appid_find st a).
Proof.
  intros st st' r a H. rewrite !nrm_mapa, mapa_mapa. unfold mapa. f_equal. apply mapv_ext_in. intros v _. apply H.
Qed.

Lemma covers_nrm_step : forall s st st' r a, (forall z, state_find st' z = r (state_find st z)) ->
  covers s (state_appid_find st a) -> wf (am (state_appid_find st a)) ->
  inj_on r (values_vec (am (state_appid_find st a))) ->
  covers s (state_appid_find st' a) /\ wf (am (state_appid_find st' a)).
Proof.
  intros s st st' r a H C W Ir. rewrite (nrm_step st st' r a H). exact (covers_mapa s r _ C W Ir).
Qed.

Lemma eg_eq_nrm_step : forall s st st' r a b, (forall z, state_find st' z = r (state_find st z)) -> eg_inv s ->
  covers s (state_appid_find st a) -> covers s (state_appid_find st b) ->
  wf (am (state_appid_find st a)) -> wf (am (state_appid_find st b)) ->
  inj_on r (values_vec (am (state_appid_find st a)) ++ values_vec (am (state_appid_find st b))) ->
  eg_eq s (state_appid_find st a) (state_appid_find st b) = Ok true ->
  eg_eq s (state_appid_find st' a) (state_appid_find st' b) = Ok true.
Proof.
  intros s st st' r a b H Hs Ca Cb Wa Wb Ir E. rewrite (nrm_step st st' r a H), (nrm_step st st' r b H).
  exact (eg_eq_mapa s r _ _ Hs Ca Cb Wa Wb Ir E).
Qed.

Lemma kid_eq_nrm_step : forall s st st' r a b, (forall z, state_find st' z = r (state_find st z)) -> eg_inv s ->
  wf (am (state_appid_find st a)) -> wf (am (state_appid_find st b)) ->
  inj_on r (values_vec (am (state_appid_find st a)) ++ values_vec (am (state_appid_find st b))) ->
  kid_eq s (state_appid_find st a) (state_appid_find st b) ->
  kid_eq s (state_appid_find st' a) (state_appid_find st' b).
Proof.
  intros s st st' r a b H Hs Wa Wb Ir K. rewrite (nrm_step st st' r a H), (nrm_step st st' r b H).
  exact (kid_eq_mapa s r _ _ Hs Wa Wb Ir K).
Qed.

Print Assumptions covers_mapa.
Print Assumptions eg_eq_mapa.
Print Assumptions kid_eq_mapa.
Print Assumptions nrm_step.
Print Assumptions covers_nrm_step.
Print Assumptions eg_eq_nrm_step.
Print Assumptions kid_eq_nrm_step.
Print Assumptions values_vec_mapa.
Print Assumptions mapa_mapa.
