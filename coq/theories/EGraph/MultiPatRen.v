(* EGraph/MultiPatRen.v — C05, multi-patterns: the instance of one equation, seen through the slot union-find.
   `inst_lookup`: an e-graph node n that the read-only lookup finds (invocation b0), renamed by the slot union-find of a
   matcher state st (`state_find st`, injective on the slot occurrences of n, mapping the occurrences of the nullified n
   to those of the nullified pattern node nd, equal weak shapes), IS the pattern node nd over the normalised children of
   n; its lookup returns the normalised b0; and replacing the children by pairwise `kid_eq` invocations l (the bindings of
   the child variables) the lookup still succeeds, by an invocation `eg_eq` to the normalised b0. *)
From SE Require Import Slots.SlotMapFacts Group.GroupSound Lang.LangFacts Lang.ShapeFacts Lang.RenameFacts
  Base.TextFacts Parse.Parser EGraph.Model EGraph.ModelFacts EGraph.ModelMachine EGraph.UnionFindFacts
  EGraph.InvariantFacts EGraph.UnionInvariantFacts EGraph.AddCoversFacts EGraph.HashconsShape EGraph.Mod4Facts
  EGraph.HashconsAbs EGraph.HashconsFacts EGraph.Rewrite EGraph.RewriteFacts EGraph.MatchDefs EGraph.MultiPat EGraph.MatchMachine
  EGraph.ProgressFacts EGraph.MatchFacts EGraph.SoundUnion EGraph.MonotoneFacts EGraph.MatchLookup
  EGraph.NodeCong EGraph.KidEqFacts EGraph.ShapeCong EGraph.CongruenceFacts EGraph.MatchComplete
  EGraph.MatchReprFix EGraph.MatchReprAlg EGraph.StoredLive EGraph.KidsFacts EGraph.PendingFacts EGraph.MatchReprFacts
  EGraph.RepFacts EGraph.MatchReprAllDefs EGraph.MatchReprAllRen.
Require Import ZArith Lia ZifyBool ZifyN ZifyNat.

(* the slot union-find as a (flag-less) renaming *)
Definition fnd (st : mstate) : bool -> slot -> slot := fun _ x => state_find st x.

Lemma nrm_rv : forall st bd a, state_appid_find st a = rv (fnd st) bd a.
Proof. intros st bd a. reflexivity. Qed.

Lemma nrm_mapv : forall st a, am (state_appid_find st a) = mapv (state_find st) (am a).
Proof. intros st a. reflexivity. Qed.

Lemma set_apps_nullify_l : forall nd l, (List.length (app_occ nd) <= List.length l)%nat -> set_apps (nullify nd) l = set_apps nd l.
Proof.
  intros nd l H. rewrite <- (set_apps_nullify nd) at 2. rewrite set_apps_twice; [reflexivity|].
  rewrite nullify_app_len. exact H.
Qed.

Lemma inst_ren : forall st nd n sh1 sh2, clean n ->
  wshape (nullify nd) = Ok sh1 -> wshape (nullify n) = Ok sh2 -> node_eqb (fst sh1) (fst sh2) = true ->
  map (state_find st) (all_occ (nullify n)) = all_occ (nullify nd) ->
  inj_on (state_find st) (all_occ n) ->
  ren_ok (fnd st) n /\ RenameFacts.ren (fnd st) n = set_apps nd (map (state_appid_find st) (app_occ n)) /\
  List.length (app_occ n) = List.length (app_occ nd).
Proof.
  intros st nd n [s1 b1] [s2 b2] [Cl Wk] W1 W2 He Hocc Hinj. cbn [fst] in He.
  apply node_eqb_iff in He. subst s2.
  assert (Sk : skel (nullify n) = skel (nullify nd)).
  { destruct (node_equiv_shape _ _ _ W1) as [S1 _]. destruct (node_equiv_shape _ _ _ W2) as [S2 _]. congruence. }
  assert (Len : List.length (app_occ n) = List.length (app_occ nd)).
  { unfold wshape in W1, W2. apply weak_shape_app_len in W1, W2. rewrite <- (nullify_app_len n), <- (nullify_app_len nd). lia. }
  set (g := fnd st).
  assert (Hg : forall b x, g b x = state_find st x) by reflexivity.
  assert (E3 : RenameFacts.ren g (nullify n) = nullify nd).
  { apply skel_occ_inj; [rewrite ren_skel; exact Sk|].
    rewrite (all_occ_ren_flagless (state_find st) g _ Hg). exact Hocc. }
  assert (E2 : map (state_appid_find st) (app_occ n) = zip_with (rv g) (abounds (nullify n)) (app_occ n)).
  { apply map_zip_with_l; [rewrite abounds_length; apply nullify_app_len|]. intros bd a _. reflexivity. }
  split; [|split; [|exact Len]].
  - split; [|split].
    + intros x y Hx Hy E. apply Hinj; [apply binders_all_occ; exact Hx|apply binders_all_occ; exact Hy|exact E].
    + intros x b Hx Hb E. assert (x = b) by (apply Hinj; [apply pub_occ_all_occ; exact Hx|apply binders_all_occ; exact Hb|exact E]).
      subst b. exact (Cl x Hx Hb).
    + intros x y Hx Hy E. apply Hinj; [apply pub_occ_all_occ; exact Hx|apply pub_occ_all_occ; exact Hy|exact E].
  - rewrite <- (set_apps_nullify_l nd) by (rewrite map_length; lia).
    rewrite E2, <- E3. rewrite set_apps_ren, set_apps_nullify. reflexivity.
Qed.

Lemma lookup_nrm : forall s st n b0, ren_ok (fnd st) n -> MatchMachine.eg_lookup s n = Ok (Some b0) ->
  MatchMachine.eg_lookup s (RenameFacts.ren (fnd st) n) = Ok (Some (state_appid_find st b0)).
Proof.
  intros s st n b0 Rn L.
  destruct (lookup_ren_map s (fnd st) n b0 Rn L) as (a' & L' & Ai & Am).
  rewrite L'. do 2 f_equal.
  pose proof (lookup_wf _ _ _ L) as Wa. pose proof (lookup_wf _ _ _ L') as Wa'.
  destruct a' as [i' m']. cbn [aid am] in *. subst i'. unfold state_appid_find. f_equal.
  apply ext_eq; [exact Wa'|apply (wf_mapv (state_find st)); exact Wa|]. intros k.
  change (map (fun kv : slot * slot => (fst kv, state_find st (snd kv))) (am b0)) with (mapv (state_find st) (am b0)).
  rewrite get_mapv. apply Am.
Qed.

Theorem inst_lookup : forall s st nd n sh1 sh2 b0 l, RepFacts.good s ->
  clean n -> NoDup (binders n) -> MatchMachine.eg_lookup s n = Ok (Some b0) ->
  wshape (nullify nd) = Ok sh1 -> wshape (nullify n) = Ok sh2 -> node_eqb (fst sh1) (fst sh2) = true ->
  map (state_find st) (all_occ (nullify n)) = all_occ (nullify nd) ->
  inj_on (state_find st) (all_occ n) ->
  Forall2 (kid_eq s) (map (state_appid_find st) (app_occ n)) l ->
  exists x', MatchMachine.eg_lookup s (set_apps nd l) = Ok (Some x') /\ eg_eq s (state_appid_find st b0) x' = Ok true.
Proof.
  intros s st nd n sh1 sh2 b0 l GD Cl Nd L W1 W2 He Hocc Hinj KE.
  destruct (inst_ren st nd n sh1 sh2 Cl W1 W2 He Hocc Hinj) as (Rg & Eset & Len).
  pose proof (lookup_nrm s st n b0 Rg L) as L1.
  assert (O2 : app_occ (RenameFacts.ren (fnd st) n) = map (state_appid_find st) (app_occ n)).
  { rewrite Eset. apply app_occ_set_apps. rewrite map_length. exact Len. }
  assert (Ll : List.length l = List.length (app_occ n)).
  { rewrite (Forall2_length' _ _ _ KE), map_length. reflexivity. }
  rewrite <- O2 in KE.
  destruct (RepFacts.lookup_kid_eq s _ l _ GD (ren_ok_nodup _ _ Rg Nd) KE L1) as (x' & L2 & E2).
  rewrite Eset in L2. rewrite set_apps_twice in L2 by lia.
  exists x'. split; [exact L2|exact E2].
Qed.

Print Assumptions inst_lookup.
