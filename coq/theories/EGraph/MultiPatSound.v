(* EGraph/MultiPatSound.v — C05, multi-patterns: the invariant `mp_inv` (MultiPatDefs.v) implies the conclusion
   `eqn_sat` for every processed equation (`wit_sound`). *)
From SE Require Import Slots.SlotMapFacts Group.GroupSound Lang.LangFacts Lang.ShapeFacts Lang.RenameFacts
  Base.TextFacts Parse.Parser EGraph.Model EGraph.ModelFacts EGraph.ModelMachine EGraph.UnionFindFacts
  EGraph.InvariantFacts EGraph.UnionInvariantFacts EGraph.AddCoversFacts EGraph.HashconsShape EGraph.Mod4Facts
  EGraph.HashconsAbs EGraph.HashconsFacts EGraph.Rewrite EGraph.RewriteFacts EGraph.MatchDefs EGraph.MultiPat EGraph.MatchMachine
  EGraph.ProgressFacts EGraph.MatchFacts EGraph.SoundUnion EGraph.MonotoneFacts EGraph.MatchLookup
  EGraph.NodeCong EGraph.KidEqFacts EGraph.ShapeCong EGraph.CongruenceFacts EGraph.MatchComplete
  EGraph.MatchReprFix EGraph.MatchReprAlg EGraph.StoredLive EGraph.KidsFacts EGraph.PendingFacts EGraph.MatchReprFacts
  EGraph.RepFacts EGraph.MatchReprAllDefs EGraph.MatchReprAllRen EGraph.MatchReprAllInv EGraph.MultiPatRen
  EGraph.MultiPatUf EGraph.MultiPatDiseq EGraph.MultiPatRedirect EGraph.MultiPatDefs.
Require Import ZArith Lia ZifyBool ZifyN ZifyNat.

(* ------------------------------------------------------------------ *)
(* list facts *)

Lemma F2_in_l : forall {A B} (R : A -> B -> Prop) l1 l2 x, Forall2 R l1 l2 -> In x l1 -> exists y, In y l2 /\ R x y.
Proof.
  intros A B R l1 l2 x F. induction F as [|a b t1 t2 Hab _ IH]; intros H; [contradiction|].
  destruct H as [<-|H]; [exists b; split; [left; reflexivity|exact Hab]|].
  destruct (IH H) as (y & Hy & Ry). exists y. split; [right; exact Hy|exact Ry].
Qed.

Lemma inj_on_sub : forall (f : slot -> slot) l l', inj_on f l -> (forall x, In x l' -> In x l) -> inj_on f l'.
Proof. intros f l l' H Sub x y Hx Hy. apply H; apply Sub; assumption. Qed.

(* a value of a child invocation is a slot occurrence of the node *)
Lemma kid_values_all_occ_f : forall a k x, In k (app_occ_f a) -> In x (values_vec (am k)) -> In x (all_occ_f a).
Proof.
  induction a as [s|y|s f IH|p]; intros k x Hk Hx; cbn [app_occ_f all_occ_f] in *.
  - contradiction.
  - destruct Hk as [<-|[]]. exact Hx.
  - right. exact (IH k x Hk Hx).
  - contradiction.
Qed.

Lemma kid_values_all_occ : forall n k x, In k (app_occ n) -> In x (values_vec (am k)) -> In x (all_occ n).
Proof.
  intros n k x Hk Hx. unfold app_occ in Hk. unfold all_occ. apply in_flat_map in Hk. destruct Hk as (a & Ha & Hk).
  apply in_flat_map. exists a. split; [exact Ha|exact (kid_values_all_occ_f a k x Hk Hx)].
Qed.

(* ------------------------------------------------------------------ *)
(* the children of one equation *)

Lemma kids_bound : forall s0 st (ch : list text) (cgs : list appid),
  Forall2 (fun cv cg => exists a, sub_get (ms_subst st) cv = Some a /\ eg_eq s0 (state_appid_find st cg) a = Ok true) ch cgs ->
  (forall cg, In cg cgs -> covers s0 (state_appid_find st cg)) ->
  (forall v a, sub_get (ms_subst st) v = Some a -> covers s0 a) ->
  exists l, Forall2 (fun cv a => sub_get (ms_subst st) cv = Some a) ch l /\
            Forall2 (kid_eq s0) (map (state_appid_find st) cgs) l.
Proof.
  intros s0 st ch cgs F. induction F as [|cv cg ch' cgs' (a & Ga & Ea) _ IH]; intros Cv Cb.
  - exists []. split; constructor.
  - destruct IH as (l & F1 & F2); [intros c Hc; apply Cv; right; exact Hc|exact Cb|].
    exists (a :: l). split; [constructor; assumption|]. cbn [map]. constructor; [|exact F2].
    split; [apply Cv; left; reflexivity|]. split; [exact (Cb cv a Ga)|exact Ea].
Qed.

Lemma lookup_vars_F2 : forall s sb (ch : list text) l,
  Forall2 (fun cv a => sub_get sb cv = Some a) ch l ->
  Forall2 (fun p a => lookup_pat s p sb = Ok (Some a)) (map PVarP ch) l.
Proof.
  intros s sb ch l F. induction F as [|cv a ch' l' Hc _ IH]; cbn [map]; constructor; [|exact IH].
  cbn [lookup_pat]. rewrite Hc. reflexivity.
Qed.

(* ------------------------------------------------------------------ *)
(* the invariant implies the conclusion *)

Theorem wit_sound : forall s0 c0 t done st, match_inv s0 -> ss_ok s0 -> mp_arity done -> mp_inv s0 c0 t done st ->
  forall e, In e done -> eqn_sat s0 (ms_subst st) e.
Proof.
  intros s0 c0 t done st MI SS AR (ws & _ & _ & _ & _ & _ & _ & BND & NA & F2) e Hin.
  assert (EI : eg_inv s0) by (destruct MI as [[[E _] _] _ _ _ _ _]; exact E).
  assert (NK : nodes_ok s0) by (destruct MI as [[_ N] _ _ _ _ _]; exact N).
  assert (GD : RepFacts.good s0).
  { destruct MI as [I3 _ M Hh Pe _]. split; [|exact SS]. split; [exact I3|]. split; [exact Pe|]. split; [exact Hh|exact M]. }
  destruct (F2_in_l _ _ _ e F2 Hin) as ([n g] & Hw & EW).
  destruct e as [[v nd] ch]. cbn [eq_wit] in EW.
  destruct EW as (Cl & ND & Kid & Kg & Vg & (b0 & L0 & E0 & W0 & V0) & Sv & (sh1 & sh2 & W1 & W2 & He) & Hocc & FK).
  assert (Hn : In n (map fst ws)).
  { apply in_map_iff. exists (n, g). split; [reflexivity|exact Hw]. }
  set (f := state_find st).
  assert (Hinj : inj_on f (all_occ n)).
  { intros x y Hx Hy E. destruct (N.eq_dec x y) as [Exy|Ne]; [exact Exy|].
    destruct (NA n x y Hn Hx Hy Ne) as [Hne _]. contradiction. }
  (* covers of the bound invocations *)
  assert (Cb : forall w a, sub_get (ms_subst st) w = Some a -> covers s0 a).
  { intros w a G. destruct (BND w a G) as ((Ka & _) & _). exact (proj1 (ckid_cov s0 MI a Ka)). }
  (* covers of the normalised children *)
  assert (Cv : forall cg, In cg (app_occ n) -> covers s0 (state_appid_find st cg)).
  { intros cg Hcg. destruct (ckid_cov s0 MI cg (Kid cg Hcg)) as (Cc & Wc & _). rewrite nrm_mapa.
    apply (covers_mapa s0 f cg Cc Wc). apply (inj_on_sub f (all_occ n)); [exact Hinj|].
    intros x Hx. exact (kid_values_all_occ n cg x Hcg Hx). }
  destruct (kids_bound s0 st ch (app_occ n) FK Cv Cb) as (l & FL & KE).
  destruct (inst_lookup s0 st nd n sh1 sh2 b0 l GD Cl ND L0 W1 W2 He Hocc Hinj KE) as (x' & L2 & E2).
  (* the normalised b0 and g *)
  destruct (ckid_cov s0 MI g Kg) as (Cg & Wg & _).
  pose proof (eg_lookup_covers s0 n b0 NK L0) as Cb0.
  assert (Ib0 : inj_on f (values_vec (am b0))).
  { apply (inj_on_sub f (all_occ n)); [exact Hinj|]. intros x Hx. exact (Vg x (V0 x Hx)). }
  assert (Ig : inj_on f (values_vec (am g))).
  { apply (inj_on_sub f (all_occ n)); [exact Hinj|]. exact Vg. }
  assert (Ibg : inj_on f (values_vec (am b0) ++ values_vec (am g))).
  { apply (inj_on_sub f (all_occ n)); [exact Hinj|]. intros x Hx. apply in_app_or in Hx.
    destruct Hx as [Hx|Hx]; [exact (Vg x (V0 x Hx))|exact (Vg x Hx)]. }
  destruct (covers_mapa s0 f b0 Cb0 W0 Ib0) as (Cnb & _).
  destruct (covers_mapa s0 f g Cg Wg Ig) as (Cng & _).
  pose proof (eg_eq_mapa s0 f b0 g EI Cb0 Cg W0 Wg Ibg E0) as Er.
  rewrite nrm_mapa in E2.
  pose proof (eg_lookup_covers s0 _ x' NK L2) as Cx.
  cbn [eqn_sat]. split.
  - intros cv Hcv. destruct (F2_in_l _ _ _ cv FL Hcv) as (a & _ & Ga). rewrite Ga. discriminate.
  - exists (state_appid_find st g), x'. split; [exact Sv|]. split.
    + rewrite lookup_pat_node. rewrite map_length, (AR v nd ch Hin), Nat.eqb_refl. cbn [negb].
      rewrite (lookup_kids_F2 s0 _ _ l (lookup_vars_F2 s0 _ ch l FL)). cbn [bind]. exact L2.
    + rewrite nrm_mapa.
      apply (eg_eq_trans_true s0 x' (mapa f b0) (mapa f g) EI Cx Cnb Cng); [|exact Er].
      exact (eg_eq_sym_true s0 _ _ EI Cnb Cx E2).
Qed.

Print Assumptions wit_sound.
