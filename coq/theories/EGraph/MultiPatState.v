(* EGraph/MultiPatState.v — facts about the multi-pattern matcher model (EGraph/MultiPat.v), for all inputs
   and for both values of `norm`:
   A. matching is a query: only the fresh-slot counter moves, and it only grows (`multi_ematch_state`);
   B. inversion lemmas for the loops of `multi_ematch` (`multi_go_inv`, `multi_step_inv`, `step_class_inv`,
      `step_node_inv`, `flat_mapr_inv`), with the anonymous child loop named (`kids_go`);
   C. the key set of the substitution only grows, and every variable of a (well-formed) multi-pattern is bound
      in every returned substitution (`multi_ematch_binds`). *)
From SE Require Import Slots.SlotMapFacts Lang.LangFacts Lang.ShapeFacts Base.TextFacts Parse.Parser
  EGraph.Model EGraph.ModelFacts EGraph.ModelMachine EGraph.Rewrite EGraph.RewriteFacts EGraph.ProgressFacts
  EGraph.MatchDefs EGraph.MultiPat EGraph.MatchMachine EGraph.MatchFacts EGraph.MatchLookup.
Require Import ZArith Lia List.
Import ListNotations.

Local Notation r2_ret := (pres_ret R2 R2_refl).
Local Notation r2_bind := (pres_bind R2 R2_trans).

(* ------------------------------------------------------------------ *)
(* the anonymous loops, named *)

Definition kids_go (norm : bool) (s : egraph) : list text -> list appid -> list mstate -> res (list mstate) :=
  fix kids (ch : list text) (subs : list appid) (acc : list mstate) {struct ch} : res (list mstate) :=
    match ch, subs with
    | cv :: ch', cg :: subs' => do next <- flat_mapr (extend_subst norm s cv cg) acc; kids ch' subs' next
    | _, _ => Ok acc
    end.

Lemma kids_go_cons : forall norm s cv ch cg subs acc,
  kids_go norm s (cv :: ch) (cg :: subs) acc =
  (do next <- flat_mapr (extend_subst norm s cv cg) acc; kids_go norm s ch subs next).
Proof. intros. reflexivity. Qed.
Lemma kids_go_nil_l : forall norm s subs acc, kids_go norm s [] subs acc = Ok acc.
Proof. intros. reflexivity. Qed.
Lemma kids_go_nil_r : forall norm s ch acc, kids_go norm s ch [] acc = Ok acc.
Proof. intros norm s [|cv ch] acc; reflexivity. Qed.

Fixpoint mr_go (ps : list (slot * slot)) (st : mstate) : option mstate :=
  match ps with
  | [] => Some st
  | (x1, y1) :: t =>
      let st := {| ms_pslots := sset_insert x1 (ms_pslots st); ms_diseq := ms_diseq st;
                   ms_subst := ms_subst st; ms_uf := ms_uf st |} in
      match union_slot x1 y1 st with Some st' => mr_go t st' | None => None end
  end.

Lemma matches_raw_eq : forall n1 n2 st,
  matches_raw n1 n2 st =
  (do sh1 <- wshape (nullify n1);
   do sh2 <- wshape (nullify n2);
   if negb (node_eqb (fst sh1) (fst sh2)) then Ok None
   else Ok (mr_go (combine (all_occ (nullify n1)) (all_occ (nullify n2))) st)).
Proof. intros. reflexivity. Qed.

(* what `multi_ematch_step_node` does with one candidate node *)
Definition mnode_body (norm : bool) (s : egraph) (nd : node) (ch : list text) (st : mstate) (n : node)
  : res (list mstate) :=
  do r <- matches_raw nd n (add_disjointness_constraint (sset_of_list (all_occ n)) st);
  match r with
  | None => Ok []
  | Some st1 => kids_go norm s ch (app_occ n) [st1]
  end.

Lemma multi_ematch_step_node_eq : forall norm pv nd ch st,
  multi_ematch_step_node norm pv nd ch st =
  match sub_get (ms_subst st) pv with
  | None => fail ExplicitPanic
  | Some gid => dom ns <- enodes_applied gid; reads (fun s => flat_mapr (mnode_body norm s nd ch st) ns)
  end.
Proof. intros. reflexivity. Qed.

(* ------------------------------------------------------------------ *)
(* A. only the counter moves, upwards *)

Lemma r2_with_ctr_bff : forall sl, pres R2 (with_ctr (bijection_from_fresh_to sl)).
Proof.
  intros sl s x s' E. apply with_ctr_spec in E. subst s'. split; [apply same_graph_ctr|].
  unfold cle, set_ctr. cbn [Model.ctr]. apply ctr_step_le. apply bijection_from_fresh_to_step.
Qed.

Lemma r2_enodes_applied : forall i, pres R2 (enodes_applied i).
Proof. intros i. apply pres_R2; [apply sg_enodes_applied|apply c_enodes_applied]. Qed.

Definition class_body (pv : text) (st : mstate) (x : N) : M mstate :=
  dom sl <- reads (fun s => class_slots s x);
  dom m <- with_ctr (bijection_from_fresh_to sl);
  ret (with_subst st (ms_subst st ++ [(pv, {| aid := x; am := inverse_nocheck m |})])).

Lemma multi_ematch_step_class_eq : forall pv st,
  multi_ematch_step_class pv st =
  match sub_get (ms_subst st) pv with
  | Some _ => ret [st]
  | None => dom live <- gets ids; mapM (class_body pv st) live
  end.
Proof. intros. reflexivity. Qed.

Lemma r2_class_body : forall pv st x, pres R2 (class_body pv st x).
Proof.
  intros pv st x. unfold class_body.
  apply r2_bind; [apply pres_reads; exact R2_refl|]. intros sl.
  apply r2_bind; [apply r2_with_ctr_bff|]. intros m. apply r2_ret.
Qed.

Lemma r2_multi_step_class : forall pv st, pres R2 (multi_ematch_step_class pv st).
Proof.
  intros pv st. rewrite multi_ematch_step_class_eq. destruct (sub_get (ms_subst st) pv); [apply r2_ret|].
  apply r2_bind; [apply pres_gets; exact R2_refl|]. intros live.
  apply (pres_mapM R2 R2_refl R2_trans). intros x. apply r2_class_body.
Qed.

Lemma r2_multi_step_node : forall norm pv nd ch st, pres R2 (multi_ematch_step_node norm pv nd ch st).
Proof.
  intros norm pv nd ch st. rewrite multi_ematch_step_node_eq.
  destruct (sub_get (ms_subst st) pv) as [gid|]; [|apply pres_fail].
  apply r2_bind; [apply r2_enodes_applied|]. intros ns. apply pres_reads. exact R2_refl.
Qed.

Lemma r2_multi_step : forall norm e st, pres R2 (multi_ematch_step norm e st).
Proof.
  intros norm [[pv nd] ch] st. unfold multi_ematch_step.
  apply r2_bind; [apply r2_multi_step_class|]. intros cs.
  apply r2_flat_mapM. intros c. apply r2_multi_step_node.
Qed.

Lemma r2_multi_go : forall norm pat states, pres R2 (multi_ematch_go norm pat states).
Proof.
  intros norm. induction pat as [|e t IH]; intros states; cbn [multi_ematch_go]; [apply r2_ret|].
  apply r2_bind; [apply r2_flat_mapM; intros st; apply r2_multi_step|]. intros next. apply IH.
Qed.

Lemma r2_multi_ematch : forall norm pat, pres R2 (multi_ematch norm pat).
Proof.
  intros norm pat. unfold multi_ematch. apply r2_bind; [apply r2_multi_go|]. intros sts. apply r2_ret.
Qed.

Lemma R2_unfold : forall s s', R2 s s' ->
  unionfind s' = unionfind s /\ classes s' = classes s /\ hashcons s' = hashcons s /\ pending s' = pending s /\
  Model.ctr s <= Model.ctr s'.
Proof. intros s s' [(A & B & C & D) L]. unfold cle in L. repeat split; assumption. Qed.

Theorem multi_ematch_step_class_state : forall pv st s l s', multi_ematch_step_class pv st s = Ok (l, s') ->
  unionfind s' = unionfind s /\ classes s' = classes s /\ hashcons s' = hashcons s /\ pending s' = pending s /\
  Model.ctr s <= Model.ctr s'.
Proof. intros pv st s l s' H. apply R2_unfold. exact (r2_multi_step_class pv st s l s' H). Qed.

Theorem multi_ematch_step_node_state : forall norm pv nd ch st s l s',
  multi_ematch_step_node norm pv nd ch st s = Ok (l, s') ->
  unionfind s' = unionfind s /\ classes s' = classes s /\ hashcons s' = hashcons s /\ pending s' = pending s /\
  Model.ctr s <= Model.ctr s'.
Proof. intros norm pv nd ch st s l s' H. apply R2_unfold. exact (r2_multi_step_node norm pv nd ch st s l s' H). Qed.

Theorem multi_ematch_step_state : forall norm e st s l s', multi_ematch_step norm e st s = Ok (l, s') ->
  unionfind s' = unionfind s /\ classes s' = classes s /\ hashcons s' = hashcons s /\ pending s' = pending s /\
  Model.ctr s <= Model.ctr s'.
Proof. intros norm e st s l s' H. apply R2_unfold. exact (r2_multi_step norm e st s l s' H). Qed.

Theorem multi_ematch_go_state : forall norm pat states s l s', multi_ematch_go norm pat states s = Ok (l, s') ->
  unionfind s' = unionfind s /\ classes s' = classes s /\ hashcons s' = hashcons s /\ pending s' = pending s /\
  Model.ctr s <= Model.ctr s'.
Proof. intros norm pat states s l s' H. apply R2_unfold. exact (r2_multi_go norm pat states s l s' H). Qed.

Theorem multi_ematch_state : forall norm pat s l s', multi_ematch norm pat s = Ok (l, s') ->
  unionfind s' = unionfind s /\ classes s' = classes s /\ hashcons s' = hashcons s /\ pending s' = pending s /\
  Model.ctr s <= Model.ctr s'.
Proof. intros norm pat s l s' H. apply R2_unfold. exact (r2_multi_ematch norm pat s l s' H). Qed.

(* ------------------------------------------------------------------ *)
(* B. inversion *)

Lemma flat_mapr_inv : forall A C (f : A -> res (list C)) l r, flat_mapr f l = Ok r ->
  forall y, In y r -> exists x r1, In x l /\ f x = Ok r1 /\ In y r1.
Proof.
  intros A C f. induction l as [|x t IH]; intros r H y Hy; cbn [flat_mapr] in H.
  - inversion H; subst r. contradiction.
  - destruct (f x) as [r1|] eqn:E1; cbn [bind] in H; [|discriminate].
    destruct (flat_mapr f t) as [r2|] eqn:E2; cbn [bind] in H; [|discriminate].
    inversion H; subst r. apply in_app_or in Hy. destruct Hy as [Hy|Hy].
    + exists x, r1. split; [left; reflexivity|]. split; assumption.
    + destruct (IH _ eq_refl y Hy) as (x' & ra & Hin & Hf & Hyr).
      exists x', ra. split; [right; assumption|]. split; assumption.
Qed.

Lemma multi_go_inv : forall norm e t states s l s',
  multi_ematch_go norm (e :: t) states s = Ok (l, s') ->
  exists next s1, flat_mapM (multi_ematch_step norm e) states s = Ok (next, s1) /\
                  multi_ematch_go norm t next s1 = Ok (l, s').
Proof. intros norm e t states s l s' H. cbn [multi_ematch_go] in H. apply mbind_inv in H. exact H. Qed.

Lemma multi_go_nil_inv : forall norm states s l s',
  multi_ematch_go norm [] states s = Ok (l, s') -> l = states /\ s' = s.
Proof. intros norm states s l s' H. cbn [multi_ematch_go] in H. apply ret_inv in H. exact H. Qed.

Lemma multi_ematch_inv : forall norm pat s l s', multi_ematch norm pat s = Ok (l, s') ->
  exists sts, multi_ematch_go norm pat [mstate0] s = Ok (sts, s') /\ l = map ms_subst sts.
Proof.
  intros norm pat s l s' H. unfold multi_ematch in H. apply mbind_inv in H. destruct H as (sts & s1 & Hg & H).
  apply ret_inv in H. destruct H as [-> ->]. exists sts. split; [exact Hg|reflexivity].
Qed.

Lemma multi_step_inv : forall norm pv nd ch st s l s',
  multi_ematch_step norm (pv, nd, ch) st s = Ok (l, s') ->
  forall st', In st' l ->
  exists cs s1 c sa ra sb,
    multi_ematch_step_class pv st s = Ok (cs, s1) /\ In c cs /\ R2 s1 sa /\
    multi_ematch_step_node norm pv nd ch c sa = Ok (ra, sb) /\ In st' ra /\ R2 sb s'.
Proof.
  intros norm pv nd ch st s l s' H st' Hin. unfold multi_ematch_step in H.
  apply mbind_inv in H. destruct H as (cs & s1 & Hc & H).
  destruct (flat_mapM_inv2 _ _ _ _ _ _ _ (r2_multi_step_node norm pv nd ch) H st' Hin)
    as (c & sa & ra & sb & Hcin & Ra & Hn & Hra & Rb).
  exists cs, s1, c, sa, ra, sb. split; [exact Hc|]. split; [exact Hcin|]. split; [exact Ra|].
  split; [exact Hn|]. split; [exact Hra|exact Rb].
Qed.

(* strong form: the state after drawing the fresh names is the state before with the counter moved *)
Lemma step_class_inv_strong : forall pv st s cs s1, multi_ematch_step_class pv st s = Ok (cs, s1) ->
  forall c, In c cs ->
  (sub_get (ms_subst st) pv <> None /\ c = st /\ s1 = s) \/
  (sub_get (ms_subst st) pv = None /\
   exists x sl m sa sb, In x (ids s) /\ R2 s sa /\ class_slots sa x = Ok sl /\
     bijection_from_fresh_to sl (Model.ctr sa) = (m, Model.ctr sb) /\ sb = set_ctr sa (Model.ctr sb) /\ R2 sb s1 /\
     c = with_subst st (ms_subst st ++ [(pv, {| aid := x; am := inverse_nocheck m |})])).
Proof.
  intros pv st s cs s1 H c Hc. rewrite multi_ematch_step_class_eq in H.
  destruct (sub_get (ms_subst st) pv) as [g|] eqn:G.
  - left. apply ret_inv in H. destruct H as [-> ->]. destruct Hc as [<-|[]]. split; [discriminate|]. split; reflexivity.
  - right. split; [reflexivity|].
    apply mbind_inv in H. destruct H as (live & s0 & Hg & H). unfold gets in Hg. inversion Hg; subst live s0; clear Hg.
    destruct (mapM_inv2 _ _ _ _ _ _ _ (r2_class_body pv st) H c Hc) as (x & sa & sb & Hx & Ra & Hb & Rb).
    unfold class_body in Hb.
    apply mbind_inv in Hb. destruct Hb as (sl & s2 & Hsl & Hb). apply reads_inv in Hsl. destruct Hsl as [Hsl ->].
    apply mbind_inv in Hb. destruct Hb as (m & s3 & Hm & Hb). apply ret_inv in Hb. destruct Hb as [-> ->].
    unfold with_ctr in Hm. destruct (bijection_from_fresh_to sl (Model.ctr sa)) as [m0 c0] eqn:Eb.
    inversion Hm; subst m0 s3; clear Hm.
    exists x, sl, m, sa, (set_ctr sa c0).
    split; [exact Hx|]. split; [exact Ra|]. split; [exact Hsl|]. split; [exact Eb|]. split; [reflexivity|].
    split; [exact Rb|reflexivity].
Qed.

Lemma step_class_inv : forall pv st s cs s1, multi_ematch_step_class pv st s = Ok (cs, s1) ->
  forall c, In c cs ->
  (sub_get (ms_subst st) pv <> None /\ c = st) \/
  (sub_get (ms_subst st) pv = None /\
   exists x sl m sa sb, In x (ids s) /\ R2 s sa /\ class_slots sa x = Ok sl /\
     bijection_from_fresh_to sl (Model.ctr sa) = (m, Model.ctr sb) /\ R2 sb s1 /\
     c = with_subst st (ms_subst st ++ [(pv, {| aid := x; am := inverse_nocheck m |})])).
Proof.
  intros pv st s cs s1 H c Hc.
  destruct (step_class_inv_strong _ _ _ _ _ H c Hc) as [(A & B & _)|(A & x & sl & m & sa & sb & B1 & B2 & B3 & B4 & _ & B5 & B6)].
  - left. split; assumption.
  - right. split; [exact A|]. exists x, sl, m, sa, sb. split; [exact B1|]. split; [exact B2|]. split; [exact B3|].
    split; [exact B4|]. split; [exact B5|exact B6].
Qed.

Lemma step_node_inv : forall norm pv nd ch st s l s',
  multi_ematch_step_node norm pv nd ch st s = Ok (l, s') ->
  exists gid ns,
    sub_get (ms_subst st) pv = Some gid /\ enodes_applied gid s = Ok (ns, s') /\
    flat_mapr (mnode_body norm s' nd ch st) ns = Ok l /\
    forall st', In st' l ->
    exists n st1 l',
      In n ns /\
      matches_raw nd n (add_disjointness_constraint (sset_of_list (all_occ n)) st) = Ok (Some st1) /\
      kids_go norm s' ch (app_occ n) [st1] = Ok l' /\ In st' l'.
Proof.
  intros norm pv nd ch st s l s' H. rewrite multi_ematch_step_node_eq in H.
  destruct (sub_get (ms_subst st) pv) as [gid|] eqn:G; [|discriminate].
  apply mbind_inv in H. destruct H as (ns & s1 & He & H). apply reads_inv in H. destruct H as [H ->].
  exists gid, ns. split; [reflexivity|]. split; [exact He|]. split; [exact H|].
  intros st' Hin. destruct (flat_mapr_inv _ _ _ _ _ H st' Hin) as (n & r1 & Hn & Hb & Hr1).
  unfold mnode_body in Hb.
  destruct (matches_raw nd n (add_disjointness_constraint (sset_of_list (all_occ n)) st)) as [[st1|]|] eqn:Em;
    cbn [bind] in Hb; [| |discriminate].
  - exists n, st1, r1. repeat split; assumption.
  - inversion Hb; subst r1. contradiction.
Qed.

(* ------------------------------------------------------------------ *)
(* C. the keys of the substitution *)

Definition sub_dom_le (a b : subst) : Prop := forall v, sub_get a v <> None -> sub_get b v <> None.

Lemma sub_dom_le_refl : forall a, sub_dom_le a a.
Proof. intros a v H. exact H. Qed.
Lemma sub_dom_le_trans : forall a b c, sub_dom_le a b -> sub_dom_le b c -> sub_dom_le a c.
Proof. intros a b c H1 H2 v H. apply H2. apply H1. exact H. Qed.

Lemma same_keys_dom_le : forall a b, map fst a = map fst b -> sub_dom_le a b.
Proof. intros a b E v H. pose proof (sub_get_keys _ _ E v) as K. tauto. Qed.

Lemma sub_dom_le_app : forall a b, sub_dom_le a (a ++ b).
Proof. intros a b v H. rewrite sub_get_app. destruct (sub_get a v); [discriminate|congruence]. Qed.

Lemma sub_get_map : forall (f : appid -> appid) sb v,
  sub_get (map (fun p : text * appid => (fst p, f (snd p))) sb) v = option_map f (sub_get sb v).
Proof.
  intros f. induction sb as [|[k a] t IH]; intros v; cbn [map sub_get fst snd]; [reflexivity|].
  destruct (text_eqb k v); [reflexivity|apply IH].
Qed.

Lemma map_keys : forall (f : appid -> appid) (sb : subst),
  map fst (map (fun p : text * appid => (fst p, f (snd p))) sb) = map fst sb.
Proof. intros f sb. rewrite map_map. apply map_ext. intros [k a]. reflexivity. Qed.

Lemma update_state_keys : forall st, map fst (ms_subst (update_state st)) = map fst (ms_subst st).
Proof. intros st. unfold update_state. cbn [ms_subst]. apply map_keys. Qed.

(* union_slot keeps the keys (and only renames slots in the values) *)
Lemma union_slot_keys : forall x y st st', union_slot x y st = Some st' ->
  map fst (ms_subst st') = map fst (ms_subst st).
Proof.
  intros x y st st' H. unfold union_slot in H.
  destruct (state_find st x =? state_find st y); [inversion H; reflexivity|].
  destruct (match dis_get (ms_diseq st) (state_find st x) with Some xx => sset_mem (state_find st y) xx | None => false end);
    [discriminate|].
  destruct (match dis_get (ms_diseq st) (state_find st y) with Some yy => sset_mem (state_find st x) yy | None => false end);
    [discriminate|].
  destruct (allows_directed_union (state_find st x) st).
  - destruct (negb (allows_directed_union (state_find st x) st)); [discriminate|].
    inversion H; subst st'. rewrite update_state_keys. reflexivity.
  - destruct (negb (allows_directed_union (state_find st y) st)); [discriminate|].
    inversion H; subst st'. rewrite update_state_keys. reflexivity.
Qed.

Lemma union_slot_dom : forall x y st st', union_slot x y st = Some st' -> sub_dom_le (ms_subst st) (ms_subst st').
Proof. intros x y st st' H. apply same_keys_dom_le. symmetry. eapply union_slot_keys. exact H. Qed.

Lemma mr_go_keys : forall ps st st', mr_go ps st = Some st' -> map fst (ms_subst st') = map fst (ms_subst st).
Proof.
  induction ps as [|[x1 y1] t IH]; intros st st' H; cbn [mr_go] in H.
  - inversion H; reflexivity.
  - destruct (union_slot x1 y1 _) as [st1|] eqn:E; [|discriminate].
    rewrite (IH _ _ H). apply union_slot_keys in E. exact E.
Qed.

Lemma matches_raw_inv : forall nd n st st', matches_raw nd n st = Ok (Some st') ->
  exists sh1 sh2, wshape (nullify nd) = Ok sh1 /\ wshape (nullify n) = Ok sh2 /\
    node_eqb (fst sh1) (fst sh2) = true /\
    mr_go (combine (all_occ (nullify nd)) (all_occ (nullify n))) st = Some st'.
Proof.
  intros nd n st st' H. rewrite matches_raw_eq in H.
  destruct (wshape (nullify nd)) as [sh1|]; cbn [bind] in H; [|discriminate].
  destruct (wshape (nullify n)) as [sh2|]; cbn [bind] in H; [|discriminate].
  destruct (node_eqb (fst sh1) (fst sh2)) eqn:E; cbn [negb] in H; [|discriminate].
  exists sh1, sh2. split; [reflexivity|]. split; [reflexivity|]. split; [exact E|]. congruence.
Qed.

Lemma matches_raw_keys : forall nd n st st', matches_raw nd n st = Ok (Some st') ->
  map fst (ms_subst st') = map fst (ms_subst st).
Proof.
  intros nd n st st' H. destruct (matches_raw_inv _ _ _ _ H) as (sh1 & sh2 & _ & _ & _ & Hg).
  eapply mr_go_keys. exact Hg.
Qed.

Lemma matches_raw_dom : forall nd n st st', matches_raw nd n st = Ok (Some st') ->
  sub_dom_le (ms_subst st) (ms_subst st').
Proof. intros nd n st st' H. apply same_keys_dom_le. symmetry. eapply matches_raw_keys. exact H. Qed.

(* a node that matches has as many applied-id positions as the pattern node *)
Lemma matches_raw_app_len : forall nd n st st', matches_raw nd n st = Ok (Some st') ->
  List.length (app_occ n) = List.length (app_occ nd).
Proof.
  intros nd n st st' H. destruct (matches_raw_inv _ _ _ _ H) as (sh1 & sh2 & H1 & H2 & He & _).
  rewrite (matched_app_len (nullify nd) n sh1 sh2 H1 H2 He). apply nullify_app_len.
Qed.

Lemma unify_keys : forall fuel s x y st l, unify fuel s x y st = Ok l ->
  forall st', In st' l -> map fst (ms_subst st') = map fst (ms_subst st).
Proof.
  induction fuel as [|f IH]; intros s x y st l H st' Hin; [discriminate|].
  cbn [unify] in H.
  destruct (negb (aid (state_appid_find st x) =? aid (state_appid_find st y))).
  { inversion H; subst l. contradiction. }
  destruct (negb (Nat.eqb _ _)); [discriminate|].
  destruct (sset_diff (values (am (state_appid_find st x))) (values (am (state_appid_find st y)))) as [|xx xt].
  - destruct (eg_eq s _ _) as [e|]; cbn [bind] in H; [|discriminate]. inversion H; subst l.
    destruct e; [|contradiction]. destruct Hin as [<-|[]]. reflexivity.
  - destruct (flat_mapr_inv _ _ _ _ _ H st' Hin) as (yy & r1 & _ & Hf & Hr1).
    destruct (union_slot xx yy st) as [st1|] eqn:E.
    + rewrite (IH _ _ _ _ _ Hf st' Hr1). eapply union_slot_keys. exact E.
    + inversion Hf; subst r1. contradiction.
Qed.

Lemma unify_dom : forall fuel s x y st l, unify fuel s x y st = Ok l ->
  forall st', In st' l -> sub_dom_le (ms_subst st) (ms_subst st').
Proof. intros fuel s x y st l H st' Hin. apply same_keys_dom_le. symmetry. eapply unify_keys; eassumption. Qed.

Lemma extend_subst_dom : forall norm s pv x st l, extend_subst norm s pv x st = Ok l ->
  forall st', In st' l -> sub_dom_le (ms_subst st) (ms_subst st') /\ sub_get (ms_subst st') pv <> None.
Proof.
  intros norm s pv x st l H st' Hin. unfold extend_subst in H.
  destruct (sub_get (ms_subst st) pv) as [y|] eqn:G.
  - pose proof (unify_dom _ _ _ _ _ _ H st' Hin) as D. split; [exact D|]. apply D. congruence.
  - inversion H; subst l. destruct Hin as [<-|[]]. cbn [with_subst ms_subst]. split; [apply sub_dom_le_app|].
    rewrite sub_get_app, G. cbn [sub_get]. rewrite text_eqb_refl. discriminate.
Qed.

(* the exact keys after extend_subst *)
Lemma extend_subst_keys : forall norm s pv x st l, extend_subst norm s pv x st = Ok l ->
  forall st', In st' l ->
  map fst (ms_subst st') =
  match sub_get (ms_subst st) pv with Some _ => map fst (ms_subst st) | None => map fst (ms_subst st) ++ [pv] end.
Proof.
  intros norm s pv x st l H st' Hin. unfold extend_subst in H.
  destruct (sub_get (ms_subst st) pv) as [y|] eqn:G.
  - eapply unify_keys; eassumption.
  - inversion H; subst l. destruct Hin as [<-|[]]. cbn [with_subst ms_subst]. rewrite map_app. reflexivity.
Qed.

Lemma kids_go_dom_gen : forall norm s ch subs acc l, kids_go norm s ch subs acc = Ok l ->
  (List.length ch <= List.length subs)%nat ->
  forall st', In st' l ->
  exists st0, In st0 acc /\ sub_dom_le (ms_subst st0) (ms_subst st') /\
              forall cv, In cv ch -> sub_get (ms_subst st') cv <> None.
Proof.
  intros norm s. induction ch as [|cv ch' IH]; intros subs acc l H Hlen st' Hin.
  - rewrite kids_go_nil_l in H. inversion H; subst l. exists st'. split; [exact Hin|]. split; [apply sub_dom_le_refl|].
    intros cv [].
  - destruct subs as [|cg subs']; [cbn [List.length] in Hlen; lia|]. cbn [List.length] in Hlen.
    rewrite kids_go_cons in H.
    destruct (flat_mapr (extend_subst norm s cv cg) acc) as [next|] eqn:En; cbn [bind] in H; [|discriminate].
    destruct (IH subs' next l H ltac:(lia) st' Hin) as (st1 & H1 & D1 & B1).
    destruct (flat_mapr_inv _ _ _ _ _ En st1 H1) as (st0 & r1 & H0 & He & Hr1).
    destruct (extend_subst_dom _ _ _ _ _ _ He st1 Hr1) as [D0 B0].
    exists st0. split; [exact H0|]. split; [eapply sub_dom_le_trans; eassumption|].
    intros v [<-|Hv]; [apply D1; exact B0|apply B1; exact Hv].
Qed.

Lemma kids_go_dom : forall norm s ch subs acc l, kids_go norm s ch subs acc = Ok l ->
  List.length ch = List.length subs ->
  forall st', In st' l ->
  exists st0, In st0 acc /\ sub_dom_le (ms_subst st0) (ms_subst st') /\
              forall cv, In cv ch -> sub_get (ms_subst st') cv <> None.
Proof. intros norm s ch subs acc l H Hlen. eapply kids_go_dom_gen; [exact H|lia]. Qed.

Lemma step_class_dom : forall pv st s cs s1, multi_ematch_step_class pv st s = Ok (cs, s1) ->
  forall c, In c cs -> sub_dom_le (ms_subst st) (ms_subst c).
Proof.
  intros pv st s cs s1 H c Hc.
  destruct (step_class_inv _ _ _ _ _ H c Hc) as [(_ & ->)|(_ & x & sl & m & sa & sb & _ & _ & _ & _ & _ & ->)].
  - apply sub_dom_le_refl.
  - cbn [with_subst ms_subst]. apply sub_dom_le_app.
Qed.

Lemma step_node_dom : forall norm pv nd ch st s l s',
  multi_ematch_step_node norm pv nd ch st s = Ok (l, s') ->
  (List.length ch <= List.length (app_occ nd))%nat ->
  forall st', In st' l ->
  sub_dom_le (ms_subst st) (ms_subst st') /\ sub_get (ms_subst st) pv <> None /\
  forall cv, In cv ch -> sub_get (ms_subst st') cv <> None.
Proof.
  intros norm pv nd ch st s l s' H Hlen st' Hin.
  destruct (step_node_inv _ _ _ _ _ _ _ _ H) as (gid & ns & G & _ & _ & Hall).
  destruct (Hall st' Hin) as (n & st1 & l' & _ & Hm & Hk & Hl').
  pose proof (matches_raw_dom _ _ _ _ Hm) as D1. cbn [add_disjointness_constraint ms_subst] in D1.
  pose proof (matches_raw_app_len _ _ _ _ Hm) as L.
  destruct (kids_go_dom_gen _ _ _ _ _ _ Hk ltac:(lia) st' Hl') as (st0 & [<-|[]] & D2 & B).
  split; [eapply sub_dom_le_trans; eassumption|]. split; [congruence|exact B].
Qed.

Lemma multi_step_dom_gen : forall norm pv nd ch st s l s',
  multi_ematch_step norm (pv, nd, ch) st s = Ok (l, s') ->
  (List.length ch <= List.length (app_occ nd))%nat ->
  forall st', In st' l ->
  sub_dom_le (ms_subst st) (ms_subst st') /\ sub_get (ms_subst st') pv <> None /\
  forall cv, In cv ch -> sub_get (ms_subst st') cv <> None.
Proof.
  intros norm pv nd ch st s l s' H Hlen st' Hin.
  destruct (multi_step_inv _ _ _ _ _ _ _ _ H st' Hin) as (cs & s1 & c & sa & ra & sb & Hc & Hcin & _ & Hn & Hra & _).
  pose proof (step_class_dom _ _ _ _ _ Hc c Hcin) as D0.
  destruct (step_node_dom _ _ _ _ _ _ _ _ Hn Hlen st' Hra) as (D1 & Bp & B).
  split; [eapply sub_dom_le_trans; eassumption|]. split; [apply D1; exact Bp|exact B].
Qed.

Lemma multi_step_dom : forall norm pv nd ch st s l s',
  multi_ematch_step norm (pv, nd, ch) st s = Ok (l, s') ->
  List.length ch = List.length (app_occ nd) ->
  forall st', In st' l ->
  sub_dom_le (ms_subst st) (ms_subst st') /\ sub_get (ms_subst st') pv <> None /\
  forall cv, In cv ch -> sub_get (ms_subst st') cv <> None.
Proof. intros norm pv nd ch st s l s' H Hlen. eapply multi_step_dom_gen; [exact H|lia]. Qed.

Lemma multi_go_binds : forall norm pat,
  (forall v nd ch, In (v, nd, ch) pat -> List.length ch = List.length (app_occ nd)) ->
  forall states s l s', multi_ematch_go norm pat states s = Ok (l, s') ->
  forall st', In st' l ->
  exists st0, In st0 states /\ sub_dom_le (ms_subst st0) (ms_subst st') /\
    forall v nd ch, In (v, nd, ch) pat ->
      sub_get (ms_subst st') v <> None /\ forall cv, In cv ch -> sub_get (ms_subst st') cv <> None.
Proof.
  intros norm. induction pat as [|[[pv nd] ch] t IH]; intros W states s l s' H st' Hin.
  - apply multi_go_nil_inv in H. destruct H as [-> ->]. exists st'. split; [exact Hin|]. split; [apply sub_dom_le_refl|].
    intros v nd ch [].
  - apply multi_go_inv in H. destruct H as (next & s1 & Hn & H).
    destruct (IH (fun v nd' ch' Hi => W v nd' ch' (or_intror Hi)) next s1 l s' H st' Hin) as (st1 & H1 & D1 & B1).
    destruct (flat_mapM_inv _ _ _ _ _ _ _ Hn st1 H1) as (st0 & sa & ra & sb & H0 & Hs & Hra).
    destruct (multi_step_dom _ _ _ _ _ _ _ _ Hs (W pv nd ch (or_introl eq_refl)) st1 Hra) as (D0 & Bp & Bc).
    exists st0. split; [exact H0|]. split; [eapply sub_dom_le_trans; eassumption|].
    intros v nd' ch' [E|Hi].
    + inversion E; subst v nd' ch'. split; [apply D1; exact Bp|]. intros cv Hcv. apply D1. apply Bc. exact Hcv.
    + exact (B1 v nd' ch' Hi).
Qed.

Theorem multi_ematch_binds : forall norm pat s l s',
  (forall v nd ch, In (v, nd, ch) pat -> List.length ch = List.length (app_occ nd)) ->
  multi_ematch norm pat s = Ok (l, s') ->
  forall sb, In sb l -> forall v nd ch, In (v, nd, ch) pat ->
  sub_get sb v <> None /\ forall cv, In cv ch -> sub_get sb cv <> None.
Proof.
  intros norm pat s l s' W H sb Hin v nd ch Hv.
  destruct (multi_ematch_inv _ _ _ _ _ H) as (sts & Hg & ->).
  apply in_map_iff in Hin. destruct Hin as (st' & <- & Hst).
  destruct (multi_go_binds norm pat W _ _ _ _ Hg st' Hst) as (_ & _ & _ & B). exact (B v nd ch Hv).
Qed.

(* ------------------------------------------------------------------ *)
Print Assumptions multi_ematch_state.
Print Assumptions multi_ematch_go_state.
Print Assumptions multi_ematch_step_state.
Print Assumptions multi_step_inv.
Print Assumptions step_class_inv_strong.
Print Assumptions step_node_inv.
Print Assumptions multi_step_dom.
Print Assumptions multi_ematch_binds.
