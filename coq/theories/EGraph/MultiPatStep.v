(* EGraph/MultiPatStep.v — C05: one equation step `multi_ematch_step true e` preserves the invariant `mp_inv`
   (the hypothesis `mp_step_ok` of MultiPatFacts.v, restated as `mp_step_ok'`). *)
From SE Require Import Slots.SlotMapFacts Group.GroupSound Lang.LangFacts Lang.ShapeFacts Lang.RenameFacts
  Base.TextFacts Parse.Parser EGraph.Model EGraph.ModelFacts EGraph.ModelMachine EGraph.UnionFindFacts
  EGraph.InvariantFacts EGraph.UnionInvariantFacts EGraph.AddCoversFacts EGraph.HashconsShape EGraph.Mod4Facts
  EGraph.HashconsAbs EGraph.HashconsFacts EGraph.Rewrite EGraph.RewriteFacts EGraph.MatchDefs EGraph.MultiPat EGraph.MatchMachine
  EGraph.ProgressFacts EGraph.MatchFacts EGraph.SoundUnion EGraph.MonotoneFacts EGraph.MatchLookup
  EGraph.NodeCong EGraph.KidEqFacts EGraph.ShapeCong EGraph.CongruenceFacts EGraph.MatchComplete
  EGraph.MatchReprFix EGraph.MatchReprAlg EGraph.StoredLive EGraph.KidsFacts EGraph.PendingFacts EGraph.MatchReprFacts
  EGraph.RepFacts EGraph.MatchReprAllDefs EGraph.MatchReprAllRen EGraph.MatchReprAllInv EGraph.MultiPatRen
  EGraph.MultiPatUf EGraph.MultiPatDiseq EGraph.MultiPatRedirect EGraph.MultiPatDefs
  EGraph.MultiPatUnion EGraph.MultiPatState EGraph.MultiPatListed EGraph.MultiPatUnify
  EGraph.MultiPatStepDefs EGraph.MultiPatStepMr EGraph.MultiPatStepClass EGraph.MultiPatStepUnion EGraph.MultiPatStepNode EGraph.MultiPatStepKids.
Require Import ZArith Lia ZifyBool ZifyN ZifyNat.

Definition mp_step_ok' (s0 : egraph) : Prop :=
  forall done e st t l t', sg_ge s0 t -> mp_arity (done ++ [e]) -> mp_below (Model.ctr s0) (done ++ [e]) ->
    mp_inv s0 (Model.ctr s0) t done st -> multi_ematch_step true e st t = Ok (l, t') ->
    forall st', In st' l -> mp_inv s0 (Model.ctr s0) t' (done ++ [e]) st'.

Lemma sg_ge_R2'' : forall s0 t t', sg_ge s0 t -> R2 t t' -> sg_ge s0 t'.
Proof. intros s0 t t' [G L] [G' L']. unfold cle in L'. split; [eapply same_graph_trans; eauto|lia]. Qed.

Lemma bnd_ok_mono : forall s0 c0 t t' st ns a, Model.ctr t <= Model.ctr t' -> bnd_ok s0 c0 t st ns a -> bnd_ok s0 c0 t' st ns a.
Proof. intros s0 c0 t t' st ns a L (I & H2 & H3). split; [exact (inv_i_mono _ _ _ _ L I)|split; [exact H2|exact H3]]. Qed.

(* ------------------------------------------------------------------ *)
(* Phase A: the class step *)
Lemma class_phase : forall s0 done st t pv cs s1 c, match_inv s0 -> sg_ge s0 t ->
  mp_inv s0 (Model.ctr s0) t done st -> multi_ematch_step_class pv st t = Ok (cs, s1) -> In c cs ->
  sg_ge s0 s1 /\ exists ws gid,
    uf_ok c /\ sub_norm c /\ ps_roots c /\ keys_fresh (Model.ctr s0) c /\
    (forall k, get (ms_uf c) k <> None -> k < Model.ctr s1) /\
    (forall x, In x (ms_pslots c) <-> In x (mp_slots done)) /\
    nodes_apart c (map fst ws) /\ Forall2 (eq_wit s0 c) done ws /\
    sub_get (ms_subst c) pv = Some gid /\ inv_i s0 s1 gid /\
    (forall x, In x (values_vec (am gid)) -> Model.ctr s0 <= x \/ In x (ms_pslots c)) /\
    (forall v a, sub_get (ms_subst c) v = Some a -> a = gid \/ bnd_ok s0 (Model.ctr s0) s1 c (map fst ws) a).
Proof.
  intros s0 done st t pv cs s1 c MI SG (ws & U & Nm & R & Kf & Kb & P & B & A & W) Hc Hin.
  destruct (step_class_inv_strong _ _ _ _ _ Hc c Hin) as [(Hb & -> & ->)|(Hn & x & sl & m & sa & sb & Hx & Ra & Hsl & Hbf & Esb & Rb & ->)].
  - split; [exact SG|]. destruct (sub_get (ms_subst st) pv) as [gid|] eqn:G; [|exfalso; apply Hb; reflexivity].
    exists ws, gid. repeat (split; [assumption|]). split; [reflexivity|].
    destruct (B pv gid G) as (I & H2 & H3). split; [exact I|]. split; [exact H2|].
    intros v a Ga. right. exact (B v a Ga).
  - pose proof (sg_ge_R2'' _ _ _ SG Ra) as SGa.
    assert (Hxa : In x (ids sa)).
    { destruct Ra as [(E1 & _) _]. unfold ids. rewrite E1. exact Hx. }
    destruct (class_inv_i s0 sa x sl m (Model.ctr sb) MI SGa Hxa Hsl Hbf) as (Lab & Ck & Vals).
    assert (Lta : Model.ctr t <= Model.ctr sa) by (destruct Ra as [_ L]; exact L).
    assert (Lb1 : Model.ctr sb <= Model.ctr s1) by (destruct Rb as [_ L]; exact L).
    assert (SGb : sg_ge s0 sb).
    { rewrite Esb. destruct SGa as [G L]. split; [|cbn [set_ctr Model.ctr]; lia].
      eapply same_graph_trans; [exact G|]. unfold same_graph, set_ctr. cbn. repeat split; reflexivity. }
    split; [exact (sg_ge_R2'' _ _ _ SGb Rb)|].
    set (gid := {| aid := x; am := inverse_nocheck m |}) in *.
    exists ws, gid.
    split; [apply app_bind_uf_ok; exact U|].
    split.
    { apply app_bind_sub_norm; [exact Nm|]. intros z Hz. destruct (get (ms_uf st) z) eqn:G; [|reflexivity].
      exfalso. assert (z < Model.ctr t) by (apply Kb; rewrite G; discriminate). pose proof (Vals z Hz). lia. }
    split; [apply app_bind_ps_roots; exact R|].
    split; [apply app_bind_keys_fresh; exact Kf|].
    split; [intros k Hk; pose proof (Kb k Hk); lia|].
    split; [exact P|].
    split; [apply app_bind_nodes_apart; exact A|].
    split; [revert W; apply Forall2_impl_in; intros e w _ _ We; apply app_bind_eq_wit; exact We|].
    split.
    { unfold with_subst. cbn [ms_subst]. rewrite sub_get_app, Hn. cbn [sub_get]. rewrite text_eqb_refl. reflexivity. }
    split.
    { split; [exact Ck|]. intros v Hv. pose proof (Vals v Hv). lia. }
    split.
    { intros z Hz. left. pose proof (Vals z Hz). destruct SG as [_ L0]. lia. }
    intros v a Ga. unfold with_subst in Ga. cbn [ms_subst] in Ga. rewrite sub_get_app in Ga.
    destruct (sub_get (ms_subst st) v) as [a1|] eqn:G1.
    + right. inversion Ga; subst a1.
      apply (bnd_ok_ext s0 _ s1 st _ (map fst ws) (map fst ws) a); [reflexivity|intros z Hz; exact Hz|intros n0 Hn0; exact Hn0|].
      apply (bnd_ok_mono s0 _ t s1); [lia|]. exact (B v a G1).
    + left. cbn [sub_get] in Ga. destruct (text_eqb pv v); [|discriminate]. inversion Ga. reflexivity.
Qed.

(* ------------------------------------------------------------------ *)
(* the assembly *)
Section Assemble.
  Hypothesis H_adc : forall s0 c0 sa sb done ws c pv gid ns n, match_inv s0 -> ss_ok s0 -> sg_ge s0 sa -> c0 <= Model.ctr sa ->
    uf_ok c -> sub_norm c -> ps_roots c -> keys_fresh c0 c -> (forall k, get (ms_uf c) k <> None -> k < Model.ctr sa) ->
    (forall x, In x (mp_slots done) -> In x (ms_pslots c)) ->
    nodes_apart c (map fst ws) -> Forall2 (eq_wit s0 c) done ws ->
    sub_get (ms_subst c) pv = Some gid -> inv_i s0 sa gid ->
    (forall x, In x (values_vec (am gid)) -> c0 <= x \/ In x (ms_pslots c)) ->
    (forall v a, sub_get (ms_subst c) v = Some a -> a = gid \/ bnd_ok s0 c0 sa c (map fst ws) a) ->
    enodes_applied gid sa = Ok (ns, sb) -> In n ns ->
    ginv s0 c0 sb done ws n (add_disjointness_constraint (sset_of_list (all_occ n)) c).
  Hypothesis H_mr : forall s0 c0 sb done ws pv nd n gid c1 st1,
    (forall x, In x (all_occ (nullify nd)) -> x < c0) ->
    ginv s0 c0 sb done ws n c1 -> (forall x, In x (ms_pslots c1) <-> In x (mp_slots done)) ->
    sub_get (ms_subst c1) pv = Some gid ->
    matches_raw nd n c1 = Ok (Some st1) ->
    ginv s0 c0 sb done ws n st1 ->
    prog s0 c0 sb done ws pv nd n gid [] [] st1 /\
    (exists sh1 sh2, wshape (nullify nd) = Ok sh1 /\ wshape (nullify n) = Ok sh2 /\ node_eqb (fst sh1) (fst sh2) = true).
  Hypothesis H_kids : forall s0 c0 t done ws pv nd n gid, match_inv s0 -> sg_ge s0 t ->
    (forall a, In a (app_occ n) -> inv_i s0 t a) ->
    forall ch st1 l st', List.length ch = List.length (app_occ n) ->
     prog s0 c0 t done ws pv nd n gid [] [] st1 -> kids_go true t ch (app_occ n) [st1] = Ok l -> In st' l ->
     prog s0 c0 t done ws pv nd n gid ch (app_occ n) st'.

  Theorem mp_step_ok_from : forall s0, match_inv s0 -> ss_ok s0 -> mp_step_ok' s0.
  Proof.
    intros s0 MI SS done [[pv nd] ch] st t l t' SGt Ar Be Inv Hstep st' Hst'.
    destruct (multi_step_inv _ _ _ _ _ _ _ _ Hstep st' Hst') as (cs & s1 & c & sa & ra & sb & Hc & Hcin & R1a & Hn & Hra & Rb).
    destruct (class_phase s0 done st t pv cs s1 c MI SGt Inv Hc Hcin) as (SG1 & ws & gid & U & Nm & R & Kf & Kb & P & A & W & G & Ig & Vg & B).
    pose proof (sg_ge_R2'' _ _ _ SG1 R1a) as SGa.
    assert (L1a : Model.ctr s1 <= Model.ctr sa) by (destruct R1a as [_ L]; exact L).
    destruct (step_node_inv _ _ _ _ _ _ _ _ Hn) as (gid' & ns & G' & He & _ & Hall).
    rewrite G in G'. inversion G'; subst gid'. clear G'.
    destruct (Hall st' Hra) as (n & st1 & l' & Hnin & Hm & Hk & Hl').
    pose proof (inv_i_mono _ _ _ _ L1a Ig) as Iga.
    destruct (listed_lookup s0 MI SS gid sa ns sb n SGa Iga He Hnin) as (Cl & Nd & Kids & Pub & b0 & Lk & Eq & Wb & Vb).
    pose proof (r2_enodes_applied gid _ _ _ He) as Rab.
    pose proof (sg_ge_R2'' _ _ _ SGa Rab) as SGb.
    assert (Lbt : Model.ctr sb <= Model.ctr t') by (destruct Rb as [_ L]; exact L).
    remember (Model.ctr s0) as c0 eqn:Ec0.
    assert (Lc0a : c0 <= Model.ctr sa) by (subst c0; destruct SGa as [_ L]; exact L).
    assert (Lc0b : c0 <= Model.ctr sb) by (subst c0; destruct SGb as [_ L]; exact L).
    remember (add_disjointness_constraint (sset_of_list (all_occ n)) c) as c1 eqn:Ec1.
    assert (G1 : ginv s0 c0 sb done ws n c1).
    { subst c1. apply (H_adc s0 c0 sa sb done ws c pv gid ns n MI SS SGa); try assumption.
      - intros k Hk0. pose proof (Kb k Hk0). lia.
      - intros x Hx. apply P. exact Hx.
      - intros v a Ga. destruct (B v a Ga) as [E|E]; [left; exact E|right; exact (bnd_ok_mono _ _ _ _ _ _ _ L1a E)]. }
    assert (Below : forall x, In x (all_occ (nullify nd)) -> x < c0).
    { intros x Hx. apply Be. unfold mp_slots. apply in_flat_map. exists (pv, nd, ch).
      split; [apply in_or_app; right; left; reflexivity|exact Hx]. }
    assert (G2 : ginv s0 c0 sb done ws n st1).
    { apply (matches_raw_transport c0 (Model.ctr sb) (ginv s0 c0 sb done ws n)) with (nd := nd) (n := n) (st := c1).
      - intros st2 (a1 & a2 & a3 & a4 & _). split; [exact a1|split; [exact a2|split; [exact a3|exact a4]]].
      - intros x1 st2 H2 Hx1. apply ginv_ps_add; assumption.
      - intros x y st2 st3 H2 Un Hx Hy Lx Ly. exact (ginv_union s0 c0 sb done ws n st2 st3 x y MI H2 Un Hx Hy Lx Ly).
      - exact Lc0b.
      - exact G1.
      - exact Below.
      - intros y Hy. destruct G1 as (_ & _ & _ & _ & _ & _ & _ & _ & _ & Occ). apply Occ. apply all_occ_nullify. exact Hy.
      - exact Hm. }
    assert (Pc1 : forall x, In x (ms_pslots c1) <-> In x (mp_slots done)) by (subst c1; rewrite adc_pslots; exact P).
    assert (Gc1 : sub_get (ms_subst c1) pv = Some gid) by (subst c1; rewrite adc_subst; exact G).
    destruct (H_mr s0 c0 sb done ws pv nd n gid c1 st1 Below G1 Pc1 Gc1 Hm G2) as (Pr0 & Sh).
    assert (Len : List.length ch = List.length (app_occ n)).
    { rewrite (matches_raw_app_len _ _ _ _ Hm). apply (Ar pv nd ch). apply in_or_app. right. left. reflexivity. }
    pose proof (H_kids s0 c0 sb done ws pv nd n gid MI SGb Kids ch st1 l' st' Len Pr0 Hk Hl') as Fin.
    destruct Fin as ((U' & Nm' & R' & Kf' & Kb' & P1' & B' & A' & W' & _) & P' & Gp & Mp & Fk).
    exists (ws ++ [(n, gid)]).
    split; [exact U'|]. split; [exact Nm'|]. split; [exact R'|]. split; [exact Kf'|].
    split; [intros k Hk0; pose proof (Kb' k Hk0); lia|].
    split.
    { intros x. rewrite P'. unfold mp_slots. rewrite flat_map_app. cbn [flat_map snd fst]. rewrite app_nil_r, in_app_iff. reflexivity. }
    split.
    { intros v a Ga. apply (bnd_ok_mono s0 c0 sb t'); [exact Lbt|].
      apply (bnd_ok_ext s0 c0 sb st' st' (n :: map fst ws) (map fst (ws ++ [(n, gid)])) a eq_refl (fun z H => H)); [|exact (B' v a Ga)].
      intros n0 [<-|H]; rewrite map_app; apply in_or_app; [right; left; reflexivity|left; exact H]. }
    split.
    { apply nodes_apart_incl with (ns := n :: map fst ws); [|exact A'].
      intros n0 H. rewrite map_app in H. apply in_app_or in H. destruct H as [H|[<-|[]]]; [right; exact H|left; reflexivity]. }
    apply Forall2_app; [exact W'|]. constructor; [|constructor]. unfold eq_wit.
    split; [exact Cl|]. split; [exact Nd|]. split; [intros a Ha; exact (proj1 (Kids a Ha))|].
    split; [exact (proj1 Ig)|]. split; [intros x Hx; apply pub_occ_all_occ; exact (Pub x Hx)|].
    split; [exists b0; split; [exact Lk|split; [exact Eq|split; [exact Wb|exact Vb]]]|].
    split; [exact Gp|]. split; [exact Sh|]. split; [exact Mp|exact Fk].
  Qed.
End Assemble.

(* the step hypothesis of MultiPatFacts.v, proved *)
Theorem mp_step_ok_proved : forall s0, match_inv s0 -> ss_ok s0 -> mp_step_ok' s0.
Proof.
  apply mp_step_ok_from.
  - exact node_adc.
  - exact node_mr.
  - intros s0 c0 t done ws pv nd n gid MI SG Kn.
    apply (kids_phase s0 c0 t done ws pv nd n gid MI SG Kn).
    intros chd subd st st' x y Hsub Pr Un Hx Hy Lx Ly.
    exact (prog_union s0 c0 t done ws pv nd n gid chd subd st st' x y MI (fun a Ha => proj1 (Kn a Ha)) Hsub Pr Un Hx Hy Lx Ly).
Qed.

Print Assumptions class_phase.
Print Assumptions mp_step_ok_from.
Print Assumptions mp_step_ok_proved.
