(* EGraph/MultiPatStepClass.v — the invocation built by `multi_ematch_step_class` (EGraph/MultiPat.v) for a live class:
   the analogue of `root_inv_i` (EGraph/MatchReprAllTop.v). *)
From SE Require Import Slots.SlotMapFacts Group.GroupSound Lang.LangFacts Lang.ShapeFacts Lang.RenameFacts
  Base.TextFacts Parse.Parser EGraph.Model EGraph.ModelFacts EGraph.ModelMachine EGraph.UnionFindFacts
  EGraph.InvariantFacts EGraph.UnionInvariantFacts EGraph.AddCoversFacts EGraph.HashconsShape EGraph.Mod4Facts
  EGraph.HashconsAbs EGraph.HashconsFacts EGraph.Rewrite EGraph.RewriteFacts EGraph.MatchDefs EGraph.MatchMachine
  EGraph.ProgressFacts EGraph.MatchFacts EGraph.SoundUnion EGraph.MonotoneFacts EGraph.MatchLookup
  EGraph.NodeCong EGraph.KidEqFacts EGraph.ShapeCong EGraph.CongruenceFacts EGraph.MatchComplete
  EGraph.MatchReprFix EGraph.MatchReprAlg EGraph.StoredLive EGraph.KidsFacts EGraph.PendingFacts EGraph.SoundAddExpr
  EGraph.MatchReprFacts EGraph.MatchReprAllDefs EGraph.SelfSymFacts EGraph.OpsPreFacts EGraph.StaticFacts
  EGraph.MatchReprAllTop EGraph.MultiPat.
Require Import ZArith Lia ZifyBool ZifyN ZifyNat.

Lemma class_inv_i : forall s0 t x sl m c', match_inv s0 -> sg_ge s0 t -> In x (ids t) -> class_slots t x = Ok sl ->
  bijection_from_fresh_to sl (Model.ctr t) = (m, c') ->
  Model.ctr t <= c' /\
  ckid s0 {| aid := x; am := inverse_nocheck m |} /\
  (forall v, In v (values_vec (am {| aid := x; am := inverse_nocheck m |})) -> Model.ctr t <= v /\ v < c').
Proof.
  intros s0 t x sl m c' [I3 K0 M4 Hhc Hpe Hlv] [(E1 & E2 & _ & _) Hge] Hi Hsl E.
  assert (EI : eg_inv s0) by (destruct I3 as [[EI _] _]; exact EI).
  assert (Hi0 : In x (ids s0)) by (rewrite ids_eq in *; rewrite <- E1; exact Hi).
  unfold class_slots in Hsl. destruct (get_class t x) as [c|] eqn:Hct; cbn [bind] in Hsl; [|discriminate].
  inversion Hsl; subst sl. clear Hsl.
  assert (Hc : get_class s0 x = Ok c) by (unfold get_class in *; rewrite <- E2; exact Hct).
  destruct (ei_cls s0 EI x c Hc) as (Sw & Hg & _).
  destruct (bff_props _ _ _ _ Sw E) as [Wm Im].
  assert (Bm : is_bijection m = true) by (apply is_bijection_injective; assumption).
  destruct (fresh_spec _ _ _ _ Sw E) as [F1 F2].
  split; [|split].
  - pose proof (bijection_from_fresh_to_step (c_slots c) (Model.ctr t)) as St. rewrite E in St. cbn [snd] in St.
    destruct St as [k Hk]. lia.
  - apply lkid_covers_ckid.
    + apply ids_leader in Hi0. destruct Hi0 as (e & He & Hae).
      exists e, c. cbn [aid am]. split; [exact He|]. split; [exact Hae|]. split; [exact Hc|]. split; [exact Hg|].
      split; [exact (uso_leader s0 (ei_slots s0 EI) x e c He Hae Hc)|]. split; [apply inverse_wf|].
      intros k Hk. destruct (get (inverse_nocheck m) k) as [v|] eqn:G; [|exfalso; apply Hk; reflexivity].
      exact (proj1 (fresh_spec_keys _ _ _ _ _ _ Sw E G)).
    + exists c. cbn [aid am]. split; [exact Hc|]. split.
      * intros k1 k2 v G1 G2. exact (F2 k1 k2 v G1 G2).
      * intros k Hk. destruct (F1 k Hk) as (y & -> & _). discriminate.
  - cbn [am]. intros v Hv. unfold values_vec in Hv. apply in_map_iff in Hv. destruct Hv as ([k v'] & <- & Hkv).
    cbn [snd]. apply in_get in Hkv; [|apply inverse_wf].
    destruct (fresh_spec_keys _ _ _ _ _ _ Sw E Hkv) as (_ & R & _). lia.
Qed.

Print Assumptions class_inv_i.
