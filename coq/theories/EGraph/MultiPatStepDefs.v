(* EGraph/MultiPatStepDefs.v — the in-progress invariant of one equation step of the multi-pattern matcher. Definitions only. *)
From SE Require Import Slots.SlotMapFacts Lang.LangFacts Lang.ShapeFacts Lang.RenameFacts
  Base.TextFacts Parse.Parser EGraph.Model EGraph.ModelFacts EGraph.ModelMachine
  EGraph.Rewrite EGraph.RewriteFacts EGraph.MatchDefs EGraph.MultiPat EGraph.MatchMachine
  EGraph.MatchFacts EGraph.MatchLookup EGraph.MatchReprAllDefs
  EGraph.MultiPatUf EGraph.MultiPatDiseq EGraph.MultiPatRen EGraph.MultiPatDefs.
Require Import ZArith Lia List.
Import ListNotations.
Local Open Scope N_scope.

Definition kid_ok (s0 : egraph) (st : mstate) (cv : text) (cg : appid) : Prop :=
  exists a, sub_get (ms_subst st) cv = Some a /\ eg_eq s0 (state_appid_find st cg) a = Ok true.

(* the core: the invariant for `done` with the node list n :: map fst ws, plus: every slot of n is hi_or_ps and its
   representative is older than the counter *)
Definition ginv (s0 : egraph) (c0 : N) (t : egraph) (done : mpat) (ws : list witness) (n : node) (st : mstate) : Prop :=
  uf_ok st /\ sub_norm st /\ ps_roots st /\ keys_fresh c0 st /\
  (forall k, get (ms_uf st) k <> None -> k < Model.ctr t) /\
  (forall x, In x (mp_slots done) -> In x (ms_pslots st)) /\
  (forall v a, sub_get (ms_subst st) v = Some a -> bnd_ok s0 c0 t st (n :: map fst ws) a) /\
  nodes_apart st (n :: map fst ws) /\
  Forall2 (eq_wit s0 st) done ws /\
  (forall z, In z (all_occ n) -> hi_or_ps c0 st z /\ state_find st z < Model.ctr t).

(* after matches_raw, with the children chd (paired with subd) processed *)
Definition prog (s0 : egraph) (c0 : N) (t : egraph) (done : mpat) (ws : list witness) (pv : text) (nd n : node)
  (gid : appid) (chd : list text) (subd : list appid) (st : mstate) : Prop :=
  ginv s0 c0 t done ws n st /\
  (forall x, In x (ms_pslots st) <-> In x (mp_slots done) \/ In x (all_occ (nullify nd))) /\
  sub_get (ms_subst st) pv = Some (state_appid_find st gid) /\
  map (state_find st) (all_occ (nullify n)) = all_occ (nullify nd) /\
  Forall2 (kid_ok s0 st) chd subd.
