(* EGraph/MultiPatStepKids.v — the children loop of one equation step preserves the in-progress invariant `prog`. *)
From SE Require Import Slots.SlotMapFacts Group.GroupSound Lang.LangFacts Lang.ShapeFacts Lang.RenameFacts
  Base.TextFacts Parse.Parser EGraph.Model EGraph.ModelFacts EGraph.ModelMachine EGraph.UnionFindFacts
  EGraph.InvariantFacts EGraph.UnionInvariantFacts EGraph.AddCoversFacts EGraph.HashconsShape EGraph.Mod4Facts
  EGraph.HashconsAbs EGraph.HashconsFacts EGraph.Rewrite EGraph.RewriteFacts EGraph.MatchDefs EGraph.MultiPat EGraph.MatchMachine
  EGraph.ProgressFacts EGraph.MatchFacts EGraph.SoundUnion EGraph.MonotoneFacts EGraph.MatchLookup
  EGraph.NodeCong EGraph.KidEqFacts EGraph.ShapeCong EGraph.CongruenceFacts EGraph.MatchComplete
  EGraph.MatchReprFix EGraph.MatchReprAlg EGraph.StoredLive EGraph.KidsFacts EGraph.PendingFacts EGraph.MatchReprFacts
  EGraph.RepFacts EGraph.MatchReprAllDefs EGraph.MatchReprAllRen EGraph.MatchReprAllInv EGraph.MultiPatRen
  EGraph.MatchReprAllInv EGraph.MultiPatUf EGraph.MultiPatDiseq EGraph.MultiPatRedirect EGraph.MultiPatDefs
  EGraph.MultiPatUnion EGraph.MultiPatState EGraph.MultiPatUnify EGraph.MultiPatStepDefs.
Require Import ZArith Lia ZifyBool ZifyN ZifyNat.
Require Import List.
Import ListNotations.
Local Open Scope N_scope.

Section KidsPhase.
  Variables (s0 : egraph) (c0 : N) (t : egraph) (done : mpat) (ws : list witness) (pv : text) (nd n : node) (gid : appid).
  Hypothesis MI : match_inv s0.
  Hypothesis SG : sg_ge s0 t.
  Hypothesis Kn : forall a, In a (app_occ n) -> inv_i s0 t a.
  (* proved elsewhere (MultiPatStepUnion.v): taken as a hypothesis here *)
  Hypothesis H_prog_union : forall chd subd st st' x y,
     (forall cg, In cg subd -> In cg (app_occ n)) ->
     prog s0 c0 t done ws pv nd n gid chd subd st -> union_slot x y st = Some st' ->
     hi_or_ps c0 st x -> hi_or_ps c0 st y -> state_find st x < Model.ctr t -> state_find st y < Model.ctr t ->
     prog s0 c0 t done ws pv nd n gid chd subd st'.

  Let EI : eg_inv s0.
  Proof. destruct MI as [[[E _] _] _ _ _ _ _]. exact E. Qed.

  Lemma kid_closed : forall chd subd cv cg y st,
     (forall a, In a subd -> In a (app_occ n)) -> In cg (app_occ n) ->
     sub_get (ms_subst st) cv = Some y ->
     unify_closed (fun st => prog s0 c0 t done ws pv nd n gid chd subd st) cg y st.
  Proof.
    intros chd subd cv cg y st Sub0 Hcg Gy st1 xx yy st2 P1 E1 Hx Hy U.
    pose proof P1 as [G1 _]. destruct G1 as (K1 & N1 & _ & _ & _ & _ & B1 & _ & _ & L1).
    rewrite values_vec_appid_find in Hx. apply in_map_iff in Hx. destruct Hx as (z & <- & Hz).
    pose proof (all_occ_app_val n cg z Hcg Hz) as Oz. destruct (L1 z Oz) as [Hh Hl].
    destruct E1 as (_ & Es & _).
    assert (G1y : sub_get (ms_subst st1) cv = Some (state_appid_find st1 y)).
    { rewrite Es, MultiPatUf.sub_get_map, Gy. reflexivity. }
    destruct (B1 cv _ G1y) as ((_ & Vlt) & Vps & _).
    assert (Ry : state_find st1 yy = yy).
    { apply state_find_root. exact (N1 cv _ yy (MatchReprAllInv.sub_get_in _ _ _ G1y) Hy). }
    apply (H_prog_union chd subd st1 st2 (state_find st1 z) yy Sub0 P1 U).
    - unfold hi_or_ps. rewrite (state_find_idem st1 z K1). exact Hh.
    - unfold hi_or_ps. rewrite Ry. exact (Vps yy Hy).
    - rewrite (state_find_idem st1 z K1). exact Hl.
    - rewrite Ry. exact (Vlt yy Hy).
  Qed.

  Lemma kid_step : forall chd subd cv cg l st st',
     (forall a, In a (subd ++ [cg]) -> In a (app_occ n)) ->
     prog s0 c0 t done ws pv nd n gid chd subd st -> extend_subst true t cv cg st = Ok l -> In st' l ->
     prog s0 c0 t done ws pv nd n gid (chd ++ [cv]) (subd ++ [cg]) st'.
  Proof.
    intros chd subd cv cg l st st' Sub HP He Hin.
    assert (Hcg : In cg (app_occ n)) by (apply Sub; apply in_or_app; right; left; reflexivity).
    assert (Sub0 : forall a, In a subd -> In a (app_occ n)) by (intros a Ha; apply Sub; apply in_or_app; left; exact Ha).
    pose (P := fun st => prog s0 c0 t done ws pv nd n gid chd subd st).
    assert (P_uf : forall st, P st -> uf_ok st /\ sub_norm st).
    { intros st1 [G _]. destruct G as (A & B & _). split; assumption. }
    assert (Hcl : forall y, sub_get (ms_subst st) cv = Some y -> unify_closed P cg y st).
    { intros y Gy. exact (kid_closed chd subd cv cg y st Sub0 Hcg Gy). }
    destruct (extend_subst_spec t P P_uf cv cg st l HP Hcl He st' Hin) as [[Gn Est]|(y & Gy & HP' & E & _ & Eq)].
    2:{ destruct HP' as (G & Ps & Gpv & Mp & F). split; [exact G|]. split; [exact Ps|]. split; [exact Gpv|]. split; [exact Mp|].
        apply Forall2_app; [exact F|]. constructor; [|constructor].
        exists (state_appid_find st' y). split.
        - rewrite (proj1 (proj2 E)), MultiPatUf.sub_get_map, Gy. reflexivity.
        - rewrite <- (eg_eq_sg s0 t _ _ (proj1 SG)). exact Eq. }
    subst st'. destruct HP as (G & Ps & Gpv & Mp & F).
    destruct G as (K & Nn & PR & KF & KL & DS & B & NA & FW & L).
    assert (Hn : In n (n :: map fst ws)) by (left; reflexivity).
    assert (Bi : bnd_ok s0 c0 t st (n :: map fst ws) (state_appid_find st cg)).
    { split; [|split].
      - rewrite nrm_mapa. apply inv_i_mapa; [exact (Kn cg Hcg)| |].
        + intros p q Hp Hq Epq. apply (apart_inj st (n :: map fst ws) n NA Hn);
            [eapply all_occ_app_val; eauto|eapply all_occ_app_val; eauto|exact Epq].
        + intros x Hx. exact (proj2 (L x (all_occ_app_val n cg x Hcg Hx))).
      - intros x Hx. rewrite values_vec_appid_find in Hx. apply in_map_iff in Hx. destruct Hx as (z & <- & Hz).
        exact (proj1 (L z (all_occ_app_val n cg z Hcg Hz))).
      - exists n. split; [exact Hn|]. intros x Hx. rewrite values_vec_appid_find in Hx. apply in_map_iff in Hx.
        destruct Hx as (z & <- & Hz). exists z. split; [exact (all_occ_app_val n cg z Hcg Hz)|reflexivity]. }
    split; [|split; [exact Ps|split; [|split; [exact Mp|]]]].
    - split; [apply app_bind_uf_ok; exact K|]. split.
      { apply app_bind_sub_norm; [exact Nn|]. intros z Hz. rewrite values_vec_appid_find in Hz. apply in_map_iff in Hz.
        destruct Hz as (z0 & <- & _). apply (proj2 K). }
      split; [apply app_bind_ps_roots; exact PR|]. split; [apply app_bind_keys_fresh; exact KF|].
      split; [exact KL|]. split; [exact DS|].
      split; [exact (app_bind_bnd_all s0 c0 t st (n :: map fst ws) cv _ Gn Bi B)|].
      split; [apply app_bind_nodes_apart; exact NA|]. split.
      { clear - FW. induction FW; constructor; [apply app_bind_eq_wit; assumption|assumption]. }
      exact L.
    - unfold with_subst. cbn [ms_subst]. rewrite sub_get_app, Gpv. reflexivity.
    - apply Forall2_app.
      + clear - F. induction F as [|a b la lb Hab F IH]; constructor; [|exact IH].
        destruct Hab as (a0 & Ga & Ea). exists a0. split; [|exact Ea].
        unfold with_subst. cbn [ms_subst]. rewrite sub_get_app, Ga. reflexivity.
      + constructor; [|constructor]. exists (state_appid_find st cg). split.
        * unfold with_subst. cbn [ms_subst]. rewrite sub_get_app, Gn. cbn [sub_get]. rewrite text_eqb_refl. reflexivity.
        * change (eg_eq s0 (state_appid_find st cg) (state_appid_find st cg) = Ok true).
          apply eg_eq_refl_inv; [exact (ei_uf _ EI)|exact (ei_slots _ EI)|].
          destruct (ckid_nrm_kid s0 st (n :: map fst ws) n cg NA Hn Hcg (proj1 (Kn cg Hcg))) as [_ Ca].
          exact (canon_covers _ _ Ca).
  Qed.

  Theorem kids_phase : forall ch st1 l st', List.length ch = List.length (app_occ n) ->
     prog s0 c0 t done ws pv nd n gid [] [] st1 -> kids_go true t ch (app_occ n) [st1] = Ok l -> In st' l ->
     prog s0 c0 t done ws pv nd n gid ch (app_occ n) st'.
  Proof.
    intros ch st1 l st' Len HP H Hin.
    pose (R := fun (chs : list text) (subs : list appid) (st : mstate) =>
                 exists chd subd, ch = chd ++ chs /\ app_occ n = subd ++ subs /\
                   prog s0 c0 t done ws pv nd n gid chd subd st).
    assert (HR : R [] [] st').
    { apply (kids_go_ind_len t true R) with (ch := ch) (subs := app_occ n) (acc := [st1]) (l := l);
        [|exact Len|exact H| |exact Hin].
      - intros cv cg chs subs st l0 st2 (chd & subd & E1 & E2 & HPst) He Hi.
        exists (chd ++ [cv]), (subd ++ [cg]). split; [rewrite <- app_assoc; exact E1|].
        split; [rewrite <- app_assoc; exact E2|].
        apply (kid_step chd subd cv cg l0 st st2); [|exact HPst|exact He|exact Hi].
        intros a Ha. rewrite E2. apply in_or_app. apply in_app_or in Ha.
        destruct Ha as [Ha|[<-|[]]]; [left; exact Ha|right; left; reflexivity].
      - intros st [<-|[]]. exists [], []. split; [reflexivity|]. split; [reflexivity|exact HP]. }
    destruct HR as (chd & subd & E1 & E2 & HPf). rewrite app_nil_r in E1, E2. rewrite E1, E2. exact HPf.
  Qed.
End KidsPhase.

Print Assumptions kid_step.
Print Assumptions kids_phase.
