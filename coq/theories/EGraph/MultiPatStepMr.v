(* EGraph/MultiPatStepMr.v — generic transport of a state predicate `P` through `matches_raw`
   (the `MultiPatUf.mr_go` loop): `P` only has to be closed under `ps_add` of a fresh pattern slot and under the
   unions `matches_raw` actually performs. *)
From SE Require Import Slots.SlotMapFacts Lang.LangFacts Lang.ShapeFacts Base.TextFacts Parse.Parser
  EGraph.Model EGraph.ModelFacts EGraph.ModelMachine EGraph.Rewrite EGraph.RewriteFacts EGraph.MatchDefs
  EGraph.MultiPat EGraph.MatchMachine EGraph.MatchFacts EGraph.MatchLookup EGraph.MultiPatUf EGraph.MultiPatState.
Require Import ZArith Lia List.
Import ListNotations.
Local Open Scope N_scope.

Section MrTransport.
  Variables (c0 B : N) (P : mstate -> Prop).
  Hypothesis P_core : forall st, P st -> uf_ok st /\ sub_norm st /\ ps_roots st /\ keys_fresh c0 st.
  Hypothesis P_add : forall x1 st, P st -> x1 < c0 -> P (ps_add x1 st).
  Hypothesis P_union : forall x y st st', P st -> union_slot x y st = Some st' ->
    hi_or_ps c0 st x -> hi_or_ps c0 st y -> state_find st x < B -> state_find st y < B -> P st'.
  Hypothesis c0_le_B : c0 <= B.

  Lemma mr_go_transport : forall ps st st', P st ->
    (forall x, In x (map fst ps) -> x < c0) ->
    (forall y, In y (map snd ps) -> hi_or_ps c0 st y /\ state_find st y < B) ->
    MultiPatUf.mr_go ps st = Some st' -> P st'.
  Proof.
    induction ps as [|[x1 y1] t IH]; intros st st' HP Lx Hy G; cbn [MultiPatUf.mr_go] in G.
    - injection G as <-. exact HP.
    - destruct (union_slot x1 y1 (ps_add x1 st)) as [st2|] eqn:U; [|discriminate].
      destruct (P_core st HP) as (K & N & R & Kf).
      assert (Lx1 : x1 < c0) by (apply Lx; left; reflexivity).
      destruct (Hy y1 (or_introl eq_refl)) as [Hy1 By1].
      destruct (mr_step c0 x1 y1 st st2 K N R Kf Lx1 Hy1 U)
        as (_ & _ & _ & _ & _ & _ & _ & _ & Fz & _ & Hz).
      assert (Gx1 : get (ms_uf st) x1 = None).
      { destruct (get (ms_uf st) x1) as [w|] eqn:Gg; [|reflexivity].
        assert (c0 <= x1) by (apply Kf; congruence). lia. }
      assert (Fx : state_find st x1 = x1) by (apply state_find_root; exact Gx1).
      assert (Fs : forall z, state_find (ps_add x1 st) z = state_find st z).
      { intro z. apply state_find_uf. reflexivity. }
      assert (P2 : P st2).
      { apply (P_union x1 y1 (ps_add x1 st) st2 (P_add x1 st HP Lx1) U).
        - unfold hi_or_ps. rewrite Fs, Fx. right. cbn [ps_add ms_pslots]. apply sset_insert_in. left. reflexivity.
        - unfold hi_or_ps. rewrite Fs. destruct Hy1 as [H|H]; [left; exact H|right].
          cbn [ps_add ms_pslots]. apply sset_insert_in. right. exact H.
        - rewrite Fs, Fx. lia.
        - rewrite Fs. exact By1. }
      apply (IH st2 st' P2).
      + intros x Hx. apply Lx. right. exact Hx.
      + intros y Hin. destruct (Hy y (or_intror Hin)) as [Hh Hb]. split; [exact (Hz y Hh)|].
        destruct (Fz y) as [->| ->]; [exact Hb|lia].
      + exact G.
  Qed.

  Theorem matches_raw_transport : forall nd n st st', P st ->
    (forall x, In x (all_occ (nullify nd)) -> x < c0) ->
    (forall y, In y (all_occ (nullify n)) -> hi_or_ps c0 st y /\ state_find st y < B) ->
    matches_raw nd n st = Ok (Some st') -> P st'.
  Proof.
    intros nd n st st' HP Lx Hy M. rewrite matches_raw_unfold in M.
    destruct (wshape (nullify nd)) as [sh1|e1] eqn:W1; cbn [bind] in M; [|discriminate].
    destruct (wshape (nullify n)) as [sh2|e2] eqn:W2; cbn [bind] in M; [|discriminate].
    destruct (node_eqb (fst sh1) (fst sh2)) eqn:E; cbn [negb] in M; [|discriminate].
    assert (G : MultiPatUf.mr_go (combine (all_occ (nullify nd)) (all_occ (nullify n))) st = Some st') by congruence.
    exact (mr_go_transport _ st st' HP
             (fun x Hx => Lx x (in_map_fst_combine _ _ x Hx))
             (fun y Hy' => Hy y (in_map_snd_combine _ _ y Hy')) G).
  Qed.
End MrTransport.

Check mr_go_transport.
Check matches_raw_transport.
Print Assumptions mr_go_transport.
Print Assumptions matches_raw_transport.
