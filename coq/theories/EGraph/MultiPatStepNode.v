(* EGraph/MultiPatStepNode.v — one listed node of an equation step: the state after add_disjointness_constraint
   satisfies `ginv` (node_adc); after matches_raw it satisfies `prog` with no child processed (node_mr). *)
From SE Require Import Slots.SlotMapFacts Group.GroupSound Lang.LangFacts Lang.ShapeFacts Lang.RenameFacts
  Base.TextFacts Parse.Parser EGraph.Model EGraph.ModelFacts EGraph.ModelMachine EGraph.UnionFindFacts
  EGraph.InvariantFacts EGraph.UnionInvariantFacts EGraph.AddCoversFacts EGraph.HashconsShape EGraph.Mod4Facts
  EGraph.HashconsAbs EGraph.HashconsFacts EGraph.Rewrite EGraph.RewriteFacts EGraph.MatchDefs EGraph.MultiPat EGraph.MatchMachine
  EGraph.ProgressFacts EGraph.MatchFacts EGraph.SoundUnion EGraph.MonotoneFacts EGraph.MatchLookup
  EGraph.NodeCong EGraph.KidEqFacts EGraph.ShapeCong EGraph.CongruenceFacts EGraph.MatchComplete
  EGraph.MatchReprFix EGraph.MatchReprAlg EGraph.StoredLive EGraph.KidsFacts EGraph.PendingFacts EGraph.MatchReprFacts
  EGraph.RepFacts EGraph.MatchReprAllDefs EGraph.MatchReprAllRen EGraph.MatchReprAllInv EGraph.MultiPatRen
  EGraph.MatchReprAllInv EGraph.MultiPatUf EGraph.MultiPatDiseq EGraph.MultiPatRedirect EGraph.MultiPatDefs
  EGraph.MultiPatUnion EGraph.MultiPatState EGraph.MultiPatListed EGraph.MultiPatStepDefs.
Require Import ZArith Lia ZifyBool ZifyN ZifyNat List.
Import ListNotations.
Local Open Scope N_scope.

Lemma node_adc : forall s0 c0 sa sb done ws c pv gid ns n, match_inv s0 -> ss_ok s0 -> sg_ge s0 sa -> c0 <= Model.ctr sa ->
  MultiPatUf.uf_ok c -> sub_norm c -> ps_roots c -> keys_fresh c0 c -> (forall k, get (ms_uf c) k <> None -> k < Model.ctr sa) ->
  (forall x, In x (mp_slots done) -> In x (ms_pslots c)) ->
  nodes_apart c (map fst ws) -> Forall2 (eq_wit s0 c) done ws ->
  sub_get (ms_subst c) pv = Some gid -> inv_i s0 sa gid ->
  (forall x, In x (values_vec (am gid)) -> c0 <= x \/ In x (ms_pslots c)) ->
  (forall v a, sub_get (ms_subst c) v = Some a -> a = gid \/ bnd_ok s0 c0 sa c (map fst ws) a) ->
  enodes_applied gid sa = Ok (ns, sb) -> In n ns ->
  ginv s0 c0 sb done ws n (add_disjointness_constraint (sset_of_list (all_occ n)) c).
Proof.
  intros s0 c0 sa sb done ws c pv gid ns n MI SS R Lc K N PR Kf Kb Pd NA F2 Gp Ig Vg Bd Hen Hn.
  destruct (listed_lookup s0 MI SS gid sa ns sb n R Ig Hen Hn) as (Cl & ND & Ha & Hpub & _).
  pose proof (listed_slots s0 MI gid sa ns sb n R Ig Hen Hn) as LS.
  pose proof (listed_ctr s0 MI gid sa ns sb R Ig Hen) as LC.
  assert (Rt : forall z, In z (all_occ n) -> get (ms_uf c) z = None).
  { intros z Hz. destruct (LS z Hz) as [Hv|[L1 L2]].
    - exact (N pv gid z (MatchReprAllInv.sub_get_in _ _ _ Gp) Hv).
    - destruct (get (ms_uf c) z) eqn:G; [|reflexivity].
      assert (z < Model.ctr sa) by (apply Kb; congruence). lia. }
  assert (Fr : forall z, In z (all_occ n) -> state_find c z = z).
  { intros z Hz. apply state_find_root. exact (Rt z Hz). }
  unfold ginv.
  split; [apply adc_uf_ok; exact K|].
  split; [apply adc_sub_norm; exact N|].
  split; [apply adc_ps_roots; exact PR|].
  split; [apply adc_keys_fresh; exact Kf|].
  split. { intros k Hk. rewrite adc_uf in Hk. pose proof (Kb k Hk). lia. }
  split. { intros x Hx. rewrite adc_pslots. exact (Pd x Hx). }
  split.
  { intros v a G. rewrite adc_subst in G. destruct (Bd v a G) as [->|(I & V & W)].
    - split; [exact (inv_i_mono s0 sa sb gid LC Ig)|]. split.
      + intros x Hx. rewrite adc_pslots. exact (Vg x Hx).
      + exists n. split; [left; reflexivity|]. intros x Hx.
        assert (Hxn : In x (all_occ n)) by (apply pub_occ_all_occ; apply Hpub; exact Hx).
        exists x. split; [exact Hxn|]. rewrite adc_find. symmetry. exact (Fr x Hxn).
    - apply (adc_bnd_ok s0 c0 sb _ c (map fst ws)); [intros m Hm; right; exact Hm|].
      split; [exact (inv_i_mono s0 sa sb a LC I)|]. split; [exact V|exact W]. }
  split. { apply adc_nodes_apart_new; [exact NA|exact Fr]. }
  split.
  { clear - F2. induction F2; constructor; [apply adc_eq_wit; assumption|assumption]. }
  intros z Hz. unfold hi_or_ps. rewrite adc_find, adc_pslots, (Fr z Hz).
  destruct (LS z Hz) as [Hv|[L1 L2]].
  - split; [exact (Vg z Hv)|]. destruct Ig as [_ Vi]. pose proof (Vi z Hv). lia.
  - split; [left; lia|exact L2].
Qed.

Lemma map_combine_eq : forall (A B : Type) (f : B -> A) (l1 : list A) (l2 : list B),
  List.length l1 = List.length l2 -> (forall x y, In (x, y) (combine l1 l2) -> f y = x) -> map f l2 = l1.
Proof.
  intros A B f. induction l1 as [|a t IH]; intros [|b u] L H; cbn [List.length] in L; try discriminate; [reflexivity|].
  cbn [map]. f_equal.
  - apply H. left. reflexivity.
  - apply IH; [injection L as L; exact L|]. intros x y Hxy. apply H. right. exact Hxy.
Qed.

Lemma node_mr : forall s0 c0 sb done ws pv nd n gid c1 st1,
  (forall x, In x (all_occ (nullify nd)) -> x < c0) ->
  ginv s0 c0 sb done ws n c1 -> (forall x, In x (ms_pslots c1) <-> In x (mp_slots done)) ->
  sub_get (ms_subst c1) pv = Some gid ->
  matches_raw nd n c1 = Ok (Some st1) ->
  ginv s0 c0 sb done ws n st1 ->
  prog s0 c0 sb done ws pv nd n gid [] [] st1 /\
  (exists sh1 sh2, wshape (nullify nd) = Ok sh1 /\ wshape (nullify n) = Ok sh2 /\ node_eqb (fst sh1) (fst sh2) = true).
Proof.
  intros s0 c0 sb done ws pv nd n gid c1 st1 Lx G1 Ps Gp M G2.
  destruct G1 as (K & N & PR & Kf & _ & _ & _ & _ & _ & Hz).
  assert (Hy : forall y, In y (all_occ (nullify n)) -> hi_or_ps c0 c1 y).
  { intros y H. exact (proj1 (Hz y (all_occ_nullify n y H))). }
  destruct (matches_raw_spec c0 nd n c1 st1 K N PR Kf Lx Hy M) as (_ & _ & _ & _ & UX & SH & _ & Pr & _).
  destruct (matches_raw_spec_full c0 nd n c1 st1 K N PR Kf Lx Hy M) as (Len & P' & _).
  split; [|exact SH]. unfold prog.
  split; [exact G2|].
  split. { intros x. rewrite (P' x), (Ps x). reflexivity. }
  split. { destruct UX as (_ & Es & _). rewrite Es, MultiPatUf.sub_get_map, Gp. reflexivity. }
  split; [|constructor].
  apply map_combine_eq; [exact Len|]. intros x y Hxy. exact (proj1 (Pr x y Hxy)).
Qed.

Print Assumptions node_adc.
Print Assumptions node_mr.
