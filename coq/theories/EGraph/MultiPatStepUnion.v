From SE Require Import Slots.SlotMapFacts Group.GroupSound Lang.LangFacts Lang.ShapeFacts Lang.RenameFacts
  Base.TextFacts Parse.Parser EGraph.Model EGraph.ModelFacts EGraph.ModelMachine EGraph.UnionFindFacts
  EGraph.InvariantFacts EGraph.UnionInvariantFacts EGraph.AddCoversFacts EGraph.HashconsShape EGraph.Mod4Facts
  EGraph.HashconsAbs EGraph.HashconsFacts EGraph.Rewrite EGraph.RewriteFacts EGraph.MatchDefs EGraph.MultiPat EGraph.MatchMachine
  EGraph.ProgressFacts EGraph.MatchFacts EGraph.SoundUnion EGraph.MonotoneFacts EGraph.MatchLookup
  EGraph.NodeCong EGraph.KidEqFacts EGraph.ShapeCong EGraph.CongruenceFacts EGraph.MatchComplete
  EGraph.MatchReprFix EGraph.MatchReprAlg EGraph.StoredLive EGraph.KidsFacts EGraph.PendingFacts EGraph.MatchReprFacts
  EGraph.RepFacts EGraph.MatchReprAllDefs EGraph.MatchReprAllRen EGraph.MatchReprAllInv EGraph.MultiPatRen
  EGraph.MatchReprAllInv EGraph.MultiPatUf EGraph.MultiPatDiseq EGraph.MultiPatRedirect EGraph.MultiPatDefs EGraph.MultiPatUnion EGraph.MultiPatStepDefs.
Require Import ZArith Lia ZifyBool ZifyN ZifyNat List.
Import ListNotations.
Local Open Scope N_scope.

(* EGraph/MultiPatStepUnion.v — the in-progress invariants `ginv` and `prog` of one equation step are preserved by one
   successful `union_slot` and (ginv) by `ps_add`. *)

(* ------------------------------------------------------------------ *)
(* (1) *)
Lemma hi_or_ps_union : forall c0 st st' x y z, uf_ok st -> union_slot x y st = Some st' ->
  hi_or_ps c0 st x -> hi_or_ps c0 st y -> hi_or_ps c0 st z -> hi_or_ps c0 st' z.
Proof.
  intros c0 st st' x y z Hok U Hx Hy Hz.
  destruct (union_slot_spec x y st st' Hok U) as [[-> _]|(a & b & AB & _ & _ & _ & _ & _ & _ & _ & _ & PSe & F & _)]; [exact Hz|].
  unfold hi_or_ps in *. rewrite F, PSe. unfold redirect. destruct (state_find st z =? a); [|exact Hz].
  destruct AB as [[_ ->]|[_ ->]]; assumption.
Qed.

Lemma find_lt_union : forall B st st' x y z, uf_ok st -> union_slot x y st = Some st' ->
  state_find st x < B -> state_find st y < B -> state_find st z < B -> state_find st' z < B.
Proof.
  intros B st st' x y z Hok U Hx Hy Hz.
  destruct (union_slot_spec x y st st' Hok U) as [[-> _]|(a & b & AB & _ & _ & _ & _ & _ & _ & _ & _ & _ & F & _)]; [exact Hz|].
  rewrite F. unfold redirect. destruct (state_find st z =? a); [|exact Hz].
  destruct AB as [[_ ->]|[_ ->]]; assumption.
Qed.

(* ------------------------------------------------------------------ *)
(* (2) *)
Lemma ginv_union : forall s0 c0 t done ws n st st' x y, match_inv s0 -> ginv s0 c0 t done ws n st ->
  union_slot x y st = Some st' ->
  hi_or_ps c0 st x -> hi_or_ps c0 st y -> state_find st x < Model.ctr t -> state_find st y < Model.ctr t ->
  ginv s0 c0 t done ws n st'.
Proof.
  intros s0 c0 t done ws n st st' x y MI (Hok & SN & PR & KF & KC & PS & B & NA & FW & HN) U Hx Hy Lx Ly.
  unfold ginv.
  split; [exact (union_slot_uf_ok x y st st' Hok U)|].
  split; [exact (union_slot_sub_norm x y st st' Hok SN U)|].
  split; [exact (union_slot_ps_roots x y st st' Hok U PR)|].
  split.
  { intros k Hk. destruct (union_slot_keys x y st st' Hok U k Hk) as [H|[H M]]; [exact (KF k H)|].
    assert (HP : c0 <= k \/ In k (ms_pslots st)) by (destruct H as [->| ->]; assumption).
    destruct HP as [HP|HP]; [exact HP|]. apply sset_mem_in in HP. congruence. }
  split.
  { intros k Hk. destruct (union_slot_keys x y st st' Hok U k Hk) as [H|[H M]]; [exact (KC k H)|].
    destruct H as [->| ->]; assumption. }
  split; [rewrite (union_slot_pslots x y st st' Hok U); exact PS|].
  split; [exact (bnd_all_union s0 c0 t st st' (n :: map fst ws) x y Hok SN NA U Hx Hy Lx Ly B)|].
  split; [exact (nodes_apart_union st x y st' (n :: map fst ws) Hok U NA)|].
  split.
  { revert FW. apply Forall2_impl_in. intros [[v nd] ch] [n1 g] He Hw W.
    apply (eq_wit_union s0 st st' (n :: map fst ws) x y v nd ch n1 g MI Hok SN PR); try assumption.
    - intros z Hz. apply PS. unfold mp_slots. apply in_flat_map. exists (v, nd, ch). split; [exact He|exact Hz].
    - right. apply in_map_iff. exists (n1, g). split; [reflexivity|exact Hw].
    - intros cv a _ G. exact (proj1 (proj1 (B cv a G))). }
  intros z Hz. destruct (HN z Hz) as [H1 H2]. split.
  - exact (hi_or_ps_union c0 st st' x y z Hok U Hx Hy H1).
  - exact (find_lt_union (Model.ctr t) st st' x y z Hok U Lx Ly H2).
Qed.

(* ------------------------------------------------------------------ *)
(* (3) *)
Lemma ginv_ps_add : forall s0 c0 t done ws n st x1, ginv s0 c0 t done ws n st -> x1 < c0 ->
  ginv s0 c0 t done ws n (ps_add x1 st).
Proof.
  intros s0 c0 t done ws n st x1 (Hok & SN & PR & KF & KC & PS & B & NA & FW & HN) Lx.
  assert (G1 : get (ms_uf st) x1 = None).
  { destruct (get (ms_uf st) x1) as [r|] eqn:G; [|reflexivity].
    assert (H : c0 <= x1) by (apply KF; rewrite G; discriminate). lia. }
  unfold ginv.
  split; [exact (ps_add_uf_ok x1 st Hok)|].
  split; [exact (ps_add_sub_norm x1 st SN)|].
  split; [exact (ps_add_ps_roots x1 st G1 PR)|].
  split; [exact (ps_add_keys_fresh c0 x1 st KF)|].
  split; [exact KC|].
  split; [intros z Hz; apply ps_add_pslots; right; exact (PS z Hz)|].
  split; [intros v a G; apply ps_add_bnd_ok; exact (B v a G)|].
  split; [exact (ps_add_nodes_apart x1 st _ NA)|].
  split.
  { revert FW. apply Forall2_impl_in. intros e w _ _ W. exact (ps_add_eq_wit s0 x1 st e w W). }
  intros z Hz. destruct (HN z Hz) as [H1 H2].
  assert (E : state_find (ps_add x1 st) z = state_find st z) by (apply state_find_ext; reflexivity).
  split; [|rewrite E; exact H2].
  unfold hi_or_ps in *. rewrite E. destruct H1 as [H1|H1]; [left; exact H1|right; apply ps_add_pslots; right; exact H1].
Qed.

(* ------------------------------------------------------------------ *)
(* (4) *)
Lemma prog_union : forall s0 c0 t done ws pv nd n gid chd subd st st' x y, match_inv s0 ->
  (forall a, In a (app_occ n) -> ckid s0 a) -> (forall cg, In cg subd -> In cg (app_occ n)) ->
  prog s0 c0 t done ws pv nd n gid chd subd st -> union_slot x y st = Some st' ->
  hi_or_ps c0 st x -> hi_or_ps c0 st y -> state_find st x < Model.ctr t -> state_find st y < Model.ctr t ->
  prog s0 c0 t done ws pv nd n gid chd subd st'.
Proof.
  intros s0 c0 t done ws pv nd n gid chd subd st st' x y MI CKn Sub (GI & PSI & G & M & F2) U Hx Hy Lx Ly.
  pose proof (ginv_union s0 c0 t done ws n st st' x y MI GI U Hx Hy Lx Ly) as GI'.
  destruct GI as (Hok & SN & PR & KF & KC & PS & B & NA & FW & HN).
  pose proof (match_inv_eg_inv s0 MI) as EI.
  pose proof (nodes_apart_union st x y st' (n :: map fst ws) Hok U NA) as NA'.
  pose proof (union_slot_refines x y st st' Hok U) as RF.
  assert (Hn : In n (n :: map fst ws)) by (left; reflexivity).
  unfold prog. split; [exact GI'|].
  split; [rewrite (union_slot_pslots x y st st' Hok U); exact PSI|].
  destruct (union_slot_spec x y st st' Hok U) as [[-> _]|(a & b & _ & Nab & Ma & _ & _ & _ & _ & _ & _ & _ & F & _)];
    [split; [exact G|split; [exact M|exact F2]]|].
  split; [|split].
  - rewrite (union_slot_sub_get x y st st' pv Hok SN U), G. cbn [option_map]. f_equal.
    apply state_appid_find_refines. exact RF.
  - rewrite (map_ext _ _ F). rewrite <- (map_map (state_find st) (redirect a b)), M.
    apply map_id_in. intros z Hz. apply redirect_other. intros ->.
    assert (Hz' : In a (ms_pslots st)) by (apply PSI; right; exact Hz).
    apply sset_mem_in in Hz'. congruence.
  - revert F2. apply Forall2_impl_in. intros cv cg Hcv Hcg0 (a0 & G0 & E0).
    pose proof (Sub cg Hcg0) as Hcg.
    exists (state_appid_find st' a0). split.
    { rewrite (union_slot_sub_get x y st st' cv Hok SN U), G0. reflexivity. }
    assert (N0 : state_appid_find st a0 = a0).
    { apply state_appid_find_norm. intros z Hz. exact (SN cv a0 z (sub_get_in _ _ _ G0) Hz). }
    pose proof (proj1 (proj1 (B cv a0 G0))) as K0.
    pose proof (ckid_nrm_kid s0 st (n :: map fst ws) n cg NA Hn Hcg (CKn cg Hcg)) as K1.
    destruct (ckid_cov s0 MI _ K0) as (C0 & Wf0 & _). destruct (ckid_cov s0 MI _ K1) as (C1 & Wf1 & _).
    rewrite (nrm_step st st' (redirect a b) cg F), (nrm_step st st' (redirect a b) a0 F), N0.
    apply eg_eq_mapa; try assumption.
    assert (SubV : forall z, In z (values_vec (am (state_appid_find st cg)) ++ values_vec (am a0)) ->
                            In z (map (state_find st) (all_occ n))).
    { assert (S1 : forall z, In z (values_vec (am (state_appid_find st cg))) -> In z (map (state_find st) (all_occ n))).
      { intros z Hz. rewrite values_vec_appid_find in Hz. apply in_map_iff in Hz. destruct Hz as (z0 & <- & Hz0).
        apply in_map. eapply all_occ_app_val; eauto. }
      intros z Hz. apply in_app_or in Hz. destruct Hz as [Hz|Hz]; [exact (S1 z Hz)|].
      apply S1. apply (eg_eq_vals s0 MI a0 _ K0 K1); [|exact Hz].
      apply eg_eq_sym_true; assumption. }
    intros p q Hp Hq. apply (redirect_inj_occ st st' (n :: map fst ws) n (redirect a b) NA' Hn F); apply SubV; assumption.
Qed.

Print Assumptions hi_or_ps_union.
Print Assumptions find_lt_union.
Print Assumptions ginv_union.
Print Assumptions ginv_ps_add.
Print Assumptions prog_union.
