(* EGraph/MultiPatUf.v — pure facts on the slot union-find of `mstate` (EGraph/MultiPat.v).
   Nothing about the e-graph. *)
From SE Require Import Slots.SlotMapFacts Lang.LangFacts Base.TextFacts Parse.Parser EGraph.Model EGraph.Rewrite
  EGraph.RewriteFacts EGraph.MultiPat Lang.ShapeFacts EGraph.InvariantFacts EGraph.MatchLookup.
Require Import ZArith Lia List.
Import ListNotations.
Local Open Scope N_scope.

(* ------------------------------------------------------------------ *)
(* 0. definitions *)

Definition uf_ok (st : mstate) : Prop :=
  wf (ms_uf st) /\ forall x, get (ms_uf st) (state_find st x) = None.
Definition redirect (a b r : slot) : slot := if r =? a then b else r.
Definition sub_norm (st : mstate) : Prop :=
  forall v a x, In (v, a) (ms_subst st) -> In x (values_vec (am a)) -> get (ms_uf st) x = None.
Definition ps_roots (st : mstate) : Prop := forall x, In x (ms_pslots st) -> get (ms_uf st) x = None.

(* ------------------------------------------------------------------ *)
(* 1. roots *)

Lemma uf_find_root : forall n uf x, get uf x = None -> uf_find n uf x = x.
Proof. intros [|n] uf x G; cbn [uf_find]; [reflexivity|]. rewrite G. reflexivity. Qed.

Lemma state_find_root : forall st x, get (ms_uf st) x = None -> state_find st x = x.
Proof. intros st x G. unfold state_find. apply uf_find_root. exact G. Qed.

Lemma state_find_idem : forall st x, uf_ok st -> state_find st (state_find st x) = state_find st x.
Proof. intros st x [_ R]. apply state_find_root. apply R. Qed.

Lemma uf_ok_mstate0 : uf_ok mstate0.
Proof. split; [exact I|]. intro x. reflexivity. Qed.

(* state_find only reads the union-find *)
Lemma state_find_uf : forall s1 s2 x, ms_uf s1 = ms_uf s2 -> state_find s1 x = state_find s2 x.
Proof. intros s1 s2 x E. unfold state_find. rewrite E. reflexivity. Qed.

Lemma state_appid_find_uf : forall s1 s2 a, ms_uf s1 = ms_uf s2 -> state_appid_find s1 a = state_appid_find s2 a.
Proof.
  intros s1 s2 a E. unfold state_appid_find. f_equal. apply map_ext. intro kv.
  rewrite (state_find_uf s1 s2 _ E). reflexivity.
Qed.

(* ------------------------------------------------------------------ *)
(* 2. the fuel lemma *)

Lemma insert_length_new : forall uf a b, get uf a = None -> List.length (insert a b uf) = S (List.length uf).
Proof.
  induction uf as [|[k v] t IH]; intros a b G; cbn [insert]; [reflexivity|].
  cbn [get] in G. destruct (a <? k) eqn:E1; [reflexivity|].
  destruct (a =? k) eqn:E2; [discriminate|]. cbn [List.length]. rewrite (IH a b G). reflexivity.
Qed.

Lemma uf_find_insert : forall uf a b, get uf a = None -> get uf b = None -> a <> b ->
  forall n z, get uf (uf_find n uf z) = None ->
  uf_find (S n) (insert a b uf) z = redirect a b (uf_find n uf z).
Proof.
  intros uf a b Ga Gb Nab. induction n as [|n IH]; intros z Gz.
  - cbn [uf_find] in Gz |- *. rewrite get_insert_any. unfold redirect.
    destruct (z =? a); [reflexivity|]. rewrite Gz. reflexivity.
  - cbn [uf_find] in Gz. change (uf_find (S (S n)) (insert a b uf) z)
      with (match get (insert a b uf) z with Some y => uf_find (S n) (insert a b uf) y | None => z end).
    change (uf_find (S n) uf z) with (match get uf z with Some y => uf_find n uf y | None => z end).
    rewrite get_insert_any. destruct (z =? a) eqn:E.
    + apply N.eqb_eq in E. subst z. rewrite Ga. unfold redirect. rewrite N.eqb_refl.
      cbn [uf_find]. rewrite get_insert_any.
      destruct (b =? a) eqn:E2; [apply N.eqb_eq in E2; congruence|]. rewrite Gb. reflexivity.
    + destruct (get uf z) as [y|] eqn:Gy.
      * apply IH. exact Gz.
      * unfold redirect. rewrite E. reflexivity.
Qed.

(* the state-level reading of the fuel lemma *)
Lemma state_find_insert : forall st st' a b, uf_ok st ->
  get (ms_uf st) a = None -> get (ms_uf st) b = None -> a <> b ->
  ms_uf st' = insert a b (ms_uf st) ->
  (forall z, state_find st' z = redirect a b (state_find st z)) /\ uf_ok st'.
Proof.
  intros st st' a b [W R] Ga Gb Nab E.
  assert (F : forall z, state_find st' z = redirect a b (state_find st z)).
  { intro z. unfold state_find at 1. rewrite E, (insert_length_new _ _ _ Ga).
    apply (uf_find_insert (ms_uf st) a b Ga Gb Nab (S (List.length (ms_uf st))) z). apply R. }
  split; [exact F|]. split.
  - rewrite E. apply insert_wf. exact W.
  - intro z. rewrite F, E, get_insert_any. unfold redirect.
    destruct (state_find st z =? a) eqn:E1.
    + destruct (b =? a) eqn:E2; [apply N.eqb_eq in E2; congruence|exact Gb].
    + rewrite E1. apply R.
Qed.

(* ------------------------------------------------------------------ *)
(* 3. union_slot *)

Lemma update_state_uf : forall st, ms_uf (update_state st) = ms_uf st.
Proof. reflexivity. Qed.
Lemma update_state_pslots : forall st, ms_pslots (update_state st) = ms_pslots st.
Proof. reflexivity. Qed.

Lemma union_slot_spec : forall x y st st', uf_ok st -> union_slot x y st = Some st' ->
  (st' = st /\ state_find st x = state_find st y) \/
  exists a b, ((a = state_find st x /\ b = state_find st y) \/ (a = state_find st y /\ b = state_find st x)) /\ a <> b /\
    sset_mem a (ms_pslots st) = false /\ get (ms_uf st) a = None /\ get (ms_uf st) b = None /\
    (match dis_get (ms_diseq st) a with Some xx => sset_mem b xx | None => false end) = false /\
    (match dis_get (ms_diseq st) b with Some yy => sset_mem a yy | None => false end) = false /\
    st' = update_state {| ms_pslots := ms_pslots st; ms_diseq := ms_diseq st; ms_subst := ms_subst st;
                          ms_uf := insert a b (ms_uf st) |} /\
    ms_uf st' = insert a b (ms_uf st) /\ ms_pslots st' = ms_pslots st /\
    (forall z, state_find st' z = redirect a b (state_find st z)) /\ uf_ok st'.
Proof.
  intros x y st st' K U. unfold union_slot in U.
  set (fx := state_find st x) in *. set (fy := state_find st y) in *.
  destruct (fx =? fy) eqn:Exy.
  - left. apply N.eqb_eq in Exy. inversion U. split; [reflexivity|exact Exy].
  - right. apply N.eqb_neq in Exy.
    destruct (match dis_get (ms_diseq st) fx with Some xx => sset_mem fy xx | None => false end) eqn:D1; [discriminate|].
    destruct (match dis_get (ms_diseq st) fy with Some yy => sset_mem fx yy | None => false end) eqn:D2; [discriminate|].
    assert (Gx : get (ms_uf st) fx = None) by apply (proj2 K).
    assert (Gy : get (ms_uf st) fy = None) by apply (proj2 K).
    unfold allows_directed_union in U.
    destruct (sset_mem fx (ms_pslots st)) eqn:Mx; cbn [negb] in U.
    + destruct (sset_mem fy (ms_pslots st)) eqn:My; cbn [negb] in U; [discriminate|].
      inversion U as [U']. clear U.
      assert (Nyx : fy <> fx) by congruence.
      destruct (state_find_insert st
                  (update_state {| ms_pslots := ms_pslots st; ms_diseq := ms_diseq st; ms_subst := ms_subst st;
                                   ms_uf := insert fy fx (ms_uf st) |}) fy fx K Gy Gx Nyx eq_refl) as [F K'].
      exists fy, fx. split; [right; split; reflexivity|].
      repeat (split; [first [assumption|reflexivity]|]). exact K'.
    + rewrite Mx in U. cbn [negb] in U. inversion U as [U']. clear U.
      destruct (state_find_insert st
                  (update_state {| ms_pslots := ms_pslots st; ms_diseq := ms_diseq st; ms_subst := ms_subst st;
                                   ms_uf := insert fx fy (ms_uf st) |}) fx fy K Gx Gy Exy eq_refl) as [F K'].
      exists fx, fy. split; [left; split; reflexivity|].
      repeat (split; [first [assumption|reflexivity]|]). exact K'.
Qed.

Lemma redirect_self : forall a b, redirect a b a = b.
Proof. intros a b. unfold redirect. rewrite N.eqb_refl. reflexivity. Qed.
Lemma redirect_other : forall a b r, r <> a -> redirect a b r = r.
Proof. intros a b r N. unfold redirect. destruct (r =? a) eqn:E; [apply N.eqb_eq in E; congruence|reflexivity]. Qed.

Lemma union_slot_find_eq : forall x y st st', uf_ok st -> union_slot x y st = Some st' ->
  state_find st' x = state_find st' y.
Proof.
  intros x y st st' K U.
  destruct (union_slot_spec x y st st' K U) as [[-> E]|(a & b & AB & Nab & _ & _ & _ & _ & _ & _ & _ & _ & F & _)]; [exact E|].
  rewrite !F. destruct AB as [[<- <-]|[<- <-]].
  - rewrite redirect_self, redirect_other by congruence. reflexivity.
  - rewrite redirect_self, redirect_other by congruence. reflexivity.
Qed.

Lemma union_slot_refines : forall x y st st', uf_ok st -> union_slot x y st = Some st' ->
  forall z, state_find st' z = state_find st' (state_find st z).
Proof.
  intros x y st st' K U z.
  destruct (union_slot_spec x y st st' K U) as [[-> E]|(a & b & _ & _ & _ & _ & _ & _ & _ & _ & _ & _ & F & _)].
  - symmetry. apply state_find_idem. exact K.
  - rewrite !F, state_find_idem by exact K. reflexivity.
Qed.

Lemma union_slot_uf_ok : forall x y st st', uf_ok st -> union_slot x y st = Some st' -> uf_ok st'.
Proof.
  intros x y st st' K U.
  destruct (union_slot_spec x y st st' K U) as [[-> E]|(a & b & _ & _ & _ & _ & _ & _ & _ & _ & _ & _ & _ & K')]; assumption.
Qed.

Lemma union_slot_pslots : forall x y st st', uf_ok st -> union_slot x y st = Some st' -> ms_pslots st' = ms_pslots st.
Proof.
  intros x y st st' K U.
  destruct (union_slot_spec x y st st' K U) as [[-> E]|(a & b & _ & _ & _ & _ & _ & _ & _ & _ & _ & P & _)]; [reflexivity|exact P].
Qed.

Lemma union_slot_ps_roots : forall x y st st', uf_ok st -> union_slot x y st = Some st' -> ps_roots st -> ps_roots st'.
Proof.
  intros x y st st' K U R.
  destruct (union_slot_spec x y st st' K U) as [[-> E]|(a & b & _ & _ & Ma & _ & _ & _ & _ & _ & Eu & P & _)]; [exact R|].
  intros z Hz. rewrite P in Hz. rewrite Eu, get_insert_any.
  destruct (z =? a) eqn:E; [|exact (R z Hz)].
  apply N.eqb_eq in E. subst z. apply sset_mem_in in Hz. congruence.
Qed.

Lemma union_slot_keys : forall x y st st', uf_ok st -> union_slot x y st = Some st' ->
  forall k, get (ms_uf st') k <> None ->
  get (ms_uf st) k <> None \/ (k = state_find st x \/ k = state_find st y) /\ sset_mem k (ms_pslots st) = false.
Proof.
  intros x y st st' K U k G.
  destruct (union_slot_spec x y st st' K U) as [[-> E]|(a & b & AB & _ & Ma & _ & _ & _ & _ & _ & Eu & _)]; [left; exact G|].
  rewrite Eu, get_insert_any in G. destruct (k =? a) eqn:E; [|left; exact G].
  apply N.eqb_eq in E. subst k. right. split; [|exact Ma].
  destruct AB as [[-> _]|[-> _]]; [left|right]; reflexivity.
Qed.

(* bound invocations whose values are roots are fixed *)
Lemma state_appid_find_norm : forall st a,
  (forall x, In x (values_vec (am a)) -> get (ms_uf st) x = None) -> state_appid_find st a = a.
Proof.
  intros st [i m] H. unfold state_appid_find. cbn [aid am] in *. f_equal.
  induction m as [|[k v] t IH]; cbn [map]; [reflexivity|]. cbn [values_vec map snd] in H. f_equal.
  - cbn [fst snd]. rewrite state_find_root; [reflexivity|]. apply H. left. reflexivity.
  - apply IH. intros z Hz. apply H. right. exact Hz.
Qed.

Lemma subst_map_norm : forall st, sub_norm st ->
  map (fun p : text * appid => (fst p, state_appid_find st (snd p))) (ms_subst st) = ms_subst st.
Proof.
  intros st N. unfold sub_norm in N. revert N. generalize (ms_subst st) as l.
  induction l as [|[v a] t IH]; intro N; cbn [map]; [reflexivity|]. f_equal.
  - cbn [fst snd]. rewrite state_appid_find_norm; [reflexivity|]. intros z Hz. apply (N v a z); [left; reflexivity|exact Hz].
  - apply IH. intros v' a' z Hin Hz. apply (N v' a' z); [right; exact Hin|exact Hz].
Qed.

Lemma union_slot_subst : forall x y st st', uf_ok st -> sub_norm st -> union_slot x y st = Some st' ->
  ms_subst st' = map (fun p : text * appid => (fst p, state_appid_find st' (snd p))) (ms_subst st).
Proof.
  intros x y st st' K N U.
  destruct (union_slot_spec x y st st' K U) as [[-> E]|(a & b & _ & _ & _ & _ & _ & _ & _ & Es & Eu & _)].
  - symmetry. apply subst_map_norm. exact N.
  - rewrite Es at 1. cbn [update_state ms_subst]. apply map_ext. intro p. f_equal.
    apply state_appid_find_uf. rewrite Eu. reflexivity.
Qed.

Lemma sub_get_map : forall (f : appid -> appid) l v,
  sub_get (map (fun p : text * appid => (fst p, f (snd p))) l) v = option_map f (sub_get l v).
Proof.
  intros f. induction l as [|[k a] t IH]; intro v; cbn [map sub_get fst snd]; [reflexivity|].
  destruct (text_eqb k v); [reflexivity|apply IH].
Qed.

Lemma union_slot_sub_get : forall x y st st' v, uf_ok st -> sub_norm st -> union_slot x y st = Some st' ->
  sub_get (ms_subst st') v = option_map (state_appid_find st') (sub_get (ms_subst st) v).
Proof.
  intros x y st st' v K N U. rewrite (union_slot_subst x y st st' K N U). apply sub_get_map.
Qed.

Lemma values_vec_appid_find : forall st a,
  values_vec (am (state_appid_find st a)) = map (state_find st) (values_vec (am a)).
Proof. intros st a. unfold state_appid_find, values_vec. cbn [am]. rewrite !map_map. reflexivity. Qed.

(* any state whose substitution is the image of another one under its own find is normalised *)
Lemma sub_norm_of_map : forall st' (l : subst), uf_ok st' ->
  ms_subst st' = map (fun p : text * appid => (fst p, state_appid_find st' (snd p))) l -> sub_norm st'.
Proof.
  intros st' l [_ R] E v a z Hin Hz. rewrite E in Hin. apply in_map_iff in Hin.
  destruct Hin as ([v0 a0] & Ep & _). cbn [fst snd] in Ep. inversion Ep; subst v a.
  rewrite values_vec_appid_find in Hz. apply in_map_iff in Hz. destruct Hz as (z0 & <- & _). apply R.
Qed.

Lemma union_slot_sub_norm : forall x y st st', uf_ok st -> sub_norm st -> union_slot x y st = Some st' -> sub_norm st'.
Proof.
  intros x y st st' K N U. eapply sub_norm_of_map; [exact (union_slot_uf_ok x y st st' K U)|].
  exact (union_slot_subst x y st st' K N U).
Qed.

(* ------------------------------------------------------------------ *)
(* 4. extension by pattern-slot insertions and unions *)

Definition uext (st st' : mstate) : Prop :=
  (forall z, state_find st' z = state_find st' (state_find st z)) /\
  ms_subst st' = map (fun p : text * appid => (fst p, state_appid_find st' (snd p))) (ms_subst st) /\
  incl (ms_pslots st) (ms_pslots st').

Lemma uext_refl : forall st, uf_ok st -> sub_norm st -> uext st st.
Proof.
  intros st K N. split; [|split].
  - intro z. symmetry. apply state_find_idem. exact K.
  - symmetry. apply subst_map_norm. exact N.
  - apply incl_refl.
Qed.

Lemma state_appid_find_refines : forall st st' a,
  (forall z, state_find st' z = state_find st' (state_find st z)) ->
  state_appid_find st' (state_appid_find st a) = state_appid_find st' a.
Proof.
  intros st st' a F. unfold state_appid_find. cbn [aid am]. f_equal. rewrite map_map.
  apply map_ext. intro kv. cbn [fst snd]. rewrite <- F. reflexivity.
Qed.

Lemma uext_trans : forall a b c, uext a b -> uext b c -> uext a c.
Proof.
  intros a b c (F1 & S1 & P1) (F2 & S2 & P2). split; [|split].
  - intro z. rewrite (F2 z), (F1 z), <- (F2 (state_find a z)). reflexivity.
  - rewrite S2, S1, map_map. apply map_ext. intro p. cbn [fst snd]. f_equal.
    apply state_appid_find_refines. exact F2.
  - eapply incl_tran; eassumption.
Qed.

Lemma union_slot_uext : forall x y st st', uf_ok st -> sub_norm st -> union_slot x y st = Some st' -> uext st st'.
Proof.
  intros x y st st' K N U. split; [|split].
  - exact (union_slot_refines x y st st' K U).
  - exact (union_slot_subst x y st st' K N U).
  - rewrite (union_slot_pslots x y st st' K U). apply incl_refl.
Qed.

(* ------------------------------------------------------------------ *)
(* 5. matches_raw *)

Definition keys_fresh (c0 : N) (st : mstate) : Prop := forall k, get (ms_uf st) k <> None -> c0 <= k.
(* the class of z is represented by a slot >= c0 or by a registered pattern slot *)
Definition hi_or_ps (c0 : N) (st : mstate) (z : slot) : Prop :=
  c0 <= state_find st z \/ In (state_find st z) (ms_pslots st).

Definition ps_add (x : slot) (st : mstate) : mstate :=
  {| ms_pslots := sset_insert x (ms_pslots st); ms_diseq := ms_diseq st; ms_subst := ms_subst st; ms_uf := ms_uf st |}.

Fixpoint mr_go (ps : list (slot * slot)) (st : mstate) : option mstate :=
  match ps with
  | [] => Some st
  | (x1, y1) :: t => match union_slot x1 y1 (ps_add x1 st) with Some st' => mr_go t st' | None => None end
  end.

Lemma matches_raw_unfold : forall nd n st,
  matches_raw nd n st =
  (do sh1 <- wshape (nullify nd);
   do sh2 <- wshape (nullify n);
   if negb (node_eqb (fst sh1) (fst sh2)) then Ok None else
   Ok (mr_go (combine (all_occ (nullify nd)) (all_occ (nullify n))) st)).
Proof. reflexivity. Qed.

Lemma mr_step : forall c0 x1 y1 st st2,
  uf_ok st -> sub_norm st -> ps_roots st -> keys_fresh c0 st -> x1 < c0 -> hi_or_ps c0 st y1 ->
  union_slot x1 y1 (ps_add x1 st) = Some st2 ->
  uf_ok st2 /\ sub_norm st2 /\ ps_roots st2 /\ keys_fresh c0 st2 /\ uext st st2 /\
  ms_pslots st2 = sset_insert x1 (ms_pslots st) /\
  state_find st2 y1 = x1 /\ state_find st2 x1 = x1 /\
  (forall z, state_find st2 z = state_find st z \/ state_find st2 z = x1) /\
  (forall k, get (ms_uf st2) k <> None -> get (ms_uf st) k <> None \/ k = state_find st y1 /\ c0 <= k) /\
  (forall z, hi_or_ps c0 st z -> hi_or_ps c0 st2 z).
Proof.
  intros c0 x1 y1 st st2 K N R Kf Lx Hy U.
  set (st1 := ps_add x1 st) in *.
  assert (K1 : uf_ok st1) by exact K.
  assert (N1 : sub_norm st1) by exact N.
  assert (Gx1 : get (ms_uf st) x1 = None).
  { destruct (get (ms_uf st) x1) as [w|] eqn:G; [|reflexivity].
    assert (c0 <= x1) by (apply Kf; congruence). lia. }
  assert (R1 : ps_roots st1).
  { intros z Hz. cbn [st1 ps_add ms_pslots ms_uf] in Hz |- *. apply sset_insert_in in Hz.
    destruct Hz as [->|Hz]; [exact Gx1|exact (R z Hz)]. }
  assert (Fx : state_find st x1 = x1) by (apply state_find_root; exact Gx1).
  assert (Mx : sset_mem x1 (ms_pslots st1) = true).
  { apply sset_mem_in. cbn [st1 ps_add ms_pslots]. apply sset_insert_in. left. reflexivity. }
  assert (Pin : forall z, In z (ms_pslots st) -> In z (ms_pslots st1)).
  { intros z Hz. cbn [st1 ps_add ms_pslots]. apply sset_insert_in. right. exact Hz. }
  assert (E01 : uext st st1).
  { split; [|split].
    - intro z. symmetry. exact (state_find_idem st z K).
    - exact (eq_sym (subst_map_norm st N)).
    - exact Pin. }
  assert (S01 : forall z, state_find st1 z = state_find st z) by (intro z; reflexivity).
  destruct (union_slot_spec x1 y1 st1 st2 K1 U)
    as [[-> E]|(a & b & AB & Nab & Ma & Ga & Gb & _ & _ & _ & Eu & P & F & K2)].
  - rewrite !S01, Fx in E.
    split; [exact K1|]. split; [exact N1|]. split; [exact R1|]. split; [exact Kf|]. split; [exact E01|].
    split; [reflexivity|]. split; [rewrite S01; symmetry; exact E|]. split; [rewrite S01; exact Fx|].
    split; [intro z; left; reflexivity|]. split; [intros k G; left; exact G|].
    intros z [Hz|Hz]; [left; exact Hz|right; rewrite S01; apply Pin; exact Hz].
  - rewrite !S01, Fx in AB.
    destruct AB as [[-> _]|[-> ->]]; [congruence|].
    set (fy := state_find st y1) in *.
    assert (Lfy : c0 <= fy).
    { destruct Hy as [Hy|Hy]; [exact Hy|]. apply Pin, sset_mem_in in Hy. fold fy in Hy. congruence. }
    split; [exact K2|].
    split; [exact (union_slot_sub_norm x1 y1 st1 st2 K1 N1 U)|].
    split; [exact (union_slot_ps_roots x1 y1 st1 st2 K1 U R1)|].
    split.
    { intros k G. rewrite Eu, get_insert_any in G. destruct (k =? fy) eqn:E.
      - apply N.eqb_eq in E. subst k. exact Lfy.
      - apply Kf. exact G. }
    split; [exact (uext_trans st st1 st2 E01 (union_slot_uext x1 y1 st1 st2 K1 N1 U))|].
    split; [exact P|].
    split; [rewrite F, S01; apply redirect_self|].
    split; [rewrite F, S01, Fx; apply redirect_other; congruence|].
    split.
    { intro z. rewrite F, S01. unfold redirect. destruct (state_find st z =? fy); [right|left]; reflexivity. }
    split.
    { intros k G. rewrite Eu, get_insert_any in G. destruct (k =? fy) eqn:E.
      - apply N.eqb_eq in E. subst k. right. split; [reflexivity|exact Lfy].
      - left. exact G. }
    intros z Hz. unfold hi_or_ps. rewrite F, S01, P. unfold redirect.
    destruct (state_find st z =? fy) eqn:E.
    + right. apply sset_insert_in. left. reflexivity.
    + destruct Hz as [Hz|Hz]; [left; exact Hz|right; apply sset_insert_in; right; exact Hz].
Qed.

Lemma mr_go_spec : forall ps c0 st st',
  uf_ok st -> sub_norm st -> ps_roots st -> keys_fresh c0 st ->
  (forall x, In x (map fst ps) -> x < c0) ->
  (forall y, In y (map snd ps) -> hi_or_ps c0 st y) ->
  mr_go ps st = Some st' ->
  uf_ok st' /\ sub_norm st' /\ ps_roots st' /\ keys_fresh c0 st' /\ uext st st' /\
  (forall x, In x (ms_pslots st') <-> In x (ms_pslots st) \/ In x (map fst ps)) /\
  (forall x1 y1, In (x1, y1) ps -> state_find st' y1 = x1 /\ state_find st' x1 = x1) /\
  (forall z, state_find st' z = state_find st z \/ In (state_find st' z) (map fst ps)) /\
  (forall k, get (ms_uf st') k <> None ->
     get (ms_uf st) k <> None \/ (exists y, In y (map snd ps) /\ k = state_find st y) /\ c0 <= k) /\
  (forall z, hi_or_ps c0 st z -> hi_or_ps c0 st' z).
Proof.
  induction ps as [|[x1 y1] t IH]; intros c0 st st' K N R Kf Lx Hy G; cbn [mr_go] in G.
  - inversion G; subst st'. clear G.
    split; [exact K|]. split; [exact N|]. split; [exact R|]. split; [exact Kf|].
    split; [exact (uext_refl st K N)|].
    split; [intro x; cbn [map In]; tauto|]. split; [intros x1 y1 []|].
    split; [intro z; left; reflexivity|]. split; [intros k G; left; exact G|]. intros z Hz. exact Hz.
  - destruct (union_slot x1 y1 (ps_add x1 st)) as [st2|] eqn:U; [|discriminate].
    cbn [map fst snd In] in Lx, Hy.
    destruct (mr_step c0 x1 y1 st st2 K N R Kf (Lx x1 (or_introl eq_refl)) (Hy y1 (or_introl eq_refl)) U)
      as (K2 & N2 & R2 & Kf2 & E2 & P2 & Fy2 & Fx2 & Fz2 & Ky2 & H2).
    destruct (IH c0 st2 st' K2 N2 R2 Kf2 (fun x Hx => Lx x (or_intror Hx)) (fun y Hy' => H2 y (Hy y (or_intror Hy'))) G)
      as (K' & N' & R' & Kf' & E' & P' & Pr' & Fz' & Ky' & H').
    assert (Rx1 : state_find st' x1 = x1).
    { apply state_find_root. apply R'. apply P'. left. rewrite P2. apply sset_insert_in. left. reflexivity. }
    split; [exact K'|]. split; [exact N'|]. split; [exact R'|]. split; [exact Kf'|].
    split; [exact (uext_trans st st2 st' E2 E')|].
    split.
    { intro x. rewrite P', P2, sset_insert_in. cbn [map fst In]. intuition congruence. }
    split.
    { intros x y [Exy|Hin].
      - inversion Exy; subst x y. split; [|exact Rx1].
        rewrite (proj1 E' y1), Fy2. exact Rx1.
      - exact (Pr' x y Hin). }
    split.
    { intro z. cbn [map fst In]. destruct (Fz' z) as [Ez|Hz]; [|right; right; exact Hz].
      rewrite Ez. destruct (Fz2 z) as [Ez2|Ez2]; [left; exact Ez2|right; left; symmetry; exact Ez2]. }
    split.
    { intros k Gk. cbn [map snd In]. destruct (Ky' k Gk) as [Gk2|[(y & Hin & Ek) Lk]].
      - destruct (Ky2 k Gk2) as [Gk0|[Ek Lk]]; [left; exact Gk0|].
        right. split; [|exact Lk]. exists y1. split; [left; reflexivity|exact Ek].
      - destruct (Fz2 y) as [Ez2|Ez2].
        + right. split; [|exact Lk]. exists y. split; [right; exact Hin|congruence].
        + exfalso. apply Gk. rewrite Ek, Ez2. apply R'. apply P'. left. rewrite P2.
          apply sset_insert_in. left. reflexivity. }
    intros z Hz. apply H', H2, Hz.
Qed.

Lemma map_fst_combine : forall {A C} (l : list A) (l' : list C), map fst (combine l l') = firstn (List.length l') l.
Proof.
  induction l as [|a t IH]; intros [|b u]; cbn [combine map firstn List.length fst]; try reflexivity.
  rewrite IH. reflexivity.
Qed.

Lemma in_map_fst_combine : forall {A C} (l : list A) (l' : list C) x, In x (map fst (combine l l')) -> In x l.
Proof.
  intros A C l l' x H. apply in_map_iff in H. destruct H as ([a b] & <- & Hin). cbn [fst].
  eapply in_combine_l. exact Hin.
Qed.

Lemma in_map_snd_combine : forall {A C} (l : list A) (l' : list C) y, In y (map snd (combine l l')) -> In y l'.
Proof.
  intros A C l l' y H. apply in_map_iff in H. destruct H as ([a b] & <- & Hin). cbn [snd].
  eapply in_combine_r. exact Hin.
Qed.

Theorem matches_raw_spec : forall c0 nd n st st',
  uf_ok st -> sub_norm st -> ps_roots st -> keys_fresh c0 st ->
  (forall x, In x (all_occ (nullify nd)) -> x < c0) ->
  (forall y, In y (all_occ (nullify n)) -> hi_or_ps c0 st y) ->
  matches_raw nd n st = Ok (Some st') ->
  uf_ok st' /\ sub_norm st' /\ ps_roots st' /\ keys_fresh c0 st' /\ uext st st' /\
  (exists sh1 sh2, wshape (nullify nd) = Ok sh1 /\ wshape (nullify n) = Ok sh2 /\ node_eqb (fst sh1) (fst sh2) = true) /\
  (forall x, In x (ms_pslots st') <->
             In x (ms_pslots st) \/ In x (firstn (List.length (all_occ (nullify n))) (all_occ (nullify nd)))) /\
  (forall x1 y1, In (x1, y1) (combine (all_occ (nullify nd)) (all_occ (nullify n))) ->
                 state_find st' y1 = x1 /\ state_find st' x1 = x1) /\
  (forall z, state_find st' z = state_find st z \/
             In (state_find st' z) (firstn (List.length (all_occ (nullify n))) (all_occ (nullify nd)))) /\
  (forall k, get (ms_uf st') k <> None ->
     get (ms_uf st) k <> None \/
     (exists y, In y (all_occ (nullify n)) /\ k = state_find st y) /\ c0 <= k /\ ~ In k (ms_pslots st')) /\
  (forall z, hi_or_ps c0 st z -> hi_or_ps c0 st' z).
Proof.
  intros c0 nd n st st' K N R Kf Lx Hy M. rewrite matches_raw_unfold in M.
  destruct (wshape (nullify nd)) as [sh1|e1] eqn:W1; cbn [bind] in M; [|discriminate].
  destruct (wshape (nullify n)) as [sh2|e2] eqn:W2; cbn [bind] in M; [|discriminate].
  destruct (node_eqb (fst sh1) (fst sh2)) eqn:E; cbn [negb] in M; [|discriminate].
  assert (G : mr_go (combine (all_occ (nullify nd)) (all_occ (nullify n))) st = Some st') by congruence.
  destruct (mr_go_spec _ c0 st st' K N R Kf
              (fun x Hx => Lx x (in_map_fst_combine _ _ x Hx))
              (fun y Hy' => Hy y (in_map_snd_combine _ _ y Hy')) G)
    as (K' & N' & R' & Kf' & E' & P' & Pr' & Fz' & Ky' & H').
  rewrite map_fst_combine in P', Fz'.
  split; [exact K'|]. split; [exact N'|]. split; [exact R'|]. split; [exact Kf'|]. split; [exact E'|].
  split; [exists sh1, sh2; auto|]. split; [exact P'|]. split; [exact Pr'|]. split; [exact Fz'|].
  split; [|exact H'].
  intros k Gk. destruct (Ky' k Gk) as [G0|[(y & Hin & Ek) Lk]]; [left; exact G0|].
  right. split; [exists y; split; [exact (in_map_snd_combine _ _ y Hin)|exact Ek]|].
  split; [exact Lk|]. intro Hin'. apply Gk. exact (R' k Hin').
Qed.

(* equal weak shapes pair ALL the occurrences *)
Lemma wshape_eq_occ_len : forall n1 n2 sh1 sh2,
  wshape n1 = Ok sh1 -> wshape n2 = Ok sh2 -> node_eqb (fst sh1) (fst sh2) = true ->
  List.length (all_occ n1) = List.length (all_occ n2).
Proof.
  intros n1 n2 [s1 b1] [s2 b2] W1 W2 E. cbn [fst] in E. apply node_eqb_iff in E. subst s2.
  apply skel_occ_len.
  destruct (node_equiv_shape _ _ _ W1) as [S1 _]. destruct (node_equiv_shape _ _ _ W2) as [S2 _]. congruence.
Qed.

Lemma in_combine_r_ex : forall {A C} (l : list A) (l' : list C) y, List.length l = List.length l' -> In y l' ->
  exists x, In (x, y) (combine l l').
Proof.
  induction l as [|a t IH]; intros [|b u] y L Hy; try discriminate; [contradiction|]. cbn [combine].
  destruct Hy as [<-|Hy]; [exists a; left; reflexivity|].
  destruct (IH u y) as (x & Hx); [cbn [List.length] in L; lia|exact Hy|]. exists x. right; exact Hx.
Qed.

Theorem matches_raw_spec_full : forall c0 nd n st st',
  uf_ok st -> sub_norm st -> ps_roots st -> keys_fresh c0 st ->
  (forall x, In x (all_occ (nullify nd)) -> x < c0) ->
  (forall y, In y (all_occ (nullify n)) -> hi_or_ps c0 st y) ->
  matches_raw nd n st = Ok (Some st') ->
  List.length (all_occ (nullify nd)) = List.length (all_occ (nullify n)) /\
  (forall x, In x (ms_pslots st') <-> In x (ms_pslots st) \/ In x (all_occ (nullify nd))) /\
  (forall z, state_find st' z = state_find st z \/ In (state_find st' z) (all_occ (nullify nd))) /\
  (forall x, In x (all_occ (nullify nd)) -> state_find st' x = x) /\
  (forall y, In y (all_occ (nullify n)) -> In (state_find st' y) (all_occ (nullify nd))).
Proof.
  intros c0 nd n st st' K N R Kf Lx Hy M.
  destruct (matches_raw_spec c0 nd n st st' K N R Kf Lx Hy M)
    as (_ & _ & _ & _ & _ & (sh1 & sh2 & W1 & W2 & E) & P' & Pr' & Fz' & _ & _).
  pose proof (wshape_eq_occ_len _ _ _ _ W1 W2 E) as Len.
  rewrite <- Len, firstn_all in P', Fz'.
  split; [exact Len|]. split; [exact P'|]. split; [exact Fz'|]. split.
  - intros x Hx. destruct (in_combine_l_ex _ (all_occ (nullify n)) x Len Hx) as (y & Hxy).
    exact (proj2 (Pr' x y Hxy)).
  - intros y Hy'. destruct (in_combine_r_ex (all_occ (nullify nd)) _ y Len Hy') as (x & Hxy).
    rewrite (proj1 (Pr' x y Hxy)). eapply in_combine_l. exact Hxy.
Qed.

Print Assumptions state_find_root.
Print Assumptions state_find_idem.
Print Assumptions uf_ok_mstate0.
Print Assumptions uf_find_insert.
Print Assumptions insert_length_new.
Print Assumptions state_find_insert.
Print Assumptions union_slot_spec.
Print Assumptions union_slot_find_eq.
Print Assumptions union_slot_refines.
Print Assumptions union_slot_uf_ok.
Print Assumptions union_slot_pslots.
Print Assumptions union_slot_ps_roots.
Print Assumptions union_slot_keys.
Print Assumptions state_appid_find_norm.
Print Assumptions union_slot_subst.
Print Assumptions union_slot_sub_get.
Print Assumptions union_slot_sub_norm.
Print Assumptions uext_refl.
Print Assumptions uext_trans.
Print Assumptions union_slot_uext.
Print Assumptions matches_raw_unfold.
Print Assumptions mr_step.
Print Assumptions mr_go_spec.
Print Assumptions matches_raw_spec.
Print Assumptions matches_raw_spec_full.
