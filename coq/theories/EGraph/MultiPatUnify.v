(* EGraph/MultiPatUnify.v — generic invariant transport through `unify`, `extend_subst` and `kids_go`
   (EGraph/MultiPat.v).  `P` is any state invariant that implies `uf_ok` and `sub_norm`; the only obligation left
   to the client is the closure of `P` under the unions `unify` actually performs (`unify_closed`). *)
From SE Require Import Slots.SlotMapFacts Lang.LangFacts Lang.ShapeFacts Base.TextFacts Parse.Parser
  EGraph.Model EGraph.ModelFacts EGraph.ModelMachine EGraph.Rewrite EGraph.RewriteFacts EGraph.MatchDefs
  EGraph.MultiPat EGraph.MatchMachine EGraph.MatchFacts EGraph.MatchLookup EGraph.MultiPatUf EGraph.MultiPatState.
Require Import ZArith Lia List.
Import ListNotations.
Local Open Scope N_scope.

(* members of a set difference *)
Lemma sset_diff_in_values : forall m1 m2 z, In z (sset_diff (values m1) (values m2)) -> In z (values_vec m1).
Proof.
  intros m1 m2 z H. unfold sset_diff in H. apply filter_In in H. destruct H as [H _].
  unfold values in H. exact (proj1 (proj2 (sset_of_list_spec (values_vec m1)) z) H).
Qed.

Section Transport.
  Variable s : egraph.
  Variable P : mstate -> Prop.
  Hypothesis P_uf : forall st, P st -> uf_ok st /\ sub_norm st.

  (* the closure premise: P survives every union of a value of x with a value of y in an extension of st *)
  Definition unify_closed (x y : appid) (st : mstate) : Prop :=
    forall st1 xx yy st2, P st1 -> uext st st1 ->
      In xx (values_vec (am (state_appid_find st1 x))) ->
      In yy (values_vec (am (state_appid_find st1 y))) ->
      union_slot xx yy st1 = Some st2 -> P st2.

  Lemma unify_closed_step : forall x y st st2, uext st st2 ->
    unify_closed x y st -> unify_closed (state_appid_find st x) (state_appid_find st y) st2.
  Proof.
    intros x y st st2 E Hcl st1 xx yy st3 P1 E1 Hx Hy U.
    pose proof (uext_trans _ _ _ E E1) as E01.
    rewrite (state_appid_find_refines st st1 x (proj1 E01)) in Hx.
    rewrite (state_appid_find_refines st st1 y (proj1 E01)) in Hy.
    exact (Hcl st1 xx yy st3 P1 E01 Hx Hy U).
  Qed.

  Lemma unify_spec : forall fuel x y st l, P st -> unify_closed x y st -> unify fuel s x y st = Ok l ->
    forall st', In st' l ->
    P st' /\ uext st st' /\ aid x = aid y /\
    eg_eq s (state_appid_find st' x) (state_appid_find st' y) = Ok true.
  Proof.
    induction fuel as [|f IH]; intros x y st l HP Hcl H st' Hin; [discriminate|].
    destruct (P_uf st HP) as [K N].
    cbn [unify] in H.
    destruct (negb (aid (state_appid_find st x) =? aid (state_appid_find st y))) eqn:Ea.
    { inversion H; subst l. contradiction. }
    apply Bool.negb_false_iff in Ea. apply N.eqb_eq in Ea. cbn [state_appid_find aid] in Ea.
    destruct (negb (Nat.eqb _ _)); [discriminate|].
    destruct (sset_diff (values (am (state_appid_find st x))) (values (am (state_appid_find st y)))) as [|xx xt] eqn:Ex.
    - destruct (eg_eq s (state_appid_find st x) (state_appid_find st y)) as [e|] eqn:Ee; cbn [bind] in H; [|discriminate].
      inversion H; subst l. destruct e; [|contradiction]. destruct Hin as [<-|[]].
      split; [exact HP|]. split; [exact (uext_refl st K N)|]. split; [exact Ea|exact Ee].
    - destruct (flat_mapr_inv _ _ _ _ _ H st' Hin) as (yy & r1 & Hyy & Hf & Hr1).
      destruct (union_slot xx yy st) as [st2|] eqn:U.
      + assert (Hxx : In xx (values_vec (am (state_appid_find st x)))).
        { apply (sset_diff_in_values _ (am (state_appid_find st y))). rewrite Ex. left. reflexivity. }
        assert (Hyy' : In yy (values_vec (am (state_appid_find st y)))).
        { apply (sset_diff_in_values _ (am (state_appid_find st x))). exact Hyy. }
        pose proof (Hcl st xx yy st2 HP (uext_refl st K N) Hxx Hyy' U) as P2.
        pose proof (union_slot_uext xx yy st st2 K N U) as E2.
        destruct (IH _ _ st2 r1 P2 (unify_closed_step x y st st2 E2 Hcl) Hf st' Hr1) as (P' & E' & _ & Q').
        pose proof (uext_trans _ _ _ E2 E') as E02.
        rewrite (state_appid_find_refines st st' x (proj1 E02)) in Q'.
        rewrite (state_appid_find_refines st st' y (proj1 E02)) in Q'.
        split; [exact P'|]. split; [exact E02|]. split; [exact Ea|exact Q'].
      + inversion Hf; subst r1. contradiction.
  Qed.

  (* extend_subst, norm = true: the unbound case *)
  Lemma extend_subst_fresh : forall pv x st l, sub_get (ms_subst st) pv = None ->
    extend_subst true s pv x st = Ok l -> forall st', In st' l ->
    st' = with_subst st (ms_subst st ++ [(pv, state_appid_find st x)]).
  Proof.
    intros pv x st l G H st' Hin. unfold extend_subst in H. rewrite G in H.
    inversion H; subst l. destruct Hin as [<-|[]]. reflexivity.
  Qed.

  (* extend_subst: the bound case (any norm: the flag is not read) *)
  Lemma extend_subst_bound : forall norm pv x y st l, P st -> sub_get (ms_subst st) pv = Some y ->
    unify_closed x y st ->
    extend_subst norm s pv x st = Ok l -> forall st', In st' l ->
    P st' /\ uext st st' /\ aid x = aid y /\
    eg_eq s (state_appid_find st' x) (state_appid_find st' y) = Ok true.
  Proof.
    intros norm pv x y st l HP G Hcl H st' Hin. unfold extend_subst in H. rewrite G in H.
    exact (unify_spec _ x y st l HP Hcl H st' Hin).
  Qed.

  Lemma extend_subst_spec : forall pv x st l, P st ->
    (forall y, sub_get (ms_subst st) pv = Some y -> unify_closed x y st) ->
    extend_subst true s pv x st = Ok l -> forall st', In st' l ->
    (sub_get (ms_subst st) pv = None /\
     st' = with_subst st (ms_subst st ++ [(pv, state_appid_find st x)])) \/
    (exists y, sub_get (ms_subst st) pv = Some y /\
       P st' /\ uext st st' /\ aid x = aid y /\
       eg_eq s (state_appid_find st' x) (state_appid_find st' y) = Ok true).
  Proof.
    intros pv x st l HP Hcl H st' Hin. destruct (sub_get (ms_subst st) pv) as [y|] eqn:G.
    - right. exists y. split; [reflexivity|].
      exact (extend_subst_bound true pv x y st l HP G (Hcl y eq_refl) H st' Hin).
    - left. split; [reflexivity|]. exact (extend_subst_fresh pv x st l G H st' Hin).
  Qed.
End Transport.

Section Kids.
  Variable s : egraph.

  (* kids_go: a generic induction principle *)
  Lemma kids_go_ind : forall norm (R : list text -> list appid -> mstate -> Prop),
    (forall cv cg ch subs st l st', R (cv :: ch) (cg :: subs) st ->
       extend_subst norm s cv cg st = Ok l -> In st' l -> R ch subs st') ->
    forall ch subs acc l, kids_go norm s ch subs acc = Ok l ->
    (forall st, In st acc -> R ch subs st) ->
    forall st', In st' l -> exists ch' subs', R ch' subs' st' /\ (ch' = [] \/ subs' = []).
  Proof.
    intros norm R Step. induction ch as [|cv ch' IH]; intros subs acc l H HR st' Hin.
    - rewrite kids_go_nil_l in H. inversion H; subst l. exists [], subs. split; [exact (HR st' Hin)|left; reflexivity].
    - destruct subs as [|cg subs'].
      + rewrite kids_go_nil_r in H. inversion H; subst l. exists (cv :: ch'), [].
        split; [exact (HR st' Hin)|right; reflexivity].
      + rewrite kids_go_cons in H.
        destruct (flat_mapr (extend_subst norm s cv cg) acc) as [next|] eqn:En; cbn [bind] in H; [|discriminate].
        apply (IH subs' next l H); [|exact Hin].
        intros st1 H1. destruct (flat_mapr_inv _ _ _ _ _ En st1 H1) as (st0 & r1 & H0 & He & Hr1).
        exact (Step cv cg ch' subs' st0 r1 st1 (HR st0 H0) He Hr1).
  Qed.

  Lemma kids_go_ind_len : forall norm (R : list text -> list appid -> mstate -> Prop),
    (forall cv cg ch subs st l st', R (cv :: ch) (cg :: subs) st ->
       extend_subst norm s cv cg st = Ok l -> In st' l -> R ch subs st') ->
    forall ch subs acc l, List.length ch = List.length subs -> kids_go norm s ch subs acc = Ok l ->
    (forall st, In st acc -> R ch subs st) ->
    forall st', In st' l -> R [] [] st'.
  Proof.
    intros norm R Step. induction ch as [|cv ch' IH]; intros subs acc l Len H HR st' Hin.
    - destruct subs; [|discriminate]. rewrite kids_go_nil_l in H. inversion H; subst l. exact (HR st' Hin).
    - destruct subs as [|cg subs']; [discriminate|]. cbn [List.length] in Len.
      rewrite kids_go_cons in H.
      destruct (flat_mapr (extend_subst norm s cv cg) acc) as [next|] eqn:En; cbn [bind] in H; [|discriminate].
      apply (IH subs' next l (eq_add_S _ _ Len) H); [|exact Hin].
      intros st1 H1. destruct (flat_mapr_inv _ _ _ _ _ En st1 H1) as (st0 & r1 & H0 & He & Hr1).
      exact (Step cv cg ch' subs' st0 r1 st1 (HR st0 H0) He Hr1).
  Qed.
End Kids.


Print Assumptions unify_closed_step.
Print Assumptions unify_spec.
Print Assumptions extend_subst_fresh.
Print Assumptions extend_subst_bound.
Print Assumptions extend_subst_spec.
Print Assumptions kids_go_ind.
Print Assumptions kids_go_ind_len.
