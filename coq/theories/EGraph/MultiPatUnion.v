From SE Require Import Slots.SlotMapFacts Group.GroupSound Lang.LangFacts Lang.ShapeFacts Lang.RenameFacts
  Base.TextFacts Parse.Parser EGraph.Model EGraph.ModelFacts EGraph.ModelMachine EGraph.UnionFindFacts
  EGraph.InvariantFacts EGraph.UnionInvariantFacts EGraph.AddCoversFacts EGraph.HashconsShape EGraph.Mod4Facts
  EGraph.HashconsAbs EGraph.HashconsFacts EGraph.Rewrite EGraph.RewriteFacts EGraph.MatchDefs EGraph.MultiPat EGraph.MatchMachine
  EGraph.ProgressFacts EGraph.MatchFacts EGraph.SoundUnion EGraph.MonotoneFacts EGraph.MatchLookup
  EGraph.NodeCong EGraph.KidEqFacts EGraph.ShapeCong EGraph.CongruenceFacts EGraph.MatchComplete
  EGraph.MatchReprFix EGraph.MatchReprAlg EGraph.StoredLive EGraph.KidsFacts EGraph.PendingFacts EGraph.MatchReprFacts
  EGraph.RepFacts EGraph.MatchReprAllDefs EGraph.MatchReprAllRen EGraph.MatchReprAllInv EGraph.MultiPatRen
  EGraph.MatchReprAllInv EGraph.MultiPatUf EGraph.MultiPatDiseq EGraph.MultiPatRedirect EGraph.MultiPatDefs.
Require Import ZArith Lia ZifyBool ZifyN ZifyNat.


(* EGraph/MultiPatUnion.v — C05: every clause of the invariant `mp_inv` of the multi-pattern matcher is preserved by ONE
   successful `union_slot`, by `ps_add`, by `add_disjointness_constraint` and by appending a binding. *)

(* ------------------------------------------------------------------ *)
(* U0. canonical invocations of leader classes are closed under injective renaming of the values *)

Lemma lkid_mapa : forall s f a, lkid s a -> lkid s (mapa f a).
Proof.
  intros s f a (e & c & He & Hae & Hc & Hg & Ke & Wa & Ka).
  exists e, c. unfold mapa. cbn [aid am]. repeat split; try assumption.
  - apply wf_mapv. exact Wa.
  - intros k Hk. apply Ka. rewrite get_mapv in Hk. destruct (get (am a) k); [discriminate|exact Hk].
Qed.

Lemma ckid_mapa : forall s f a, ckid s a -> inj_on f (values_vec (am a)) -> ckid s (mapa f a).
Proof.
  intros s f a [La Ca] If. apply lkid_covers_ckid; [exact (lkid_mapa s f a La)|].
  exact (proj1 (covers_mapa s f a (canon_covers _ _ Ca) (proj1 (canon_parts _ _ Ca)) If)).
Qed.

Lemma inv_i_mapa : forall s t f a, inv_i s t a -> inj_on f (values_vec (am a)) ->
  (forall x, In x (values_vec (am a)) -> f x < Model.ctr t) -> inv_i s t (mapa f a).
Proof.
  intros s t f a [Ka Va] If Hf. split; [exact (ckid_mapa s f a Ka If)|].
  intros v Hv. rewrite values_vec_mapa in Hv. apply in_map_iff in Hv. destruct Hv as (x & <- & Hx). exact (Hf x Hx).
Qed.

(* ------------------------------------------------------------------ *)
(* U1. nodes_apart *)

Lemma union_slot_apart_ok : forall st x y st', uf_ok st -> union_slot x y st = Some st' ->
  forall p q, apart st p q -> apart st' p q.
Proof.
  intros st x y st' Hok U. apply (union_slot_apart st x y st'); [intros z; apply state_find_idem; exact Hok| |exact U].
  intros a b Nab Fa Fb z.
  assert (Ga : get (ms_uf st) a = None) by (rewrite <- Fa; apply (proj2 Hok)).
  assert (Gb : get (ms_uf st) b = None) by (rewrite <- Fb; apply (proj2 Hok)).
  destruct (state_find_insert st {| ms_pslots := ms_pslots st; ms_diseq := ms_diseq st; ms_subst := ms_subst st;
                                    ms_uf := insert a b (ms_uf st) |} a b Hok Ga Gb Nab eq_refl) as [H _].
  rewrite H. reflexivity.
Qed.

Lemma nodes_apart_union : forall st x y st' ns, uf_ok st -> union_slot x y st = Some st' ->
  nodes_apart st ns -> nodes_apart st' ns.
Proof.
  intros st x y st' ns Hok U NA n p q Hn Hp Hq Npq.
  exact (union_slot_apart_ok st x y st' Hok U p q (NA n p q Hn Hp Hq Npq)).
Qed.

Lemma apart_inj : forall st ns n, nodes_apart st ns -> In n ns -> inj_on (state_find st) (all_occ n).
Proof.
  intros st ns n NA Hn p q Hp Hq E. destruct (N.eq_dec p q) as [->|Ne]; [reflexivity|].
  destruct (NA n p q Hn Hp Hq Ne) as [D _]. contradiction.
Qed.

(* ------------------------------------------------------------------ *)
(* U2. eq_wit *)

Lemma Forall2_impl_in : forall {A C} (P Q : A -> C -> Prop) l l',
  (forall x y, In x l -> In y l' -> P x y -> Q x y) -> Forall2 P l l' -> Forall2 Q l l'.
Proof.
  intros A C P Q l l' H F. induction F as [|x y l l' Pxy F IH]; constructor.
  - apply H; [left; reflexivity|left; reflexivity|exact Pxy].
  - apply IH. intros x0 y0 Hx Hy. apply H; right; assumption.
Qed.

Lemma map_id_in : forall {A} (f : A -> A) l, (forall x, In x l -> f x = x) -> map f l = l.
Proof. intros A f l H. rewrite <- (map_id l) at 2. apply map_ext_in. exact H. Qed.

Lemma match_inv_eg_inv : forall s0, match_inv s0 -> eg_inv s0.
Proof. intros s0 MI. destruct MI as [[[E _] _] _ _ _ _ _]. exact E. Qed.

(* the invocation of a child of a witness node, renamed by the slot union-find, is still canonical *)
Lemma ckid_nrm_kid : forall s0 st ns n cg, nodes_apart st ns -> In n ns -> In cg (app_occ n) -> ckid s0 cg ->
  ckid s0 (state_appid_find st cg).
Proof.
  intros s0 st ns n cg NA Hn Hcg K. rewrite nrm_mapa. apply ckid_mapa; [exact K|].
  intros p q Hp Hq E. apply (apart_inj st ns n NA Hn); [eapply all_occ_app_val; eauto|eapply all_occ_app_val; eauto|exact E].
Qed.

(* redirect is injective on the representatives of the slot occurrences of a witness node *)
Lemma redirect_inj_occ : forall st st' ns n r, nodes_apart st' ns -> In n ns ->
  (forall z, state_find st' z = r (state_find st z)) ->
  inj_on r (map (state_find st) (all_occ n)).
Proof.
  intros st st' ns n r NA Hn F p q Hp Hq E.
  apply in_map_iff in Hp. destruct Hp as (p' & <- & Hp'). apply in_map_iff in Hq. destruct Hq as (q' & <- & Hq').
  rewrite <- !F in E. f_equal. exact (apart_inj st' ns n NA Hn p' q' Hp' Hq' E).
Qed.

Lemma eq_wit_union : forall s0 st st' ns x y v nd ch n g,
  match_inv s0 -> uf_ok st -> sub_norm st -> ps_roots st ->
  (forall z, In z (all_occ (nullify nd)) -> In z (ms_pslots st)) ->
  nodes_apart st ns -> In n ns ->
  (forall cv a, In cv ch -> sub_get (ms_subst st) cv = Some a -> ckid s0 a) ->
  union_slot x y st = Some st' ->
  eq_wit s0 st (v, nd, ch) (n, g) -> eq_wit s0 st' (v, nd, ch) (n, g).
Proof.
  intros s0 st st' ns x y v nd ch n g MI Hok SN PR PS NA Hn CK U W.
  pose proof (match_inv_eg_inv s0 MI) as EI.
  pose proof (nodes_apart_union st x y st' ns Hok U NA) as NA'.
  pose proof (union_slot_refines x y st st' Hok U) as RF.
  destruct (union_slot_spec x y st st' Hok U) as [[-> _]|(a & b & _ & Nab & Ma & _ & _ & _ & _ & _ & _ & _ & F & _)]; [exact W|].
  unfold eq_wit in *.
  destruct W as (W1 & W2 & W3 & W4 & W5 & W6 & W7 & W8 & W9 & W10).
  split; [exact W1|]. split; [exact W2|]. split; [exact W3|]. split; [exact W4|]. split; [exact W5|]. split; [exact W6|].
  split; [|split; [exact W8|split]].
  - rewrite (union_slot_sub_get x y st st' v Hok SN U), W7. cbn [option_map]. f_equal.
    apply state_appid_find_refines. exact RF.
  - rewrite (map_ext _ _ F). rewrite <- (map_map (state_find st) (redirect a b)), W9.
    apply map_id_in. intros z Hz. apply redirect_other. intros ->.
    apply PS in Hz. apply sset_mem_in in Hz. congruence.
  - revert W10. apply Forall2_impl_in. intros cv cg Hcv Hcg (a0 & G0 & E0).
    exists (state_appid_find st' a0). split.
    { rewrite (union_slot_sub_get x y st st' cv Hok SN U), G0. reflexivity. }
    assert (N0 : state_appid_find st a0 = a0).
    { apply state_appid_find_norm. intros z Hz. exact (SN cv a0 z (sub_get_in _ _ _ G0) Hz). }
    pose proof (CK cv a0 Hcv G0) as K0.
    pose proof (ckid_nrm_kid s0 st ns n cg NA Hn Hcg (W3 cg Hcg)) as K1.
    destruct (ckid_cov s0 MI _ K0) as (C0 & Wf0 & _). destruct (ckid_cov s0 MI _ K1) as (C1 & Wf1 & _).
    rewrite (nrm_step st st' (redirect a b) cg F), (nrm_step st st' (redirect a b) a0 F), N0.
    apply eg_eq_mapa; try assumption.
    assert (Sub : forall z, In z (values_vec (am (state_appid_find st cg)) ++ values_vec (am a0)) ->
                            In z (map (state_find st) (all_occ n))).
    { assert (S1 : forall z, In z (values_vec (am (state_appid_find st cg))) -> In z (map (state_find st) (all_occ n))).
      { intros z Hz. rewrite values_vec_appid_find in Hz. apply in_map_iff in Hz. destruct Hz as (z0 & <- & Hz0).
        apply in_map. eapply all_occ_app_val; eauto. }
      intros z Hz. apply in_app_or in Hz. destruct Hz as [Hz|Hz]; [exact (S1 z Hz)|].
      apply S1. apply (eg_eq_vals s0 MI a0 _ K0 K1); [|exact Hz].
      apply eg_eq_sym_true; assumption. }
    intros p q Hp Hq. apply (redirect_inj_occ st st' ns n (redirect a b) NA' Hn F); apply Sub; assumption.
Qed.

(* ------------------------------------------------------------------ *)
(* U3. bnd_ok *)

Lemma bnd_ok_union : forall s0 c0 t st st' ns x y i,
  uf_ok st -> nodes_apart st ns -> union_slot x y st = Some st' ->
  hi_or_ps c0 st x -> hi_or_ps c0 st y ->
  state_find st x < Model.ctr t -> state_find st y < Model.ctr t ->
  bnd_ok s0 c0 t st ns i -> bnd_ok s0 c0 t st' ns (state_appid_find st' i).
Proof.
  intros s0 c0 t st st' ns x y i Hok NA U Hx Hy Lx Ly (Ii & HP & n & Hn & Occ).
  pose proof (nodes_apart_union st x y st' ns Hok U NA) as NA'.
  pose proof (union_slot_refines x y st st' Hok U) as RF.
  assert (Occ' : forall z, In z (values_vec (am (state_appid_find st' i))) ->
                           exists y0, In y0 (all_occ n) /\ z = state_find st' y0).
  { intros z Hz. rewrite values_vec_appid_find in Hz. apply in_map_iff in Hz. destruct Hz as (z0 & <- & Hz0).
    destruct (Occ z0 Hz0) as (y0 & Hy0 & ->). exists y0. split; [exact Hy0|]. symmetry. apply RF. }
  assert (Inj : inj_on (state_find st') (values_vec (am i))).
  { intros p q Hp Hq E. destruct (Occ p Hp) as (p0 & Hp0 & ->). destruct (Occ q Hq) as (q0 & Hq0 & ->).
    rewrite <- !RF in E. f_equal. exact (apart_inj st' ns n NA' Hn p0 q0 Hp0 Hq0 E). }
  assert (Root : forall z, In z (values_vec (am i)) -> state_find st z = z).
  { intros z Hz. destruct (Occ z Hz) as (z0 & _ & ->). apply state_find_idem. exact Hok. }
  destruct (union_slot_spec x y st st' Hok U) as [[-> _]|(a & b & AB & Nab & Ma & _ & _ & _ & _ & _ & _ & PSe & F & _)].
  - split; [|split; [|exists n; split; [exact Hn|exact Occ']]].
    + rewrite nrm_mapa. apply inv_i_mapa; [exact Ii|exact Inj|]. intros z Hz. rewrite (Root z Hz). exact (proj2 Ii z Hz).
    + intros z Hz. rewrite values_vec_appid_find in Hz. apply in_map_iff in Hz. destruct Hz as (z0 & <- & Hz0).
      rewrite (Root z0 Hz0). exact (HP z0 Hz0).
  - assert (Hb : (c0 <= b \/ In b (ms_pslots st)) /\ b < Model.ctr t).
    { destruct AB as [[_ ->]|[_ ->]]; split; assumption. }
    assert (Cases : forall z, In z (values_vec (am i)) -> state_find st' z = z \/ state_find st' z = b).
    { intros z Hz. rewrite F, (Root z Hz). unfold redirect. destruct (z =? a); [right|left]; reflexivity. }
    split; [|split; [|exists n; split; [exact Hn|exact Occ']]].
    + rewrite nrm_mapa. apply inv_i_mapa; [exact Ii|exact Inj|]. intros z Hz.
      destruct (Cases z Hz) as [-> | ->]; [exact (proj2 Ii z Hz)|exact (proj2 Hb)].
    + intros z Hz. rewrite values_vec_appid_find in Hz. apply in_map_iff in Hz. destruct Hz as (z0 & <- & Hz0).
      rewrite PSe. destruct (Cases z0 Hz0) as [-> | ->]; [exact (HP z0 Hz0)|exact (proj1 Hb)].
Qed.

(* the clause of mp_inv on all bound invocations *)
Lemma bnd_all_union : forall s0 c0 t st st' ns x y,
  uf_ok st -> sub_norm st -> nodes_apart st ns -> union_slot x y st = Some st' ->
  hi_or_ps c0 st x -> hi_or_ps c0 st y ->
  state_find st x < Model.ctr t -> state_find st y < Model.ctr t ->
  (forall v i, sub_get (ms_subst st) v = Some i -> bnd_ok s0 c0 t st ns i) ->
  (forall v i, sub_get (ms_subst st') v = Some i -> bnd_ok s0 c0 t st' ns i).
Proof.
  intros s0 c0 t st st' ns x y Hok SN NA U Hx Hy Lx Ly B v i G.
  rewrite (union_slot_sub_get x y st st' v Hok SN U) in G.
  destruct (sub_get (ms_subst st) v) as [i0|] eqn:G0; [|discriminate]. cbn [option_map] in G. inversion G; subst i.
  exact (bnd_ok_union s0 c0 t st st' ns x y i0 Hok NA U Hx Hy Lx Ly (B v i0 G0)).
Qed.

(* ------------------------------------------------------------------ *)
(* U4/U5. the clauses depend only on some fields of the matcher state *)

Lemma state_find_ext : forall st st2, ms_uf st2 = ms_uf st -> forall z, state_find st2 z = state_find st z.
Proof. intros st st2 E z. apply state_find_uf. exact E. Qed.

Lemma uf_ok_ext : forall st st2, ms_uf st2 = ms_uf st -> uf_ok st -> uf_ok st2.
Proof.
  intros st st2 E [W R]. split; [rewrite E; exact W|]. intros z. rewrite (state_find_ext st st2 E), E. apply R.
Qed.

Lemma ps_roots_ext : forall st st2, ms_uf st2 = ms_uf st -> (forall z, In z (ms_pslots st2) -> In z (ms_pslots st)) ->
  ps_roots st -> ps_roots st2.
Proof. intros st st2 E P R z Hz. rewrite E. apply R. apply P. exact Hz. Qed.

Lemma sub_norm_ext : forall st st2, ms_uf st2 = ms_uf st -> ms_subst st2 = ms_subst st -> sub_norm st -> sub_norm st2.
Proof. intros st st2 E Es SN v a z Hin Hz. rewrite E. rewrite Es in Hin. exact (SN v a z Hin Hz). Qed.

Lemma keys_fresh_ext : forall c0 st st2, ms_uf st2 = ms_uf st -> keys_fresh c0 st -> keys_fresh c0 st2.
Proof. intros c0 st st2 E K k Hk. rewrite E in Hk. exact (K k Hk). Qed.

Lemma apart_ext : forall st st2, ms_uf st2 = ms_uf st -> ms_diseq st2 = ms_diseq st ->
  forall p q, apart st p q -> apart st2 p q.
Proof.
  intros st st2 E Ed p q. unfold apart, marked. rewrite !(state_find_ext st st2 E), Ed. exact (fun H => H).
Qed.

Lemma nodes_apart_ext : forall st st2 ns, ms_uf st2 = ms_uf st -> ms_diseq st2 = ms_diseq st ->
  nodes_apart st ns -> nodes_apart st2 ns.
Proof. intros st st2 ns E Ed NA n p q Hn Hp Hq Ne. exact (apart_ext st st2 E Ed p q (NA n p q Hn Hp Hq Ne)). Qed.

Lemma nodes_apart_incl : forall st ns ns', (forall n, In n ns' -> In n ns) -> nodes_apart st ns -> nodes_apart st ns'.
Proof. intros st ns ns' I NA n p q Hn. apply NA. apply I. exact Hn. Qed.

Lemma bnd_ok_ext : forall s0 c0 t st st2 ns ns' i, ms_uf st2 = ms_uf st ->
  (forall z, In z (ms_pslots st) -> In z (ms_pslots st2)) -> (forall n, In n ns -> In n ns') ->
  bnd_ok s0 c0 t st ns i -> bnd_ok s0 c0 t st2 ns' i.
Proof.
  intros s0 c0 t st st2 ns ns' i E P I (Ii & HP & n & Hn & Occ). split; [exact Ii|]. split.
  - intros z Hz. destruct (HP z Hz) as [H|H]; [left; exact H|right; apply P; exact H].
  - exists n. split; [apply I; exact Hn|]. intros z Hz. destruct (Occ z Hz) as (y0 & Hy0 & ->).
    exists y0. split; [exact Hy0|]. symmetry. apply state_find_ext. exact E.
Qed.

Lemma eq_wit_ext : forall s0 st st2 e w, ms_uf st2 = ms_uf st ->
  (forall v a, sub_get (ms_subst st) v = Some a -> sub_get (ms_subst st2) v = Some a) ->
  eq_wit s0 st e w -> eq_wit s0 st2 e w.
Proof.
  intros s0 st st2 [[v nd] ch] [n g] E Sb W. unfold eq_wit in *.
  destruct W as (W1 & W2 & W3 & W4 & W5 & W6 & W7 & W8 & W9 & W10).
  split; [exact W1|]. split; [exact W2|]. split; [exact W3|]. split; [exact W4|]. split; [exact W5|]. split; [exact W6|].
  split; [|split; [exact W8|split]].
  - rewrite (state_appid_find_uf st2 st g E). apply Sb. exact W7.
  - rewrite (map_ext _ _ (state_find_ext st st2 E)). exact W9.
  - revert W10. apply Forall2_impl_in. intros cv cg _ _ (a0 & G0 & E0). exists a0. split; [apply Sb; exact G0|].
    rewrite (state_appid_find_uf st2 st cg E). exact E0.
Qed.

(* --- ps_add --- *)
Lemma ps_add_uf_ok : forall x1 st, uf_ok st -> uf_ok (ps_add x1 st).
Proof. intros x1 st. apply uf_ok_ext. reflexivity. Qed.

Lemma ps_add_sub_norm : forall x1 st, sub_norm st -> sub_norm (ps_add x1 st).
Proof. intros x1 st. apply sub_norm_ext; reflexivity. Qed.

Lemma ps_add_keys_fresh : forall c0 x1 st, keys_fresh c0 st -> keys_fresh c0 (ps_add x1 st).
Proof. intros c0 x1 st. apply keys_fresh_ext. reflexivity. Qed.

Lemma ps_add_ps_roots : forall x1 st, get (ms_uf st) x1 = None -> ps_roots st -> ps_roots (ps_add x1 st).
Proof.
  intros x1 st G R z Hz. unfold ps_add in Hz. cbn [ms_pslots] in Hz. apply sset_insert_in in Hz.
  destruct Hz as [->|Hz]; [exact G|exact (R z Hz)].
Qed.

Lemma ps_add_nodes_apart : forall x1 st ns, nodes_apart st ns -> nodes_apart (ps_add x1 st) ns.
Proof. intros x1 st ns. apply nodes_apart_ext; reflexivity. Qed.

Lemma ps_add_eq_wit : forall s0 x1 st e w, eq_wit s0 st e w -> eq_wit s0 (ps_add x1 st) e w.
Proof. intros s0 x1 st e w. apply eq_wit_ext; [reflexivity|]. intros v a G. exact G. Qed.

Lemma ps_add_bnd_ok : forall s0 c0 t x1 st ns i, bnd_ok s0 c0 t st ns i -> bnd_ok s0 c0 t (ps_add x1 st) ns i.
Proof.
  intros s0 c0 t x1 st ns i. apply bnd_ok_ext; [reflexivity| |intros n Hn; exact Hn].
  intros z Hz. unfold ps_add. cbn [ms_pslots]. apply sset_insert_in. right. exact Hz.
Qed.

Lemma ps_add_pslots : forall x1 st z, In z (ms_pslots (ps_add x1 st)) <-> z = x1 \/ In z (ms_pslots st).
Proof. intros x1 st z. unfold ps_add. cbn [ms_pslots]. apply sset_insert_in. Qed.

(* --- add_disjointness_constraint --- *)
Lemma adc_uf_ok : forall set st, uf_ok st -> uf_ok (add_disjointness_constraint set st).
Proof. intros set st. apply uf_ok_ext. apply adc_uf. Qed.

Lemma adc_sub_norm : forall set st, sub_norm st -> sub_norm (add_disjointness_constraint set st).
Proof. intros set st. apply sub_norm_ext; [apply adc_uf|apply adc_subst]. Qed.

Lemma adc_keys_fresh : forall c0 set st, keys_fresh c0 st -> keys_fresh c0 (add_disjointness_constraint set st).
Proof. intros c0 set st. apply keys_fresh_ext. apply adc_uf. Qed.

Lemma adc_ps_roots : forall set st, ps_roots st -> ps_roots (add_disjointness_constraint set st).
Proof. intros set st. apply ps_roots_ext; [apply adc_uf|]. intros z Hz. rewrite adc_pslots in Hz. exact Hz. Qed.

Lemma adc_eq_wit : forall s0 set st e w, eq_wit s0 st e w -> eq_wit s0 (add_disjointness_constraint set st) e w.
Proof. intros s0 set st e w. apply eq_wit_ext; [apply adc_uf|]. intros v a G. rewrite adc_subst. exact G. Qed.

Lemma adc_bnd_ok : forall s0 c0 t set st ns ns' i, (forall n, In n ns -> In n ns') ->
  bnd_ok s0 c0 t st ns i -> bnd_ok s0 c0 t (add_disjointness_constraint set st) ns' i.
Proof.
  intros s0 c0 t set st ns ns' i I. apply bnd_ok_ext; [apply adc_uf| |exact I].
  intros z Hz. rewrite adc_pslots. exact Hz.
Qed.

Lemma adc_nodes_apart_mono : forall set st ns, nodes_apart st ns -> nodes_apart (add_disjointness_constraint set st) ns.
Proof. intros set st ns NA n p q Hn Hp Hq Ne. apply adc_apart_mono. exact (NA n p q Hn Hp Hq Ne). Qed.

Lemma adc_nodes_apart_new : forall st n ns, nodes_apart st ns ->
  (forall z, In z (all_occ n) -> state_find st z = z) ->
  nodes_apart (add_disjointness_constraint (sset_of_list (all_occ n)) st) (n :: ns).
Proof.
  intros st n ns NA Fx n0 p q [<-|Hn] Hp Hq Ne.
  - apply adc_apart_new; [apply sset_of_list_in; exact Hp|apply sset_of_list_in; exact Hq|exact Ne|exact (Fx p Hp)|exact (Fx q Hq)].
  - apply adc_apart_mono. exact (NA n0 p q Hn Hp Hq Ne).
Qed.

(* --- U5. appending a binding --- *)
Lemma app_bind_eq_wit : forall s0 st pv i e w,
  eq_wit s0 st e w -> eq_wit s0 (with_subst st (ms_subst st ++ [(pv, i)])) e w.
Proof.
  intros s0 st pv i e w. apply eq_wit_ext; [reflexivity|]. intros v a G.
  unfold with_subst. cbn [ms_subst]. rewrite sub_get_app, G. reflexivity.
Qed.

Lemma app_bind_nodes_apart : forall st sb ns, nodes_apart st ns -> nodes_apart (with_subst st sb) ns.
Proof. intros st sb ns. apply nodes_apart_ext; reflexivity. Qed.

Lemma app_bind_uf_ok : forall st sb, uf_ok st -> uf_ok (with_subst st sb).
Proof. intros st sb. apply uf_ok_ext. reflexivity. Qed.

Lemma app_bind_ps_roots : forall st sb, ps_roots st -> ps_roots (with_subst st sb).
Proof. intros st sb. apply ps_roots_ext; [reflexivity|]. intros z Hz. exact Hz. Qed.

Lemma app_bind_keys_fresh : forall c0 st sb, keys_fresh c0 st -> keys_fresh c0 (with_subst st sb).
Proof. intros c0 st sb. apply keys_fresh_ext. reflexivity. Qed.

Lemma app_bind_sub_norm : forall st pv i, sub_norm st ->
  (forall z, In z (values_vec (am i)) -> get (ms_uf st) z = None) ->
  sub_norm (with_subst st (ms_subst st ++ [(pv, i)])).
Proof.
  intros st pv i SN R v a z Hin Hz. unfold with_subst in *. cbn [ms_subst ms_uf] in *.
  apply in_app_or in Hin. destruct Hin as [Hin|[Hin|[]]]; [exact (SN v a z Hin Hz)|].
  inversion Hin; subst. exact (R z Hz).
Qed.

Lemma app_bind_bnd_all : forall s0 c0 t st ns pv i, sub_get (ms_subst st) pv = None ->
  bnd_ok s0 c0 t st ns i ->
  (forall v a, sub_get (ms_subst st) v = Some a -> bnd_ok s0 c0 t st ns a) ->
  (forall v a, sub_get (ms_subst (with_subst st (ms_subst st ++ [(pv, i)]))) v = Some a ->
               bnd_ok s0 c0 t (with_subst st (ms_subst st ++ [(pv, i)])) ns a).
Proof.
  intros s0 c0 t st ns pv i _ Bi B v a G. unfold with_subst in G. cbn [ms_subst] in G. rewrite sub_get_app in G.
  apply (bnd_ok_ext s0 c0 t st _ ns ns a); [reflexivity|intros z Hz; exact Hz|intros n Hn; exact Hn|].
  destruct (sub_get (ms_subst st) v) as [a1|] eqn:G1.
  - inversion G; subst a1. exact (B v a G1).
  - cbn [sub_get] in G. destruct (text_eqb pv v); [|discriminate]. inversion G; subst a. exact Bi.
Qed.

(* ------------------------------------------------------------------ *)
(* the whole invariant is preserved by one successful union_slot *)
Theorem mp_inv_union : forall s0 c0 t done st st' x y,
  match_inv s0 -> mp_inv s0 c0 t done st -> union_slot x y st = Some st' ->
  hi_or_ps c0 st x -> hi_or_ps c0 st y ->
  state_find st x < Model.ctr t -> state_find st y < Model.ctr t ->
  mp_inv s0 c0 t done st'.
Proof.
  intros s0 c0 t done st st' x y MI (ws & Hok & SN & PR & KF & KC & PS & B & NA & FW) U Hx Hy Lx Ly.
  exists ws.
  split; [exact (union_slot_uf_ok x y st st' Hok U)|].
  split; [exact (union_slot_sub_norm x y st st' Hok SN U)|].
  split; [exact (union_slot_ps_roots x y st st' Hok U PR)|].
  split.
  { intros k Hk. destruct (union_slot_keys x y st st' Hok U k Hk) as [H|[H M]]; [exact (KF k H)|].
    assert (HP : c0 <= k \/ In k (ms_pslots st)) by (destruct H as [->| ->]; assumption).
    destruct HP as [HP|HP]; [exact HP|]. apply sset_mem_in in HP. congruence. }
  split.
  { intros k Hk. destruct (union_slot_keys x y st st' Hok U k Hk) as [H|[H M]]; [exact (KC k H)|].
    destruct H as [->| ->]; assumption. }
  split; [rewrite (union_slot_pslots x y st st' Hok U); exact PS|].
  split; [exact (bnd_all_union s0 c0 t st st' (map fst ws) x y Hok SN NA U Hx Hy Lx Ly B)|].
  split; [exact (nodes_apart_union st x y st' (map fst ws) Hok U NA)|].
  revert FW. apply Forall2_impl_in. intros [[v nd] ch] [n g] He Hw W.
  apply (eq_wit_union s0 st st' (map fst ws) x y v nd ch n g MI Hok SN PR); try assumption.
  - intros z Hz. apply PS. unfold mp_slots. apply in_flat_map. exists (v, nd, ch). split; [exact He|exact Hz].
  - apply in_map_iff. exists (n, g). split; [reflexivity|exact Hw].
  - intros cv a _ G. exact (proj1 (proj1 (B cv a G))).
Qed.

Print Assumptions ckid_mapa.
Print Assumptions inv_i_mapa.
Print Assumptions nodes_apart_union.
Print Assumptions apart_inj.
Print Assumptions eq_wit_union.
Print Assumptions bnd_ok_union.
Print Assumptions bnd_all_union.
Print Assumptions eq_wit_ext.
Print Assumptions bnd_ok_ext.
Print Assumptions ps_add_eq_wit.
Print Assumptions ps_add_bnd_ok.
Print Assumptions ps_add_nodes_apart.
Print Assumptions ps_add_ps_roots.
Print Assumptions adc_eq_wit.
Print Assumptions adc_bnd_ok.
Print Assumptions adc_nodes_apart_mono.
Print Assumptions adc_nodes_apart_new.
Print Assumptions app_bind_eq_wit.
Print Assumptions app_bind_nodes_apart.
Print Assumptions app_bind_sub_norm.
Print Assumptions app_bind_bnd_all.
Print Assumptions mp_inv_union.
