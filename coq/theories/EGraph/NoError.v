(* EGraph/NoError.v — C08, PANIC-FREEDOM HALF: the e-graph model (EGraph/Model.v) never returns a NON-FUEL error on a
   well-formed history.  Assembly of NoErrorBase / Key / Shape / Inv / Union / Pending* / Add* / Top (+ NoErrorFuel.v).

   MAIN THEOREM (closed under the global context, no hypothesis left):

     no_panic_modulo_fuel : forall terms ops e, Forall term_static terms -> ops_in_range terms ops ->
       run_ops terms ops [] empty_egraph = Err e -> is_fuel_error e                      (is_fuel_error e := e = OutOfFuel)

   and per operation, on every state satisfying the boundary invariant `B` (which holds in every reachable state:
   `B_reachable_static`):
     no_panic_union    : B s -> covers s l -> covers s r -> eg_union l r s = Err e -> is_fuel_error e
     no_panic_add_expr : B s -> twf t -> rt_pre (ctr s) t -> add_expr t s = Err e -> is_fuel_error e
     no_panic_add      : B s -> add_pre s n -> eg_add n s = Err e -> is_fuel_error e
     no_panic_rebuild  : Jm noex s -> Kx s -> rebuild fuel s = Err e -> is_fuel_error e          (ANY fuel, mid-operation states)
     no_panic_union_internal : kinv s -> hce E s -> covers s l -> covers s r -> union_internal fuel l r s = Err e -> is_fuel_error e
   `C08_no_error_full_false`: the unrestricted statement of props/C08.v is FALSE (a history with an out-of-range index is
   `Err OutOfBounds`): the two premises (well-formed terms, indices in range) are needed.
   Premises.  `term_static` (OpsPreFacts.v, decidable: term_staticb): per node pairwise distinct binders, one child per applied-id
   position, no slot name of residue 1 mod 4 (the residue of the fresh-slot counter).  `ops_in_range` (NoErrorTop.v, decidable):
   term indices < number of terms, handle indices < number of handles obtained so far.
   Invariants.  B s := Jm noex s /\ Kx s /\ pending s = [] /\ ctr s mod 4 = 1;
     Jm E s (NoErrorBase.v) := kinv s (inv3 [eg_inv: uf_ok, uf_slots_ok, cls_ok; syn_below; nodes_ok], m4, kids_ok) /\ hce E s
       (tab_ok + stale => pending \/ canon \/ E) /\ uses_conv s /\ stored2 s /\ syn_wf s /\ src_ok s [new] /\ pend_ok s [new];
     Kx s := mod4_ok s /\ SC2 s /\ KC2 s (SoundClosed.v: key invariant KS, kids_cov, syn_cov, SN).

   PER-SITE TABLE (Model.v line : site : tag  —  excluding invariant  —  where proved).  "tot" = the function returns Ok.
   -- queries and primitives --
   161 get_class / 166 upd_class : UnwrapNone — class id in range: ids of leaders (uf_ok.ufl_bound + eg_wf), of `covers`ing
        invocations, of children of stored shapes (kids_ok), of children of syntactic nodes (syn_wf: aid < i), source ids of
        entries (src_ok), hashcons values (tab_ok.tb_fwd); lengths never shrink (ModelFacts mono/keep) — Base.get_class_tot,
        nf_upd_class; used everywhere.
   209 uf_get_go : OutOfFuel — never (rank function of uf_ok: UnionFindFacts.find_applied_id_ok); 212 : OutOfBounds — id in range
        — Base.find_applied_id_tot, find_enode_tot.
   228 unionfind_set : OutOfBounds — i <= lu s (leaders; the fresh id lu s in alloc_eclass) — Base.nf_unionfind_set.
   241 is_alive, 678 enodes AssertFailed : queries, not on the run_ops path; Shape.enodes_tot (premise: the id is a leader - the
        assert! of the Rust query is real), Shape.progress_tot.
   263 eg_eq (gcontains; index of the quotient permutation) — canon_ok of both found invocations gives perm_on — Shape.eg_eq_tot.
   284 variants (gall_perms) — total (GroupSound.gall_perms_count) — Shape.variants_tot.
   293 min_variant : UnwrapNone — variants is non-empty (every class group contains the identity; cartesian of non-empty lists)
        — Shape.variants_nonempty, min_variant_tot; 295 wshape — `inverse false` never fails — Base.wshape_tot.
   308-314 pre_shape / shape — Shape.pre_shape_tot, shape_tot (premise: ids in range).
   318 synify_app_id (syn_slots) — id in range — Shape.nf_synify_app_id, nf_synify_enode; 332 semify_app_id — Shape.semify_app_id_tot.
   345 lookup_internal : UnwrapNone (`c.nodes[&shape]`) — tab_ok.tb_fwd: hashcons sh = Some i -> class i stores sh — Shape.lookup_internal_tot.
   355-357 raw_add_to_class (upd_class on id and on the ids of the shape) — in range — Union.nf_raw_add, AddS.nf_raw_add.
   360-365 raw_remove_from_class : UnwrapNone (entry missing) — the entry is present: looked up just before (handle_pending) /
        loop invariant of move_to's node loop + no duplicate keys (tab_ok.tb_cn) — Union.nf_raw_remove, nf_move_loop, PendingHP.nfHP_raw_remove.
   369 alloc_eclass (group_new of no generators) — GroupSound.group_new_ok — AddS.nf_alloc_eclass; 373 unionfind_set c_id — c_id = lu s.
   378 touched_class — id in range — Union.nf_touched_class.
   390 pc_from_src_id (apply_slotmap of the identity on the slots of the syntactic node; pre_shape; find) — src in range (src_ok),
        syn_wf — Shape.pc_from_src_id_tot.   397-404 pc_congruence — only wshape + fresh draws — Base.nf_pc_congruence.
   -- union core --
   420 shrink_slots `mapr (index m_inv) cap` : SlotMapIndexMissing — cap ⊆ values (am from) = keys of the inverse (cap_ok; holds for the
        intersections built by union_leaders / handle_shrink: Union.cap_inter_ok) — Union.nf_shrink_pre.
   428/439 `index pp x`, pp a generator — grp_ok_generators: perm_on (c_slots c) pp, origcap ⊆ c_slots c.
   433 group_new of the restricted generators — restrict_perm_on + GroupSound.group_new_ok (no UnwrapNone in schreier, no fuel).
   441 recursive ui l r — both invocations cover the class (covers_identity, Union.moved_covers).
   446 move_to unionfind_set / 447,461,463 get_class / 465 upd_class — leaders in range.
   464 gadd_set / 483 gcontains / 485 gadd_set — grp_ok of the class + perm_on of the conjugated generators (conj_by_perm_on, quot_bij)
        — Union.gadd_set_tot, gcontains_tot.
   503-504 find_applied_id of union_internal_body — covers => in range.   510 union_internal 0 : OutOfFuel (fuel).
        => Union.nf_union_internal : forall fuel, ui_nf (union_internal fuel);  nf_uint, nf_shrink_slots_uint, nf_move_to, nf_union_leaders.
   -- rebuild side --
   518-523 handle_shrink_in_upwards_merge — Pending.nf_handle_shrink (pc_from_src_id_tot, find_enode on leaders, nf_shrink_slots_uint,
        lcanon of snd pc1: pc_props).
   527 pc_from_shape FIRST lookup : UnwrapNone (`.expect("handle_congruence should only be called on hashcons collision!")`) — the key
        looked up is the key that handle_pending has just hit: run invariant KS of SoundClosed.v (every stored key is nc-related to the
        syntactic node of its source; `shape` does not distinguish nc-related nodes) — Key.HC_key_eq, Key.HC_hit_proved.
   529/531 pc_from_shape get_class / SECOND lookup — tab_ok.tb_fwd; 532 pc_from_src_id of the stored source — src_ok.
   536-541 handle_congruence — Pending.nf_handle_congruence (covers of the two invocations: pcc_covers from inv3_pcc_uint).
   543-554 determine_self_symmetries — Pending.nf_determine_self_symmetries (loop invariant Jm E /\ ext).
   559 hp_loop 0 : OutOfFuel (fuel); 563-566 — Pending.nf_hp_loop.
   570 handle_pending `hashcons[sh]` : UnwrapNone — pend_ok: every pending key is a hashcons key (popped entry) — Inv.pend_ok_*.
   572/573 get_class i, `c.nodes[sh]` — tab_ok.tb_fwd.   575 apply_slotmap false bij0 sh : SlotMapIndexMissing — stored2 (the stored
        bijection is total on the public slots of its key) — Shape.stored_apply_tot.
   576-600 — PendingHP.nf_handle_pending (None branch: PendingNB.nf_hp_none; fill loop never fails: Shape.nf_fill_fresh).
   605 rebuild 0 : OutOfFuel (fuel); 607-613 — Pending.nf_rebuild (pop: Inv.pend_ok_pop; Pending.Jm_pop, Jm_handle_pending, Kx_handle_pending).
   -- insertion side --
   640-641 refresh_private (index of the fresh bijection) — Shape.refresh_private_tot.   642 apply_slotmap false (snd t) en — the public
        slots of the refreshed shape are keys of the shape bijection — Shape.shape_apply_tot'.   643 synify_enode — ids = leaders.
   622-633 mk_singleton_class — AddS.nf_mk_singleton; the state right before its rebuild satisfies Jm noex (AddS.Jm_before_rebuild) and
        Kx (AddK.Kx_new_walk_proved, = SoundRebuild.xi_new without its premise that add_internal succeeds).
   645 semify_app_id — new id in range.   661 add_expr `*(refs[i])` : OutOfBounds — twf: one child per position — AddE.nf_add_expr.
   run_ops (ModelMachine.v) nth_opt terms k / nth_opt handles i,j : OutOfBounds — ops_in_range (NECESSARY: AddE.run_ops_bad_add/_union).
   -- lower layers --
   SlotMap.v index : SlotMapIndexMissing — the sites above.  SlotMap.v inverse/compose/union/from_iter AssertFailed and Sig.v
        apply_slotmap AssertFailed : only under checks = true; the model is the default build (checks = false): dead.
   Group.v 55/80 build_ot_loop/gnew OutOfFuel, 71 schreier UnwrapNone — GroupSound.group_new_ok (no error at all for perm_on generators).
   Slot.v (Overflow / OutOfBounds / ExplicitPanic) : slot-name parsing/printing, not used by run_ops.
   -- fuel --  The ONLY error value left is OutOfFuel, and only from the three constants `union_internal ui_fuel` (400, recursion depth),
   `hp_loop 100` and `rebuild rebuild_fuel` (2000 worklist entries); find (209) and the group functions never exhaust theirs.
   NoErrorFuel.v (all closed): fuel monotonicity `*_fuel_mono` (f <= f' -> Ok at f -> same Ok at f'), `*_err_fuel` (a non-fuel error
   does not depend on the fuel), `*_fuel_indep` (the result does not depend on the fuel once it suffices), `*_ok_nfr`, `*_nfr_down`,
   for union_internal / hp_loop / rebuild.  The constants ARE exceeded by reachable, well-formed runs (the Rust loops are unbounded,
   so these are limits of the model, not panics): NoErrorFuelHp.hp_fuel_exceeded_reachable / NoErrorLimits.lim_out_of_fuel
   (two terms with 101 slots + one union: the merged class contains a node whose child is its own class and loses one slot per round
   of the hp_loop: 101 rounds), NoErrorFuelBig.rebuild_fuel_exceeded_reachable (1999 parents of one class + one union: 2001 rebuild
   rounds; 19 min of vm_compute, not in the default build), ui depth = slots + 1 on fully symmetric classes (NoErrorFuel
   ui_depth_linear_in_slots; 400 not reached computationally).  Hence NoErrorLimits.C08_no_error_static_false: "modulo fuel" cannot be
   dropped for the model with constant fuels.  NOT proved: termination of rebuild / hp_loop (existence, for every reachable state, of a
   sufficient fuel) - the measure argument that would be needed is stated in the report of the fuel analysis (rounds <= pending +
   (hashcons+1) * rank of the progress measure of ProgressFacts.v; needs strict decrease per hp_loop round, which the Rust loop also
   relies on without a guard).
   Error tags are not dead code: NoErrorFuel.v `err_*` (25 vm_compute examples on ill-formed input, one or more per tag used by the model).

   Files in build order: NoErrorBase, NoErrorKey, NoErrorShape, NoErrorInv, NoErrorUnion, NoErrorPendingSH, NoErrorPendingA,
   NoErrorPendingNB, NoErrorPendingHP, NoErrorPendingKx, NoErrorPending, NoErrorAddDef, NoErrorAddU, NoErrorAddS, NoErrorAddK,
   NoErrorAddE, NoErrorAdd, NoErrorTop, NoError, NoErrorFuel, NoErrorFuelHp, NoErrorLimits (+ NoErrorFuelBig, outside the default build). *)
From SE Require Import EGraph.Model EGraph.ModelFacts EGraph.ModelMachine EGraph.UnionFindFacts EGraph.UnionInvariantFacts
  EGraph.HashconsFacts EGraph.KidsFacts EGraph.RepFacts EGraph.OpsPreFacts
  EGraph.NoErrorBase EGraph.NoErrorKey EGraph.NoErrorUnion EGraph.NoErrorPending EGraph.NoErrorAddDef EGraph.NoErrorTop.
From SE Require EGraph.NoErrorPendingA EGraph.NoErrorPendingKx EGraph.NoErrorAdd.
Require Import ZArith Lia List.
Import ListNotations.

Local Notation ectr := Model.ctr.

(* ------------------------------------------------------------------ *)
(* 1. the interface of NoErrorAdd.v, instantiated *)

Definition NE_nf_eg_union := NoErrorAdd.nf_eg_union HC_hit_proved nf_uint nf_rebuild NoErrorPendingA.Jm_uint NoErrorPendingKx.Kx_uint.
Definition NE_B_eg_union := NoErrorAdd.B_eg_union Jm_rebuild Kx_rebuild NoErrorPendingA.Jm_uint NoErrorPendingKx.Kx_uint.
Definition NE_nf_eg_add := NoErrorAdd.nf_eg_add HC_hit_proved nf_rebuild.
Definition NE_B_eg_add := NoErrorAdd.B_eg_add Jm_rebuild Kx_rebuild.
Definition NE_nf_add_expr := NoErrorAdd.nf_add_expr HC_hit_proved nf_rebuild Jm_rebuild Kx_rebuild.
Definition NE_B_add_expr := NoErrorAdd.B_add_expr Jm_rebuild Kx_rebuild.
Definition NE_B_reachable := NoErrorAdd.B_reachable Jm_rebuild Kx_rebuild NoErrorPendingA.Jm_uint NoErrorPendingKx.Kx_uint.

(* ------------------------------------------------------------------ *)
(* 2. per operation *)

Theorem no_panic_union : forall l r s e, B s -> covers s l -> covers s r -> eg_union l r s = Err e -> is_fuel_error e.
Proof. intros l r s e HB Cl Cr H. exact (NE_nf_eg_union l r s HB Cl Cr e H). Qed.

Theorem no_panic_add : forall n s e, B s -> add_pre s n -> eg_add n s = Err e -> is_fuel_error e.
Proof. intros n s e HB P H. exact (NE_nf_eg_add n s HB P e H). Qed.

Theorem no_panic_add_expr : forall t s e, B s -> twf t -> rt_pre (ectr s) t -> add_expr t s = Err e -> is_fuel_error e.
Proof. intros t s e HB W R H. exact (NE_nf_add_expr t s HB W R e H). Qed.

Theorem no_panic_rebuild : forall fuel s e, Jm noex s -> Kx s -> rebuild fuel s = Err e -> is_fuel_error e.
Proof. intros fuel s e J K H. exact (nf_rebuild HC_hit_proved fuel s J K e H). Qed.

Theorem no_panic_handle_pending : forall sh ty s e, Jm (fun y => y = sh /\ ty = true) s -> Kx s ->
  na_get (pending s) sh = None -> (exists i, na_get (hashcons s) sh = Some i) ->
  handle_pending sh ty s = Err e -> is_fuel_error e.
Proof. intros sh ty s e J K P Hk H. exact (nf_handle_pending HC_hit_proved sh ty s J K P Hk e H). Qed.

Theorem no_panic_union_internal : forall fuel E l r s e, kinv s -> hce E s -> covers s l -> covers s r ->
  union_internal fuel l r s = Err e -> is_fuel_error e.
Proof. intros fuel E l r s e K Hc Cl Cr H. exact (nf_union_internal fuel E l r s K Hc Cl Cr e H). Qed.

(* the boundary invariant holds in every reachable state; the operations keep it *)
Theorem B_reachable_static : forall terms ops hs s, Forall term_static terms ->
  run_ops terms ops [] empty_egraph = Ok (hs, s) -> B s /\ Forall (covers s) hs.
Proof. exact NE_B_reachable. Qed.

Theorem B_kept_by_union : forall l r s b s', B s -> covers s l -> covers s r -> eg_union l r s = Ok (b, s') -> B s' /\ ext s s'.
Proof. exact NE_B_eg_union. Qed.

Theorem B_kept_by_add_expr : forall t s a s', B s -> twf t -> rt_pre (ectr s) t -> add_expr t s = Ok (a, s') ->
  B s' /\ ext0 s s' /\ covers s' a.
Proof. exact NE_B_add_expr. Qed.

(* ------------------------------------------------------------------ *)
(* 3. whole histories *)

Theorem no_panic_modulo_fuel : forall terms ops e, Forall term_static terms -> ops_in_range terms ops ->
  run_ops terms ops [] empty_egraph = Err e -> is_fuel_error e.
Proof.
  exact (no_panic_modulo_fuel_gen B NoErrorAdd.B_empty NE_nf_add_expr NE_B_add_expr NE_nf_eg_union NE_B_eg_union).
Qed.

(* the same from any reachable state on *)
Theorem no_panic_modulo_fuel_from : forall terms ops0 hs s ops e, Forall term_static terms ->
  run_ops terms ops0 [] empty_egraph = Ok (hs, s) ->
  ops_in_range_from (List.length terms) (List.length hs) ops ->
  run_ops terms ops hs s = Err e -> is_fuel_error e.
Proof.
  intros terms ops0 hs s ops e HT H0 HR H.
  destruct (NE_B_reachable terms ops0 hs s HT H0) as [HB Hc].
  apply (nf_run_ops B NE_nf_add_expr NE_B_add_expr NE_nf_eg_union NE_B_eg_union terms ops hs s HB Hc); [|exact HR|exact H].
  revert HT. apply Forall_impl. intros t Ht. split; [apply term_static_twf|apply term_static_rt_pre]; exact Ht.
Qed.

(* the boolean premises *)
Corollary no_panic_modulo_fuel_b : forall terms ops e, forallb term_staticb terms = true ->
  ops_in_range_fromb (List.length terms) 0 ops = true ->
  run_ops terms ops [] empty_egraph = Err e -> is_fuel_error e.
Proof.
  intros terms ops e HT HR. apply no_panic_modulo_fuel.
  - apply Forall_forall. intros t Hin. apply term_staticb_iff. exact (proj1 (forallb_forall _ _) HT t Hin).
  - apply ops_in_range_fromb_sound. exact HR.
Qed.

(* the statement `C08_no_error_full` of props/C08.v (no premise at all) is false *)
Theorem C08_no_error_full_false : ~ (forall terms ops, exists hs s, run_ops terms ops [] empty_egraph = Ok (hs, s)).
Proof. intros H. destruct (H [] [HAdd 0]) as (hs & s & E). cbn [run_ops nth_opt] in E. discriminate E. Qed.

(* the restricted statement holds as soon as the run does not exhaust the fuel constants of the model *)
Corollary ok_or_out_of_fuel : forall terms ops, Forall term_static terms -> ops_in_range terms ops ->
  (exists hs s, run_ops terms ops [] empty_egraph = Ok (hs, s)) \/ run_ops terms ops [] empty_egraph = Err OutOfFuel.
Proof.
  intros terms ops HT HR. destruct (run_ops terms ops [] empty_egraph) as [[hs s]|e] eqn:E.
  - left. exists hs, s. reflexivity.
  - right. rewrite (no_panic_modulo_fuel terms ops e HT HR E). reflexivity.
Qed.

Print Assumptions no_panic_union.
Print Assumptions no_panic_add.
Print Assumptions no_panic_add_expr.
Print Assumptions no_panic_rebuild.
Print Assumptions no_panic_handle_pending.
Print Assumptions no_panic_union_internal.
Print Assumptions B_reachable_static.
Print Assumptions no_panic_modulo_fuel.
Print Assumptions no_panic_modulo_fuel_from.
Print Assumptions no_panic_modulo_fuel_b.
Print Assumptions C08_no_error_full_false.
Print Assumptions ok_or_out_of_fuel.
