(* EGraph/NoErrorAdd.v — ERROR-FREEDOM (C08, panic-freedom half) of the public operations eg_union and
   eg_add / add_expr (with mk_singleton_class / add_internal) on the states at OPERATION BOUNDARIES.

   Build order: NoErrorAddDef.v (B, add_pre), NoErrorAddU.v (eg_union), NoErrorAddS.v (mk_singleton_class, add_internal,
   eg_add), NoErrorAddK.v (Kx before the rebuild of an insertion), NoErrorAddE.v (add_expr, run_ops, reachable states), NoErrorAdd.v (this file: the bundle).

   B s := Jm noex s /\ Kx s /\ pending s = [] /\ ctr s mod 4 = 1                         (NoErrorAddDef.v)
   add_pre s n := HashconsFacts.node_pre s n /\ KidsFacts.slots_pre s n                  (NoErrorAddDef.v)
     (node_pre alone is NOT the premise of the existing KidsFacts.kinv_eg_add: kids_ok of the new state needs that ALL
      slot occurrences of the node - binders and invocation values included - are below the counter or not 1 mod 4.)

   Section hypotheses (interface statements whose .vo did not exist / was not complete when this was built):
   HC_hit, nf_uint, nf_rebuild, Jm_rebuild, Kx_rebuild, Jm_uint, Kx_uint  (verbatim from NOERR_INTERFACE.txt + the Kx update)
   Kx of the state right before the rebuild of an insertion (= SoundRebuild.xi_new for SoundClosed.xinv_closed + mod4_ok,
   WITHOUT xi_new's premise that the whole add_internal succeeds) is proved in NoErrorAddK.v (Kx_new_walk_proved). *)
From SE Require Import Slots.SlotMapFacts Group.GroupSound Lang.LangFacts Lang.ShapeFacts Lang.RenameFacts
  EGraph.Model EGraph.ModelFacts EGraph.ModelMachine EGraph.UnionFindFacts EGraph.InvariantFacts
  EGraph.UnionInvariantFacts EGraph.AddCoversFacts EGraph.Mod4Facts EGraph.MatchDefs EGraph.HashconsFacts
  EGraph.KidsFacts EGraph.SoundFacts EGraph.SoundSyn EGraph.SoundUnion EGraph.SoundStruct EGraph.UsesConvDef
  EGraph.SoundAddNew EGraph.SoundClosed EGraph.RepFacts EGraph.OpsPreFacts
  EGraph.NoErrorBase EGraph.NoErrorShape EGraph.NoErrorInv EGraph.NoErrorAddDef.
From SE Require EGraph.NoErrorAddU EGraph.NoErrorAddS EGraph.NoErrorAddK EGraph.NoErrorAddE.
Require Import ZArith Lia List.
Import ListNotations.

Local Notation ectr := Model.ctr.

Section Interface.
  Hypothesis HC : HC_hit.
  Hypothesis nf_uint : ui_nf uint.
  Hypothesis nf_rebuild : HC_hit -> forall fuel s, Jm noex s -> Kx s -> nf (rebuild fuel) s.
  Hypothesis Jm_rebuild : forall fuel s x s', Jm noex s -> rebuild fuel s = Ok (x, s') -> Jm noex s' /\ pending s' = [] /\ ext s s'.
  Hypothesis Kx_rebuild : forall fuel s x s', Jm noex s -> Kx s -> rebuild fuel s = Ok (x, s') -> Kx s'.
  Hypothesis Jm_uint : forall E l r s b s', Jm E s -> covers s l -> covers s r -> uint l r s = Ok (b, s') -> Jm E s' /\ ext s s'.
  Hypothesis Kx_uint : forall E l r s b s', Jm E s -> Kx s -> covers s l -> covers s r -> uint l r s = Ok (b, s') -> Kx s'.
  Let Kx_new_walk := NoErrorAddK.Kx_new_walk_proved.

  Theorem nf_eg_union : forall l r s, B s -> covers s l -> covers s r -> nf (eg_union l r) s.
  Proof. exact (NoErrorAddU.nf_eg_union HC nf_synify_app_id nf_uint nf_rebuild Kx_uint Jm_uint). Qed.

  Theorem B_eg_union : forall l r s b s', B s -> covers s l -> covers s r -> eg_union l r s = Ok (b, s') -> B s' /\ ext s s'.
  Proof. exact (NoErrorAddU.B_eg_union Kx_rebuild Kx_uint Jm_rebuild Jm_uint). Qed.

  Theorem nf_mk_singleton : forall en s, Jm noex s -> pending s = [] ->
    Forall (fun b => b < ectr s) (binders en) -> Forall (kid_ok s) (app_occ en) -> Forall (kid_total s) (app_occ en) ->
    NoErrorAddS.shape_absent en s -> NoErrorAddS.kx_walk en s -> nf (mk_singleton_class en) s.
  Proof. exact (NoErrorAddS.nf_mk_singleton HC nf_rebuild). Qed.

  Theorem nf_add_internal : forall n p t s, B s -> add_pre s n -> pre_shape s n = Ok p -> wshape p = Ok t ->
    nf (add_internal t) s.
  Proof. exact (NoErrorAddS.nf_add_internal HC nf_rebuild Kx_new_walk). Qed.

  Theorem nf_eg_add : forall n s, B s -> add_pre s n -> nf (eg_add n) s.
  Proof. exact (NoErrorAddS.nf_eg_add HC nf_rebuild Kx_new_walk). Qed.

  Theorem B_eg_add : forall n s a s', B s -> add_pre s n -> eg_add n s = Ok (a, s') ->
    B s' /\ ext0 s s' /\ covers s' a /\ vpre_in (ectr s') (am a).
  Proof. exact (NoErrorAddS.B_eg_add Jm_rebuild Kx_rebuild Kx_new_walk). Qed.

  Theorem nf_add_expr : forall t s, B s -> twf t -> rt_pre (ectr s) t -> nf (add_expr t) s.
  Proof. exact (NoErrorAddE.nf_add_expr nf_eg_add B_eg_add). Qed.

  Theorem B_add_expr : forall t s a s', B s -> twf t -> rt_pre (ectr s) t -> add_expr t s = Ok (a, s') ->
    B s' /\ ext0 s s' /\ covers s' a.
  Proof.
    intros t s a s' Bs W R H. destruct (NoErrorAddE.B_add_expr B_eg_add t s a s' Bs W R H) as (A1 & A2 & A3 & _).
    split; [exact A1|]. split; [exact A2|exact A3].
  Qed.

  (* the same with the value bound on the returned handle (what the next insertion needs) *)
  Theorem B_add_expr_inv_ok : forall t s a s', B s -> twf t -> rt_pre (ectr s) t -> add_expr t s = Ok (a, s') ->
    B s' /\ ext0 s s' /\ inv_ok s' a.
  Proof. exact (NoErrorAddE.B_add_expr B_eg_add). Qed.

  Theorem B_empty : B empty_egraph.
  Proof. exact (NoErrorAddE.B_empty src_ok_empty pend_ok_nil). Qed.

  Theorem B_run_ops : forall terms ops hs s hs' s', B s -> Forall (covers s) hs ->
    Forall (fun t => twf t /\ rt_pre (ectr s) t) terms -> run_ops terms ops hs s = Ok (hs', s') ->
    B s' /\ Forall (covers s') hs' /\ ectr s <= ectr s'.
  Proof. exact (NoErrorAddE.B_run_ops B_eg_add B_eg_union). Qed.

  Theorem B_reachable : forall terms ops hs s, Forall term_static terms ->
    run_ops terms ops [] empty_egraph = Ok (hs, s) -> B s /\ Forall (covers s) hs.
  Proof. exact (NoErrorAddE.B_reachable B_eg_add B_eg_union src_ok_empty pend_ok_nil). Qed.

  (* bonus: whole histories.  An out-of-range term / handle index of a history is `Err OutOfBounds` in run_ops
     (NoErrorAddE.run_ops_bad_add / run_ops_bad_union), hence the index premise ops_idx. *)
  Theorem nf_run_ops : forall terms ops hs s, B s -> Forall (covers s) hs ->
    Forall (fun t => twf t /\ rt_pre (ectr s) t) terms -> NoErrorAddE.ops_idx (List.length terms) (List.length hs) ops ->
    nf (run_ops terms ops hs) s.
  Proof. exact (NoErrorAddE.nf_run_ops nf_eg_add B_eg_add nf_eg_union B_eg_union). Qed.

  Theorem nf_reachable_run : forall terms ops, Forall term_static terms -> NoErrorAddE.ops_idx (List.length terms) 0 ops ->
    nf (run_ops terms ops []) empty_egraph.
  Proof. exact (NoErrorAddE.nf_reachable_run nf_eg_add B_eg_add nf_eg_union B_eg_union src_ok_empty pend_ok_nil). Qed.
End Interface.

Print Assumptions B_reachable.
Print Assumptions nf_eg_union.
Print Assumptions B_eg_union.
Print Assumptions nf_eg_add.
Print Assumptions B_eg_add.
Print Assumptions nf_add_expr.
Print Assumptions B_add_expr.
Print Assumptions nf_run_ops.
Print Assumptions nf_reachable_run.
