(* EGraph/NoErrorAddDef.v — shared definitions of the work package ADD (NoErrorAdd*.v):
   the invariant at OPERATION BOUNDARIES and the premise of eg_add. *)
From SE Require Import Slots.SlotMapFacts Group.GroupSound Lang.LangFacts Lang.ShapeFacts
  EGraph.Model EGraph.ModelFacts EGraph.ModelMachine EGraph.UnionFindFacts EGraph.InvariantFacts
  EGraph.UnionInvariantFacts EGraph.AddCoversFacts EGraph.Mod4Facts EGraph.MatchDefs EGraph.HashconsFacts
  EGraph.KidsFacts EGraph.SoundFacts EGraph.SoundSyn EGraph.SoundUnion EGraph.SoundStruct EGraph.UsesConvDef EGraph.SoundClosed
  EGraph.NoErrorBase.
Require Import ZArith Lia List.
Import ListNotations.

(* the invariant at operation boundaries *)
Definition B (s : egraph) : Prop := Jm noex s /\ Kx s /\ pending s = [] /\ Model.ctr s mod 4 = 1.

(* the premise of eg_add: HashconsFacts.node_pre (children covered, public slots below the counter or not 1 mod 4,
   NoDup binders) + KidsFacts.slots_pre (ALL slot occurrences, binders and invocation values included, are below the
   counter or not 1 mod 4: the premise of KidsFacts.kinv_eg_add) *)
Definition add_pre (s : egraph) (n : node) : Prop := node_pre s n /\ slots_pre s n.

Lemma B_Jm : forall s, B s -> Jm noex s.
Proof. intros s H. exact (proj1 H). Qed.
Lemma B_Kx : forall s, B s -> Kx s.
Proof. intros s H. exact (proj1 (proj2 H)). Qed.
Lemma B_pending : forall s, B s -> pending s = [].
Proof. intros s H. exact (proj1 (proj2 (proj2 H))). Qed.
Lemma B_ctr : forall s, B s -> Model.ctr s mod 4 = 1.
Proof. intros s H. exact (proj2 (proj2 (proj2 H))). Qed.
Lemma B_intro : forall s, Jm noex s -> Kx s -> pending s = [] -> Model.ctr s mod 4 = 1 -> B s.
Proof. intros s H1 H2 H3 H4. split; [exact H1|]. split; [exact H2|]. split; [exact H3|exact H4]. Qed.
Lemma B_kinv : forall s, B s -> kinv s.
Proof. intros s H. exact (jm_kinv _ _ (proj1 H)). Qed.
