(* EGraph/NoErrorAddE.v — ERROR-FREEDOM (C08, panic-freedom half), work package ADD, part E:
   add_expr, run_ops and the reachable states, from the interface of eg_add / eg_union.

   `B s` (NoErrorAddDef.v) is the invariant at operation boundaries.  Given (Section Interface) that eg_add and
   eg_union have no non-fuel error on a `B` state and re-establish `B`:
   - B_add_expr / nf_add_expr : add_expr keeps B and has no non-fuel error (terms: twf + rt_pre);
   - B_empty, B_run_ops, B_reachable;
   - nf_run_ops / nf_reachable_run : a history has no non-fuel error PROVIDED its indices are in range
     (`ops_idx`): run_ops returns `Err OutOfBounds` on an `HAdd k` with k >= length terms and on an
     `HUnion i j` with i or j >= the number of handles so far (`run_ops_bad_add`, `run_ops_bad_union`). *)
From SE Require Import Slots.SlotMapFacts Group.GroupSound Lang.LangFacts Lang.ShapeFacts Lang.RenameFacts
  Base.TextFacts EGraph.Model EGraph.ModelFacts EGraph.ModelMachine EGraph.UnionFindFacts EGraph.InvariantFacts
  EGraph.UnionInvariantFacts EGraph.AddCoversFacts EGraph.Mod4Facts EGraph.MatchDefs EGraph.HashconsShape EGraph.HashconsAbs
  EGraph.SoundFacts EGraph.SoundAddExpr EGraph.SoundMachine EGraph.SoundClosed
  EGraph.Model9 EGraph.HashconsFacts EGraph.KidsFacts EGraph.NodeCong EGraph.KidEqFacts EGraph.CongruenceFacts EGraph.RepFacts
  EGraph.SelfSymDefs EGraph.SelfSymFacts EGraph.MatchReprFacts EGraph.OpsPreFacts
  EGraph.SoundSyn EGraph.SoundUnion EGraph.SoundStruct EGraph.UsesConvDef EGraph.UsesConv
  EGraph.NoErrorBase EGraph.NoErrorAddDef.
From SE Require EGraph.SoundReadd EGraph.SynNodup EGraph.KidsCov.
Require Import ZArith Lia ZifyBool ZifyN ZifyNat List.
Import ListNotations.

Local Notation ectr := Model.ctr.

(* the indices of a history are in range: nt = number of terms, nh = number of handles so far *)
Fixpoint ops_idx (nt nh : nat) (ops : list hop) : Prop :=
  match ops with
  | [] => True
  | HAdd k :: t => (k < nt)%nat /\ ops_idx nt (S nh) t
  | HUnion i j _ :: t => (i < nh)%nat /\ (j < nh)%nat /\ ops_idx nt nh t
  end.

(* what run_ops does on an index out of range: a NON-fuel error *)
Lemma run_ops_bad_add : forall terms k t hs s, (List.length terms <= k)%nat ->
  run_ops terms (HAdd k :: t) hs s = Err OutOfBounds.
Proof. intros terms k t hs s L. cbn [run_ops]. rewrite nth_opt_none_ge by exact L. reflexivity. Qed.

Lemma run_ops_bad_union : forall terms i j just t hs s, (List.length hs <= i)%nat \/ (List.length hs <= j)%nat ->
  run_ops terms (HUnion i j just :: t) hs s = Err OutOfBounds.
Proof.
  intros terms i j just t hs s [L|L]; cbn [run_ops].
  - rewrite (nth_opt_none_ge hs i) by exact L. reflexivity.
  - rewrite (nth_opt_none_ge hs j) by exact L. destruct (nth_opt hs i); reflexivity.
Qed.

Section Interface.
  Hypothesis nf_eg_add : forall n s, B s -> add_pre s n -> nf (eg_add n) s.
  Hypothesis B_eg_add : forall n s a s', B s -> add_pre s n -> eg_add n s = Ok (a, s') ->
    B s' /\ ext0 s s' /\ covers s' a /\ vpre_in (ectr s') (am a).
  Hypothesis nf_eg_union : forall l r s, B s -> covers s l -> covers s r -> nf (eg_union l r) s.
  Hypothesis B_eg_union : forall l r s b s', B s -> covers s l -> covers s r -> eg_union l r s = Ok (b, s') ->
    B s' /\ ext s s'.
  Hypothesis src_ok_empty : src_ok empty_egraph.
  Hypothesis pend_ok_nil : forall s, pending s = [] -> pend_ok s.

  (* the premise of eg_add for the node handed over after the children loop *)
  Lemma add_pre_set_apps : forall n (ch : list rterm) s s1 l, NoDup (binders n) -> List.length ch = List.length (app_occ n) ->
    (forall x, In x (all_occ n) -> x < ectr s \/ x mod 4 <> 1) ->
    ext0 s s1 -> Forall (inv_ok s1) l -> List.length l = List.length ch -> add_pre s1 (set_apps n l).
  Proof using. clear nf_eg_add B_eg_add nf_eg_union B_eg_union src_ok_empty pend_ok_nil.
    intros n ch s s1 l ND Len RPn E1 L1 Len1.
    assert (SP : slots_pre s1 (set_apps n l)).
    { intros y Hy. unfold all_occ, set_apps in Hy. cbn [nargs] in Hy. apply set_apps_args_all in Hy.
      destruct Hy as [Hy|(z & Hz & Hy)].
      - destruct (RPn y Hy) as [A|A]; [left; destruct E1 as [L _]; lia|right; exact A].
      - destruct (proj1 (Forall_forall _ _) L1 z Hz) as [_ Vz]. exact (Vz y Hy). }
    split; [|exact SP]. split; [|split].
    - rewrite app_occ_set_apps by lia. revert L1. apply Forall_impl. intros y [Cy _]. exact Cy.
    - intros y Hy. apply pub_in_all in Hy. exact (SP y Hy).
    - rewrite binders_set_apps'. exact ND.
  Qed.

  Theorem B_add_expr : forall t s a s', B s -> twf t -> rt_pre (ectr s) t ->
    add_expr t s = Ok (a, s') -> B s' /\ ext0 s s' /\ inv_ok s' a.
  Proof using B_eg_add. clear nf_eg_add nf_eg_union B_eg_union src_ok_empty pend_ok_nil.
    fix IH 1. intros [n ch] s a s' Hb TW RP H. rewrite add_expr_unfold in H.
    apply twf_iff in TW. destruct TW as (ND & Len & TWc). apply rt_pre_iff in RP. destruct RP as [RPn RPc].
    apply mbind_inv in H. destruct H as (l & s1 & Hgo & H).
    assert (G : B s1 /\ ext0 s s1 /\ Forall (inv_ok s1) l /\ List.length l = List.length ch).
    { clear H Len RPn. revert s l s1 Hb RPc Hgo. induction ch as [|c r IHr]; intros s l s1 Hb RPc Hgo; cbn [add_children] in Hgo.
      - inversion Hgo; subst. split; [assumption|]. split; [apply ext0_refl|]. split; [constructor|reflexivity].
      - apply mbind_inv in Hgo. destruct Hgo as (a0 & s2 & Ha & Hgo).
        apply mbind_inv in Hgo. destruct Hgo as (r0 & s3 & Hr & Hgo). inversion Hgo; subst l s3; clear Hgo.
        destruct (IH c s a0 s2 Hb (Forall_inv TWc) (Forall_inv RPc) Ha) as (K2 & E2 & A0).
        destruct (IHr (Forall_inv_tail TWc) s2 r0 s1 K2) as (K3 & E3 & R0 & L0); [|exact Hr|].
        + apply Forall_inv_tail in RPc. revert RPc. apply Forall_impl. intros c0. apply rt_pre_mono. exact (proj1 E2).
        + split; [exact K3|]. split; [eapply ext0_trans; eauto|]. split; [|cbn [List.length]; lia].
          constructor; [eapply inv_ok_ext0; eauto|exact R0]. }
    destruct G as (K1 & E1 & L1 & Len1).
    destruct (Nat.ltb _ _); [discriminate|].
    destruct (B_eg_add (set_apps n l) s1 a s' K1) as (K2 & E2 & C2 & V2); [|exact H|].
    - eapply add_pre_set_apps; eauto.
    - split; [exact K2|]. split; [eapply ext0_trans; eauto|]. split; assumption.
  Qed.

  (* the children loop *)
  Lemma B_add_children : forall ch s l s1, B s -> Forall twf ch -> Forall (rt_pre (ectr s)) ch ->
    add_children ch s = Ok (l, s1) ->
    B s1 /\ ext0 s s1 /\ Forall (inv_ok s1) l /\ List.length l = List.length ch.
  Proof using B_eg_add. clear nf_eg_add nf_eg_union B_eg_union src_ok_empty pend_ok_nil.
    induction ch as [|c r IHr]; intros s l s1 Hb TWc RPc Hgo; cbn [add_children] in Hgo.
    - inversion Hgo; subst. split; [assumption|]. split; [apply ext0_refl|]. split; [constructor|reflexivity].
    - apply mbind_inv in Hgo. destruct Hgo as (a0 & s2 & Ha & Hgo).
      apply mbind_inv in Hgo. destruct Hgo as (r0 & s3 & Hr & Hgo). inversion Hgo; subst l s3; clear Hgo.
      destruct (B_add_expr c s a0 s2 Hb (Forall_inv TWc) (Forall_inv RPc) Ha) as (K2 & E2 & A0).
      destruct (IHr s2 r0 s1 K2 (Forall_inv_tail TWc)) as (K3 & E3 & R0 & L0); [|exact Hr|].
      + apply Forall_inv_tail in RPc. revert RPc. apply Forall_impl. intros c0. apply rt_pre_mono. exact (proj1 E2).
      + split; [exact K3|]. split; [eapply ext0_trans; eauto|]. split; [|cbn [List.length]; lia].
        constructor; [eapply inv_ok_ext0; eauto|exact R0].
  Qed.

  Theorem nf_add_expr : forall t s, B s -> twf t -> rt_pre (ectr s) t -> nf (add_expr t) s.
  Proof using nf_eg_add B_eg_add. clear nf_eg_union B_eg_union src_ok_empty pend_ok_nil.
    fix IH 1. intros [n ch] s Hb TW RP. rewrite add_expr_unfold.
    apply twf_iff in TW. destruct TW as (ND & Len & TWc). apply rt_pre_iff in RP. destruct RP as [RPn RPc].
    apply nf_bind.
    - clear Len RPn ND. revert s Hb RPc. induction ch as [|c r IHr]; intros s Hb RPc; cbn [add_children]; [apply nf_ret|].
      apply nf_bind; [exact (IH c s Hb (Forall_inv TWc) (Forall_inv RPc))|]. intros a0 s2 Ha.
      destruct (B_add_expr c s a0 s2 Hb (Forall_inv TWc) (Forall_inv RPc) Ha) as (K2 & E2 & _).
      apply nf_bind; [|intros; apply nf_ret].
      apply (IHr (Forall_inv_tail TWc) s2 K2).
      apply Forall_inv_tail in RPc. revert RPc. apply Forall_impl. intros c0. apply rt_pre_mono. exact (proj1 E2).
    - intros l s1 Hgo.
      destruct (B_add_children ch s l s1 Hb TWc RPc Hgo) as (K1 & E1 & L1 & Len1).
      destruct (Nat.ltb (List.length (app_occ n)) (List.length l)) eqn:Elt.
      + apply Nat.ltb_lt in Elt. lia.
      + apply nf_eg_add; [exact K1|]. eapply add_pre_set_apps; eauto.
  Qed.

  Lemma Kx_empty : Kx empty_egraph.
  Proof using. clear nf_eg_add B_eg_add nf_eg_union B_eg_union src_ok_empty pend_ok_nil.
    split; [exact mod4_ok_empty|]. split.
    - split; [exact SoundReadd.syn_cov_empty|exact SynNodup.SN_empty].
    - split; [exact KidsCov.kids_cov_empty|]. split; [exact stored2_empty|exact KS_empty].
  Qed.

  Theorem B_empty : B empty_egraph.
  Proof using src_ok_empty pend_ok_nil. clear nf_eg_add B_eg_add nf_eg_union B_eg_union.
    apply B_intro; [|exact Kx_empty|reflexivity|reflexivity].
    constructor.
    - exact kinv_empty.
    - exact hc_ok_empty.
    - exact uses_conv_empty.
    - exact stored2_empty.
    - exact syn_wf_empty.
    - exact src_ok_empty.
    - apply pend_ok_nil. reflexivity.
  Qed.

  Theorem B_run_ops : forall terms ops hs s hs' s', B s -> Forall (covers s) hs ->
    Forall (fun t => twf t /\ rt_pre (ectr s) t) terms ->
    run_ops terms ops hs s = Ok (hs', s') -> B s' /\ Forall (covers s') hs' /\ ectr s <= ectr s'.
  Proof using B_eg_add B_eg_union. clear nf_eg_add nf_eg_union src_ok_empty pend_ok_nil.
    intros terms. induction ops as [|o t IH]; intros hs s hs' s' Hk Hc HT H; cbn [run_ops] in H.
    - inversion H; subst. split; [assumption|]. split; [assumption|lia].
    - destruct o as [k|i j just].
      + destruct (nth_opt terms k) as [tm|] eqn:Ek; [|discriminate].
        apply mbind_inv in H. destruct H as (a & s1 & H1 & H).
        destruct (proj1 (Forall_forall _ _) HT tm (nth_opt_In _ _ _ Ek)) as [WF RP].
        destruct (B_add_expr tm s a s1 Hk WF RP H1) as (K1 & E01 & Ca).
        destruct (IH (hs ++ [a]) s1 hs' s' K1) as (K' & C' & L'); [| |exact H|].
        * apply Forall_app. split; [|constructor; [exact (proj1 Ca)|constructor]].
          revert Hc. apply Forall_impl. intros x. apply covers_ext0. assumption.
        * revert HT. apply Forall_impl. intros t0 [A A']. split; [exact A|]. eapply rt_pre_mono; [exact (proj1 E01)|exact A'].
        * split; [exact K'|]. split; [exact C'|]. destruct E01 as [L _]. lia.
      + destruct (nth_opt hs i) as [a|] eqn:Ei; [|discriminate]. destruct (nth_opt hs j) as [b|] eqn:Ej; [|discriminate].
        apply mbind_inv in H. destruct H as (u & s1 & H1 & H).
        pose proof (proj1 (Forall_forall _ _) Hc a (nth_opt_In _ _ _ Ei)) as Ca.
        pose proof (proj1 (Forall_forall _ _) Hc b (nth_opt_In _ _ _ Ej)) as Cb.
        destruct (B_eg_union a b s u s1 Hk Ca Cb H1) as [K1 E1].
        destruct (IH hs s1 hs' s' K1) as (K' & C' & L'); [| |exact H|].
        * revert Hc. apply Forall_impl. intros x. apply covers_ext. assumption.
        * revert HT. apply Forall_impl. intros t0 [A A']. split; [exact A|]. eapply rt_pre_mono; [exact (proj1 E1)|exact A'].
        * split; [exact K'|]. split; [exact C'|]. destruct E1 as [L _]. lia.
  Qed.

  Lemma static_terms : forall terms, Forall term_static terms ->
    Forall (fun t => twf t /\ rt_pre (ectr empty_egraph) t) terms.
  Proof using. clear nf_eg_add B_eg_add nf_eg_union B_eg_union src_ok_empty pend_ok_nil. intros terms. apply Forall_impl. intros t Ht. apply term_static_parts in Ht. exact Ht. Qed.

  Theorem B_reachable : forall terms ops hs s, Forall term_static terms ->
    run_ops terms ops [] empty_egraph = Ok (hs, s) -> B s /\ Forall (covers s) hs.
  Proof using B_eg_add B_eg_union src_ok_empty pend_ok_nil. clear nf_eg_add nf_eg_union.
    intros terms ops hs s HT H.
    destruct (B_run_ops terms ops [] empty_egraph hs s B_empty (Forall_nil _) (static_terms _ HT) H) as (A & C & _). auto.
  Qed.

  Theorem nf_run_ops : forall terms ops hs s, B s -> Forall (covers s) hs ->
    Forall (fun t => twf t /\ rt_pre (ectr s) t) terms -> ops_idx (List.length terms) (List.length hs) ops ->
    nf (run_ops terms ops hs) s.
  Proof using nf_eg_add B_eg_add nf_eg_union B_eg_union. clear src_ok_empty pend_ok_nil.
    intros terms. induction ops as [|o t IH]; intros hs s Hk Hc HT HI; cbn [run_ops]; [apply nf_ret|].
    cbn [ops_idx] in HI. destruct o as [k|i j just].
    - destruct HI as [Lk HI]. destruct (nth_opt_some_lt terms k Lk) as [tm Ek]. rewrite Ek.
      destruct (proj1 (Forall_forall _ _) HT tm (nth_opt_In _ _ _ Ek)) as [WF RP].
      apply nf_bind; [exact (nf_add_expr tm s Hk WF RP)|]. intros a s1 H1.
      destruct (B_add_expr tm s a s1 Hk WF RP H1) as (K1 & E01 & Ca).
      apply IH; [exact K1| | |].
      + apply Forall_app. split; [|constructor; [exact (proj1 Ca)|constructor]].
        revert Hc. apply Forall_impl. intros x. apply covers_ext0. assumption.
      + revert HT. apply Forall_impl. intros t0 [A A']. split; [exact A|]. eapply rt_pre_mono; [exact (proj1 E01)|exact A'].
      + rewrite app_length. cbn [List.length]. replace (List.length hs + 1)%nat with (S (List.length hs)) by lia. exact HI.
    - destruct HI as (Li & Lj & HI).
      destruct (nth_opt_some_lt hs i Li) as [a Ei]. destruct (nth_opt_some_lt hs j Lj) as [b Ej]. rewrite Ei, Ej.
      pose proof (proj1 (Forall_forall _ _) Hc a (nth_opt_In _ _ _ Ei)) as Ca.
      pose proof (proj1 (Forall_forall _ _) Hc b (nth_opt_In _ _ _ Ej)) as Cb.
      apply nf_bind; [exact (nf_eg_union a b s Hk Ca Cb)|]. intros u s1 H1.
      destruct (B_eg_union a b s u s1 Hk Ca Cb H1) as [K1 E1].
      apply IH; [exact K1| | |exact HI].
      + revert Hc. apply Forall_impl. intros x. apply covers_ext. assumption.
      + revert HT. apply Forall_impl. intros t0 [A A']. split; [exact A|]. eapply rt_pre_mono; [exact (proj1 E1)|exact A'].
  Qed.

  Theorem nf_reachable_run : forall terms ops, Forall term_static terms -> ops_idx (List.length terms) 0 ops ->
    nf (run_ops terms ops []) empty_egraph.
  Proof using nf_eg_add B_eg_add nf_eg_union B_eg_union src_ok_empty pend_ok_nil.
    intros terms ops HT HI. exact (nf_run_ops terms ops [] empty_egraph B_empty (Forall_nil _) (static_terms _ HT) HI).
  Qed.
End Interface.

Print Assumptions run_ops_bad_add.
Print Assumptions run_ops_bad_union.
Print Assumptions B_add_expr.
Print Assumptions nf_add_expr.
Print Assumptions B_empty.
Print Assumptions B_run_ops.
Print Assumptions B_reachable.
Print Assumptions nf_run_ops.
Print Assumptions nf_reachable_run.
