(* EGraph/NoErrorAddK.v — Kx (mod4_ok /\ SC2 /\ KC2) of the state right before the rebuild of an insertion, from the walk
   `new_walk` alone (SoundFinal.cov_pre_rebuild / SoundClosed.xinv_closed.xi_new WITHOUT the premise that add_internal succeeds). *)
From SE Require Import Slots.SlotMapFacts Group.GroupSound Lang.LangFacts Lang.ShapeFacts Lang.RenameFacts
  EGraph.Model EGraph.ModelFacts EGraph.ModelMachine EGraph.UnionFindFacts EGraph.InvariantFacts
  EGraph.UnionInvariantFacts EGraph.AddCoversFacts EGraph.MonotoneFacts EGraph.SoundFacts EGraph.SoundUnion EGraph.SoundSyn EGraph.SoundNode EGraph.SoundStruct EGraph.NodePass EGraph.SoundBase EGraph.SoundAddNew EGraph.SoundVals EGraph.SoundAddExpr EGraph.SoundPending.
From SE Require Import EGraph.SoundReadd EGraph.KidsCov EGraph.SoundRebuild EGraph.SynNodup EGraph.SoundClosed.
From SE Require Import EGraph.Mod4Facts EGraph.MatchDefs EGraph.HashconsFacts EGraph.KidsFacts EGraph.UsesConvDef EGraph.NoErrorBase EGraph.NoErrorAddDef.
Require Import ZArith Lia ZifyBool ZifyN ZifyNat List.
Import ListNotations.

Local Notation inv := inverse_nocheck.
Local Notation ectr := Model.ctr.

(* SoundAddNew.mk_singleton_walk stopped before the rebuild *)
Lemma walk_inv3 : forall en s f2o c2 synf i s3 sh bij s4 s5, inv3 s -> Forall (fun b => b < ectr s) (binders en) ->
  bijection_from_fresh_to (slots en) (ectr s) = (f2o, c2) ->
  apply_slotmap_fresh false (inv f2o) en c2 = (synf, c2) ->
  alloc_eclass (values (inv f2o)) synf (set_ctr (set_ctr s c2) c2) = Ok (i, s3) ->
  wshape synf = Ok (sh, bij) -> raw_add_to_class i (sh, bij) i s3 = Ok (tt, s4) -> pending_insert sh true s4 = Ok (tt, s5) ->
  inv3 s3 /\ ext0 (set_ctr (set_ctr s c2) c2) s3 /\ ext s3 s4 /\ ext s4 s5.
Proof.
  intros en s f2o c2 synf i s3 sh bij s4 s5 I3 Hb BF ASF H3 Ht H4 H5.
  pose proof (fresh_rename_spec en (ectr s) f2o c2 Hb BF) as R. cbv zeta in R. rewrite ASF in R. cbn [fst snd] in R.
  destruct (bff_props _ _ _ _ (slots_sorted en) BF) as [Wf2o If2o].
  destruct R as (_ & _ & Bi & Sl & _ & Pb & _).
  pose proof (bijection_from_fresh_to_step (slots en) (ectr s)) as St. rewrite BF in St. cbn [snd] in St. apply ctr_step_le in St.
  set (s2 := set_ctr (set_ctr s c2) c2) in *.
  assert (S02 : semR s s2).
  { split; [|unfold s2; cbn [Model.ctr set_ctr]; lia]. split; reflexivity. }
  destruct (semn_step3 _ _ S02 (nsame_classes s s2 eq_refl) I3) as [I2 E02].
  pose proof (alloc_eclass_exact _ _ _ _ _ H3) as (Hi & U & C & _ & _ & Ct).
  assert (S3 : inv3 s3 /\ ext0 s2 s3).
  { destruct I2 as [[[Hok Hsl HC] Hbl] HN].
    assert (Wsl : swf (values (inv f2o))) by apply sset_of_list_spec.
    split; [split; [split|]|].
    - constructor.
      + exact (uf_ok_alloc_eclass _ _ _ _ _ H3 Hok).
      + eapply uf_slots_ok_alloc_eclass; [exact Hok|exact Hsl|exact Wsl|exact Sl|exact H3].
      + intros j c Hc. apply (get_class_ext_inv s2 s3 _ C) in Hc. destruct Hc as [Hc|[_ ->]]; [eapply HC; eauto|].
        split; [exact Wsl|]. split.
        * apply class_flat_grp_ok. unfold class_flat. cbn [c_slots c_group c_syn]. auto.
        * cbn [c_slots c_syn]. rewrite Sl. apply incl_refl.
    - intros j c x Hc Hx. rewrite Ct. apply (get_class_ext_inv s2 s3 _ C) in Hc. destruct Hc as [Hc|[_ ->]]; [eapply Hbl; eauto|].
      cbn [c_syn] in Hx. unfold s2. cbn [Model.ctr set_ctr].
      apply (Permutation.Permutation_in _ (occ_partition synf)) in Hx. apply in_app_or in Hx. destruct Hx as [Hx|Hx].
      + apply Pb in Hx. lia.
      + apply prv_binders in Hx. rewrite Bi in Hx. pose proof (proj1 (Forall_forall _ _) Hb x Hx) as T. cbv beta in T. lia.
    - intros j c e Hc He. apply (get_class_ext_inv s2 s3 _ C) in Hc. destruct Hc as [Hc|[_ ->]]; [eapply HN; eauto|].
      cbn [c_nodes] in He. contradiction.
    - split; [rewrite Ct; lia|]. intros j c Hc. exists c. split; [eapply get_class_ext_old; eauto|].
      split; [apply incl_refl|reflexivity]. }
  destruct S3 as [I3' E23].
  pose proof (get_class_ext_new s2 s3 _ C) as Hnew.
  assert (Ei : i = N.of_nat (lc s2)).
  { rewrite Hi. f_equal. exact (uso_wf _ (ei_slots _ (proj1 (proj1 I2)))). }
  rewrite <- Ei in Hnew.
  assert (I4 : inv3 s4 /\ ext s3 s4).
  { destruct I3' as [Hs2 HN]. destruct (semR_step2 _ _ (s_raw_add _ _ _ _ _ _ H4) Hs2) as [Hs4 E4].
    split; [|exact E4]. split; [exact Hs4|]. eapply nodes_raw_add; [exact HN|exact Hnew| |exact H4].
    destruct (shape_bij_props _ _ _ Ht) as (Wb & Bb & _). destruct (shape_bij _ _ _ Ht) as (Sb1 & Sb2 & _).
    unfold entry_ok. cbn [fst snd c_slots]. split; [assumption|]. split; [apply is_bijection_injective; assumption|].
    split; [intros k Hk; apply Sb2; assumption|].
    intros x Hx. apply Sb1. rewrite <- Sl in Hx. apply slots_spec. assumption. }
  destruct I4 as [I4 E34].
  destruct (semn_step3 _ _ (s_pending_insert _ _ _ _ _ H5) (n_pending_insert _ _ _ _ _ H5) I4) as [I5 E45].
  split; [exact I3'|]. split; [exact E23|]. split; [exact E34|exact E45].
Qed.

(* SoundFinal.cov_pre_rebuild from the walk alone *)
Lemma cov_new_walk : forall t p s s5, inv3 s -> mod4_ok s -> syn_cov s -> kids_cov s -> wshape p = Ok t ->
  Forall (covers s) (app_occ p) -> (forall x, In x (pub_occ p) -> x mod 4 <> 1 \/ x < ectr s) ->
  new_walk t s s5 -> syn_cov s5 /\ kids_cov s5 /\ mod4_ok s5.
Proof.
  intros [sh_t bij_t] p s s5 I3 M4 SCs KCs Hw Cv Bp NW. pose proof (m4_ctr s M4) as Cm.
  destruct NW as (en1 & c1 & en2 & en3 & s3 & f2o & c2 & synf & i & s3a & sh & bij & s4 & RP & H2 & H3 & BF & ASF & AL & Hsh & RA & PI).
  cbn [fst snd] in RP, H2.
  (* add_internal_walk *)
  pose proof (refresh_private_step sh_t (ectr s)) as St1. rewrite RP in St1. cbn [snd] in St1.
  pose proof (ctr_step_le _ _ St1) as Le1.
  destruct (refresh_private_spec _ _ _ _ RP) as (_ & Bi1 & _).
  assert (S01 : semR s (set_ctr s c1)) by (split; [apply sem_set_ctr|cbn [Model.ctr set_ctr]; lia]).
  destruct (semn_step3 _ _ S01 (nsame_ctr s c1) I3) as [I1 E01].
  pose proof (apply_slotmap_ren _ _ _ H2) as R2.
  assert (Bi2' : binders en2 = binders en1) by (rewrite R2, ren_binders; unfold asm_g; apply map_id).
  pose proof (s_synify_enode _ _ _ _ H3) as S13.
  destruct (semn_step3 _ _ S13 (n_synify_enode _ _ _ _ H3) I1) as [I3' E13].
  pose proof (synify_enode_binders _ _ _ _ H3) as Bi3.
  assert (Hb : Forall (fun b => b < ectr s3) (binders en3)).
  { rewrite Bi3, Bi2'. revert Bi1. apply Forall_impl. intros b ((_ & Hb) & _).
    destruct S13 as [_ L13]. cbn [Model.ctr set_ctr] in L13. lia. }
  destruct (walk_inv3 en3 s3 f2o c2 synf i s3a sh bij s4 s5 I3' Hb BF ASF AL Hsh RA PI) as (I3a & E23 & E34 & E45).
  (* mod4_ok *)
  assert (M5 : mod4_ok s5).
  { eapply m4_singleton_pre; [|exact BF|exact ASF|exact AL|exact Hsh|exact RA|exact PI].
    eapply p4_synify_enode; [exact H3|]. eapply m4_refresh_ctr; [exact M4|exact RP]. }
  (* cov_pre_rebuild *)
  pose proof (cls_synify_enode _ _ _ _ H3) as [C13 _]. cbn [classes set_ctr] in C13.
  pose proof (alloc_eclass_exact _ _ _ _ _ AL) as (_ & _ & C & _).
  set (s2 := set_ctr (set_ctr s3 c2) c2) in *.
  assert (C2 : classes s2 = classes s) by (unfold s2; cbn [classes set_ctr]; exact C13).
  destruct (pre_node_equiv p sh_t bij_t (ectr s) en1 c1 en2 Hw RP H2 Cm Bp) as [Q1 Bi2].
  pose proof (covers_child_inj s _ _ Cv (child_inj_node _ _ _ Q1)) as Cv2.
  assert (All2 : forall v, In v (all_occ en2) -> v mod 4 <> 1 \/ v < c1).
  { intros v Hall.
    apply (Permutation.Permutation_in _ (occ_partition en2)) in Hall. apply in_app_or in Hall. destruct Hall as [Hp|Hp].
    - rewrite (equiv_pub _ _ _ (proj2 (proj2 Q1))), map_id in Hp. destruct (Bp _ Hp); [left; assumption|right; lia].
    - apply prv_binders in Hp. rewrite Bi2 in Hp. pose proof (proj1 (Forall_forall _ _) Bi1 v Hp) as T. cbv beta in T. right. lia. }
  assert (Vv2 : Forall (fun x2 => vbv (ectr (set_ctr s c1)) (am x2)) (app_occ en2)).
  { apply Forall_forall. intros x2 Hx2 v Hv. cbn [Model.ctr set_ctr]. apply All2. exact (vals_all_occ en2 x2 v Hx2 Hv). }
  assert (Vb2 : Forall (fun x2 => injective (am x2) /\ vbound (ectr (set_ctr s c1)) (am x2)) (app_occ en2)).
  { apply Forall_forall. intros x2 Hx2. destruct (proj1 (Forall_forall _ _) Cv2 x2 Hx2) as (c & _ & Ix2 & _).
    split; [exact Ix2|]. apply vbv_vbound. exact (proj1 (Forall_forall _ _) Vv2 x2 Hx2). }
  assert (Cm1 : ectr (set_ctr s c1) mod 4 = 1) by (cbn [Model.ctr set_ctr]; rewrite (ctr_step_mod _ _ St1); exact Cm).
  assert (Cv3 : Forall (covers s) (app_occ en3)).
  { pose proof H3 as H3c. unfold synify_enode in H3c. apply mbind_inv in H3c. destruct H3c as (l & s1 & H3c & H3'). inversion H3'; subst en3 s1; clear H3'.
    rewrite app_occ_set_apps by (eapply mapM_length; eauto).
    exact (covers_child_ext s _ _ Cv2 (mapM_synify_rel _ _ _ _ H3c Cm1 Vb2)). }
  destruct (fresh_rename_equiv en3 (ectr s3) f2o c2 synf Hb BF ASF) as [Q3 _].
  pose proof (covers_child_inj s _ _ Cv3 (child_inj_node _ _ _ Q3)) as Cvf.
  split; [|split; [|exact M5]].
  - assert (SC3a : syn_cov s3a).
    { eapply syn_cov_alloc; [exact C|exact (syn_cov_classes s s2 C2 SCs)|]. cbn [c_syn].
      revert Cvf. apply Forall_impl. intros x. apply covers_classes. exact C2. }
    apply (syn_cov_ext s3a); [|exact SC3a]. eapply ext_trans; [exact E34|exact E45].
  - pose proof (kids_cov_classes s s2 C2 KCs) as K2.
    assert (K3a : kids_cov s3a).
    { intros j cj sh0 bij1 src1 x Hj Hin Hx. apply (get_class_ext_inv s2 s3a _ C) in Hj.
      destruct Hj as [Hj|[_ ->]]; [|destruct Hin]. apply (covers_ext0 s2 s3a x E23). exact (K2 _ _ _ _ _ _ Hj Hin Hx). }
    assert (Cvf3 : Forall (covers s3a) (app_occ synf)).
    { revert Cvf. apply Forall_impl. intros x Cx. apply (covers_ext0 s2 s3a x E23). exact (covers_classes s s2 x C2 Cx). }
    pose proof (wshape_covers s3a synf sh bij Hsh Cvf3) as CvS.
    pose proof (kids_cov_raw_add _ _ _ _ _ _ _ (proj1 I3a) K3a CvS RA) as K4.
    apply (kids_cov_step s4 s5 E45); [|exact K4]. inversion PI. apply nsame_ks, nsame_pend.
Qed.

Theorem Kx_new_walk_proved : forall t p s s5, B s -> wshape p = Ok t -> lookup_internal s t = Ok None ->
  Forall (covers s) (app_occ p) -> Forall (fun x => wf (am x)) (app_occ p) ->
  (forall x, In x (pub_occ p) -> x mod 4 <> 1 \/ x < ectr s) ->
  new_walk t s s5 -> Kx s5.
Proof.
  intros t p s s5 Bs Hw _ Cv _ Bp NW.
  pose proof (B_Jm _ Bs) as J. destruct (B_Kx _ Bs) as (M & [Sc Sn] & (Kk & _ & K)).
  pose proof (proj1 (jm_kinv _ _ J)) as I3.
  destruct (cov_new_walk t p s s5 I3 M Sc Kk Hw Cv Bp NW) as (R1 & R2 & M5).
  pose proof (SN_new_walk t p s s5 Sn Hw NW) as Sn5.
  destruct (KS_new_walk t p s s5 I3 (jm_st2 _ _ J) K Sn5 Hw NW) as [SO5 K5].
  split; [exact M5|]. split; [split; assumption|]. split; [exact R2|]. split; assumption.
Qed.

Print Assumptions Kx_new_walk_proved.
