(* EGraph/NoErrorAddS.v — ERROR-FREEDOM, insertion side: mk_singleton_class, add_internal, eg_add. *)
From SE Require Import Slots.SlotMapFacts Group.GroupSound Lang.LangFacts Lang.ShapeFacts Lang.RenameFacts
  EGraph.Model EGraph.ModelFacts EGraph.ModelMachine EGraph.UnionFindFacts EGraph.InvariantFacts
  EGraph.UnionInvariantFacts EGraph.AddCoversFacts EGraph.Mod4Facts EGraph.MatchDefs EGraph.HashconsShape EGraph.HashconsAbs
  EGraph.HashconsFacts
  EGraph.KidsFacts EGraph.SoundFacts EGraph.SoundSyn EGraph.SoundUnion EGraph.SoundStruct EGraph.UsesConvDef EGraph.UsesConv
  EGraph.SoundAddNew EGraph.SoundClosed EGraph.PendingFacts
  EGraph.NoErrorBase EGraph.NoErrorShape EGraph.NoErrorInv EGraph.NoErrorAddDef.
Require Import ZArith Lia List.
Import ListNotations.

Local Notation ectr := Model.ctr.
Local Notation inv := inverse_nocheck.

(* ------------------------------------------------------------------ *)
(* 0. steps that move only the counter *)

Lemma src_ok_classes : forall s s', classes s' = classes s -> src_ok s -> src_ok s'.
Proof.
  intros s s' C H i c sh bij src Hc Hin. rewrite (get_class_classes _ _ _ C) in Hc.
  unfold lc. rewrite C. exact (H i c sh bij src Hc Hin).
Qed.

Lemma pend_ok_same : forall s s', pending s' = pending s -> hashcons s' = hashcons s -> pend_ok s -> pend_ok s'.
Proof. intros s s' P Hh [A C]. unfold pend_ok. rewrite P, Hh. split; assumption. Qed.

Lemma Jm_set_ctr : forall E s c, Jm E s -> ectr s <= c -> c mod 4 = 1 -> Jm E (set_ctr s c).
Proof.
  intros E s c [K Hc U S2 W Sr P] L C4. destruct K as (I3 & M & Kd).
  assert (S01 : semR s (set_ctr s c)) by (split; [apply sem_set_ctr|cbn [Model.ctr set_ctr]; lia]).
  destruct (semn_step3 _ _ S01 (nsame_ctr s c) I3) as [I1 E01].
  constructor.
  - split; [exact I1|]. split; [apply m4_set_ctr; [exact M|exact C4]|].
    eapply kids_ok_same_classes; [|exact Kd]. reflexivity.
  - eapply hce_ctr_only; [eexists; reflexivity|exact Hc].
  - eapply uc_fr; [apply fr_ctr_only; eexists; reflexivity|exact U].
  - apply (RS_nodes_same s); [apply nsame_nodes_same; apply nsame_ctr|exact S2].
  - apply (syn_wf_classes s); [reflexivity|exact W].
  - apply (src_ok_classes s); [reflexivity|exact Sr].
  - apply (pend_ok_same s); [reflexivity|reflexivity|exact P].
Qed.

(* ------------------------------------------------------------------ *)
(* 1. the primitives of mk_singleton_class *)

Lemma nf_alloc_eclass : forall sl syn s, nf (alloc_eclass sl syn) s.
Proof.
  intros sl syn s. unfold alloc_eclass.
  apply nf_bind; [apply nf_gets|]. intros i s0 H0. inversion H0; subst i s0; clear H0.
  apply nf_bind_lift.
  { change (nfr (Ok (Grp (identity sl) None))). apply nfr_ok. }
  intros g _. apply nf_bind; [apply nf_modify|]. intros u s1 H1. inversion H1; subst u s1; clear H1.
  apply nf_bind; [|intros; apply nf_ret].
  apply nf_unionfind_set. unfold lu, set_classes. cbn [unionfind]. rewrite Nat2N.id. lia.
Qed.

Lemma nf_raw_add : forall id sh bij src s, (N.to_nat id < lc s)%nat ->
  (forall j, In j (node_ids sh) -> (N.to_nat j < lc s)%nat) -> nf (raw_add_to_class id (sh, bij) src) s.
Proof.
  intros id sh bij src s Li Lj. unfold raw_add_to_class.
  apply nf_bind; [apply nf_upd_class; exact Li|]. intros u1 s1 H1.
  destruct (upd_class_lc _ _ _ _ _ H1) as [L1 _].
  apply nf_bind; [apply nf_modify|]. intros u2 s2 H2. inversion H2; subst u2 s2; clear H2.
  apply (nf_iterM_inv _ _ (fun s0 => lc s0 = lc s)).
  - unfold lc, set_hashcons. cbn [classes]. exact L1.
  - intros r s0 Hr E0. apply nf_upd_class. rewrite E0. apply Lj. exact Hr.
  - intros r s0 u s3 Hr E0 H3. destruct (upd_class_lc _ _ _ _ _ H3) as [L3 _]. congruence.
Qed.

(* ------------------------------------------------------------------ *)
(* 2. the state right BEFORE the rebuild of mk_singleton_class: all invariants of Jm hold
      (replay of KidsFacts.kinv_mk_singleton, HashconsFacts.hce_mk_singleton, UsesConv.uc_mk_singleton,
       SoundStruct.pS_mk_singleton, SoundAddNew.syn_wf_add_internal stopped before the rebuild) *)

Definition shape_absent (en : node) (s : egraph) : Prop :=
  forall f2o c2 synf c3 sh0 b0, bijection_from_fresh_to (slots en) (ectr s) = (f2o, c2) ->
    apply_slotmap_fresh false (inv f2o) en c2 = (synf, c3) -> wshape synf = Ok (sh0, b0) ->
    na_get (hashcons s) sh0 = None.

Lemma Jm_before_rebuild : forall en s f2o s1 synf s2 i s3 sh bij u4 s4 u5 s5,
  Jm noex s -> pending s = [] ->
  Forall (fun b => b < ectr s) (binders en) -> Forall (kid_ok s) (app_occ en) -> Forall (kid_total s) (app_occ en) ->
  shape_absent en s ->
  with_ctr (bijection_from_fresh_to (slots en)) s = Ok (f2o, s1) ->
  with_ctr (apply_slotmap_fresh false (inv f2o) en) s1 = Ok (synf, s2) ->
  alloc_eclass (values (inv f2o)) synf s2 = Ok (i, s3) ->
  wshape synf = Ok (sh, bij) ->
  raw_add_to_class i (sh, bij) i s3 = Ok (u4, s4) ->
  pending_insert sh true s4 = Ok (u5, s5) ->
  Jm noex s5 /\ ext0 s s5 /\ pending s5 = [(sh, true)] /\ i = N.of_nat (lc s) /\ lc s5 = S (lc s) /\
  apply_slotmap_fresh false (inv f2o) en (ectr s1) = (synf, ectr s1) /\ s2 = set_ctr s1 (ectr s1) /\
  bijection_from_fresh_to (slots en) (ectr s) = (f2o, ectr s1) /\ s1 = set_ctr s (ectr s1).
Proof.
  intros en s f2o s1 synf s2 i s3 sh bij u4 s4 u5 s5 J Pe Hb Ken Ten Abs H1 H2 H3 Ht H4 H5.
  destruct J as [(I3 & M & K) Hs U S2 W Sr P].
  pose proof H1 as H1'. pose proof H2 as H2'.
  unfold with_ctr in H1. destruct (bijection_from_fresh_to (slots en) (ectr s)) as [f2o' c2] eqn:BF.
  inversion H1; subst f2o' s1; clear H1.
  unfold with_ctr in H2. cbn [Model.ctr set_ctr] in H2.
  pose proof (fresh_rename_spec en (ectr s) f2o c2 Hb BF) as R. cbv zeta in R.
  destruct (bff_props _ _ _ _ (slots_sorted en) BF) as [Wf2o If2o].
  pose proof (bff_K1 (slots en) (ectr s) (proj1 M)) as Kf. rewrite BF in Kf. cbn [fst] in Kf.
  assert (Oc2 : ok1 c2).
  { pose proof (bijection_from_fresh_to_step (slots en) (ectr s)) as St. rewrite BF in St. cbn [snd] in St.
    eapply ok1_step; [exact (proj1 M)|exact St]. }
  pose proof (asf_slots_ok1 (inv f2o) en c2 (V1_inverse _ Kf) Oc2) as Ssf.
  destruct (apply_slotmap_fresh false (inv f2o) en c2) as [synf' c3] eqn:ASF. cbn [fst snd] in R, Ssf.
  inversion H2; subst synf' s2; clear H2.
  destruct R as (Ec3 & Sk & Bi & Sl & NE & Pb & _). subst c3.
  pose proof (bijection_from_fresh_to_step (slots en) (ectr s)) as St. rewrite BF in St. cbn [snd] in St. apply ctr_step_le in St.
  set (s2 := set_ctr (set_ctr s c2) c2) in *.
  assert (S02 : semR s s2).
  { split; [|unfold s2; cbn [Model.ctr set_ctr]; lia]. split; reflexivity. }
  destruct (semn_step3 _ _ S02 (nsame_classes s s2 eq_refl) I3) as [I2 E02].
  assert (M2 : m4 s2) by (unfold s2; apply m4_set_ctr; [apply m4_set_ctr|]; assumption).
  pose proof (alloc_eclass_exact _ _ _ _ _ H3) as (Hi & Uf & C & Hh3' & Pe3 & Ct).
  assert (M3 : m4 s3).
  { refine (proj1 (h_alloc_eclass _ _ _ Ssf _ _ _ H3 M2)). apply S1_values. apply V1_inverse. exact Kf. }
  assert (S3 : inv3 s3 /\ ext0 s2 s3).
  { destruct I2 as [[[Hok Hsl HC] Hbl] HN].
    assert (Wsl : swf (values (inv f2o))) by apply sset_of_list_spec.
    split; [split; [split|]|].
    - constructor.
      + exact (uf_ok_alloc_eclass _ _ _ _ _ H3 Hok).
      + eapply uf_slots_ok_alloc_eclass; [exact Hok|exact Hsl|exact Wsl|exact Sl|exact H3].
      + intros j c Hc. apply (get_class_ext_inv s2 s3 _ C) in Hc. destruct Hc as [Hc|[_ ->]]; [eapply HC; eauto|].
        split; [exact Wsl|]. split.
        * apply class_flat_grp_ok. unfold class_flat. cbn [c_slots c_group c_syn]. auto.
        * cbn [c_slots c_syn]. rewrite Sl. apply incl_refl.
    - intros j c x Hc Hx. rewrite Ct. apply (get_class_ext_inv s2 s3 _ C) in Hc. destruct Hc as [Hc|[_ ->]]; [eapply Hbl; eauto|].
      cbn [c_syn] in Hx. unfold s2. cbn [Model.ctr set_ctr].
      apply (Permutation.Permutation_in _ (occ_partition synf)) in Hx. apply in_app_or in Hx. destruct Hx as [Hx|Hx].
      + apply Pb in Hx. lia.
      + apply prv_binders in Hx. rewrite Bi in Hx. pose proof (proj1 (Forall_forall _ _) Hb x Hx) as T. cbv beta in T. lia.
    - intros j c e Hc He. apply (get_class_ext_inv s2 s3 _ C) in Hc. destruct Hc as [Hc|[_ ->]]; [eapply HN; eauto|].
      cbn [c_nodes] in He. contradiction.
    - split; [rewrite Ct; lia|]. intros j c Hc. exists c. split; [eapply get_class_ext_old; eauto|].
      split; [apply incl_refl|reflexivity]. }
  destruct S3 as [I3' E23].
  assert (Sh3 : forall Q, shapes_in Q s -> shapes_in Q s3).
  { intros Q KP j c e Hc He. apply (get_class_ext_inv s2 s3 _ C) in Hc. destruct Hc as [Hc|[_ ->]]; [|destruct He].
    exact (KP j c e Hc He). }
  pose proof (get_class_ext_new s2 s3 _ C) as Hnew.
  assert (W2 : eg_wf s2) by exact (uso_wf _ (ei_slots _ (proj1 (proj1 I2)))).
  assert (Ei : i = N.of_nat (lc s2)).
  { rewrite Hi. f_equal. exact W2. }
  rewrite <- Ei in Hnew.
  assert (I4 : inv3 s4 /\ ext s3 s4).
  { destruct I3' as [Hs2 HN]. destruct (semR_step2 _ _ (s_raw_add _ _ _ _ _ _ H4) Hs2) as [Hs4 E4].
    split; [|exact E4]. split; [exact Hs4|]. eapply nodes_raw_add; [exact HN|exact Hnew| |exact H4].
    destruct (shape_bij_props _ _ _ Ht) as (Wb & Bb & _). destruct (shape_bij _ _ _ Ht) as (Sb1 & Sb2 & _).
    unfold entry_ok. cbn [fst snd c_slots]. split; [assumption|]. split; [apply is_bijection_injective; assumption|].
    split; [intros k Hk; apply Sb2; assumption|].
    intros x Hx. apply Sb1. rewrite <- Sl in Hx. apply slots_spec. assumption. }
  destruct I4 as [I4 E34].
  assert (M4 : m4 s4).
  { refine (proj1 (h_raw_add _ _ _ _ _ _ _ _ H4 M3)). eapply wshape_V1; [exact Ht|]. apply S1_slots_pub. exact Ssf. }
  destruct (semn_step3 _ _ (s_pending_insert _ _ _ _ _ H5) (n_pending_insert _ _ _ _ _ H5) I4) as [I5 E45].
  pose proof (proj1 (h_pending_insert _ _ _ _ _ H5 M4)) as M5.
  assert (E05 : ext0 s s5).
  { eapply ext0_trans; [apply ext_ext0; exact E02|]. eapply ext0_trans; [exact E23|]. apply ext_ext0. eapply ext_trans; eauto. }
  assert (K5 : kids_ok s5).
  { apply kids_ok_shapes. apply (nsame_ssub _ _ (n_pending_insert _ _ _ _ _ H5)).
    eapply shapes_raw_add; [| |exact H4].
    - apply Sh3. apply (shapes_in_impl (kentry_ok s)); [intros sh0; apply kentry_ok_ext0; exact E05|exact K].
    - apply (kentry_ok_ext0 s s5 _ E05). destruct (weak_shape_total false en) as (sh0 & bij0 & Hw0).
      assert (sh0 = sh) by (eapply shape_invariant; [exact Hw0|exact Ht|exact NE]). subst sh0.
      eapply wshape_kentry; [exact Hw0|exact Ken]. }
  (* hce *)
  assert (Hc2 : hc_ok s2).
  { unfold s2. eapply hce_ctr_only; [eexists; reflexivity|]. eapply hce_ctr_only; [eexists; reflexivity|exact Hs]. }
  destruct (hce_alloc noex _ _ _ _ _ W2 H3 Hc2) as (Hc3 & Hh3 & _).
  assert (Abs3 : na_get (hashcons s3) sh = None).
  { rewrite Hh3. unfold s2. cbn [hashcons set_ctr]. exact (Abs _ _ _ _ _ _ BF ASF Ht). }
  destruct (hce_raw_add noex i sh bij i s3 u4 s4 Abs3 (ex_intro _ synf (ex_intro _ bij Ht)) H4 Hc3) as [Hc4 St4].
  pose proof (hce_pending_insert noex sh s4 u5 s5 H5 Hc4) as Hc5.
  (* uses_conv *)
  assert (U2 : uses_conv s2).
  { eapply uc_fr; [eapply fr_with_ctr; exact H2'|]. eapply uc_fr; [eapply fr_with_ctr; exact H1'|exact U]. }
  pose proof (uc_alloc _ _ _ _ _ H3 U2) as U3.
  pose proof (uc_raw_add _ _ _ _ _ _ _ H4 U3) as U4.
  assert (U5 : uses_conv s5) by (eapply uc_fr; [eapply fr_pending_insert; exact H5|exact U4]).
  (* stored2 *)
  assert (T2 : stored2 s2) by (exact (pS_with_ctr _ _ _ _ _ H2' (pS_with_ctr _ _ _ _ _ H1' S2))).
  pose proof (pS_alloc _ _ _ _ _ H3 T2) as T3.
  pose proof (pS_raw_add _ _ _ _ (SOe_shape _ _ _ i Ht) _ _ _ H4 T3) as T4.
  pose proof (pS_pending_insert _ _ _ _ _ H5 T4) as T5.
  (* syn_wf *)
  assert (Wf2 : syn_wf s2) by (apply (syn_wf_classes s s2); [reflexivity|exact W]).
  assert (Wf3 : syn_wf s3).
  { eapply syn_wf_alloc; [exact C|exact Wf2|]. cbn [c_syn].
    apply (kid_total_skel s2 synf en Sk). revert Ten. apply Forall_impl. intros b Tb.
    apply (kid_total_classes s s2); [reflexivity|exact Tb]. }
  assert (Wf5 : syn_wf s5) by (apply (syn_wf_ext s3); [eapply ext_trans; eauto|exact Wf3]).
  (* src_ok *)
  assert (L3 : lc s3 = S (lc s2)).
  { pose proof (f_equal (@List.length eclass) C) as LL. rewrite app_length in LL. cbn [List.length] in LL. lia. }
  assert (Sr3 : src_ok s3).
  { intros j c sh0 b0 src Hc Hin. apply (get_class_ext_inv s2 s3 _ C) in Hc. destruct Hc as [Hc|[_ ->]]; [|destruct Hin].
    pose proof (Sr j c sh0 b0 src Hc Hin) as L. rewrite L3. change (lc s2) with (lc s). lia. }
  assert (Li3 : (N.to_nat i < lc s3)%nat) by (rewrite L3, Ei, Nat2N.id; lia).
  pose proof (src_ok_raw_add _ _ _ _ _ _ _ Sr3 Li3 H4) as Sr4.
  assert (C45 : classes s5 = classes s4 /\ hashcons s5 = hashcons s4 /\ pending s5 = na_set (pending s4) sh true).
  { inversion H5; subst. repeat split. }
  destruct C45 as (C45 & Hh45 & P45).
  assert (Sr5 : src_ok s5) by (apply (src_ok_classes s4); assumption).
  (* pending *)
  destruct (raw_add_views _ _ _ _ _ _ _ H4) as (Hh4 & P4 & _).
  assert (P5 : pending s5 = [(sh, true)]).
  { rewrite P45, P4, Pe3. unfold s2. cbn [pending set_ctr]. rewrite Pe. reflexivity. }
  assert (Pd5 : pend_ok s5).
  { split; rewrite P5.
    - cbn [na_nodup na_get]. split; [reflexivity|exact I].
    - intros y ty G. cbn [na_get] in G. destruct (node_eqb y sh) eqn:Ey; [|discriminate].
      apply node_eqb_iff in Ey. subst y. exists i. rewrite Hh45, Hh4. apply na_get_set_same. }
  assert (L5 : lc s5 = S (lc s)).
  { destruct E34 as (_ & L34 & _). destruct E45 as (_ & L45 & _). rewrite L45, L34, L3. reflexivity. }
  split; [constructor; [split; [exact I5|split; [exact M5|exact K5]]|exact Hc5|exact U5|exact T5|exact Wf5|exact Sr5|exact Pd5]|].
  split; [exact E05|]. split; [exact P5|]. split; [exact Ei|]. split; [exact L5|].
  cbn [Model.ctr set_ctr]. repeat split. exact ASF.
Qed.

(* ------------------------------------------------------------------ *)
(* 3. ids of the nodes handled on the way *)

Lemma node_ids_ckeys : forall n, node_ids n = map fst (ckeys n).
Proof. intros n. unfold node_ids, ckeys. rewrite map_map. reflexivity. Qed.

Lemma skel_ids : forall n n', skel n = skel n' -> node_ids n = node_ids n'.
Proof. intros n n' H. rewrite !node_ids_ckeys, (skel_ckeys _ _ H). reflexivity. Qed.

Lemma kids_lt : forall s n, Forall (kid_ok s) (app_occ n) -> forall j, In j (node_ids n) -> (N.to_nat j < lc s)%nat.
Proof.
  intros s n F. apply ids_of_covers. revert F. apply Forall_impl. intros a [C _]. exact C.
Qed.

(* ------------------------------------------------------------------ *)
(* 4. the interface *)

Section Interface.
  Hypothesis HC : HC_hit.
  Hypothesis nf_rebuild : HC_hit -> forall fuel s, Jm noex s -> Kx s -> nf (rebuild fuel) s.
  Hypothesis Jm_rebuild : forall fuel s x s', Jm noex s -> rebuild fuel s = Ok (x, s') -> Jm noex s' /\ pending s' = [] /\ ext s s'.
  Hypothesis Kx_rebuild : forall fuel s x s', Jm noex s -> Kx s -> rebuild fuel s = Ok (x, s') -> Kx s'.
  (* NOT in the interface file: SC2 /\ KC2 /\ mod4_ok of the state right before the rebuild of an insertion.
     It is SoundRebuild.xi_new (instance SoundClosed.xinv_closed) + mod4_ok (the p4_ lemmas of SoundAddNew) WITHOUT the premise
     "add_internal t s = Ok (a, s')" of xi_new (which is used there only to obtain the walk). *)
  Hypothesis Kx_new_walk : forall t p s s5, B s -> wshape p = Ok t -> lookup_internal s t = Ok None ->
    Forall (covers s) (app_occ p) -> Forall (fun x => wf (am x)) (app_occ p) ->
    (forall x, In x (pub_occ p) -> x mod 4 <> 1 \/ x < ectr s) ->
    new_walk t s s5 -> Kx s5.

  (* the premise on the Kx side of mk_singleton_class, in the form of SoundAddNew.new_walk *)
  Definition kx_walk (en : node) (s : egraph) : Prop :=
    forall f2o c2 synf i s3a sh bij s4 s5,
      bijection_from_fresh_to (slots en) (ectr s) = (f2o, c2) ->
      apply_slotmap_fresh false (inv f2o) en c2 = (synf, c2) ->
      alloc_eclass (values (inv f2o)) synf (set_ctr (set_ctr s c2) c2) = Ok (i, s3a) ->
      wshape synf = Ok (sh, bij) -> raw_add_to_class i (sh, bij) i s3a = Ok (tt, s4) ->
      pending_insert sh true s4 = Ok (tt, s5) -> Kx s5.

  Lemma nf_mk_singleton : forall en s, Jm noex s -> pending s = [] ->
    Forall (fun b => b < ectr s) (binders en) -> Forall (kid_ok s) (app_occ en) -> Forall (kid_total s) (app_occ en) ->
    shape_absent en s -> kx_walk en s -> nf (mk_singleton_class en) s.
  Proof.
    clear Jm_rebuild Kx_rebuild Kx_new_walk.
    intros en s J Pe Hb Ken Ten Abs KxW. unfold mk_singleton_class. cbv zeta.
    apply nf_bind; [apply nf_with_ctr|]. intros f2o s1 H1.
    apply nf_bind; [apply nf_with_ctr|]. intros synf s2 H2.
    apply nf_bind; [apply nf_alloc_eclass|]. intros i s3 H3.
    apply nf_bind_lift; [apply tot_nfr, wshape_tot|]. intros [sh bij] Ht. cbn [fst].
    destruct (ctr_only_fields _ _ (with_ctr_only _ _ _ _ _ H1)) as (U1 & C1 & _).
    destruct (ctr_only_fields _ _ (with_ctr_only _ _ _ _ _ H2)) as (U2 & C2 & _).
    pose proof (alloc_eclass_exact _ _ _ _ _ H3) as (Hi & _ & C3 & _).
    assert (L3 : lc s3 = S (lc s)).
    { pose proof (f_equal (@List.length eclass) C3) as LL. rewrite app_length in LL. cbn [List.length] in LL.
      rewrite C2, C1 in LL. lia. }
    assert (Wf : lu s = lc s) by exact (kinv_wf _ (jm_kinv _ _ J)).
    assert (Li : (N.to_nat i < lc s3)%nat).
    { rewrite Hi, U2, U1, Nat2N.id, L3, Wf. lia. }
    assert (Ids : node_ids sh = node_ids en).
    { rewrite (wshape_ids _ _ _ Ht). apply skel_ids.
      pose proof H1 as H1'. unfold with_ctr in H1'.
      destruct (bijection_from_fresh_to (slots en) (ectr s)) as [f2o' c2] eqn:BF. inversion H1'; subst f2o' s1; clear H1'.
      pose proof (fresh_rename_spec en (ectr s) f2o c2 Hb BF) as R. cbv zeta in R.
      pose proof H2 as H2'. unfold with_ctr in H2'. cbn [Model.ctr set_ctr] in H2'.
      destruct (apply_slotmap_fresh false (inv f2o) en c2) as [synf' c3]. inversion H2'; subst synf'. cbn [fst snd] in R.
      exact (proj1 (proj2 R)). }
    apply nf_bind.
    { apply nf_raw_add; [exact Li|]. intros j Hj. rewrite Ids in Hj. rewrite L3.
      pose proof (kids_lt s en Ken j Hj). lia. }
    intros u4 s4 H4. apply nf_bind; [apply nf_pending_insert|]. intros u5 s5 H5.
    destruct (Jm_before_rebuild en s f2o s1 synf s2 i s3 sh bij u4 s4 u5 s5 J Pe Hb Ken Ten Abs H1 H2 H3 Ht H4 H5)
      as (J5 & _ & _ & _ & _ & ASF & E2 & BF & E1).
    apply nf_bind; [|intros; apply nf_ret].
    apply (nf_rebuild HC); [exact J5|].
    destruct u4, u5. subst s2. rewrite E1 in H3.
    exact (KxW f2o (ectr s1) synf i s3 sh bij s4 s5 BF ASF H3 Ht H4 H5).
  Qed.

  (* the Ok direction of the same walk: the invariants after mk_singleton_class *)
  Lemma Jm_mk_singleton : forall en s a s', Jm noex s -> pending s = [] ->
    Forall (fun b => b < ectr s) (binders en) -> Forall (kid_ok s) (app_occ en) -> Forall (kid_total s) (app_occ en) ->
    shape_absent en s -> kx_walk en s -> mk_singleton_class en s = Ok (a, s') ->
    Jm noex s' /\ Kx s' /\ pending s' = [].
  Proof.
    clear HC nf_rebuild Kx_new_walk.
    intros en s a s' J Pe Hb Ken Ten Abs KxW H. unfold mk_singleton_class in H. cbv zeta in H.
    apply mbind_inv in H. destruct H as (f2o & s1 & H1 & H).
    apply mbind_inv in H. destruct H as (synf & s2 & H2 & H).
    apply mbind_inv in H. destruct H as (i & s3 & H3 & H).
    apply mbind_inv in H. destruct H as (t & s0 & Ht & H). apply lift_inv in Ht. destruct Ht as [Ht ->].
    destruct t as [sh bij]. cbn [fst] in H.
    apply mbind_inv in H. destruct H as (u4 & s4 & H4 & H).
    apply mbind_inv in H. destruct H as (u5 & s5 & H5 & H).
    apply mbind_inv in H. destruct H as (u6 & s6 & H6 & H). inversion H; subst a s6; clear H.
    destruct (Jm_before_rebuild en s f2o s1 synf s2 i s3 sh bij u4 s4 u5 s5 J Pe Hb Ken Ten Abs H1 H2 H3 Ht H4 H5)
      as (J5 & _ & _ & _ & _ & ASF & E2 & BF & E1).
    assert (K5 : Kx s5).
    { destruct u4, u5. subst s2. rewrite E1 in H3.
      exact (KxW f2o (ectr s1) synf i s3 sh bij s4 s5 BF ASF H3 Ht H4 H5). }
    destruct (Jm_rebuild _ _ _ _ J5 H6) as (J6 & P6 & _).
    split; [exact J6|]. split; [exact (Kx_rebuild _ _ _ _ J5 K5 H6)|exact P6].
  Qed.

  (* the premises of mk_singleton_class as called by add_internal (miss branch) *)
  Lemma msc_prem : forall n p t s en1 c1 en2 en3 s3, B s -> add_pre s n -> pre_shape s n = Ok p -> wshape p = Ok t ->
    lookup_internal s t = Ok None ->
    refresh_private (fst t) (ectr s) = (Ok en1, c1) -> apply_slotmap false (snd t) en1 = Ok en2 ->
    synify_enode en2 (set_ctr s c1) = Ok (en3, s3) ->
    Jm noex s3 /\ pending s3 = [] /\ Forall (fun b => b < ectr s3) (binders en3) /\
    Forall (kid_ok s3) (app_occ en3) /\ Forall (kid_total s3) (app_occ en3) /\ shape_absent en3 s3 /\ kx_walk en3 s3.
  Proof.
    clear HC nf_rebuild Jm_rebuild Kx_rebuild.
    intros n p t s en1 c1 en2 en3 s3 Bs [(Cv & Pn & ND) Sp] Pp Hw Hlk RP H2 H3.
    pose proof (B_Jm _ Bs) as J. pose proof (B_pending _ Bs) as Pe. pose proof (B_ctr _ Bs) as C4.
    pose proof (jm_kinv _ _ J) as Hk. pose proof Hk as (I3 & M & K). pose proof (jm_hce _ _ J) as Hs.
    assert (Hsh : shape s n = Ok t) by (unfold shape; rewrite Pp; cbn [bind]; exact Hw).
    assert (Kp : Forall (kid_ok s) (app_occ p)) by (eapply pre_shape_kids; [exact I3|exact Cv|exact Pp]).
    assert (Spp : slots_pre s p) by (intros x Hx; apply Sp; exact (pre_shape_all_occ s n p Pp x Hx)).
    pose proof (refresh_private_step (fst t) (ectr s)) as St1. rewrite RP in St1. cbn [snd] in St1.
    assert (O1 : ok1 c1) by (eapply ok1_step; [exact (proj1 M)|exact St1]). apply ctr_step_le in St1.
    destruct (refresh_private_spec _ _ _ _ RP) as (Sk1 & Bi1 & _).
    set (s1 := set_ctr s c1) in *.
    assert (J1 : Jm noex s1) by (apply Jm_set_ctr; [exact J|exact St1|exact O1]).
    pose proof (jm_kinv _ _ J1) as (I1 & M1 & K1).
    pose proof (apply_slotmap_ren _ _ _ H2) as R2.
    assert (Bi2 : binders en2 = binders en1) by (rewrite R2, ren_binders; unfold asm_g; apply map_id).
    pose proof (s_synify_enode _ _ _ _ H3) as S13.
    destruct (semn_step3 _ _ S13 (n_synify_enode _ _ _ _ H3) I1) as [I3' E13].
    pose proof (proj1 (h_synify_enode _ _ _ _ H3 M1)) as M3.
    pose proof (synify_enode_binders _ _ _ _ H3) as Bi3.
    pose proof (syn_kids t p s en1 c1 en2 en3 s3 Hk Hw Kp Spp RP H2 H3) as [Ken3 Ven3].
    assert (CO : ctr_only s1 s3).
    { pose proof H3 as H3'. apply (pres_synify_enode ctr_only ctr_only_refl ctr_only_trans) in H3'; [exact H3'|].
      intros s0 y s0' H0. inversion H0. eexists; reflexivity. }
    destruct (ctr_only_fields _ _ CO) as (_ & _ & Hh3 & P3).
    destruct CO as [c3 E3].
    assert (Ec : ectr s3 = c3) by (rewrite E3; reflexivity).
    assert (J3 : Jm noex s3).
    { rewrite E3. apply Jm_set_ctr; [exact J1| |]; rewrite <- Ec; [exact (proj2 S13)|exact (proj1 M3)]. }
    assert (Hb3 : Forall (fun b => b < ectr s3) (binders en3)).
    { rewrite Bi3, Bi2. revert Bi1. apply Forall_impl. intros b ((_ & Hb) & _).
      destruct S13 as [_ L13]. unfold s1 in L13. cbn [Model.ctr set_ctr] in L13. lia. }
    assert (Ten3 : Forall (kid_total s3) (app_occ en3)).
    { pose proof (synify_enode_total _ _ _ _ H3) as T3. pose proof (cls_synify_enode _ _ _ _ H3) as [C13 _].
      revert T3. apply Forall_impl. intros b. apply kid_total_classes. exact C13. }
    assert (Abs3 : shape_absent en3 s3).
    { intros f2o c2 synf c3' sh0 b0 BF ASF Hw0. rewrite Hh3. change (na_get (hashcons s) sh0 = None).
      refine (add_shape_absent_nodup s n t en1 c1 en2 en3 s3 f2o c2 synf c3' sh0 b0 I3 _ Cv C4 Pn ND Hsh _ RP H2 H3 BF ASF Hw0).
      - intros sh i Hi. destruct (tb_fwd s (proj1 Hs) sh i Hi) as [p0 Sp0].
        destruct (proj2 Hs i sh p0 Sp0) as [A|[A|[]]]; [rewrite Pe in A; discriminate|exact (proj2 A)].
      - destruct t as [sht bt]. eapply lookup_none_absent; eauto. }
    split; [exact J3|]. split; [rewrite P3; exact Pe|]. split; [exact Hb3|]. split; [exact Ken3|].
    split; [exact Ten3|]. split; [exact Abs3|].
    intros f2o c2 synf i s3a sh bij s4 s5 BF ASF AL Hws RA PI.
    apply (Kx_new_walk t p s s5 Bs Hw Hlk).
    - revert Kp. apply Forall_impl. intros a [Ca _]. exact Ca.
    - revert Kp. apply Forall_impl. intros a [_ Wa]. exact Wa.
    - intros x Hx. apply pub_occ_all_occ in Hx. destruct (Spp x Hx); [right|left]; assumption.
    - exists en1, c1, en2, en3, s3, f2o, c2, synf, i, s3a, sh, bij, s4. repeat split; assumption.
  Qed.

  Lemma nf_add_internal : forall n p t s, B s -> add_pre s n -> pre_shape s n = Ok p -> wshape p = Ok t ->
    nf (add_internal t) s.
  Proof.
    clear Jm_rebuild Kx_rebuild.
    intros n p t s Bs AP Pp Hw. pose proof AP as [(Cv & Pn & ND) Sp].
    pose proof (B_Jm _ Bs) as J. pose proof (jm_kinv _ _ J) as Hk. pose proof Hk as (I3 & M & K).
    assert (Hsh : shape s n = Ok t) by (unfold shape; rewrite Pp; cbn [bind]; exact Hw).
    assert (Kp : Forall (kid_ok s) (app_occ p)) by (eapply pre_shape_kids; [exact I3|exact Cv|exact Pp]).
    unfold add_internal.
    apply nf_bind_reads; [apply tot_nfr; eapply lookup_internal_tot; exact (jm_hce _ _ J)|]. intros lk Hlk.
    destruct lk as [hit|]; [apply nf_ret|].
    apply nf_bind.
    { unfold nf. destruct (refresh_private_tot (fst t) (ectr s)) as [en1 E1].
      destruct (refresh_private (fst t) (ectr s)) as [r c1]. cbn [fst] in E1. subst r. apply nfr_ok. }
    intros en1 s1 H1.
    destruct (refresh_private (fst t) (ectr s)) as [[r|e] c1] eqn:RP; [|discriminate]. inversion H1; subst r s1; clear H1.
    apply nf_bind_lift.
    { apply tot_nfr. eapply shape_apply_tot'; [exact Hsh|]. rewrite RP. reflexivity. }
    intros en2 H2.
    destruct (refresh_private_spec _ _ _ _ RP) as (Sk1 & _ & _).
    apply nf_bind.
    { apply nf_synify_enode. intros j Hj. rewrite (apply_slotmap_ids _ _ _ H2), (skel_ids _ _ Sk1) in Hj.
      destruct t as [sh bij]. cbn [fst] in Hj. rewrite (wshape_ids _ _ _ Hw) in Hj. exact (kids_lt s p Kp j Hj). }
    intros en3 s3 H3.
    destruct (msc_prem n p t s en1 c1 en2 en3 s3 Bs AP Pp Hw Hlk RP H2 H3) as (J3 & P3 & Hb3 & Ken3 & Ten3 & Abs3 & KxW).
    apply nf_bind; [apply nf_mk_singleton; assumption|].
    intros syn s4 H4. apply nf_reads. apply tot_nfr. apply semify_app_id_tot.
    destruct (inv3_mk_singleton pre_shape_keeps_proved en3 s3 syn s4 (proj1 (jm_kinv _ _ J3)) Hb3 H4) as (_ & _ & c & Hc & _).
    eapply get_class_lt; eauto.
  Qed.

  Theorem nf_eg_add : forall n s, B s -> add_pre s n -> nf (eg_add n) s.
  Proof.
    clear Jm_rebuild Kx_rebuild.
    intros n s Bs AP. unfold eg_add.
    apply nf_bind_reads.
    { apply tot_nfr. apply shape_tot; [exact (B_kinv _ Bs)|]. apply ids_of_covers. exact (proj1 (proj1 AP)). }
    intros t Ht. unfold shape in Ht. destruct (pre_shape s n) as [p|] eqn:Pp; cbn [bind] in Ht; [|discriminate].
    eapply nf_add_internal; eauto.
  Qed.

  Theorem B_eg_add : forall n s a s', B s -> add_pre s n -> eg_add n s = Ok (a, s') ->
    B s' /\ ext0 s s' /\ covers s' a /\ vpre_in (ectr s') (am a).
  Proof.
    clear HC nf_rebuild.
    intros n s a s' Bs AP H.
    destruct (kinv_eg_add n s a s' (B_kinv _ Bs) (proj1 (proj1 AP)) (proj2 AP) H) as (K' & E' & Cv' & V').
    split; [|split; [exact E'|split; [exact Cv'|exact V']]].
    unfold eg_add in H. apply bind_reads_inv in H. destruct H as (t & Ht & H).
    unfold shape in Ht. destruct (pre_shape s n) as [p|] eqn:Pp; cbn [bind] in Ht; [|discriminate].
    unfold add_internal in H. apply bind_reads_inv in H. destruct H as (lk & Hlk & H).
    destruct lk as [hit|]; [inversion H; subst; exact Bs|].
    apply mbind_inv in H. destruct H as (en1 & s1 & H1 & H).
    destruct (refresh_private (fst t) (ectr s)) as [[r|e] c1] eqn:RP; [|discriminate]. inversion H1; subst r s1; clear H1.
    apply mbind_inv in H. destruct H as (en2 & s2 & H2 & H). apply lift_inv in H2. destruct H2 as [H2 ->].
    apply mbind_inv in H. destruct H as (en3 & s3 & H3 & H).
    apply mbind_inv in H. destruct H as (syn & s4 & H4 & H).
    apply reads_state in H. subst s4.
    destruct (msc_prem n p t s en1 c1 en2 en3 s3 Bs AP Pp Ht Hlk RP H2 H3) as (J3 & P3 & Hb3 & Ken3 & Ten3 & Abs3 & KxW).
    destruct (Jm_mk_singleton en3 s3 syn s' J3 P3 Hb3 Ken3 Ten3 Abs3 KxW H4) as (J' & Kx' & P').
    apply B_intro; [exact J'|exact Kx'|exact P'|exact (proj1 (proj1 (proj2 K')))].
  Qed.
End Interface.

Print Assumptions Jm_before_rebuild.
Print Assumptions nf_mk_singleton.
Print Assumptions nf_eg_add.
Print Assumptions B_eg_add.
