(* EGraph/NoErrorAddU.v — ERROR-FREEDOM, work package ADD, the union operation:
   `eg_union l r` (synify_app_id l; synify_app_id r; uint l r; rebuild rebuild_fuel) run on a boundary state
   `B s` (NoErrorAddDef.v) with covered arguments gives no non-fuel error and re-establishes `B`.
   The statements of the other work packages (NoErrorShape / NoErrorUnion / NoErrorPending) that are used are the
   hypotheses of Section Interface (verbatim from NOERR_INTERFACE.txt). *)
From SE Require Import Slots.SlotMapFacts Group.GroupSound Lang.LangFacts Lang.ShapeFacts
  EGraph.Model EGraph.ModelFacts EGraph.ModelMachine EGraph.UnionFindFacts EGraph.InvariantFacts
  EGraph.UnionInvariantFacts EGraph.AddCoversFacts EGraph.Mod4Facts EGraph.MatchDefs EGraph.HashconsFacts
  EGraph.KidsFacts EGraph.SoundFacts EGraph.SoundBase EGraph.SoundSyn EGraph.SoundUnion EGraph.SoundStruct
  EGraph.UsesConvDef EGraph.UsesConv EGraph.SoundRebuild EGraph.SoundClosed
  EGraph.NoErrorBase EGraph.NoErrorAddDef.
Require Import ZArith Lia List.
Import ListNotations.

Local Notation ectr := Model.ctr.

(* ------------------------------------------------------------------ *)
(* 1. synify_app_id moves the counter only (no interface statement needed) *)

Lemma synify_app_id_ctr_only : forall a s x s', synify_app_id a s = Ok (x, s') -> ctr_only s s'.
Proof.
  intros a s x s' H.
  apply (pres_synify_app_id ctr_only ctr_only_refl ctr_only_trans) in H; [exact H|].
  intros s0 y s0' H0. inversion H0. eexists; reflexivity.
Qed.

Lemma src_ok_fields : forall s s', classes s' = classes s -> src_ok s -> src_ok s'.
Proof.
  intros s s' Hc H i c sh bij src Hi Hin. rewrite (get_class_classes _ _ _ Hc) in Hi.
  rewrite Hc. eapply H; eauto.
Qed.

Lemma pend_ok_fields : forall s s', pending s' = pending s -> hashcons s' = hashcons s -> pend_ok s -> pend_ok s'.
Proof. intros s s' Hp Hh [A C]. unfold pend_ok. rewrite Hp, Hh. split; assumption. Qed.

Theorem Jm_synify_app_id : forall E a s x s', Jm E s -> synify_app_id a s = Ok (x, s') ->
  Jm E s' /\ ext s s' /\ pending s' = pending s /\ hashcons s' = hashcons s /\ classes s' = classes s /\
  unionfind s' = unionfind s.
Proof.
  intros E a s x s' J H.
  destruct (ctr_only_fields _ _ (synify_app_id_ctr_only _ _ _ _ H)) as (Fu & Fc & Fh & Fp).
  destruct (kinv_synify_app_id _ _ _ _ H (jm_kinv _ _ J)) as [K' X].
  split; [|exact (conj X (conj Fp (conj Fh (conj Fc Fu))))].
  constructor.
  - exact K'.
  - eapply hce_synify_app_id; [exact H|exact (jm_hce _ _ J)].
  - eapply uc_fr; [eapply fr_synify_app_id; exact H|exact (jm_uc _ _ J)].
  - exact (pS_synify_app_id _ _ _ _ H (jm_st2 _ _ J)).
  - exact (syn_wf_classes _ _ Fc (jm_syn _ _ J)).
  - exact (src_ok_fields _ _ Fc (jm_src _ _ J)).
  - exact (pend_ok_fields _ _ Fp Fh (jm_pend _ _ J)).
Qed.

(* the run invariants of SoundClosed.v along synify_app_id *)
Theorem Kx_synify_app_id : forall a s x s', kinv s -> Kx s -> synify_app_id a s = Ok (x, s') -> Kx s'.
Proof.
  intros a s x s' K (M & Sc & Kc) H.
  destruct (ctr_only_fields _ _ (synify_app_id_ctr_only _ _ _ _ H)) as (Fu & Fc & _ & _).
  destruct (kinv_synify_app_id _ _ _ _ H K) as [_ X].
  split; [exact (p4_synify_app_id _ _ _ _ H M)|]. split.
  - exact (xi_SC_ext _ _ xinv_closed _ _ X Sc).
  - exact (xi_KC_cuR _ _ xinv_closed _ _ (conj Fc Fu) Kc).
Qed.

(* ------------------------------------------------------------------ *)
(* 2. the union operation *)

Section Interface.
  (* NoErrorKey.v *)
  Hypothesis HC : HC_hit.
  (* NoErrorShape.v *)
  Hypothesis nf_synify_app_id : forall a s, (N.to_nat (aid a) < lc s)%nat -> nf (synify_app_id a) s.
  (* NoErrorUnion.v *)
  Hypothesis nf_uint : ui_nf uint.
  (* NoErrorPending.v *)
  Hypothesis nf_rebuild : HC_hit -> forall fuel s, Jm noex s -> Kx s -> nf (rebuild fuel) s.
  Hypothesis Kx_rebuild : forall fuel s x s', Jm noex s -> Kx s -> rebuild fuel s = Ok (x, s') -> Kx s'.
  Hypothesis Kx_uint : forall E l r s b s', Jm E s -> Kx s -> covers s l -> covers s r -> uint l r s = Ok (b, s') -> Kx s'.
  Hypothesis Jm_rebuild : forall fuel s x s', Jm noex s -> rebuild fuel s = Ok (x, s') -> Jm noex s' /\ pending s' = [] /\ ext s s'.
  Hypothesis Jm_uint : forall E l r s b s', Jm E s -> covers s l -> covers s r -> uint l r s = Ok (b, s') -> Jm E s' /\ ext s s'.

  Theorem nf_eg_union : forall l r s, B s -> covers s l -> covers s r -> nf (eg_union l r) s.
  Proof.
    intros l r s Bs Cl Cr. pose proof (B_Jm _ Bs) as J. pose proof (B_Kx _ Bs) as Kk. unfold eg_union.
    apply nf_bind; [apply nf_synify_app_id; apply covers_lt; exact Cl|]. intros l1 s1 H1.
    destruct (Jm_synify_app_id _ _ _ _ _ J H1) as (J1 & X1 & _).
    pose proof (Kx_synify_app_id _ _ _ _ (jm_kinv _ _ J) Kk H1) as Kk1.
    pose proof (covers_ext _ _ _ X1 Cl) as Cl1. pose proof (covers_ext _ _ _ X1 Cr) as Cr1.
    apply nf_bind; [apply nf_synify_app_id; apply covers_lt; exact Cr1|]. intros r1 s2 H2.
    destruct (Jm_synify_app_id _ _ _ _ _ J1 H2) as (J2 & X2 & _).
    pose proof (Kx_synify_app_id _ _ _ _ (jm_kinv _ _ J1) Kk1 H2) as Kk2.
    pose proof (covers_ext _ _ _ X2 Cl1) as Cl2. pose proof (covers_ext _ _ _ X2 Cr1) as Cr2.
    apply nf_bind; [exact (nf_uint noex l r s2 (jm_kinv _ _ J2) (jm_hce _ _ J2) Cl2 Cr2)|]. intros out s3 H3.
    destruct (Jm_uint _ _ _ _ _ _ J2 Cl2 Cr2 H3) as [J3 X3].
    pose proof (Kx_uint _ _ _ _ _ _ J2 Kk2 Cl2 Cr2 H3) as Kk3.
    apply nf_bind; [exact (nf_rebuild HC rebuild_fuel s3 J3 Kk3)|]. intros u s4 _. apply nf_ret.
  Qed.

  Theorem B_eg_union : forall l r s b s', B s -> covers s l -> covers s r -> eg_union l r s = Ok (b, s') ->
    B s' /\ ext s s'.
  Proof.
    intros l r s b s' Bs Cl Cr H. pose proof (B_Jm _ Bs) as J. pose proof (B_Kx _ Bs) as Kk.
    pose proof (proj2 (eg_union_ctr_grows _ _ _ _ _ H) (B_ctr _ Bs)) as Hctr.
    unfold eg_union in H.
    apply mbind_inv in H. destruct H as (l1 & s1 & H1 & H).
    destruct (Jm_synify_app_id _ _ _ _ _ J H1) as (J1 & X1 & _).
    pose proof (Kx_synify_app_id _ _ _ _ (jm_kinv _ _ J) Kk H1) as Kk1.
    pose proof (covers_ext _ _ _ X1 Cl) as Cl1. pose proof (covers_ext _ _ _ X1 Cr) as Cr1.
    apply mbind_inv in H. destruct H as (r1 & s2 & H2 & H).
    destruct (Jm_synify_app_id _ _ _ _ _ J1 H2) as (J2 & X2 & _).
    pose proof (Kx_synify_app_id _ _ _ _ (jm_kinv _ _ J1) Kk1 H2) as Kk2.
    pose proof (covers_ext _ _ _ X2 Cl1) as Cl2. pose proof (covers_ext _ _ _ X2 Cr1) as Cr2.
    apply mbind_inv in H. destruct H as (out & s3 & H3 & H).
    destruct (Jm_uint _ _ _ _ _ _ J2 Cl2 Cr2 H3) as [J3 X3].
    pose proof (Kx_uint _ _ _ _ _ _ J2 Kk2 Cl2 Cr2 H3) as Kk3.
    apply mbind_inv in H. destruct H as (u & s4 & H4 & H). inversion H; subst b s4; clear H.
    destruct (Jm_rebuild _ _ _ _ J3 H4) as (J4 & P4 & X4).
    pose proof (Kx_rebuild _ _ _ _ J3 Kk3 H4) as Kk4.
    split; [exact (B_intro _ J4 Kk4 P4 Hctr)|].
    exact (ext_trans _ _ _ X1 (ext_trans _ _ _ X2 (ext_trans _ _ _ X3 X4))).
  Qed.
End Interface.

Print Assumptions Jm_synify_app_id.
Print Assumptions Kx_synify_app_id.
Print Assumptions nf_eg_union.
Print Assumptions B_eg_union.
