(* EGraph/NoErrorBase.v — ERROR-FREEDOM of the e-graph model (C08, panic-freedom half): shared definitions.

   `nfr r`   : the result r is not a NON-FUEL error  (r = Err e -> e = OutOfFuel).
   `nf m s`  : running the monadic action m on s gives no non-fuel error.
   `tot r`   : r = Ok _ (used for the pure, fuel-free functions).
   Combinators `nf_bind`, `nf_ret`, `nf_reads`, `nf_lift`, `nf_iterM_inv`, ... to walk through Model.v.

   New invariants (the error sites they exclude are listed in NoError.v):
   - `src_ok s`  : the source id of every stored entry is an allocated class id.
   - `pend_ok s` : the pending worklist has no duplicate key and every pending key is a key of the hashcons.
   - `Jm E s`    : the bundle of all invariants used mid-operation (E = the hashcons exceptions in flight).
   Definitions and generic lemmas only. *)
From SE Require Import Slots.SlotMapFacts Group.GroupSound Lang.LangFacts Lang.ShapeFacts
  EGraph.Model EGraph.ModelFacts EGraph.ModelMachine EGraph.UnionFindFacts EGraph.InvariantFacts
  EGraph.UnionInvariantFacts EGraph.AddCoversFacts EGraph.Mod4Facts EGraph.MatchDefs EGraph.HashconsFacts
  EGraph.KidsFacts EGraph.SoundFacts EGraph.SoundSyn EGraph.SoundUnion EGraph.SoundStruct EGraph.UsesConvDef EGraph.SoundClosed.
Require Import ZArith Lia List.
Import ListNotations.

(* ------------------------------------------------------------------ *)
(* 1. "no non-fuel error" *)

Definition is_fuel_error (e : site) : Prop := e = OutOfFuel.

Definition nfr {A} (r : res A) : Prop := forall e, r = Err e -> is_fuel_error e.
Definition nf {A} (m : M A) (s : egraph) : Prop := nfr (m s).
Definition tot {A} (r : res A) : Prop := exists a, r = Ok a.

Lemma nfr_ok : forall A (a : A), nfr (Ok a).
Proof. intros A a e H. discriminate H. Qed.

Lemma nfr_fuel : forall A, nfr (@Err A OutOfFuel).
Proof. intros A e H. inversion H. reflexivity. Qed.

Lemma tot_nfr : forall A (r : res A), tot r -> nfr r.
Proof. intros A r [a ->]. apply nfr_ok. Qed.

Lemma nfr_bind : forall A C (r : res A) (f : A -> res C), nfr r -> (forall a, r = Ok a -> nfr (f a)) -> nfr (bind r f).
Proof.
  intros A C r f Hr Hf. destruct r as [a|e0]; cbn [bind].
  - apply Hf. reflexivity.
  - intros e H. inversion H; subst. apply Hr. reflexivity.
Qed.

Lemma tot_bind : forall A C (r : res A) (f : A -> res C), tot r -> (forall a, r = Ok a -> tot (f a)) -> tot (bind r f).
Proof. intros A C r f [a ->] Hf. cbn [bind]. apply Hf. reflexivity. Qed.

Lemma nf_ret : forall A (a : A) s, nf (ret a) s.
Proof. intros A a s. apply nfr_ok. Qed.

Lemma nf_bind : forall A C (m : M A) (k : A -> M C) s,
  nf m s -> (forall a s', m s = Ok (a, s') -> nf (k a) s') -> nf (mbind m k) s.
Proof.
  intros A C m k s Hm Hk. unfold nf, mbind in *. destruct (m s) as [[a s']|e0] eqn:E.
  - apply Hk. reflexivity.
  - intros e H. inversion H; subst. apply Hm. reflexivity.
Qed.

Lemma nf_reads : forall A (f : egraph -> res A) s, nfr (f s) -> nf (reads f) s.
Proof.
  intros A f s H. unfold nf, reads. destruct (f s) as [a|e0]; [apply nfr_ok|].
  intros e He. inversion He; subst. apply H. reflexivity.
Qed.

Lemma nf_lift : forall A (r : res A) s, nfr r -> nf (Model.lift r) s.
Proof.
  intros A r s H. unfold nf, Model.lift. destruct r as [a|e0]; [apply nfr_ok|].
  intros e He. inversion He; subst. apply H. reflexivity.
Qed.

Lemma nf_gets : forall A (f : egraph -> A) s, nf (gets f) s.
Proof. intros A f s. apply nfr_ok. Qed.

Lemma nf_modify : forall f s, nf (modify f) s.
Proof. intros f s. apply nfr_ok. Qed.

Lemma nf_fresh : forall s, nf fresh s.
Proof. intros s. apply nfr_ok. Qed.

Lemma nf_with_ctr : forall A (f : N -> A * N) s, nf (with_ctr f) s.
Proof. intros A f s. unfold nf, with_ctr. destruct (f (Model.ctr s)). apply nfr_ok. Qed.

Lemma nf_fail_fuel : forall A s, nf (@fail A OutOfFuel) s.
Proof. intros A s. apply nfr_fuel. Qed.

Lemma nf_pending_insert : forall sh ty s, nf (pending_insert sh ty) s.
Proof. intros. apply nfr_ok. Qed.

Lemma nf_pending_touch : forall sh ty s, nf (pending_touch sh ty) s.
Proof. intros. apply nfr_ok. Qed.

(* bind of a `reads`: the state is unchanged *)
Lemma nf_bind_reads : forall A C (f : egraph -> res A) (k : A -> M C) s,
  nfr (f s) -> (forall a, f s = Ok a -> nf (k a) s) -> nf (mbind (reads f) k) s.
Proof.
  intros A C f k s Hf Hk. unfold nf, mbind, reads in *. destruct (f s) as [a|e0].
  - apply Hk. reflexivity.
  - intros e H. inversion H; subst. apply Hf. reflexivity.
Qed.

Lemma nf_bind_lift : forall A C (r : res A) (k : A -> M C) s,
  nfr r -> (forall a, r = Ok a -> nf (k a) s) -> nf (mbind (Model.lift r) k) s.
Proof.
  intros A C r k s Hr Hk. unfold nf, mbind, Model.lift in *. destruct r as [a|e0].
  - apply Hk. reflexivity.
  - intros e H. inversion H; subst. apply Hr. reflexivity.
Qed.

(* loops with an invariant on the state *)
Lemma nf_iterM_inv : forall A (f : A -> M unit) (I : egraph -> Prop) l s,
  I s ->
  (forall x s0, In x l -> I s0 -> nf (f x) s0) ->
  (forall x s0 u s1, In x l -> I s0 -> f x s0 = Ok (u, s1) -> I s1) ->
  nf (iterM f l) s.
Proof.
  intros A f I. induction l as [|x t IH]; intros s Hs Hn Hp; cbn [iterM]; [apply nf_ret|].
  apply nf_bind.
  - apply Hn; [left; reflexivity|exact Hs].
  - intros u s1 H1. apply IH.
    + eapply Hp; [left; reflexivity|exact Hs|exact H1].
    + intros y s0 Hy. apply Hn. right. exact Hy.
    + intros y s0 u0 s2 Hy. apply Hp. right. exact Hy.
Qed.

Lemma iterM_inv_post : forall A (f : A -> M unit) (I : egraph -> Prop) l s u s',
  I s -> (forall x s0 u0 s1, In x l -> I s0 -> f x s0 = Ok (u0, s1) -> I s1) ->
  iterM f l s = Ok (u, s') -> I s'.
Proof.
  intros A f I. induction l as [|x t IH]; intros s u s' Hs Hp H; cbn [iterM] in H.
  - inversion H; subst. exact Hs.
  - apply mbind_inv in H. destruct H as (u1 & s1 & H1 & H).
    eapply IH; [| |exact H].
    + eapply Hp; [left; reflexivity|exact Hs|exact H1].
    + intros y s0 u0 s2 Hy. apply Hp. right. exact Hy.
Qed.

Lemma nf_mapM_inv : forall A C (f : A -> M C) (I : egraph -> Prop) l s,
  I s ->
  (forall x s0, In x l -> I s0 -> nf (f x) s0) ->
  (forall x s0 u s1, In x l -> I s0 -> f x s0 = Ok (u, s1) -> I s1) ->
  nf (mapM f l) s.
Proof.
  intros A C f I. induction l as [|x t IH]; intros s Hs Hn Hp; cbn [mapM]; [apply nf_ret|].
  apply nf_bind.
  - apply Hn; [left; reflexivity|exact Hs].
  - intros u s1 H1. apply nf_bind; [|intros; apply nf_ret]. apply IH.
    + eapply Hp; [left; reflexivity|exact Hs|exact H1].
    + intros y s0 Hy. apply Hn. right. exact Hy.
    + intros y s0 u0 s2 Hy. apply Hp. right. exact Hy.
Qed.

Lemma nfr_mapr : forall A C (f : A -> res C) l, (forall x, In x l -> nfr (f x)) -> nfr (mapr f l).
Proof.
  intros A C f. induction l as [|x t IH]; intros H; cbn [mapr]; [apply nfr_ok|].
  apply nfr_bind; [apply H; left; reflexivity|]. intros y _.
  apply nfr_bind; [apply IH; intros z Hz; apply H; right; exact Hz|]. intros r _. apply nfr_ok.
Qed.

Lemma tot_mapr : forall A C (f : A -> res C) l, (forall x, In x l -> tot (f x)) -> tot (mapr f l).
Proof.
  intros A C f. induction l as [|x t IH]; intros H; cbn [mapr]; [eexists; reflexivity|].
  apply tot_bind; [apply H; left; reflexivity|]. intros y _.
  apply tot_bind; [apply IH; intros z Hz; apply H; right; exact Hz|]. intros r _. eexists; reflexivity.
Qed.

Lemma tot_allr : forall A (f : A -> res bool) l, (forall x, In x l -> tot (f x)) -> tot (allr f l).
Proof.
  intros A f. induction l as [|x t IH]; intros H; cbn [allr]; [eexists; reflexivity|].
  apply tot_bind; [apply H; left; reflexivity|]. intros b _. destruct b; [|eexists; reflexivity].
  apply IH. intros z Hz. apply H. right. exact Hz.
Qed.

(* ------------------------------------------------------------------ *)
(* 2. the new invariants *)

(* the source id of every stored entry is an allocated class id *)
Definition src_ok (s : egraph) : Prop :=
  forall i c sh bij src, get_class s i = Ok c -> In (sh, (bij, src)) (c_nodes c) -> (N.to_nat src < lc s)%nat.

(* the worklist: no duplicate key; every pending key is a key of the hashcons *)
Definition pend_ok (s : egraph) : Prop :=
  na_nodup (pending s) /\
  forall sh ty, na_get (pending s) sh = Some ty -> exists i, na_get (hashcons s) sh = Some i.

(* the invariants available between the steps of one operation; E = the hashcons exceptions in flight *)
Record Jm (E : node -> Prop) (s : egraph) : Prop := {
  jm_kinv : kinv s;              (* inv3 (eg_inv2 + nodes_ok), m4, kids_ok *)
  jm_hce  : hce E s;             (* tab_ok + stale => pending \/ canon \/ E *)
  jm_uc   : uses_conv s;
  jm_st2  : stored2 s;
  jm_syn  : syn_wf s;
  jm_src  : src_ok s;
  jm_pend : pend_ok s }.

(* the specification of the recursive call of union_internal used by the union core *)
Definition ui_nf (ui : appid -> appid -> M bool) : Prop :=
  forall E l r s, kinv s -> hce E s -> covers s l -> covers s r -> nf (ui l r) s.

(* ------------------------------------------------------------------ *)
(* 3. range facts *)

Lemma kinv_eg_inv : forall s, kinv s -> eg_inv s.
Proof. intros s [[[H _] _] _]. exact H. Qed.
Lemma kinv_inv3 : forall s, kinv s -> inv3 s.
Proof. intros s [H _]. exact H. Qed.
Lemma kinv_uf_ok : forall s, kinv s -> uf_ok s.
Proof. intros s H. exact (ei_uf s (kinv_eg_inv s H)). Qed.
Lemma kinv_slots : forall s, kinv s -> uf_slots_ok s.
Proof. intros s H. exact (ei_slots s (kinv_eg_inv s H)). Qed.
Lemma kinv_wf : forall s, kinv s -> eg_wf s.
Proof. intros s H. exact (uso_wf s (kinv_slots s H)). Qed.
Lemma kinv_kids : forall s, kinv s -> kids_ok s.
Proof. intros s [_ [_ H]]. exact H. Qed.

Lemma get_class_tot : forall s i, (N.to_nat i < lc s)%nat -> tot (get_class s i).
Proof. intros s i H. destruct (get_class_ok s i H) as [c Hc]. exists c. exact Hc. Qed.

Lemma nf_upd_class : forall i f s, (N.to_nat i < lc s)%nat -> nf (upd_class i f) s.
Proof.
  intros i f s H. unfold nf, upd_class. destruct (nth_opt_some_lt (classes s) _ H) as [c ->]. apply nfr_ok.
Qed.

Lemma upd_class_lc : forall i f s u s', upd_class i f s = Ok (u, s') -> lc s' = lc s /\ lu s' = lu s.
Proof.
  intros i f s u s' H. unfold upd_class in H. destruct (nth_opt (classes s) (N.to_nat i)); [|discriminate].
  inversion H; subst. unfold set_classes. cbn [classes unionfind]. rewrite set_nth_length. split; reflexivity.
Qed.

Lemma nf_unionfind_set : forall i p s, (N.to_nat i <= lu s)%nat -> nf (unionfind_set i p) s.
Proof.
  intros i p s H. unfold nf, unionfind_set. cbv zeta.
  destruct (Nat.eqb (lu s) (N.to_nat i)) eqn:E1; [apply nfr_ok|].
  destruct (Nat.ltb (N.to_nat i) (lu s)) eqn:E2; [apply nfr_ok|].
  apply Nat.eqb_neq in E1. apply Nat.ltb_ge in E2. lia.
Qed.

Lemma find_applied_id_tot : forall s a, uf_ok s -> (N.to_nat (aid a) < lu s)%nat -> tot (find_applied_id s a).
Proof. intros s a H L. destruct (find_applied_id_ok s a H L) as [b Hb]. exists b. exact Hb. Qed.

Lemma find_enode_tot : forall s n, uf_ok s -> (forall j, In j (node_ids n) -> (N.to_nat j < lu s)%nat) -> tot (find_enode s n).
Proof.
  intros s n H L. unfold find_enode. apply tot_bind; [|intros l _; eexists; reflexivity].
  apply tot_mapr. intros a Ha. apply find_applied_id_tot; [exact H|]. apply L. unfold node_ids. apply in_map. exact Ha.
Qed.

(* the weak shape (checks = false) never fails *)
Lemma wshape_tot : forall n, tot (wshape n).
Proof.
  intros n. unfold wshape, weak_shape. destruct (ws_args false (nargs n) ([], 0)) as [l m].
  unfold inverse. cbn [andb bind]. eexists; reflexivity.
Qed.

Lemma nf_pc_congruence : forall a b s, nf (pc_congruence a b) s.
Proof.
  intros a b s. unfold pc_congruence.
  apply nf_bind_lift; [apply tot_nfr, wshape_tot|]. intros sa _.
  apply nf_bind_lift; [apply tot_nfr, wshape_tot|]. intros sb _.
  apply nf_bind; [apply nf_with_ctr|]. intros m s1 _.
  apply nf_bind; [apply nf_with_ctr|]. intros x s2 _.
  apply nf_bind; [apply nf_with_ctr|]. intros bm s3 _. apply nf_ret.
Qed.

Lemma covers_lt : forall s a, covers s a -> (N.to_nat (aid a) < lc s)%nat.
Proof. intros s a (c & Hc & _). eapply get_class_lt; eauto. Qed.

(* ------------------------------------------------------------------ *)
(* 4. THE KEY SITE: `pc_from_shape` inside `handle_congruence` (`.expect("handle_congruence should only be
   called on hashcons collision!")`).  At the call, the key looked up by handle_pending (shape of the re-canonicalised
   stored node) hits the hashcons; handle_congruence looks up the shape of the (pre-shaped) syntactic node of the
   source id of the entry instead.  That the second key is the same key follows from the run invariant KS of
   EGraph/SoundClosed.v (every stored key is nc-related to the syntactic node of its source; `shape` does not
   distinguish nc-related nodes).  `Kx` collects the run invariants of SoundClosed.v that this needs; it is only
   needed at the ENTRY of handle_pending (and is kept by handle_pending / uint as a whole: SoundClosed.xinv_closed).
   `HC_hit` is the statement, in the exact context of the call; it is PROVED in EGraph/NoErrorKey.v (`HC_hit_proved`);
   the files NoErrorPending.v / NoErrorAdd.v take it as a premise. *)
Definition Kx (s : egraph) : Prop := mod4_ok s /\ SC2 s /\ KC2 s.

Definition HC_hit : Prop :=
  forall s sh i c bij0 src nd u1 sA cA enode0 i0 enode i1 sB t x pc1 t1,
    Jm (fun y => y = sh) s -> Kx s -> na_get (pending s) sh = None ->
    na_get (hashcons s) sh = Some i -> get_class s i = Ok c -> na_get (c_nodes c) sh = Some (bij0, src) ->
    apply_slotmap false bij0 sh = Ok nd ->
    raw_remove_from_class i sh s = Ok (u1, sA) -> get_class sA i = Ok cA ->
    find_enode sA nd = Ok enode0 -> find_applied_id sA {| aid := i; am := identity (c_slots cA) |} = Ok i0 ->
    hp_loop 100 src enode0 i0 sA = Ok ((enode, i1), sB) ->
    shape sB enode = Ok t -> lookup_internal sB t = Ok (Some x) ->
    pc_from_src_id sB src = Ok pc1 -> shape sB (fst pc1) = Ok t1 ->
    na_get (hashcons sB) (fst t1) <> None.
